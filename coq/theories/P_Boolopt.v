(* P_Boolopt.v — theorems about the model of the boolean optimizer (M_Boolopt.v):
   every transformer preserves the value of every expression under every
   assignment; merge_expressions, apply_cse and the shipped profiles (and every
   prefix of them) preserve the function assigned to every _ret symbol, under
   the stated contracts of the sympy calls; no free symbol is introduced and no
   _ret symbol is lost.  Where the statement at full strength is false of the
   model (apply_cse and defaultOptimizer on lists in which an expression reads a
   symbol the list defines) a *_refuted theorem gives the witness and a
   *_partial theorem the exact guard. *)
From Coq Require Import List Bool Arith Lia.
From QV Require Import Bexp BexpTT M_Boolopt.
Import ListNotations.

(* ------------------------------------------------------------------ *)
(* induction that also hands out, in the Or case, the hypotheses for the
   arguments of arguments that are conjunctions (needed by transform_or2xor,
   which looks two levels down) *)
Definition and_args (Q : bexp -> Prop) (x : bexp) : Prop :=
  match x with BAnd m => Forall Q m | _ => True end.

Lemma bexp_ind_or2 (Q : bexp -> Prop) :
  (forall b, Q (BConst b)) -> (forall i, Q (BSym i)) -> (forall e, Q e -> Q (BNot e)) ->
  (forall l, Forall Q l -> Q (BAnd l)) ->
  (forall l, Forall Q l -> Forall (and_args Q) l -> Q (BOr l)) ->
  (forall l, Forall Q l -> Q (BXor l)) ->
  (forall c t e, Q c -> Q t -> Q e -> Q (BIte c t e)) ->
  (forall a b, Q a -> Q b -> Q (BImp a b)) ->
  forall e, Q e.
Proof.
  intros Hc Hs Hn Ha Ho Hx Hi Hm e.
  enough (HQ : Q e /\ and_args Q e) by exact (proj1 HQ).
  induction e as [b|i|e IH|l IH|l IH|l IH|c t e IHc IHt IHe|a b IHa IHb] using bexp_ind2;
    cbn [and_args].
  - split; [apply Hc|exact I].
  - split; [apply Hs|exact I].
  - split; [apply Hn; exact (proj1 IH)|exact I].
  - assert (HF : Forall Q l) by (eapply Forall_impl; [|exact IH]; intros x Hx0; exact (proj1 Hx0)).
    split; [apply Ha; exact HF|exact HF].
  - split; [|exact I]. apply Ho.
    + eapply Forall_impl; [|exact IH]. intros x Hx0; exact (proj1 Hx0).
    + eapply Forall_impl; [|exact IH]. intros x Hx0; exact (proj2 Hx0).
  - split; [|exact I]. apply Hx. eapply Forall_impl; [|exact IH]. intros x Hx0; exact (proj1 Hx0).
  - split; [|exact I]. apply Hi; [exact (proj1 IHc)|exact (proj1 IHt)|exact (proj1 IHe)].
  - split; [|exact I]. apply Hm; [exact (proj1 IHa)|exact (proj1 IHb)].
Qed.

(* ------------------------------------------------------------------ *)
(* structural equality *)
Lemma bexp_eqb_eq : forall a b, bexp_eqb a b = true -> a = b.
Proof.
  intros a. induction a as [x|i|a IH|l IH|l IH|l IH|c t e IHc IHt IHe|a1 a2 IH1 IH2] using bexp_ind2;
    intros b Hab; destruct b as [y|j|b|m|m|m|c' t' e'|b1 b2]; cbn [bexp_eqb] in Hab; try discriminate Hab.
  - apply Bool.eqb_prop in Hab. now subst.
  - apply Nat.eqb_eq in Hab. now subst.
  - f_equal. now apply IH.
  - f_equal. revert m Hab. induction IH as [|x r Hx _ IHr]; intros [|y m'] Hab; try discriminate Hab; [reflexivity|].
    apply andb_true_iff in Hab as [H1 H2]. f_equal; [now apply Hx|now apply IHr].
  - f_equal. revert m Hab. induction IH as [|x r Hx _ IHr]; intros [|y m'] Hab; try discriminate Hab; [reflexivity|].
    apply andb_true_iff in Hab as [H1 H2]. f_equal; [now apply Hx|now apply IHr].
  - f_equal. revert m Hab. induction IH as [|x r Hx _ IHr]; intros [|y m'] Hab; try discriminate Hab; [reflexivity|].
    apply andb_true_iff in Hab as [H1 H2]. f_equal; [now apply Hx|now apply IHr].
  - apply andb_true_iff in Hab as [Hab H3]. apply andb_true_iff in Hab as [H1 H2].
    f_equal; [now apply IHc|now apply IHt|now apply IHe].
  - apply andb_true_iff in Hab as [H1 H2]. f_equal; [now apply IH1|now apply IH2].
Qed.

Lemma list_bexp_eqb_eq : forall l m, list_eqb bexp_eqb l m = true -> l = m.
Proof.
  induction l as [|x l IH]; intros [|y m] H; cbn [list_eqb] in H; try discriminate H; [reflexivity|].
  apply andb_true_iff in H as [H1 H2]. f_equal; [now apply bexp_eqb_eq|now apply IH].
Qed.

(* ------------------------------------------------------------------ *)
(* evaluation helpers *)
Lemma beval_syms_ext env1 env2 e :
  (forall i, In i (bsyms e) -> env1 i = env2 i) -> beval env1 e = beval env2 e.
Proof. apply (geval_ext bool_alg). Qed.

Lemma snot_beval env e : beval env (snot e) = negb (beval env e).
Proof.
  destruct e as [b|i|x|l|l|l|c t f|a b]; try reflexivity.
  - now destruct b.
  - cbn [snot]. rewrite beval_not. now rewrite negb_involutive.
Qed.

Lemma snot_syms e : bsyms (snot e) = bsyms e.
Proof. destruct e; reflexivity. Qed.

Section MapEval.
  Variables (env env' : nat -> bool) (T : bexp -> bexp).
  Let Q (x : bexp) : Prop := beval env (T x) = beval env' x.

  Lemma beval_and_map l : Forall Q l -> beval env (BAnd (map T l)) = beval env' (BAnd l).
  Proof.
    intros H. rewrite !beval_and. induction H as [|x r Hx _ IHr]; cbn [map forallb]; [reflexivity|].
    unfold Q in Hx. now rewrite Hx, IHr.
  Qed.
  Lemma beval_or_map l : Forall Q l -> beval env (BOr (map T l)) = beval env' (BOr l).
  Proof.
    intros H. rewrite !beval_or. induction H as [|x r Hx _ IHr]; cbn [map existsb]; [reflexivity|].
    unfold Q in Hx. now rewrite Hx, IHr.
  Qed.
  Lemma beval_xor_map l : Forall Q l -> beval env (BXor (map T l)) = beval env' (BXor l).
  Proof.
    intros H. rewrite !beval_xor. induction H as [|x r Hx _ IHr]; cbn [map fold_right]; [reflexivity|].
    unfold Q in Hx. now rewrite Hx, IHr.
  Qed.
End MapEval.

(* ------------------------------------------------------------------ *)
(* the transformers preserve the value of every expression, for every
   assignment (arbitrary arities everywhere) *)
Section Transformers.
  Variable env : nat -> bool.

  Theorem visit_default_preserves e : beval env (visit_default e) = beval env e.
  Proof.
    induction e as [b|i|e IH|l IH|l IH|l IH|c t e IHc IHt IHe|a b IHa IHb] using bexp_ind2;
      cbn [visit_default]; try reflexivity.
    - now rewrite snot_beval, beval_not, IH.
    - now apply beval_and_map.
    - now apply beval_or_map.
    - now apply beval_xor_map.
    - now rewrite !beval_ite, IHc, IHt, IHe.
    - now rewrite !beval_imp, IHa, IHb.
  Qed.

  Theorem remove_ITE_preserves e : beval env (remove_ITE e) = beval env e.
  Proof.
    induction e as [b|i|e IH|l IH|l IH|l IH|c t e IHc IHt IHe|a b IHa IHb] using bexp_ind2;
      cbn [remove_ITE]; try reflexivity.
    - now rewrite snot_beval, beval_not, IH.
    - now apply beval_and_map.
    - now apply beval_or_map.
    - now apply beval_xor_map.
    - rewrite beval_or. cbn [existsb]. rewrite !beval_and. cbn [forallb].
      rewrite snot_beval, IHc, IHt, IHe, beval_ite.
      destruct (beval env c), (beval env t), (beval env e); reflexivity.
    - now rewrite !beval_imp, IHa, IHb.
  Qed.

  Theorem remove_Implies_preserves e : beval env (remove_Implies e) = beval env e.
  Proof.
    induction e as [b|i|e IH|l IH|l IH|l IH|c t e IHc IHt IHe|a b IHa IHb] using bexp_ind2;
      cbn [remove_Implies]; try reflexivity.
    - now rewrite snot_beval, beval_not, IH.
    - now apply beval_and_map.
    - now apply beval_or_map.
    - now apply beval_xor_map.
    - now rewrite !beval_ite, IHc, IHt, IHe.
    - rewrite beval_or. cbn [existsb]. rewrite snot_beval, IHa, IHb, beval_imp.
      destruct (beval env a), (beval env b); reflexivity.
  Qed.

  (* -- transform_or2xor -- *)
  Lemma or2xor_unfold l :
    transform_or2xor (BOr l) =
    match or2xor_match l with
    | Some (p, q) => BNot (BXor [transform_or2xor p; transform_or2xor q])
    | None => BOr (map transform_or2xor l)
    end.
  Proof.
    destruct l as [|x [|y [|z r]]]; try reflexivity.
    - destruct x as [ | | |[|p [|q [|p3 pr]]]| | | | ]; reflexivity.
    - destruct x as [ | | |[|p [|q [|p3 pr]]]| | | | ]; try reflexivity.
      destruct y as [ | | |[|r0 [|s0 [|s3 sr]]]| | | | ]; try reflexivity.
      cbn [transform_or2xor or2xor_match]. destruct (or2xor_test p q r0 s0); reflexivity.
    - destruct x as [ | | |[|p [|q [|p3 pr]]]| | | | ]; try reflexivity.
      destruct y as [ | | |[|r0 [|s0 [|s3 sr]]]| | | | ]; reflexivity.
  Qed.

  Lemma or2xor_match_some l p q : or2xor_match l = Some (p, q) ->
    exists r s, l = [BAnd [p; q]; BAnd [r; s]] /\ or2xor_test p q r s = true.
  Proof.
    intros H. destruct l as [|x [|y [|z r]]]; try discriminate H.
    - destruct x as [ | | |[|p1 [|q1 [|p3 pr]]]| | | | ]; discriminate H.
    - destruct x as [ | | |[|p1 [|q1 [|p3 pr]]]| | | | ]; try discriminate H.
      destruct y as [ | | |[|r0 [|s0 [|s3 sr]]]| | | | ]; try discriminate H.
      cbn [or2xor_match] in H. destruct (or2xor_test p1 q1 r0 s0) eqn:Ht; [|discriminate H].
      injection H as -> ->. now exists r0, s0.
    - destruct x as [ | | |[|p1 [|q1 [|p3 pr]]]| | | | ]; try discriminate H.
      destruct y as [ | | |[|r0 [|s0 [|s3 sr]]]| | | | ]; discriminate H.
  Qed.

  Lemma or2xor_test_sem p q r s : or2xor_test p q r s = true ->
    beval env r = negb (beval env p) /\ beval env s = negb (beval env q).
  Proof.
    unfold or2xor_test. intros H. apply orb_true_iff in H as [H|H];
      apply andb_true_iff in H as [H1 H2]; apply bexp_eqb_eq in H1; apply bexp_eqb_eq in H2.
    - subst r s. now rewrite !snot_beval.
    - subst p q. rewrite !snot_beval, !negb_involutive. now split.
  Qed.

  Theorem or2xor_preserves e : beval env (transform_or2xor e) = beval env e.
  Proof.
    induction e as [b|i|e IH|l IH|l IH IH2|l IH|c t e IHc IHt IHe|a b IHa IHb] using bexp_ind_or2.
    - reflexivity.
    - reflexivity.
    - cbn [transform_or2xor]. now rewrite snot_beval, beval_not, IH.
    - cbn [transform_or2xor]. now apply beval_and_map.
    - rewrite or2xor_unfold. destruct (or2xor_match l) as [[p q]|] eqn:Hm.
      + apply or2xor_match_some in Hm as (r & s & -> & Ht).
        apply or2xor_test_sem in Ht as [Hr Hs].
        inversion IH2 as [|x0 l0 Hpq _]; subst. cbn [and_args] in Hpq.
        inversion Hpq as [|x1 l1 Hp Hq']; subst. inversion Hq' as [|x2 l2 Hq _]; subst.
        rewrite beval_not, beval_xor. cbn [map fold_right]. rewrite Hp, Hq.
        rewrite beval_or. cbn [existsb]. rewrite !beval_and. cbn [forallb]. rewrite Hr, Hs.
        destruct (beval env p), (beval env q); reflexivity.
      + now apply beval_or_map.
    - cbn [transform_or2xor]. now apply beval_xor_map.
    - cbn [transform_or2xor]. now rewrite !beval_ite, IHc, IHt, IHe.
    - cbn [transform_or2xor]. now rewrite !beval_imp, IHa, IHb.
  Qed.

  (* -- transform_or2and, both values of DISABLE_OR -- *)
  Lemma nand_of_nots (T : bexp -> bexp) l :
    Forall (fun x => beval env (T x) = beval env x) l ->
    forallb (beval env) (map (fun x => snot (T x)) l) = negb (existsb (beval env) l).
  Proof.
    intros H. induction H as [|x r Hx _ IHr]; cbn [map forallb existsb]; [reflexivity|].
    now rewrite snot_beval, Hx, IHr, negb_orb.
  Qed.

  Theorem or2and_preserves dis e : beval env (transform_or2and dis e) = beval env e.
  Proof.
    induction e as [b|i|e IH|l IH|l IH|l IH|c t e IHc IHt IHe|a b IHa IHb] using bexp_ind2;
      cbn [transform_or2and]; try reflexivity.
    - now rewrite snot_beval, beval_not, IH.
    - now apply beval_and_map.
    - destruct (Nat.ltb 2 (List.length l) || dis); [|reflexivity].
      rewrite beval_not, beval_and, beval_or, (nand_of_nots _ l IH). apply negb_involutive.
    - now apply beval_xor_map.
    - now rewrite !beval_ite, IHc, IHt, IHe.
    - now rewrite !beval_imp, IHa, IHb.
  Qed.

  (* -- remove_obvious_expr -- *)
  Lemma compl_pair_sem x y : compl_pair x y = true -> beval env y = negb (beval env x).
  Proof.
    destruct x as [ |i|z| | | | | ]; try discriminate; destruct y as [ |j|z'| | | | | ]; try discriminate;
      cbn [compl_pair]; intros H; apply bexp_eqb_eq in H; subst.
    - reflexivity.
    - rewrite beval_not. now rewrite negb_involutive.
  Qed.

  Theorem remove_obvious_preserves e : beval env (remove_obvious e) = beval env e.
  Proof.
    induction e as [b|i|e IH|l IH|l IH|l IH|c t e IHc IHt IHe|a b IHa IHb] using bexp_ind2;
      cbn [remove_obvious]; try reflexivity.
    - destruct e as [ | |y| | | | | ]; try reflexivity.
      rewrite !beval_not. now rewrite negb_involutive.
    - destruct l as [|x [|y [|z r]]]; try reflexivity.
      destruct (compl_pair x y) eqn:Hc; [|reflexivity].
      rewrite beval_and. cbn [forallb]. rewrite (compl_pair_sem _ _ Hc).
      now destruct (beval env x).
    - destruct l as [|x [|y [|z r]]]; try reflexivity.
      destruct (compl_pair x y) eqn:Hc; [|reflexivity].
      rewrite beval_or. cbn [existsb]. rewrite (compl_pair_sem _ _ Hc).
      now destruct (beval env x).
    - now apply beval_xor_map.
    - now rewrite !beval_ite, IHc, IHt, IHe.
    - now rewrite !beval_imp, IHa, IHb.
  Qed.
End Transformers.

(* ------------------------------------------------------------------ *)
(* The second self.visit of remove_ITE.visit_ITE / remove_Implies.visit_Implies
   (on the node just built from visited children) changes nothing: the output
   of the transformer is a fixed point of the transformer. *)
Definition not_arg_ok (x : bexp) : bool :=
  match x with BNot _ | BConst _ => false | _ => true end.

(* no Not over a Not or a constant; ITE allowed iff [ai], Implies iff [am] *)
Fixpoint nf (ai am : bool) (e : bexp) : bool :=
  match e with
  | BConst _ | BSym _ => true
  | BNot x => not_arg_ok x && nf ai am x
  | BAnd l | BOr l | BXor l => forallb (nf ai am) l
  | BIte c t f => ai && nf ai am c && nf ai am t && nf ai am f
  | BImp a b => am && nf ai am a && nf ai am b
  end.

Lemma snot_nf ai am e : nf ai am e = true -> nf ai am (snot e) = true.
Proof.
  destruct e as [b|i|x|l|l|l|c t f|a b]; intros H; cbn [snot]; try exact H;
    try (cbn [nf not_arg_ok] in *; rewrite H; reflexivity).
  cbn [nf] in H. apply andb_true_iff in H. exact (proj2 H).
Qed.

Lemma snot_of_ok x : not_arg_ok x = true -> snot x = BNot x.
Proof. destruct x; try reflexivity; discriminate. Qed.

Lemma forallb_map_true (p : bexp -> bool) (T : bexp -> bexp) l :
  Forall (fun x => p (T x) = true) l -> forallb p (map T l) = true.
Proof. intros H. induction H as [|x r Hx _ IHr]; cbn [map forallb]; [reflexivity|now rewrite Hx, IHr]. Qed.

Lemma map_fix_forall (p : bexp -> bool) (T : bexp -> bexp) l :
  Forall (fun x => p x = true -> T x = x) l -> forallb p l = true -> map T l = l.
Proof.
  intros H. induction H as [|x r Hx _ IHr]; cbn [map forallb]; intros Hp; [reflexivity|].
  apply andb_true_iff in Hp as [H1 H2]. now rewrite Hx, IHr.
Qed.

Lemma remove_ITE_nf e : nf false true (remove_ITE e) = true.
Proof.
  induction e as [b|i|e IH|l IH|l IH|l IH|c t e IHc IHt IHe|a b IHa IHb] using bexp_ind2;
    cbn [remove_ITE]; try reflexivity.
  - now apply snot_nf.
  - cbn [nf]. now apply forallb_map_true.
  - cbn [nf]. now apply forallb_map_true.
  - cbn [nf]. now apply forallb_map_true.
  - cbn [nf forallb]. rewrite IHc, IHt, IHe, (snot_nf _ _ _ IHc). reflexivity.
  - cbn [nf]. now rewrite IHa, IHb.
Qed.

Lemma remove_ITE_fixed e : nf false true e = true -> remove_ITE e = e.
Proof.
  induction e as [b|i|e IH|l IH|l IH|l IH|c t e IHc IHt IHe|a b IHa IHb] using bexp_ind2;
    cbn [remove_ITE nf]; intros H; try reflexivity.
  - apply andb_true_iff in H as [H1 H2]. rewrite (IH H2). now apply snot_of_ok.
  - f_equal. now apply (map_fix_forall (nf false true)).
  - f_equal. now apply (map_fix_forall (nf false true)).
  - f_equal. now apply (map_fix_forall (nf false true)).
  - discriminate H.
  - cbn [andb] in H. apply andb_true_iff in H as [H1 H2]. now rewrite IHa, IHb.
Qed.

Theorem remove_ITE_idem e : remove_ITE (remove_ITE e) = remove_ITE e.
Proof. apply remove_ITE_fixed, remove_ITE_nf. Qed.

Lemma remove_Implies_nf e : nf true false (remove_Implies e) = true.
Proof.
  induction e as [b|i|e IH|l IH|l IH|l IH|c t e IHc IHt IHe|a b IHa IHb] using bexp_ind2;
    cbn [remove_Implies]; try reflexivity.
  - now apply snot_nf.
  - cbn [nf]. now apply forallb_map_true.
  - cbn [nf]. now apply forallb_map_true.
  - cbn [nf]. now apply forallb_map_true.
  - cbn [nf]. now rewrite IHc, IHt, IHe.
  - cbn [nf forallb]. now rewrite IHb, (snot_nf _ _ _ IHa).
Qed.

Lemma remove_Implies_fixed e : nf true false e = true -> remove_Implies e = e.
Proof.
  induction e as [b|i|e IH|l IH|l IH|l IH|c t e IHc IHt IHe|a b IHa IHb] using bexp_ind2;
    cbn [remove_Implies nf]; intros H; try reflexivity.
  - apply andb_true_iff in H as [H1 H2]. rewrite (IH H2). now apply snot_of_ok.
  - f_equal. now apply (map_fix_forall (nf true false)).
  - f_equal. now apply (map_fix_forall (nf true false)).
  - f_equal. now apply (map_fix_forall (nf true false)).
  - cbn [andb] in H. apply andb_true_iff in H as [H H3]. apply andb_true_iff in H as [H1 H2].
    now rewrite IHc, IHt, IHe.
  - discriminate H.
Qed.

Theorem remove_Implies_idem e : remove_Implies (remove_Implies e) = remove_Implies e.
Proof. apply remove_Implies_fixed, remove_Implies_nf. Qed.

(* ------------------------------------------------------------------ *)
(* no transformer introduces a symbol *)
Definition syms_sub (T : bexp -> bexp) (x : bexp) : Prop :=
  forall i, In i (bsyms (T x)) -> In i (bsyms x).

Lemma in_flat_map_map (T : bexp -> bexp) l :
  Forall (syms_sub T) l -> forall i, In i (flat_map bsyms (map T l)) -> In i (flat_map bsyms l).
Proof.
  intros H i Hi. apply in_flat_map in Hi as [y [Hy Hi]]. apply in_map_iff in Hy as [x [<- Hx]].
  rewrite Forall_forall in H. apply in_flat_map. exists x. split; [exact Hx|now apply H].
Qed.

Ltac syms_tac :=
  let i := fresh "i" in let H := fresh "Hin" in
  intros i H; cbn [bsyms flat_map] in *; rewrite ?snot_syms, ?app_nil_r in *;
  rewrite ?in_app_iff in *; intuition auto.

Lemma remove_ITE_syms e : syms_sub remove_ITE e.
Proof.
  unfold syms_sub.
  induction e as [b|i|e IH|l IH|l IH|l IH|c t e IHc IHt IHe|a b IHa IHb] using bexp_ind2;
    cbn [remove_ITE]; try (intros i0 H0; exact H0).
  - syms_tac.
  - cbn [bsyms]. now apply in_flat_map_map.
  - cbn [bsyms]. now apply in_flat_map_map.
  - cbn [bsyms]. now apply in_flat_map_map.
  - syms_tac.
  - syms_tac.
Qed.

Lemma remove_Implies_syms e : syms_sub remove_Implies e.
Proof.
  unfold syms_sub.
  induction e as [b|i|e IH|l IH|l IH|l IH|c t e IHc IHt IHe|a b IHa IHb] using bexp_ind2;
    cbn [remove_Implies]; try (intros i0 H0; exact H0).
  - syms_tac.
  - cbn [bsyms]. now apply in_flat_map_map.
  - cbn [bsyms]. now apply in_flat_map_map.
  - cbn [bsyms]. now apply in_flat_map_map.
  - syms_tac.
  - syms_tac.
Qed.

Lemma or2xor_syms e : syms_sub transform_or2xor e.
Proof.
  unfold syms_sub.
  induction e as [b|i|e IH|l IH|l IH IH2|l IH|c t e IHc IHt IHe|a b IHa IHb] using bexp_ind_or2.
  - intros i0 H0; exact H0.
  - intros i0 H0; exact H0.
  - cbn [transform_or2xor]. syms_tac.
  - cbn [transform_or2xor bsyms]. now apply in_flat_map_map.
  - rewrite or2xor_unfold. destruct (or2xor_match l) as [[p q]|] eqn:Hm.
    + apply or2xor_match_some in Hm as (r & s & -> & _).
      inversion IH2 as [|x0 l0 Hpq _]; subst. cbn [and_args] in Hpq.
      inversion Hpq as [|x1 l1 Hp Hq']; subst. inversion Hq' as [|x2 l2 Hq _]; subst.
      syms_tac.
    + cbn [bsyms]. now apply in_flat_map_map.
  - cbn [transform_or2xor bsyms]. now apply in_flat_map_map.
  - cbn [transform_or2xor]. syms_tac.
  - cbn [transform_or2xor]. syms_tac.
Qed.

Lemma or2and_syms dis e : syms_sub (transform_or2and dis) e.
Proof.
  unfold syms_sub.
  induction e as [b|i|e IH|l IH|l IH|l IH|c t e IHc IHt IHe|a b IHa IHb] using bexp_ind2;
    cbn [transform_or2and]; try (intros i0 H0; exact H0).
  - syms_tac.
  - cbn [bsyms]. now apply in_flat_map_map.
  - destruct (Nat.ltb 2 (List.length l) || dis); [|intros i0 H0; exact H0].
    cbn [bsyms]. apply (in_flat_map_map (fun x => snot (transform_or2and dis x))).
    eapply Forall_impl; [|exact IH]. intros x Hx i0. unfold syms_sub. rewrite snot_syms. apply Hx.
  - cbn [bsyms]. now apply in_flat_map_map.
  - syms_tac.
  - syms_tac.
Qed.

Lemma remove_obvious_syms e : syms_sub remove_obvious e.
Proof.
  unfold syms_sub.
  induction e as [b|i|e IH|l IH|l IH|l IH|c t e IHc IHt IHe|a b IHa IHb] using bexp_ind2;
    cbn [remove_obvious]; try (intros i0 H0; exact H0).
  - destruct e as [ | |y| | | | | ]; intros i0 H0; exact H0.
  - destruct l as [|x [|y [|z r]]]; try (intros i0 H0; exact H0).
    destruct (compl_pair x y); [intros i0 []|intros i0 H0; exact H0].
  - destruct l as [|x [|y [|z r]]]; try (intros i0 H0; exact H0).
    destruct (compl_pair x y); [intros i0 []|intros i0 H0; exact H0].
  - cbn [bsyms]. now apply in_flat_map_map.
  - syms_tac.
  - syms_tac.
Qed.

(* ------------------------------------------------------------------ *)
(* lists of definitions *)

(* every symbol an expression reads is allowed: [ok] initially (the inputs),
   then also the symbols defined earlier in the list *)
Fixpoint free_ok (ok : nat -> Prop) (ds : defs) : Prop :=
  match ds with
  | [] => True
  | (s, e) :: r => (forall i, In i (bsyms e) -> ok i) /\ free_ok (fun i => ok i \/ i = s) r
  end.

Lemma free_ok_mono ds : forall (ok1 ok2 : nat -> Prop),
  (forall i, ok1 i -> ok2 i) -> free_ok ok1 ds -> free_ok ok2 ds.
Proof.
  induction ds as [|[s e] r IH]; intros ok1 ok2 Hsub H; [exact I|].
  destruct H as [H1 H2]. split; [intros i Hi; apply Hsub, H1, Hi|].
  apply (IH (fun i => ok1 i \/ i = s)); [|exact H2]. intros i [Hi|Hi]; [left; apply Hsub, Hi|now right].
Qed.

Lemma free_ok_app a : forall ok b,
  free_ok ok (a ++ b) <-> free_ok ok a /\ free_ok (fun i => ok i \/ In i (names a)) b.
Proof.
  induction a as [|[s e] r IH]; intros ok b; cbn [app free_ok names map fst In].
  - split.
    + intros H. split; [exact I|]. eapply free_ok_mono; [|exact H]. intros i Hi; now left.
    + intros [_ H]. eapply free_ok_mono; [|exact H]. intros i [Hi|[]]; exact Hi.
  - rewrite IH. split.
    + intros [H1 [H2 H3]]. split; [now split|]. eapply free_ok_mono; [|exact H3].
      intros i [[Hi|Hi]|Hi]; [now left|right; left; now symmetry|right; now right].
    + intros [[H1 H2] H3]. split; [exact H1|]. split; [exact H2|]. eapply free_ok_mono; [|exact H3].
      intros i [Hi|[Hi|Hi]]; [left; now left|left; right; now symmetry|now right].
Qed.

Lemma free_ok_syms ds : forall ok, free_ok ok ds ->
  forall i, In i (all_syms ds) -> ok i \/ In i (names ds).
Proof.
  induction ds as [|[s e] r IH]; intros ok H i Hi; [destruct Hi|].
  destruct H as [H1 H2]. unfold all_syms, exprs in Hi. cbn [map snd flat_map] in Hi.
  apply in_app_iff in Hi as [Hi|Hi]; [left; now apply H1|].
  destruct (IH _ H2 i Hi) as [[Hk|Hk]|Hk]; cbn [names map fst In].
  - now left.
  - right; left; now symmetry.
  - right; now right.
Qed.

Lemma names_map_defs T ds : names (map_defs T ds) = names ds.
Proof. unfold names, map_defs. rewrite map_map. reflexivity. Qed.

Lemma free_ok_map_defs T : (forall e, syms_sub T e) ->
  forall ds ok, free_ok ok ds -> free_ok ok (map_defs T ds).
Proof.
  intros HT. induction ds as [|[s e] r IH]; intros ok H; [exact I|].
  destruct H as [H1 H2]. cbn [map_defs map fst snd free_ok]. split.
  - intros i Hi. apply H1. now apply HT.
  - now apply IH.
Qed.

Lemma run_defs_map_defs T : (forall env e, beval env (T e) = beval env e) ->
  forall ds env j, run_defs env (map_defs T ds) j = run_defs env ds j.
Proof.
  intros HT. induction ds as [|[s e] r IH]; intros env j; [reflexivity|].
  cbn [map_defs map fst snd]. rewrite !run_defs_cons. fold (map_defs T r). rewrite IH.
  apply run_defs_ext. intros i. now rewrite HT.
Qed.

Lemma run_defs_app a b env j : run_defs env (a ++ b) j = run_defs (run_defs env a) b j.
Proof. unfold run_defs. now rewrite fold_left_app. Qed.

Lemma run_defs_notin ds : forall env j, ~ In j (names ds) -> run_defs env ds j = env j.
Proof.
  induction ds as [|[s e] r IH]; intros env j Hj; [reflexivity|].
  cbn [names map fst In] in Hj. rewrite run_defs_cons, IH by tauto.
  destruct (Nat.eqb_spec j s) as [->|Hne]; [tauto|reflexivity].
Qed.

(* ------------------------------------------------------------------ *)
(* substitution *)
Definition recon (emap : defs) (env : nat -> bool) : nat -> bool :=
  fun i => match lookup emap i with Some v => beval env v | None => env i end.

Lemma subst_correct emap env e : beval env (subst emap e) = beval (recon emap env) e.
Proof.
  induction e as [b|i|e IH|l IH|l IH|l IH|c t e IHc IHt IHe|a b IHa IHb] using bexp_ind2;
    cbn [subst]; try reflexivity.
  - change (beval (recon emap env) (BSym i)) with (recon emap env i). unfold recon.
    destruct (lookup emap i); reflexivity.
  - now rewrite snot_beval, beval_not, IH.
  - now apply beval_and_map.
  - now apply beval_or_map.
  - now apply beval_xor_map.
  - now rewrite !beval_ite, IHc, IHt, IHe.
  - now rewrite !beval_imp, IHa, IHb.
Qed.

Lemma lookup_in emap : forall i v, lookup emap i = Some v -> In v (exprs emap).
Proof.
  induction emap as [|[s w] r IH]; intros i v H; [discriminate H|].
  cbn [lookup] in H. cbn [exprs map snd In]. destruct (Nat.eqb i s).
  - injection H as ->. now left.
  - right. exact (IH _ _ H).
Qed.

Lemma lookup_syms emap i v k : lookup emap i = Some v -> In k (bsyms v) -> In k (all_syms emap).
Proof. intros H Hk. apply in_flat_map. exists v. split; [exact (lookup_in _ _ _ H)|exact Hk]. Qed.

Definition syms_sub_or (R : nat -> Prop) (T : bexp -> bexp) (x : bexp) : Prop :=
  forall i, In i (bsyms (T x)) -> In i (bsyms x) \/ R i.

Lemma in_flat_map_map_or R (T : bexp -> bexp) l :
  Forall (syms_sub_or R T) l ->
  forall i, In i (flat_map bsyms (map T l)) -> In i (flat_map bsyms l) \/ R i.
Proof.
  intros H i Hi. apply in_flat_map in Hi as [y [Hy Hi]]. apply in_map_iff in Hy as [x [<- Hx]].
  rewrite Forall_forall in H. destruct (H x Hx i Hi) as [Hk|Hk]; [left|now right].
  apply in_flat_map. now exists x.
Qed.

Lemma subst_syms emap e : syms_sub_or (fun i => In i (all_syms emap)) (subst emap) e.
Proof.
  unfold syms_sub_or.
  induction e as [b|i|e IH|l IH|l IH|l IH|c t e IHc IHt IHe|a b IHa IHb] using bexp_ind2;
    cbn [subst].
  - intros i0 H0; now left.
  - destruct (lookup emap i) as [v|] eqn:Hl; intros k Hk; [right|now left].
    exact (lookup_syms _ _ _ _ Hl Hk).
  - intros k. rewrite snot_syms. apply IH.
  - cbn [bsyms]. now apply in_flat_map_map_or.
  - cbn [bsyms]. now apply in_flat_map_map_or.
  - cbn [bsyms]. now apply in_flat_map_map_or.
  - intros k Hk. cbn [bsyms] in *. rewrite !in_app_iff in *.
    destruct Hk as [Hk|[Hk|Hk]]; [apply IHc in Hk|apply IHt in Hk|apply IHe in Hk]; tauto.
  - intros k Hk. cbn [bsyms] in *. rewrite !in_app_iff in *.
    destruct Hk as [Hk|Hk]; [apply IHa in Hk|apply IHb in Hk]; tauto.
Qed.

(* ------------------------------------------------------------------ *)
(* contracts of the sympy calls *)

(* simplify_logic: the result evaluates like the argument on every assignment *)
Definition simp_sem (simp : bexp -> bexp) : Prop := forall env e, beval env (simp e) = beval env e.
(* ... and mentions no symbol the argument does not mention *)
Definition simp_syms (simp : bexp -> bexp) : Prop := forall e, syms_sub simp e.

(* cse: as many reduced expressions as expressions; evaluating the replacements
   in order and then a reduced expression gives the value of the original
   expression; replacement symbols are not _ret symbols; replacements read only
   symbols of the expressions or earlier replacement symbols, reduced
   expressions only symbols of the expressions or replacement symbols *)
Record cse_contract (is_ret : nat -> bool) (cse : list bexp -> defs * list bexp) : Prop := {
  cse_len : forall es, List.length (snd (cse es)) = List.length es;
  cse_sem : forall es env k,
    beval (run_defs env (fst (cse es))) (nth k (snd (cse es)) (BConst false)) =
    beval env (nth k es (BConst false));
  cse_notret : forall es s, In s (names (fst (cse es))) -> is_ret s = false;
  cse_repl_syms : forall es, free_ok (fun i => In i (flat_map bsyms es)) (fst (cse es));
  cse_red_syms : forall es e i, In e (snd (cse es)) -> In i (bsyms e) ->
    In i (flat_map bsyms es) \/ In i (names (fst (cse es)))
}.

Section Lists.
  Variable simp : bexp -> bexp.
  Variable cse : list bexp -> defs * list bexp.
  Variable is_ret : nat -> bool.
  Variable disable_or : bool.

  (* -- per-expression simplify_logic of translate_ast -- *)
  Theorem front_simplify_preserves : simp_sem simp ->
    forall ds env j, run_defs env (front_simplify simp ds) j = run_defs env ds j.
  Proof. intros Hs. apply run_defs_map_defs. exact Hs. Qed.

  (* -- custom_simplify_logic -- *)
  Lemma custom_simplify_preserves : simp_sem simp ->
    forall env e, beval env (custom_simplify simp e) = beval env e.
  Proof.
    intros Hs env e.
    induction e as [b|i|e IH|l IH|l IH|l IH|c t e IHc IHt IHe|a b IHa IHb] using bexp_ind2;
      cbn [custom_simplify]; try apply Hs; try reflexivity.
    - now rewrite snot_beval, beval_not, IH.
    - now apply beval_and_map.
    - now apply beval_or_map.
  Qed.

  Lemma custom_simplify_syms : simp_syms simp -> forall e, syms_sub (custom_simplify simp) e.
  Proof.
    intros Hs e. unfold syms_sub.
    induction e as [b|i|e IH|l IH|l IH|l IH|c t e IHc IHt IHe|a b IHa IHb] using bexp_ind2;
      cbn [custom_simplify]; try apply Hs; try (intros i0 H0; exact H0).
    - intros k. rewrite snot_syms. apply IH.
    - cbn [bsyms]. now apply in_flat_map_map.
    - cbn [bsyms]. now apply in_flat_map_map.
  Qed.

  (* -- merge_expressions -- *)
  (* guard: a _ret symbol is not defined after an earlier expression has read it
     ([seen] = the symbols read so far).  Every list in which a symbol is read
     only after its definition and a _ret symbol is defined once satisfies it. *)
  Fixpoint ret_fresh (seen : list nat) (ds : defs) : Prop :=
    match ds with
    | [] => True
    | (s, e) :: r => (is_ret s = true -> ~ In s seen) /\ ret_fresh (bsyms e ++ seen) r
    end.

  (* a value of the dict does not depend on a _ret symbol that was not read yet *)
  Definition emap_inv (emap : defs) (seen : list nat) : Prop :=
    forall i v, lookup emap i = Some v ->
    forall r, is_ret r = true -> ~ In r seen ->
    forall env x, beval (fun k => if Nat.eqb k r then x else env k) v = beval env v.

  Lemma merge_go_sem : simp_sem simp -> forall ds emap seen env,
    (forall i, is_ret i = true -> lookup emap i = None) ->
    emap_inv emap seen -> ret_fresh seen ds ->
    forall j, is_ret j = true ->
    run_defs env (merge_go simp is_ret emap ds) j = run_defs (recon emap env) ds j.
  Proof.
    intros Hs. induction ds as [|[s e] r IH]; intros emap seen env Hnone Hinv Hfresh j Hj.
    - cbn [merge_go]. unfold run_defs, recon; cbn [fold_left]. now rewrite (Hnone j Hj).
    - destruct Hfresh as [Hsfresh Hrest]. cbn [merge_go].
      set (e' := custom_simplify simp (subst emap e)).
      assert (He' : forall env0, beval env0 e' = beval (recon emap env0) e).
      { intros env0. unfold e'. now rewrite custom_simplify_preserves, subst_correct. }
      assert (Hmono : emap_inv emap (bsyms e ++ seen)).
      { intros i v Hl r0 Hr0 Hnin. apply (Hinv i v Hl r0 Hr0). intros Hin. apply Hnin, in_or_app. now right. }
      destruct (is_ret s) eqn:Hrs.
      + rewrite !run_defs_cons. rewrite (IH emap (bsyms e ++ seen)); [|exact Hnone|exact Hmono|exact Hrest|exact Hj].
        apply run_defs_ext. intros i. unfold recon at 1 3.
        destruct (lookup emap i) as [v|] eqn:Hl.
        * destruct (Nat.eqb_spec i s) as [->|Hne]; [rewrite (Hnone s Hrs) in Hl; discriminate Hl|].
          apply (Hinv i v Hl s Hrs (Hsfresh eq_refl)).
        * destruct (Nat.eqb i s); [apply He'|reflexivity].
      + rewrite run_defs_cons. rewrite (IH ((s, e') :: emap) (bsyms e ++ seen)); [| | |exact Hrest|exact Hj].
        * apply run_defs_ext. intros i. unfold recon at 1. cbn [lookup].
          destruct (Nat.eqb i s); [apply He'|reflexivity].
        * intros i Hi. cbn [lookup]. destruct (Nat.eqb_spec i s) as [->|Hne]; [congruence|now apply Hnone].
        * intros i v Hl r0 Hr0 Hnin env0 x. cbn [lookup] in Hl.
          destruct (Nat.eqb i s); [|exact (Hmono i v Hl r0 Hr0 Hnin env0 x)].
          injection Hl as <-. rewrite !He'. apply beval_syms_ext. intros k Hk. unfold recon.
          destruct (lookup emap k) as [w|] eqn:Hlk.
          -- apply (Hmono k w Hlk r0 Hr0 Hnin).
          -- destruct (Nat.eqb_spec k r0) as [->|Hne]; [|reflexivity].
             exfalso. apply Hnin, in_or_app. now left.
  Qed.

  Theorem merge_preserves : simp_sem simp -> forall ds, ret_fresh [] ds ->
    forall env j, is_ret j = true ->
    run_defs env (merge_expressions simp is_ret ds) j = run_defs env ds j.
  Proof.
    intros Hs ds Hf env j Hj. unfold merge_expressions.
    rewrite (merge_go_sem Hs ds [] [] env); [|reflexivity| |exact Hf|exact Hj].
    - apply run_defs_ext. reflexivity.
    - intros i v Hl. discriminate Hl.
  Qed.

  (* no expression of the list reads a _ret symbol that the list defines *)
  Definition no_ret_read (ds : defs) : Prop :=
    forall r, In r (names ds) -> is_ret r = true -> ~ In r (all_syms ds).

  Lemma ret_fresh_of ds : forall seen,
    (forall r, In r (names ds) -> is_ret r = true -> ~ In r seen /\ ~ In r (all_syms ds)) ->
    ret_fresh seen ds.
  Proof.
    clear simp cse disable_or.
    induction ds as [|[s e] r IH]; intros seen H; [exact I|]. cbn [ret_fresh]. split.
    - intros Hs. apply (H s); [now left|exact Hs].
    - apply IH. intros r0 Hin Hr0. destruct (H r0 (or_intror Hin) Hr0) as [H1 H2].
      unfold all_syms, exprs in H2. cbn [map snd flat_map] in H2. rewrite in_app_iff in *.
      fold (exprs r) in H2. fold (all_syms r) in H2. tauto.
  Qed.

  Lemma no_ret_read_fresh ds : no_ret_read ds -> ret_fresh [] ds.
  Proof. clear simp cse disable_or. intros H. apply ret_fresh_of. intros r Hin Hr. split; [intros []|now apply H]. Qed.

  Lemma names_merge_go ds : forall emap, names (merge_go simp is_ret emap ds) = filter is_ret (names ds).
  Proof.
    induction ds as [|[s e] r IH]; intros emap; [reflexivity|].
    cbn [merge_go names map fst filter]. destruct (is_ret s); [cbn [map fst]; f_equal|]; apply IH.
  Qed.

  Lemma all_syms_merge_go : simp_syms simp -> forall ds emap i,
    In i (all_syms (merge_go simp is_ret emap ds)) -> In i (all_syms ds) \/ In i (all_syms emap).
  Proof.
    intros Hs. induction ds as [|[s e] r IH]; intros emap i Hi; [destruct Hi|].
    cbn [merge_go] in Hi.
    assert (He' : forall k, In k (bsyms (custom_simplify simp (subst emap e))) ->
                   In k (bsyms e) \/ In k (all_syms emap)).
    { intros k Hk. apply (custom_simplify_syms Hs) in Hk. now apply subst_syms in Hk. }
    assert (Hcons : forall k, In k (all_syms ((s, e) :: r)) <-> In k (bsyms e) \/ In k (all_syms r)).
    { intros k. unfold all_syms, exprs. cbn [map snd flat_map]. apply in_app_iff. }
    destruct (is_ret s).
    - unfold all_syms, exprs in Hi. cbn [map snd flat_map] in Hi. apply in_app_iff in Hi as [Hi|Hi].
      + destruct (He' i Hi); [left; apply Hcons; now left|now right].
      + destruct (IH emap i Hi); [left; apply Hcons; now right|now right].
    - destruct (IH _ i Hi) as [H|H]; [left; apply Hcons; now right|].
      unfold all_syms, exprs in H. cbn [map snd flat_map] in H. apply in_app_iff in H as [H|H].
      + destruct (He' i H); [left; apply Hcons; now left|now right].
      + now right.
  Qed.

  Lemma merge_go_free : simp_syms simp -> forall ds emap (ok_in ok_out : nat -> Prop),
    (forall i, ok_in i -> ok_out i \/ lookup emap i <> None) ->
    (forall i v, lookup emap i = Some v -> forall k, In k (bsyms v) -> ok_out k) ->
    free_ok ok_in ds -> free_ok ok_out (merge_go simp is_ret emap ds).
  Proof.
    intros Hs. induction ds as [|[s e] r IH]; intros emap ok_in ok_out Hrel Hvals H; [exact I|].
    destruct H as [H1 H2]. cbn [merge_go].
    assert (He' : forall k, In k (bsyms (custom_simplify simp (subst emap e))) -> ok_out k).
    { intros k Hk. apply (custom_simplify_syms Hs) in Hk.
      assert (Hgen : forall x, (forall i, In i (bsyms x) -> ok_in i) ->
                forall k0, In k0 (bsyms (subst emap x)) -> ok_out k0).
      { intros x. induction x as [b|i|x IH0|l IH0|l IH0|l IH0|c t f IHc IHt IHf|a b IHa IHb] using bexp_ind2;
          intros Hx k0 Hk0; cbn [subst] in Hk0.
        - destruct Hk0.
        - destruct (lookup emap i) as [v|] eqn:Hl; [exact (Hvals i v Hl k0 Hk0)|].
          destruct Hk0 as [<-|[]]. destruct (Hrel i (Hx i (or_introl eq_refl))) as [Hok|Hno]; [exact Hok|congruence].
        - rewrite snot_syms in Hk0. exact (IH0 Hx k0 Hk0).
        - cbn [bsyms] in *. apply in_flat_map in Hk0 as [y [Hy Hk0]]. apply in_map_iff in Hy as [x [<- Hxl]].
          rewrite Forall_forall in IH0. apply (IH0 x Hxl); [|exact Hk0].
          intros i Hi. apply Hx, in_flat_map. now exists x.
        - cbn [bsyms] in *. apply in_flat_map in Hk0 as [y [Hy Hk0]]. apply in_map_iff in Hy as [x [<- Hxl]].
          rewrite Forall_forall in IH0. apply (IH0 x Hxl); [|exact Hk0].
          intros i Hi. apply Hx, in_flat_map. now exists x.
        - cbn [bsyms] in *. apply in_flat_map in Hk0 as [y [Hy Hk0]]. apply in_map_iff in Hy as [x [<- Hxl]].
          rewrite Forall_forall in IH0. apply (IH0 x Hxl); [|exact Hk0].
          intros i Hi. apply Hx, in_flat_map. now exists x.
        - cbn [bsyms] in *. rewrite !in_app_iff in Hk0.
          destruct Hk0 as [Hk0|[Hk0|Hk0]]; [apply IHc in Hk0|apply IHt in Hk0|apply IHf in Hk0]; try exact Hk0;
            intros i Hi; apply Hx; rewrite !in_app_iff; tauto.
        - cbn [bsyms] in *. rewrite !in_app_iff in Hk0.
          destruct Hk0 as [Hk0|Hk0]; [apply IHa in Hk0|apply IHb in Hk0]; try exact Hk0;
            intros i Hi; apply Hx; rewrite !in_app_iff; tauto. }
      exact (Hgen e H1 k Hk). }
    destruct (is_ret s) eqn:Hrs.
    - cbn [free_ok]. split; [exact He'|].
      apply (IH emap (fun i => ok_in i \/ i = s)); [| |exact H2].
      + intros i [Hi|Hi]; [destruct (Hrel i Hi); [left; now left|now right]|left; now right].
      + intros i v Hl k Hk. left. exact (Hvals i v Hl k Hk).
    - apply (IH _ (fun i => ok_in i \/ i = s)); [| |exact H2].
      + intros i [Hi|Hi]; cbn [lookup].
        * destruct (Nat.eqb i s); [right; discriminate|exact (Hrel i Hi)].
        * subst i. right. rewrite Nat.eqb_refl. discriminate.
      + intros i v Hl k Hk. cbn [lookup] in Hl. destruct (Nat.eqb i s); [|exact (Hvals i v Hl k Hk)].
        injection Hl as <-. exact (He' k Hk).
  Qed.

  Theorem merge_free : simp_syms simp -> forall ds ok,
    free_ok ok ds -> free_ok ok (merge_expressions simp is_ret ds).
  Proof.
    intros Hs ds ok H. apply (merge_go_free Hs ds [] ok ok); [now left| |exact H].
    intros i v Hl. discriminate Hl.
  Qed.

  Theorem merge_keeps_ret ds r : is_ret r = true -> In r (names ds) ->
    In r (names (merge_expressions simp is_ret ds)).
  Proof. intros Hr Hin. unfold merge_expressions. rewrite names_merge_go. apply filter_In. now split. Qed.

  (* -- apply_cse -- *)
  Definition indep (nm : list nat) (e : bexp) : Prop := forall i, In i (bsyms e) -> ~ In i nm.

  (* value of j after definitions whose values are already known: the last one wins *)
  Fixpoint last_val (nm : list nat) (vals : list bool) (base : bool) (j : nat) : bool :=
    match nm, vals with
    | s :: nm', v :: vals' => last_val nm' vals' (if Nat.eqb j s then v else base) j
    | _, _ => base
    end.

  Lemma run_defs_static nm0 env0 : forall nm es env,
    (forall e, In e es -> indep nm0 e) -> incl nm nm0 ->
    (forall i, ~ In i nm0 -> env i = env0 i) ->
    forall j, run_defs env (combine nm es) j = last_val nm (map (beval env0) es) (env j) j.
  Proof.
    induction nm as [|s nm IH]; intros es env Hind Hincl Henv j; [reflexivity|].
    destruct es as [|e es]; [reflexivity|].
    cbn [combine map last_val]. rewrite run_defs_cons.
    assert (Hs : In s nm0) by (apply Hincl; now left).
    assert (He : beval env e = beval env0 e).
    { apply beval_syms_ext. intros i Hi. apply Henv. exact (Hind e (or_introl eq_refl) i Hi). }
    rewrite IH.
    - now rewrite He.
    - intros e0 He0. apply Hind. now right.
    - intros i Hi. apply Hincl. now right.
    - intros i Hi. destruct (Nat.eqb_spec i s) as [->|Hne]; [contradiction|now apply Henv].
  Qed.

  Lemma combine_names_exprs (ds : defs) : combine (names ds) (exprs ds) = ds.
  Proof. induction ds as [|[s e] r IH]; [reflexivity|]. cbn [names exprs map fst snd combine]. f_equal. exact IH. Qed.

  Lemma names_combine (nm : list nat) : forall (es : list bexp),
    List.length es = List.length nm -> names (combine nm es) = nm.
  Proof.
    induction nm as [|s nm IH]; intros [|e es] H; try discriminate H; [reflexivity|].
    cbn [combine names map fst]. f_equal. apply IH. now injection H.
  Qed.

  Lemma map_eq_nth (f g : bexp -> bool) d : forall l1 l2,
    List.length l1 = List.length l2 -> (forall k, f (nth k l1 d) = g (nth k l2 d)) -> map f l1 = map g l2.
  Proof.
    induction l1 as [|x l1 IH]; intros [|y l2] Hlen H; try discriminate Hlen; [reflexivity|].
    cbn [map]. f_equal; [exact (H 0)|]. apply IH; [now injection Hlen|]. intros k. exact (H (S k)).
  Qed.

  Lemma exprs_length (ds : defs) : List.length (exprs ds) = List.length (names ds).
  Proof. unfold exprs, names. now rewrite !map_length. Qed.

  (* guard G1: no expression reads a symbol the list defines;
     guard G2: no name of the list is a replacement symbol *)
  Theorem apply_cse_partial : cse_contract is_ret cse -> forall ds,
    (forall i, In i (all_syms ds) -> ~ In i (names ds)) ->
    (forall s, In s (names ds) -> ~ In s (names (fst (cse (exprs ds))))) ->
    forall env j, ~ In j (names (fst (cse (exprs ds)))) ->
    run_defs env (apply_cse cse ds) j = run_defs env ds j.
  Proof.
    intros Hc ds G1 G2 env j Hj. unfold apply_cse.
    set (repl := fst (cse (exprs ds))) in *. set (red := snd (cse (exprs ds))).
    rewrite run_defs_app. set (env1 := run_defs env repl).
    rewrite (run_defs_static (names ds) env1 (names ds) red env1).
    - transitivity (run_defs env (combine (names ds) (exprs ds)) j); [|now rewrite combine_names_exprs].
      rewrite (run_defs_static (names ds) env (names ds) (exprs ds) env).
      + f_equal.
        * apply (map_eq_nth _ _ (BConst false)).
          -- apply (cse_len _ _ Hc).
          -- intros k. apply (cse_sem _ _ Hc).
        * unfold env1. now apply run_defs_notin.
      + intros e He i Hi. apply G1. apply in_flat_map. now exists e.
      + apply incl_refl.
      + reflexivity.
    - intros e He i Hi Hn. destruct (cse_red_syms _ _ Hc (exprs ds) e i He Hi) as [H|H].
      + exact (G1 i H Hn).
      + exact (G2 i Hn H).
    - apply incl_refl.
    - reflexivity.
  Qed.

  Corollary apply_cse_partial_ret : cse_contract is_ret cse -> forall ds,
    (forall i, In i (all_syms ds) -> ~ In i (names ds)) ->
    (forall s, In s (names ds) -> ~ In s (names (fst (cse (exprs ds))))) ->
    forall env j, is_ret j = true -> run_defs env (apply_cse cse ds) j = run_defs env ds j.
  Proof.
    intros Hc ds G1 G2 env j Hj. apply apply_cse_partial; try assumption.
    intros Hin. rewrite (cse_notret _ _ Hc _ _ Hin) in Hj. discriminate Hj.
  Qed.

  Lemma names_apply_cse : cse_contract is_ret cse -> forall ds,
    names (apply_cse cse ds) = names (fst (cse (exprs ds))) ++ names ds.
  Proof.
    intros Hc ds. unfold apply_cse, names at 1. rewrite map_app. fold (names (fst (cse (exprs ds)))). f_equal.
    apply names_combine. rewrite (cse_len _ _ Hc). apply exprs_length.
  Qed.

  Lemma free_ok_combine (ok : nat -> Prop) : forall nm es,
    (forall e i, In e es -> In i (bsyms e) -> ok i) -> free_ok ok (combine nm es).
  Proof.
    intros nm es. revert ok nm. induction es as [|e es IH]; intros ok nm H; [destruct nm; exact I|].
    destruct nm as [|s nm]; [exact I|]. cbn [combine free_ok]. split.
    - intros i Hi. exact (H e i (or_introl eq_refl) Hi).
    - apply IH. intros e0 i He0 Hi. left. exact (H e0 i (or_intror He0) Hi).
  Qed.

  Theorem apply_cse_free : cse_contract is_ret cse -> forall ds ok,
    (forall i, In i (all_syms ds) -> ~ In i (names ds)) ->
    free_ok ok ds -> free_ok ok (apply_cse cse ds).
  Proof.
    intros Hc ds ok G1 H. unfold apply_cse. apply free_ok_app.
    assert (Hall : forall i, In i (all_syms ds) -> ok i).
    { intros i Hi. destruct (free_ok_syms ds ok H i Hi) as [Hk|Hk]; [exact Hk|]. destruct (G1 i Hi Hk). }
    split.
    - eapply free_ok_mono; [|exact (cse_repl_syms _ _ Hc (exprs ds))]. exact Hall.
    - apply free_ok_combine. intros e i He Hi.
      destruct (cse_red_syms _ _ Hc (exprs ds) e i He Hi) as [Hk|Hk]; [left; now apply Hall|now right].
  Qed.

  Theorem apply_cse_keeps : cse_contract is_ret cse -> forall ds r,
    In r (names ds) -> In r (names (apply_cse cse ds)).
  Proof. intros Hc ds r Hr. rewrite (names_apply_cse Hc). apply in_or_app. now right. Qed.

  (* defaultOptimizer and every prefix of it, on lists in which no expression
     reads a _ret symbol that the list defines *)
  Lemma merge_output_guards : simp_syms simp -> cse_contract is_ret cse -> forall ds, no_ret_read ds ->
    let ms := merge_expressions simp is_ret ds in
    (forall i, In i (all_syms ms) -> ~ In i (names ms)) /\
    (forall s, In s (names ms) -> ~ In s (names (fst (cse (exprs ms))))).
  Proof.
    intros Hss Hc ds Hn ms. unfold ms, merge_expressions. split.
    - intros i Hi Hin. rewrite names_merge_go in Hin. apply filter_In in Hin as [Hin Hr].
      apply (all_syms_merge_go Hss) in Hi as [Hi|[]]. exact (Hn i Hin Hr Hi).
    - intros s Hin Hrep. rewrite names_merge_go in Hin. apply filter_In in Hin as [_ Hr].
      rewrite (cse_notret _ _ Hc _ _ Hrep) in Hr. discriminate Hr.
  Qed.

End Lists.

(* ------------------------------------------------------------------ *)
(* computable forms of the guards *)
Lemma memb_in i l : memb i l = true <-> In i l.
Proof.
  unfold memb. rewrite existsb_exists. split.
  - intros [x [Hx He]]. apply Nat.eqb_eq in He. now subst.
  - intros H. exists i. split; [exact H|apply Nat.eqb_refl].
Qed.

(* guard of defaultOptimizer *)
Definition no_ret_readb (is_ret : nat -> bool) (ds : defs) : bool :=
  forallb (fun i => negb (is_ret i && memb i (names ds))) (all_syms ds).

Lemma no_def_readb_ok ds : no_def_readb ds = true -> forall i, In i (all_syms ds) -> ~ In i (names ds).
Proof.
  unfold no_def_readb. rewrite forallb_forall. intros H i Hi Hn. specialize (H i Hi).
  apply memb_in in Hn. rewrite Hn in H. discriminate H.
Qed.

Lemma no_ret_readb_ok is_ret ds : no_ret_readb is_ret ds = true -> no_ret_read is_ret ds.
Proof.
  unfold no_ret_readb, no_ret_read. rewrite forallb_forall. intros H r Hn Hr Hi. specialize (H r Hi).
  apply memb_in in Hn. rewrite Hn, Hr in H. discriminate H.
Qed.


(* sympy.cse with an exclusion list for the replacement names *)
Definition csex_contract (is_ret : nat -> bool) (cse : list nat -> list bexp -> defs * list bexp) : Prop :=
  forall ex, cse_contract is_ret (cse ex) /\
             forall es s, In s (names (fst (cse ex es))) -> ~ In s ex.

Section Profiles.
  Variable simp : bexp -> bexp.
  Variable cse : list nat -> list bexp -> defs * list bexp.
  Variable is_ret : nat -> bool.
  Variable disable_or : bool.

  (* -- apply_cse with the proposed guard: every list -- *)
  Theorem apply_cse_guarded_preserves : csex_contract is_ret cse -> forall ds env j,
    (~ In j (names (fst (cse (names ds) (exprs ds)))) \/ is_ret j = true) ->
    run_defs env (apply_cse_guarded cse ds) j = run_defs env ds j.
  Proof.
    intros Hc ds env j Hj. unfold apply_cse_guarded. destruct (no_def_readb ds) eqn:Hg; [|reflexivity].
    destruct (Hc (names ds)) as [Hc1 Hex].
    assert (G2 : forall s, In s (names ds) -> ~ In s (names (fst (cse (names ds) (exprs ds))))).
    { intros s Hs Hr. exact (Hex _ _ Hr Hs). }
    destruct Hj as [Hj|Hj].
    - apply (apply_cse_partial _ _ Hc1); [exact (no_def_readb_ok ds Hg)|exact G2|exact Hj].
    - apply (apply_cse_partial_ret _ _ Hc1); [exact (no_def_readb_ok ds Hg)|exact G2|exact Hj].
  Qed.

  Theorem apply_cse_guarded_symbols : csex_contract is_ret cse -> forall ds,
    (forall ok, free_ok ok ds -> free_ok ok (apply_cse_guarded cse ds)) /\
    (forall r, In r (names ds) -> In r (names (apply_cse_guarded cse ds))).
  Proof.
    intros Hc ds. unfold apply_cse_guarded. destruct (no_def_readb ds) eqn:Hg; [|split; intros; assumption].
    destruct (Hc (names ds)) as [Hc1 _]. split.
    - intros ok H. apply (apply_cse_free _ _ Hc1); [exact (no_def_readb_ok ds Hg)|exact H].
    - intros r Hr. now apply (apply_cse_keeps _ _ Hc1).
  Qed.

  (* -- steps and profiles -- *)
  Notation step_fun := (apply_step simp cse is_ret disable_or).
  Notation profile_fun := (apply_profile simp cse is_ret disable_or).

  Lemma transformer_step_sem st : is_transformer st = true ->
    forall ds env j, run_defs env (step_fun st ds) j = run_defs env ds j.
  Proof.
    destruct st; try discriminate; intros _; cbn [apply_step]; apply run_defs_map_defs; intros env e.
    - apply remove_ITE_preserves.
    - apply remove_Implies_preserves.
    - apply or2xor_preserves.
    - apply or2and_preserves.
    - apply remove_obvious_preserves.
  Qed.

  Lemma transformer_step_free st : is_transformer st = true ->
    forall ds ok, free_ok ok ds -> free_ok ok (step_fun st ds).
  Proof.
    destruct st; try discriminate; intros _; cbn [apply_step]; apply free_ok_map_defs.
    - apply remove_ITE_syms.
    - apply remove_Implies_syms.
    - apply or2xor_syms.
    - apply or2and_syms.
    - apply remove_obvious_syms.
  Qed.

  Lemma transformer_step_names st : is_transformer st = true ->
    forall ds, names (step_fun st ds) = names ds.
  Proof. destruct st; try discriminate; intros _ ds; cbn [apply_step]; apply names_map_defs. Qed.

  Lemma profile_cons st steps ds : profile_fun (st :: steps) ds = profile_fun steps (step_fun st ds).
  Proof. reflexivity. Qed.

  Lemma transformers_sem steps : forallb is_transformer steps = true ->
    forall ds env j, run_defs env (profile_fun steps ds) j = run_defs env ds j.
  Proof.
    induction steps as [|st steps IH]; intros H ds env j; [reflexivity|].
    cbn [forallb] in H. apply andb_true_iff in H as [H1 H2].
    rewrite profile_cons, (IH H2). now apply transformer_step_sem.
  Qed.

  Lemma transformers_free steps : forallb is_transformer steps = true ->
    forall ds ok, free_ok ok ds -> free_ok ok (profile_fun steps ds).
  Proof.
    induction steps as [|st steps IH]; intros H ds ok Hf; [exact Hf|].
    cbn [forallb] in H. apply andb_true_iff in H as [H1 H2].
    rewrite profile_cons. apply (IH H2). now apply transformer_step_free.
  Qed.

  Lemma transformers_names steps : forallb is_transformer steps = true ->
    forall ds, names (profile_fun steps ds) = names ds.
  Proof.
    induction steps as [|st steps IH]; intros H ds; [reflexivity|].
    cbn [forallb] in H. apply andb_true_iff in H as [H1 H2].
    rewrite profile_cons, (IH H2). now apply transformer_step_names.
  Qed.

  Lemma forallb_firstn {A} (p : A -> bool) (l : list A) : forall k,
    forallb p l = true -> forallb p (firstn k l) = true.
  Proof.
    induction l as [|x l IH]; intros [|k] H; try reflexivity.
    cbn [firstn forallb] in *. apply andb_true_iff in H as [H1 H2]. now rewrite H1, IH.
  Qed.

  (* fastOptimizer and every prefix of it: every symbol keeps its function *)
  Theorem fast_profile_preserves k ds env j :
    run_defs env (profile_fun (firstn k fast_profile) ds) j = run_defs env ds j.
  Proof. apply transformers_sem, forallb_firstn. reflexivity. Qed.

  Theorem fast_profile_symbols k ds :
    (forall ok, free_ok ok ds -> free_ok ok (profile_fun (firstn k fast_profile) ds)) /\
    names (profile_fun (firstn k fast_profile) ds) = names ds.
  Proof.
    split; [apply transformers_free|apply transformers_names]; apply forallb_firstn; reflexivity.
  Qed.

  Lemma default_prefix k : firstn (S (S k)) default_profile = S_merge :: S_cse :: firstn k fast_profile.
  Proof. reflexivity. Qed.

  Theorem default_profile_partial : simp_sem simp -> simp_syms simp -> cse_contract is_ret (cse []) ->
    forall k ds, no_ret_read is_ret ds -> forall env j, is_ret j = true ->
    run_defs env (profile_fun (firstn k default_profile) ds) j = run_defs env ds j.
  Proof.
    intros Hs Hss Hc k ds Hn env j Hj. destruct k as [|[|k]].
    - reflexivity.
    - cbn [firstn default_profile]. rewrite profile_cons. cbn [apply_step apply_profile fold_left].
      apply merge_preserves; [exact Hs|now apply no_ret_read_fresh|exact Hj].
    - rewrite default_prefix, !profile_cons. cbn [apply_step].
      rewrite transformers_sem by (apply forallb_firstn; reflexivity).
      destruct (merge_output_guards simp (cse []) is_ret Hss Hc ds Hn) as [G1 G2].
      rewrite (apply_cse_partial_ret _ _ Hc) by assumption.
      apply merge_preserves; [exact Hs|now apply no_ret_read_fresh|exact Hj].
  Qed.

  Theorem default_profile_symbols : simp_syms simp -> cse_contract is_ret (cse []) ->
    forall k ds, no_ret_read is_ret ds ->
    (forall ok, free_ok ok ds -> free_ok ok (profile_fun (firstn k default_profile) ds)) /\
    (forall r, is_ret r = true -> In r (names ds) -> In r (names (profile_fun (firstn k default_profile) ds))).
  Proof.
    intros Hss Hc k ds Hn. destruct k as [|[|k]].
    - split; [intros ok H; exact H|intros r _ H; exact H].
    - cbn [firstn default_profile]. rewrite profile_cons. cbn [apply_step apply_profile fold_left]. split.
      + intros ok H. now apply merge_free.
      + intros r Hr H. now apply merge_keeps_ret.
    - rewrite default_prefix, !profile_cons. cbn [apply_step].
      destruct (merge_output_guards simp (cse []) is_ret Hss Hc ds Hn) as [G1 G2]. split.
      + intros ok H. apply transformers_free; [apply forallb_firstn; reflexivity|].
        apply (apply_cse_free _ _ Hc); [exact G1|]. now apply merge_free.
      + intros r Hr H. rewrite transformers_names by (apply forallb_firstn; reflexivity).
        apply (apply_cse_keeps _ _ Hc). now apply merge_keeps_ret.
  Qed.

  (* defaultOptimizer with the patched apply_cse: every list that merge_expressions
     handles (ret_fresh: every well-formed list), every prefix *)
  Lemma default_guarded_prefix k :
    firstn (S (S k)) default_profile_guarded = S_merge :: S_cse_guarded :: firstn k fast_profile.
  Proof. reflexivity. Qed.

  Theorem default_profile_guarded_preserves : simp_sem simp -> csex_contract is_ret cse ->
    forall k ds, ret_fresh is_ret [] ds -> forall env j, is_ret j = true ->
    run_defs env (profile_fun (firstn k default_profile_guarded) ds) j = run_defs env ds j.
  Proof.
    intros Hs Hc k ds Hf env j Hj. destruct k as [|[|k]].
    - reflexivity.
    - cbn [firstn default_profile_guarded]. rewrite profile_cons. cbn [apply_step apply_profile fold_left].
      apply merge_preserves; [exact Hs|exact Hf|exact Hj].
    - rewrite default_guarded_prefix, !profile_cons. cbn [apply_step].
      rewrite transformers_sem by (apply forallb_firstn; reflexivity).
      rewrite (apply_cse_guarded_preserves Hc) by (now right).
      apply merge_preserves; [exact Hs|exact Hf|exact Hj].
  Qed.

  Theorem default_profile_guarded_symbols : simp_syms simp -> csex_contract is_ret cse ->
    forall k ds,
    (forall ok, free_ok ok ds -> free_ok ok (profile_fun (firstn k default_profile_guarded) ds)) /\
    (forall r, is_ret r = true -> In r (names ds) ->
       In r (names (profile_fun (firstn k default_profile_guarded) ds))).
  Proof.
    intros Hss Hc k ds. destruct k as [|[|k]].
    - split; [intros ok H; exact H|intros r _ H; exact H].
    - cbn [firstn default_profile_guarded]. rewrite profile_cons. cbn [apply_step apply_profile fold_left]. split.
      + intros ok H. now apply merge_free.
      + intros r Hr H. now apply merge_keeps_ret.
    - rewrite default_guarded_prefix, !profile_cons. cbn [apply_step].
      destruct (apply_cse_guarded_symbols Hc (merge_expressions simp is_ret ds)) as [Hfree Hkeep]. split.
      + intros ok H. apply transformers_free; [apply forallb_firstn; reflexivity|].
        apply Hfree. now apply merge_free.
      + intros r Hr H. rewrite transformers_names by (apply forallb_firstn; reflexivity).
        apply Hkeep. now apply merge_keeps_ret.
  Qed.
End Profiles.

(* ------------------------------------------------------------------ *)
(* The statements without the guards are false of the model: a cse oracle that
   satisfies the whole contract, and a list in which the third and second
   expressions share the sub-expression (r0 xor c) where r0 is defined by the
   first.  The replacement x0 = r0 xor c is placed in front of the list and
   reads r0 before its definition.  Symbols: a b c d = 0 1 2 3, r0 r1 r2 = 5 6 7
   (all _ret), x0 = 8. *)
Definition w_is_ret (i : nat) : bool := Nat.eqb i 5 || Nat.eqb i 6 || Nat.eqb i 7.
Definition w_es : list bexp :=
  [BAnd [BSym 0; BSym 1]; BAnd [BSym 3; BXor [BSym 5; BSym 2]]; BOr [BSym 3; BXor [BSym 5; BSym 2]]].
Definition w_repl : defs := [(8, BXor [BSym 5; BSym 2])].
Definition w_red : list bexp :=
  [BAnd [BSym 0; BSym 1]; BAnd [BSym 3; BSym 8]; BOr [BSym 3; BSym 8]].
Definition w_cse (es : list bexp) : defs * list bexp :=
  if list_eqb bexp_eqb es w_es then (w_repl, w_red) else ([], es).
Definition w_ds : defs := combine [5; 6; 7] w_es.
Definition w_env (i : nat) : bool := match i with 0 | 1 | 3 => true | _ => false end.

Lemma w_cse_contract : cse_contract w_is_ret w_cse.
Proof.
  split.
  - intros es. unfold w_cse. destruct (list_eqb bexp_eqb es w_es) eqn:E; [|reflexivity].
    apply list_bexp_eqb_eq in E. subst es. reflexivity.
  - intros es env k. unfold w_cse. destruct (list_eqb bexp_eqb es w_es) eqn:E; [|reflexivity].
    apply list_bexp_eqb_eq in E. subst es. cbn [fst snd].
    destruct k as [|[|[|k]]]; [| | |destruct k; reflexivity];
      unfold w_red, w_es, w_repl, run_defs, beval; cbn;
      destruct (env 5), (env 2), (env 3); reflexivity.
  - intros es s. unfold w_cse. destruct (list_eqb bexp_eqb es w_es); cbn; [|intros []].
    intros [<-|[]]. reflexivity.
  - intros es. unfold w_cse. destruct (list_eqb bexp_eqb es w_es) eqn:E; [|exact I].
    apply list_bexp_eqb_eq in E. subst es. cbn. split; [|exact I]. intros i Hi. tauto.
  - intros es e i. unfold w_cse. destruct (list_eqb bexp_eqb es w_es) eqn:E.
    + apply list_bexp_eqb_eq in E. subst es. cbn [fst snd].
      intros He Hi. cbn in He. destruct He as [<-|[<-|[<-|[]]]]; cbn in Hi; cbn; tauto.
    + cbn [fst snd]. intros He Hi. left. apply in_flat_map. now exists e.
Qed.

Theorem apply_cse_refuted :
  exists is_ret cse, cse_contract is_ret cse /\
  exists ds env j, free_ok (fun i => i < 4) ds /\ is_ret j = true /\ In j (names ds) /\
    run_defs env (apply_cse cse ds) j <> run_defs env ds j.
Proof.
  exists w_is_ret, w_cse. split; [exact w_cse_contract|].
  exists w_ds, w_env, 6. split; [|split; [reflexivity|split; [cbn; tauto|vm_compute; discriminate]]].
  cbn. repeat split; intros i Hi; repeat (destruct Hi as [<-|Hi]; [lia || tauto|]); try destruct Hi; try tauto.
Qed.

Theorem default_profile_refuted :
  exists simp cse is_ret, simp_sem simp /\ simp_syms simp /\ cse_contract is_ret (cse []) /\
  exists ds env j, free_ok (fun i => i < 4) ds /\ is_ret j = true /\ In j (names ds) /\
    run_defs env (apply_profile simp cse is_ret false default_profile ds) j <> run_defs env ds j.
Proof.
  exists (fun e => e), (fun _ => w_cse), w_is_ret. split; [intros env e; reflexivity|].
  split; [intros e i Hi; exact Hi|]. split; [exact w_cse_contract|].
  exists w_ds, w_env, 6. split; [|split; [reflexivity|split; [cbn; tauto|vm_compute; discriminate]]].
  cbn. repeat split; intros i Hi; repeat (destruct Hi as [<-|Hi]; [lia || tauto|]); try destruct Hi; try tauto.
Qed.

(* the rule before the arity guards: (a&b&c)|(~a&~b&~c) became ~(a^b) *)
Definition w_or3 : bexp :=
  BOr [BAnd [BSym 0; BSym 1; BSym 2]; BAnd [BNot (BSym 0); BNot (BSym 1); BNot (BSym 2)]].

Theorem or2xor_unguarded_refuted :
  transform_or2xor_unguarded w_or3 = BNot (BXor [BSym 0; BSym 1]) /\
  exists env, beval env (transform_or2xor_unguarded w_or3) <> beval env w_or3.
Proof.
  split; [reflexivity|]. exists (fun i => match i with 0 | 1 => true | _ => false end).
  vm_compute. discriminate.
Qed.

(* ------------------------------------------------------------------ *)
(* well-formed lists over n inputs: an expression reads only inputs (index < n)
   and symbols defined earlier in the list (an input may be re-defined, as the
   front end does for re-assigned arguments); a _ret symbol is not an input and
   is defined once *)
Fixpoint wf_go (n : nat) (is_ret : nat -> bool) (defined : list nat) (ds : defs) : bool :=
  match ds with
  | [] => true
  | (s, e) :: r =>
      forallb (fun i => Nat.ltb i n || memb i defined) (bsyms e) &&
      negb (is_ret s && (Nat.ltb s n || memb s defined)) &&
      wf_go n is_ret (s :: defined) r
  end.
Definition wf_defsb (n : nat) (is_ret : nat -> bool) (ds : defs) : bool := wf_go n is_ret [] ds.

Lemma wf_go_fresh n is_ret : forall ds defined seen,
  (forall i, In i seen -> i < n \/ In i defined) ->
  wf_go n is_ret defined ds = true -> ret_fresh is_ret seen ds.
Proof.
  induction ds as [|[s e] r IH]; intros defined seen Hseen H; [exact I|].
  cbn [wf_go] in H. apply andb_true_iff in H as [H H3]. apply andb_true_iff in H as [H1 H2].
  rewrite forallb_forall in H1. cbn [ret_fresh]. split.
  - intros Hs Hin. rewrite Hs in H2. cbn [andb] in H2. apply negb_true_iff, orb_false_iff in H2 as [Ha Hb].
    destruct (Hseen s Hin) as [Hlt|Hd].
    + apply Nat.ltb_lt in Hlt. congruence.
    + apply memb_in in Hd. congruence.
  - apply (IH (s :: defined)); [|exact H3]. intros i Hi. apply in_app_iff in Hi as [Hi|Hi].
    + specialize (H1 i Hi). apply orb_true_iff in H1 as [Hl|Hm]; [left; now apply Nat.ltb_lt|].
      right; right. now apply memb_in.
    + destruct (Hseen i Hi) as [Hl|Hd]; [now left|right; now right].
Qed.

Theorem wf_ret_fresh n is_ret ds : wf_defsb n is_ret ds = true -> ret_fresh is_ret [] ds.
Proof. intros H. apply (wf_go_fresh n is_ret ds [] []); [intros i []|exact H]. Qed.

Lemma wf_go_free n is_ret : forall ds defined,
  wf_go n is_ret defined ds = true -> free_ok (fun i => i < n \/ In i defined) ds.
Proof.
  induction ds as [|[s e] r IH]; intros defined H; [exact I|].
  cbn [wf_go] in H. apply andb_true_iff in H as [H H3]. apply andb_true_iff in H as [H1 _].
  rewrite forallb_forall in H1. cbn [free_ok]. split.
  - intros i Hi. specialize (H1 i Hi). apply orb_true_iff in H1 as [Hl|Hm]; [left; now apply Nat.ltb_lt|].
    right. now apply memb_in.
  - eapply free_ok_mono; [|exact (IH _ H3)]. intros i [Hi|[Hi|Hi]]; [left; now left|now right|left; now right].
Qed.

Theorem wf_free_ok n is_ret ds : wf_defsb n is_ret ds = true -> free_ok (fun i => i < n) ds.
Proof.
  intros H. eapply free_ok_mono; [|exact (wf_go_free n is_ret ds [] H)]. intros i [Hi|[]]; exact Hi.
Qed.

Theorem merge_preserves_wf simp is_ret n ds : simp_sem simp -> wf_defsb n is_ret ds = true ->
  forall env j, is_ret j = true ->
  run_defs env (merge_expressions simp is_ret ds) j = run_defs env ds j.
Proof. intros Hs Hw. apply merge_preserves; [exact Hs|exact (wf_ret_fresh n is_ret ds Hw)]. Qed.
