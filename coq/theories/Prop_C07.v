(* Prop_C07.v — "Calling one compiled function from another is function
   composition", stated on the model of bind_function / the call site (M_Call.v)
   for every expression, every argument shape and every assignment. *)
From Coq Require Import List Bool NArith Arith.
From QV Require Import Bexp BexpTT M_Call P_Call.
Import ListNotations.

(* substitution lemma: substituting expressions for symbols = evaluating in the
   environment that binds those symbols to the expressions' values *)
Theorem C07_substitution : forall rho s e,
  beval rho (bsubst s e) = beval (senv rho s) e.
Proof. exact bsubst_spec. Qed.
Print Assumptions C07_substitution.

(* alpha-renaming with the callee prefix does not change meaning *)
Theorem C07_renaming : forall rho r e, beval rho (brename r e) = beval (fun i => rho (r i)) e.
Proof. exact brename_spec. Qed.
Print Assumptions C07_renaming.

(* compression to return expressions = running the callee's definition list *)
Theorem C07_compress_is_run : forall rho ds s e,
  In (s, e) (compress_go [] ds) ->
  exists pre post e0, ds = pre ++ (s, e0) :: post /\ beval rho e = run_defs rho (pre ++ [(s, e0)]) s.
Proof. exact compress_run. Qed.
Print Assumptions C07_compress_is_run.

(* the caller's bits are the callee's return function applied to the VALUES of the actuals *)
Theorem C07_call_is_composition : forall rho formals actuals rets,
  map (beval rho) (call_site formals actuals rets) =
  map (fun se => beval (bind_formals rho formals actuals) (snd se)) rets.
Proof. exact call_is_composition. Qed.
Print Assumptions C07_call_is_composition.

(* ... positionally, whatever the actuals are (repeated, swapped, named like a formal) *)
Theorem C07_formals_bound_positionally : forall rho formals actuals k f a,
  NoDup formals -> length formals = length actuals ->
  nth_error formals k = Some f -> nth_error actuals k = Some a ->
  bind_formals rho formals actuals f = beval rho a.
Proof. exact bind_formals_positional. Qed.
Print Assumptions C07_formals_bound_positionally.

Theorem C07_other_symbols_untouched : forall rho formals actuals i,
  length formals = length actuals -> ~ In i formals -> bind_formals rho formals actuals i = rho i.
Proof. exact bind_formals_other. Qed.
Print Assumptions C07_other_symbols_untouched.

(* non-vacuity: both(x, y) = x & ~y called as both(b, a) with caller symbols a=0, b=1,
   formals x=10, y=11: the caller's bit is b & ~a *)
Example C07_example_swapped :
  let rets := [(12%nat, BAnd [BSym 10; BNot (BSym 11)])] in
  call_site [10; 11]%nat [BSym 1; BSym 0] rets = [BAnd [BSym 1; BNot (BSym 0)]].
Proof. reflexivity. Qed.
(* an actual that is itself named like a formal: simultaneous substitution keeps it *)
Example C07_example_clash :
  call_site [10; 11]%nat [BSym 11; BSym 0] [(12%nat, BAnd [BSym 10; BNot (BSym 11)])]
  = [BAnd [BSym 11; BNot (BSym 0)]].
Proof. reflexivity. Qed.
