(* Chk_Export.v — functions evaluated (vm_compute) by harness/c13.py on what the
   exporters of the implementation produced for one circuit: the four QASM
   texts (version 3 / 2 x gate / circuit), and the operation lists read back
   from the Qiskit, Cirq and Sympy objects. *)
From Coq Require Import List Bool NArith ZArith Arith String Ascii.
From QV Require Import Circ M_Export.
Import ListNotations.
Local Open Scope string_scope.

Definition str (l : list N) : string := string_of_list_ascii (map ascii_of_N l).

Definition opt_str_eqb (a b : option string) : bool :=
  match a, b with
  | Some x, Some y => String.eqb x y
  | None, None => true
  | _, _ => false
  end.

(* 0: the text is the patched printer's; 1: it is today's printer's (and differs
   from the patched one); 99: neither *)
Definition qasm_verdict (ver3 gmode : bool) name n qm gl (obs : option string) : N :=
  if opt_str_eqb (qasm_export true ver3 gmode name n qm gl) obs then 0%N
  else if opt_str_eqb (qasm_export false ver3 gmode name n qm gl) obs then 1%N
  else 99%N.

Fixpoint list_nat_eqb (a b : list nat) : bool :=
  match a, b with
  | [], [] => true
  | x :: a', y :: b' => Nat.eqb x y && list_nat_eqb a' b'
  | _, _ => false
  end.
Definition opt_s_eqb (a b : option string) := opt_str_eqb a b.
Fixpoint pgates_eqb (a b : list pgate) : bool :=
  match a, b with
  | [], [] => true
  | (n1, p1, q1) :: a', (n2, p2, q2) :: b' =>
      String.eqb n1 n2 && opt_s_eqb p1 p2 && list_nat_eqb q1 q2 && pgates_eqb a' b'
  | _, _ => false
  end.
Fixpoint strs_eqb (a b : list string) : bool :=
  match a, b with
  | [], [] => true
  | x :: a', y :: b' => String.eqb x y && strs_eqb a' b'
  | _, _ => false
  end.

(* the property, decided on the implementation's own text by the parser of
   M_Export.v: the text parses, declares exactly one formal per qubit, its
   gate lines are the circuit's gates (name, printed phase, operand = position
   of the qubit among the formals = qubit index), and in circuit mode the gate
   is applied to q[0..n-1] *)
Definition qasm_prop_ok (gmode : bool) (name : string) (n : nat) (gl : list xgate)
           (model : option string) (obs : option string) : bool :=
  match obs with
  | None => match model with None => true | Some _ => false end
  | Some t =>
    match parse_qasm t with
    | None => false
    | Some p =>
      String.eqb (p_name p) name && Nat.eqb (List.length (p_formals p)) n &&
      pgates_eqb (p_gates p) (expected_gates gl) &&
      (match p_call p with
       | None => gmode
       | Some (c, args) => negb gmode && String.eqb c name && strs_eqb args (map actual (seq 0 n))
       end)
    end
  end.

(* ---- operation lists ---- *)
Definition base_eqb (a b : base) : bool :=
  match a, b with
  | BI, BI | BX, BX | BY, BY | BZ, BZ | BH, BH | BS, BS | BT, BT | BP, BP | BSwap, BSwap => true
  | _, _ => false
  end.
Definition par_eqb (a b : option (Z * N)) : bool :=
  match a, b with
  | None, None => true
  | Some (z1, d1), Some (z2, d2) => Z.eqb z1 z2 && N.eqb d1 d2
  | _, _ => false
  end.
Definition xop_eqb (a b : xop) : bool :=
  match a, b with
  | XBar, XBar => true
  | XOp c1 b1 q1 p1, XOp c2 b2 q2 p2 =>
      Nat.eqb c1 c2 && base_eqb b1 b2 && list_nat_eqb q1 q2 && par_eqb p1 p2
  | _, _ => false
  end.
Fixpoint xops_eqb (a b : list xop) : bool :=
  match a, b with
  | [], [] => true
  | x :: a', y :: b' => xop_eqb x y && xops_eqb a' b'
  | _, _ => false
  end.
Definition xres_eqb (a b : xres (list xop)) : bool :=
  match a, b with
  | XOk x, XOk y => xops_eqb x y
  | XErr, XErr => true
  | _, _ => false
  end.

(* sympy's Mul cancels adjacent equal self-inverse gates (X*X = 1, also after
   earlier cancellations): both sides are compared after that reduction *)
Fixpoint nf_go (stack : list xop) (l : list xop) : list xop :=
  match l with
  | [] => rev stack
  | o :: r => match stack with
              | t :: s' => if xop_eqb t o then nf_go s' r else nf_go (o :: stack) r
              | [] => nf_go [o] r
              end
  end.
Definition nf (l : list xop) : list xop := nf_go [] l.
Definition xres_nf (a : xres (list xop)) : xres (list xop) :=
  match a with XOk x => XOk (nf x) | XErr => XErr end.

(* qiskit's to_gate() rebuilds the circuit through a DAG: operations on disjoint
   qubits may come back in another order.  Gate mode is therefore compared as
   partial orders: same number of operations and, on every qubit, the same
   sequence of operations *)
Definition touches (q : nat) (o : xop) : bool :=
  match o with XOp _ _ qs _ => existsb (Nat.eqb q) qs | XBar => false end.
Definition in_reg (n : nat) (o : xop) : bool :=
  match o with XOp _ _ qs _ => forallb (fun q => Nat.ltb q n) qs && negb (Nat.eqb (List.length qs) 0) | XBar => false end.
Definition dag_eqb (n : nat) (a b : list xop) : bool :=
  if forallb (in_reg n) a && forallb (in_reg n) b then
    Nat.eqb (List.length a) (List.length b) &&
    forallb (fun q => xops_eqb (filter (touches q) a) (filter (touches q) b)) (seq 0 n)
  else xops_eqb a b.
Definition xres_dag_eqb (n : nat) (a b : xres (list xop)) : bool :=
  match a, b with
  | XOk x, XOk y => dag_eqb n x y
  | XErr, XErr => true
  | _, _ => false
  end.

Record xcase := mkcase {
  c_name : string; c_n : nat; c_qm : list (string * nat); c_gl : list xgate;
  c_qasm : list (option string);            (* v3 gate, v3 circuit, v2 gate, v2 circuit *)
  c_qiskit : list (xres (list xop));        (* gate, circuit *)
  c_cirq : xres (list xop);
  c_sympy : list (xres (list xop)) }.       (* gate, circuit *)

Definition code (id slot v : N) : list N := match v with 0%N => [] | _ => [(id * 10000 + slot * 100 + v)%N] end.

Definition chk_case (qiskit_attrs cirq_attrs : list string) (idc : N * xcase) : list N :=
  let id := fst idc in
  let c := snd idc in
  let name := c_name c in let n := c_n c in let qm := c_qm c in let gl := c_gl c in
  let q (slot : N) (ver3 gm : bool) (o : option (option string)) :=
      match o with
      | None => code id slot 98
      | Some obs =>
        (code id slot (qasm_verdict ver3 gm name n qm gl obs) ++
         code id (slot + 4) (if qasm_prop_ok gm name n gl (qasm_export true ver3 gm name n qm gl) obs
                             then 0 else 2))%list
      end in
  (q 0%N true true (nth_error (c_qasm c) 0) ++ q 1%N true false (nth_error (c_qasm c) 1) ++
   q 2%N false true (nth_error (c_qasm c) 2) ++ q 3%N false false (nth_error (c_qasm c) 3) ++
   (match c_qiskit c with
    | [g; ci] =>
      code id 8 (if xres_dag_eqb n (export_qiskit qiskit_attrs true gl) g then 0 else 99) ++
      code id 9 (if xres_eqb (export_qiskit qiskit_attrs false gl) ci then 0 else 99)
    | _ => code id 8 98
    end) ++
   code id 10 (if xres_eqb (export_cirq true cirq_attrs gl) (c_cirq c) then 0
               else if xres_eqb (export_cirq false cirq_attrs gl) (c_cirq c) then 1 else 99) ++
   (match c_sympy c with
    | [g; ci] =>
      code id 11 (if xres_eqb (xres_nf (export_sympy gl)) (xres_nf g) then 0 else 99) ++
      code id 12 (if xres_eqb (xres_nf (export_sympy gl)) (xres_nf ci) then 0 else 99)
    | _ => code id 11 98
    end))%list.

Definition chk_cases (qiskit_attrs cirq_attrs : list string) (cases : list (N * xcase)) : list N :=
  flat_map (chk_case qiskit_attrs cirq_attrs) cases.

(* the side conditions of cirq_ops_same_gates on the attribute table of this run *)
Definition attrs_ok (cirq_attrs : list string) : bool :=
  negb (has cirq_attrs "P") && negb (has cirq_attrs "MCtrl").
