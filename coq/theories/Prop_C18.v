(* Prop_C18.v — property C18 "The quadratic-model export has the function's
   minimisers as ground states", stated against the model M_Bqm.v of bqm.py WITH
   the proposed fix (proposed_fixes/C18_1_ret_symbol.diff: the `_ret` test before
   the `isinstance(exp, Symbol)` test) and RELATIVE TO the meaning of pyqubo's
   gates given by harness/pyqubo_stub.py (pyqubo is not installed).
   merge_expressions is a contract oracle checked per program by harness/c18.py.
   Statements only; proofs are in P_Bqm.v. *)
From Coq Require Import List Bool NArith ZArith Arith.
From QV Require Import Bits Bexp BexpTT M_Codec M_Bqm P_Bqm.
Import ListNotations.
Local Open Scope Z_scope.

(* SympyToBQM.visit: on every expression it accepts (And/Xor of two or more, Or of
   exactly two, Not, symbols, constants) and every 0/1 assignment the polynomial is
   the indicator of the expression, and it mentions exactly the expression's symbols *)
Theorem visit_indicator : forall e, visitable e = true ->
  exists p, visit e = Some p /\
    (forall env, peval (zenv env) p = b2z (beval env e)) /\
    (forall i, In i (pvars p) <-> In i (bsyms e)).
Proof. exact visit_indicator_lemma. Qed.
Print Assumptions visit_indicator.

(* ... and it raises on every other expression (Or of arity <> 2, ITE, Implies) *)
Theorem visit_domain : forall e p, visit e = Some p -> visitable e = true.
Proof. exact visit_some_visitable. Qed.
Print Assumptions visit_domain.

Example visit_indicator_nonvacuous :
  visitable (BAnd [BSym 0; BNot (BSym 1); BXor [BSym 2; BSym 0; BSym 1]]) = true /\
  visit (BOr [BSym 0; BSym 1; BSym 2]) = None /\
  visit (BAnd [BSym 0; BSym 1; BSym 2]) = Some (PMul (PVar 0) (PMul (PVar 1) (PVar 2))).
Proof. repeat split. Qed.

(* total energy = number of true return bits; the polynomial mentions exactly the
   symbols of the (merged) return expressions: no foreign variable *)
Theorem energy_counts_true_bits : forall merged p, to_bqm_fixed merged = Some p ->
  (forall env, peval (zenv env) p = count_true env merged) /\
  (forall i, In i (pvars p) <-> exists se, In se merged /\ In i (bsyms (snd se))).
Proof. exact energy_counts_true_bits_lemma. Qed.
Print Assumptions energy_counts_true_bits.

Theorem ground_states : forall merged p, to_bqm_fixed merged = Some p ->
  (forall env, (forall env', peval (zenv env) p <= peval (zenv env') p) <->
               (forall env', count_true env merged <= count_true env' merged)) /\
  (forall env, 0 <= peval (zenv env) p) /\
  (forall env, peval (zenv env) p = 0 <-> forallb (fun se => negb (beval env (snd se))) merged = true) /\
  ((exists z, forallb (fun se => negb (beval z (snd se))) merged = true) ->
   forall env, (forall env', peval (zenv env) p <= peval (zenv env') p) <->
               forallb (fun se => negb (beval env (snd se))) merged = true).
Proof. exact ground_states_lemma. Qed.
Print Assumptions ground_states.

Example ground_states_nonvacuous :
  (* _ret.0 = a ^ b ; _ret.1 = a & b  (a + b on one bit each) *)
  exists p, to_bqm_fixed [(3, BXor [BSym 0; BSym 1]); (4, BAnd [BSym 0; BSym 1])]%nat = Some p /\
            peval (zenv (fun _ => true)) p = 1 /\ peval (zenv (fun _ => false)) p = 0.
Proof. eexists. split; [reflexivity|]. split; reflexivity. Qed.

(* every argument bit some return bit depends on is mentioned *)
Theorem bqm_mentions_dependencies : forall merged p s e i env1 env2,
  to_bqm_fixed merged = Some p -> In (s, e) merged ->
  (forall j, j <> i -> env1 j = env2 j) -> beval env1 e <> beval env2 e -> In i (pvars p).
Proof. exact bqm_mentions_dependencies_lemma. Qed.
Print Assumptions bqm_mentions_dependencies.

(* ---- the code as found: `return a` ----
   _ret = a is translated to AndConst(a, a, _ret) = a - 4 a _ret + 3 _ret, which is 0
   at (a, _ret) = (1, 1): the input a = 1 is a ground state although it makes the
   return bit true and a = 0 does not *)
Example ground_states_today_refuted :
  exists merged p env env0,
    to_bqm_today merged = Some p /\
    (forall env', peval (zenv env) p <= peval (zenv env') p) /\
    count_true env0 merged < count_true env merged.
Proof.
  exists [(2%nat, BSym 0)], (pq_andconst (PVar 0) (PVar 0) (PVar 2)), (fun _ => true), (fun _ => false).
  split; [reflexivity|]. split; [|reflexivity].
  intros env'. unfold zenv. cbn [pq_andconst peval b2z]. destruct (env' 0%nat), (env' 2%nat); cbn; discriminate.
Qed.

Theorem to_bqm_today_partial : forall merged,
  forallb (fun se => not_bare_symbol (snd se)) merged = true -> to_bqm_today merged = to_bqm_fixed merged.
Proof. exact to_bqm_today_partial_lemma. Qed.
Print Assumptions to_bqm_today_partial.

(* decode_samples: the bits of the sample's input variables, in bitvec order, are
   decoded to the value whose encoding they are, in the argument's high-level type *)
Theorem decode_arg_encode : forall t v bits,
  wf_val t v = true -> val_to_bin t v = Some bits -> decode_arg t bits = Some v.
Proof. exact decode_arg_encode_lemma. Qed.
Print Assumptions decode_arg_encode.

Example decode_arg_nonvacuous :
  decode_arg (TTuple [TQint 2; TBool]) [false; true; true] = Some (VTuple [VInt 2; VBool true]) /\
  decode_arg_noreverse (TTuple [TQint 2; TBool]) [false; true; true] = Some (VTuple [VInt 3; VBool false]).
Proof. split; reflexivity. Qed.
