(* M_Algo.v — construction models of qlasskit/algorithms: the gate list each
   algorithm object builds, as a function of the black box's gate list.
   (No proofs here.)  The harness compares these lists EXACTLY with the
   implementation's `algo.circuit().gates` on every case.

   Anchors: deutschjozsa.py / bernsteinvazirani.py / simon.py / grover.py
   (`__init__`), bernsteinvazirani.py:secret_oracle,
   qcircuit.py: `+=` (append_circuit with the identity qubit list), `repeat`. *)
From Coq Require Import List Bool NArith ZArith Arith.
From QV Require Import Bexp BexpTT Circ.
Import ListNotations.

Definition gH (q : nat) : gate := mkg (K1 BH) [q] None.
Definition gX (q : nat) : gate := mkg (K1 BX) [q] None.
Definition gZ (q : nat) : gate := mkg (K1 BZ) [q] None.
(* QCircuit.barrier(label): Barrier on no qubits; the label is a string
   parameter, serialised as None *)
Definition gBar : gate := mkg KBarrier [] None.
(* QCircuit.mctrl(gates.Z(), wl, target): MCtrl(Z, len(wl)) on wl + [target] *)
Definition gMCZ (cs : list nat) (t : nat) : gate := mkg (KMCtrl BZ (length cs)) (cs ++ [t]) None.

(* for i in range(n): qc.h(i) *)
Definition h_layer (n : nat) : circuit := map gH (seq 0 n).

(* DeutschJozsa.__init__: n = len(f.args[0]), ret = f.circuit()["_ret"] *)
Definition dj_circuit (n ret : nat) (oracle : circuit) : circuit :=
  [gBar] ++ h_layer n ++ [gX ret; gH ret] ++ [gBar] ++ oracle ++ [gBar] ++ h_layer n.

(* BernsteinVazirani.__init__: the output qubit is prepared with H then Z *)
Definition bv_circuit (n ret : nat) (oracle : circuit) : circuit :=
  [gBar] ++ h_layer n ++ [gH ret; gZ ret] ++ [gBar] ++ oracle ++ [gBar] ++ h_layer n.

(* Simon.__init__ *)
Definition simon_circuit (n : nat) (oracle : circuit) : circuit :=
  [gBar] ++ h_layer n ++ [gBar] ++ oracle ++ [gBar] ++ h_layer n.

(* QCircuit.repeat(n): one copy, then n-1 more (so n = 0 also gives one copy) *)
Fixpoint copies (c : circuit) (k : nat) : circuit :=
  match k with O => [] | S k' => c ++ copies c k' end.
Definition qc_repeat (c : circuit) (n : nat) : circuit := c ++ copies c (n - 1).

(* Grover.__init__.  nqo = number of qubits of the oracle circuit; the added
   qubit `_ret_phased` gets index nqo. *)
Definition grover_oracle (oracle : circuit) (ret p : nat) : circuit := oracle ++ [gMCZ [ret] p].
Definition grover_diffuser (n p : nat) : circuit :=
  flat_map (fun i => [gH i; gX i]) (seq 0 n) ++ [gH p; gX p] ++
  [gMCZ (seq 0 n) p] ++
  flat_map (fun i => [gX i; gH i]) (seq 0 n) ++ [gX p; gH p].
Definition grover_circuit (n nqo ret : nat) (oracle : circuit) (iters : nat) : circuit :=
  let p := nqo in
  h_layer n ++ [gH p] ++ qc_repeat (grover_oracle oracle ret p ++ grover_diffuser n p) iters.

(* n_iterations = ceil(pi/4 * sqrt(N/M)) for N = 2^n, M = n_matching, decided in
   integers: it is the unique i >= 1 with  16 M (i-1)^2 < pi^2 N <= 16 M i^2,
   using 9.8696044010 < pi^2 < 9.8696044011 (pi^2 = 9.86960440108935...).
   None when the rational bounds do not separate (never for the sizes used). *)
Definition pi2_lo : N := 98696044010.
Definition pi2_hi : N := 98696044011.
Definition pi2_den : N := 10000000000.
Definition iters_ok (bigN M : N) (i : nat) : bool :=
  let i' := N.of_nat i in
  (0 <? i')%N &&
  (16 * M * (i' - 1) * (i' - 1) * pi2_den <? pi2_lo * bigN)%N &&
  (pi2_hi * bigN <=? 16 * M * i' * i' * pi2_den)%N.
Definition grover_iters (bigN M : N) : option nat :=
  find (iters_ok bigN M) (seq 1 (N.to_nat bigN + 1)).

(* secret_oracle(isize, secret): the source text is
     s = Qint<isize>(secret);  return (x[0]&s[0]) ^ ... ^ (x[isize-1]&s[isize-1])
   i.e. the expression  x |-> s.x  over the input symbols 0..isize-1 *)
Definition secret_expr (isize : nat) (secret : N) : bexp :=
  BXor (map (fun i => BAnd [BSym i; BConst (N.testbit secret (N.of_nat i))]) (seq 0 isize)).

(* ---- decidable equality of gate lists (exact comparison with the implementation) ---- *)
Definition base_eqb (a b : base) : bool :=
  match a, b with
  | BI, BI | BX, BX | BY, BY | BZ, BZ | BH, BH | BS, BS | BT, BT | BP, BP | BSwap, BSwap => true
  | _, _ => false
  end.
Definition gk_eqb (a b : gk) : bool :=
  match a, b with
  | K1 x, K1 y => base_eqb x y
  | KCX, KCX | KCZ, KCZ | KCP, KCP | KCCX, KCCX | KBarrier, KBarrier | KNop, KNop => true
  | KMCX n, KMCX m => Nat.eqb n m
  | KMCtrl x n, KMCtrl y m => base_eqb x y && Nat.eqb n m
  | _, _ => false
  end.
Fixpoint nats_eqb (a b : list nat) : bool :=
  match a, b with
  | [], [] => true
  | x :: a', y :: b' => Nat.eqb x y && nats_eqb a' b'
  | _, _ => false
  end.
Definition par_eqb (p q : option (Z * N)) : bool :=
  match p, q with
  | None, None => true
  | Some (a, b), Some (c, d) => Z.eqb a c && N.eqb b d
  | _, _ => false
  end.
Definition gate_eqb (a b : gate) : bool :=
  gk_eqb (gkind a) (gkind b) && nats_eqb (gqs a) (gqs b) && par_eqb (gpar a) (gpar b).
Fixpoint circ_eqb (a b : circuit) : bool :=
  match a, b with
  | [], [] => true
  | x :: a', y :: b' => gate_eqb x y && circ_eqb a' b'
  | _, _ => false
  end.
