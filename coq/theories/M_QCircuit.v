(* M_QCircuit.v — executable model of the circuit composition operators of
   qlasskit/qcircuit/qcircuit.py (append, append_circuit, __iadd__, __add__,
   copy, repeat, add_qubit, qft, iqft) and of
   qlasskit/qcircuit/qcircuitenhanced.py (remove_identities).
   Definitions only; the proofs are in P_QCircuit.v.

   A circuit is (num_qubits, gate list).  A gate entry is the Python tuple
   (gate object, qubit list, param): the gate OBJECT is represented by an
   explicit object id, because gate classes define no __eq__ and the tuple
   comparison of remove_identities therefore holds only for one and the same
   object.  deepcopy gives every object of the copy a fresh id (the sharing
   pattern inside the copy is preserved): modelled by adding an offset.

   Four defects of today's code are switchable: a flag set to [true] is the code
   AFTER the proposed patch (/verif/proposed_fixes/C14_*.diff), [false] is
   today's code.
     strict     append rejects a qubit index == num_qubits
     zero_empty repeat(0) returns the empty circuit instead of one copy
     guard      remove_identities tests `result and ...` before result[-1]
     selfinv    remove_identities cancels a pair only when the gate is self-inverse *)
From Coq Require Import List Bool NArith ZArith Arith.
From QV Require Import Circ.
Import ListNotations.

(* phase parameter: none, an exact rational (a Python float), or the symbolic
   value  +-2*pi / 2^k  used by qft/iqft *)
Inductive phase := PhNone | PhRat (num : Z) (den : N) | PhPi2 (neg : bool) (k : nat).

Record qgate := mkq { qobj : nat; qkind : gk; qqs : list nat; qpar : phase }.
Record qcirc := mkc { cn : nat; cgates : list qgate }.

Inductive err :=
| ERange      (* append: "qubit x not present" *)
| EDup        (* append: "duplicate qubit in gate append" *)
| EArity      (* gates.apply: "expected n qubits" *)
| ETooMany    (* append_circuit: "Other circuit has too many qubits" *)
| ELen        (* append_circuit: "Other circuit and qubits list mismatch" *)
| EIndex.     (* IndexError: qubits[ww] out of range, result[-1] of an empty list *)
Inductive res (A : Type) := Ok (a : A) | Err (e : err).
Arguments Ok {A} a.
Arguments Err {A} e.

Definition bind {A B} (r : res A) (f : A -> res B) : res B :=
  match r with Ok a => f a | Err e => Err e end.

(* ---- gates.py: n_qubits of each class ---- *)
Definition base_arity (b : base) : nat := match b with BSwap => 2 | _ => 1 end.
Definition arity (k : gk) : nat :=
  match k with
  | K1 b => base_arity b
  | KCX | KCZ | KCP => 2
  | KCCX => 3
  | KMCX n => S n
  | KMCtrl b n => n + base_arity b
  | KBarrier | KNop => 0
  end.

Fixpoint nodupb (l : list nat) : bool :=
  match l with
  | [] => true
  | x :: r => negb (existsb (Nat.eqb x) r) && nodupb r
  end.

(* ---- QCircuit.append ---- *)
Definition range_bad (strict : bool) (n x : nat) : bool :=
  if strict then n <=? x else n <? x.      (* today: `x > self.num_qubits` *)

Definition qc_append (strict : bool) (c : qcirc) (g : qgate) : res qcirc :=
  if existsb (range_bad strict (cn c)) (qqs g) then Err ERange
  else if negb (nodupb (qqs g)) then Err EDup
  else if negb (length (qqs g) =? arity (qkind g)) then Err EArity
  else Ok (mkc (cn c) (cgates c ++ [g])).

Fixpoint qc_extend (strict : bool) (c : qcirc) (gl : list qgate) : res qcirc :=
  match gl with
  | [] => Ok c
  | g :: r => bind (qc_append strict c g) (fun c' => qc_extend strict c' r)
  end.

Definition qc_add_qubit (c : qcirc) : qcirc * nat := (mkc (S (cn c)) (cgates c), cn c).

(* ---- QCircuit.append_circuit ---- *)
Fixpoint map_opt {A B} (f : A -> option B) (l : list A) : option (list B) :=
  match l with
  | [] => Some []
  | x :: r => match f x, map_opt f r with
              | Some y, Some r' => Some (y :: r')
              | _, _ => None
              end
  end.

(* wn = [qubits[ww] for ww in w]; the gate object is shared, the list is new *)
Definition remap (qs : list nat) (g : qgate) : option qgate :=
  match map_opt (nth_error qs) (qqs g) with
  | Some w => Some (mkq (qobj g) (qkind g) w (qpar g))
  | None => None
  end.

Definition qc_append_circuit (c o : qcirc) (qs : list nat) : res qcirc :=
  if cn c <? cn o then Err ETooMany
  else if negb (length qs =? cn o) then Err ELen
  else match map_opt (remap qs) (cgates o) with
       | None => Err EIndex
       | Some og => Ok (mkc (cn c) (cgates c ++ og))
       end.

(* ---- __iadd__ with a circuit operand ---- *)
Definition qc_iadd (c o : qcirc) : res qcirc := qc_append_circuit c o (seq 0 (cn o)).

(* ---- copy (deepcopy): same entries, fresh gate objects ---- *)
Definition shift_id (off : nat) (g : qgate) : qgate := mkq (off + qobj g) (qkind g) (qqs g) (qpar g).
Definition qc_copy (off : nat) (c : qcirc) : qcirc := mkc (cn c) (map (shift_id off) (cgates c)).

(* ---- __add__: nqc = deepcopy(self); nqc += other ---- *)
Definition qc_add (off : nat) (c o : qcirc) : res qcirc := qc_iadd (qc_copy off c) o.

(* ---- repeat ----
     o = self.copy(); n_qc = self.copy()
     for i in range(n - 1): n_qc += o.copy()
   w is a bound on the ids of self (offset unit of the successive deepcopies) *)
Definition id_bound (l : list qgate) : nat := S (fold_right (fun g m => Nat.max (qobj g) m) 0 l).

Fixpoint repeat_loop (k i w : nat) (o acc : qcirc) : res qcirc :=
  match k with
  | 0 => Ok acc
  | S k' => bind (qc_iadd acc (qc_copy (w * i) o)) (fun a => repeat_loop k' (S i) w o a)
  end.

Definition qc_repeat (zero_empty : bool) (n : nat) (c : qcirc) : res qcirc :=
  let w := id_bound (cgates c) in
  let o := qc_copy w c in
  let nqc := qc_copy (2 * w) c in
  if zero_empty && (n =? 0) then Ok (mkc (cn c) [])
  else repeat_loop (n - 1) 2 w o nqc.

(* ---- remove_identities ---- *)
Fixpoint list_nat_eqb (a b : list nat) : bool :=
  match a, b with
  | [], [] => true
  | x :: a', y :: b' => (x =? y) && list_nat_eqb a' b'
  | _, _ => false
  end.

Definition phase_eqb (p q : phase) : bool :=
  match p, q with
  | PhNone, PhNone => true
  | PhRat a b, PhRat c d => Z.eqb a c && N.eqb b d
  | PhPi2 s k, PhPi2 t j => Bool.eqb s t && (k =? j)
  | _, _ => false
  end.

(* Python `==` on (gate object, list, param): identity for the object *)
Definition qgate_eqb (a b : qgate) : bool :=
  (qobj a =? qobj b) && list_nat_eqb (qqs a) (qqs b) && phase_eqb (qpar a) (qpar b).

Definition base_selfinv (b : base) : bool :=
  match b with BI | BX | BY | BZ | BH | BSwap => true | BS | BT | BP => false end.
Definition self_inv_kind (k : gk) : bool :=
  match k with
  | K1 b => base_selfinv b
  | KCX | KCZ | KCCX | KMCX _ => true
  | KCP => false
  | KMCtrl b _ => base_selfinv b
  | KBarrier | KNop => true
  end.

Definition cancels (selfinv : bool) (a b : qgate) : bool :=
  qgate_eqb a b && (if selfinv then self_inv_kind (qkind a) else true).

Definition is_barrier (g : qgate) : bool := match qkind g with KBarrier => true | _ => false end.

(* `if isinstance(result[-1][0], Barrier): result.pop()`; the result list is kept
   reversed.  On an empty result today's code raises IndexError. *)
Definition pop_barrier (guard : bool) (rres : list qgate) : res (list qgate) :=
  match rres with
  | [] => if guard then Ok [] else Err EIndex
  | r :: rest => Ok (if is_barrier r then rest else rres)
  end.

Fixpoint ri_loop (selfinv guard : bool) (l : list qgate) (rres : list qgate) : res (list qgate) :=
  match l with
  | [] => Ok (rev rres)
  | a :: l1 =>
    match l1 with
    | [] => Ok (rev (a :: rres))
    | b :: l2 =>
      if cancels selfinv a b then
        match pop_barrier guard rres with
        | Err e => Err e
        | Ok r' => ri_loop selfinv guard l2 r'
        end
      else
        match l2 with
        | [] => ri_loop selfinv guard l1 (a :: rres)
        | c :: l3 =>
          if cancels selfinv a c && is_barrier b then
            match pop_barrier guard rres with
            | Err e => Err e
            | Ok r' => ri_loop selfinv guard l3 r'
            end
          else ri_loop selfinv guard l1 (a :: rres)
        end
    end
  end.

Definition remove_identities (selfinv guard : bool) (c : qcirc) : res qcirc :=
  match ri_loop selfinv guard (cgates c) [] with
  | Ok r => Ok (mkc (cn c) r)
  | Err e => Err e
  end.

(* ---- qft / iqft gate sequences for a qubit list ----
   core: for i: H(wl[i]); for j > i: CP(2*pi/2^(j-i+1)) on [wl[j]; wl[i]]
   written by recursion on the list: the head is wl[i], the d-th element of the
   tail is wl[i+1+d], so j-i+1 = d+2. *)
Notation pgate := (gk * list nat * phase)%type (only parsing).

Fixpoint cp_row (neg : bool) (q : nat) (d : nat) (rest : list nat) : list pgate :=
  match rest with
  | [] => []
  | r :: rest' => (KCP, [r; q], PhPi2 neg (d + 2)) :: cp_row neg q (S d) rest'
  end.

Fixpoint qft_core (wl : list nat) : list pgate :=
  match wl with
  | [] => []
  | q :: rest => ((K1 BH, [q], PhNone) :: cp_row false q 0 rest) ++ qft_core rest
  end.

(* for i in reversed(range(n)): for j in reversed(range(i+1, n)): CP(-...); H *)
Fixpoint iqft_core (wl : list nat) : list pgate :=
  match wl with
  | [] => []
  | q :: rest => iqft_core rest ++ rev (cp_row true q 0 rest) ++ [(K1 BH, [q], PhNone)]
  end.

(* for i in range(n // 2): swap(wl[i], wl[n-i-1]); both indices are < n, the
   default of nth is never used *)
Definition qft_swaps (wl : list nat) : list pgate :=
  let n := length wl in
  map (fun i => (K1 BSwap, [nth i wl 0; nth (n - i - 1) wl 0], PhNone)) (seq 0 (n / 2)).

Definition qft_gates (wl : list nat) : list pgate := qft_core wl ++ qft_swaps wl.
Definition iqft_gates (wl : list nat) : list pgate := qft_swaps wl ++ iqft_core wl.

(* every self.h / self.cp / self.swap call creates a new gate object *)
Fixpoint number (fresh : nat) (l : list pgate) : list qgate :=
  match l with
  | [] => []
  | (k, qs, p) :: r => mkq fresh k qs p :: number (S fresh) r
  end.

Definition qc_qft (strict : bool) (c : qcirc) (fresh : nat) (wl : list nat) : res qcirc :=
  qc_extend strict c (number fresh (qft_gates wl)).
Definition qc_iqft (strict : bool) (c : qcirc) (fresh : nat) (wl : list nat) : res qcirc :=
  qc_extend strict c (number fresh (iqft_gates wl)).

(* the plain gate of Circ.v (classical semantics fsim) behind an entry *)
Definition to_gate (g : qgate) : gate :=
  mkg (qkind g) (qqs g) (match qpar g with PhRat z n => Some (z, n) | _ => None end).
