(* Prop_C01_e2e.v — C01, END TO END: the source-to-source normaliser (M_A2A, untyped Python
   semantics, string names) composed with the expression / statement translator (M_Texp, typed
   qlasskit semantics, numbered names), through the bridge of M_Bridge.v / P_Bridge.v.

   STATEMENTS ONLY (proofs: P_Bridge.v, P_A2A.v, P_Texp.v).

   The two reference evaluators are related in the EXACT regime: [exact_*] is a decidable
   predicate computed along the typed evaluation ("no result was reduced modulo 2^w, the return
   coercion kept the value").  There, typed value tv  ==>  untyped value [erase tv].

   Where the two evaluators DIFFER even without wrap (so [conv] / [exact] exclude it; Examples
   C01e_differs_* below):
     ~a          Python: -a-1 (negative);  qlasskit: 2^w-1-a.          ~3 == -4  vs  Qint[2] 0
     a[i], a int Python: TypeError;        qlasskit: bit i of a.       (3)[0]    vs  True
     return      Python stops at the first return; translate_ast goes through EVERY statement
                 and rejects a second one: bodies must end with their only return ([ret_last])
   and the wrap itself:  a + 1, a = 3 : Qint[2]   is 4 in Python and 0 in qlasskit ([exact] false).

   Hypotheses of the composed theorem C01e_end_to_end, all decidable except the two about the
   bit-level numbering (injective numbering, arguments encoded):
     a2a_guard f, a2a f = Ok b'            (normaliser side: C01a_backward)
     conv_sig / conv_body succeed, ret_last (the common fragment)
     conforms_b                            (typed tuple arguments hold tuples)
     eval_fun ... = Some tv, exact_fun     (the typed evaluator gives tv, exactly)
     trans_fun ... = Some lf, wf_args, ty_good rt, forallb stmt_class body
                                           (translator side: C01x_trans_fun_sound_class) *)
From Coq Require Import List Bool NArith ZArith Arith String.
From QV Require Import Bits Bexp BexpTT M_Codec Generated M_Types M_Texp P_Texp.
From QV Require M_A2A P_A2A.
From QV Require Import M_Bridge P_Bridge.
Import ListNotations.
Local Open Scope string_scope.

(* the mapping of names is injective on the names it converts, and never yields `_ret` *)
Theorem C01e_names : forall ns x y,
  known ns x = true -> (idn ns x = idn ns y -> x = y) /\ idn ns x <> ret_id.
Proof. exact (fun ns x y H => conj (idn_inj ns x y H) (fun E => O_S _ (eq_sym E))). Qed.
Print Assumptions C01e_names.

(* expressions: typed value, exactly  ==>  the same Python value *)
Theorem C01e_bridge_exp : forall ext ns V rho e e' tv,
  env_rel ns V rho ->
  conv_exp ns e = Some e' -> eval_exp V e' = Some tv -> exact_exp V e' = true ->
  A.eval ext rho e = Some (erase tv).
Proof. exact (fun ext ns V rho e e' tv H => bridge_exp ext ns V rho H e e' tv). Qed.
Print Assumptions C01e_bridge_exp.

(* statement lists: the untyped execution reaches the Return with the erased value *)
Theorem C01e_bridge_body : forall ext ns rt b V rho body V',
  env_rel ns V rho -> lookup V ret_id = None ->
  conv_body ns b = Some body -> ret_last body = true ->
  eval_body V rt body = Some V' -> exact_body V rt body = true ->
  exists tv rho', lookup V' ret_id = Some tv /\ plain tv = true /\
                  A.exec_list ext b rho = Some (rho', Some (erase tv)).
Proof. exact bridge_body. Qed.
Print Assumptions C01e_bridge_body.

(* functions, on the erased arguments *)
Theorem C01e_bridge_fun : forall ext ns fargs args rt b body vs tv,
  conv_args ns fargs = Some args -> conv_body ns b = Some body -> ret_last body = true ->
  eval_fun args rt body vs = Some tv -> exact_fun args rt body vs = true ->
  A.run ext b (arg_rho (map fst fargs) vs) = Some (erase tv) /\ plain tv = true.
Proof. exact bridge_fun. Qed.
Print Assumptions C01e_bridge_fun.

(* END TO END *)
Theorem C01e_end_to_end : forall ext ns f b' args rt body vs tv num rhoB lf,
  A.a2a_guard f = true -> A.a2a f = A.Ok b' ->
  conv_sig ns f = Some (args, rt) -> conv_body ns b' = Some body -> ret_last body = true ->
  A.conforms_b f (arg_rho (map fst (A.f_args f)) vs) = true ->
  eval_fun args rt body vs = Some tv -> exact_fun args rt body vs = true ->
  (forall a b, num a = num b -> a = b) ->
  trans_fun num args rt body = Some lf ->
  wf_args args = true -> ty_good rt = true -> forallb stmt_class body = true ->
  args_encoded num rhoB args vs ->
  (* (i) the SOURCE function returns erase tv in Python *)
  A.run ext (A.f_body f) (arg_rho (map fst (A.f_args f)) vs) = Some (erase tv) /\
  plain tv = true /\
  (* (ii) the Boolean definitions the translator produces decode to tv *)
  lf_ret lf = (rt, arg_names [ret_id] rt) /\
  decode rt (map (fun s => run_defs rhoB (numbered num (lf_defs lf)) (num s)) (arg_names [ret_id] rt))
    = Some tv.
Proof. exact e2e. Qed.
Print Assumptions C01e_end_to_end.

(* ---------------- non-vacuity ---------------- *)
(* def f(a: Qint[2], c: bool) -> Qint[4]:
       b = a
       if c:
           b = b + 1
       return b                                                   f(1, True) == 2 *)
Definition e2e_fun : A.fundef := A.mkfun
  [("a", Some (A.ESubscript (A.EName "Qint") (A.EConst (A.CInt 2)))); ("c", Some (A.EName "bool"))]
  (Some (A.ESubscript (A.EName "Qint") (A.EConst (A.CInt 4))))
  [A.SAssign (A.TName "b") (A.EName "a");
   A.SIf (A.EName "c") [A.SAssign (A.TName "b") (A.EBinOp A.Add (A.EName "b") (A.EConst (A.CInt 1)))] [];
   A.SReturn (A.EName "b")].
Definition e2e_ns : list string := ["a"; "c"; "b"; "_iftarg2"; "__b"].
(* what ast2ast makes of it *)
Definition e2e_norm : list A.stmt :=
  [A.SAssign (A.TName "b") (A.EName "a");
   A.SAssign (A.TName "_iftarg2") (A.EName "c");
   A.SAssign (A.TName "__b")
     (A.EIfExp (A.EName "_iftarg2") (A.EBinOp A.Add (A.EName "b") (A.EConst (A.CInt 1))) (A.EName "b"));
   A.SAssign (A.TName "b") (A.EIfExp (A.EName "_iftarg2") (A.EName "__b") (A.EName "b"));
   A.SReturn (A.EName "b")].
(* ... converted: a = 1, c = 2, b = 3, _iftarg2 = 4, __b = 5 *)
Definition e2e_args : list (ident * ty) := [(1%nat, TQint 2); (2%nat, TBool)].
Definition e2e_body : list pstmt :=
  [SAssign 3%nat (EName 1%nat);
   SAssign 4%nat (EName 2%nat);
   SAssign 5%nat (EIf (EName 4%nat) (EBin AoAdd (EName 3%nat) (EConst (CInt 1))) (EName 3%nat));
   SAssign 3%nat (EIf (EName 4%nat) (EName 5%nat) (EName 3%nat));
   SReturn (EName 3%nat)].
Definition e2e_vs : list value := [VI 2 1; VB true].
(* a.0 = 1, c = 1 under the injective numbering enc *)
Definition e2e_rho : nat -> bool := rho_of [[1; 0]; [2]]%nat.

Example C01e_hypotheses_hold :
  A.a2a_guard e2e_fun = true /\ A.a2a e2e_fun = A.Ok e2e_norm
  /\ conv_sig e2e_ns e2e_fun = Some (e2e_args, TQint 4)
  /\ conv_body e2e_ns e2e_norm = Some e2e_body /\ ret_last e2e_body = true
  /\ A.conforms_b e2e_fun (arg_rho (map fst (A.f_args e2e_fun)) e2e_vs) = true
  /\ eval_fun e2e_args (TQint 4) e2e_body e2e_vs = Some (VI 4 2)
  /\ exact_fun e2e_args (TQint 4) e2e_body e2e_vs = true
  /\ (exists lf, trans_fun enc e2e_args (TQint 4) e2e_body = Some lf)
  /\ wf_args e2e_args = true /\ ty_good (TQint 4) = true /\ forallb stmt_class e2e_body = true
  /\ args_encoded enc e2e_rho e2e_args e2e_vs.
Proof.
  repeat split; try (vm_compute; reflexivity).
  - eexists. vm_compute. reflexivity.
  - repeat constructor.
Qed.

(* ... and the conclusion, for every interpretation of non-builtin calls *)
Example C01e_end_to_end_ex : forall ext,
  A.run ext (A.f_body e2e_fun) (A.env_of [("a", A.VInt 1); ("c", A.VBool true)]) = Some (A.VInt 2)
  /\ exists lf, trans_fun enc e2e_args (TQint 4) e2e_body = Some lf /\
       decode (TQint 4) (map (fun s => run_defs e2e_rho (numbered enc (lf_defs lf)) (enc s))
                             (arg_names [ret_id] (TQint 4))) = Some (VI 4 2).
Proof.
  intros ext.
  destruct C01e_hypotheses_hold as (H1 & H2 & H3 & H4 & H5 & H6 & H7 & H8 & (lf & H9) & H10 & H11 & H12 & H13).
  destruct (C01e_end_to_end ext e2e_ns e2e_fun e2e_norm e2e_args (TQint 4) e2e_body e2e_vs (VI 4 2)
              enc e2e_rho lf H1 H2 H3 H4 H5 H6 H7 H8 enc_inj H9 H10 H11 H12 H13) as (R1 & _ & _ & R2).
  split; [exact R1|]. exists lf. split; [exact H9|exact R2].
Qed.

(* one expression through the rest of the fragment: tuple ==, subscript, int(), shift, < :
       t == (True, a) and (int(t[1]) << 1) < 7          t = (True, 1), a = 1 *)
Example C01e_bridge_exp_ex :
  let ns := ["t"; "a"] in
  let e := A.EBoolOp A.And
     [A.ECompare A.Eq (A.EName "t") (A.ETuple [A.EConst (A.CBool true); A.EName "a"]);
      A.ECompare A.Lt
        (A.EBinOp A.LShift (A.ECall "int" [A.ESubscript (A.EName "t") (A.EConst (A.CInt 1))]) (A.EConst (A.CInt 1)))
        (A.EConst (A.CInt 7))] in
  let V := [(1%nat, VT [VB true; VI 2 1]); (2%nat, VI 2 1)] in
  (exists e', conv_exp ns e = Some e' /\ eval_exp V e' = Some (VB true) /\ exact_exp V e' = true)
  /\ A.eval P_A2A.no_ext (A.env_of [("t", A.VTup [A.VBool true; A.VInt 1]); ("a", A.VInt 1)]) e = Some (A.VBool true).
Proof. split; [eexists; repeat split; vm_compute; reflexivity|vm_compute; reflexivity]. Qed.

(* ---------------- where the two evaluators differ ---------------- *)
(* ~a: Python -4, Qint[2] 0 *)
Example C01e_differs_invert :
  A.eval P_A2A.no_ext (A.env_of [("a", A.VInt 3)]) (A.EUnOp A.Invert (A.EName "a")) = Some (A.VInt (-4))
  /\ eval_exp [(1%nat, VI 2 3)] (EUn UoInvert (EName 1%nat)) = Some (VI 2 0)
  /\ conv_exp ["a"] (A.EUnOp A.Invert (A.EName "a")) = None.
Proof. repeat split; vm_compute; reflexivity. Qed.

(* a[0] on an integer: Python has no value (TypeError), qlasskit reads bit 0 *)
Example C01e_differs_bit_subscript :
  A.eval P_A2A.no_ext (A.env_of [("a", A.VInt 3)]) (A.ESubscript (A.EName "a") (A.EConst (A.CInt 0))) = None
  /\ conv_exp ["a"] (A.ESubscript (A.EName "a") (A.EConst (A.CInt 0))) = Some (ESub 1%nat [0%nat])
  /\ eval_exp [(1%nat, VI 2 3)] (ESub 1%nat [0%nat]) = Some (VB true)
  /\ exact_exp [(1%nat, VI 2 3)] (ESub 1%nat [0%nat]) = false.
Proof. repeat split; vm_compute; reflexivity. Qed.

(* statements after a return: Python stops, translate_ast goes on and rejects the second return *)
Example C01e_differs_return :
  let b := [A.SReturn (A.EConst (A.CBool true)); A.SReturn (A.EConst (A.CBool false))] in
  A.run P_A2A.no_ext b A.empty_env = Some (A.VBool true)
  /\ conv_body [] b = Some [SReturn (EConst (CBool true)); SReturn (EConst (CBool false))]
  /\ eval_body [] TBool [SReturn (EConst (CBool true)); SReturn (EConst (CBool false))] = None
  /\ ret_last [SReturn (EConst (CBool true)); SReturn (EConst (CBool false))] = false.
Proof. repeat split; vm_compute; reflexivity. Qed.

(* the wrap: 3 + 1 is 4 in Python, 0 in Qint[2]; [exact] says so *)
Example C01e_differs_wrap :
  let e := A.EBinOp A.Add (A.EName "a") (A.EConst (A.CInt 1)) in
  A.eval P_A2A.no_ext (A.env_of [("a", A.VInt 3)]) e = Some (A.VInt 4)
  /\ conv_exp ["a"] e = Some (EBin AoAdd (EName 1%nat) (EConst (CInt 1)))
  /\ eval_exp [(1%nat, VI 2 3)] (EBin AoAdd (EName 1%nat) (EConst (CInt 1))) = Some (VI 2 0)
  /\ exact_exp [(1%nat, VI 2 3)] (EBin AoAdd (EName 1%nat) (EConst (CInt 1))) = false.
Proof. repeat split; vm_compute; reflexivity. Qed.
