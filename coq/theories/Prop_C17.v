(* Prop_C17.v — property C17 "Command-line tools print what the library computes",
   stated against the model M_Dimacs.v of py2bexp.py WITH the two proposed fixes
   (proposed_fixes/C17_1_conjunction.diff, C17_2_dimacs_clauses.diff).
   sympy's to_cnf/to_anf/to_dnf/to_nnf and merge_expressions are contract oracles
   (hypotheses here, checked per call by harness/c17.py).  argparse / tempfile /
   import glue and the QASM printer are exercised by the harness, not modelled.
   Statements only; proofs are in P_Dimacs.v.  The `_refuted` Examples are about
   the model of the code as found (to_dimacs_today, conj_today). *)
From Coq Require Import List Bool NArith ZArith Arith String Sorted.
From QV Require Import Bexp BexpTT M_Dimacs P_Dimacs.
Import ListNotations.
Local Open Scope Z_scope.

(* DIMACS printing: for every expression in CNF shape (conjunction of clauses, one
   clause, one literal, True, False) and every enumeration order of its symbols,
   the printed header counts are right, every literal is a number in 1..nvars, and
   an assignment satisfies the printed clause list iff it satisfies the expression *)
Theorem dimacs_models_iff : forall cnf order,
  cnf_shape cnf = true -> NoDup order -> incl (bsyms cnf) order ->
  exists cls,
    to_dimacs_fixed cnf order = Some (List.length order, List.length cls, cls) /\
    List.length cls = List.length (clauses_fixed cnf) /\
    well_numbered (List.length order) cls = true /\
    (forall s, dimacs_sat s cls = beval (fun i => s (num order i)) cnf) /\
    (forall env, dimacs_sat (fun k => env (unnum order k)) cls = beval env cnf).
Proof. exact dimacs_models_iff_lemma. Qed.
Print Assumptions dimacs_models_iff.

Example dimacs_models_iff_nonvacuous :
  let cnf := BAnd [BOr [BSym 0; BSym 1; BNot (BSym 2)]; BOr [BSym 2; BNot (BSym 1)]] in
  cnf_shape cnf = true /\ NoDup [2; 0; 1]%nat /\ incl (bsyms cnf) [2; 0; 1]%nat /\
  to_dimacs_fixed cnf [2; 0; 1]%nat = Some (3%nat, 2%nat, [[2; 3; -1]; [1; -3]]).
Proof.
  cbv zeta. split; [reflexivity|]. split; [repeat constructor; cbn; intuition discriminate|].
  split; [|reflexivity]. intros i Hi. cbn in Hi. cbn. intuition.
Qed.

(* the numbering built by the code is one-to-one between the symbols and 1..nvars *)
Theorem numbering_bijective : forall order, NoDup order ->
  (forall i, In i order -> (1 <= num order i <= List.length order)%nat /\ unnum order (num order i) = i) /\
  (forall k, (1 <= k <= List.length order)%nat -> In (unnum order k) order /\ num order (unnum order k) = k) /\
  (forall i j, In i order -> In j order -> num order i = num order j -> i = j).
Proof. exact numbering_bijective_lemma. Qed.
Print Assumptions numbering_bijective.

(* the conjunction printed (fixed code: over the merged return expressions) is over
   the argument bits and is true exactly when every return bit is true *)
Theorem conj_fixed_equiv : forall exprs merged rets n,
  merge_contract exprs merged rets n ->
  syms_below n (conj_fixed merged) = true /\
  forall env, beval env (conj_fixed merged) = rets_all_true env exprs rets.
Proof. exact conj_fixed_equiv_lemma. Qed.
Print Assumptions conj_fixed_equiv.

Example conj_fixed_equiv_nonvacuous :
  (* x3 = a & b ; _ret = x3 | c   merged to   _ret = (a & b) | c *)
  merge_contract [(3, BAnd [BSym 0; BSym 1]); (4, BOr [BSym 3; BSym 2])]%nat
                 [(4, BOr [BAnd [BSym 0; BSym 1]; BSym 2])]%nat [4]%nat 3.
Proof.
  split; [reflexivity|]. split.
  - intros s e [H|[]]. now injection H as <- <-.
  - intros env s e [H|[]]. injection H as <- <-. unfold run_defs, beval. cbn.
    destruct (env 0%nat), (env 1%nat), (env 2%nat); reflexivity.
Qed.

(* the whole DIMACS path: normal form (any equivalent expression), to_cnf, printing *)
Theorem dimacs_pipeline : forall to_cnf : bexp -> bexp,
  (forall e, cnf_shape (to_cnf e) = true /\ (forall env, beval env (to_cnf e) = beval env e) /\
             incl (bsyms (to_cnf e)) (bsyms e)) ->
  forall exprs merged rets n expr order,
    merge_contract exprs merged rets n ->
    (forall env, beval env expr = beval env (conj_fixed merged)) ->
    NoDup order -> incl (bsyms expr) order ->
    exists cls,
      to_dimacs_fixed (to_cnf expr) order = Some (List.length order, List.length cls, cls) /\
      well_numbered (List.length order) cls = true /\
      forall env, dimacs_sat (fun k => env (unnum order k)) cls = rets_all_true env exprs rets.
Proof. exact dimacs_pipeline_lemma. Qed.
Print Assumptions dimacs_pipeline.

(* ---- the code as found ---- *)
(* single clause a | b: printed as the two unit clauses "1 0", "2 0" *)
Example dimacs_today_single_clause_refuted :
  exists cnf order d s, cnf_shape cnf = true /\ NoDup order /\ incl (bsyms cnf) order /\
    to_dimacs_today cnf order = Some d /\ d_nclauses d = 2%nat /\
    dimacs_sat s (d_clauses d) <> beval (fun i => s (num order i)) cnf.
Proof.
  exists (BOr [BSym 0; BSym 1]), [0; 1]%nat, (2%nat, 2%nat, [[1]; [2]]), (fun k => Nat.eqb k 1).
  split; [reflexivity|]. split; [repeat constructor; cbn; intuition discriminate|].
  split; [intros i Hi; exact Hi|]. split; [reflexivity|]. split; [reflexivity|]. vm_compute. discriminate.
Qed.

(* negative literal ~a: KeyError *)
Example dimacs_today_negative_literal_refuted :
  cnf_shape (BNot (BSym 0)) = true /\ to_dimacs_today (BNot (BSym 0)) [0%nat] = None /\
  to_dimacs_fixed (BNot (BSym 0)) [0%nat] = Some (1%nat, 1%nat, [[-1]]).
Proof. repeat split. Qed.

(* single symbol a: no clause printed, so a = 0 "satisfies" the output *)
Example dimacs_today_single_symbol_refuted :
  to_dimacs_today (BSym 0) [0%nat] = Some (1%nat, 0%nat, []) /\
  dimacs_sat (fun _ => false) [] <> beval (fun _ => false) (BSym 0) /\
  to_dimacs_fixed (BSym 0) [0%nat] = Some (1%nat, 1%nat, [[1]]).
Proof. split; [reflexivity|]. split; [vm_compute; discriminate|reflexivity]. Qed.

(* False: printed as the empty clause LIST (satisfiable) instead of the empty clause *)
Example dimacs_today_false_refuted :
  to_dimacs_today (BConst false) [] = Some (0%nat, 0%nat, []) /\
  dimacs_sat (fun _ => false) [] <> beval (fun _ => false) (BConst false) /\
  to_dimacs_fixed (BConst false) [] = Some (0%nat, 1%nat, [[]]).
Proof. split; [reflexivity|]. split; [vm_compute; discriminate|reflexivity]. Qed.

(* today's extraction is right on a conjunction of two or more proper clauses *)
Theorem dimacs_today_partial : forall l order,
  (2 <= List.length l)%nat -> forallb is_clause_nf l = true ->
  to_dimacs_today (BAnd l) order = to_dimacs_fixed (BAnd l) order.
Proof. exact dimacs_today_partial_lemma. Qed.
Print Assumptions dimacs_today_partial.

(* today's conjunction takes every right-hand side, intermediates included:
   x3 = a & b ; _ret = x3 | c  prints (a & b) & (x3 | c), which mentions x3 and,
   even with x3 read as a & b, is false at a=b=0, c=1 where _ret is true *)
Example conj_today_refuted :
  exists exprs rets n env,
    syms_below n (conj_today exprs) = false /\
    env 3%nat = beval env (BAnd [BSym 0; BSym 1]) /\
    beval env (conj_today exprs) <> rets_all_true env exprs rets.
Proof.
  exists [(3, BAnd [BSym 0; BSym 1]); (4, BOr [BSym 3; BSym 2])]%nat, [4]%nat, 3%nat, (fun i => Nat.eqb i 2).
  split; [reflexivity|]. split; [reflexivity|]. vm_compute. discriminate.
Qed.

(* ... and is right when the expression list defines only return bits over the arguments *)
Theorem conj_today_partial : forall exprs,
  NoDup (map fst exprs) ->
  (forall s e, In (s, e) exprs -> forall i, In i (bsyms e) -> ~ In i (map fst exprs)) ->
  forall env, beval env (conj_today exprs) = rets_all_true env exprs (map fst exprs).
Proof. exact conj_today_partial_lemma. Qed.
Print Assumptions conj_today_partial.

(* ---- entry-point selection ---- *)
(* a script with a single function needs no option *)
Theorem select_single : forall (A : Type) (n : string) (x : A), select None [(n, x)] = Some x.
Proof. exact (@select_single_lemma). Qed.
Print Assumptions select_single.

(* "-e name" selects the member of that name; an unknown name selects nothing *)
Theorem select_named : forall (A : Type) (l : list (string * A)) n x,
  n <> EmptyString -> NoDup (map fst l) -> In (n, x) l -> select_members (Some n) l = Some x.
Proof. exact (@select_members_named_lemma). Qed.
Print Assumptions select_named.

Theorem select_absent : forall (A : Type) (l : list (string * A)) n,
  n <> EmptyString -> ~ In n (map fst l) -> select_members (Some n) l = None.
Proof. exact (@select_members_absent_lemma). Qed.
Print Assumptions select_absent.

(* no option: getmembers is sorted by name, so the function chosen is the one whose
   name is alphabetically greatest, whatever the order of definition *)
Theorem getmembers_sorted : forall (A : Type) (ds : list (string * A)),
  StronglySorted name_lt (getmembers ds).
Proof. exact (@getmembers_sorted_lemma). Qed.
Print Assumptions getmembers_sorted.

Theorem select_default_greatest : forall (A : Type) (ds : list (string * A)) x,
  select None ds = Some x ->
  exists n, In (n, x) (getmembers ds) /\
    forall m y, In (m, y) (getmembers ds) -> m = n \/ String.compare m n = Lt.
Proof. exact (@select_default_greatest_lemma). Qed.
Print Assumptions select_default_greatest.

Local Open Scope string_scope.
Example select_examples :
  select None [("zz", 1%nat); ("aa", 2%nat); ("mm", 3%nat)] = Some 1%nat /\
  select (Some "aa") [("zz", 1%nat); ("aa", 2%nat); ("mm", 3%nat)] = Some 2%nat /\
  select (Some "qq") [("zz", 1%nat); ("aa", 2%nat); ("mm", 3%nat)] = None /\
  select (Some "") [("zz", 1%nat); ("aa", 2%nat)] = Some 1%nat /\
  select None [("b", 1%nat); ("a", 2%nat); ("b", 3%nat)] = Some 3%nat.
Proof. repeat split. Qed.
