(* Prop_C16.v — "Deutsch-Jozsa, Bernstein-Vazirani, Simon circuits meet textbook
   guarantees".

   For EVERY n, every black-box gate list c and every expression list ds: if the
   verified checker c06_check accepts c as a clean xor-oracle for the predicate
   f x = run_defs (asg x) ds ret (decided per program by the harness), then the
   gate list M_Algo builds around c (compared EXACTLY with the implementation's
   gate list on every case) has the textbook amplitudes under the reference
   amplitude semantics run_ref of Amp.v.  States are integer amplitudes psi with
   a counter k: the amplitude of basis state i is psi i / sqrt(2)^k, so a
   probability is (psi i)^2 / 2^k.

   xonly nq c = every gate of c is an X / CX / CCX / MCX / identity on distinct
   qubits below nq (evaluated by the harness together with c06_check). *)
From Coq Require Import List Bool NArith ZArith Arith.
From QV Require Import Bexp BexpTT Circ Compiled Amp WH M_Algo P_Algo.
Import ListNotations.
Local Open Scope N_scope.

(* ---------------- the evaluator the harness runs is a verified evaluator ---------------- *)
Theorem C16_amp_evaluator_correct : forall nq c,
  match run_amp nq c, run_ref nq c (delta0, 0%nat) with
  | Some (l, k), Some (psi, k') => k = k' /\ forall i, amp_of l i = psi i
  | None, None => True
  | _, _ => False
  end.
Proof. exact amp_run_spec. Qed.
Print Assumptions C16_amp_evaluator_correct.

(* the marginal numerators read by the harness are sums of squared reference amplitudes *)
Theorem C16_marginal_is_reference : forall nq c l k psi mask y,
  run_amp nq c = Some (l, k) -> run_ref nq c (delta0, 0%nat) = Some (psi, k) ->
  strictly_sorted l = true -> keys_below nq l = true ->
  amp_of (marginal mask l) y =
  sumN nq (fun i => if N.eqb y (N.land i mask) then (psi i * psi i)%Z else 0%Z).
Proof. exact marginal_is_reference. Qed.
Print Assumptions C16_marginal_is_reference.

(* ---------------- Walsh-Hadamard algebra, every n ---------------- *)
(* the H gates of the circuit, one qubit after the other, are the layer *)
Theorem C16_hadamard_gates_are_the_layer : forall nq n psi k, (n <= nq)%nat ->
  exists psi', run_ref nq (h_layer n) (psi, k) = Some (psi', (k + n)%nat) /\
    forall i, psi' i = sumN n (fun x => sgn (dotb n x i) (psi (setlow n i x))).
Proof. exact run_ref_hlayer_WH. Qed.
Print Assumptions C16_hadamard_gates_are_the_layer.

Theorem C16_WH_character : forall n s y, s < pow2n n -> y < pow2n n ->
  WH n (fun x => sgn (dotb n s x) 1%Z) y = if N.eqb y s then pow2z n else 0%Z.
Proof. exact WH_char. Qed.
Print Assumptions C16_WH_character.

Theorem C16_WH_at_zero : forall n psi, WH n psi 0 = sumN n psi.
Proof. exact WH_zero_0. Qed.
Print Assumptions C16_WH_at_zero.

(* ---------------- the black box: what an accepted oracle does to amplitudes ---------------- *)
Theorem C16_oracle_acts_as_xor_map : forall n nq c ds ret out,
  (n <= out < nq)%nat -> xonly nq c = true -> c06_check n nq c ds ret out = Some 0 ->
  forall psi k,
  exists psi', run_ref nq c (psi, k) = Some (psi', k) /\
    (forall i, cleanb n out i = true -> psi' i = psi (omap n ds ret out i)) /\
    (forall i, cleanb n out i = false -> exists j, cleanb n out j = false /\ psi' i = psi j).
Proof. exact oracle_action_checked. Qed.
Print Assumptions C16_oracle_acts_as_xor_map.

(* ---------------- Deutsch-Jozsa ---------------- *)
(* amplitude of every basis state: zero unless all scratch qubits are zero, else
   (-1)^(output bit) * sum_x (-1)^(x.y + f x) with y the search bits; k = 2n+1 *)
Theorem C16_deutsch_jozsa_amplitudes : forall n nq c ds ret out,
  (n <= out < nq)%nat -> xonly nq c = true -> c06_check n nq c ds ret out = Some 0 ->
  exists psi, run_ref nq (dj_circuit n out c) (delta0, 0%nat) = Some (psi, (2 * n + 1)%nat) /\
    forall i, psi i = if cleanb n out i
                      then sgn (N.testbit i (N.of_nat out))
                             (sumN n (fun x => sgn (xorb (dotb n x i) (run_defs (asg x) ds ret)) 1%Z))
                      else 0%Z.
Proof. exact dj_amplitudes_checked. Qed.
Print Assumptions C16_deutsch_jozsa_amplitudes.

(* the all-zero search outcome carries  +- sum_x (-1)^(f x) *)
Theorem C16_deutsch_jozsa_zero_outcome : forall n nq c ds ret out,
  (n <= out < nq)%nat -> xonly nq c = true -> c06_check n nq c ds ret out = Some 0 ->
  exists psi, run_ref nq (dj_circuit n out c) (delta0, 0%nat) = Some (psi, (2 * n + 1)%nat) /\
    psi 0 = sumN n (fun x => sgn (run_defs (asg x) ds ret) 1%Z) /\
    psi (bitm (N.of_nat out)) = (- sumN n (fun x => sgn (run_defs (asg x) ds ret) 1%Z))%Z /\
    (forall i, lowz n i = true -> i <> 0 -> i <> bitm (N.of_nat out) -> psi i = 0%Z).
Proof. exact dj_zero_outcome_checked. Qed.
Print Assumptions C16_deutsch_jozsa_zero_outcome.

(* constant f: the two basis states with all-zero search bits carry the whole probability:
   numerators add up to the denominator 2^(2n+1) *)
Theorem C16_deutsch_jozsa_constant : forall n nq c ds ret out b,
  (n <= out < nq)%nat -> xonly nq c = true -> c06_check n nq c ds ret out = Some 0 ->
  (forall x, x < pow2n n -> run_defs (asg x) ds ret = b) ->
  exists psi, run_ref nq (dj_circuit n out c) (delta0, 0%nat) = Some (psi, (2 * n + 1)%nat) /\
    (psi 0%N * psi 0%N + psi (bitm (N.of_nat out)) * psi (bitm (N.of_nat out)))%Z = pow2z (2 * n + 1).
Proof. exact dj_constant_checked. Qed.
Print Assumptions C16_deutsch_jozsa_constant.

(* balanced f (2 * #{x : f x} = 2^n): every basis state with all-zero search bits has amplitude 0 *)
Theorem C16_deutsch_jozsa_balanced : forall n nq c ds ret out,
  (n <= out < nq)%nat -> xonly nq c = true -> c06_check n nq c ds ret out = Some 0 ->
  (2 * sumN n (fun x => if run_defs (asg x) ds ret then 1 else 0) = pow2z n)%Z ->
  exists psi, run_ref nq (dj_circuit n out c) (delta0, 0%nat) = Some (psi, (2 * n + 1)%nat) /\
    forall i, lowz n i = true -> psi i = 0%Z.
Proof. exact dj_balanced_checked. Qed.
Print Assumptions C16_deutsch_jozsa_balanced.

(* ---------------- Bernstein-Vazirani ---------------- *)
(* the expression secret_oracle(n, s) writes denotes x |-> s.x *)
Theorem C16_secret_oracle_denotes_dot : forall n s x, beval (asg x) (secret_expr n s) = dotb n s x.
Proof. exact secret_expr_spec. Qed.
Print Assumptions C16_secret_oracle_denotes_dot.

(* all the amplitude sits on (search register = s, output qubit 0/1, scratch 0):
   the outcome s has probability 1 *)
Theorem C16_bernstein_vazirani_certain : forall n nq c rs out s,
  (n <= out < nq)%nat -> s < pow2n n -> xonly nq c = true ->
  c06_check n nq c [(rs, secret_expr n s)] rs out = Some 0 ->
  exists psi, run_ref nq (bv_circuit n out c) (delta0, 0%nat) = Some (psi, (2 * n + 1)%nat) /\
    (psi s * psi s + psi (N.lor s (bitm (N.of_nat out))) * psi (N.lor s (bitm (N.of_nat out))))%Z = pow2z (2 * n + 1) /\
    forall i, lowpart n i <> s -> psi i = 0%Z.
Proof. exact bv_certain_checked. Qed.
Print Assumptions C16_bernstein_vazirani_certain.

(* ---------------- Simon ---------------- *)
(* black box: an X-family circuit that preserves its input register (the C03 decision);
   F x = what it leaves on the other qubits from |x>|0...0> *)
Theorem C16_simon_amplitudes : forall n nq c outs,
  (n <= nq)%nat -> xonly nq c = true -> c03_check n nq c outs = Some 0 ->
  exists psi, run_ref nq (simon_circuit n c) (delta0, 0%nat) = Some (psi, (2 * n)%nat) /\
    forall i, psi i = sumN n (fun x => sgn (dotb n x i)
                                         (if N.eqb (simonF n nq c x) (hi n i) then 1%Z else 0%Z)).
Proof. exact simon_amplitudes_checked. Qed.
Print Assumptions C16_simon_amplitudes.

(* F has period s: every outcome of non-zero amplitude satisfies y.s = 0 *)
Theorem C16_simon_orthogonal : forall n nq c outs s,
  (n <= nq)%nat -> xonly nq c = true -> c03_check n nq c outs = Some 0 -> s < pow2n n ->
  (forall x, x < pow2n n -> simonF n nq c (N.lxor x s) = simonF n nq c x) ->
  exists psi, run_ref nq (simon_circuit n c) (delta0, 0%nat) = Some (psi, (2 * n)%nat) /\
    forall i, psi i <> 0%Z -> dotb n s i = false.
Proof. exact simon_orthogonal_checked. Qed.
Print Assumptions C16_simon_orthogonal.

(* F two-to-one with period s: for outcomes orthogonal to s the squared amplitude of a basis
   state depends only on the non-search part of the register, so all such outcomes are
   equally likely (their probabilities are equal term by term) *)
Theorem C16_simon_uniform : forall n nq c outs s,
  (n <= nq)%nat -> xonly nq c = true -> c03_check n nq c outs = Some 0 -> s < pow2n n -> s <> 0 ->
  (forall x x', x < pow2n n -> x' < pow2n n ->
     (simonF n nq c x = simonF n nq c x' <-> x' = x \/ x' = N.lxor x s)) ->
  exists psi, run_ref nq (simon_circuit n c) (delta0, 0%nat) = Some (psi, (2 * n)%nat) /\
    forall i i', dotb n s i = false -> dotb n s i' = false -> hi n i = hi n i' ->
      (psi i * psi i = psi i' * psi i')%Z.
Proof. exact simon_uniform_checked. Qed.
Print Assumptions C16_simon_uniform.

(* the three decisions the harness makes per black box (C02 + C03 accepted, the function
   denoted by the return expressions two-to-one with period s) give Simon's guarantee *)
Theorem C16_simon_guarantee : forall n nq c ds rets s,
  (n <= nq)%nat -> xonly nq c = true ->
  c02_check n nq c ds rets = Some 0 -> c03_check n nq c (map snd rets) = Some 0 ->
  (forall sy q, In (sy, q) rets -> (n <= q)%nat) ->
  s < pow2n n -> s <> 0 ->
  (forall x x', x < pow2n n -> x' < pow2n n ->
     ((forall sy q, In (sy, q) rets -> run_defs (asg x) ds sy = run_defs (asg x') ds sy)
      <-> x' = x \/ x' = N.lxor x s)) ->
  exists psi, run_ref nq (simon_circuit n c) (delta0, 0%nat) = Some (psi, (2 * n)%nat) /\
    (forall i, psi i <> 0%Z -> dotb n s i = false) /\
    (forall i i', dotb n s i = false -> dotb n s i' = false -> hi n i = hi n i' ->
       (psi i * psi i = psi i' * psi i')%Z).
Proof. exact simon_guarantee_checked. Qed.
Print Assumptions C16_simon_guarantee.

(* ---------------- the hypotheses are satisfiable; the evaluator computes ---------------- *)
(* f x = x on one bit (balanced): oracle CX 0 -> 1 *)
Example C16_ex_oracle :
  xonly 2 [mkg KCX [0; 1]%nat None] = true /\
  c06_check 1 2 [mkg KCX [0; 1]%nat None] [(2%nat, BSym 0)] 2 1 = Some 0.
Proof. split; vm_compute; reflexivity. Qed.
(* Deutsch-Jozsa on it: the two surviving basis states have search bit 1 (indices 1 and 3) *)
Example C16_ex_dj_balanced :
  run_amp 2 (dj_circuit 1 1 [mkg KCX [0; 1]%nat None]) = Some ([(1, 2%Z); (3, (-2)%Z)], 3%nat).
Proof. vm_compute. reflexivity. Qed.
(* constant f = 0 on one bit: empty oracle; everything on search bit 0 *)
Example C16_ex_dj_constant :
  run_amp 2 (dj_circuit 1 1 []) = Some ([(0, 2%Z); (2, (-2)%Z)], 3%nat).
Proof. vm_compute. reflexivity. Qed.
(* Bernstein-Vazirani, s = 5 on 3 bits *)
Example C16_ex_bv :
  c06_check 3 4 [mkg KCX [0; 3]%nat None; mkg KCX [2; 3]%nat None] [(4%nat, secret_expr 3 5)] 4 3 = Some 0 /\
  run_amp 4 (bv_circuit 3 3 [mkg KCX [0; 3]%nat None; mkg KCX [2; 3]%nat None]) = Some ([(5, 8%Z); (13, (-8)%Z)], 7%nat).
Proof. split; vm_compute; reflexivity. Qed.
(* Simon, f(x) = x >> 1 on 2 bits (period 1): outcomes 0 and 2 only, equally likely *)
Example C16_ex_simon :
  c03_check 2 4 [mkg KCX [1; 2]%nat None] [2; 3]%nat = Some 0 /\
  marginal 3 (match run_amp 4 (simon_circuit 2 [mkg KCX [1; 2]%nat None]) with Some (l, _) => l | None => [] end)
  = [(0, 8%Z); (2, 8%Z)].
Proof. split; vm_compute; reflexivity. Qed.
