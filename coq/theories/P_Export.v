(* P_Export.v — proofs about M_Export.v: the QASM parser inverts the printer
   (tokens, lines and text), the patched header has one formal per qubit in
   index order, today's header does not when the qubit map has aliases; the
   Qiskit / Cirq / Sympy dispatches emit exactly one op per non-nop gate with
   the gate's own qubit list. *)
From Coq Require Import List Bool NArith ZArith Arith String Ascii Lia DecimalString.
From QV Require Import Circ M_Export.
Import ListNotations.
Local Open Scope string_scope.

(* ------------------------------------------------------------------ *)
(* strings: split is the inverse of join                                *)
(* ------------------------------------------------------------------ *)
Fixpoint has_char (c : ascii) (s : string) : bool :=
  match s with
  | EmptyString => false
  | String a r => Ascii.eqb a c || has_char c r
  end.

Lemma app_nil_r_s s : s ++ "" = s.
Proof. induction s as [|a s IH]; cbn; [reflexivity|now rewrite IH]. Qed.
Lemma app_assoc_s a b c : (a ++ b) ++ c = a ++ (b ++ c).
Proof. induction a as [|x a IH]; cbn; [reflexivity|now rewrite IH]. Qed.
Lemma has_char_app c a b : has_char c (a ++ b) = has_char c a || has_char c b.
Proof. induction a as [|x a IH]; cbn; [reflexivity|now rewrite IH, orb_assoc]. Qed.

Lemma split_nochar c s : has_char c s = false -> split c s = [s].
Proof.
  induction s as [|a s IH]; cbn [has_char split]; [reflexivity|].
  intros H. apply orb_false_elim in H as [H1 H2]. rewrite H1, (IH H2). reflexivity.
Qed.

Lemma split_app c a b : has_char c a = false -> split c (a ++ String c b) = a :: split c b.
Proof.
  induction a as [|x a IH]; cbn [has_char append split]; intros H.
  - now rewrite Ascii.eqb_refl.
  - apply orb_false_elim in H as [H1 H2]. rewrite H1, (IH H2). reflexivity.
Qed.

Lemma join_cons sep x y r : join sep (x :: y :: r) = x ++ sep ++ join sep (y :: r).
Proof. reflexivity. Qed.

Lemma split_join c l : l <> [] -> forallb (fun t => negb (has_char c t)) l = true ->
  split c (join (String c "") l) = l.
Proof.
  induction l as [|x [|y r] IH]; intros Hne H; [contradiction| |].
  - cbn in *. rewrite andb_true_r in H. apply negb_true_iff in H. now apply split_nochar.
  - rewrite join_cons. cbn [forallb] in H. apply andb_prop in H as [Hx H].
    apply negb_true_iff in Hx. change (String c "" ++ join (String c "") (y :: r))
      with (String c (join (String c "") (y :: r))).
    rewrite split_app by exact Hx. f_equal. apply IH; [discriminate|exact H].
Qed.

Lemma has_char_join c sep l : has_char c sep = false ->
  forallb (fun t => negb (has_char c t)) l = true -> has_char c (join sep l) = false.
Proof.
  intros Hs. induction l as [|x [|y r] IH]; intros H; [reflexivity| |].
  - cbn in *. rewrite andb_true_r in H. now apply negb_true_iff in H.
  - rewrite join_cons, !has_char_app, Hs. cbn [forallb] in H. apply andb_prop in H as [Hx H].
    apply negb_true_iff in Hx. rewrite Hx, (IH H). reflexivity.
Qed.

Definition token_ok (t : string) : bool := negb (has_char SP t) && negb (has_char LF t).
Definition line_ok (l : list string) : bool :=
  match l with [] => false | _ => forallb token_ok l end.
Definition tokens_ok (ls : list (list string)) : bool := forallb line_ok ls.

Lemma render_cons l ls : render (l :: ls) = join " " l ++ String LF (render ls).
Proof.
  unfold render. cbn [map]. destruct ls as [|l2 ls2].
  - cbn [map concat]. reflexivity.
  - change (concat "" (render_line l :: map render_line (l2 :: ls2)))
      with (render_line l ++ "" ++ concat "" (map render_line (l2 :: ls2))).
    unfold render_line at 1. rewrite app_assoc_s. reflexivity.
Qed.

Lemma render_split ls : forallb (fun l => negb (has_char LF (join " " l))) ls = true ->
  split LF (render ls) = (map (join " ") ls ++ [""])%list.
Proof.
  induction ls as [|l ls IH]; intros H; [reflexivity|].
  cbn [forallb] in H. apply andb_prop in H as [Hl H]. apply negb_true_iff in Hl.
  rewrite render_cons, split_app by exact Hl. rewrite (IH H). reflexivity.
Qed.

Theorem tokenize_render ls : tokens_ok ls = true -> tokenize (render ls) = ls.
Proof.
  intros H. unfold tokenize.
  assert (H1 : forallb (fun l => negb (has_char LF (join " " l))) ls = true).
  { apply forallb_forall. intros l Hl. unfold tokens_ok in H. rewrite forallb_forall in H.
    specialize (H l Hl). apply negb_true_iff, has_char_join; [reflexivity|].
    destruct l; [discriminate|]. unfold line_ok in H. apply forallb_forall. intros t Ht.
    rewrite forallb_forall in H. specialize (H t Ht). unfold token_ok in H.
    now apply andb_prop in H as [_ H]. }
  rewrite (render_split ls H1), removelast_last, map_map.
  rewrite <- (map_id ls) at 2. apply map_ext_in. intros l Hl.
  unfold tokens_ok in H. rewrite forallb_forall in H. specialize (H l Hl).
  destruct l as [|t l]; [discriminate|]. apply (split_join SP); [discriminate|].
  unfold line_ok in H. apply forallb_forall. intros x Hx. rewrite forallb_forall in H.
  specialize (H x Hx). unfold token_ok in H. now apply andb_prop in H as [H _].
Qed.

(* ------------------------------------------------------------------ *)
(* decimal numerals contain digits only                                 *)
(* ------------------------------------------------------------------ *)
Definition not_digit (c : ascii) : bool :=
  let n := nat_of_ascii c in Nat.ltb n 48 || Nat.ltb 57 n.

Lemma uint_chars c : not_digit c = true -> forall d, has_char c (NilEmpty.string_of_uint d) = false.
Proof.
  intros Hc. induction d as [|d IH|d IH|d IH|d IH|d IH|d IH|d IH|d IH|d IH|d IH];
    cbn [NilEmpty.string_of_uint has_char]; try reflexivity; rewrite IH, orb_false_r;
    destruct c as [[] [] [] [] [] [] [] []]; try reflexivity; discriminate Hc.
Qed.
Lemma nat_str_chars c n : not_digit c = true -> has_char c (nat_str n) = false.
Proof. intros H. apply uint_chars, H. Qed.

(* ------------------------------------------------------------------ *)
(* names of the qubits                                                  *)
(* ------------------------------------------------------------------ *)
Lemma find_key_in l i k : find_key l i = Some k -> In (k, i) l.
Proof.
  induction l as [|[k' v] l IH]; cbn [find_key]; [discriminate|].
  destruct (Nat.eqb_spec v i) as [->|]; intros H; [injection H as ->; now left|right; now apply IH].
Qed.
Lemma get_key_in qm i k : get_key_by_index qm i = Some k -> In (k, i) qm.
Proof. intros H. apply find_key_in in H. now apply in_rev. Qed.

Lemma key_unique (qm : list (string * nat)) k i j :
  NoDup (map fst qm) -> In (k, i) qm -> In (k, j) qm -> i = j.
Proof.
  induction qm as [|[k' v] qm IH]; cbn [map fst]; intros Hnd Hi Hj; [contradiction|].
  inversion Hnd as [|? ? Hk Hr]; subst.
  destruct Hi as [Ei|Hi], Hj as [Ej|Hj].
  - congruence.
  - injection Ei as -> ->. exfalso. apply Hk. apply (in_map fst) in Hj. exact Hj.
  - injection Ej as -> ->. exfalso. apply Hk. apply (in_map fst) in Hi. exact Hi.
  - now apply IH.
Qed.

(* the candidate names are never empty: "q" ++ digits, possibly prefixed by "_" *)
Lemma fresh_name_spec : forall fuel used s r, s <> "" -> fresh_name fuel used s = Some r ->
  ~ In r used /\ r <> "".
Proof.
  induction fuel as [|f IH]; intros used s r Hs; cbn [fresh_name]; [discriminate|].
  destruct (existsb (String.eqb s) used) eqn:E.
  - intros H. apply (IH used (String "_" s) r); [discriminate|exact H].
  - intros H. injection H as <-. split; [|exact Hs].
    intros Hin. assert (existsb (String.eqb s) used = true); [|congruence].
    apply existsb_exists. exists s. split; [exact Hin|apply String.eqb_refl].
Qed.

Lemma NoDup_snoc {A} (l : list A) x : NoDup l -> ~ In x l -> NoDup (l ++ [x]).
Proof.
  induction l as [|y l IH]; intros Hnd Hx; cbn [app]; [constructor; [intros []|constructor]|].
  inversion Hnd as [|? ? Hy Hl]; subst. constructor.
  - intros Hin. apply in_app_or in Hin as [Hin|[<-|[]]]; [contradiction|]. apply Hx. now left.
  - apply IH; [exact Hl|]. intros Hin. apply Hx. now right.
Qed.

(* invariant of the loop: the j-th name is the last key of qubit j, or is no key at all *)
Definition name_inv (qm : list (string * nat)) (off : nat) (acc : list string) : Prop :=
  NoDup acc /\ Forall (fun s => s <> "") acc /\
  forall j s, nth_error acc j = Some s ->
    (get_key_by_index qm (off + j) = Some s) \/
    (get_key_by_index qm (off + j) = None /\ ~ In s (map fst qm)).

Lemma qubit_names_go_spec qm : NoDup (map fst qm) -> Forall (fun kv => fst kv <> "") qm ->
  forall idx acc names m, idx = seq (List.length acc) m -> name_inv qm 0 acc ->
  qubit_names_go qm idx acc = Some names ->
  name_inv qm 0 names /\ List.length names = (List.length acc + m)%nat.
Proof.
  intros Hnd Hne. induction idx as [|i r IH]; intros acc names m Hidx Hinv; cbn [qubit_names_go].
  - intros H. injection H as <-. destruct m; [|discriminate]. split; [exact Hinv|lia].
  - destruct m as [|m]; [discriminate|]. cbn [seq] in Hidx. injection Hidx as -> Hr.
    destruct (name_of qm acc (List.length acc)) as [k|] eqn:Ek; [|discriminate].
    intros H. destruct Hinv as (Hnda & Hnea & Hj).
    assert (Hk : (get_key_by_index qm (List.length acc) = Some k \/
                  (get_key_by_index qm (List.length acc) = None /\ ~ In k (map fst qm))) /\
                 ~ In k acc /\ k <> "").
    { unfold name_of in Ek. destruct (get_key_by_index qm (List.length acc)) as [k0|] eqn:Eg.
      - injection Ek as ->. split; [now left|]. split.
        + intros Hin. apply In_nth_error in Hin as [j Hjn].
          assert (Hjl : (j < List.length acc)%nat) by (apply nth_error_Some; congruence).
          destruct (Hj j k Hjn) as [Hg|[_ Hg]]; cbn [Nat.add] in Hg.
          * apply get_key_in in Hg. apply get_key_in in Eg.
            pose proof (key_unique qm k _ _ Hnd Hg Eg). lia.
          * apply Hg. apply get_key_in in Eg. apply (in_map fst) in Eg. exact Eg.
        + apply get_key_in in Eg. rewrite Forall_forall in Hne. exact (Hne _ Eg).
      - apply fresh_name_spec in Ek as [H1 H2]; [|discriminate].
        split; [right; split; [reflexivity|]|split; [|exact H2]].
        + intros Hin. apply H1, in_or_app. now left.
        + intros Hin. apply H1, in_or_app. now right. }
    destruct Hk as (Hk1 & Hk2 & Hk3).
    apply (IH (acc ++ [k])%list names m) in H.
    + destruct H as [H1 H2]. split; [exact H1|]. rewrite app_length in H2. cbn [List.length] in H2. lia.
    + rewrite app_length. cbn [List.length]. rewrite Nat.add_1_r. exact Hr.
    + split; [|split].
      * apply NoDup_snoc; assumption.
      * apply Forall_app. split; [exact Hnea|constructor; [exact Hk3|constructor]].
      * intros j s Hjs. destruct (Nat.lt_ge_cases j (List.length acc)) as [Hlt|Hge].
        -- rewrite nth_error_app1 in Hjs by exact Hlt. now apply Hj.
        -- rewrite nth_error_app2 in Hjs by exact Hge.
           destruct (j - List.length acc)%nat as [|d] eqn:Ed; cbn in Hjs; [|destruct d; discriminate].
           injection Hjs as <-. assert (j = List.length acc) by lia. subst j. exact Hk1.
Qed.

Theorem qubit_names_spec n qm names : NoDup (map fst qm) -> Forall (fun kv => fst kv <> "") qm ->
  qubit_names n qm = Some names ->
  List.length names = n /\ NoDup names /\ Forall (fun s => s <> "") names /\
  (forall i k, get_key_by_index qm i = Some k -> (i < n)%nat -> nth_error names i = Some k).
Proof.
  intros Hnd Hne H. unfold qubit_names in H.
  destruct (qubit_names_go_spec qm Hnd Hne (seq 0 n) [] names n eq_refl) as [(H1 & H2 & H3) H4]; [|exact H|].
  - split; [constructor|]. split; [constructor|]. intros j s Hj. destruct j; discriminate.
  - cbn [List.length Nat.add] in H4. split; [exact H4|]. split; [exact H1|]. split; [exact H2|].
    intros i k Hk Hi. destruct (nth_error names i) as [s|] eqn:Es.
    + destruct (H3 i s Es) as [Hg|[Hg _]]; cbn [Nat.add] in Hg; congruence.
    + apply nth_error_None in Es. lia.
Qed.

(* ------------------------------------------------------------------ *)
(* the parser inverts the printer, on lines of tokens                   *)
(* ------------------------------------------------------------------ *)
Lemma index_of_nth names : NoDup names -> forall q k, nth_error names q = Some k ->
  index_of names k = Some q.
Proof.
  induction 1 as [|x r Hx Hnd IH]; intros q k Hq; [destruct q; discriminate|].
  destruct q as [|q]; cbn [nth_error index_of] in *.
  - injection Hq as ->. now rewrite String.eqb_refl.
  - destruct (String.eqb_spec x k) as [->|_].
    + exfalso. apply Hx. eapply nth_error_In. exact Hq.
    + now rewrite (IH q k Hq).
Qed.

Lemma map_opt_index names : NoDup names -> forall qs qbs,
  map_opt (nth_error names) qs = Some qbs -> map_opt (index_of names) qbs = Some qs.
Proof.
  intros Hnd. induction qs as [|q qs IH]; intros qbs; cbn [map_opt].
  - intros H. now injection H as <-.
  - destruct (nth_error names q) as [k|] eqn:Ek; [|discriminate].
    destruct (map_opt (nth_error names) qs) as [r|]; [|discriminate].
    intros H. injection H as <-. cbn [map_opt]. now rewrite (index_of_nth names Hnd q k Ek), (IH r eq_refl).
Qed.

Lemma map_opt_nonempty names : Forall (fun s => s <> "") names -> forall qs qbs,
  map_opt (nth_error names) qs = Some qbs -> Forall (fun s => s <> "") qbs.
Proof.
  intros Hne. induction qs as [|q qs IH]; intros qbs; cbn [map_opt].
  - intros H. injection H as <-. constructor.
  - destruct (nth_error names q) as [k|] eqn:Ek; [|discriminate].
    destruct (map_opt (nth_error names) qs) as [r|]; [|discriminate].
    intros H. injection H as <-. constructor; [|now apply IH].
    rewrite Forall_forall in Hne. apply Hne. eapply nth_error_In. exact Ek.
Qed.

Lemma unspaced_spaced l : Forall (fun s => s <> "") l -> unspaced (spaced l) = l.
Proof.
  intros H. destruct l as [|x [|y r]]; [reflexivity| |destruct x; reflexivity].
  inversion H as [|? ? Hx _]; subst. destruct x; [contradiction|reflexivity].
Qed.

Lemma rep_c_chars c n s : Ascii.eqb "c"%char c = false -> has_char c s = false -> has_char c (rep_c n s) = false.
Proof. intros Hc Hs. induction n as [|n IH]; cbn [rep_c has_char]; [exact Hs|now rewrite Hc, IH]. Qed.

Lemma qasm_name_chars c k gn : In c [LPAR; RPAR; SP; LF] -> qasm_name k = Some gn -> has_char c gn = false.
Proof.
  intros Hc H.
  assert (Hb : forall b, has_char c (base_lname b) = false).
  { intros b. destruct Hc as [<-|[<-|[<-|[<-|[]]]]]; destruct b; reflexivity. }
  assert (Hcc : Ascii.eqb "c"%char c = false) by (destruct Hc as [<-|[<-|[<-|[<-|[]]]]]; reflexivity).
  destruct k as [b| | | | |n|b n| |]; cbn [qasm_name] in H; try discriminate; injection H as <-;
    try (apply rep_c_chars; [exact Hcc|]); try apply Hb;
    destruct Hc as [<-|[<-|[<-|[<-|[]]]]]; reflexivity.
Qed.

Definition phase_ok (p : xparam) : bool :=
  match p with
  | XNone => true
  | XNum _ _ pr => negb (has_char LPAR pr) && negb (has_char RPAR pr)
  end.

Definition printed_of (p : xparam) : option string :=
  match p with XNum _ _ pr => if truthy p then Some pr else None | XNone => None end.

Lemma parse_head_ok gn p : has_char LPAR gn = false -> phase_ok p = true ->
  parse_head (head_token gn p) = Some (gn, printed_of p).
Proof.
  intros Hg Hp. unfold head_token, printed_of.
  change (TAB ++ gn ++ match p with XNone => "" | XNum _ _ pr => if truthy p then "(" ++ pr ++ ")" else "" end)
    with (String (ascii_of_nat 9) (gn ++ match p with XNone => "" | XNum _ _ pr => if truthy p then "(" ++ pr ++ ")" else "" end)).
  cbn [parse_head]. rewrite Ascii.eqb_refl.
  destruct p as [|z d pr]; [rewrite app_nil_r_s, split_nochar by exact Hg; reflexivity|].
  destruct (truthy (XNum z d pr)); [|rewrite app_nil_r_s, split_nochar by exact Hg; reflexivity].
  cbn [phase_ok] in Hp. apply andb_prop in Hp as [H1 H2]. apply negb_true_iff in H1, H2.
  change ("(" ++ pr ++ ")") with (String LPAR (pr ++ String RPAR "")).
  rewrite split_app by exact Hg.
  rewrite split_nochar by (rewrite has_char_app, H1; reflexivity).
  rewrite split_app by exact H2. reflexivity.
Qed.

Lemma parse_body_cons f hd q qs r :
  parse_body f ((hd :: q :: qs) :: r) =
  match parse_head hd, map_opt (index_of f) (unspaced (q :: qs)), parse_body f r with
  | Some (gn, ph), Some ix, Some (gs, rest) => Some ((gn, ph, ix) :: gs, rest)
  | _, _, _ => None
  end.
Proof.
  destruct hd as [|a s]; [reflexivity|].
  destruct a as [[] [] [] [] [] [] [] []]; try reflexivity; destruct s; reflexivity.
Qed.

Lemma parse_body_close f tail : parse_body f (["}"] :: tail) = Some ([], tail).
Proof. reflexivity. Qed.

Lemma spaced_cons l : exists q qs, spaced l = q :: qs.
Proof. destruct l as [|x r]; [now exists "", []|now exists x, r]. Qed.

Lemma parse_body_ok names : NoDup names -> Forall (fun s => s <> "") names ->
  forall gl body tail, forallb (fun g => phase_ok (xpar g)) gl = true ->
  body_lines (nth_error names) gl = Some body ->
  parse_body names (body ++ ["}"] :: tail) = Some (expected_gates gl, tail).
Proof.
  intros Hnd Hne. induction gl as [|g gl IH]; intros body tail Hp; cbn [body_lines expected_gates flat_map].
  - intros H. injection H as <-. apply parse_body_close.
  - cbn [forallb] in Hp. apply andb_prop in Hp as [Hpg Hp].
    destruct (qasm_name (xkind g)) as [gn|] eqn:En; [|cbn [app]; now apply IH].
    destruct (map_opt (nth_error names) (xqs g)) as [qbs|] eqn:Eq; [|discriminate].
    destruct (body_lines (nth_error names) gl) as [rest|] eqn:Er; [|discriminate].
    intros H. injection H as <-. cbn [app].
    destruct (spaced_cons qbs) as (q & qs & Es). rewrite Es, parse_body_cons, <- Es.
    rewrite parse_head_ok; [|eapply qasm_name_chars; [left; reflexivity|exact En]|exact Hpg].
    rewrite unspaced_spaced by (eapply map_opt_nonempty; eassumption).
    rewrite (map_opt_index names Hnd _ _ Eq), (IH rest tail Hp eq_refl). reflexivity.
Qed.

Lemma parse_block_ok name formals body gs tail :
  Forall (fun s => s <> "") formals ->
  parse_body formals body = Some (gs, tail) ->
  parse_block ((["gate"; name] ++ spaced formals ++ ["{"])%list :: body) =
  match tail with
  | [[EmptyString]] => Some (mkp name formals gs None)
  | [[EmptyString]; cl] => match parse_call cl with
                           | Some c => Some (mkp name formals gs (Some c))
                           | None => None
                           end
  | _ => None
  end.
Proof.
  intros Hne Hb. cbn [app parse_block]. rewrite rev_app_distr. cbn [rev app].
  rewrite rev_involutive, unspaced_spaced by exact Hne. rewrite Hb. reflexivity.
Qed.

Lemma parse_lines_gate name rest body :
  parse_lines (("gate" :: name :: rest) :: body) = parse_block (("gate" :: name :: rest) :: body).
Proof. reflexivity. Qed.

Lemma parse_call_ok name n : parse_call (call_line name n) = Some (name, map actual (seq 0 n)).
Proof.
  unfold call_line, parse_call.
  assert (Ha : forall c ch, not_digit ch = true -> Ascii.eqb "q"%char ch = false ->
            Ascii.eqb "["%char ch = false -> Ascii.eqb "]"%char ch = false -> has_char ch (actual c) = false).
  { intros c ch Hd H1 H2 H3. unfold actual. cbn [append has_char]. rewrite H1, H2. cbn [orb].
    rewrite has_char_app, (nat_str_chars ch c Hd). cbn [has_char orb]. now rewrite H3. }
  assert (Hs : has_char SEMI (join "," (map actual (seq 0 n))) = false).
  { apply has_char_join; [reflexivity|]. apply forallb_forall. intros t Ht.
    apply in_map_iff in Ht as (c & <- & _). apply negb_true_iff. now apply Ha. }
  change (join "," (map actual (seq 0 n)) ++ ";") with (join "," (map actual (seq 0 n)) ++ String SEMI "").
  rewrite split_app by exact Hs. cbn [split]. f_equal. f_equal.
  destruct n as [|n]; [reflexivity|].
  destruct (join "," (map actual (seq 0 (S n)))) eqn:Ej.
  - exfalso. cbn [seq map] in Ej. destruct (map actual (seq 1 n)); cbn in Ej; discriminate.
  - rewrite <- Ej. apply (split_join COMMA); [discriminate|].
    apply forallb_forall. intros t Ht. apply in_map_iff in Ht as (c & <- & _).
    apply negb_true_iff. now apply Ha.
Qed.

Definition names_ok (qm : list (string * nat)) (gl : list xgate) : Prop :=
  NoDup (map fst qm) /\ Forall (fun kv => fst kv <> "") qm /\
  forallb (fun g => phase_ok (xpar g)) gl = true.

Theorem qasm_roundtrip_lines ver3 gmode name n qm gl ls : names_ok qm gl ->
  qasm_lines true ver3 gmode name n qm gl = Some ls ->
  exists formals,
    parse_lines ls = Some (mkp name formals (expected_gates gl)
                              (if gmode then None else Some (name, map actual (seq 0 n)))) /\
    List.length formals = n /\ NoDup formals /\
    (forall i k, get_key_by_index qm i = Some k -> (i < n)%nat -> nth_error formals i = Some k).
Proof.
  intros (Hnd & Hne & Hp). unfold qasm_lines.
  destruct (qubit_names n qm) as [names|] eqn:En; [|discriminate].
  destruct (body_lines (nth_error names) gl) as [body|] eqn:Eb; [|discriminate].
  destruct (qubit_names_spec n qm names Hnd Hne En) as (H1 & H2 & H3 & H4).
  intros H. injection H as <-. exists names. split; [|auto].
  assert (Hblock : forall tail, parse_block (gate_block name names body ++ tail)%list =
            match tail with
            | [] => Some (mkp name names (expected_gates gl) None)
            | [cl] => match parse_call cl with
                      | Some c => Some (mkp name names (expected_gates gl) (Some c))
                      | None => None
                      end
            | _ => None
            end).
  { intros tail. unfold gate_block.
    change (((["gate"; name] ++ spaced names ++ ["{"]) :: body ++ [["}"]; [""]]) ++ tail)%list
      with ((["gate"; name] ++ spaced names ++ ["{"]) :: ((body ++ [["}"]; [""]]) ++ tail))%list.
    rewrite <- app_assoc.
    rewrite (parse_block_ok name names _ (expected_gates gl) ([""] :: tail) H3).
    - destruct tail as [|cl [|x r]]; reflexivity.
    - apply (parse_body_ok names H2 H3 gl body ([""] :: tail) Hp Eb). }
  assert (Hgate : forall tail, parse_lines (gate_block name names body ++ tail)%list =
                               parse_block (gate_block name names body ++ tail)%list).
  { intros tail. unfold gate_block. apply parse_lines_gate. }
  destruct gmode.
  - pose proof (Hgate []) as Hg0. pose proof (Hblock []) as Hb0. rewrite app_nil_r in Hg0, Hb0.
    transitivity (parse_lines (gate_block name names body)); [reflexivity|].
    rewrite Hg0, Hb0. reflexivity.
  - destruct ver3.
    + transitivity (parse_lines (gate_block name names body ++ [call_line name n])%list); [reflexivity|].
      rewrite Hgate, Hblock, parse_call_ok. reflexivity.
    + transitivity (parse_lines (gate_block name names body ++ [call_line name n])%list); [reflexivity|].
      rewrite Hgate, Hblock, parse_call_ok. reflexivity.
Qed.

Theorem qasm_roundtrip ver3 gmode name n qm gl txt : names_ok qm gl ->
  qasm_export true ver3 gmode name n qm gl = Some txt ->
  (forall ls, qasm_lines true ver3 gmode name n qm gl = Some ls -> tokens_ok ls = true) ->
  exists formals,
    parse_qasm txt = Some (mkp name formals (expected_gates gl)
                              (if gmode then None else Some (name, map actual (seq 0 n)))) /\
    List.length formals = n /\ NoDup formals /\
    (forall i k, get_key_by_index qm i = Some k -> (i < n)%nat -> nth_error formals i = Some k).
Proof.
  intros Hok H Htok. unfold qasm_export in H.
  destruct (qasm_lines true ver3 gmode name n qm gl) as [ls|] eqn:El; [|discriminate].
  injection H as <-. unfold parse_qasm. rewrite (tokenize_render ls (Htok ls eq_refl)).
  exact (qasm_roundtrip_lines ver3 gmode name n qm gl ls Hok El).
Qed.

(* ------------------------------------------------------------------ *)
(* Qiskit / Cirq / Sympy: one op per non-nop gate, same order, same     *)
(* qubit list, the declared controls and base gate                      *)
(* ------------------------------------------------------------------ *)
Lemma collect_flat {A} (f : xgate -> xres (list A)) (sp : xgate -> list A) gl :
  (forall g ops, In g gl -> f g = XOk ops -> ops = sp g) ->
  forall ops, collect (map f gl) = XOk ops -> ops = flat_map sp gl.
Proof.
  induction gl as [|g gl IH]; intros Hf ops; cbn [map collect flat_map].
  - intros H. now injection H as <-.
  - destruct (f g) as [a|] eqn:Eg; [|discriminate].
    destruct (collect (map f gl)) as [b|] eqn:Eb; [|discriminate].
    intros H. injection H as <-. rewrite (Hf g a (or_introl eq_refl) Eg).
    rewrite (IH (fun g' o Hin => Hf g' o (or_intror Hin)) b eq_refl). reflexivity.
Qed.

Definition spec_gate (bars : bool) (g : xgate) : list xop :=
  match xkind g with
  | KBarrier => if bars then [XBar] else []
  | _ => spec_op true g
  end.

Lemma spec_ops_flat bars gl : spec_ops bars gl = flat_map (spec_gate bars) gl.
Proof. reflexivity. Qed.

Lemma xwf_len g nc b : xwf g = true -> canon (xkind g) = Some (nc, b) ->
  List.length (xqs g) = (nc + base_arity b)%nat.
Proof. unfold xwf, xarity. intros H E. rewrite E in H. now apply Nat.eqb_eq in H. Qed.

Theorem qiskit_ops_same_gates attrs gmode gl ops : forallb xwf gl = true ->
  export_qiskit attrs gmode gl = XOk ops -> ops = spec_ops (negb gmode) gl.
Proof.
  intros Hwf H. rewrite spec_ops_flat. apply (collect_flat (qiskit_gate attrs gmode)); [|exact H].
  intros g o Hin Hg. rewrite forallb_forall in Hwf. pose proof (Hwf g Hin) as Hw.
  unfold qiskit_gate in Hg. unfold spec_gate, spec_op.
  assert (Hgen : forall k, xkind g = k ->
            (if has attrs (lower (class_name k))
             then match canon k with
                  | Some (nc, b) =>
                    if Bool.eqb (match b with BP => true | _ => false end) (truthy (xpar g))
                    then XOk [XOp nc b (xqs g) (if match b with BP => true | _ => false end then num_of (xpar g) else None)]
                    else XErr
                  | None => XErr
                  end
             else XErr) = XOk o ->
            match canon k with Some (nc, b) =>
              o = [XOp nc b (xqs g) (match b with BP => num_of (xpar g) | _ => None end)]
            | None => False end).
  { intros k _ Hk. destruct (has attrs (lower (class_name k))); [|discriminate].
    destruct (canon k) as [[nc b]|]; [|discriminate].
    destruct (Bool.eqb _ _); [|discriminate]. injection Hk as <-. destruct b; reflexivity. }
  destruct (xkind g) as [b| | | | |n|b n| |] eqn:Ek.
  - specialize (Hgen _ eq_refl Hg). cbn [canon] in *. exact Hgen.
  - specialize (Hgen _ eq_refl Hg). cbn [canon] in *. exact Hgen.
  - specialize (Hgen _ eq_refl Hg). cbn [canon] in *. exact Hgen.
  - specialize (Hgen _ eq_refl Hg). cbn [canon] in *. exact Hgen.
  - specialize (Hgen _ eq_refl Hg). cbn [canon] in *. exact Hgen.
  - injection Hg as <-. cbn [canon]. pose proof (xwf_len g n BX Hw) as Hl. rewrite Ek in Hl.
    rewrite (Hl eq_refl). cbn [base_arity]. now rewrite Nat.add_sub.
  - pose proof (xwf_len g n b Hw) as Hl. rewrite Ek in Hl. specialize (Hl eq_refl).
    destruct b; try (specialize (Hgen _ eq_refl Hg); cbn [canon] in *; exact Hgen);
      injection Hg as <-; cbn [canon]; rewrite Hl; cbn [base_arity]; now rewrite Nat.add_sub.
  - destruct gmode; injection Hg as <-; reflexivity.
  - injection Hg as <-. reflexivity.
Qed.

Ltac has_case Hg :=
  revert Hg; match goal with |- context [has ?a ?s] => destruct (has a s) end; intros Hg;
  [injection Hg as <-; reflexivity|discriminate].

Theorem cirq_ops_same_gates patched attrs gl ops : forallb xwf gl = true ->
  has attrs "P" = false -> has attrs "MCtrl" = false ->
  export_cirq patched attrs gl = XOk ops -> ops = spec_ops false gl.
Proof.
  intros Hwf HP HM H. rewrite spec_ops_flat. apply (collect_flat (cirq_gate patched attrs)); [|exact H].
  intros g o Hin Hg. rewrite forallb_forall in Hwf. pose proof (Hwf g Hin) as Hw.
  unfold cirq_gate in Hg. unfold spec_gate, spec_op.
  destruct (xkind g) as [b| | | | |n|b n| |] eqn:Ek; cbn [canon].
  - destruct b; cbn [class_name canon] in Hg;
      try (has_case Hg).
    + rewrite HP in Hg. discriminate.
    + injection Hg as <-. reflexivity.
  - cbn [class_name canon] in Hg. has_case Hg.
  - cbn [class_name canon] in Hg. has_case Hg.
  - destruct (num_of (xpar g)) as [q|] eqn:Eq; [|discriminate]. injection Hg as <-. reflexivity.
  - cbn [class_name canon] in Hg. has_case Hg.
  - injection Hg as <-. pose proof (xwf_len g n BX Hw) as Hl. rewrite Ek in Hl.
    rewrite (Hl eq_refl). cbn [base_arity]. now rewrite Nat.add_sub.
  - pose proof (xwf_len g n b Hw) as Hl. rewrite Ek in Hl. specialize (Hl eq_refl).
    destruct b; cbn [class_name canon] in Hg;
      try (has_case Hg); try (rewrite HM in Hg; discriminate);
      injection Hg as <-; rewrite Hl; cbn [base_arity]; now rewrite Nat.add_sub.
  - destruct patched; [injection Hg as <-; reflexivity|discriminate].
  - destruct patched; [injection Hg as <-; reflexivity|discriminate].
Qed.

Lemma firstn_exact {A} (l : list A) n : List.length l = n -> firstn n l = l.
Proof. intros <-. apply firstn_all. Qed.

Theorem sympy_ops_same_gates gl ops : forallb xwf gl = true ->
  export_sympy gl = XOk ops -> ops = spec_ops false gl.
Proof.
  intros Hwf H. rewrite spec_ops_flat. apply (collect_flat sympy_gate); [|exact H].
  intros g o Hin Hg. rewrite forallb_forall in Hwf. pose proof (Hwf g Hin) as Hw.
  unfold sympy_gate in Hg. unfold spec_gate, spec_op.
  destruct (xkind g) as [b| | | | |n|b n| |] eqn:Ek; cbn [canon]; try discriminate.
  - pose proof (xwf_len g 0 b Hw) as Hl. rewrite Ek in Hl. specialize (Hl eq_refl).
    destruct b; try discriminate; injection Hg as <-; cbn [base_arity Nat.add] in Hl;
      destruct (xqs g) as [|a1 [|a2 [|a3 l]]]; cbn [List.length] in Hl; try discriminate Hl; reflexivity.
  - pose proof (xwf_len g 1 BX Hw) as Hl. rewrite Ek in Hl. specialize (Hl eq_refl).
    injection Hg as <-. cbn [base_arity Nat.add] in Hl.
    destruct (xqs g) as [|a1 [|a2 [|a3 l]]]; cbn [List.length] in Hl; try discriminate Hl; reflexivity.
  - pose proof (xwf_len g 2 BX Hw) as Hl. rewrite Ek in Hl. specialize (Hl eq_refl).
    rewrite Hl in Hg. cbn in Hg. injection Hg as <-. reflexivity.
  - pose proof (xwf_len g n BX Hw) as Hl. rewrite Ek in Hl. specialize (Hl eq_refl).
    rewrite Hl in Hg. cbn [base_arity] in Hg. rewrite Nat.add_sub in Hg.
    destruct n; [discriminate|]. injection Hg as <-. reflexivity.
  - injection Hg as <-. reflexivity.
  - injection Hg as <-. reflexivity.
Qed.

(* read off the op list: its qubit lists are the gates' qubit lists, in order *)
Definition op_qubits (o : xop) : list (list nat) := match o with XOp _ _ qs _ => [qs] | XBar => [] end.
Lemma spec_ops_qubits bars gl :
  flat_map op_qubits (spec_ops bars gl) =
  flat_map (fun g => match canon (xkind g) with Some _ => [xqs g] | None => [] end) gl.
Proof.
  rewrite spec_ops_flat. induction gl as [|g gl IH]; [reflexivity|].
  cbn [flat_map]. rewrite flat_map_app, IH. f_equal.
  unfold spec_gate, spec_op. destruct (xkind g) as [b| | | | |n|b n| |]; cbn [canon]; try reflexivity.
  destruct bars; reflexivity.
Qed.

(* ------------------------------------------------------------------ *)
(* today's printer: equal to the patched one exactly when the map lists *)
(* one name per qubit in index order; refuted on an aliased map         *)
(* ------------------------------------------------------------------ *)
Lemma body_lines_ext f g gl : (forall q, f q = g q) -> body_lines f gl = body_lines g gl.
Proof.
  intros H. induction gl as [|x gl IH]; cbn [body_lines]; [reflexivity|].
  rewrite IH. destruct (qasm_name (xkind x)); [|reflexivity].
  assert (E : map_opt f (xqs x) = map_opt g (xqs x)).
  { induction (xqs x) as [|q w IHw]; cbn [map_opt]; [reflexivity|now rewrite H, IHw]. }
  now rewrite E.
Qed.

Lemma find_key_some l i k : In (k, i) l -> exists k', find_key l i = Some k'.
Proof.
  induction l as [|[k0 v] l IH]; cbn [find_key]; [intros []|].
  destruct (Nat.eqb_spec v i) as [->|Hne]; [now eexists|].
  intros [E|H]; [congruence|now apply IH].
Qed.
Lemma find_key_none l i : (forall k, ~ In (k, i) l) -> find_key l i = None.
Proof.
  induction l as [|[k0 v] l IH]; cbn [find_key]; intros H; [reflexivity|].
  destruct (Nat.eqb_spec v i) as [->|Hne]; [exfalso; apply (H k0); now left|].
  apply IH. intros k Hk. apply (H k). now right.
Qed.

Lemma ordered_in (qm : list (string * nat)) n k i : map snd qm = seq 0 n ->
  In (k, i) qm -> nth_error qm i = Some (k, i) /\ (i < n)%nat.
Proof.
  intros Hs Hin. apply In_nth_error in Hin as [j Hj].
  assert (Hj2 : nth_error (map snd qm) j = Some i) by (rewrite nth_error_map, Hj; reflexivity).
  rewrite Hs in Hj2. assert (Hjn : (j < n)%nat).
  { rewrite <- (seq_length n 0). apply nth_error_Some. congruence. }
  assert (nth_error (seq 0 n) j = Some j) as E.
  { rewrite (nth_error_nth' _ 0) by (now rewrite seq_length). now rewrite seq_nth. }
  rewrite E in Hj2. injection Hj2 as <-. auto.
Qed.

Lemma ordered_get_key qm n i : map snd qm = seq 0 n ->
  get_key_by_index qm i = nth_error (map fst qm) i.
Proof.
  intros Hs. assert (Hlen : List.length qm = n) by (rewrite <- (map_length snd), Hs; apply seq_length).
  unfold get_key_by_index. destruct (nth_error qm i) as [[k v]|] eqn:E.
  - assert (Hin : In (k, v) qm) by (eapply nth_error_In; exact E).
    destruct (ordered_in qm n k v Hs Hin) as [Hv _].
    assert (v = i).
    { assert (Hi : nth_error (map snd qm) i = Some v) by (rewrite nth_error_map, E; reflexivity).
      rewrite Hs in Hi. assert (Hin2 : (i < n)%nat) by (rewrite <- Hlen; apply nth_error_Some; congruence).
      rewrite (nth_error_nth' _ 0) in Hi by (now rewrite seq_length). rewrite seq_nth in Hi by exact Hin2.
      now injection Hi. }
    subst v. rewrite nth_error_map, E. cbn [option_map fst].
    destruct (find_key_some (rev qm) i k) as [k' Hk']; [now apply -> in_rev|].
    rewrite Hk'. apply find_key_in, in_rev in Hk'. destruct (ordered_in qm n k' i Hs Hk') as [Hk2 _].
    congruence.
  - rewrite nth_error_map, E. cbn [option_map]. apply find_key_none. intros k Hk.
    apply in_rev in Hk. destruct (ordered_in qm n k i Hs Hk) as [Hk2 _]. congruence.
Qed.

Lemma firstn_S_nth {A} (l : list A) : forall a k, nth_error l a = Some k ->
  firstn (S a) l = (firstn a l ++ [k])%list.
Proof.
  induction l as [|x l IH]; intros a k H; [destruct a; discriminate|].
  destruct a as [|a]; cbn [nth_error] in H; [now injection H as ->|].
  cbn [firstn app]. f_equal. change (firstn (S a) l = (firstn a l ++ [k])%list). now apply IH.
Qed.

Lemma ordered_names_go qm n : map snd qm = seq 0 n ->
  forall m a, (a + m <= n)%nat ->
  qubit_names_go qm (seq a m) (firstn a (map fst qm)) = Some (firstn (a + m) (map fst qm)).
Proof.
  intros Hs. assert (Hlen : List.length (map fst qm) = n).
  { rewrite map_length, <- (map_length snd), Hs. apply seq_length. }
  induction m as [|m IH]; intros a Ha; cbn [seq qubit_names_go]; [now rewrite Nat.add_0_r|].
  unfold name_of. rewrite (ordered_get_key qm n a Hs).
  destruct (nth_error (map fst qm) a) as [k|] eqn:E.
  - rewrite <- (firstn_S_nth _ _ _ E), IH by lia. f_equal. f_equal. lia.
  - apply nth_error_None in E. lia.
Qed.

Theorem qasm_today_is_patched_when_ordered ver3 gmode name n qm gl :
  map snd qm = seq 0 n ->
  qasm_lines false ver3 gmode name n qm gl = qasm_lines true ver3 gmode name n qm gl.
Proof.
  intros Hs. assert (Hlen : List.length (map fst qm) = n).
  { rewrite map_length, <- (map_length snd), Hs. apply seq_length. }
  unfold qasm_lines, qubit_names.
  pose proof (ordered_names_go qm n Hs n 0 (le_n _)) as H. cbn [firstn Nat.add] in H.
  rewrite H, <- Hlen, firstn_all.
  rewrite (body_lines_ext (get_key_by_index qm) (nth_error (map fst qm)) gl (fun q => ordered_get_key qm _ q Hs)).
  reflexivity.
Qed.

(* the compiled function `c = a and b; return (c, c)`: three qubits, five names *)
Definition alias_qm : list (string * nat) :=
  [("a", 0); ("b", 1); ("x0", 2); ("_ret.0", 2); ("_ret.1", 2)].
Definition alias_gl : list xgate := [mkx KCCX [0; 1; 2] XNone].

Theorem qasm_today_refuted :
  exists txt p, qasm_export false true false "test" 3 alias_qm alias_gl = Some txt /\
    parse_qasm txt = Some p /\
    List.length (p_formals p) = 5 /\                       (* five formals for three qubits *)
    p_call p = Some ("test", ["q[0]"; "q[1]"; "q[2]"]) /\ (* called with three arguments *)
    p_gates p = [("ccx", None, [0; 1; 4])].                (* the target is formal 4, bound to no qubit *)
Proof. eexists. eexists. split; [reflexivity|]. split; [vm_compute; reflexivity|]. repeat split. Qed.

Theorem qasm_patched_on_the_same_input :
  exists txt p, qasm_export true true false "test" 3 alias_qm alias_gl = Some txt /\
    parse_qasm txt = Some p /\ p_formals p = ["a"; "b"; "_ret.1"] /\
    p_gates p = [("ccx", None, [0; 1; 2])].
Proof. eexists. eexists. split; [reflexivity|]. split; [vm_compute; reflexivity|]. repeat split. Qed.

(* a used qubit without a name: today's printer fails, the patched one names it *)
Theorem qasm_today_unnamed_qubit_fails :
  qasm_export false true true "t" 2 [("a", 0)] [mkx KCX [0; 1] XNone] = None /\
  exists txt, qasm_export true true true "t" 2 [("a", 0)] [mkx KCX [0; 1] XNone] = Some txt.
Proof. split; [reflexivity|eexists; reflexivity]. Qed.

(* ------------------------------------------------------------------ *)
(* the printed tokens contain no separator when the names and the       *)
(* printed phases contain none: the text-level round trip needs no      *)
(* further assumption                                                   *)
(* ------------------------------------------------------------------ *)
Lemma token_ok_app a b : token_ok (a ++ b) = token_ok a && token_ok b.
Proof.
  unfold token_ok. rewrite !has_char_app.
  destruct (has_char SP a), (has_char SP b), (has_char LF a), (has_char LF b); reflexivity.
Qed.

Lemma token_ok_nat n : token_ok (nat_str n) = true.
Proof. unfold token_ok. now rewrite !nat_str_chars. Qed.

Lemma fresh_name_token : forall fuel used s r, token_ok s = true ->
  fresh_name fuel used s = Some r -> token_ok r = true.
Proof.
  induction fuel as [|f IH]; intros used s r Hs; cbn [fresh_name]; [discriminate|].
  destruct (existsb (String.eqb s) used).
  - apply IH. change (String "_" s) with ("_" ++ s). now rewrite token_ok_app, Hs.
  - intros H. now injection H as <-.
Qed.

Lemma qubit_names_go_token qm : Forall (fun kv => token_ok (fst kv) = true) qm ->
  forall idx acc names, Forall (fun s => token_ok s = true) acc ->
  qubit_names_go qm idx acc = Some names -> Forall (fun s => token_ok s = true) names.
Proof.
  intros Hq. induction idx as [|i r IH]; intros acc names Ha; cbn [qubit_names_go].
  - intros H. now injection H as <-.
  - destruct (name_of qm acc i) as [k|] eqn:Ek; [|discriminate]. apply IH.
    apply Forall_app. split; [exact Ha|]. constructor; [|constructor].
    unfold name_of in Ek. destruct (get_key_by_index qm i) as [k0|] eqn:Eg.
    + injection Ek as <-. apply get_key_in in Eg. rewrite Forall_forall in Hq. exact (Hq _ Eg).
    + eapply fresh_name_token; [|exact Ek]. rewrite token_ok_app, token_ok_nat. reflexivity.
Qed.

Definition printed_ok (p : xparam) : bool :=
  match p with XNone => true | XNum _ _ pr => token_ok pr end.

Lemma head_token_ok gn k p : qasm_name k = Some gn -> printed_ok p = true -> token_ok (head_token gn p) = true.
Proof.
  intros Hk Hp. unfold head_token. rewrite !token_ok_app.
  assert (Hg : token_ok gn = true).
  { unfold token_ok. rewrite (qasm_name_chars SP k gn), (qasm_name_chars LF k gn); auto; cbn; auto. }
  rewrite Hg. cbn [andb]. destruct p as [|z d pr]; [reflexivity|].
  destruct (truthy (XNum z d pr)); [|reflexivity]. rewrite !token_ok_app. cbn [printed_ok] in Hp.
  now rewrite Hp.
Qed.

Lemma spaced_ok l : Forall (fun s => token_ok s = true) l -> line_ok (spaced l) = true /\
  forallb token_ok (spaced l) = true.
Proof.
  intros H. destruct l as [|x r]; [split; reflexivity|]. cbn [spaced].
  assert (E : forallb token_ok (x :: r) = true) by (apply forallb_forall; now apply Forall_forall).
  split; exact E.
Qed.

Lemma map_opt_sub names : Forall (fun s => token_ok s = true) names -> forall qs qbs,
  map_opt (nth_error names) qs = Some qbs -> Forall (fun s => token_ok s = true) qbs.
Proof.
  intros Hn. induction qs as [|q qs IH]; intros qbs; cbn [map_opt].
  - intros H. injection H as <-. constructor.
  - destruct (nth_error names q) as [k|] eqn:Ek; [|discriminate].
    destruct (map_opt (nth_error names) qs) as [r|]; [|discriminate].
    intros H. injection H as <-. constructor; [|now apply IH].
    rewrite Forall_forall in Hn. apply Hn. eapply nth_error_In. exact Ek.
Qed.

Lemma body_lines_ok names : Forall (fun s => token_ok s = true) names -> forall gl body,
  forallb (fun g => printed_ok (xpar g)) gl = true ->
  body_lines (nth_error names) gl = Some body -> tokens_ok body = true.
Proof.
  intros Hn. induction gl as [|g gl IH]; intros body Hp; cbn [body_lines].
  - intros H. now injection H as <-.
  - cbn [forallb] in Hp. apply andb_prop in Hp as [Hpg Hp].
    destruct (qasm_name (xkind g)) as [gn|] eqn:En; [|now apply IH].
    destruct (map_opt (nth_error names) (xqs g)) as [qbs|] eqn:Eq; [|discriminate].
    destruct (body_lines (nth_error names) gl) as [rest|] eqn:Er; [|discriminate].
    intros H. injection H as <-. unfold tokens_ok. cbn [forallb]. fold (tokens_ok rest).
    rewrite (IH rest Hp eq_refl), andb_true_r. cbn [line_ok forallb].
    rewrite (head_token_ok gn _ _ En Hpg).
    now rewrite (proj2 (spaced_ok qbs (map_opt_sub names Hn _ _ Eq))).
Qed.

Lemma tokens_ok_app a b : tokens_ok (a ++ b) = tokens_ok a && tokens_ok b.
Proof. unfold tokens_ok. apply forallb_app. Qed.

Lemma call_line_ok name n : token_ok name = true -> line_ok (call_line name n) = true.
Proof.
  intros Hn. unfold call_line. cbn [line_ok forallb]. rewrite Hn, token_ok_app. cbn [andb].
  rewrite andb_true_r. unfold token_ok.
  assert (Ha : forall ch, In ch [SP; LF] ->
            forallb (fun t => negb (has_char ch t)) (map actual (seq 0 n)) = true).
  { intros ch Hch. apply forallb_forall. intros t Ht. apply in_map_iff in Ht as (c & <- & _).
    apply negb_true_iff. unfold actual. rewrite !has_char_app, (nat_str_chars ch c).
    - destruct Hch as [<-|[<-|[]]]; reflexivity.
    - destruct Hch as [<-|[<-|[]]]; reflexivity. }
  rewrite (has_char_join SP "," _ eq_refl (Ha SP (or_introl eq_refl))).
  rewrite (has_char_join LF "," _ eq_refl (Ha LF (or_intror (or_introl eq_refl)))). reflexivity.
Qed.

Definition text_names_ok (name : string) (qm : list (string * nat)) (gl : list xgate) : Prop :=
  token_ok name = true /\ Forall (fun kv => token_ok (fst kv) = true) qm /\
  forallb (fun g => printed_ok (xpar g)) gl = true.

Theorem qasm_tokens_ok ver3 gmode name n qm gl ls : text_names_ok name qm gl ->
  qasm_lines true ver3 gmode name n qm gl = Some ls -> tokens_ok ls = true.
Proof.
  intros (Hname & Hqm & Hp). unfold qasm_lines.
  destruct (qubit_names n qm) as [names|] eqn:En; [|discriminate].
  destruct (body_lines (nth_error names) gl) as [body|] eqn:Eb; [|discriminate].
  assert (Hnames : Forall (fun s => token_ok s = true) names).
  { unfold qubit_names in En. eapply qubit_names_go_token; [exact Hqm|constructor|exact En]. }
  assert (Hblock : tokens_ok (gate_block name names body) = true).
  { unfold gate_block. unfold tokens_ok. cbn [forallb]. fold (tokens_ok (body ++ [["}"]; [""]])%list).
    rewrite tokens_ok_app, (body_lines_ok names Hnames gl body Hp Eb). cbn [andb].
    rewrite andb_true_r. cbn [app line_ok forallb]. rewrite Hname. cbn [andb].
    rewrite forallb_app, (proj2 (spaced_ok names Hnames)). reflexivity. }
  intros H. injection H as <-. destruct gmode; [exact Hblock|].
  destruct ver3.
  - change (tokens_ok ([["OPENQASM"; "3.0;"]; [""]] ++ gate_block name names body ++ [call_line name n])%list = true).
    rewrite !tokens_ok_app, Hblock. unfold tokens_ok at 2. cbn [forallb].
    rewrite (call_line_ok name n Hname). reflexivity.
  - change (tokens_ok ([["OPENQASM"; "2.0;"]; [""]; ["include"; """qelib1.inc"";"]; [""];
                        ["qreg"; ("q[" ++ nat_str n ++ "];")%string]] ++ gate_block name names body ++ [call_line name n])%list = true).
    rewrite !tokens_ok_app, Hblock. unfold tokens_ok at 2. cbn [forallb].
    rewrite (call_line_ok name n Hname). rewrite andb_true_r. cbn [andb].
    unfold tokens_ok. cbn [forallb line_ok]. rewrite !token_ok_app, token_ok_nat. reflexivity.
Qed.

(* the text-level round trip without side condition on the tokens *)
Theorem qasm_roundtrip_text ver3 gmode name n qm gl txt :
  names_ok qm gl -> text_names_ok name qm gl ->
  qasm_export true ver3 gmode name n qm gl = Some txt ->
  exists formals,
    parse_qasm txt = Some (mkp name formals (expected_gates gl)
                              (if gmode then None else Some (name, map actual (seq 0 n)))) /\
    List.length formals = n /\ NoDup formals /\
    (forall i k, get_key_by_index qm i = Some k -> (i < n)%nat -> nth_error formals i = Some k).
Proof.
  intros H1 H2 H3. apply (qasm_roundtrip ver3 gmode name n qm gl txt H1 H3).
  intros ls Hls. exact (qasm_tokens_ok ver3 gmode name n qm gl ls H2 Hls).
Qed.
