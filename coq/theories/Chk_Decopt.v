(* Chk_Decopt.v — what the C12 harness evaluates on each observed run of
   circuit_boolean_optimizer(qc):
   - the model (M_Decopt.optimize) is run on the same gate list with the
     re-synthesised sections recorded from the run; its result is compared
     EXACTLY with the returned gate list (which slices were replaced, by what);
   - every accepted replacement is decided equivalent to the slice it replaces
     on all 2^nq basis states by the verified circ_equiv;
   - an all-classical circuit is also compared as a whole with the result;
   - size and qubit range of the result. *)
From Coq Require Import List Bool NArith ZArith Arith.
From QV Require Import Bexp BexpTT Circ Compiled M_Decompiler P_Decompiler Chk_Decompiler M_Decopt P_Decopt.
Import ListNotations.
Local Open Scope N_scope.

Record ocase := mkocase {
  o_id : N; o_nq : nat; o_circ : circuit;
  o_news : list resynth;          (* re-synthesised sections, in section order *)
  o_out : option circuit }.       (* None: the optimizer raised *)

Definition cmp_code (r : option (option nat)) : option N :=
  match r with
  | Some None => None
  | Some (Some q) => Some (N.of_nat q)
  | None => Some 999
  end.

Fixpoint chk_repl (id : N) (nq : nat) (c : circuit) (k : N) (l : list (sec * resynth)) : list N :=
  match l with
  | [] => []
  | ((s, e, gs), r) :: rest =>
      (if accept gs r
       then match cmp_code (circ_compare nq (slice c s e) (fst r)) with
            | None => []
            | Some w => [id; 4; k; w]
            end
       else []) ++ chk_repl id nq c (k + 1) rest
  end.

(* failure records [id; code; section number; witness] *)
Definition chk_ocase (o : ocase) : list N :=
  let id := o_id o in let nq := o_nq o in let c := o_circ o in
  match o_out o with
  | None => [id; 8; 0; 0]
  | Some out =>
      let secs := sections c in
      (if Nat.eqb (length (o_news o)) (length secs) then [] else [id; 7; N.of_nat (length (o_news o)); N.of_nat (length secs)]) ++
      (if circ_eqb (optimize c (o_news o)) out then [] else [id; 1; 0; 0]) ++
      (if Nat.leb (length out) (length c) then [] else [id; 2; 0; 0]) ++
      (if qubits_in nq out then [] else [id; 3; 0; 0]) ++
      chk_repl id nq c 0 (combine secs (o_news o)) ++
      (if all_classical c
       then match cmp_code (circ_compare nq c out) with None => [] | Some w => [id; 5; 0; w] end
       else [])
  end.

Definition chk_ocases (l : list ocase) : list N := flat_map chk_ocase l.

(* does the observation match the acceptance test before the repair? (label only) *)
Definition old_matches_opt (o : ocase) : bool :=
  match o_out o with
  | Some out => circ_eqb (optimize_old (o_circ o) (o_news o)) out
  | None => false
  end.

(* does the observation match the index ranges of the decompiler before the
   repair of the end index (C11)?  (label only: such a run differs from the
   model by barriers inside a replaced slice) *)
Definition old_index_matches (o : ocase) : bool :=
  match o_out o with
  | Some out => circ_eqb (fold_right (opt_step accept) (o_circ o) (combine (sections_old (o_circ o)) (o_news o))) out
  | None => false
  end.
