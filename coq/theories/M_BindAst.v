(* M_BindAst.v — executable model of UnboundQlassf.bind and of the parameter
   detection of QlassF.from_function (/repo/qlasskit/qlassfun.py) on the CONCRETE
   syntax of M_A2A.v (the language the normaliser model reads), so that binding,
   normalising and translating are statements about one and the same term.

   from_function: parameters = the arguments whose annotation is the Subscript
   `Parameter[...]` of the plain name Parameter.
   bind (keyword arguments kwargs): raise unless len(kwargs) = len(parameters) and every keyword
   names a parameter; for every keyword, IN KEYWORD ORDER, one statement
   `k = to_val(w)` (a sequence value becomes a Tuple node, recursively; anything
   else a Constant); the arguments whose annotation "looks like" a parameter
   (is_parameter_annotation: `Parameter[...]` or the bare name `Parameter`) are
   removed; the injected assignments are prepended to the body.
   Annotations written through an attribute (`x.Parameter[...]`) are outside the
   datatype: the harness counts such programs as unmodelled.

   No proofs here. *)
From Coq Require Import List Bool NArith ZArith Arith String.
From QV Require Import M_A2A.
Import ListNotations.
Local Open Scope string_scope.
Local Open Scope list_scope.

(* the Python values bind() is given: scalars (carried as constants) and sequences *)
Inductive pv := PCst (c : cst) | PSeq (l : list pv).

Fixpoint to_val (w : pv) : exp :=
  match w with
  | PCst c => EConst c
  | PSeq l => ETuple (map to_val l)
  end.

Definition is_param_sub (a : option exp) : bool :=
  match a with
  | Some (ESubscript (EName n) _) => String.eqb n "Parameter"
  | _ => false
  end.

Definition is_param_ann (a : option exp) : bool :=
  match a with
  | Some (ESubscript (EName n) _) => String.eqb n "Parameter"
  | Some (EName n) => String.eqb n "Parameter"
  | _ => false
  end.

Definition parameters (f : fundef) : list string :=
  map fst (filter (fun a => is_param_sub (snd a)) (f_args f)).

Definition mem_str (x : string) (l : list string) : bool := existsb (String.eqb x) l.

Definition inject (kv : string * pv) : stmt := SAssign (TName (fst kv)) (to_val (snd kv)).

Definition remaining_args (f : fundef) : list (string * option exp) :=
  filter (fun a => negb (is_param_ann (snd a))) (f_args f).

(* kw: the keyword arguments in the order they were written (a dict: distinct keys) *)
Definition bind_ast (f : fundef) (kw : list (string * pv)) : res fundef :=
  if negb (Nat.eqb (List.length kw) (List.length (parameters f))) then Raise
  else if negb (forallb (fun kv => mem_str (fst kv) (parameters f)) kw) then Raise
  else Ok (mkfun (remaining_args f) (f_ret f) (map inject kw ++ f_body f)).

(* from_function returns an unbound object iff there is at least one parameter *)
Definition is_unbound (f : fundef) : bool :=
  match parameters f with [] => false | _ => true end.

(* the value of a bound Python value, where the reference evaluator has one *)
Fixpoint val_of_pv (w : pv) : option val :=
  match w with
  | PCst c => val_of_cst c
  | PSeq l => option_map VTup (all_some (map val_of_pv l))
  end.

(* executing the injected assignments on an environment *)
Fixpoint run_injected (kw : list (string * pv)) (rho : env) : option env :=
  match kw with
  | [] => Some rho
  | (k, w) :: r => match val_of_pv w with Some v => run_injected r (upd rho k v) | None => None end
  end.

(* calling a function: formals bound to actuals, first to last *)
Fixpoint call_env (formals : list string) (actuals : list val) (rho : env) : env :=
  match formals, actuals with
  | x :: fs, v :: vs => call_env fs vs (upd rho x v)
  | _, _ => rho
  end.

(* the actual of every formal of the UNBOUND function: the bound value for a
   parameter, the next remaining actual otherwise *)
Fixpoint merge_actuals (args : list (string * option exp)) (kwv : list (string * val))
         (actuals : list val) : option (list val) :=
  match args with
  | [] => match actuals with [] => Some [] | _ => None end
  | (x, a) :: r =>
      if is_param_ann a then
        match assoc kwv x with
        | Some v => option_map (cons v) (merge_actuals r kwv actuals)
        | None => None
        end
      else
        match actuals with
        | v :: vs => option_map (cons v) (merge_actuals r kwv vs)
        | [] => None
        end
  end.

(* structural equality of function definitions (what the correspondence compares) *)
Definition arg_eqb (a b : string * option exp) : bool :=
  String.eqb (fst a) (fst b) && oexp_eqb (snd a) (snd b).
Definition fundef_eqb (f g : fundef) : bool :=
  list_eqb arg_eqb (f_args f) (f_args g) && oexp_eqb (f_ret f) (f_ret g)
  && list_eqb stmt_eqb (f_body f) (f_body g).
