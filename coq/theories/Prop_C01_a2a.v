(* Prop_C01_a2a.v — property C01, NORMALISER layer: qlasskit.ast2ast (ConstantFolder,
   ReplaceMultiTargetAssign, ASTRewriter, ConstantFolder — as modelled in M_A2A.v, tied to
   /repo by the exact correspondence run of harness/c01_a2a.py) preserves the meaning of the
   source program it hands to the translator.  Statements only; proofs are in P_A2A.v.

   Vocabulary (definitions in M_A2A.v / P_A2A.v):
     exp, stmt, fundef     the accepted fragment of Python (source AND normalised programs)
     a2a f                 the four passes in the order ast2ast.py applies them:
                           Ok body | Raise (the Python code raises) | Unmod (the model declines)
     fold_list, multi_list, rw_list          the single passes
     run ext body rho      the reference evaluator: the value the statement list returns from the
                           environment rho (bool / unbounded int / tuple; None = no value: an
                           exception, a float or str, falling off the end); ext interprets calls of
                           names that are not builtins
     a2a_guard f           THE decidable guard (evaluated on every program of the correspondence
                           run): no name starts with `_`; bool / int constants only; no `**`; a
                           subscript is indexed by a constant or by an enclosing loop variable; no
                           call of len / sum / all / any / min / max / abs / print / ord / chr, range
                           only as a loop iterator; a tuple target only with a literal tuple / list of
                           the same length on the right; loops over range(...) or a literal
                           tuple / list of bool / int constants
     gstmt okn lv s        the same guard with [okn] the admissible names, [lv] the loop variables
     bsim P f g            backward simulation: whenever g (the rewritten code) has an outcome from
                           an environment, f (the original) has one from every environment agreeing
                           with it on the names P selects: same returned value, again agreeing
     normal_form l         only `name = e`, `return e` and expression statements are left
   Direction: "normalised has a value  ==>  source has the same value".  The converse is FALSE
   inside the guard (C01a_forward_refuted: a name assigned in one branch only) and the unguarded
   statement is FALSE in both directions (C01a_preserves_refuted and the five witnesses, each a
   program the real library accepts and mis-translates). *)
From Coq Require Import List Bool NArith ZArith Arith String.
From QV Require Import M_A2A P_A2A.
Import ListNotations.
Local Open Scope string_scope.

(* whatever the normaliser returns has no If / For / AugAssign / tuple-target statement left *)
Theorem C01a_normal_form : forall f b', a2a f = Ok b' -> normal_form b' = true.
Proof. exact a2a_normal_form. Qed.
Print Assumptions C01a_normal_form.

(* THE theorem: inside the guard, for every environment and every interpretation of the
   non-builtin calls, a value of the normalised program is the value of the source program *)
Theorem C01a_backward : forall ext f b',
  a2a_guard f = true -> a2a f = Ok b' ->
  forall rho v, run ext b' rho = Some v -> run ext (f_body f) rho = Some v.
Proof. exact a2a_backward. Qed.
Print Assumptions C01a_backward.

(* pass by pass *)
(* ConstantFolder: the folded list has exactly the outcome of the original (both directions) *)
Theorem C01a_fold_preserves : forall ext okn lv b b',
  forallb (gstmt okn lv) b = true -> fold_list b = Ok b' ->
  (forall rho, exec_list ext b' rho = exec_list ext b rho) /\ forallb (gstmt okn lv) b' = true.
Proof. exact fold_list_sound. Qed.
Print Assumptions C01a_fold_preserves.

(* ReplaceMultiTargetAssign: a, b = e1, e2  becomes  _temptup = (e1, e2); a = _temptup[0]; ... *)
Theorem C01a_multi_preserves : forall ext lv b b',
  forallb (gstmt user_name lv) b = true -> multi_list b = Ok b' ->
  forallb (gstmt visible lv) b' = true /\ bsim user_name (exec_list ext b) (exec_list ext b').
Proof. exact multi_list_sound. Qed.
Print Assumptions C01a_multi_preserves.

(* ASTRewriter: if-flattening into _iftargN + conditional expressions, the __x temporaries of
   self-referencing and augmented assignments, loop unrolling with substitution of the loop variable *)
Theorem C01a_rewriter_preserves : forall ext b st l st',
  forallb (gstmt visible []) b = true -> forallb notup b = true ->
  rw_list rw_fuel st b = Ok (l, st') -> rw_post ext st l st' (exec_list ext b).
Proof. exact rw_list_sound. Qed.
Print Assumptions C01a_rewriter_preserves.

(* the unguarded statement is false of the faithful model *)
Theorem C01a_preserves_refuted :
  exists f rho b' v v', a2a f = Ok b' /\ run no_ext b' rho = Some v /\
                        run no_ext (f_body f) rho = Some v' /\ v <> v'.
Proof. exact a2a_preserves_refuted. Qed.
Print Assumptions C01a_preserves_refuted.

(* t, a = t : the second single assignment reads the new t *)
Theorem C01a_refuted_multi_target : differ wit_multi wit_multi_env.
Proof. exact wit_multi_differ. Qed.
Print Assumptions C01a_refuted_multi_target.

(* t = (a, b); a = not a; return t[u[0]] : the recorded element expressions are read too late *)
Theorem C01a_refuted_tuple_alias : differ wit_alias wit_alias_env.
Proof. exact wit_alias_differ. Qed.
Print Assumptions C01a_refuted_tuple_alias.

(* t = (a, b); if c: t = (b, a); return t[u[0]] : the recorded constants are flow-insensitive *)
Theorem C01a_refuted_tuple_flow : differ wit_flow wit_flow_env.
Proof. exact wit_flow_differ. Qed.
Print Assumptions C01a_refuted_tuple_flow.

(* for x in m[0] with m a 2 x 3 matrix: the row length is taken from the outer dimension *)
Theorem C01a_refuted_matrix_row : differ wit_matrix wit_matrix_env.
Proof. exact wit_matrix_differ. Qed.
Print Assumptions C01a_refuted_matrix_row.

(* for x in a: a = (s, x); s = s ^ x : the loop variable is an expression over the re-bound a *)
Theorem C01a_refuted_loop_rebind : differ wit_loop wit_loop_env.
Proof. exact wit_loop_differ. Qed.
Print Assumptions C01a_refuted_loop_rebind.

(* inside the guard the converse of C01a_backward fails *)
Theorem C01a_forward_refuted :
  exists f rho b' v, a2a_guard f = true /\ a2a f = Ok b' /\
                     run no_ext (f_body f) rho = Some v /\ run no_ext b' rho = None.
Proof. exact a2a_forward_refuted. Qed.
Print Assumptions C01a_forward_refuted.

(* ---------------- non-vacuity ---------------- *)
(* def ex(a: bool, b: bool, x: Qint[2], y: Qint[2]) -> Qint[4]:
       p = 0
       a, b = b, a
       if a:
           x = x + 1
           a = not a
       elif b:
           x += 2
       else:
           y = x
       for i in range(3):
           if i >= 1:
               p = p + x
       return p + y *)
Definition ex_fun : fundef :=
  (mkfun [("a", (Some (EName "bool"))); ("b", (Some (EName "bool"))); ("x", (Some (ESubscript (EName "Qint") (EConst (CInt (Zpos (xO xH))))))); ("y", (Some (ESubscript (EName "Qint") (EConst (CInt (Zpos (xO xH)))))))] (Some (ESubscript (EName "Qint") (EConst (CInt (Zpos (xO (xO xH))))))) [(SAssign (TName "p") (EConst (CInt Z0))); (SAssign (TTuple [(EName "a"); (EName "b")]) (ETuple [(EName "b"); (EName "a")])); (SIf (EName "a") [(SAssign (TName "x") (EBinOp Add (EName "x") (EConst (CInt (Zpos xH))))); (SAssign (TName "a") (EUnOp Not (EName "a")))] [(SIf (EName "b") [(SAugAssign "x" Add (EConst (CInt (Zpos (xO xH)))))] [(SAssign (TName "y") (EName "x"))])]); (SFor "i" (ECall "range" [(EConst (CInt (Zpos (xI xH))))]) [(SIf (ECompare GtE (EName "i") (EConst (CInt (Zpos xH)))) [(SAssign (TName "p") (EBinOp Add (EName "p") (EName "x")))] [])]); (SReturn (EBinOp Add (EName "p") (EName "y")))]).
Definition ex_env : env := env_of [("a", VBool false); ("b", VBool true); ("x", VInt 2); ("y", VInt 3)].

(* the guard of C01a_backward holds, the normaliser succeeds, the normalised program has a value *)
Example ex_in_guard : a2a_guard ex_fun = true.
Proof. vm_compute. reflexivity. Qed.
Example ex_rewritten : match a2a ex_fun with Ok b' => run no_ext b' ex_env | _ => None end = Some (VInt 9).
Proof. vm_compute. reflexivity. Qed.
Example ex_source : run no_ext (f_body ex_fun) ex_env = Some (VInt 9).
Proof. vm_compute. reflexivity. Qed.
(* the normalised program really has the temporaries the theorem is about *)
Example ex_shape :
  match a2a ex_fun with
  | Ok b' => (normal_form b', List.length b',
              existsb (fun s => match s with SAssign (TName y) _ => String.eqb y "_temptup" | _ => false end) b',
              existsb (fun s => match s with SAssign (TName y) _ => String.eqb y "_iftarg3" | _ => false end) b',
              existsb (fun s => match s with SAssign (TName y) _ => String.eqb y "__x" | _ => false end) b')
  | _ => (false, 0%nat, false, false, false)
  end = (true, 26%nat, true, true, true).
Proof. vm_compute. reflexivity. Qed.
