(* Prop_C01_a2a.v — property C01, NORMALISER layer: qlasskit.ast2ast (ConstantFolder,
   ReplaceMultiTargetAssign, ASTRewriter, ConstantFolder — as modelled in M_A2A.v, tied to
   /repo by the exact correspondence run of harness/c01_a2a.py) preserves the meaning of the
   source program it hands to the translator.  Statements only; proofs are in P_A2A.v.

   Vocabulary (definitions in M_A2A.v / P_A2A.v):
     exp, stmt, fundef     the accepted fragment of Python (source AND normalised programs)
     a2a f                 the four passes in the order ast2ast.py applies them:
                           Ok body | Raise (the Python code raises) | Unmod (the model declines)
     fold_list, multi_list, rw_list          the single passes
     run ext body rho      the reference evaluator: the value the statement list returns from the
                           environment rho (bool / unbounded int / tuple; None = no value: an
                           exception, a float or str, falling off the end); ext interprets calls of
                           names that are not builtins
     a2a_guard f           THE decidable guard (evaluated on every program of the correspondence
                           run): no name starts with `__`, `_temptup`, `_iftarg`, `_forit`; bool / int constants only; no `**`; a
                           subscript is indexed by a constant or by the variable of an enclosing loop
                           over range / constants; no call of abs / print / ord / chr, range only as a
                           loop iterator, len / sum / all / any / min / max only of ONE typed tuple
                           argument (sum: >= 2 elements; all / any: >= 1 element, all annotated bool;
                           min / max: >= 1 element, all annotated bool or all Qint[..]); a tuple target only with
                           a literal tuple / list of the same length, or a typed tuple argument of that
                           length, on the right; loops over range(...), over a literal tuple / list of
                           bool / int constants, or over a typed tuple argument; the typed tuple
                           arguments (annotation Tuple[...], which is what Qlist / Qmatrix become)
                           are never re-bound
     plen_of f a           the length of the typed tuple argument a (None: not one)
     conforms f rho        rho gives every typed tuple argument a tuple of the annotated length, of
                           booleans / integers when all its elements are annotated bool / Qint[..]
     pbool_of, pint_of     the typed tuple arguments all of whose elements are annotated bool / Qint[..]
     gstmt okn plen pbool pint lv s   the same guard with [okn] the admissible names, [plen] [pbool]
                           [pint] the typed tuple arguments and their kinds, [lv] the index-capable loop variables
     bsim plen rho0 P f g  backward simulation: whenever g (the rewritten code) has an outcome from an
                           environment in which the typed arguments have their initial value (rho0),
                           f (the original) has one from every environment agreeing with it on the
                           names P selects: same returned value, again agreeing, typed arguments kept
     normal_form l         only `name = e`, `return e` and expression statements are left
   Direction: "normalised has a value  ==>  source has the same value".  The converse is FALSE
   inside the guard (C01a_forward_refuted: a name assigned in one branch only) and the unguarded
   statement is still FALSE of the model over UNTYPED values (C01a_preserves_refuted: all(a) over
   integers), but no program the library ACCEPTS is known to be mis-translated any more: the eight
   witnesses of the first two rounds are repaired in /repo (cc7fed2 .. e979369) and are positive
   Examples / rejection Examples at the end. *)
From Coq Require Import List Bool NArith ZArith Arith String.
From QV Require Import M_A2A P_A2A.
Import ListNotations.
Local Open Scope string_scope.

(* whatever the normaliser returns has no If / For / AugAssign / tuple-target statement left *)
Theorem C01a_normal_form : forall f b', a2a f = Ok b' -> normal_form b' = true.
Proof. exact a2a_normal_form. Qed.
Print Assumptions C01a_normal_form.

(* THE theorem: inside the guard, for every environment and every interpretation of the
   non-builtin calls, a value of the normalised program is the value of the source program *)
Theorem C01a_backward : forall ext f b',
  a2a_guard f = true -> a2a f = Ok b' ->
  forall rho, conforms f rho ->
  forall v, run ext b' rho = Some v -> run ext (f_body f) rho = Some v.
Proof. exact a2a_backward. Qed.
Print Assumptions C01a_backward.

(* conformance is decided on the arguments *)
Theorem C01a_conforms_check : forall f rho, conforms_b f rho = true -> conforms f rho.
Proof. exact conforms_check. Qed.
Print Assumptions C01a_conforms_check.

(* pass by pass *)
(* ConstantFolder: the folded list has exactly the outcome of the original (both directions) *)
Theorem C01a_fold_preserves : forall plen pbool pint ext okn lv b b',
  forallb (gstmt okn plen pbool pint lv) b = true -> fold_list b = Ok b' ->
  (forall rho, exec_list ext b' rho = exec_list ext b rho) /\ forallb (gstmt okn plen pbool pint lv) b' = true.
Proof. exact fold_list_sound. Qed.
Print Assumptions C01a_fold_preserves.

(* ReplaceMultiTargetAssign: a, b = e1, e2  becomes  _temptup = (e1, e2); a = _temptup[0]; ... *)
Theorem C01a_multi_preserves : forall plen,
  (forall a, prot plen a = true -> user_name a = true) ->
  forall rho0, (forall a n, plen a = Some n -> exists vs, rho0 a = Some (VTup vs) /\ List.length vs = n) ->
  forall pbool pint ext lv b b',
  forallb (gstmt user_name plen pbool pint lv) b = true -> multi_list b = Ok b' ->
  forallb (gstmt visible plen pbool pint lv) b' = true /\
  bsim plen rho0 user_name (exec_list ext b) (exec_list ext b').
Proof. exact multi_list_sound. Qed.
Print Assumptions C01a_multi_preserves.

(* ASTRewriter: if-flattening into _iftargN + conditional expressions, the __x temporaries of
   self-referencing and augmented assignments, loop unrolling with substitution of the loop variable *)
Theorem C01a_rewriter_preserves : forall plen,
  (forall a, prot plen a = true -> user_name a = true) ->
  forall rho0, (forall a n, plen a = Some n -> exists vs, rho0 a = Some (VTup vs) /\ List.length vs = n) ->
  forall pbool, (forall a, pbool a = true -> exists vs, rho0 a = Some (VTup vs) /\ forallb is_vbool vs = true) ->
  forall pint, (forall a, pint a = true -> exists vs, rho0 a = Some (VTup vs) /\ forallb is_vint vs = true) ->
  forall ext b st l st',
  forallb (gstmt visible plen pbool pint []) b = true -> forallb notup b = true -> st_ok plen st ->
  rw_list rw_fuel st b = Ok (l, st') -> rw_post plen rho0 pbool pint ext st l st' (exec_list ext b).
Proof. exact rw_list_sound. Qed.
Print Assumptions C01a_rewriter_preserves.

(* the unguarded statement is false of the faithful model over untyped values *)
Theorem C01a_preserves_refuted :
  exists f rho b' v v', a2a f = Ok b' /\ run no_ext b' rho = Some v /\
                        run no_ext (f_body f) rho = Some v' /\ v <> v'.
Proof. exact a2a_preserves_refuted. Qed.
Print Assumptions C01a_preserves_refuted.

(* the witness: all(a) over integers becomes a[0] and a[1] (3, not True).  The translator rejects
   the program (operands of `and` must be bool): the statement is false of the UNTYPED model, no
   accepted program is known to be mis-translated *)
Theorem C01a_refuted_all_over_ints : differ wit_all wit_all_env.
Proof. exact wit_all_differ. Qed.
Print Assumptions C01a_refuted_all_over_ints.

(* the reserved prefixes _temptup / _iftarg / _forit are rejected before any pass *)
Theorem C01a_reserved_rejected : forall f b', a2a f = Ok b' -> fun_reserved f = false.
Proof. exact a2a_ok_not_reserved. Qed.
Print Assumptions C01a_reserved_rejected.

(* inside the guard the converse of C01a_backward fails *)
Theorem C01a_forward_refuted :
  exists f rho b' v, a2a_guard f = true /\ a2a f = Ok b' /\
                     run no_ext (f_body f) rho = Some v /\ run no_ext b' rho = None.
Proof. exact a2a_forward_refuted. Qed.
Print Assumptions C01a_forward_refuted.

(* ---------------- non-vacuity ---------------- *)
(* def ex(a: bool, b: bool, x: Qint[2], y: Qint[2]) -> Qint[4]:
       p = 0
       a, b = b, a
       if a:
           x = x + 1
           a = not a
       elif b:
           x += 2
       else:
           y = x
       for i in range(3):
           if i >= 1:
               p = p + x
       return p + y *)
Definition ex_fun : fundef :=
  (mkfun [("a", (Some (EName "bool"))); ("b", (Some (EName "bool"))); ("x", (Some (ESubscript (EName "Qint") (EConst (CInt (Zpos (xO xH))))))); ("y", (Some (ESubscript (EName "Qint") (EConst (CInt (Zpos (xO xH)))))))] (Some (ESubscript (EName "Qint") (EConst (CInt (Zpos (xO (xO xH))))))) [(SAssign (TName "p") (EConst (CInt Z0))); (SAssign (TTuple [(EName "a"); (EName "b")]) (ETuple [(EName "b"); (EName "a")])); (SIf (EName "a") [(SAssign (TName "x") (EBinOp Add (EName "x") (EConst (CInt (Zpos xH))))); (SAssign (TName "a") (EUnOp Not (EName "a")))] [(SIf (EName "b") [(SAugAssign "x" Add (EConst (CInt (Zpos (xO xH)))))] [(SAssign (TName "y") (EName "x"))])]); (SFor "i" (ECall "range" [(EConst (CInt (Zpos (xI xH))))]) [(SIf (ECompare GtE (EName "i") (EConst (CInt (Zpos xH)))) [(SAssign (TName "p") (EBinOp Add (EName "p") (EName "x")))] [])] []); (SReturn (EBinOp Add (EName "p") (EName "y")))]).
Definition ex_env : env := env_of [("a", VBool false); ("b", VBool true); ("x", VInt 2); ("y", VInt 3)].

(* the guard of C01a_backward holds, the normaliser succeeds, the normalised program has a value *)
Example ex_in_guard : a2a_guard ex_fun = true.
Proof. vm_compute. reflexivity. Qed.
Example ex_rewritten : match a2a ex_fun with Ok b' => run no_ext b' ex_env | _ => None end = Some (VInt 9).
Proof. vm_compute. reflexivity. Qed.
Example ex_source : run no_ext (f_body ex_fun) ex_env = Some (VInt 9).
Proof. vm_compute. reflexivity. Qed.
(* the normalised program really has the temporaries the theorem is about *)
Example ex_shape :
  match a2a ex_fun with
  | Ok b' => (normal_form b', List.length b',
              existsb (fun s => match s with SAssign (TName y) _ => String.eqb y "_temptup" | _ => false end) b',
              existsb (fun s => match s with SAssign (TName y) _ => String.eqb y "_iftarg3" | _ => false end) b',
              existsb (fun s => match s with SAssign (TName y) _ => String.eqb y "__x" | _ => false end) b')
  | _ => (false, 0%nat, false, false, false)
  end = (true, 26%nat, true, true, true).
Proof. vm_compute. reflexivity. Qed.

(* the five programs that refuted preservation before the repairs cc7fed2 .. d025bfb of /repo
   (t, a = t;  t = (a, b); a = not a; t[u[0]];  the same under an if;  for x in m[0] of a 2 x 3
   matrix;  for x in a with a re-bound in the body): each is now normalised to a program with
   the value of the source *)
Example repaired_multi_target : agree wit_multi wit_multi_env (VBool true).
Proof. exact wit_multi_agree. Qed.
Example repaired_tuple_alias : agree wit_alias wit_alias_env (VBool true).
Proof. exact wit_alias_agree. Qed.
Example repaired_tuple_flow : agree wit_flow wit_flow_env (VBool true).
Proof. exact wit_flow_agree. Qed.
Example repaired_matrix_row : agree wit_matrix wit_matrix_env (VBool true).
Proof. exact wit_matrix_agree. Qed.
Example repaired_loop_rebind : agree wit_loop wit_loop_env (VBool false).
Proof. exact wit_loop_agree. Qed.

(* typed tuple arguments: a loop over a Qlist, with a condition inside, and an unpacking
   def ex2(a: Qlist[bool, 3], t: Tuple[Qint[2], Qint[2]], c: bool) -> Qint[4]:
       p, q = t
       for x in a:
           if x:
               p = p + q
           c = c ^ x
       return p if c else q *)
Definition ann_b3 : option exp := Some (ESubscript (EName "Tuple") (ETuple [EName "bool"; EName "bool"; EName "bool"])).
Definition ann_q2 : exp := ESubscript (EName "Qint") (EConst (CInt 2)).
Definition ex2_fun : fundef :=
  mkfun [("a", ann_b3); ("t", Some (ESubscript (EName "Tuple") (ETuple [ann_q2; ann_q2]))); ("c", Some (EName "bool"))]
        (Some (ESubscript (EName "Qint") (EConst (CInt 4))))
        [SAssign (TTuple [EName "p"; EName "q"]) (EName "t");
         SFor "x" (EName "a")
              [SIf (EName "x") [SAssign (TName "p") (EBinOp Add (EName "p") (EName "q"))] [];
               SAssign (TName "c") (EBinOp BitXor (EName "c") (EName "x"))] [];
         SReturn (EIfExp (EName "c") (EName "p") (EName "q"))].
Definition ex2_env : env :=
  env_of [("a", VTup [VBool true; VBool false; VBool true]); ("t", VTup [VInt 1; VInt 2]); ("c", VBool true)].

Example ex2_in_guard : a2a_guard ex2_fun = true.
Proof. vm_compute. reflexivity. Qed.
Example ex2_typed : (plen_of ex2_fun "a", plen_of ex2_fun "t", plen_of ex2_fun "c") = (Some 3%nat, Some 2%nat, None).
Proof. vm_compute. reflexivity. Qed.
Example ex2_conforms : conforms ex2_fun ex2_env.
Proof. apply conforms_check. vm_compute. reflexivity. Qed.
Example ex2_rewritten : match a2a ex2_fun with Ok b' => run no_ext b' ex2_env | _ => None end = Some (VInt 5).
Proof. vm_compute. reflexivity. Qed.
Example ex2_source : run no_ext (f_body ex2_fun) ex2_env = Some (VInt 5).
Proof. vm_compute. reflexivity. Qed.

(* the three witnesses of the second round (repaired by cbb039f, e979369) *)
Example repaired_const_tuple_flow : agree wit_constflow wit_constflow_env (VBool true).
Proof. exact wit_constflow_agree. Qed.
Example rejected_reserved_temptup : a2a wit_temptup = Raise.
Proof. exact wit_temptup_rejected. Qed.
Example rejected_reserved_iftarg : a2a wit_iftarg = Raise.
Proof. exact wit_iftarg_rejected. Qed.
(* a single underscore is an ordinary name *)
Example underscore_names_in_guard :
  a2a_guard (mkfun [("_a", Some (EName "bool"))] (Some (EName "bool"))
                   [SAssign (TName "_x") (EUnOp Not (EName "_a"));
                    SIf (EName "_x") [SAssign (TName "_x") (EName "_a")] [];
                    SReturn (EName "_x")]) = true.
Proof. vm_compute. reflexivity. Qed.

(* the builtin expansions over typed tuple arguments
   def ex3(a: Qlist[bool, 3], q: Qlist[Qint[2], 3]) -> Qint[4]:
       s = sum(q) + len(a)
       if all(a) or not any(a):
           s = s + max(q)
       return s - min(q) *)
Definition ex3_fun : fundef :=
  mkfun [("a", ann_b3); ("q", Some (ESubscript (EName "Tuple") (ETuple [ann_q2; ann_q2; ann_q2])))]
        (Some (ESubscript (EName "Qint") (EConst (CInt 4))))
        [SAssign (TName "s") (EBinOp Add (ECall "sum" [EName "q"]) (ECall "len" [EName "a"]));
         SIf (EBoolOp Or [ECall "all" [EName "a"]; EUnOp Not (ECall "any" [EName "a"])])
             [SAssign (TName "s") (EBinOp Add (EName "s") (ECall "max" [EName "q"]))] [];
         SReturn (EBinOp Sub (EName "s") (ECall "min" [EName "q"]))].
Definition ex3_env : env :=
  env_of [("a", VTup [VBool true; VBool false; VBool true]); ("q", VTup [VInt 1; VInt 3; VInt 2])].
Example ex3_in_guard : a2a_guard ex3_fun = true.
Proof. vm_compute. reflexivity. Qed.
Example ex3_conforms : conforms ex3_fun ex3_env.
Proof. apply conforms_check. vm_compute. reflexivity. Qed.
Example ex3_rewritten : match a2a ex3_fun with Ok b' => run no_ext b' ex3_env | _ => None end = Some (VInt 8).
Proof. vm_compute. reflexivity. Qed.
Example ex3_source : run no_ext (f_body ex3_fun) ex3_env = Some (VInt 8).
Proof. vm_compute. reflexivity. Qed.
