(* P_Compiler.v — lemmas about the synthesiser model M_Compiler.v.
   Part 0: data structure lemmas.  Part 1: semantics of gate lists, remove_identities.
   Part 1b: the replay lemma (reverse replay of the gates on a set of qubits).
   Part 2: the invariant and the primitive operations.  Part 3: compile_expr
   (cache soundness, xor accumulation, frame, marking and control discipline).
   Part 4: statements, the inline uncompute (marked ancillas back to zero), whole
   programs: c02_holds for both settings of uncompute.  Part 5: witnesses.
   Then: the closure of uncompute_all is a fixpoint; c03_holds for the class. *)
From Coq Require Import List Bool NArith Arith Lia.
From QV Require Import Bexp BexpTT Circ Compiled M_Compiler.
Import ListNotations.

Ltac sts := cbn [st_gates st_comp st_nq st_qmap st_anc st_free st_res st_marked st_cache st_next st_orc
                 set_gates set_comp set_nq set_qmap set_anc set_free set_res set_marked set_cache set_next set_orc
                 upd_cache] in *.

(* ------------------------------------------------------------------ *)
(* Part 0 *)
Lemma ceqb_eq : forall a b, ceqb a b = true -> a = b.
Proof.
  intros a. induction a as [x|i|a IH|l IH|l IH|l IH|c t e IHc IHt IHe|a1 a2 IH1 IH2] using bexp_ind2;
    intros b Hab; destruct b as [y|j|b|m|m|m|c' t' e'|b1 b2]; cbn [ceqb] in Hab; try discriminate Hab.
  - apply Bool.eqb_prop in Hab. now subst.
  - apply Nat.eqb_eq in Hab. now subst.
  - f_equal. now apply IH.
  - f_equal. revert m Hab. induction IH as [|x r Hx _ IHr]; intros [|y m'] Hab; try discriminate Hab; [reflexivity|].
    apply andb_true_iff in Hab as [H1 H2]. f_equal; [now apply Hx|now apply IHr].
  - f_equal. revert m Hab. induction IH as [|x r Hx _ IHr]; intros [|y m'] Hab; try discriminate Hab; [reflexivity|].
    apply andb_true_iff in Hab as [H1 H2]. f_equal; [now apply Hx|now apply IHr].
  - f_equal. revert m Hab. induction IH as [|x r Hx _ IHr]; intros [|y m'] Hab; try discriminate Hab; [reflexivity|].
    apply andb_true_iff in Hab as [H1 H2]. f_equal; [now apply Hx|now apply IHr].
  - apply andb_true_iff in Hab as [Hab H3]. apply andb_true_iff in Hab as [H1 H2].
    f_equal; [now apply IHc|now apply IHt|now apply IHe].
  - apply andb_true_iff in Hab as [H1 H2]. f_equal; [now apply IH1|now apply IH2].
Qed.

Lemma ceqb_refl : forall a, ceqb a a = true.
Proof.
  induction a as [x|i|a IH|l IH|l IH|l IH|c t e IHc IHt IHe|a1 a2 IH1 IH2] using bexp_ind2; cbn [ceqb].
  - now destruct x.
  - apply Nat.eqb_refl.
  - exact IH.
  - induction IH as [|x r Hx _ IHr]; [reflexivity|]. now rewrite Hx, IHr.
  - induction IH as [|x r Hx _ IHr]; [reflexivity|]. now rewrite Hx, IHr.
  - induction IH as [|x r Hx _ IHr]; [reflexivity|]. now rewrite Hx, IHr.
  - now rewrite IHc, IHt, IHe.
  - now rewrite IH1, IH2.
Qed.

Lemma ceqb_neq a b : a <> b -> ceqb a b = false.
Proof. intros H. destruct (ceqb a b) eqn:E; [|reflexivity]. apply ceqb_eq in E. contradiction. Qed.

Lemma mem_nat_false q l : mem_nat q l = false <-> ~ In q l.
Proof.
  split.
  - intros H Hin. apply mem_nat_in in Hin. congruence.
  - intros H. destruct (mem_nat q l) eqn:E; [|reflexivity]. apply mem_nat_in in E. contradiction.
Qed.

Lemma sadd_in q l x : In x (sadd q l) <-> x = q \/ In x l.
Proof.
  unfold sadd. destruct (mem_nat q l) eqn:E.
  - apply mem_nat_in in E. split; [auto|]. intros [->|H]; assumption.
  - rewrite in_app_iff. cbn. split; [intros [H|[H|[]]]; auto|intros [H|H]; auto].
Qed.

Lemma srem_in q l x : In x (srem q l) <-> In x l /\ x <> q.
Proof.
  unfold srem. rewrite filter_In. split.
  - intros [H1 H2]. split; [exact H1|]. intros ->. now rewrite Nat.eqb_refl in H2.
  - intros [H1 H2]. split; [exact H1|]. apply negb_true_iff. now apply Nat.eqb_neq.
Qed.

Lemma sdiff_in a b x : In x (sdiff a b) <-> In x a /\ ~ In x b.
Proof.
  unfold sdiff. rewrite filter_In. split.
  - intros [H1 H2]. split; [exact H1|]. apply negb_true_iff in H2. now apply mem_nat_false.
  - intros [H1 H2]. split; [exact H1|]. apply negb_true_iff. now apply mem_nat_false.
Qed.

Lemma nodupb_NoDup l : nodupb l = true -> NoDup l.
Proof.
  induction l as [|x r IH]; cbn [nodupb]; intros H; [constructor|].
  apply andb_true_iff in H as [H1 H2]. constructor; [|now apply IH].
  apply negb_true_iff in H1. now apply mem_nat_false.
Qed.

Lemma qname_eqb_eq a b : qname_eqb a b = true <-> a = b.
Proof.
  destruct a, b; cbn; try (split; [discriminate|discriminate]); try (split; reflexivity);
    rewrite Nat.eqb_eq; split; intros H; [now subst|now injection H|now subst|now injection H].
Qed.

Lemma qm_get_in m k q : qm_get m k = Some q -> In (k, q) m.
Proof.
  induction m as [|[k' v] r IH]; cbn [qm_get]; [discriminate|].
  destruct (qname_eqb k k') eqn:E.
  - apply qname_eqb_eq in E. subst. intros H. injection H as ->. now left.
  - intros H. right. now apply IH.
Qed.

Lemma qm_set_in m k v k' q : In (k', q) (qm_set m k v) -> (k' = k /\ q = v) \/ In (k', q) m.
Proof.
  induction m as [|[k0 v0] r IH]; cbn [qm_set].
  - intros [H|[]]. injection H as <- <-. now left.
  - destruct (qname_eqb k k0) eqn:E.
    + intros [H|H]; [injection H as <- <-; now left|right; now right].
    + intros [H|H]; [right; now left|]. destruct (IH H) as [?|?]; [now left|right; now right].
Qed.

Lemma qm_del_in m k k' q : In (k', q) (qm_del m k) -> In (k', q) m.
Proof. unfold qm_del. rewrite filter_In. tauto. Qed.

Lemma cache_get_in c e q : cache_get c e = Some q -> In (e, q) c.
Proof.
  induction c as [|[e' v] r IH]; cbn [cache_get]; [discriminate|].
  destruct (ceqb e e') eqn:E.
  - apply ceqb_eq in E. subst. intros H. injection H as ->. now left.
  - intros H. right. now apply IH.
Qed.

Lemma cache_get_none c e : cache_get c e = None -> forall q, ~ In (e, q) c.
Proof.
  induction c as [|[e' v] r IH]; cbn [cache_get]; intros H q; [intros []|].
  destruct (ceqb e e') eqn:E; [discriminate|].
  intros [Hin|Hin]; [injection Hin as -> ->; now rewrite ceqb_refl in E|now apply (IH H q)].
Qed.

Lemma cache_remove_in qs c e q : In (e, q) (cache_remove qs c) <-> In (e, q) c /\ ~ In q qs.
Proof.
  unfold cache_remove. rewrite filter_In. cbn [snd]. split.
  - intros [H1 H2]. split; [exact H1|]. apply negb_true_iff in H2. now apply mem_nat_false.
  - intros [H1 H2]. split; [exact H1|]. apply negb_true_iff. now apply mem_nat_false.
Qed.

Lemma cache_set_in e q c e' q' :
  In (e', q') (cache_set e q c) <-> (e' = e /\ q' = q) \/ (In (e', q') c /\ q' <> q /\ e' <> e).
Proof.
  unfold cache_set. rewrite in_app_iff, filter_In, cache_remove_in. cbn [fst In]. split.
  - intros [[[H1 H2] H3]|[H|[]]].
    + right. split; [exact H1|]. split; [intros ->; apply H2; now left|].
      intros ->. now rewrite ceqb_refl in H3.
    + injection H as <- <-. now left.
  - intros [[-> ->]|(H1 & H2 & H3)]; [right; now left|left].
    split; [split; [exact H1|intros [H|[]]; congruence]|].
    apply negb_true_iff. apply ceqb_neq. congruence.
Qed.

(* the n-ary Or rewrite accepted by the model is equivalent to the Or *)
Lemma beval_sneg env e : beval env (sneg e) = negb (beval env e).
Proof.
  destruct e; cbn [sneg]; try reflexivity.
  - now destruct b.
  - rewrite beval_not. now rewrite negb_involutive.
Qed.

Lemma beval_flat_and env : forall e, forallb (beval env) (flat_and e) = beval env e.
Proof.
  induction e as [x|i|a IH|l IH|l IH|l IH|c t e IHc IHt IHe|a1 a2 IH1 IH2] using bexp_ind2;
    cbn [flat_and forallb]; try apply andb_true_r.
  rewrite beval_and. induction IH as [|x r Hx _ IHr]; cbn [flat_map forallb]; [reflexivity|].
  now rewrite forallb_app, Hx, IHr.
Qed.

Lemma forallb_flat_and env l :
  forallb (beval env) (flat_map flat_and l) = forallb (beval env) l.
Proof.
  induction l as [|x r IH]; cbn [flat_map forallb]; [reflexivity|].
  now rewrite forallb_app, beval_flat_and, IH.
Qed.

Lemma bmem_in e l : bmem e l = true -> In e l.
Proof.
  unfold bmem. rewrite existsb_exists. intros (y & Hy & He). apply ceqb_eq in He. now subst.
Qed.

Lemma bsubset_forallb (f : bexp -> bool) a b : bsubset a b = true -> forallb f b = true -> forallb f a = true.
Proof.
  unfold bsubset. rewrite !forallb_forall. intros H Hb x Hx. apply Hb. apply bmem_in. now apply H.
Qed.

Lemma or_valid_sound env l e' : or_valid l e' = true -> beval env e' = beval env (BOr l).
Proof.
  destruct e' as [| |a| | | | |]; try discriminate. destruct a as [| | |m| | | |]; try discriminate.
  cbn [or_valid]. intros H. apply andb_true_iff in H as [H1 H2].
  rewrite beval_not, beval_and, beval_or.
  assert (Hm : forallb (beval env) m = forallb (beval env) (map sneg l)).
  { rewrite <- (forallb_flat_and env m), <- (forallb_flat_and env (map sneg l)).
    destruct (forallb (beval env) (flat_map flat_and (map sneg l))) eqn:Ea.
    - now apply (bsubset_forallb _ _ _ H2).
    - destruct (forallb (beval env) (flat_map flat_and m)) eqn:Eb; [|reflexivity].
      rewrite (bsubset_forallb _ _ _ H1 Eb) in Ea. discriminate. }
  rewrite Hm. clear. induction l as [|x r IH]; cbn [map forallb existsb]; [reflexivity|].
  rewrite beval_sneg, negb_andb, negb_involutive. now rewrite IH.
Qed.

Lemma or_lookup_sound env tbl e l e' : or_lookup tbl e l = Some e' ->
  beval env e' = beval env (BOr l) /\ In e' (map snd tbl).
Proof.
  unfold or_lookup. destruct (find _ tbl) as [p|] eqn:Ef; [|discriminate].
  destruct (or_valid l (snd p)) eqn:Ev; [|discriminate]. intros H. injection H as <-.
  split; [now apply or_valid_sound|]. apply find_some in Ef as [Hin _]. now apply in_map.
Qed.

(* ------------------------------------------------------------------ *)
(* Part 1: semantics of the model's gate lists *)
Definition gstep (g : cgate) (f : nat -> bool) : nat -> bool := fflip f (ctrls g) (tgt g).
Definition grun (gs : list cgate) (f : nat -> bool) : nat -> bool := fold_left (fun f g => gstep g f) gs f.

Lemma grun_app a b f : grun (a ++ b) f = grun b (grun a f).
Proof. unfold grun. apply fold_left_app. Qed.

Lemma grun_snoc a g f q : grun (a ++ [g]) f q = gstep g (grun a f) q.
Proof. now rewrite grun_app. Qed.

Definition kind_ok (k : gk) (qs : list nat) : Prop :=
  match k with
  | K1 BX => length qs = 1
  | KCX => length qs = 2
  | KMCX m => length qs = S m
  | _ => False
  end.
Definition gate_ok (nq : nat) (g : cgate) : Prop :=
  kind_ok (cg_kind g) (cg_qs g) /\ NoDup (cg_qs g) /\ Forall (fun q => q < nq) (cg_qs g).

Lemma cact_of_ok g : kind_ok (cg_kind g) (cg_qs g) -> cact_of (to_gate g) = CFlip (ctrls g) (tgt g).
Proof.
  unfold cact_of, to_gate, ctrls, tgt. cbn [gkind gqs]. destruct (cg_kind g) as [b| | | | |m|b m| |]; cbn [kind_ok]; try tauto.
  - destruct b; try tauto. intros H. cbn [x_controls]. now rewrite H.
  - intros H. cbn [x_controls]. now rewrite H.
  - intros H. cbn [x_controls]. rewrite H. now rewrite Nat.eqb_refl.
Qed.

Lemma fsim_grun gs : Forall (fun g => kind_ok (cg_kind g) (cg_qs g)) gs ->
  forall f, fsim f (map to_gate gs) = Some (grun gs f).
Proof.
  induction 1 as [|g r Hg _ IH]; intros f; cbn [map fsim]; [reflexivity|].
  rewrite (cact_of_ok g Hg). apply IH.
Qed.

Lemma all_classical_ok gs : Forall (fun g => kind_ok (cg_kind g) (cg_qs g)) gs ->
  all_classical (map to_gate gs) = true.
Proof.
  induction 1 as [|g r Hg _ IH]; cbn [map all_classical forallb]; [reflexivity|].
  rewrite (cact_of_ok g Hg). exact IH.
Qed.

Lemma tgt_in g : cg_qs g <> [] -> In (tgt g) (cg_qs g).
Proof.
  unfold tgt. intros H. destruct (exists_last H) as (l & a & ->). rewrite last_last. apply in_or_app. right. now left.
Qed.

Lemma kind_ok_nonempty k qs : kind_ok k qs -> qs <> [].
Proof. destruct k as [b| | | | |m|b m| |]; cbn; try tauto; try destruct b; try tauto; intros H ->; discriminate. Qed.

Lemma gate_ok_tgt nq g : gate_ok nq g -> tgt g < nq.
Proof.
  intros (Hk & _ & Hf). rewrite Forall_forall in Hf. apply Hf. apply tgt_in. eapply kind_ok_nonempty; eauto.
Qed.

Lemma gate_ok_tgt_ctrls nq g : gate_ok nq g -> ~ In (tgt g) (ctrls g).
Proof.
  intros (Hk & Hn & _). pose proof (kind_ok_nonempty _ _ Hk) as Hne.
  destruct (exists_last Hne) as (l & a & E). unfold tgt, ctrls. rewrite E in *.
  rewrite last_last, removelast_last. apply NoDup_remove_2 in Hn. now rewrite app_nil_r in Hn.
Qed.

Lemma gate_ok_ctrls_lt0 nq g c : gate_ok nq g -> In c (ctrls g) -> c < nq.
Proof.
  intros (_ & _ & Hf) Hc. rewrite Forall_forall in Hf. apply Hf. unfold ctrls in Hc.
  destruct (cg_qs g) as [|x l] eqn:E; [destruct Hc|].
  assert (Hne : x :: l <> []) by discriminate. destruct (exists_last Hne) as (l' & a & E').
  rewrite E' in *. rewrite removelast_last in Hc. apply in_or_app. now left.
Qed.

Lemma gate_ok_mono nq nq' g : nq <= nq' -> gate_ok nq g -> gate_ok nq' g.
Proof.
  intros Hle (H1 & H2 & H3). repeat split; auto. eapply Forall_impl; [|exact H3]. intros; cbn in *; lia.
Qed.

(* a gate list only changes its targets *)
Lemma grun_other gs : forall f q, (forall g, In g gs -> tgt g <> q) -> grun gs f q = f q.
Proof.
  induction gs as [|g r IH]; intros f q H; [reflexivity|].
  change (grun (g :: r) f q) with (grun r (gstep g f) q). rewrite IH by (intros g' Hg'; apply H; now right).
  unfold gstep, fflip. destruct (Nat.eqb_spec q (tgt g)) as [->|]; [|reflexivity].
  exfalso. apply (H g); [now left|reflexivity].
Qed.

Lemma grun_ext gs : forall f1 f2, (forall q, f1 q = f2 q) -> forall q, grun gs f1 q = grun gs f2 q.
Proof.
  induction gs as [|g r IH]; intros f1 f2 H q; [apply H|].
  change (grun r (gstep g f1) q = grun r (gstep g f2) q). apply IH. intros q'.
  unfold gstep, fflip. rewrite H, (forallb_ext_in f1 f2 _ H). now rewrite H.
Qed.

(* a self-inverse pair *)
Lemma forallb_upd_other (f : nat -> bool) v t cs : ~ In t cs ->
  forallb (fun q0 => if Nat.eqb q0 t then v else f q0) cs = forallb f cs.
Proof.
  induction cs as [|c cs IH]; intros Hn; [reflexivity|]. cbn [forallb].
  destruct (Nat.eqb_spec c t) as [->|]; [exfalso; apply Hn; now left|].
  rewrite IH; [reflexivity|]. intros Hc. apply Hn. now right.
Qed.

Lemma gstep_twice nq g f q : gate_ok nq g -> gstep g (gstep g f) q = f q.
Proof.
  intros Hok. pose proof (gate_ok_tgt_ctrls _ _ Hok) as Hn. unfold gstep, fflip.
  destruct (Nat.eqb_spec q (tgt g)) as [->|Hq]; [|reflexivity].
  rewrite Nat.eqb_refl. rewrite forallb_upd_other by exact Hn.
  now destruct (f (tgt g)), (forallb f (ctrls g)).
Qed.

(* remove_identities keeps the function of the circuit *)
Lemma list_nat_eqb_eq l m : list_nat_eqb l m = true -> l = m.
Proof.
  revert m; induction l as [|x l IH]; intros [|y m] H; cbn [list_nat_eqb] in H; try discriminate; [reflexivity|].
  apply andb_true_iff in H as [H1 H2]. apply Nat.eqb_eq in H1. subst. f_equal. now apply IH.
Qed.

Lemma rm_id_cons2 a b r : rm_id (a :: b :: r) = if cancels a b then rm_id r else a :: rm_id (b :: r).
Proof. reflexivity. Qed.

Lemma rm_id_sound nq : forall k gs, length gs <= k -> Forall (gate_ok nq) gs ->
  forall f q, grun (rm_id gs) f q = grun gs f q.
Proof.
  induction k as [|k IH]; intros gs Hl Hok f q.
  - destruct gs; [reflexivity|cbn in Hl; lia].
  - destruct gs as [|a [|b r]]; [reflexivity|reflexivity|].
    rewrite rm_id_cons2. inversion Hok as [|? ? Ha Hok1]; subst. inversion Hok1 as [|? ? Hb Hok2]; subst.
    cbn [length] in Hl. destruct (cancels a b) eqn:E.
    + rewrite IH by (auto; lia). unfold cancels in E. apply andb_true_iff in E as [_ E].
      apply list_nat_eqb_eq in E.
      change (grun (a :: b :: r) f q) with (grun r (gstep b (gstep a f)) q).
      apply grun_ext. intros q'.
      assert (Hs : gstep b (gstep a f) q' = gstep a (gstep a f) q').
      { unfold gstep, ctrls, tgt. now rewrite E. }
      rewrite Hs. symmetry. now apply (gstep_twice nq).
    + change (grun (a :: rm_id (b :: r)) f q) with (grun (rm_id (b :: r)) (gstep a f) q).
      rewrite IH by (auto; cbn [length]; lia). reflexivity.
Qed.

Lemma rm_id_incl : forall k gs, length gs <= k -> incl (rm_id gs) gs.
Proof.
  induction k as [|k IH]; intros gs Hl.
  - destruct gs; [intros x []|cbn in Hl; lia].
  - destruct gs as [|a [|b r]]; [intros x []|intros x H; exact H|].
    rewrite rm_id_cons2. cbn [length] in Hl. destruct (cancels a b).
    + intros x Hx. right. right. apply (IH r); [lia|exact Hx].
    + intros x [<-|Hx]; [now left|]. right. apply (IH (b :: r)); [cbn [length]; lia|exact Hx].
Qed.

(* ------------------------------------------------------------------ *)
(* Part 1b: replaying in reverse the gates that target a set U of qubits *)
Definition subU (U : list nat) (G : list cgate) : list cgate := filter (fun g => mem_nat (tgt g) U) G.

(* a control outside U of a gate targeting U is never targeted afterwards *)
Fixpoint sc (U : list nat) (G : list cgate) : Prop :=
  match G with
  | [] => True
  | g :: B => (In (tgt g) U -> forall c, In c (ctrls g) -> ~ In c U -> forall g', In g' B -> tgt g' <> c) /\ sc U B
  end.

(* a qubit that is targeted after having been used as a control belongs to F *)
Fixpoint wp (F : list nat) (G : list cgate) : Prop :=
  match G with
  | [] => True
  | g :: B => (forall c, In c (ctrls g) -> forall g', In g' B -> tgt g' = c -> In c F) /\ wp F B
  end.

Lemma fflip_other0 f cs t q : q <> t -> fflip f cs t q = f q.
Proof. intros H. unfold fflip. destruct (Nat.eqb_spec q t); [contradiction|reflexivity]. Qed.
Lemma fflip_tgt0 f cs t : fflip f cs t t = xorb (f t) (forallb f cs).
Proof. unfold fflip. now rewrite Nat.eqb_refl. Qed.

Lemma forallb_ext_on (f g : nat -> bool) l : (forall x, In x l -> f x = g x) -> forallb f l = forallb g l.
Proof.
  induction l as [|x r IH]; intros H; cbn [forallb]; [reflexivity|].
  rewrite (H x (or_introl eq_refl)), IH; [reflexivity|]. intros y Hy. apply H. now right.
Qed.

(* THE REPLAY LEMMA: after G followed by the reverse of its gates on U, the
   qubits of U are back to their initial values and the others are as after G *)
Lemma replay_restores U : forall G, sc U G -> (forall g, In g G -> ~ In (tgt g) (ctrls g)) ->
  forall f q, grun (G ++ rev (subU U G)) f q = if mem_nat q U then f q else grun G f q.
Proof.
  induction G as [|g G IH]; intros Hs Hok f q.
  - cbn. now destruct (mem_nat q U).
  - cbn [sc] in Hs. destruct Hs as [Hg Hs].
    assert (Hok' : forall g0, In g0 G -> ~ In (tgt g0) (ctrls g0)) by (intros g0 H0; apply Hok; now right).
    cbn [subU filter]. fold (subU U G). destruct (mem_nat (tgt g) U) eqn:Et.
    + apply mem_nat_in in Et. cbn [rev]. rewrite app_assoc.
      change ((g :: G) ++ rev (subU U G)) with (g :: (G ++ rev (subU U G))).
      rewrite grun_snoc. change (grun (g :: G ++ rev (subU U G)) f) with (grun (G ++ rev (subU U G)) (gstep g f)).
      set (f1 := gstep g f). set (h := grun (G ++ rev (subU U G)) f1).
      assert (Hh : forall x, h x = if mem_nat x U then f1 x else grun G f1 x) by (intros x; apply IH; assumption).
      unfold gstep at 1, fflip. destruct (Nat.eqb_spec q (tgt g)) as [->|Hq].
      * assert (E : mem_nat (tgt g) U = true) by now apply mem_nat_in. rewrite E.
        assert (Hc : forallb h (ctrls g) = forallb f (ctrls g)).
        { apply forallb_ext_on. intros c Hcin. rewrite Hh.
          assert (Hct : c <> tgt g) by (intros ->; apply (Hok g (or_introl eq_refl)); exact Hcin).
          destruct (mem_nat c U) eqn:Ec.
          - unfold f1, gstep. now apply fflip_other0.
          - apply mem_nat_false in Ec. rewrite grun_other by (intros g' Hg'; now apply (Hg Et c Hcin Ec g' Hg')).
            unfold f1, gstep. now apply fflip_other0. }
        rewrite Hc, Hh, E. unfold f1, gstep. rewrite fflip_tgt0.
        now destruct (f (tgt g)), (forallb f (ctrls g)).
      * rewrite Hh. destruct (mem_nat q U); [unfold f1, gstep; now apply fflip_other0|reflexivity].
    + change ((g :: G) ++ rev (subU U G)) with (g :: (G ++ rev (subU U G))).
      change (grun (g :: G ++ rev (subU U G)) f q) with (grun (G ++ rev (subU U G)) (gstep g f) q).
      rewrite IH by assumption. destruct (mem_nat q U) eqn:Eq; [|reflexivity].
      unfold gstep. apply fflip_other0. intros ->. congruence.
Qed.


Lemma wp_mono F F' G : (forall x, In x F -> In x F') -> wp F G -> wp F' G.
Proof.
  intros H. induction G as [|g B IH]; cbn [wp]; [auto|]. intros [H1 H2]. split; [|now apply IH].
  intros c Hc g' Hg' Ht. apply H. now apply (H1 c Hc g' Hg').
Qed.

Lemma wp_all_tgt F R : (forall g, In g R -> In (tgt g) F) -> wp F R.
Proof.
  induction R as [|g B IH]; intros H; cbn [wp]; [exact I|]. split.
  - intros c Hc g' Hg' <-. apply H. now right.
  - apply IH. intros g0 H0. apply H. now right.
Qed.

Lemma wp_app F G : forall R, wp F G -> wp F R ->
  (forall g', In g' R -> In (tgt g') F \/ forall g, In g G -> ~ In (tgt g') (ctrls g)) -> wp F (G ++ R).
Proof.
  induction G as [|g B IH]; intros R HG HR H; [exact HR|].
  cbn [wp app] in *. destruct HG as [H1 H2]. split.
  - intros c Hc g' Hg' Ht. apply in_app_or in Hg' as [Hg'|Hg']; [now apply (H1 c Hc g' Hg')|].
    destruct (H g' Hg') as [Hf|Hn]; [now rewrite <- Ht|]. exfalso. apply (Hn g (or_introl eq_refl)). now rewrite Ht.
  - apply IH; auto. intros g' Hg'. destruct (H g' Hg') as [?|Hn]; [now left|right]. intros g0 H0. apply Hn. now right.
Qed.

Inductive sublist {A} : list A -> list A -> Prop :=
| sub_nil : sublist [] []
| sub_skip x l m : sublist l m -> sublist l (x :: m)
| sub_keep x l m : sublist l m -> sublist (x :: l) (x :: m).

Lemma sublist_refl {A} (l : list A) : sublist l l.
Proof. induction l as [|x l IH]; [apply sub_nil|now apply sub_keep]. Qed.

Lemma sublist_In {A} (l m : list A) x : sublist l m -> In x l -> In x m.
Proof. induction 1 as [|y l m _ IH|y l m _ IH]; intros H; [exact H|right; now apply IH|destruct H as [->|H]; [now left|right; now apply IH]]. Qed.

Lemma wp_sublist F G' G : sublist G' G -> wp F G -> wp F G'.
Proof.
  induction 1 as [|g l m Hs IH|g l m Hs IH]; cbn [wp]; [auto|intros [_ H]; now apply IH|].
  intros [H1 H2]. split; [|now apply IH]. intros c Hc g' Hg' Ht. apply (H1 c Hc g'); [|exact Ht].
  now apply (sublist_In l m).
Qed.

Lemma rm_id_sublist : forall k gs, length gs <= k -> sublist (rm_id gs) gs.
Proof.
  induction k as [|k IH]; intros gs Hl.
  - destruct gs; [apply sub_nil|cbn in Hl; lia].
  - destruct gs as [|a [|b r]]; [apply sub_nil|apply sublist_refl|].
    rewrite rm_id_cons2. cbn [length] in Hl. destruct (cancels a b).
    + apply sub_skip, sub_skip. apply IH. lia.
    + apply sub_keep. apply IH. cbn [length]. lia.
Qed.

Lemma filter_rev {A} (f : A -> bool) l : filter f (rev l) = rev (filter f l).
Proof.
  induction l as [|x l IH]; [reflexivity|]. cbn [rev filter]. rewrite filter_app, IH. cbn [filter].
  destruct (f x); cbn [rev]; [reflexivity|now rewrite app_nil_r].
Qed.

Lemma wp_sc F U G : wp F G ->
  (forall g, In g G -> In (tgt g) U -> forall c, In c (ctrls g) -> In c F -> In c U) -> sc U G.
Proof.
  induction G as [|g B IH]; cbn [wp sc]; [auto|]. intros [H1 H2] Hcl. split.
  - intros Ht c Hc Hn g' Hg' E. apply Hn. apply (Hcl g (or_introl eq_refl) Ht c Hc). now apply (H1 c Hc g' Hg').
  - apply IH; [exact H2|]. intros g0 H0. apply Hcl. now right.
Qed.

(* ------------------------------------------------------------------ *)
(* Part 2: the invariant *)
Definition nopop (o : list oev) : bool :=
  forallb (fun ev => match ev with OPop _ => false | _ => true end) o.
Definition compound (e : bexp) : bool :=
  match e with BNot _ | BAnd _ | BOr _ | BXor _ => true | _ => false end.
Definition named (k : qname) : Prop := match k with NAnc _ => False | _ => True end.
Definition is_or (e : bexp) : bool := match e with BOr _ => true | _ => false end.
Definition nary_or (e : bexp) : bool := match e with BOr l => Nat.ltb 2 (length l) | _ => false end.

(* the expressions the for-all theorem covers (see Prop_C02_model.v) *)
Fixpoint ok_expr (e : bexp) : bool :=
  match e with
  | BSym _ => true
  | BNot a => ok_expr a
  | BAnd l => forallb ok_expr l
  | BOr l => if Nat.ltb 2 (length l) then true
             else match l with
                  | [e1; e2] => ok_expr e1 && ok_expr e2
                  | _ => false
                  end
  | BXor l => forallb ok_expr l && negb (match l with [] => true | _ => false end)
  | _ => false
  end.
Definition tbl_ok (tbl : list (bexp * bexp)) : bool := forallb (fun p => ok_expr (snd p)) tbl.

(* the qubit has never been used as a control *)
Definition nc (st : cst) (q : nat) : Prop := forall g, In g (st_gates st) -> ~ In q (ctrls g).

Section WithInput.
  Variable n : nat.                 (* argument bits *)
  Variable inp : nat -> bool.       (* one classical input *)
  Variable env : nat -> bool.       (* the value of every symbol on that input *)
  Variable isret : nat -> bool.

  Definition b0 (q : nat) : bool := if Nat.ltb q n then inp q else false.
  Definition V (st : cst) : nat -> bool := grun (st_gates st) b0.

  Record Inv (st : cst) : Prop := {
    i_n : n <= st_nq st;
    i_gates : Forall (gate_ok (st_nq st)) (st_gates st);
    i_comp : Forall (gate_ok (st_nq st)) (st_comp st);
    i_tgt : Forall (fun g => n <= tgt g) (st_gates st);
    i_ctgt : Forall (fun g => n <= tgt g) (st_comp st);
    i_qmap_lt : forall k q, In (k, q) (st_qmap st) -> q < st_nq st;
    i_sym : forall s q, In (NSym s, q) (st_qmap st) -> V st q = env s;
    i_true : forall q, In (NTrue, q) (st_qmap st) -> V st q = true;
    i_false : forall q, In (NFalse, q) (st_qmap st) -> V st q = false;
    i_named : forall k q, In (k, q) (st_qmap st) -> named k -> ~ In q (st_anc st);
    i_cache_lt : forall e q, In (e, q) (st_cache st) -> q < st_nq st;
    i_cache : forall e q, In (e, q) (st_cache st) -> V st q = beval env e;
    i_cache_inj : forall e1 e2 q, In (e1, q) (st_cache st) -> In (e2, q) (st_cache st) -> e1 = e2;
    i_cache_anc : forall e q, In (e, q) (st_cache st) -> compound e = true -> In q (st_anc st);
    i_cache_gate : forall e q, In (e, q) (st_cache st) -> In q (st_anc st) ->
              exists g, In g (st_comp st) /\ tgt g = q;
    i_anc_lt : forall q, In q (st_anc st) -> q < st_nq st;
    i_marked : forall q, In q (st_marked st) -> In q (st_anc st) /\ exists g, In g (st_comp st) /\ tgt g = q;
    i_zero : forall q, st_nq st <= q -> V st q = false;
    i_nopop : nopop (st_orc st) = true;
    (* bookkeeping of the inline uncompute (used for C03) *)
    i_free_anc : forall q, In q (st_free st) -> In q (st_anc st);
    i_free_cache : forall e q, In (e, q) (st_cache st) -> ~ In q (st_free st);
    i_free_marked : forall q, In q (st_marked st) -> ~ In q (st_free st);
    i_compf : st_comp st = filter (fun g => negb (mem_nat (tgt g) (st_free st))) (st_gates st);
    i_wp : wp (st_free st) (st_gates st);
    i_alive : forall g, In g (st_gates st) -> In (tgt g) (st_anc st) -> ~ In (tgt g) (st_free st) ->
              forall c, In c (ctrls g) -> ~ In c (st_free st);
    i_zfree : forall q, In q (st_free st) -> V st q = false }.

  Definition Priv (st : cst) (d : nat) : Prop :=
    (n <= d /\ d < st_nq st) /\ (forall k, named k -> ~ In (k, d) (st_qmap st)) /\ (forall e, ~ In (e, d) (st_cache st)).

  (* how a state evolves inside compile_expr; [d] is the only old qubit that may change *)
  Record Ext (d : option nat) (st st' : cst) : Prop := {
    x_nq : st_nq st <= st_nq st';
    x_frame : forall q, q < st_nq st -> d <> Some q -> V st' q = V st q;
    x_qmap : forall k q, In (k, q) (st_qmap st') -> In (k, q) (st_qmap st) \/ st_nq st <= q;
    x_cache : forall e q, In (e, q) (st_cache st') -> In (e, q) (st_cache st) \/ st_nq st <= q;
    x_comp : exists new, st_comp st' = st_comp st ++ new;
    x_anc_sub : forall q, In q (st_anc st) -> In q (st_anc st');
    x_anc_new : forall q, In q (st_anc st') -> In q (st_anc st) \/ st_nq st <= q;
    x_marked_lt : forall q, In q (st_marked st') -> In q (st_marked st) \/ q < st_nq st';
    x_marked_sub : forall q, In q (st_marked st) -> In q (st_marked st');
    x_free : st_free st' = st_free st }.

  Lemma Ext_refl d st : Ext d st st.
  Proof. constructor; auto. exists []. now rewrite app_nil_r. Qed.

  Lemma Ext_weaken d st st' : Ext None st st' -> Ext d st st'.
  Proof. intros [H1 H2 H3 H4 H5 H6 H7 H8 H9 H10]. constructor; auto. intros q Hq _. apply H2; [exact Hq|discriminate]. Qed.

  Lemma Ext_trans' d d' st1 st2 st3 : Ext d st1 st2 -> Ext d' st2 st3 ->
    (forall q, d' = Some q -> d = Some q \/ st_nq st1 <= q) -> Ext d st1 st3.
  Proof.
    intros [A1 A2 A3 A4 A5 A6 A7 A8 A9 A10] [B1 B2 B3 B4 B5 B6 B7 B8 B9 B10] Hd. constructor.
    - lia.
    - intros q Hq Hne. rewrite B2; [now apply A2|lia|]. intros E. destruct (Hd q E) as [?|?]; [contradiction|lia].
    - intros k q H. destruct (B3 k q H) as [H'|H']; [|right; lia]. apply A3, H'.
    - intros e q H. destruct (B4 e q H) as [H'|H']; [|right; lia]. apply A4, H'.
    - destruct A5 as [n1 E1], B5 as [n2 E2]. exists (n1 ++ n2). now rewrite E2, E1, app_assoc.
    - auto.
    - intros q H. destruct (B7 q H) as [H'|H']; [|right; lia]. apply A7, H'.
    - intros q H. destruct (B8 q H) as [H'|H']; [|now right]. destruct (A8 q H') as [?|?]; [now left|right; lia].
    - auto.
    - congruence.
  Qed.

  Lemma Ext_trans d st1 st2 st3 : Ext d st1 st2 -> Ext d st2 st3 -> Ext d st1 st3.
  Proof. intros A B. apply (Ext_trans' d d st1 st2 st3 A B). intros q E. now left. Qed.

  Lemma Priv_ext d d' st st' : Ext d' st st' -> Priv st d -> Priv st' d.
  Proof.
    intros X (H1 & H2 & H3). pose proof (x_nq _ _ _ X). split; [lia|split].
    - intros k Hk Hin. destruct (x_qmap _ _ _ X k d Hin) as [H'|H']; [now apply (H2 k)|lia].
    - intros e Hin. destruct (x_cache _ _ _ X e d Hin) as [H'|H']; [now apply (H3 e)|lia].
  Qed.

  Lemma V_snoc st st' g q : st_gates st' = st_gates st ++ [g] ->
    V st' q = fflip (V st) (ctrls g) (tgt g) q.
  Proof. intros E. unfold V. rewrite E. apply grun_snoc. Qed.

  Lemma V_same st st' : st_gates st' = st_gates st -> forall q, V st' q = V st q.
  Proof. intros E q. unfold V. now rewrite E. Qed.

  Lemma fflip_other f cs t q : q <> t -> fflip f cs t q = f q.
  Proof. intros H. unfold fflip. destruct (Nat.eqb_spec q t); [contradiction|reflexivity]. Qed.
  Lemma fflip_tgt f cs t : fflip f cs t t = xorb (f t) (forallb f cs).
  Proof. unfold fflip. now rewrite Nat.eqb_refl. Qed.

  (* ---- append ---- *)
  Lemma append_new_inv k qs st st' : append_new k qs st = Ok st' ->
    st' = mkst (st_gates st ++ [mkcg (st_next st) k qs]) (st_comp st ++ [mkcg (st_next st) k qs])
               (st_nq st) (st_qmap st) (st_anc st) (st_free st) (st_res st) (st_marked st) (st_cache st)
               (S (st_next st)) (st_orc st)
    /\ NoDup qs /\ Forall (fun q => q < st_nq st) qs.
  Proof.
    unfold append_new, append_obj. sts. cbn [cg_qs].
    destruct (forallb (fun x => Nat.ltb x (st_nq st)) qs && nodupb qs) eqn:E; [|discriminate].
    intros H. injection H as <-. apply andb_true_iff in E as [E1 E2]. split; [reflexivity|].
    split; [now apply nodupb_NoDup|]. apply Forall_forall. rewrite forallb_forall in E1.
    intros x Hx. apply Nat.ltb_lt. now apply E1.
  Qed.

  (* a gate whose target is not referred to by any name or cache entry *)
  Lemma Inv_gate st g st' :
    Inv st -> gate_ok (st_nq st) g -> n <= tgt g ->
    (forall k, named k -> ~ In (k, tgt g) (st_qmap st)) -> (forall e, ~ In (e, tgt g) (st_cache st)) ->
    ~ In (tgt g) (st_free st) -> nc st (tgt g) -> (forall c, In c (ctrls g) -> ~ In c (st_free st)) ->
    st' = mkst (st_gates st ++ [g]) (st_comp st ++ [g])
               (st_nq st) (st_qmap st) (st_anc st) (st_free st) (st_res st) (st_marked st) (st_cache st)
               (S (st_next st)) (st_orc st) ->
    Inv st'.
  Proof.
    intros I0 Hg Hn Hq Hc Hnf Hnc Hcf ->.
    assert (HV : forall q, q <> tgt g -> V (mkst (st_gates st ++ [g]) (st_comp st ++ [g])
               (st_nq st) (st_qmap st) (st_anc st) (st_free st) (st_res st) (st_marked st) (st_cache st)
               (S (st_next st)) (st_orc st)) q = V st q).
    { intros q Hne. rewrite (V_snoc st _ g) by reflexivity. now apply fflip_other. }
    destruct I0. constructor; sts; auto.
    - apply Forall_app. split; [assumption|]. constructor; [assumption|constructor].
    - apply Forall_app. split; [assumption|]. constructor; [assumption|constructor].
    - apply Forall_app. split; [assumption|]. constructor; [assumption|constructor].
    - apply Forall_app. split; [assumption|]. constructor; [assumption|constructor].
    - intros s q Hin. rewrite HV; [auto|]. intros ->. now apply (Hq (NSym s) I).
    - intros q Hin. rewrite HV; [auto|]. intros ->. now apply (Hq NTrue I).
    - intros q Hin. rewrite HV; [auto|]. intros ->. now apply (Hq NFalse I).
    - intros e q Hin. rewrite HV; [auto|]. intros ->. now apply (Hc e).
    - intros e q Hin Ha. destruct (i_cache_gate0 e q Hin Ha) as (g0 & Hg0 & Ht). exists g0. split; [|exact Ht].
      apply in_or_app. now left.
    - intros q Hin. destruct (i_marked0 q Hin) as (Ha & g0 & Hg0 & Ht). split; [exact Ha|]. exists g0. split; [|exact Ht].
      apply in_or_app. now left.
    - intros q Hle. rewrite HV; [auto|]. pose proof (gate_ok_tgt _ _ Hg). lia.
    - rewrite filter_app, <- i_compf0. cbn [filter]. apply mem_nat_false in Hnf. now rewrite Hnf.
    - apply wp_app; [assumption|cbn; split; [intros c _ g' []|exact I]|].
      intros g' [<-|[]]. right. exact Hnc.
    - intros g0 H0 Ha Hf c Hcin. apply in_app_or in H0 as [H0|[<-|[]]]; [eauto|now apply Hcf].
    - intros q Hin. rewrite HV; [auto|]. intros ->. contradiction.
  Qed.

  Lemma Ext_gate st g st' d :
    gate_ok (st_nq st) g -> d = Some (tgt g) ->
    st' = mkst (st_gates st ++ [g]) (st_comp st ++ [g])
               (st_nq st) (st_qmap st) (st_anc st) (st_free st) (st_res st) (st_marked st) (st_cache st)
               (S (st_next st)) (st_orc st) ->
    Ext d st st'.
  Proof.
    intros Hg Hd ->. constructor; sts; auto.
    - intros q Hq Hne. rewrite (V_snoc st _ g) by reflexivity. apply fflip_other. intros ->.
      now apply Hne.
    - now exists [g].
  Qed.

  (* ---- ExpQMap.__setitem__ ---- *)
  Lemma Inv_cache_set st e q :
    Inv st -> q < st_nq st -> V st q = beval env e ->
    (compound e = true -> In q (st_anc st)) ->
    (In q (st_anc st) -> exists g, In g (st_comp st) /\ tgt g = q) -> ~ In q (st_free st) ->
    Inv (upd_cache (cache_set e q) st).
  Proof.
    intros I Hq Hv Ha Hg Hnf. destruct I. constructor; sts; auto.
    - intros e' q' H. apply cache_set_in in H as [[-> ->]|(H & _)]; eauto.
    - intros e' q' H. change (V (upd_cache (cache_set e q) st) q') with (V st q').
      apply cache_set_in in H as [[-> ->]|(H & _)]; eauto.
    - intros e1 e2 q' H1 H2. apply cache_set_in in H1. apply cache_set_in in H2.
      destruct H1 as [[-> Hq1]|(H1 & N1 & M1)], H2 as [[-> Hq2]|(H2 & N2 & M2)]; try congruence; eauto.
    - intros e' q' H Hc. apply cache_set_in in H as [[-> ->]|(H & _)]; eauto.
    - intros e' q' H Hin. apply cache_set_in in H as [[-> ->]|(H & _)]; eauto.
    - intros e' q' H. apply cache_set_in in H as [[-> ->]|(H & _)]; eauto.
  Qed.

  Lemma Ext_cache_set d st e q : st_nq st <= q \/ In (e, q) (st_cache st) -> Ext d st (upd_cache (cache_set e q) st).
  Proof.
    intros Hq. constructor; sts; auto.
    - intros e' q' H. apply cache_set_in in H as [[-> ->]|(H & _)]; [|now left]. destruct Hq; [now right|now left].
    - exists []. now rewrite app_nil_r.
  Qed.

  (* ---- mark_ancilla ---- *)
  Lemma Inv_mark st w : Inv st -> (In w (st_anc st) -> exists g, In g (st_comp st) /\ tgt g = w) ->
    ~ In w (st_free st) -> Inv (mark_ancilla w st).
  Proof.
    intros I Hg Hnf. unfold mark_ancilla. destruct (mem_nat w (st_anc st)) eqn:E; [|exact I].
    apply mem_nat_in in E. destruct I. constructor; sts; auto.
    - intros q H. apply sadd_in in H as [->|H]; [split; auto|auto].
    - intros q H. apply sadd_in in H as [->|H]; auto.
  Qed.

  Lemma mark_fields w st :
    st_gates (mark_ancilla w st) = st_gates st /\ st_comp (mark_ancilla w st) = st_comp st /\
    st_nq (mark_ancilla w st) = st_nq st /\ st_qmap (mark_ancilla w st) = st_qmap st /\
    st_anc (mark_ancilla w st) = st_anc st /\ st_cache (mark_ancilla w st) = st_cache st /\
    st_orc (mark_ancilla w st) = st_orc st /\
    (forall q, In q (st_marked (mark_ancilla w st)) -> q = w /\ In w (st_anc st) \/ In q (st_marked st)) /\
    st_free (mark_ancilla w st) = st_free st /\
    (forall q, In q (st_marked st) -> In q (st_marked (mark_ancilla w st))) /\
    (In w (st_anc st) -> In w (st_marked (mark_ancilla w st))).
  Proof.
    unfold mark_ancilla. destruct (mem_nat w (st_anc st)) eqn:E; sts; repeat split; auto.
    - intros q H. apply sadd_in in H as [->|H]; [left; split; [reflexivity|now apply mem_nat_in]|now right].
    - intros q H. apply sadd_in. now right.
    - intros _. apply sadd_in. now left.
    - intros Ha. apply mem_nat_in in Ha. congruence.
  Qed.

  Lemma Ext_mark d st w : Inv st -> Ext d st (mark_ancilla w st).
  Proof.
    intros I. destruct (mark_fields w st) as (E1 & E2 & E3 & E4 & E5 & E6 & E7 & E8 & E9 & E10 & E11).
    constructor; rewrite ?E1, ?E2, ?E3, ?E4, ?E5, ?E6; auto.
    - intros q _ _. apply V_same. exact E1.
    - exists []. now rewrite app_nil_r.
    - intros q H. destruct (E8 q H) as [[-> Ha]|H']; [right; now apply (i_anc_lt st I)|now left].
  Qed.

  (* ---- get_free_ancilla when nothing is recycled ---- *)
  Lemma nopop_cons_pop q o : nopop (OPop q :: o) = false.
  Proof. reflexivity. Qed.

  Lemma get_free_ancilla_new st q st' : Inv st -> get_free_ancilla st = Ok (q, st') ->
    q = st_nq st /\
    st' = mkst (st_gates st) (st_comp st) (S (st_nq st))
               (qm_set (st_qmap st) (NAnc (length (st_anc st))) (st_nq st))
               (sadd (st_nq st) (st_anc st)) (st_free st) (st_res st) (st_marked st) (st_cache st)
               (st_next st) (st_orc st).
  Proof.
    intros I. unfold get_free_ancilla. destruct (sdiff (st_free st) (st_res st)) as [|a l].
    - unfold add_ancilla, add_qubit. sts. intros H. injection H as <- <-. split; reflexivity.
    - pose proof (i_nopop st I) as Hn. destruct (st_orc st) as [|[p|o] r]; try discriminate.
  Qed.

  Lemma Inv_new_anc st : Inv st ->
    Inv (mkst (st_gates st) (st_comp st) (S (st_nq st))
               (qm_set (st_qmap st) (NAnc (length (st_anc st))) (st_nq st))
               (sadd (st_nq st) (st_anc st)) (st_free st) (st_res st) (st_marked st) (st_cache st)
               (st_next st) (st_orc st)).
  Proof.
    intros I. destruct I. constructor; sts; auto.
    - eapply Forall_impl; [|exact i_gates0]. intros g. apply gate_ok_mono. lia.
    - eapply Forall_impl; [|exact i_comp0]. intros g. apply gate_ok_mono. lia.
    - intros k q H. apply qm_set_in in H as [[-> ->]|H]; [lia|]. apply i_qmap_lt0 in H. lia.
    - intros s q H. apply qm_set_in in H as [[E _]|H]; [discriminate|]. now apply i_sym0.
    - intros q H. apply qm_set_in in H as [[E _]|H]; [discriminate|]. now apply i_true0.
    - intros q H. apply qm_set_in in H as [[E _]|H]; [discriminate|]. now apply i_false0.
    - intros k q H Hn. apply qm_set_in in H as [[-> _]|H]; [destruct Hn|].
      intros Hin. apply sadd_in in Hin as [->|Hin]; [apply i_qmap_lt0 in H; lia|]. now apply (i_named0 k q).
    - intros e q H. apply i_cache_lt0 in H. lia.
    - intros e q H Hc. apply sadd_in. right. eauto.
    - intros e q H Hin. apply sadd_in in Hin as [->|Hin]; [apply i_cache_lt0 in H; lia|eauto].
    - intros q H. apply sadd_in in H as [->|H]; [lia|]. apply i_anc_lt0 in H. lia.
    - intros q H. destruct (i_marked0 q H) as (Ha & Hg). split; [|exact Hg]. apply sadd_in. now right.
    - intros q H. change (V st q = false). apply i_zero0. lia.
    - intros q H. apply sadd_in. right. eauto.
    - intros g Hg Ha Hf. apply i_alive0; auto. apply sadd_in in Ha as [E|Ha]; [|exact Ha].
      rewrite Forall_forall in i_gates0. pose proof (gate_ok_tgt _ _ (i_gates0 g Hg)). lia.
  Qed.

  Lemma Ext_new_anc d st : Inv st ->
    Ext d st (mkst (st_gates st) (st_comp st) (S (st_nq st))
               (qm_set (st_qmap st) (NAnc (length (st_anc st))) (st_nq st))
               (sadd (st_nq st) (st_anc st)) (st_free st) (st_res st) (st_marked st) (st_cache st)
               (st_next st) (st_orc st)).
  Proof.
    intros I. constructor; sts; auto.
    - intros k q H. apply qm_set_in in H as [[-> ->]|H]; [now right|now left].
    - exists []. now rewrite app_nil_r.
    - intros q H. apply sadd_in. now right.
    - intros q H. apply sadd_in in H as [->|H]; [now right|now left].
  Qed.

  (* a brand-new ancilla is private and zero *)
  Lemma new_anc_priv st : Inv st ->
    let st' := mkst (st_gates st) (st_comp st) (S (st_nq st))
               (qm_set (st_qmap st) (NAnc (length (st_anc st))) (st_nq st))
               (sadd (st_nq st) (st_anc st)) (st_free st) (st_res st) (st_marked st) (st_cache st)
               (st_next st) (st_orc st) in
    V st' (st_nq st) = false /\ In (st_nq st) (st_anc st') /\ (forall e, ~ In (e, st_nq st) (st_cache st')) /\
    ~ In (st_nq st) (st_marked st') /\
    (forall k, In (k, st_nq st) (st_qmap st') -> k = NAnc (length (st_anc st))).
  Proof.
    intros I st'. subst st'. sts. repeat split.
    - change (V st (st_nq st) = false). apply (i_zero st I). lia.
    - apply sadd_in. now left.
    - intros e H. apply (i_cache_lt st I) in H. lia.
    - intros H. apply (i_marked st I) in H as [H _]. apply (i_anc_lt st I) in H. lia.
    - intros k H. apply qm_set_in in H as [[-> _]|H]; [reflexivity|]. apply (i_qmap_lt st I) in H. lia.
  Qed.

  (* ---- take_order ---- *)
  Lemma take_order_inv erets st l st' : take_order erets st = Ok (l, st') ->
    st' = set_orc (tl (st_orc st)) st /\ NoDup l /\ (forall x, In x l <-> In x erets).
  Proof.
    unfold take_order. destruct (st_orc st) as [|[p|o] r]; try discriminate.
    destruct (enumerates o erets) eqn:E; [|discriminate]. intros H. injection H as <- <-.
    unfold enumerates in E. apply andb_true_iff in E as [E E3]. apply andb_true_iff in E as [E1 E2].
    split; [reflexivity|]. split; [now apply nodupb_NoDup|].
    rewrite forallb_forall in E2, E3. intros x. split; intros H.
    - apply mem_nat_in. now apply E2.
    - apply mem_nat_in. now apply E3.
  Qed.

  Lemma nopop_tl o : nopop o = true -> nopop (tl o) = true.
  Proof. destruct o as [|a r]; [auto|]. cbn [nopop forallb tl]. intros H. apply andb_true_iff in H. tauto. Qed.

  Lemma Inv_set_orc st : Inv st -> Inv (set_orc (tl (st_orc st)) st).
  Proof. intros I. destruct I. constructor; sts; auto. now apply nopop_tl. Qed.

  Lemma Ext_set_orc d st o : Ext d st (set_orc o st).
  Proof. constructor; sts; auto. exists []. now rewrite app_nil_r. Qed.

  (* ------------------------------------------------------------------ *)
  (* Part 3: compile_expr *)
  Variable tbl : list (bexp * bexp).
  Hypothesis Htbl : tbl_ok tbl = true.

  Definition res_class (e : bexp) (r : nat) (st st' : cst) : Prop :=
    match e with
    | BSym s => In (NSym s, r) (st_qmap st')
    | _ => In r (st_anc st') /\ (st_nq st <= r \/ exists k, In (k, r) (st_cache st))
    end.

  Definition has_gate (st : cst) (r : nat) : Prop := exists g, In g (st_comp st) /\ tgt g = r.

  (* the contract of compile_expr(qc, e, dest):
     - the invariant (in particular CACHE SOUNDNESS, i_cache) is preserved,
     - no qubit that existed before changes, except the destination,
     - with a destination d: returns d, which holds old(d) xor value(e);
       without: returns a qubit holding value(e),
     - every ancilla created on the way is the result or has been marked,
     - private qubits are not used as controls, a fresh result has not been one *)
  Definition post (e : bexp) (dest : option nat) (st : cst) (r : nat) (st' : cst) : Prop :=
    Inv st' /\ Ext dest st st' /\ r < st_nq st' /\
    (In r (st_marked st') -> In r (st_marked st)) /\
    (forall q, Priv st q -> In q (st_marked st') -> In q (st_marked st)) /\
    (compound e = true -> has_gate st' r) /\
    (forall q, In q (st_anc st') -> In q (st_anc st) \/ q = r \/ In q (st_marked st')) /\
    (forall q, Priv st q -> nc st q -> nc st' q) /\
    (dest = None -> st_nq st <= r -> nc st' r) /\
    match dest with
    | Some d => r = d /\ V st' d = xorb (V st d) (beval env e)
    | None => V st' r = beval env e /\ res_class e r st st'
    end.

  Definition pre (e : bexp) (dest : option nat) (st : cst) : Prop :=
    ok_expr e = true /\ Inv st /\
    (forall d, dest = Some d -> Priv st d /\ compound e = true /\ nc st d /\ ~ In d (st_free st)).

  Definition rec_spec (rec : bexp -> option nat -> cst -> res (nat * cst)) : Prop :=
    forall e dest st r st', pre e dest st -> rec e dest st = Ok (r, st') -> post e dest st r st'.

  Lemma has_gate_ext d st st' r : Ext d st st' -> has_gate st r -> has_gate st' r.
  Proof.
    intros X (g & Hg & Ht). destruct (x_comp _ _ _ X) as [new E]. exists g. split; [|exact Ht].
    rewrite E. apply in_or_app. now left.
  Qed.

  Lemma nc_same st st' q : st_gates st' = st_gates st -> nc st q -> nc st' q.
  Proof. unfold nc. intros E H. now rewrite E. Qed.

  Lemma gate_ok_ctrls_lt nq g c : gate_ok nq g -> In c (ctrls g) -> c < nq.
  Proof.
    intros (_ & _ & Hf) Hc. rewrite Forall_forall in Hf. apply Hf. unfold ctrls in Hc.
    destruct (cg_qs g) as [|x l] eqn:E; [destruct Hc|].
    assert (Hne : x :: l <> []) by discriminate. destruct (exists_last Hne) as (l' & a & E').
    rewrite E' in *. rewrite removelast_last in Hc. apply in_or_app. now left.
  Qed.

  Lemma nc_fresh st q : Inv st -> st_nq st <= q -> nc st q.
  Proof.
    intros I Hq g Hg Hc. pose proof (i_gates st I) as Hf. rewrite Forall_forall in Hf.
    pose proof (gate_ok_ctrls_lt _ _ _ (Hf g Hg) Hc). lia.
  Qed.

  (* a qubit returned without destination is never one of the private accumulators *)
  Lemma class_not_priv e st st' r q : ok_expr e = true -> Inv st' -> Ext None st st' ->
    res_class e r st st' -> Priv st q -> r <> q.
  Proof.
    intros Hok I X Hc P ->. pose proof (Priv_ext _ _ _ _ X P) as (P1 & P2 & P3).
    destruct P as (Q1 & Q2 & Q3).
    destruct e; cbn [ok_expr] in Hok; try discriminate; cbn [res_class] in Hc.
    - now apply (P2 (NSym i) Logic.I).
    - destruct Hc as (_ & [H|[k H]]); [lia|now apply (Q3 k)].
    - destruct Hc as (_ & [H|[k H]]); [lia|now apply (Q3 k)].
    - destruct Hc as (_ & [H|[k H]]); [lia|now apply (Q3 k)].
    - destruct Hc as (_ & [H|[k H]]); [lia|now apply (Q3 k)].
  Qed.

  (* nor a qubit that has been uncomputed *)
  Lemma class_not_free e st st' r : ok_expr e = true -> Inv st -> Inv st' -> Ext None st st' ->
    res_class e r st st' -> ~ In r (st_free st').
  Proof.
    intros Hok I I' X Hc Hf. rewrite (x_free _ _ _ X) in Hf.
    pose proof (i_free_anc st I r Hf) as Ha.
    destruct e; cbn [ok_expr] in Hok; try discriminate; cbn [res_class] in Hc.
    - apply (i_named st' I' (NSym i) r Hc Logic.I). now apply (x_anc_sub _ _ _ X).
    - destruct Hc as (_ & [H|[k H]]); [apply (i_anc_lt st I) in Ha; lia|now apply (i_free_cache st I k r H)].
    - destruct Hc as (_ & [H|[k H]]); [apply (i_anc_lt st I) in Ha; lia|now apply (i_free_cache st I k r H)].
    - destruct Hc as (_ & [H|[k H]]); [apply (i_anc_lt st I) in Ha; lia|now apply (i_free_cache st I k r H)].
    - destruct Hc as (_ & [H|[k H]]); [apply (i_anc_lt st I) in Ha; lia|now apply (i_free_cache st I k r H)].
  Qed.

  Lemma class_gate e st st' r : ok_expr e = true -> Inv st' -> res_class e r st st' ->
    (compound e = true -> has_gate st' r) -> In r (st_anc st') -> has_gate st' r.
  Proof.
    intros Hok I Hc Hg Ha. destruct e; cbn [ok_expr] in Hok; try discriminate; try (apply Hg; reflexivity).
    cbn [res_class] in Hc. exfalso. now apply (i_named st' I (NSym i) r Hc Logic.I).
  Qed.

  (* ---- marking a list of qubits ---- *)
  Lemma marks_spec l : forall st, Inv st ->
    (forall w, In w l -> (In w (st_anc st) -> has_gate st w) /\ ~ In w (st_free st)) ->
    let st' := fold_left (fun S q => mark_ancilla q S) l st in
    Inv st' /\ Ext None st st' /\ st_gates st' = st_gates st /\ st_nq st' = st_nq st /\
    st_anc st' = st_anc st /\ st_cache st' = st_cache st /\ st_qmap st' = st_qmap st /\ st_comp st' = st_comp st /\
    (forall q, In q (st_marked st') -> In q (st_marked st) \/ In q l) /\
    (forall w, In w l -> In w (st_anc st) -> In w (st_marked st')).
  Proof.
    induction l as [|w l IH]; intros st I Hg; cbn [fold_left].
    - split; [exact I|]. split; [apply Ext_refl|]. repeat split; auto. intros w [].
    - destruct (mark_fields w st) as (E1 & E2 & E3 & E4 & E5 & E6 & E7 & E8 & E9 & E10 & E11).
      assert (I1 : Inv (mark_ancilla w st)) by (apply Inv_mark; [exact I|apply Hg; now left|apply Hg; now left]).
      destruct (IH (mark_ancilla w st) I1) as (J & X & F1 & F2 & F3 & F4 & F5 & F6 & F7 & F8).
      { intros w' Hw'. rewrite E5, E9. destruct (Hg w' (or_intror Hw')) as [A B]. split; [|exact B].
        intros Ha. destruct (A Ha) as (g & Hg1 & Hg2). exists g. now rewrite E2. }
      split; [exact J|]. split; [eapply Ext_trans; [apply Ext_mark; exact I|exact X]|].
      rewrite F1, F2, F3, F4, F5, F6. repeat split; auto.
      + intros q H. destruct (F7 q H) as [H'|H']; [|right; now right].
        destruct (E8 q H') as [[-> _]|H'']; [right; now left|now left].
      + intros w' [<-|Hw'] Ha; [apply (x_marked_sub _ _ _ X); now apply E11|]. apply F8; [exact Hw'|now rewrite E5].
  Qed.

  Lemma Forall2_imp {A B} (R1 R2 : A -> B -> Prop) l m :
    (forall a b, R1 a b -> R2 a b) -> Forall2 R1 l m -> Forall2 R2 l m.
  Proof. intros H. induction 1; constructor; auto. Qed.

  Lemma Forall2_in_r {A B} (R : A -> B -> Prop) l m b :
    Forall2 R l m -> In b m -> exists a, In a l /\ R a b.
  Proof.
    induction 1 as [|a0 b0 l m H _ IH]; intros Hin; [destruct Hin|].
    destruct Hin as [<-|Hin]; [exists a0; split; [now left|exact H]|].
    destruct (IH Hin) as (a & Ha & Hr). exists a. split; [now right|exact Hr].
  Qed.

  Definition opfacts (st0 st' : cst) (e : bexp) (r : nat) : Prop :=
    r < st_nq st' /\ V st' r = beval env e /\ (In r (st_anc st') -> has_gate st' r) /\
    (forall q, Priv st0 q -> r <> q) /\ ~ In r (st_free st').

  Section WithRec.
  Variable rec : bexp -> option nat -> cst -> res (nat * cst).
  Hypothesis Hrec : rec_spec rec.

  Lemma map_rec_spec l : forall st erets st', forallb ok_expr l = true -> Inv st ->
    map_rec rec l st = Ok (erets, st') ->
    Inv st' /\ Ext None st st' /\ Forall2 (opfacts st st') l erets /\
    (forall q, Priv st q -> In q (st_marked st') -> In q (st_marked st)) /\
    (forall q, In q (st_anc st') -> In q (st_anc st) \/ In q erets \/ In q (st_marked st')) /\
    (forall q, Priv st q -> nc st q -> nc st' q).
  Proof.
    induction l as [|e l IH]; intros st erets st' Hok I; cbn [map_rec].
    - intros H. injection H as <- <-. split; [exact I|]. split; [apply Ext_refl|]. split; [constructor|].
      split; [auto|]. split; [auto|auto].
    - cbn [forallb] in Hok. apply andb_true_iff in Hok as [Hoke Hokl].
      destruct (rec e None st) as [[q st1]|c] eqn:E1; cbn [bind]; [|discriminate].
      destruct (map_rec rec l st1) as [[qs st2]|c] eqn:E2; cbn [bind]; [|discriminate].
      intros H. injection H as <- <-.
      assert (Hpre : pre e None st).
      { split; [exact Hoke|]. split; [exact I|intros d Hd; discriminate]. }
      destruct (Hrec e None st q st1 Hpre E1) as (I1 & X1 & Hlt & M & P & G & AM1 & PN1 & NF1 & Hv & Hc).
      destruct (IH st1 qs st2 Hokl I1 E2) as (I2 & X2 & F & P2 & AM2 & PN2).
      split; [exact I2|]. split; [eapply Ext_trans; eassumption|]. split; [|split; [|split]].
      + constructor.
        * pose proof (x_nq _ _ _ X2). split; [lia|]. split; [|split; [|split]].
          -- rewrite (x_frame _ _ _ X2) by (try exact Hlt; discriminate). exact Hv.
          -- intros Ha. destruct (x_anc_new _ _ _ X2 q Ha) as [Ha'|Ha']; [|lia].
             eapply has_gate_ext; [exact X2|]. exact (class_gate e st st1 q Hoke I1 Hc G Ha').
          -- intros q' Pq. exact (class_not_priv e st st1 q q' Hoke I1 X1 Hc Pq).
          -- rewrite (x_free _ _ _ X2). exact (class_not_free e st st1 q Hoke I I1 X1 Hc).
        * eapply Forall2_imp; [|exact F]. intros a b (A1 & A2 & A3 & A4 & A5). repeat split; auto.
          intros q' Pq. apply A4. eapply Priv_ext; eauto.
      + intros q' Pq Hm. apply P; [exact Pq|]. apply P2; [|exact Hm]. eapply Priv_ext; eauto.
      + intros q' Ha. destruct (AM2 q' Ha) as [Ha1|[Hq|Hm]]; [|right; left; now right|right; now right].
        destruct (AM1 q' Ha1) as [?|[->|Hm]]; [now left|right; left; now left|right; right].
        now apply (x_marked_sub _ _ _ X2).
      + intros q' Pq Hn. apply PN2; [eapply Priv_ext; eauto|now apply PN1].
  Qed.

  Lemma forallb_Forall2 {A B} (f : B -> bool) (g : A -> bool) l m :
    Forall2 (fun a b => f b = g a) l m -> forallb f m = forallb g l.
  Proof. induction 1 as [|a b l m H _ IH]; cbn [forallb]; [reflexivity|now rewrite H, IH]. Qed.

  Lemma forallb_same_set (f : nat -> bool) l m : (forall x, In x l <-> In x m) -> forallb f l = forallb f m.
  Proof.
    intros H. destruct (forallb f m) eqn:E.
    - rewrite forallb_forall in *. intros x Hx. apply E. now apply H.
    - destruct (forallb f l) eqn:E'; [|reflexivity]. rewrite forallb_forall in E'.
      assert (forallb f m = true) by (apply forallb_forall; intros x Hx; apply E'; now apply H). congruence.
  Qed.

  (* what is known about the destination after `dest or get_free_ancilla()` *)
  Definition dest_facts (dest : option nat) (st : cst) (d : nat) (st' : cst) : Prop :=
    match dest with
    | Some d0 => d = d0 /\ st' = st
    | None => d = st_nq st /\ In d (st_anc st') /\ V st' d = false /\ ~ In d (st_marked st') /\
              nc st' d /\ ~ In d (st_free st') /\ (forall q, In q (st_anc st') -> q = d \/ In q (st_anc st))
    end.

  Lemma get_dest_spec dest st d st' : Inv st -> (forall d0, dest = Some d0 -> Priv st d0) ->
    get_dest dest st = Ok (d, st') ->
    Inv st' /\ Ext dest st st' /\ st_gates st' = st_gates st /\ st_comp st' = st_comp st /\
    st_cache st' = st_cache st /\ st_marked st' = st_marked st /\ st_nq st <= st_nq st' /\
    (n <= d /\ d < st_nq st') /\ (forall k, named k -> ~ In (k, d) (st_qmap st')) /\ (forall e, ~ In (e, d) (st_cache st')) /\
    dest_facts dest st d st'.
  Proof.
    intros I HP. destruct dest as [d0|]; cbn [get_dest dest_facts].
    - intros H. injection H as <- <-. destruct (HP d0 eq_refl) as ([P0 P1] & P2 & P3).
      split; [exact I|]. split; [apply Ext_refl|]. repeat split; auto.
    - intros H. apply (get_free_ancilla_new st d st' I) in H as [-> ->].
      destruct (new_anc_priv st I) as (A1 & A2 & A3 & A4 & A5).
      split; [now apply Inv_new_anc|]. split; [now apply Ext_new_anc|]. sts.
      split; [reflexivity|]. split; [reflexivity|]. split; [reflexivity|]. split; [reflexivity|]. split; [lia|].
      split; [split; [exact (i_n st I)|lia]|]. split; [|split; [exact A3|]].
      + intros k Hk Hin. apply A5 in Hin. subst k. exact Hk.
      + split; [reflexivity|]. split; [exact A2|]. split; [exact A1|]. split; [exact A4|]. split; [|split].
        * apply (nc_same st); [reflexivity|]. apply nc_fresh; [exact I|lia].
        * intros Hf. apply (i_free_anc st I) in Hf. apply (i_anc_lt st I) in Hf. lia.
        * intros q Hq. apply sadd_in in Hq. exact Hq.
  Qed.

  (* a gate on a qubit that no name and no cache entry refers to *)
  Lemma priv_gate k qs st st' d :
    Inv st -> kind_ok k qs -> append_new k qs st = Ok st' -> last qs 0 = d ->
    (forall k0, named k0 -> ~ In (k0, d) (st_qmap st)) -> (forall e, ~ In (e, d) (st_cache st)) -> n <= d ->
    ~ In d (st_free st) -> nc st d -> (forall c, In c (removelast qs) -> ~ In c (st_free st)) ->
    Inv st' /\ Ext (Some d) st st' /\ V st' d = xorb (V st d) (forallb (V st) (removelast qs)) /\
    has_gate st' d /\ st_nq st' = st_nq st /\ st_qmap st' = st_qmap st /\ st_anc st' = st_anc st /\
    st_cache st' = st_cache st /\ st_marked st' = st_marked st /\ st_orc st' = st_orc st /\
    NoDup qs /\ (forall q, nc st q -> ~ In q (removelast qs) -> nc st' q).
  Proof.
    intros I Hk Ha Hd Hq Hc Hnd0 Hnf Hnc Hcf. apply append_new_inv in Ha as (E & Hnd & Hlt).
    set (g := mkcg (st_next st) k qs) in *.
    assert (Hg : gate_ok (st_nq st) g) by (repeat split; assumption).
    assert (Ht : tgt g = d) by exact Hd.
    split; [eapply (Inv_gate st g); eauto; rewrite ?Ht; assumption|].
    split; [eapply (Ext_gate st g); eauto; now rewrite Ht|].
    split.
    { rewrite (V_snoc st st' g) by (rewrite E; reflexivity). rewrite <- Ht. apply fflip_tgt. }
    split.
    { exists g. split; [|exact Ht]. rewrite E. sts. apply in_or_app. right. now left. }
    rewrite E. sts. repeat split; auto.
    intros q Hq0 Hn0 g0 H0. apply in_app_or in H0 as [H0|[<-|[]]]; [now apply Hq0|exact Hn0].
  Qed.

  Lemma Ext_then_cache_set x st st5 e d : Ext x st st5 -> st_nq st <= d \/ In (e, d) (st_cache st) ->
    Ext x st (upd_cache (cache_set e d) st5).
  Proof.
    intros [A1 A2 A3 A4 A5 A6 A7 A8 A9 A10] Hd. constructor; sts; auto.
    intros e' q' H. apply cache_set_in in H as [[-> ->]|(H & _)]; [|now apply A4]. destruct Hd; [now right|now left].
  Qed.

  Lemma last_snoc (l : list nat) d : last (l ++ [d]) 0 = d.
  Proof. apply last_last. Qed.

  (* common end of compile_and / compile_or / compile_not / compile_xor: mark the
     operands, record the expression when the destination was a fresh qubit *)
  Lemma finish_spec e dest st st1 d st2 st4 ms :
    compound e = true ->
    Inv st1 -> Ext None st st1 ->
    (forall q, Priv st q -> In q (st_marked st1) -> In q (st_marked st)) ->
    (forall d0, dest = Some d0 -> Priv st d0) ->
    Ext dest st1 st2 -> st_marked st2 = st_marked st1 -> d < st_nq st2 ->
    dest_facts dest st1 d st2 ->
    Inv st4 -> Ext (Some d) st2 st4 -> V st4 d = xorb (V st1 d) (beval env e) -> has_gate st4 d ->
    d < st_nq st4 ->
    (In d (st_marked st4) -> In d (st_marked st2)) ->
    (forall q, Priv st q -> In q (st_marked st4) -> In q (st_marked st2)) ->
    (forall q, In q (st_anc st4) -> In q (st_anc st) \/ q = d \/ In q ms \/ In q (st_marked st4)) ->
    (forall q, Priv st q -> nc st q -> nc st4 q) -> nc st4 d ->
    (forall w, In w ms -> (In w (st_anc st4) -> has_gate st4 w) /\ (forall q, Priv st q -> w <> q) /\ w <> d /\
                          ~ In w (st_free st4)) ->
    let st5 := fold_left (fun S q => mark_ancilla q S) ms st4 in
    post e dest st d (if is_none dest then upd_cache (cache_set e d) st5 else st5).
  Proof.
    intros Hc I1 X1 P1 HP X2 M2 D2 T2 I4 X4 Hval G4 N4 M4 M4b AM4 PN4 NC4 Hms st5.
    assert (Hg4 : forall w, In w ms -> (In w (st_anc st4) -> has_gate st4 w) /\ ~ In w (st_free st4)).
    { intros w Hw. destruct (Hms w Hw) as (A & _ & _ & B). now split. }
    destruct (marks_spec ms st4 I4 Hg4) as (I5 & X5 & G5 & N5 & A5 & K5 & Q5 & C5 & M5 & MK5).
    fold st5 in I5, X5, G5, N5, A5, K5, Q5, C5, M5, MK5.
    assert (X14 : Ext dest st st4).
    { eapply (Ext_trans' dest (Some d)); [|exact X4|].
      - eapply Ext_trans; [apply Ext_weaken; exact X1|exact X2].
      - intros q Hq. injection Hq as <-. destruct dest as [d0|]; [left; now destruct T2 as [-> _]|right].
        destruct T2 as [-> _]. apply (x_nq _ _ _ X1). }
    assert (X15 : Ext dest st st5) by (eapply Ext_trans; [exact X14|apply Ext_weaken; exact X5]).
    assert (Hd5 : d < st_nq st5) by (rewrite N5; exact N4).
    assert (HM : In d (st_marked st5) -> In d (st_marked st)).
    { intros Hm. destruct (M5 d Hm) as [Hm'|Hm']; [|exfalso; now apply (proj1 (proj2 (proj2 (Hms d Hm'))))].
      apply M4 in Hm'. destruct dest as [d0|].
      - destruct T2 as [-> ->]. apply P1; [now apply HP|exact Hm'].
      - destruct T2 as (_ & _ & _ & Hn & _). contradiction. }
    assert (HPm : forall q, Priv st q -> In q (st_marked st5) -> In q (st_marked st)).
    { intros q Pq Hm. destruct (M5 q Hm) as [Hm'|Hm'].
      - apply (M4b q Pq) in Hm'. rewrite M2 in Hm'. now apply P1.
      - exfalso. now apply (proj1 (proj2 (Hms q Hm')) q Pq). }
    assert (G5' : has_gate st5 d) by (destruct G4 as (g & Hg1 & Hg2); exists g; now rewrite C5).
    assert (HAM : forall q, In q (st_anc st5) -> In q (st_anc st) \/ q = d \/ In q (st_marked st5)).
    { intros q Ha. rewrite A5 in Ha. destruct (AM4 q Ha) as [?|[?|[Hq|Hq]]]; [now left|right; now left| |].
      - right. right. now apply MK5.
      - right. right. now apply (x_marked_sub _ _ _ X5). }
    assert (HPN : forall q, Priv st q -> nc st q -> nc st5 q).
    { intros q Pq Hn. apply (nc_same st4); [exact G5|]. now apply PN4. }
    assert (HNC : nc st5 d) by (apply (nc_same st4); [exact G5|exact NC4]).
    destruct dest as [d0|]; cbn [is_none].
    - destruct T2 as [-> ->]. unfold post.
      split; [exact I5|]. split; [exact X15|]. split; [exact Hd5|]. split; [exact HM|]. split; [exact HPm|].
      split; [intros _; exact G5'|]. split; [exact HAM|]. split; [exact HPN|]. split; [discriminate|].
      split; [reflexivity|].
      rewrite (V_same st4 st5 G5), Hval. f_equal. apply (x_frame _ _ _ X1); [now apply HP|discriminate].
    - destruct T2 as (-> & Ha2 & Hz & Hnm & Hnc2 & Hnf2 & Han2).
      assert (Hv5 : V st5 (st_nq st1) = beval env e).
      { rewrite (V_same st4 st5 G5), Hval. rewrite (i_zero st1 I1) by lia. now destruct (beval env e). }
      assert (Ha5 : In (st_nq st1) (st_anc st5)).
      { rewrite A5. apply (x_anc_sub _ _ _ X4). exact Ha2. }
      assert (Hf5 : ~ In (st_nq st1) (st_free st5)).
      { rewrite (x_free _ _ _ X5), (x_free _ _ _ X4). exact Hnf2. }
      unfold post. split; [apply Inv_cache_set; auto|].
      split; [apply Ext_then_cache_set; [exact X15|left; apply (x_nq _ _ _ X1)]|].
      sts. split; [exact Hd5|]. split; [exact HM|]. split; [exact HPm|]. split; [intros _; exact G5'|].
      split; [exact HAM|]. split; [exact HPN|]. split; [intros _ _; exact HNC|].
      split; [exact Hv5|].
      assert (Hcl : In (st_nq st1) (st_anc st5) /\ (st_nq st <= st_nq st1 \/ exists k, In (k, st_nq st1) (st_cache st))).
      { split; [exact Ha5|]. left; apply (x_nq _ _ _ X1). }
      destruct e; try discriminate; exact Hcl.
  Qed.

  Lemma c_and_spec e args dest st r st' : e = BAnd args -> pre e dest st ->
    c_and rec e args dest st = Ok (r, st') -> post e dest st r st'.
  Proof.
    intros -> (Hok & I & HP) H. cbn [ok_expr] in Hok. unfold c_and in H.
    destruct (map_rec rec args st) as [[erets st1]|c] eqn:E1; cbn [bind] in H; [|discriminate].
    destruct (map_rec_spec args st erets st1 Hok I E1) as (I1 & X1 & F & P1 & AM1 & PN1).
    destruct (get_dest dest st1) as [[d st2]|c] eqn:E2; cbn [bind] in H; [|discriminate].
    assert (HP0 : forall d0, dest = Some d0 -> Priv st d0) by (intros d0 Hd0; now apply HP).
    assert (HP1 : forall d0, dest = Some d0 -> Priv st1 d0).
    { intros d0 Hd0. eapply Priv_ext; [exact X1|]. now apply HP. }
    destruct (get_dest_spec dest st1 d st2 I1 HP1 E2) as (I2 & X2 & Gt2 & C2 & K2 & M2 & Nq2 & D2 & Q2 & R2 & T2).
    assert (Hnin : ~ In d erets).
    { intros Hin. destruct (Forall2_in_r _ _ _ _ F Hin) as (a & _ & (A1 & _ & _ & A4 & _)).
      destruct dest as [d0|]; cbn [dest_facts] in T2.
      - destruct T2 as [-> ->]. apply (A4 d0); [now apply HP|reflexivity].
      - destruct T2 as [-> _]. lia. }
    assert (Hm : mem_nat d erets = false) by now apply mem_nat_false. rewrite Hm in H.
    destruct (take_order erets st2) as [[l st3]|c] eqn:E3; cbn [bind] in H; [|discriminate].
    apply take_order_inv in E3 as (-> & Hnd & Hset).
    set (st3 := set_orc (tl (st_orc st2)) st2) in *.
    assert (I3 : Inv st3) by now apply Inv_set_orc.
    destruct (g_mcx l d st3) as [st4|c] eqn:E4; cbn [bind] in H; [|discriminate].
    assert (Hd3 : ~ In d (st_free st3) /\ nc st3 d).
    { change (st_free st3) with (st_free st2). destruct dest as [d0|]; cbn [dest_facts] in T2.
      - destruct T2 as [-> ->]. destruct (HP d0 eq_refl) as (Pd & _ & Hn & Hf). split.
        + now rewrite (x_free _ _ _ X1).
        + apply (nc_same st1); [reflexivity|]. now apply PN1.
      - destruct T2 as (_ & _ & _ & _ & Hn & Hf & _). split; [exact Hf|]. apply (nc_same st2); [reflexivity|exact Hn]. }
    assert (Hk : kind_ok (KMCX (length l)) (l ++ [d])) by (cbn; rewrite app_length; cbn; lia).
    assert (Hlf : forall c, In c (removelast (l ++ [d])) -> ~ In c (st_free st3)).
    { rewrite removelast_last. intros c Hc. apply Hset in Hc.
      destruct (Forall2_in_r _ _ _ _ F Hc) as (a & _ & (_ & _ & _ & _ & A5)).
      change (st_free st3) with (st_free st2). now rewrite (x_free _ _ _ X2). }
    destruct (priv_gate _ _ st3 st4 d I3 Hk E4 (last_snoc l d) Q2 R2 (proj1 D2) (proj1 Hd3) (proj2 Hd3) Hlf)
      as (I4 & X4 & V4 & G4 & N4 & Q4 & A4 & K4 & M4 & O4 & _ & NC4).
    rewrite removelast_last in V4, NC4.
    assert (Hval : V st4 d = xorb (V st1 d) (beval env (BAnd args))).
    { rewrite V4. assert (E31 : forall q, V st3 q = V st1 q) by (intros q; apply (V_same st1 st3); exact Gt2).
      f_equal; [apply E31|]. rewrite (forallb_same_set (V st3) l erets Hset). rewrite beval_and.
      apply forallb_Forall2. eapply Forall2_imp; [|exact F]. intros a b (_ & B2 & _). rewrite E31. exact B2. }
    assert (Hfin : post (BAnd args) dest st d
              (if is_none dest then upd_cache (cache_set (BAnd args) d) (fold_left (fun S q => mark_ancilla q S) l st4)
               else fold_left (fun S q => mark_ancilla q S) l st4)).
    { refine (finish_spec (BAnd args) dest st st1 d st2 st4 l eq_refl I1 X1 P1 HP0 X2 M2 (proj2 D2) T2 I4 _ Hval G4 _ _ _ _ _ _ _).
      - eapply Ext_trans; [apply Ext_set_orc|exact X4].
      - rewrite N4. exact (proj2 D2).
      - rewrite M4. auto.
      - intros q _. rewrite M4. auto.
      - intros q Ha. rewrite A4 in Ha. change (st_anc st3) with (st_anc st2) in Ha.
        assert (Hq : q = d \/ In q (st_anc st1)).
        { destruct dest as [d0|]; cbn [dest_facts] in T2; [destruct T2 as [_ ->]; now right|].
          destruct T2 as (_ & _ & _ & _ & _ & _ & Han). now apply Han. }
        destruct Hq as [->|Hq]; [right; now left|].
        destruct (AM1 q Hq) as [?|[Hq'|Hq']]; [now left|right; right; left; now apply Hset|].
        right. right. right. rewrite M4. change (st_marked st3) with (st_marked st2). now rewrite M2.
      - intros q Pq Hn. apply NC4.
        + apply (nc_same st1); [exact Gt2|]. now apply PN1.
        + intros Hq. apply Hset in Hq. destruct (Forall2_in_r _ _ _ _ F Hq) as (a & _ & (_ & _ & _ & B4 & _)). now apply (B4 q Pq).
      - apply NC4; [exact (proj2 Hd3)|]. intros Hq. apply Hset in Hq. contradiction.
      - intros w Hw. apply Hset in Hw. destruct (Forall2_in_r _ _ _ _ F Hw) as (a & _ & (B1 & _ & B3 & B4 & B5)).
        split; [|split; [exact B4|split; [intros ->; contradiction|]]].
        + intros Ha. rewrite A4 in Ha. change (st_anc st3) with (st_anc st2) in Ha.
          destruct (x_anc_new _ _ _ X2 w Ha) as [Ha'|Ha']; [|lia].
          eapply has_gate_ext; [exact X4|]. change (has_gate st2 w). eapply has_gate_ext; [exact X2|]. now apply B3.
        + rewrite (x_free _ _ _ X4). change (st_free st3) with (st_free st2). now rewrite (x_free _ _ _ X2). }
    destruct dest; cbn [is_none] in H, Hfin; injection H as <- <-; exact Hfin.
  Qed.

  Lemma or_lookup_props e l e' : or_lookup tbl e l = Some e' ->
    beval env e' = beval env (BOr l) /\ ok_expr e' = true /\ compound e' = true.
  Proof.
    unfold or_lookup. destruct (find _ tbl) as [p|] eqn:Ef; [|discriminate].
    destruct (or_valid l (snd p)) eqn:Ev; [|discriminate]. intros H. injection H as <-.
    apply find_some in Ef as [Hin _]. unfold tbl_ok in Htbl. rewrite forallb_forall in Htbl.
    specialize (Htbl p Hin).
    split; [now apply or_valid_sound|]. split; [exact Htbl|].
    destruct (snd p) as [| |a| | | | |]; try discriminate. reflexivity.
  Qed.

  Lemma two_enum (l : list nat) a b : NoDup l -> (forall x, In x l <-> In x [a; b]) -> a <> b ->
    l = [a; b] \/ l = [b; a].
  Proof.
    intros Hnd Hs Hab. destruct l as [|x [|y [|z t]]].
    - exfalso. apply (Hs a). now left.
    - exfalso. assert (Ha : In a [x]) by (apply Hs; now left). assert (Hb : In b [x]) by (apply Hs; right; now left).
      destruct Ha as [<-|[]], Hb as [<-|[]]. now apply Hab.
    - assert (Hx : In x [a; b]) by (apply Hs; now left). assert (Hy : In y [a; b]) by (apply Hs; right; now left).
      inversion Hnd as [|? ? Hn1 _]; subst.
      destruct Hx as [<-|[<-|[]]], Hy as [<-|[<-|[]]]; auto; exfalso; apply Hn1; now left.
    - exfalso. assert (Hx : In x [a; b]) by (apply Hs; now left). assert (Hy : In y [a; b]) by (apply Hs; right; now left).
      assert (Hz : In z [a; b]) by (apply Hs; right; right; now left).
      inversion Hnd as [|? ? Hn1 Hnd1]; subst. inversion Hnd1 as [|? ? Hn2 _]; subst.
      destruct Hx as [<-|[<-|[]]], Hy as [<-|[<-|[]]], Hz as [<-|[<-|[]]];
        try (apply Hn1; now left); try (apply Hn1; right; now left); try (apply Hn2; now left).
  Qed.

  (* the three gate groups of a binary or: CX p d, CX q d, MCX [p;q] d *)
  Lemma or_gates p q d st3 sa sb st4 :
    Inv st3 -> p < st_nq st3 -> q < st_nq st3 ->
    (forall k0, named k0 -> ~ In (k0, d) (st_qmap st3)) -> (forall e, ~ In (e, d) (st_cache st3)) -> n <= d ->
    ~ In d (st_free st3) -> nc st3 d -> ~ In p (st_free st3) -> ~ In q (st_free st3) ->
    g_cx p d st3 = Ok sa -> g_cx q d sa = Ok sb -> g_mcx [p; q] d sb = Ok st4 ->
    Inv st4 /\ Ext (Some d) st3 st4 /\ V st4 d = xorb (V st3 d) (V st3 p || V st3 q) /\
    has_gate st4 d /\ st_nq st4 = st_nq st3 /\ st_anc st4 = st_anc st3 /\ st_marked st4 = st_marked st3 /\
    (forall x, nc st3 x -> x <> p -> x <> q -> nc st4 x).
  Proof.
    intros I3 Hp Hq Q R Hn0 Hf Hnc Hpf Hqf Ea Eb Ec.
    assert (Hpd0 : p <> d /\ q <> d).
    { unfold g_cx in Ea, Eb. apply append_new_inv in Ea as (_ & Na & _). split.
      - inversion Na as [|? ? Hn _]; subst. intros ->. apply Hn. now left.
      - destruct (append_new KCX [q; d] sa) eqn:E; [|discriminate]. apply append_new_inv in E as (_ & Nb & _).
        inversion Nb as [|? ? Hn _]; subst. intros ->. apply Hn. now left. }
    destruct (priv_gate KCX [p; d] st3 sa d I3 eq_refl Ea eq_refl Q R Hn0 Hf Hnc)
      as (Ia & Xa & Va & Ga & Na & Qa & Aa & Ka & Ma & Oa & NDa & NCa).
    { cbn [removelast]. intros c [<-|[]]. exact Hpf. }
    rewrite <- Qa in Q. rewrite <- Ka in R.
    assert (Hfa : st_free sa = st_free st3) by exact (x_free _ _ _ Xa).
    destruct (priv_gate KCX [q; d] sa sb d Ia eq_refl Eb eq_refl Q R Hn0)
      as (Ib & Xb & Vb & Gb & Nb & Qb & Ab & Kb & Mb & Ob & NDb & NCb).
    { now rewrite Hfa. }
    { apply NCa; [exact Hnc|]. cbn [removelast]. intros [E|[]]. now apply (proj1 Hpd0). }
    { cbn [removelast]. intros c [<-|[]]. now rewrite Hfa. }
    rewrite <- Qb in Q. rewrite <- Kb in R.
    assert (Hfb : st_free sb = st_free st3) by (rewrite (x_free _ _ _ Xb); exact Hfa).
    assert (Hncb : nc sb d).
    { apply NCb; [|cbn [removelast]; intros [E|[]]; now apply (proj2 Hpd0)].
      apply NCa; [exact Hnc|]. cbn [removelast]. intros [E|[]]. now apply (proj1 Hpd0). }
    destruct (priv_gate (KMCX 2) [p; q; d] sb st4 d Ib eq_refl Ec eq_refl Q R Hn0)
      as (Ic & Xc & Vc & Gc & Nc & Qc & Ac & Kc & Mc & Oc & NDc & NCc).
    { now rewrite Hfb. }
    { exact Hncb. }
    { cbn [removelast]. intros c [<-|[<-|[]]]; now rewrite Hfb. }
    destruct Hpd0 as [Hpd Hqd].
    split; [exact Ic|]. split; [eapply Ext_trans; [eapply Ext_trans; eassumption|exact Xc]|].
    split.
    { rewrite Vc, Vb, Va. cbn [removelast forallb].
      assert (Eap : V sa p = V st3 p) by (apply (x_frame _ _ _ Xa); [exact Hp|congruence]).
      assert (Eaq : V sa q = V st3 q) by (apply (x_frame _ _ _ Xa); [exact Hq|congruence]).
      assert (Ebp : V sb p = V st3 p) by (rewrite (x_frame _ _ _ Xb); [exact Eap|lia|congruence]).
      assert (Ebq : V sb q = V st3 q) by (rewrite (x_frame _ _ _ Xb); [exact Eaq|lia|congruence]).
      rewrite Eaq, Ebp, Ebq. destruct (V st3 d), (V st3 p), (V st3 q); reflexivity. }
    split; [exact Gc|]. split; [congruence|]. split; [congruence|]. split; [congruence|].
    intros x Hx Hxp Hxq. apply NCc; [|cbn [removelast]; intros [E|[E|[]]]; congruence].
    apply NCb; [|cbn [removelast]; intros [E|[]]; congruence].
    apply NCa; [exact Hx|cbn [removelast]; intros [E|[]]; congruence].
  Qed.

  Lemma dedup_two r1 r2 : (r1 = r2 /\ dedup [r1; r2] = [r1]) \/ (r1 <> r2 /\ dedup [r1; r2] = [r1; r2]).
  Proof.
    cbn [dedup mem_nat existsb]. destruct (Nat.eqb_spec r1 r2) as [->|Hne]; cbn [orb]; [left|right]; now split.
  Qed.

  (* compile_or with two operands; they may sit on the same qubit *)
  Lemma c_or_bin_spec e1 e2 dest st r st' : pre (BOr [e1; e2]) dest st ->
    c_or tbl rec (BOr [e1; e2]) [e1; e2] dest st = Ok (r, st') -> post (BOr [e1; e2]) dest st r st'.
  Proof.
    intros (Hok & I & HP) H.
    assert (Hokl : forallb ok_expr [e1; e2] = true) by (cbn [forallb]; rewrite andb_true_r; exact Hok).
    unfold c_or in H. cbn [length Nat.ltb Nat.leb] in H.
    destruct (map_rec rec [e1; e2] st) as [[erets st1]|c] eqn:E1; cbn [bind] in H; [|discriminate].
    destruct (map_rec_spec [e1; e2] st erets st1 Hokl I E1) as (I1 & X1 & F & P1 & AM1 & PN1).
    inversion F as [|? r1 ? erets' F1 F']; subst. inversion F' as [|? r2 ? erets'' F2 F'']; subst. inversion F''; subst.
    destruct F1 as (L1 & V1 & G1 & N1 & FR1). destruct F2 as (L2 & V2 & G2 & N2 & FR2).
    destruct (get_dest dest st1) as [[d st2]|c] eqn:E2; cbn [bind] in H; [|discriminate].
    assert (HP0 : forall d0, dest = Some d0 -> Priv st d0) by (intros d0 Hd0; now apply HP).
    assert (HP1 : forall d0, dest = Some d0 -> Priv st1 d0).
    { intros d0 Hd0. eapply Priv_ext; [exact X1|]. now apply HP. }
    destruct (get_dest_spec dest st1 d st2 I1 HP1 E2) as (I2 & X2 & Gt2 & C2 & K2 & M2 & Nq2 & D2 & Q2 & R2 & T2).
    assert (Hd12 : r1 <> d /\ r2 <> d).
    { destruct dest as [d0|]; cbn [dest_facts] in T2.
      - destruct T2 as [-> ->]. split; [apply N1|apply N2]; now apply HP.
      - destruct T2 as [-> _]. lia. }
    assert (Hnin : mem_nat d [r1; r2] = false).
    { apply mem_nat_false. intros [E|[E|[]]]; destruct Hd12; congruence. }
    rewrite Hnin in H.
    assert (E21 : forall q, V st2 q = V st1 q) by (intros q; apply (V_same st1 st2); exact Gt2).
    assert (Hd2 : ~ In d (st_free st2) /\ nc st2 d).
    { destruct dest as [d0|]; cbn [dest_facts] in T2.
      - destruct T2 as [-> ->]. destruct (HP d0 eq_refl) as (Pd & _ & Hn & Hf). split.
        + now rewrite (x_free _ _ _ X1).
        + now apply PN1.
      - destruct T2 as (_ & _ & _ & _ & Hn & Hf & _). now split. }
    assert (Hf12 : ~ In r1 (st_free st2) /\ ~ In r2 (st_free st2)) by (rewrite (x_free _ _ _ X2); now split).
    assert (Hmid : exists l st4,
      Ok (d, if is_none dest then upd_cache (cache_set (BOr [e1; e2]) d) (fold_left (fun S q => mark_ancilla q S) l st4)
             else fold_left (fun S q => mark_ancilla q S) l st4) = Ok (r, st') /\
      (forall x, In x l -> x = r1 \/ x = r2) /\ (In r1 l /\ In r2 l) /\
      Inv st4 /\ Ext (Some d) st2 st4 /\ V st4 d = xorb (V st1 d) (beval env (BOr [e1; e2])) /\
      has_gate st4 d /\ st_nq st4 = st_nq st2 /\ st_anc st4 = st_anc st2 /\ st_marked st4 = st_marked st2 /\
      (forall x, nc st2 x -> x <> r1 -> x <> r2 -> nc st4 x)).
    { destruct (dedup_two r1 r2) as [[<- Ed]|[Hne Ed]]; rewrite Ed in H; cbn [length Nat.leb] in H; cbn [bind] in H.
      - (* both operands on one qubit *)
        cbn [fold_left bind length Nat.ltb Nat.leb] in H.
        destruct (g_cx r1 d st2) as [sa|c] eqn:Ea; cbn [bind] in H; [|discriminate].
        destruct (priv_gate KCX [r1; d] st2 sa d I2 eq_refl Ea eq_refl Q2 R2 (proj1 D2) (proj1 Hd2) (proj2 Hd2))
          as (Ia & Xa & Va & Ga & Na & Qa & Aa & Ka & Ma & Oa & _ & NCa).
        { cbn [removelast]. intros c [<-|[]]. exact (proj1 Hf12). }
        exists [r1], sa. split; [exact H|]. split; [intros x [<-|[]]; now left|].
        split; [split; now left|].
        split; [exact Ia|]. split; [exact Xa|]. split; [|split; [exact Ga|split; [exact Na|split; [exact Aa|split; [exact Ma|]]]]].
        + rewrite Va. cbn [removelast forallb]. rewrite !E21, andb_true_r, beval_or. cbn [existsb].
          rewrite <- V1, <- V2. now destruct (V st1 d), (V st1 r1).
        + intros x Hx Hx1 _. apply NCa; [exact Hx|]. cbn [removelast]. intros [E|[]]. congruence.
      - destruct (take_order [r1; r2] st2) as [[l st3]|c] eqn:E3; cbn [bind] in H; [|discriminate].
        apply take_order_inv in E3 as (-> & Hnd & Hset).
        set (st3 := set_orc (tl (st_orc st2)) st2) in *.
        assert (I3 : Inv st3) by now apply Inv_set_orc.
        match type of H with context [fold_left ?f l (Ok st3)] => remember (fold_left f l (Ok st3)) as cxf eqn:Ecx end.
        assert (Hl3 : r1 < st_nq st3 /\ r2 < st_nq st3) by (change (st_nq st3) with (st_nq st2); lia).
        destruct (two_enum l r1 r2 Hnd Hset Hne) as [El|El]; rewrite El in Ecx; cbn [fold_left bind] in Ecx.
        + destruct (g_cx r1 d st3) as [sa|c] eqn:Ea; cbn [bind] in Ecx; [|subst cxf; discriminate].
          destruct (g_cx r2 d sa) as [sb|c] eqn:Eb; subst cxf; cbn [bind] in H; [|discriminate].
          rewrite El in H. cbn [length Nat.ltb Nat.leb] in H.
          destruct (g_mcx [r1; r2] d sb) as [st4|c] eqn:Ec; cbn [bind] in H; [|discriminate].
          destruct (or_gates r1 r2 d st3 sa sb st4 I3 (proj1 Hl3) (proj2 Hl3) Q2 R2 (proj1 D2) (proj1 Hd2) (proj2 Hd2)
                      (proj1 Hf12) (proj2 Hf12) Ea Eb Ec) as (A & B & C & D & Nn & An & Mn & NCn).
          exists [r1; r2], st4. split; [exact H|]. split; [intros x [<-|[<-|[]]]; auto|].
          split; [split; [now left|right; now left]|].
          split; [exact A|]. split; [eapply Ext_trans; [apply Ext_set_orc|exact B]|].
          split; [|split; [exact D|split; [exact Nn|split; [exact An|split; [exact Mn|exact NCn]]]]].
          rewrite C. change (V st3) with (V st2). rewrite !E21, V1, V2, beval_or. cbn [existsb]. now rewrite orb_false_r.
        + destruct (g_cx r2 d st3) as [sa|c] eqn:Ea; cbn [bind] in Ecx; [|subst cxf; discriminate].
          destruct (g_cx r1 d sa) as [sb|c] eqn:Eb; subst cxf; cbn [bind] in H; [|discriminate].
          rewrite El in H. cbn [length Nat.ltb Nat.leb] in H.
          destruct (g_mcx [r2; r1] d sb) as [st4|c] eqn:Ec; cbn [bind] in H; [|discriminate].
          destruct (or_gates r2 r1 d st3 sa sb st4 I3 (proj2 Hl3) (proj1 Hl3) Q2 R2 (proj1 D2) (proj1 Hd2) (proj2 Hd2)
                      (proj2 Hf12) (proj1 Hf12) Ea Eb Ec) as (A & B & C & D & Nn & An & Mn & NCn).
          exists [r2; r1], st4. split; [exact H|]. split; [intros x [<-|[<-|[]]]; auto|].
          split; [split; [right; now left|now left]|].
          split; [exact A|]. split; [eapply Ext_trans; [apply Ext_set_orc|exact B]|].
          split; [|split; [exact D|split; [exact Nn|split; [exact An|split; [exact Mn|]]]]].
          * rewrite C. change (V st3) with (V st2). rewrite !E21, V1, V2, beval_or. cbn [existsb]. rewrite orb_false_r. f_equal. apply orb_comm.
          * intros x Hx Hx1 Hx2. now apply NCn. }
    destruct Hmid as (l & st4 & H' & Hl & Hl' & I4 & X4 & Hval & G4 & N4 & A4 & M4 & NC4). clear H.
    assert (Hfin : post (BOr [e1; e2]) dest st d
              (if is_none dest then upd_cache (cache_set (BOr [e1; e2]) d) (fold_left (fun S q => mark_ancilla q S) l st4)
               else fold_left (fun S q => mark_ancilla q S) l st4)).
    { refine (finish_spec (BOr [e1; e2]) dest st st1 d st2 st4 l eq_refl I1 X1 P1 HP0 X2 M2 (proj2 D2) T2 I4 X4 Hval G4 _ _ _ _ _ _ _).
      - rewrite N4. exact (proj2 D2).
      - rewrite M4. auto.
      - intros q _. rewrite M4. auto.
      - intros q Ha. rewrite A4 in Ha.
        assert (Hq : q = d \/ In q (st_anc st1)).
        { destruct dest as [d0|]; cbn [dest_facts] in T2; [destruct T2 as [_ ->]; now right|].
          destruct T2 as (_ & _ & _ & _ & _ & _ & Han). now apply Han. }
        destruct Hq as [->|Hq]; [right; now left|].
        destruct (AM1 q Hq) as [?|[Hq'|Hq']]; [now left| |].
        + right. right. left. destruct Hq' as [<-|[<-|[]]]; tauto.
        + right. right. right. rewrite M4. now rewrite M2.
      - intros q Pq Hn. apply NC4; [apply (nc_same st1); [exact Gt2|now apply PN1]| |].
        + intros ->. now apply (N1 r1 Pq).
        + intros ->. now apply (N2 r2 Pq).
      - apply NC4; [exact (proj2 Hd2)| |]; intros E; destruct Hd12; congruence.
      - intros w Hw. assert (Hw' : (w = r1 \/ w = r2)) by now apply Hl.
        assert (Hlt : w < st_nq st1) by (destruct Hw' as [->| ->]; assumption).
        split; [|split; [|split]].
        + intros Ha. rewrite A4 in Ha. destruct (x_anc_new _ _ _ X2 w Ha) as [Ha'|Ha']; [|lia].
          eapply has_gate_ext; [exact X4|]. eapply has_gate_ext; [exact X2|].
          destruct Hw' as [->| ->]; [now apply G1|now apply G2].
        + destruct Hw' as [->| ->]; assumption.
        + destruct Hw' as [->| ->]; tauto.
        + rewrite (x_free _ _ _ X4). destruct Hw' as [->| ->]; tauto. }
    destruct dest; cbn [is_none] in H', Hfin; injection H' as <- <-; exact Hfin.
  Qed.

  (* a gate on a fresh cached qubit, immediately followed by re-recording that qubit *)
  Lemma Inv_gate_set st g e :
    Inv st -> gate_ok (st_nq st) g -> n <= tgt g ->
    (forall k, named k -> ~ In (k, tgt g) (st_qmap st)) ->
    ~ In (tgt g) (st_free st) -> nc st (tgt g) -> (forall c, In c (ctrls g) -> ~ In c (st_free st)) ->
    let st' := mkst (st_gates st ++ [g]) (st_comp st ++ [g])
               (st_nq st) (st_qmap st) (st_anc st) (st_free st) (st_res st) (st_marked st)
               (cache_set e (tgt g) (st_cache st)) (S (st_next st)) (st_orc st) in
    V st' (tgt g) = beval env e -> In (tgt g) (st_anc st) ->
    Inv st'.
  Proof.
    intros I0 Hg Hn0 Hq Hnf Hnc Hcf st' Hv Ha.
    assert (HV : forall q, q <> tgt g -> V st' q = V st q).
    { intros q Hne. rewrite (V_snoc st st' g) by reflexivity. now apply fflip_other. }
    destruct I0. constructor; subst st'; sts; auto.
    - apply Forall_app. split; [assumption|]. constructor; [assumption|constructor].
    - apply Forall_app. split; [assumption|]. constructor; [assumption|constructor].
    - apply Forall_app. split; [assumption|]. constructor; [assumption|constructor].
    - apply Forall_app. split; [assumption|]. constructor; [assumption|constructor].
    - intros s q Hin. rewrite HV; [auto|]. intros ->. now apply (Hq (NSym s) Logic.I).
    - intros q Hin. rewrite HV; [auto|]. intros ->. now apply (Hq NTrue Logic.I).
    - intros q Hin. rewrite HV; [auto|]. intros ->. now apply (Hq NFalse Logic.I).
    - intros e' q H. apply cache_set_in in H as [[-> ->]|(H & _)]; [now apply gate_ok_tgt|eauto].
    - intros e' q H. apply cache_set_in in H as [[-> ->]|(H & Hne & _)]; [exact Hv|]. rewrite HV by exact Hne. eauto.
    - intros e1 e2 q' H1 H2. apply cache_set_in in H1. apply cache_set_in in H2.
      destruct H1 as [[-> Hq1]|(H1 & N1 & M1)], H2 as [[-> Hq2]|(H2 & N2 & M2)]; try congruence; eauto.
    - intros e' q H Hc. apply cache_set_in in H as [[-> ->]|(H & _)]; eauto.
    - intros e' q H Hin. apply cache_set_in in H as [[-> ->]|(H & _)].
      + exists g. split; [apply in_or_app; right; now left|reflexivity].
      + destruct (i_cache_gate0 e' q H Hin) as (g0 & Hg0 & Ht). exists g0. split; [apply in_or_app; now left|exact Ht].
    - intros q Hin. destruct (i_marked0 q Hin) as (Ha' & g0 & Hg0 & Ht). split; [exact Ha'|]. exists g0.
      split; [apply in_or_app; now left|exact Ht].
    - intros q Hle. rewrite HV; [auto|]. pose proof (gate_ok_tgt _ _ Hg). lia.
    - intros e' q H. apply cache_set_in in H as [[-> ->]|(H & _)]; eauto.
    - rewrite filter_app, <- i_compf0. cbn [filter]. apply mem_nat_false in Hnf. now rewrite Hnf.
    - apply wp_app; [assumption|cbn; split; [intros c _ g' []|exact Logic.I]|].
      intros g' [<-|[]]. right. exact Hnc.
    - intros g0 H0 Ha0 Hf c Hcin. apply in_app_or in H0 as [H0|[<-|[]]]; [eauto|now apply Hcf].
    - intros q Hin. rewrite HV; [auto|]. intros ->. contradiction.
  Qed.

  Lemma c_not_spec a dest sym st r st' :
    self_not a sym = false ->
    pre (BNot a) dest st -> c_not rec (BNot a) a dest sym st = Ok (r, st') -> post (BNot a) dest st r st'.
  Proof.
    intros Hself (Hoka & I & HP) H. cbn [ok_expr] in Hoka. unfold c_not in H. rewrite Hself in H.
    destruct (rec a None st) as [[eret st1]|c] eqn:E1; cbn [bind] in H; [|discriminate].
    assert (Hpa : pre a None st).
    { split; [exact Hoka|]. split; [exact I|intros d Hd; discriminate]. }
    destruct (Hrec a None st eret st1 Hpa E1) as (I1 & X1 & Hlt & M1 & P1 & G1 & AM1 & PN1 & NF1 & Hv & Hc).
    pose proof (class_not_free a st st1 eret Hoka I I1 X1 Hc) as Hef.
    destruct (mem_nat eret (st_anc st1) && negb (mem_nat eret (map snd (st_cache st))) && is_none dest) eqn:Eb.
    - (* the X is applied in place *)
      apply andb_true_iff in Eb as [Eb Edn]. apply andb_true_iff in Eb as [Ean Ewas].
      destruct dest; [discriminate|]. apply mem_nat_in in Ean. apply negb_true_iff in Ewas.
      apply mem_nat_false in Ewas.
      assert (Hnone : forall k, ~ In (k, eret) (st_cache st)).
      { intros k Hk. apply Ewas. apply in_map_iff. now exists (k, eret). }
      assert (Hfresh : compound a = true /\ st_nq st <= eret).
      { destruct a; cbn [ok_expr] in Hoka; try discriminate; cbn [res_class] in Hc.
        - exfalso. now apply (i_named st1 I1 (NSym i) eret Hc Logic.I).
        - destruct Hc as (_ & [L|[k L]]); [now split|exfalso; now apply (Hnone k)].
        - destruct Hc as (_ & [L|[k L]]); [now split|exfalso; now apply (Hnone k)].
        - destruct Hc as (_ & [L|[k L]]); [now split|exfalso; now apply (Hnone k)].
        - destruct Hc as (_ & [L|[k L]]); [now split|exfalso; now apply (Hnone k)]. }
      destruct Hfresh as [Hca Hfr].
      destruct (g_x eret st1) as [st2|c] eqn:E2; cbn [bind] in H; [|discriminate].
      injection H as <- <-. unfold g_x in E2. apply append_new_inv in E2 as (E2 & Hnd & Hf).
      set (g := mkcg (st_next st1) (K1 BX) [eret]) in *.
      assert (Hg : gate_ok (st_nq st1) g) by (repeat split; auto).
      assert (Hnamed : forall k, named k -> ~ In (k, tgt g) (st_qmap st1)).
      { intros k Hk Hin. now apply (i_named st1 I1 k eret Hin Hk). }
      assert (Hval : V st2 eret = beval env (BNot a)).
      { rewrite (V_snoc st1 st2 g) by (rewrite E2; reflexivity). change (tgt g) with eret.
        rewrite fflip_tgt. change (ctrls g) with (@nil nat). cbn [forallb]. rewrite Hv, beval_not.
        now destruct (beval env a). }
      assert (X12 : Ext (Some eret) st1 st2) by (apply (Ext_gate st1 g); auto).
      assert (X02 : Ext None st st2).
      { eapply (Ext_trans' None (Some eret)); [exact X1|exact X12|]. intros q Hq. injection Hq as <-. now right. }
      assert (Hnce : nc st1 eret) by now apply NF1.
      assert (Hnc2 : forall q, nc st1 q -> nc st2 q).
      { intros q Hq g0 H0. rewrite E2 in H0. sts. apply in_app_or in H0 as [H0|[<-|[]]]; [now apply Hq|intros []]. }
      unfold post.
      split.
      { rewrite E2. apply (Inv_gate_set st1 g (BNot a) I1 Hg (Nat.le_trans _ _ _ (i_n st I) Hfr) Hnamed Hef Hnce);
          [intros c []| |exact Ean].
        rewrite <- Hval. rewrite E2. reflexivity. }
      split; [apply Ext_then_cache_set; [exact X02|now left]|].
      assert (N2 : st_nq st2 = st_nq st1) by (rewrite E2; reflexivity).
      assert (Ma2 : st_marked st2 = st_marked st1) by (rewrite E2; reflexivity).
      assert (A2 : st_anc st2 = st_anc st1) by (rewrite E2; reflexivity).
      sts. rewrite ?N2, ?Ma2.
      split; [exact Hlt|]. split; [exact M1|]. split; [exact P1|].
      split; [intros _; exists g; split; [rewrite E2; sts; apply in_or_app; right; now left|reflexivity]|].
      split; [rewrite A2; exact AM1|].
      split; [intros q Pq Hn; apply (nc_same st2); [reflexivity|]; apply Hnc2; now apply PN1|].
      split; [intros _ _; apply (nc_same st2); [reflexivity|]; now apply Hnc2|].
      split; [exact Hval|]. cbn [res_class]. sts. rewrite A2. split; [exact Ean|now left].
    - (* copy into a destination qubit *)
      destruct (get_dest dest st1) as [[d st2]|c] eqn:E2; cbn [bind] in H; [|discriminate].
      assert (HP0 : forall d0, dest = Some d0 -> Priv st d0) by (intros d0 Hd0; now apply HP).
      assert (HP1 : forall d0, dest = Some d0 -> Priv st1 d0).
      { intros d0 Hd0. eapply Priv_ext; [exact X1|]. now apply HP. }
      destruct (get_dest_spec dest st1 d st2 I1 HP1 E2) as (I2 & X2 & G2 & C2 & K2 & M2 & N2 & D2 & Q2 & R2 & T2).
      destruct (g_cx eret d st2) as [st3|c] eqn:E3; cbn [bind] in H; [|discriminate].
      destruct (g_x d st3) as [st4|c] eqn:E4; cbn [bind] in H; [|discriminate].
      assert (Hd2 : ~ In d (st_free st2) /\ nc st2 d).
      { destruct dest as [d0|]; cbn [dest_facts] in T2.
        - destruct T2 as [-> ->]. destruct (HP d0 eq_refl) as (Pd & _ & Hn & Hf). split.
          + now rewrite (x_free _ _ _ X1).
          + now apply PN1.
        - destruct T2 as (_ & _ & _ & _ & Hn & Hf & _). now split. }
      assert (Hed0 : eret <> d).
      { unfold g_cx in E3. apply append_new_inv in E3 as (_ & Nd & _). inversion Nd as [|? ? Hn _]; subst.
        intros ->. apply Hn. now left. }
      destruct (priv_gate KCX [eret; d] st2 st3 d I2 eq_refl E3 eq_refl Q2 R2 (proj1 D2) (proj1 Hd2) (proj2 Hd2))
        as (I3 & X3 & V3 & G3 & N3 & Q3 & A3 & K3 & Ma3 & O3 & ND3 & NC3).
      { cbn [removelast]. intros c [<-|[]]. now rewrite (x_free _ _ _ X2). }
      rewrite <- Q3 in Q2. rewrite <- K3 in R2.
      destruct (priv_gate (K1 BX) [d] st3 st4 d I3 eq_refl E4 eq_refl Q2 R2 (proj1 D2))
        as (I4 & X4 & V4 & G4 & N4 & Q4 & A4 & K4 & Ma4 & O4 & _ & NC4).
      { rewrite (x_free _ _ _ X3). exact (proj1 Hd2). }
      { apply NC3; [exact (proj2 Hd2)|]. cbn [removelast]. intros [E|[]]. congruence. }
      { cbn [removelast]. intros c []. }
      assert (Hval : V st4 d = xorb (V st1 d) (beval env (BNot a))).
      { rewrite V4, V3. cbn [removelast forallb]. rewrite !(V_same st1 st2 G2), Hv, beval_not.
        destruct (V st1 d), (beval env a); reflexivity. }
      assert (Hnc24 : forall q, nc st2 q -> q <> eret -> nc st4 q).
      { intros q Hq Hne. apply NC4; [|cbn [removelast]; intros []]. apply NC3; [exact Hq|].
        cbn [removelast]. intros [E|[]]. congruence. }
      assert (Hfin : post (BNot a) dest st d
                (if is_none dest then upd_cache (cache_set (BNot a) d) (fold_left (fun S q => mark_ancilla q S) [eret] st4)
                 else fold_left (fun S q => mark_ancilla q S) [eret] st4)).
      { refine (finish_spec (BNot a) dest st st1 d st2 st4 [eret] eq_refl I1 X1 P1 HP0 X2 M2 (proj2 D2) T2 I4 _ Hval G4 _ _ _ _ _ _ _).
        - eapply Ext_trans; eassumption.
        - rewrite N4, N3. exact (proj2 D2).
        - rewrite Ma4, Ma3. auto.
        - intros q _. rewrite Ma4, Ma3. auto.
        - intros q Ha. rewrite A4, A3 in Ha.
          assert (Hq : q = d \/ In q (st_anc st1)).
          { destruct dest as [d0|]; cbn [dest_facts] in T2; [destruct T2 as [_ ->]; now right|].
            destruct T2 as (_ & _ & _ & _ & _ & _ & Han). now apply Han. }
          destruct Hq as [->|Hq]; [right; now left|].
          destruct (AM1 q Hq) as [?|[->|Hq']]; [now left|right; right; left; now left|].
          right. right. right. rewrite Ma4, Ma3, M2. exact Hq'.
        - intros q Pq Hn. apply Hnc24; [apply (nc_same st1); [exact G2|now apply PN1]|].
          intros ->. exact (class_not_priv a st st1 eret eret Hoka I1 X1 Hc Pq eq_refl).
        - apply Hnc24; [exact (proj2 Hd2)|congruence].
        - intros w [<-|[]]. split; [|split; [|split; [exact Hed0|]]].
          + intros Ha. rewrite A4, A3 in Ha. destruct (x_anc_new _ _ _ X2 eret Ha) as [Ha'|Ha']; [|lia].
            eapply has_gate_ext; [exact X4|]. eapply has_gate_ext; [exact X3|]. eapply has_gate_ext; [exact X2|].
            exact (class_gate a st st1 eret Hoka I1 Hc G1 Ha').
          + intros q Pq. exact (class_not_priv a st st1 eret q Hoka I1 X1 Hc Pq).
          + rewrite (x_free _ _ _ X4), (x_free _ _ _ X3), (x_free _ _ _ X2). exact Hef. }
      cbn [fold_left] in Hfin. destruct dest; cbn [is_none] in H, Hfin; injection H as <- <-; exact Hfin.
  Qed.

  Lemma ok_not_sym_compound a : ok_expr a = true -> is_sym a = false -> compound a = true.
  Proof. destruct a; cbn; congruence. Qed.

  (* XOR ACCUMULATION: every argument is xor-ed into the destination d *)
  Lemma xor_args_spec args : forall st d r st',
    forallb ok_expr args = true -> Inv st -> Priv st d -> nc st d -> ~ In d (st_free st) ->
    xor_args rec args d st = Ok (r, st') ->
    r = d /\ Inv st' /\ Ext (Some d) st st' /\
    V st' d = xorb (V st d) (fold_right xorb false (map (beval env) args)) /\
    (In d (st_marked st') -> In d (st_marked st)) /\
    (forall q, Priv st q -> In q (st_marked st') -> In q (st_marked st)) /\
    (args <> [] -> has_gate st' d) /\
    (forall q, In q (st_anc st') -> In q (st_anc st) \/ In q (st_marked st')) /\
    (forall q, Priv st q -> nc st q -> nc st' q).
  Proof.
    induction args as [|e args IH]; intros st d r st' Hok I P Hncd Hfd H.
    - cbn [xor_args] in H. injection H as <- <-. split; [reflexivity|]. split; [exact I|]. split; [apply Ext_refl|].
      split; [cbn; now rewrite xorb_false_r|]. split; [auto|]. split; [auto|].
      split; [intros Hne; now contradiction Hne|]. split; [auto|auto].
    - cbn [forallb] in Hok. apply andb_true_iff in Hok as [Hoke Hokl].
      assert (Hstep : exists st1, xor_args rec args d st1 = Ok (r, st') /\
         Inv st1 /\ Ext (Some d) st st1 /\ V st1 d = xorb (V st d) (beval env e) /\
         (In d (st_marked st1) -> In d (st_marked st)) /\
         (forall q, Priv st q -> In q (st_marked st1) -> In q (st_marked st)) /\ has_gate st1 d /\
         (forall q, In q (st_anc st1) -> In q (st_anc st) \/ In q (st_marked st1)) /\
         (forall q, Priv st q -> nc st q -> nc st1 q)).
      { destruct P as (P1 & P2 & P3). cbn [xor_args] in H.
        assert (Hcall : forall e0 d1 st1, ok_expr e0 = true -> compound e0 = true ->
                  rec e0 (Some d) st = Ok (d1, st1) ->
                  d1 = d /\ Inv st1 /\ Ext (Some d) st st1 /\ V st1 d = xorb (V st d) (beval env e0) /\
                  (In d (st_marked st1) -> In d (st_marked st)) /\
                  (forall q, Priv st q -> In q (st_marked st1) -> In q (st_marked st)) /\ has_gate st1 d /\
                  (forall q, In q (st_anc st1) -> In q (st_anc st) \/ In q (st_marked st1)) /\
                  (forall q, Priv st q -> nc st q -> nc st1 q)).
        { intros e0 d1 st1 Hk Hc Hr.
          assert (Hpre : pre e0 (Some d) st).
          { split; [exact Hk|]. split; [exact I|]. intros d0 Hd0. injection Hd0 as <-.
            split; [exact (conj P1 (conj P2 P3))|]. split; [exact Hc|]. split; assumption. }
          destruct (Hrec e0 (Some d) st d1 st1 Hpre Hr) as (I1 & X1 & L1 & M1 & Q1 & G1 & AM1 & PN1 & _ & -> & V1).
          split; [reflexivity|]. split; [exact I1|]. split; [exact X1|]. split; [exact V1|]. split; [exact M1|].
          split; [exact Q1|]. split; [now apply G1|]. split; [|exact PN1].
          intros q Ha. destruct (AM1 q Ha) as [?|[->|?]]; [now left| |now right].
          left. destruct (x_anc_new _ _ _ X1 d Ha) as [?|?]; [assumption|lia]. }
        destruct e as [b|s|a|l|l|l|c t f|a b]; cbn [ok_expr] in Hoke; try discriminate.
        - (* symbol *)
          unfold qc_get in H. destruct (qm_get (st_qmap st) (NSym s)) as [q|] eqn:Eq; cbn [bind] in H; [|discriminate].
          apply qm_get_in in Eq. assert (Hqd : q <> d) by (intros ->; now apply (P2 (NSym s) Logic.I)).
          apply Nat.eqb_neq in Hqd. rewrite Hqd in H. apply Nat.eqb_neq in Hqd.
          destruct (g_cx q d st) as [st1|c] eqn:E1; cbn [bind] in H; [|discriminate].
          assert (Hqf : ~ In q (st_free st)).
          { intros Hf. apply (i_named st I (NSym s) q Eq Logic.I). now apply (i_free_anc st I). }
          destruct (priv_gate KCX [q; d] st st1 d I eq_refl E1 eq_refl P2 P3 (proj1 P1) Hfd Hncd)
            as (I1 & X1 & V1 & G1 & N1 & Q1 & A1 & K1 & M1 & O1 & _ & NC1).
          { cbn [removelast]. intros c [<-|[]]. exact Hqf. }
          exists st1. split; [exact H|]. split; [exact I1|]. split; [exact X1|].
          split; [rewrite V1; cbn [removelast forallb]; rewrite andb_true_r; now rewrite (i_sym st I s q Eq)|].
          rewrite M1, A1. split; [auto|]. split; [auto|]. split; [exact G1|]. split; [auto|].
          intros x (_ & Px & _) Hx. apply NC1; [exact Hx|]. cbn [removelast]. intros [E|[]]. subst x.
          now apply (Px (NSym s) Logic.I).
        - (* negation *)
          destruct (is_sym a) eqn:Esym.
          + destruct (rec (BNot a) (Some d) st) as [[d1 st1]|c] eqn:E1; cbn [bind] in H; [|discriminate].
            destruct (Hcall (BNot a) d1 st1 Hoke eq_refl E1) as (-> & R).
            exists st1. split; [exact H|exact R].
          + pose proof Hoke as Hoka.
            destruct (rec a (Some d) st) as [[d1 st1]|c] eqn:E1; cbn [bind] in H; [|discriminate].
            destruct (Hcall a d1 st1 Hoka (ok_not_sym_compound a Hoka Esym) E1)
              as (-> & I1 & X1 & V1 & M1 & Q1 & G1 & AM1 & PN1).
            destruct (g_x d st1) as [st2|c] eqn:E2; cbn [bind] in H; [|discriminate].
            destruct (Priv_ext d (Some d) st st1 X1 (conj P1 (conj P2 P3))) as (R1 & R2 & R3).
            destruct (priv_gate (K1 BX) [d] st1 st2 d I1 eq_refl E2 eq_refl R2 R3 (proj1 R1))
              as (I2 & X2 & V2 & G2 & N2 & Q2 & A2 & K2 & M2 & O2 & _ & NC2).
            { now rewrite (x_free _ _ _ X1). }
            { now apply PN1. }
            { cbn [removelast]. intros c []. }
            exists st2. split; [exact H|]. split; [exact I2|]. split; [eapply Ext_trans; eassumption|].
            split; [rewrite V2, V1, beval_not; cbn [removelast forallb]; destruct (V st d), (beval env a); reflexivity|].
            rewrite M2, A2. split; [auto|]. split; [auto|]. split; [exact G2|]. split; [exact AM1|].
            intros x Px Hx. apply NC2; [now apply PN1|cbn [removelast]; intros []].
        - destruct (rec (BAnd l) (Some d) st) as [[d1 st1]|c] eqn:E1; cbn [bind] in H; [|discriminate].
          destruct (Hcall (BAnd l) d1 st1 Hoke eq_refl E1) as (-> & R).
          exists st1. split; [exact H|exact R].
        - destruct (rec (BOr l) (Some d) st) as [[d1 st1]|c] eqn:E1; cbn [bind] in H; [|discriminate].
          destruct (Hcall (BOr l) d1 st1 Hoke eq_refl E1) as (-> & R).
          exists st1. split; [exact H|exact R].
        - destruct (rec (BXor l) (Some d) st) as [[d1 st1]|c] eqn:E1; cbn [bind] in H; [|discriminate].
          destruct (Hcall (BXor l) d1 st1 Hoke eq_refl E1) as (-> & R).
          exists st1. split; [exact H|exact R]. }
      destruct Hstep as (st1 & H1 & I1 & X1 & V1 & M1 & Q1 & G1 & AM1 & PN1).
      assert (P' : Priv st1 d) by (eapply Priv_ext; eassumption).
      assert (Hncd1 : nc st1 d) by now apply PN1.
      assert (Hfd1 : ~ In d (st_free st1)) by now rewrite (x_free _ _ _ X1).
      destruct (IH st1 d r st' Hokl I1 P' Hncd1 Hfd1 H1) as (-> & I2 & X2 & V2 & M2 & Q2 & G2 & AM2 & PN2).
      split; [reflexivity|]. split; [exact I2|]. split; [eapply Ext_trans; eassumption|].
      split; [rewrite V2, V1; cbn [map fold_right]; now rewrite xorb_assoc|].
      split; [auto|]. split; [|split; [|split]].
      + intros q Pq Hm. apply Q1; [exact Pq|]. apply Q2; [|exact Hm]. eapply Priv_ext; eassumption.
      + intros _. eapply has_gate_ext; eassumption.
      + intros q Ha. destruct (AM2 q Ha) as [Ha1|?]; [|now right].
        destruct (AM1 q Ha1) as [?|Hm]; [now left|right]. now apply (x_marked_sub _ _ _ X2).
      + intros q Pq Hn. apply PN2; [eapply Priv_ext; eassumption|now apply PN1].
  Qed.

  Lemma c_xor_spec args dest st r st' : pre (BXor args) dest st ->
    c_xor rec (BXor args) args dest st = Ok (r, st') -> post (BXor args) dest st r st'.
  Proof.
    intros (Hok & I & HP) H. cbn [ok_expr] in Hok. apply andb_true_iff in Hok as [Hokl Hne].
    assert (Hne' : args <> []) by (intros ->; discriminate).
    unfold c_xor in H.
    destruct (get_dest dest st) as [[d0 st0]|c] eqn:E0; cbn [bind] in H; [|discriminate].
    assert (HP0 : forall d1, dest = Some d1 -> Priv st d1) by (intros d1 Hd1; now apply HP).
    destruct (get_dest_spec dest st d0 st0 I HP0 E0) as (I0 & X0 & G0 & C0 & K0 & M0 & N0 & D0 & Q0 & R0 & T0).
    destruct (xor_args rec args d0 st0) as [[d st1]|c] eqn:E1; cbn [bind] in H; [|discriminate].
    assert (P0 : Priv st0 d0) by exact (conj D0 (conj Q0 R0)).
    assert (Hd0 : ~ In d0 (st_free st0) /\ nc st0 d0).
    { destruct dest as [d1|]; cbn [dest_facts] in T0.
      - destruct T0 as [-> ->]. destruct (HP d1 eq_refl) as (_ & _ & Hn & Hf). now split.
      - destruct T0 as (_ & _ & _ & _ & Hn & Hf & _). now split. }
    destruct (xor_args_spec args st0 d0 d st1 Hokl I0 P0 (proj2 Hd0) (proj1 Hd0) E1)
      as (-> & I1 & X1 & V1 & M1 & Q1 & G1 & AM1 & PN1).
    assert (Hfin : post (BXor args) dest st d0
              (if is_none dest then upd_cache (cache_set (BXor args) d0) (fold_left (fun S q => mark_ancilla q S) [] st1)
               else fold_left (fun S q => mark_ancilla q S) [] st1)).
    { refine (finish_spec (BXor args) dest st st d0 st0 st1 [] eq_refl I (Ext_refl None st) (fun q _ H0 => H0) HP0 X0 M0 (proj2 D0) T0 I1 X1 _ (G1 Hne') _ _ _ _ _ _ _).
      - rewrite V1, (V_same st st0 G0), beval_xor. reflexivity.
      - pose proof (x_nq _ _ _ X1). lia.
      - exact M1.
      - intros q Pq. apply Q1. eapply Priv_ext; eassumption.
      - intros q Ha. destruct (AM1 q Ha) as [Ha0|?]; [|right; right; now right].
        destruct dest as [d1|]; cbn [dest_facts] in T0; [destruct T0 as [_ ->]; now left|].
        destruct T0 as (_ & _ & _ & _ & _ & _ & Han). destruct (Han q Ha0) as [->|?]; [right; now left|now left].
      - intros q Pq Hn. apply PN1; [eapply Priv_ext; eassumption|]. apply (nc_same st); [exact G0|exact Hn].
      - apply PN1; [exact P0|exact (proj2 Hd0)].
      - intros w []. }
    cbn [fold_left] in Hfin. destruct dest; cbn [is_none] in H, Hfin; injection H as <- <-; exact Hfin.
  Qed.

  Lemma c_or_spec args dest st r st' : pre (BOr args) dest st ->
    c_or tbl rec (BOr args) args dest st = Ok (r, st') -> post (BOr args) dest st r st'.
  Proof.
    intros Hpre H. destruct (Nat.ltb 2 (length args)) eqn:El.
    - destruct Hpre as (Hok & I & HP). unfold c_or in H. rewrite El in H.
      destruct (or_lookup tbl (BOr args) args) as [e'|] eqn:Eo; [|discriminate].
      destruct (or_lookup_props _ _ _ Eo) as (Hv & Hok' & Hc').
      assert (Hpre' : pre e' dest st).
      { split; [exact Hok'|]. split; [exact I|]. intros d Hd. destruct (HP d Hd) as (A & _ & B). split; [exact A|]. split; [exact Hc'|exact B]. }
      destruct (Hrec e' dest st r st' Hpre' H) as (I1 & X1 & Hlt & M1 & P1 & G1 & AM1 & PN1 & NF1 & R1).
      unfold post. split; [exact I1|]. split; [exact X1|]. split; [exact Hlt|]. split; [exact M1|]. split; [exact P1|].
      split; [intros _; now apply G1|]. split; [exact AM1|]. split; [exact PN1|]. split; [exact NF1|].
      destruct dest as [d|].
      + now rewrite <- Hv.
      + destruct R1 as [R1 R2]. split; [now rewrite <- Hv|]. cbn [res_class].
        destruct e'; try discriminate; cbn [res_class] in R2; tauto.
    - destruct Hpre as (Hok & I & HP). pose proof Hok as Hok2. cbn [ok_expr] in Hok2. rewrite El in Hok2.
      destruct args as [|e1 [|e2 [|e3 t]]]; try discriminate.
      apply c_or_bin_spec; [|exact H]. split; [exact Hok|]. split; [exact I|exact HP].
  Qed.

  (* the expression is already held by a qubit (compile_expr step 3) *)
  Lemma cached_spec e dest st iret r st' : compound e = true -> pre e dest st -> In (e, iret) (st_cache st) ->
    match dest with
    | Some d => if negb (Nat.eqb iret d)
                then let* S1 := g_cx iret d st in Ok (d, mark_ancilla iret S1)
                else Ok (iret, st)
    | None => Ok (iret, st)
    end = Ok (r, st') -> post e dest st r st'.
  Proof.
    intros Hc (Hok & I & HP) Hin H. destruct dest as [d|].
    - destruct (HP d eq_refl) as ((P1 & P2 & P3) & _ & Hncd & Hfd).
      assert (Hne : iret <> d) by (intros ->; now apply (P3 e)).
      apply Nat.eqb_neq in Hne. rewrite Hne in H. cbn [negb] in H.
      destruct (g_cx iret d st) as [st1|c] eqn:E1; cbn [bind] in H; [|discriminate]. injection H as <- <-.
      pose proof (i_free_cache st I e iret Hin) as Hif.
      destruct (priv_gate KCX [iret; d] st st1 d I eq_refl E1 eq_refl P2 P3 (proj1 P1) Hfd Hncd)
        as (I1 & X1 & V1 & G1 & N1 & Q1 & A1 & K1 & M1 & O1 & _ & NC1).
      { cbn [removelast]. intros c [<-|[]]. exact Hif. }
      destruct (mark_fields iret st1) as (F1 & F2 & F3 & F4 & F5 & F6 & F7 & F8 & F9 & F10 & F11).
      assert (Hg : In iret (st_anc st1) -> has_gate st1 iret).
      { intros Ha. rewrite A1 in Ha. eapply has_gate_ext; [exact X1|]. exact (i_cache_gate st I e iret Hin Ha). }
      apply Nat.eqb_neq in Hne.
      unfold post. split; [apply Inv_mark; [exact I1|exact Hg|now rewrite (x_free _ _ _ X1)]|].
      split; [eapply Ext_trans; [exact X1|now apply Ext_mark]|].
      split; [rewrite F3, N1; exact (proj2 P1)|].
      split. { intros Hm. destruct (F8 d Hm) as [[E _]|Hm']; [congruence|]. now rewrite M1 in Hm'. }
      split. { intros q (_ & _ & Q3) Hm. destruct (F8 q Hm) as [[-> _]|Hm']; [exfalso; now apply (Q3 e)|]. now rewrite M1 in Hm'. }
      split. { intros _. destruct G1 as (g & Hg1 & Hg2). exists g. now rewrite F2. }
      split. { intros q Ha. rewrite F5, A1 in Ha. now left. }
      split. { intros q (_ & _ & Q3) Hn. apply (nc_same st1); [exact F1|]. apply NC1; [exact Hn|].
               cbn [removelast]. intros [E|[]]. subst q. now apply (Q3 e). }
      split; [discriminate|].
      split; [reflexivity|]. rewrite (V_same st1 _ F1), V1. cbn [removelast forallb]. rewrite andb_true_r.
      now rewrite (i_cache st I e iret Hin).
    - injection H as <- <-. pose proof (i_cache_anc st I e iret Hin Hc) as Ha.
      pose proof (i_cache_lt st I e iret Hin) as Hlt.
      unfold post. split; [exact I|]. split; [apply Ext_refl|]. split; [exact Hlt|].
      split; [auto|]. split; [auto|]. split; [intros _; exact (i_cache_gate st I e iret Hin Ha)|].
      split; [auto|]. split; [auto|]. split; [intros _ Hle; lia|].
      split; [exact (i_cache st I e iret Hin)|].
      assert (Hcl : In iret (st_anc st) /\ (st_nq st <= iret \/ exists k, In (k, iret) (st_cache st))).
      { split; [exact Ha|]. right; now exists e. }
      destruct e; try discriminate; exact Hcl.
  Qed.

  (* compile_expr, for every `sym` that does not trigger the two special cases
     (they are treated at the level of the statement) *)
  Lemma c_expr_spec e dest sym st r st' : pre e dest st ->
    (forall a, e = BNot a -> self_not a sym = false) ->
    (is_sym e = true -> match sym with Some (_, true) => False | _ => True end) ->
    c_expr n tbl rec e dest sym st = Ok (r, st') -> post e dest st r st'.
  Proof.
    intros Hpre Hself Hsym H. pose proof Hpre as (Hok & I & HP).
    destruct e as [b|s|a|l|l|l|c t f|a b]; cbn [ok_expr] in Hok; try discriminate.
    - (* symbol *)
      assert (Hd : dest = None) by (destruct dest as [d|]; [destruct (HP d eq_refl) as (_ & Hc & _); discriminate|reflexivity]).
      subst dest. cbn [c_expr] in H.
      assert (H' : (let* q := qc_get st (NSym s) in Ok (q, st)) = Ok (r, st')).
      { unfold c_symbol in H. destruct sym as [[s' [|]]|]; [exfalso; now apply Hsym|exact H|exact H]. }
      unfold qc_get in H'. destruct (qm_get (st_qmap st) (NSym s)) as [q|] eqn:Eq; cbn [bind] in H'; [|discriminate].
      injection H' as <- <-. apply qm_get_in in Eq. pose proof (i_qmap_lt st I _ _ Eq) as Hlt.
      unfold post. split; [exact I|]. split; [apply Ext_refl|]. split; [exact Hlt|].
      split; [auto|]. split; [auto|]. split; [discriminate|]. split; [auto|]. split; [auto|].
      split; [intros _ Hle; lia|]. split; [exact (i_sym st I s q Eq)|exact Eq].
    - cbn [c_expr] in H. destruct (cache_get (st_cache st) (BNot a)) as [iret|] eqn:Ec.
      + apply cache_get_in in Ec. now apply (cached_spec (BNot a) dest st iret r st' eq_refl Hpre Ec).
      + apply c_not_spec with (sym := sym); auto.
    - cbn [c_expr] in H. destruct (cache_get (st_cache st) (BAnd l)) as [iret|] eqn:Ec.
      + apply cache_get_in in Ec. now apply (cached_spec (BAnd l) dest st iret r st' eq_refl Hpre Ec).
      + now apply (c_and_spec (BAnd l) l).
    - cbn [c_expr] in H. destruct (cache_get (st_cache st) (BOr l)) as [iret|] eqn:Ec.
      + apply cache_get_in in Ec. now apply (cached_spec (BOr l) dest st iret r st' eq_refl Hpre Ec).
      + now apply c_or_spec.
    - cbn [c_expr] in H. destruct (cache_get (st_cache st) (BXor l)) as [iret|] eqn:Ec.
      + apply cache_get_in in Ec. now apply (cached_spec (BXor l) dest st iret r st' eq_refl Hpre Ec).
      + now apply c_xor_spec.
  Qed.
  End WithRec.

  Theorem cexpr_spec fuel : rec_spec (cexpr fuel n tbl).
  Proof.
    induction fuel as [|f IH]; intros e dest st r st' Hpre H; [discriminate|].
    cbn [cexpr] in H. apply (c_expr_spec (cexpr f n tbl) IH e dest None st r st' Hpre); auto.
    intros a _. now destruct a.
  Qed.

  (* ------------------------------------------------------------------ *)
  (* Part 4: statements *)
  Lemma append_objs_spec R : forall st st1,
    fold_left (fun r g => let* S' := r in append_obj g S') R (Ok st) = Ok st1 ->
    st1 = set_comp (st_comp st ++ R) (set_gates (st_gates st ++ R) st).
  Proof.
    induction R as [|g R IH]; intros st st1; cbn [fold_left].
    - intros H. injection H as <-. destruct st. sts. unfold set_comp, set_gates. sts. now rewrite !app_nil_r.
    - cbn [bind]. unfold append_obj at 2.
      destruct (forallb (fun x => Nat.ltb x (st_nq st)) (cg_qs g) && nodupb (cg_qs g)).
      + intros H. apply IH in H. rewrite H. unfold set_comp, set_gates. sts. now rewrite <- !app_assoc.
      + assert (E : forall l, fold_left (fun r g0 => let* S' := r in append_obj g0 S') l (@Err cst 5) = Err 5)
          by (induction l; auto).
        rewrite E. discriminate.
  Qed.

  Lemma fold_sadd_in (f : cgate -> nat) R : forall u q,
    In q (fold_left (fun u g => sadd (f g) u) R u) <-> In q u \/ exists g, In g R /\ f g = q.
  Proof.
    induction R as [|g R IH]; intros u q; cbn [fold_left].
    - split; [auto|]. intros [H|(g & [] & _)]; exact H.
    - rewrite IH, sadd_in. split.
      + intros [[->|H]|(g0 & Hg & E)]; [right; exists g; split; [now left|reflexivity]|now left|right; exists g0; split; [now right|exact E]].
      + intros [H|(g0 & [<-|Hg] & E)]; [left; now right|left; now left|right; now exists g0].
  Qed.

  Lemma fold_sadd_nat l : forall u q, In q (fold_left (fun f x => sadd x f) l u) <-> In q u \/ In q l.
  Proof.
    induction l as [|x l IH]; intros u q; cbn [fold_left]; [cbn; tauto|].
    rewrite IH, sadd_in. cbn [In]. split; [intros [[->|H]|H]; auto|intros [H|[->|H]]; auto].
  Qed.

  Lemma filter_two {A} (h f g : A -> bool) l : (forall x, h x = g x && f x) -> filter h l = filter f (filter g l).
  Proof.
    intros E. induction l as [|x l IH]; [reflexivity|]. cbn [filter]. rewrite E.
    destruct (g x); cbn [andb filter]; [destruct (f x); now rewrite IH|exact IH].
  Qed.

  Lemma filter_none {A} (f : A -> bool) l : (forall x, In x l -> f x = false) -> filter f l = [].
  Proof.
    induction l as [|x l IH]; intros H; [reflexivity|]. cbn [filter]. rewrite (H x (or_introl eq_refl)).
    apply IH. intros y Hy. apply H. now right.
  Qed.

  Lemma sdiff_nil a : sdiff a [] = a.
  Proof. unfold sdiff. induction a as [|x a IH]; [reflexivity|]. cbn [filter mem_nat negb]. now rewrite IH. Qed.

  (* inside the class no marked ancilla is ever blocked: the gates computing an
     ancilla that is not free are controlled by qubits that are not free *)
  Lemma blocked_nil st : Inv st -> blocked_of st = [].
  Proof.
    intros I0. unfold blocked_of.
    assert (H : forall l, (forall g, In g l -> In g (st_comp st)) ->
      fold_left (fun b g => if mem_nat (tgt g) (st_marked st) && existsb (fun c => mem_nat c (st_free st)) (ctrls g)
                            then sadd (tgt g) b else b) l [] = []).
    { induction l as [|g l IH]; intros Hl; [reflexivity|]. cbn [fold_left].
      destruct (mem_nat (tgt g) (st_marked st)) eqn:Em; cbn [andb]; [|apply IH; intros g0 Hg0; apply Hl; now right].
      apply mem_nat_in in Em.
      assert (Hg : In g (st_gates st)).
      { pose proof (Hl g (or_introl eq_refl)) as Hc. rewrite (i_compf st I0) in Hc. now apply filter_In in Hc. }
      assert (Ex : existsb (fun c => mem_nat c (st_free st)) (ctrls g) = false).
      { destruct (existsb (fun c => mem_nat c (st_free st)) (ctrls g)) eqn:Ee; [|reflexivity]. exfalso.
        apply existsb_exists in Ee as (c & Hc & Hf). apply mem_nat_in in Hf.
        exact (i_alive st I0 g Hg (proj1 (i_marked st I0 _ Em)) (i_free_marked st I0 _ Em) c Hc Hf). }
      rewrite Ex. apply IH. intros g0 Hg0. apply Hl. now right. }
    apply H. auto.
  Qed.

  (* the inline uncompute: every marked ancilla is back to zero *)
  Lemma uncompute_spec st unc st4 : Inv st -> uncompute st = Ok (unc, st4) ->
    (forall q, In q (st_anc st) -> In q (st_free st) \/ In q (st_marked st)) ->
    let st' := upd_cache (cache_remove unc) st4 in
    Inv st' /\ st_marked st' = [] /\ st_qmap st' = st_qmap st /\ st_nq st' = st_nq st /\
    (forall q, ~ In q (st_marked st) -> V st' q = V st q) /\
    st_anc st' = st_anc st /\ (forall q, In q (st_anc st') -> In q (st_free st')).
  Proof.
    intros I0 H HB st'. unfold uncompute in H. rewrite (blocked_nil st I0) in H. unfold uncompute_with in H.
    rewrite sdiff_nil in H. destruct (st_marked st) as [|m0 ms] eqn:Em.
    - injection H as <- <-. subst st'. split; [|split; [exact Em|split; [reflexivity|split; [reflexivity|split; [auto|split; [reflexivity|]]]]]].
      + destruct I0. constructor; sts; auto.
        * intros e q Hin. apply cache_remove_in in Hin as [Hin _]. eauto.
        * intros e q Hin. apply cache_remove_in in Hin as [Hin _]. change (V st q = beval env e). eauto.
        * intros e1 e2 q H1 H2. apply cache_remove_in in H1 as [H1 _]. apply cache_remove_in in H2 as [H2 _]. eauto.
        * intros e q Hin. apply cache_remove_in in Hin as [Hin _]. eauto.
        * intros e q Hin. apply cache_remove_in in Hin as [Hin _]. eauto.
        * intros e q Hin. apply cache_remove_in in Hin as [Hin _]. eauto.
      + sts. intros q Hq. destruct (HB q Hq) as [?|[]]. assumption.
    - rewrite <- Em in H, HB |- *. set (marked := st_marked st) in *.
      set (R := filter (fun g => mem_nat (tgt g) marked) (rev (st_comp st))) in *.
      set (K := filter (fun g => negb (mem_nat (tgt g) marked)) (rev (st_comp st))) in *.
      destruct (fold_left (fun r g => let* S' := r in append_obj g S') R (Ok st)) as [st1|c] eqn:E1; cbn [bind] in H; [|discriminate].
      apply append_objs_spec in E1. injection H as <- <-.
      set (unc := fold_left (fun u g => sadd (tgt g) u) R []) in *.
      assert (HR : forall g, In g R <-> In g (st_comp st) /\ In (tgt g) marked).
      { intros g. unfold R. rewrite filter_In, <- in_rev, mem_nat_in. tauto. }
      assert (HK : forall g, In g K <-> In g (st_comp st) /\ ~ In (tgt g) marked).
      { intros g. unfold K. rewrite filter_In, <- in_rev, negb_true_iff, mem_nat_false. tauto. }
      assert (Hunc : forall q, In q unc <-> exists g, In g R /\ tgt g = q).
      { intros q. unfold unc. rewrite fold_sadd_in. split; [intros [[]|H]; exact H|auto]. }
      assert (Hmu : forall q, In q marked -> In q unc).
      { intros q Hq. apply Hunc. destruct (i_marked st I0 q Hq) as (_ & g & Hg & Ht). exists g. split; [|exact Ht].
        apply HR. split; [exact Hg|now rewrite Ht]. }
      assert (Hum : forall q, In q unc -> In q marked).
      { intros q Hq. apply Hunc in Hq as (g & Hg & <-). now apply HR in Hg. }
      assert (HV : forall q, ~ In q marked -> V st' q = V st q).
      { intros q Hq. subst st'. unfold V. sts. rewrite E1. sts. rewrite grun_app. apply grun_other.
        intros g Hg <-. apply Hq. now apply HR in Hg. }
      assert (Hm' : sdiff marked unc = []).
      { destruct (sdiff marked unc) as [|x l] eqn:Ed; [reflexivity|]. exfalso.
        assert (Hx : In x (sdiff marked unc)) by (rewrite Ed; now left).
        apply sdiff_in in Hx as [Hx1 Hx2]. apply Hx2. now apply Hmu. }
      assert (Hnm : forall k q, In (k, q) (st_qmap st) -> named k -> ~ In q marked).
      { intros k q Hin Hk Hq. apply (i_named st I0 k q Hin Hk). now apply (i_marked st I0 q Hq). }
      set (free' := fold_left (fun f x => sadd x f) marked (st_free st)).
      assert (Hf' : forall q, In q free' <-> In q (st_free st) \/ In q marked) by (intros q; apply fold_sadd_nat).
      assert (Hmf : forall q, In q marked -> ~ In q (st_free st)) by (intros q; apply (i_free_marked st I0)).
      (* the replayed gates are the reverse of the gates on the marked qubits *)
      assert (ER : R = rev (subU marked (st_gates st))).
      { unfold R. rewrite filter_rev. f_equal. rewrite (i_compf st I0). unfold subU. symmetry.
        apply filter_two. intros g. destruct (mem_nat (tgt g) marked) eqn:E; [|now rewrite andb_false_r].
        apply mem_nat_in in E. apply Hmf in E. apply mem_nat_false in E. now rewrite E. }
      assert (Hsc : sc marked (st_gates st)).
      { apply (wp_sc (st_free st)); [exact (i_wp st I0)|]. intros g Hg Ht c Hc Hcf. exfalso.
        exact (i_alive st I0 g Hg (proj1 (i_marked st I0 _ Ht)) (Hmf _ Ht) c Hc Hcf). }
      assert (Hgo : forall g, In g (st_gates st) -> ~ In (tgt g) (ctrls g)).
      { intros g Hg. pose proof (i_gates st I0) as Hf. rewrite Forall_forall in Hf. eapply gate_ok_tgt_ctrls. now apply Hf. }
      assert (Hzm : forall q, In q marked -> V st' q = false).
      { intros q Hq. subst st'. unfold V. sts. rewrite E1. sts. rewrite ER.
        rewrite (replay_restores marked (st_gates st) Hsc Hgo).
        assert (E : mem_nat q marked = true) by now apply mem_nat_in. rewrite E. unfold b0.
        destruct (i_marked st I0 q Hq) as (_ & g & Hg & <-). pose proof (i_ctgt st I0) as Hc.
        rewrite Forall_forall in Hc. specialize (Hc g Hg). destruct (Nat.ltb_spec (tgt g) n); [lia|reflexivity]. }
      subst st'. rewrite E1 in *. sts. fold free'.
      split; [|split; [exact Hm'|split; [reflexivity|split; [reflexivity|split; [exact HV|split; [reflexivity|]]]]]].
      2: { intros q Hq. apply Hf'. now apply HB. }
      destruct I0. constructor; sts; auto.
      + apply Forall_app. split; [assumption|]. apply Forall_forall. intros g Hg. apply HR in Hg as [Hg _].
        rewrite Forall_forall in i_comp0. now apply i_comp0.
      + apply Forall_forall. intros g Hg. rewrite <- in_rev in Hg. apply HK in Hg as [Hg _].
        rewrite Forall_forall in i_comp0. now apply i_comp0.
      + apply Forall_app. split; [assumption|]. apply Forall_forall. intros g Hg. apply HR in Hg as [Hg _].
        rewrite Forall_forall in i_ctgt0. now apply i_ctgt0.
      + apply Forall_forall. intros g Hg. rewrite <- in_rev in Hg. apply HK in Hg as [Hg _].
        rewrite Forall_forall in i_ctgt0. now apply i_ctgt0.
      + intros s q Hin. rewrite HV; [eauto|]. now apply (Hnm (NSym s)).
      + intros q Hin. rewrite HV; [eauto|]. now apply (Hnm NTrue).
      + intros q Hin. rewrite HV; [eauto|]. now apply (Hnm NFalse).
      + intros e q Hin. apply cache_remove_in in Hin as [Hin _]. eauto.
      + intros e q Hin. apply cache_remove_in in Hin as [Hin Hn]. rewrite HV; eauto.
      + intros e1 e2 q H1 H2. apply cache_remove_in in H1 as [H1 _]. apply cache_remove_in in H2 as [H2 _]. eauto.
      + intros e q Hin. apply cache_remove_in in Hin as [Hin _]. eauto.
      + intros e q Hin Ha. apply cache_remove_in in Hin as [Hin Hn].
        destruct (i_cache_gate0 e q Hin Ha) as (g & Hg & Ht). exists g. split; [|exact Ht].
        rewrite <- in_rev. apply HK. split; [exact Hg|]. rewrite Ht. intros Hq. apply Hn. now apply Hmu.
      + rewrite Hm'. intros q [].
      + intros q Hle. rewrite HV; auto. intros Hq. apply i_marked0 in Hq as [Hq _]. apply i_anc_lt0 in Hq. lia.
      + intros q Hq. apply Hf' in Hq as [Hq|Hq]; [eauto|]. now apply i_marked0 in Hq as [Hq _].
      + intros e q Hin Hq. apply cache_remove_in in Hin as [Hin Hn]. apply Hf' in Hq as [Hq|Hq]; [eapply i_free_cache0; eauto|].
        apply Hn. now apply Hmu.
      + rewrite Hm'. intros q [].
      + unfold K. rewrite filter_rev, rev_involutive, filter_app.
        rewrite (filter_none _ R).
        2: { intros g Hg. apply negb_false_iff. apply mem_nat_in. apply Hf'. right. now apply HR in Hg. }
        rewrite app_nil_r, i_compf0. symmetry. apply filter_two. intros g.
        destruct (mem_nat (tgt g) free') eqn:E.
        * apply mem_nat_in in E. apply Hf' in E as [E|E].
          -- apply mem_nat_in in E. now rewrite E.
          -- apply mem_nat_in in E. rewrite E. now rewrite andb_false_r.
        * apply mem_nat_false in E.
          assert (E1' : mem_nat (tgt g) (st_free st) = false) by (apply mem_nat_false; intros Hq; apply E; apply Hf'; now left).
          assert (E2' : mem_nat (tgt g) marked = false) by (apply mem_nat_false; intros Hq; apply E; apply Hf'; now right).
          now rewrite E1', E2'.
      + apply wp_app.
        * eapply wp_mono; [|exact i_wp0]. intros x Hx. apply Hf'. now left.
        * apply wp_all_tgt. intros g Hg. apply Hf'. right. now apply HR in Hg.
        * intros g Hg. left. apply Hf'. right. now apply HR in Hg.
      + intros g Hg Ha Hf. exfalso. apply Hf. apply Hf'. now apply HB.
      + intros q Hq. apply Hf' in Hq as [Hq|Hq]; [|now apply Hzm].
        rewrite HV; [eauto|]. intros Hm. now apply (Hmf q Hm).
  Qed.

  Lemma map_qubit_fields nm index st : let st' := map_qubit nm index true st in
    st_gates st' = st_gates st /\ st_comp st' = st_comp st /\ st_nq st' = st_nq st /\
    st_marked st' = st_marked st /\ st_cache st' = st_cache st /\ st_orc st' = st_orc st /\ st_free st' = st_free st /\
    (forall q, In q (st_anc st') -> In q (st_anc st)) /\ ~ In index (st_anc st') /\
    (forall q, In q (st_anc st) -> q <> index -> In q (st_anc st')) /\
    (forall k q, In (k, q) (st_qmap st') -> (k = nm /\ q = index) \/ In (k, q) (st_qmap st)).
  Proof.
    intros st'. subst st'. unfold map_qubit. cbn [andb]. destruct (mem_nat index (st_anc st)) eqn:Em.
    - destruct (key_by_index (st_qmap (set_anc (srem index (st_anc st)) st)) index) as [k0|]; sts;
        (repeat split; auto;
         [intros q Hq; now apply srem_in in Hq|intros Hq; apply srem_in in Hq; tauto|
          intros q Hq Hne; apply srem_in; tauto|]).
      + intros k q Hin. apply qm_set_in in Hin as [?|Hin]; [now left|right]. now apply qm_del_in in Hin.
      + intros k q Hin. apply qm_set_in in Hin as [?|Hin]; [now left|now right].
    - apply mem_nat_false in Em. sts. repeat split; auto.
      intros k q Hin. apply qm_set_in in Hin as [?|Hin]; [now left|now right].
  Qed.

  (* 2.2 of compile: bind the symbol to the result qubit, promoting it *)
  Lemma Inv_map_qubit s iret st :
    Inv st -> iret < st_nq st -> V st iret = env s -> ~ In iret (st_marked st) ->
    (forall e', In (e', iret) (st_cache st) -> compound e' = false) -> ~ In iret (st_free st) ->
    Inv (map_qubit (NSym s) iret true st).
  Proof.
    intros I0 Hlt Hv Hnm Hce Hnf.
    destruct (map_qubit_fields (NSym s) iret st) as (F1 & F2 & F3 & F4 & F5 & F6 & F7 & A1 & A2 & A3 & Q).
    set (st' := map_qubit (NSym s) iret true st) in *.
    assert (HV : forall q, V st' q = V st q) by (intros q; apply V_same; exact F1).
    destruct I0. constructor; rewrite ?F1, ?F2, ?F3, ?F4, ?F5, ?F6, ?F7; auto.
    - intros k q Hin. destruct (Q k q Hin) as [[-> ->]|Hin']; eauto.
    - intros s0 q Hin. rewrite HV. destruct (Q _ _ Hin) as [[E ->]|Hin']; [injection E as ->; exact Hv|eauto].
    - intros q Hin. rewrite HV. destruct (Q _ _ Hin) as [[E _]|Hin']; [discriminate|eauto].
    - intros q Hin. rewrite HV. destruct (Q _ _ Hin) as [[E _]|Hin']; [discriminate|eauto].
    - intros k q Hin Hk Ha. destruct (Q _ _ Hin) as [[-> ->]|Hin']; [contradiction|].
      apply (i_named0 k q Hin' Hk). now apply A1.
    - intros e q Hin. rewrite HV. eauto.
    - intros e q Hin Hc. apply A3; [eauto|]. intros ->. rewrite (Hce e Hin) in Hc. discriminate.
    - intros e q Hin Ha. apply A1 in Ha. eauto.
    - intros q Hm. destruct (i_marked0 q Hm) as (Ha & Hg). split; [|exact Hg]. apply A3; [exact Ha|]. intros ->. contradiction.
    - intros q Hle. rewrite HV. eauto.
    - intros q Hq. apply A3; [eauto|]. intros ->. contradiction.
    - intros g Hg Ha Hf. apply A1 in Ha. eauto.
    - intros q Hq. rewrite HV. eauto.
  Qed.

  (* a new named qubit, prepared by gates acting on it alone (TRUE, FALSE, a return
     bit that copies an argument) *)
  Lemma Inv_new_named st k gs nx st' :
    Inv st -> named k ->
    Forall (fun g => gate_ok (S (st_nq st)) g /\ tgt g = st_nq st) gs ->
    (forall g c, In g gs -> In c (ctrls g) -> ~ In c (st_free st)) ->
    st' = mkst (st_gates st ++ gs) (st_comp st ++ gs) (S (st_nq st)) (qm_set (st_qmap st) k (st_nq st))
               (st_anc st) (st_free st) (st_res st) (st_marked st) (st_cache st) nx (st_orc st) ->
    V st' (st_nq st) = match k with NSym s => env s | NTrue => true | NFalse => false | NAnc _ => false end ->
    Inv st'.
  Proof.
    intros I0 Hk Hgs Hgf -> Hv.
    set (st' := mkst _ _ _ _ _ _ _ _ _ _ _) in *.
    assert (HV : forall q, q <> st_nq st -> V st' q = V st q).
    { intros q Hne. unfold V. subst st'. sts. rewrite grun_app. apply grun_other. intros g Hg <-.
      rewrite Forall_forall in Hgs. now apply Hgs in Hg as [_ Ht]. }
    destruct I0. constructor; subst st'; sts; auto.
    - apply Forall_app. split; [|eapply Forall_impl; [|exact Hgs]; intros g Hg; apply Hg].
      eapply Forall_impl; [|exact i_gates0]. intros g. apply gate_ok_mono. lia.
    - apply Forall_app. split; [|eapply Forall_impl; [|exact Hgs]; intros g Hg; apply Hg].
      eapply Forall_impl; [|exact i_comp0]. intros g. apply gate_ok_mono. lia.
    - apply Forall_app. split; [assumption|]. eapply Forall_impl; [|exact Hgs]. intros g [_ Hg]. rewrite Hg. exact i_n0.
    - apply Forall_app. split; [assumption|]. eapply Forall_impl; [|exact Hgs]. intros g [_ Hg]. rewrite Hg. exact i_n0.
    - intros k0 q H. apply qm_set_in in H as [[-> ->]|H]; [lia|]. apply i_qmap_lt0 in H. lia.
    - intros s q H. apply qm_set_in in H as [[<- ->]|H]; [exact Hv|]. rewrite HV; [eauto|]. apply i_qmap_lt0 in H. lia.
    - intros q H. apply qm_set_in in H as [[<- ->]|H]; [exact Hv|]. rewrite HV; [eauto|]. apply i_qmap_lt0 in H. lia.
    - intros q H. apply qm_set_in in H as [[<- ->]|H]; [exact Hv|]. rewrite HV; [eauto|]. apply i_qmap_lt0 in H. lia.
    - intros k0 q H Hn. apply qm_set_in in H as [[-> ->]|H]; [|eauto]. intros Ha. apply i_anc_lt0 in Ha. lia.
    - intros e q H. apply i_cache_lt0 in H. lia.
    - intros e q H. rewrite HV; [eauto|]. apply i_cache_lt0 in H. lia.
    - intros e q H Ha. destruct (i_cache_gate0 e q H Ha) as (g & Hg & Ht). exists g. split; [apply in_or_app; now left|exact Ht].
    - intros q H. apply i_anc_lt0 in H. lia.
    - intros q H. destruct (i_marked0 q H) as (Ha & g & Hg & Ht). split; [exact Ha|]. exists g. split; [apply in_or_app; now left|exact Ht].
    - intros q H. rewrite HV by lia. apply i_zero0. lia.
    - assert (Hnf : ~ In (st_nq st) (st_free st)) by (intros Hf; apply i_free_anc0, i_anc_lt0 in Hf; lia).
      rewrite filter_app, <- i_compf0. f_equal. symmetry. clear Hv HV. induction Hgs as [|g r [_ Hg] _ IH]; [reflexivity|].
      cbn [filter]. rewrite Hg. apply mem_nat_false in Hnf. rewrite Hnf. cbn [negb]. f_equal. apply IH.
      intros g0 c H0. apply Hgf. now right.
    - apply wp_app; [assumption| |].
      + clear Hv HV Hgf. induction Hgs as [|g r [Hgo Hg] Hr IH]; [exact Logic.I|]. cbn [wp]. split; [|exact IH].
        intros c Hc g' Hg' Ht. exfalso. rewrite Forall_forall in Hr. destruct (Hr g' Hg') as [_ Hg'']. rewrite Hg'' in Ht. subst c.
        apply (gate_ok_tgt_ctrls _ _ Hgo). now rewrite Hg.
      + intros g' Hg'. right. intros g Hg Hc. rewrite Forall_forall in Hgs. destruct (Hgs g' Hg') as [_ E]. rewrite E in Hc.
        rewrite Forall_forall in i_gates0. pose proof (gate_ok_ctrls_lt0 _ _ _ (i_gates0 g Hg) Hc). lia.
    - intros g Hg Ha Hf c Hc. apply in_app_or in Hg as [Hg|Hg]; [eauto|]. now apply (Hgf g c).
    - intros q H. rewrite HV; [eauto|]. apply i_free_anc0, i_anc_lt0 in H. lia.
  Qed.

  Variable is_temp : nat -> bool.
  Definition is_const (e : bexp) : bool := match e with BConst _ => true | _ => false end.
  (* the statements the theorem covers: the target is not a "__" temporary, no
     symbol read is a return bit, and the right-hand side is either a compound
     expression of the covered shape, or (for a return bit only) a bare symbol or
     a constant *)
  Definition stmt_shape (se : nat * bexp) : bool :=
    negb (is_temp (fst se)) && (ok_expr (snd se) || is_const (snd se)).

  (* between two statements: nothing is marked and every ancilla has been uncomputed *)
  Definition BInv (st : cst) : Prop :=
    Inv st /\ st_marked st = [] /\ (forall q, In q (st_anc st) -> In q (st_free st)).

  Lemma qm_get_set_same m k v : qm_get (qm_set m k v) k = Some v.
  Proof.
    induction m as [|[k' v'] r IH]; cbn [qm_set qm_get].
    - assert (E : qname_eqb k k = true) by now apply qname_eqb_eq. now rewrite E.
    - destruct (qname_eqb k k') eqn:E; cbn [qm_get].
      + assert (E' : qname_eqb k k = true) by now apply qname_eqb_eq. now rewrite E'.
      + rewrite E. exact IH.
  Qed.

  Definition top_goal (s : nat) (st : cst) (iret : nat) (st1 : cst) : Prop :=
    Inv st1 /\ iret < st_nq st1 /\ V st1 iret = env s /\ ~ In iret (st_marked st1) /\
    (In iret (st_anc st1) -> has_gate st1 iret) /\
    st_free st1 = st_free st /\ ~ In iret (st_free st1) /\
    (forall q, In q (st_anc st1) -> In q (st_anc st) \/ q = iret \/ In q (st_marked st1)).

  Lemma top_expr_spec s e st iret st1 :
    BInv st -> stmt_shape (s, e) = true -> ~ In s (bsyms e) -> env s = beval env e ->
    c_expr n tbl (cexpr (fuel_for e) n tbl) e None (Some (s, isret s)) st = Ok (iret, st1) ->
    top_goal s st iret st1.
  Proof.
    intros (I0 & Hm0 & Hb0) Hsh Hns Henv H. unfold stmt_shape in Hsh. cbn [fst snd] in Hsh.
    apply andb_true_iff in Hsh as [_ Hcase].
    assert (Hcomp : compound e = true -> ok_expr e = true -> top_goal s st iret st1).
    { intros Hc Hok.
      assert (Hpre : pre e None st) by (split; [exact Hok|split; [exact I0|intros d Hd; discriminate]]).
      assert (Hpost : post e None st iret st1).
      { apply (c_expr_spec (cexpr (fuel_for e) n tbl) (cexpr_spec _) e None (Some (s, isret s)) st iret st1 Hpre); auto.
        - intros a -> . destruct a; try reflexivity. cbn [self_not]. apply Nat.eqb_neq. intros ->. apply Hns. now left.
        - intros Hs. destruct e; discriminate. }
      destruct Hpost as (I1 & X1 & Hlt & M1 & _ & G1 & AM1 & _ & _ & Hv & Hcl).
      split; [exact I1|]. split; [exact Hlt|]. split; [now rewrite Hv|].
      split; [intros Hm; apply M1 in Hm; now rewrite Hm0 in Hm|]. split; [intros _; now apply G1|].
      split; [exact (x_free _ _ _ X1)|]. split; [exact (class_not_free e st st1 iret Hok I0 I1 X1 Hcl)|exact AM1]. }
    assert (Hnamed : forall k q, In (k, q) (st_qmap st) -> named k -> ~ In q (st_free st)).
    { intros k q Hin Hk Hf. apply (i_named st I0 k q Hin Hk). now apply (i_free_anc st I0). }
    assert (Hold : forall k q v, named k -> In (k, q) (st_qmap st) -> V st q = v -> env s = v -> top_goal s st q st).
    { intros k q v Hk Eq Hv Hs.
      split; [exact I0|]. split; [exact (i_qmap_lt st I0 _ _ Eq)|]. split; [congruence|].
      split; [now rewrite Hm0|]. split; [intros Ha; exfalso; exact (i_named st I0 _ _ Eq Hk Ha)|].
      split; [reflexivity|]. split; [now apply (Hnamed k)|]. intros x Hx. now left. }
    assert (Hnew : forall k gs nx st2, named k ->
       Forall (fun g => gate_ok (S (st_nq st)) g /\ tgt g = st_nq st) gs ->
       (forall g c, In g gs -> In c (ctrls g) -> ~ In c (st_free st)) ->
       st2 = mkst (st_gates st ++ gs) (st_comp st ++ gs) (S (st_nq st)) (qm_set (st_qmap st) k (st_nq st))
               (st_anc st) (st_free st) (st_res st) (st_marked st) (st_cache st) nx (st_orc st) ->
       V st2 (st_nq st) = match k with NSym s0 => env s0 | NTrue => true | NFalse => false | NAnc _ => false end ->
       V st2 (st_nq st) = env s ->
       top_goal s st (st_nq st) st2).
    { intros k gs nx st2 Hk Hgs Hgf E2 Hv Hvs.
      assert (I2 : Inv st2) by (apply (Inv_new_named st k gs nx st2 I0 Hk Hgs Hgf E2 Hv)).
      assert (Hq : In (k, st_nq st) (st_qmap st2)) by (rewrite E2; sts; apply qm_get_in; apply qm_get_set_same).
      split; [exact I2|]. split; [rewrite E2; sts; lia|]. split; [exact Hvs|].
      split; [rewrite E2; sts; now rewrite Hm0|].
      split; [intros Ha; exfalso; exact (i_named st2 I2 _ _ Hq Hk Ha)|].
      split; [rewrite E2; reflexivity|]. split.
      - rewrite E2. sts. intros Hf. apply (i_free_anc st I0), (i_anc_lt st I0) in Hf. lia.
      - rewrite E2. sts. intros x Hx. now left. }
    destruct e as [b|t|a|l|l|l|c t f|a b]; cbn [ok_expr is_const orb] in Hcase; try discriminate;
      try (apply Hcomp; [reflexivity|now rewrite orb_false_r in Hcase]).
    - (* constant *)
      destruct b; cbn [c_expr] in H.
      + destruct (qm_get (st_qmap st) NTrue) as [q|] eqn:Eq.
        * injection H as <- <-. apply qm_get_in in Eq. apply (Hold NTrue q true Logic.I Eq (i_true st I0 _ Eq) Henv).
        * unfold add_qubit in H. destruct (g_x (st_nq st) _) as [st2|c] eqn:E2; cbn [bind] in H; [|discriminate].
          injection H as <- <-. unfold g_x in E2. apply append_new_inv in E2 as (E2 & Hnd & Hf). sts.
          set (g := mkcg (st_next st) (K1 BX) [st_nq st]) in *.
          assert (Hv2 : V st2 (st_nq st) = true).
          { rewrite (V_snoc st st2 g) by (rewrite E2; reflexivity). change (tgt g) with (st_nq st).
            rewrite fflip_tgt. change (ctrls g) with (@nil nat). cbn [forallb]. now rewrite (i_zero st I0) by lia. }
          apply (Hnew NTrue [g] (S (st_next st)) st2 Logic.I); [| |exact E2|exact Hv2|now rewrite Hv2].
          -- constructor; [|constructor]. split; [|reflexivity]. repeat split; auto.
          -- intros g0 c [<-|[]] [].
      + destruct (qm_get (st_qmap st) NFalse) as [q|] eqn:Eq.
        * unfold qc_get in H. rewrite Eq in H. cbn [bind] in H. injection H as <- <-. apply qm_get_in in Eq.
          apply (Hold NFalse q false Logic.I Eq (i_false st I0 _ Eq) Henv).
        * unfold add_qubit, qc_get in H. cbn [snd] in H. sts. rewrite qm_get_set_same in H. cbn [bind] in H.
          injection H as <- <-.
          assert (Hv2 : V (set_nq (S (st_nq st)) (set_qmap (qm_set (st_qmap st) NFalse (st_nq st)) st)) (st_nq st) = false).
          { change (V st (st_nq st) = false). apply (i_zero st I0). lia. }
          apply (Hnew NFalse [] (st_next st) _ Logic.I); [constructor|intros g0 c []| |exact Hv2|now rewrite Hv2].
          unfold set_nq, set_qmap. sts. now rewrite !app_nil_r.
    - (* a bare symbol *)
      cbn [c_expr c_symbol] in H.
      assert (Hst : s <> t) by (intros ->; apply Hns; now left).
      assert (Hplain : (let* q := qc_get st (NSym t) in Ok (q, st)) = Ok (iret, st1) -> top_goal s st iret st1).
      { intros H0. unfold qc_get in H0. destruct (qm_get (st_qmap st) (NSym t)) as [q|] eqn:Eq; cbn [bind] in H0; [|discriminate].
        injection H0 as <- <-. apply qm_get_in in Eq. apply (Hold (NSym t) q (env t) Logic.I Eq (i_sym st I0 _ _ Eq)).
        rewrite Henv. reflexivity. }
      destruct (isret s) eqn:Hret; [|exact (Hplain H)].
      destruct (Nat.ltb t n || match qm_get (st_qmap st) (NSym t) with Some q => Nat.ltb q n | None => false end) eqn:Et;
        [|exact (Hplain H)].
      unfold add_qubit in H. sts. unfold qc_get in H. sts.
      destruct (qm_get (qm_set (st_qmap st) (NSym s) (st_nq st)) (NSym t)) as [src|] eqn:Eq; cbn [bind] in H; [|discriminate].
      destruct (g_cx src (st_nq st) _) as [st2|c] eqn:E2; cbn [bind] in H; [|discriminate].
      injection H as <- <-. unfold g_cx in E2. apply append_new_inv in E2 as (E2 & Hnd & Hf). sts.
      set (g := mkcg (st_next st) KCX [src; st_nq st]) in *.
      apply qm_get_in in Eq. apply qm_set_in in Eq as [[E _]|Eq]; [congruence|].
      assert (Hsrc : src <> st_nq st) by (apply (i_qmap_lt st I0) in Eq; lia).
      assert (Hv2 : V st2 (st_nq st) = env s).
      { rewrite (V_snoc st st2 g) by (rewrite E2; reflexivity). change (tgt g) with (st_nq st).
        rewrite fflip_tgt. change (ctrls g) with [src]. cbn [forallb]. rewrite (i_zero st I0) by lia.
        rewrite (i_sym st I0 t src Eq), andb_true_r. rewrite Henv. unfold beval. cbn [geval]. now destruct (env t). }
      apply (Hnew (NSym s) [g] (S (st_next st)) st2 Logic.I); [| |exact E2|exact Hv2|exact Hv2].
      + constructor; [|constructor]. split; [|reflexivity]. repeat split; auto.
      + intros g0 c [<-|[]] [<-|[]]. now apply (Hnamed (NSym t)).
  Qed.

  (* one iteration of the loop of compile *)
  Lemma compile_stmt_spec s e st st' :
    BInv st -> stmt_shape (s, e) = true -> ~ In s (bsyms e) -> env s = beval env e ->
    compile_stmt n tbl is_temp isret (s, e) st = Ok st' -> BInv st'.
  Proof.
    intros B Hsh Hns Henv H. unfold compile_stmt in H.
    destruct (c_expr n tbl (cexpr (fuel_for e) n tbl) e None (Some (s, isret s)) st) as [[iret st1]|c] eqn:E1;
      cbn [bind] in H; [|discriminate].
    destruct (top_expr_spec s e st iret st1 B Hsh Hns Henv E1) as (I1 & Hlt & Hv & Hnm & Hg & Hfr & Hif & AM1).
    destruct B as (I0 & Hm0 & Hb0).
    assert (Ht : is_temp s = false).
    { unfold stmt_shape in Hsh. cbn [fst] in Hsh. apply andb_true_iff in Hsh as [Hsh _].
      now apply negb_true_iff in Hsh. }
    rewrite Ht in H. cbn [negb] in H.
    assert (I2 : Inv (upd_cache (cache_set (BSym s) iret) st1)).
    { apply Inv_cache_set; auto. discriminate. }
    set (st2 := upd_cache (cache_set (BSym s) iret) st1) in *.
    assert (I3 : Inv (map_qubit (NSym s) iret true st2)).
    { apply Inv_map_qubit; auto.
      intros e' Hin. subst st2. sts. apply cache_set_in in Hin as [[-> _]|(_ & Hne & _)]; [reflexivity|congruence]. }
    destruct (map_qubit_fields (NSym s) iret st2) as (F1 & F2 & F3 & F4 & F5 & F6 & F7 & A1 & A2 & A3 & Q).
    set (st3 := map_qubit (NSym s) iret true st2) in *.
    destruct (uncompute st3) as [[unc st4]|c] eqn:E4; cbn [bind] in H; [|discriminate].
    injection H as <-.
    assert (HB3 : forall q, In q (st_anc st3) -> In q (st_free st3) \/ In q (st_marked st3)).
    { intros q Hq. rewrite F4, F7. change (st_free st2) with (st_free st1). change (st_marked st2) with (st_marked st1).
      pose proof (A1 q Hq) as Hq2. change (st_anc st2) with (st_anc st1) in Hq2.
      destruct (AM1 q Hq2) as [Hq0|[->|Hqm]]; [left; rewrite Hfr; now apply Hb0|contradiction|now right]. }
    destruct (uncompute_spec st3 unc st4 I3 E4 HB3) as (I5 & Hm5 & _ & _ & _ & _ & Hb5).
    split; [exact I5|split; [exact Hm5|exact Hb5]].
  Qed.

  Lemma compile_loop_spec ds : forall st st',
    BInv st -> (forall s e, In (s, e) ds -> stmt_shape (s, e) = true /\ ~ In s (bsyms e) /\ env s = beval env e) ->
    compile_loop n tbl is_temp isret ds st = Ok st' -> BInv st'.
  Proof.
    unfold compile_loop. induction ds as [|[s e] ds IH]; intros st st' B Hds H; cbn [fold_left] in H.
    - injection H as <-. exact B.
    - cbn [bind] in H. destruct (compile_stmt n tbl is_temp isret (s, e) st) as [st1|c] eqn:E1.
      + destruct (Hds s e (or_introl eq_refl)) as (A1 & A2 & A3).
        apply (IH st1 st'); [eapply compile_stmt_spec; eauto|intros s0 e0 H0; apply Hds; now right|exact H].
      + exfalso. clear -H. assert (E : forall l, fold_left (fun r se => let* S' := r in compile_stmt n tbl is_temp isret se S') l (@Err cst c) = Err c)
          by (induction l; auto). rewrite E in H. discriminate.
  Qed.

  Lemma init_BInv orc : nopop orc = true -> (forall i, i < n -> env i = inp i) -> BInv (init_state n orc).
  Proof.
    intros Ho Henv. split; [|split; [reflexivity|intros q []]].
    assert (Hq : forall k q, In (k, q) (st_qmap (init_state n orc)) -> k = NSym q /\ q < n).
    { intros k q H. unfold init_state in H. sts. apply in_map_iff in H as (i & E & Hi). injection E as <- <-.
      apply in_seq in Hi. split; [reflexivity|lia]. }
    constructor; unfold init_state; sts; auto.
    - intros k q H. now apply Hq in H.
    - intros s q H. apply Hq in H as [E Hlt]. injection E as ->. unfold V. sts. cbn [grun fold_left]. unfold b0.
      apply Nat.ltb_lt in Hlt. rewrite Hlt. symmetry. apply Henv. now apply Nat.ltb_lt.
    - intros q H. apply Hq in H as [E _]. discriminate.
    - intros q H. apply Hq in H as [E _]. discriminate.
    - intros e q [].
    - intros e q [].
    - intros e1 e2 q [].
    - intros e q [].
    - intros q [].
    - intros q [].
    - intros q Hle. unfold V. sts. cbn [grun fold_left]. unfold b0. destruct (Nat.ltb_spec q n); [lia|reflexivity].
    - exact Logic.I.
    - intros q [].
  Qed.
End WithInput.

(* ------------------------------------------------------------------ *)
(* single-assignment expression lists: every symbol is defined once, after the
   symbols it reads; [D] = the symbols defined so far (initially the arguments) *)
Fixpoint wf_defs (D : list nat) (ds : defs) : bool :=
  match ds with
  | [] => true
  | (s, e) :: r => negb (mem_nat s D) && forallb (fun x => mem_nat x D) (bsyms e) && wf_defs (s :: D) r
  end.

Lemma run_defs_notin ds : forall env s, ~ In s (map fst ds) -> run_defs env ds s = env s.
Proof.
  induction ds as [|[s0 e0] ds IH]; intros env s Hn; [reflexivity|].
  rewrite run_defs_cons, IH by (intros H; apply Hn; now right).
  destruct (Nat.eqb_spec s s0) as [->|]; [exfalso; apply Hn; now left|reflexivity].
Qed.

Lemma wf_defs_targets ds : forall D, wf_defs D ds = true -> forall t, In t (map fst ds) -> ~ In t D.
Proof.
  induction ds as [|[s0 e0] ds IH]; intros D H t Ht; [destruct Ht|].
  cbn [wf_defs] in H. apply andb_true_iff in H as [H H2]. apply andb_true_iff in H as [H0 H1].
  destruct Ht as [<-|Ht].
  - apply negb_true_iff in H0. now apply mem_nat_false.
  - intros Hin. apply (IH _ H2 t Ht). now right.
Qed.

Lemma wf_defs_env ds : forall D env0, wf_defs D ds = true ->
  (forall x, In x D -> run_defs env0 ds x = env0 x) /\
  forall s e, In (s, e) ds -> ~ In s (bsyms e) /\ run_defs env0 ds s = beval (run_defs env0 ds) e.
Proof.
  induction ds as [|[s0 e0] ds IH]; intros D env0 H.
  - split; [reflexivity|intros s e []].
  - pose proof (wf_defs_targets _ _ H) as Ht.
    cbn [wf_defs] in H. apply andb_true_iff in H as [H H2]. apply andb_true_iff in H as [H0 H1].
    apply negb_true_iff in H0. apply mem_nat_false in H0.
    set (env1 := fun j => if Nat.eqb j s0 then beval env0 e0 else env0 j).
    destruct (IH (s0 :: D) env1 H2) as [K1 K2].
    assert (Hsub : forall x, In x (bsyms e0) -> In x D).
    { intros x Hx. rewrite forallb_forall in H1. apply mem_nat_in. now apply H1. }
    split.
    + intros x Hx. rewrite run_defs_cons. change (run_defs env1 ds x = env0 x). rewrite K1 by now right. unfold env1.
      destruct (Nat.eqb_spec x s0) as [->|]; [contradiction|reflexivity].
    + intros s e [E|Hin].
      * injection E as <- <-. split; [intros Hs; apply H0; now apply Hsub|].
        rewrite !run_defs_cons. change (run_defs env1 ds s0 = beval (run_defs env1 ds) e0).
        rewrite K1 by now left. unfold env1 at 1. rewrite Nat.eqb_refl.
        unfold beval. apply (geval_ext bool_alg). intros x Hx.
        rewrite K1 by (right; now apply Hsub). unfold env1.
        destruct (Nat.eqb_spec x s0) as [->|]; [exfalso; apply H0; now apply Hsub|reflexivity].
      * rewrite !run_defs_cons. change (~ In s (bsyms e) /\ run_defs env1 ds s = beval (run_defs env1 ds) e). now apply K2.
Qed.

(* the class of programs of the for-all theorem *)
Definition in_class (n : nat) (is_temp : nat -> bool) (tbl : list (bexp * bexp)) (ds : defs) : bool :=
  tbl_ok tbl && wf_defs (seq 0 n) ds && forallb (stmt_shape is_temp) ds.

Lemma compile_raw_inv n isret is_temp tbl ds orc st X :
  in_class n is_temp tbl ds = true -> nopop orc = true ->
  compile_raw n tbl is_temp isret ds orc = Ok st ->
  BInv n (asg X) (run_defs (asg X) ds) st.
Proof.
  intros Hc Ho H. unfold in_class in Hc. apply andb_true_iff in Hc as [Hc Hsh]. apply andb_true_iff in Hc as [Htbl Hwf].
  destruct (wf_defs_env ds (seq 0 n) (asg X) Hwf) as [K1 K2].
  unfold compile_raw in H.
  apply (compile_loop_spec n (asg X) (run_defs (asg X) ds) isret tbl Htbl is_temp ds (init_state n orc) st).
  - apply init_BInv; [exact Ho|]. intros i Hi. apply K1. apply in_seq. lia.
  - intros s e Hin. destruct (K2 s e Hin) as [A B]. split; [|split; assumption].
    rewrite forallb_forall in Hsh. now apply Hsh.
  - exact H.
Qed.

(* C02 for every program of the class, every legal choice of set orders, when
   no ancilla is recycled: each mapped symbol's qubit holds the symbol's value *)
Theorem compile_raw_values n isret is_temp tbl ds orc st X :
  in_class n is_temp tbl ds = true -> nopop orc = true ->
  compile_raw n tbl is_temp isret ds orc = Ok st ->
  forall s q, In (NSym s, q) (st_qmap st) ->
    grun (st_gates st) (basis n X) q = run_defs (asg X) ds s.
Proof.
  intros Hc Ho H s q Hin. destruct (compile_raw_inv n isret is_temp tbl ds orc st X Hc Ho H) as [I0 _].
  exact (i_sym _ _ _ st I0 s q Hin).
Qed.

Definition rets_mapped (st : cst) (rets : list (nat * nat)) : Prop :=
  forall s q, In (s, q) rets -> In (NSym s, q) (st_qmap st).

Theorem compile_c02 n isret is_temp tbl ds orc rs st rets :
  in_class n is_temp tbl ds = true -> nopop orc = true ->
  compile n tbl is_temp isret ds false rs orc = Ok st ->
  rets_mapped st rets ->
  all_classical (out_gates st) = true /\ c02_holds n (out_gates st) ds rets.
Proof.
  intros Hc Ho H Hr. unfold compile in H.
  destruct (compile_loop n tbl is_temp isret ds (init_state n orc)) as [st0|c] eqn:E0; cbn [bind] in H; [|discriminate].
  injection H as <-.
  assert (Hgok : forall X : N, Forall (gate_ok (st_nq st0)) (st_gates st0)).
  { intros X. destruct (compile_raw_inv n isret is_temp tbl ds orc st0 X Hc Ho E0) as [I0 _]. exact (i_gates _ _ _ st0 I0). }
  assert (Hk : Forall (fun g => kind_ok (cg_kind g) (cg_qs g)) (rm_id (st_gates st0))).
  { apply Forall_forall. intros g Hg. apply (rm_id_incl (length (st_gates st0)) _ (le_n _)) in Hg.
    pose proof (Hgok 0%N) as Hf. rewrite Forall_forall in Hf. now apply Hf. }
  unfold out_gates. sts. split; [now apply all_classical_ok|].
  intros X HX. exists (grun (rm_id (st_gates st0)) (basis n X)). split; [now apply fsim_grun|].
  intros s q Hin. rewrite (rm_id_sound (st_nq st0) (length (st_gates st0)) _ (le_n _) (Hgok X)).
  apply (compile_raw_values n isret is_temp tbl ds orc st0 X Hc Ho E0). now apply Hr.
Qed.

(* ------------------------------------------------------------------ *)
(* Part 5: what is false of the faithful model (each witness reproduces on the
   implementation, see Prop_C02_model.v) *)
Definition c02_fails (n : nat) (st : cst) (ds : defs) (rets : list (nat * nat)) : Prop :=
  rets_mapped st rets /\ ~ c02_holds n (out_gates st) ds rets.

Lemma c02_fails_by_check n st ds rets d :
  rets_mapped st rets -> c02_check n (st_nq st) (out_gates st) ds rets = Some d -> d <> 0%N -> c02_fails n st ds rets.
Proof.
  intros Hr Hc Hd. split; [exact Hr|]. intros Hh.
  assert (Hall : all_classical (out_gates st) = true).
  { destruct (all_classical (out_gates st)) eqn:E; [reflexivity|]. exfalso.
    unfold c02_check, check_circuit in Hc.
    destruct (sim (tt_alg (tt_mask n)) (init_tables n (st_nq st)) (out_gates st)) as [ft|] eqn:Es; [|discriminate].
    assert (all_classical (out_gates st) = true) by (apply (sim_some (tt_alg (tt_mask n)) _ (init_tables n (st_nq st))); now exists ft).
    congruence. }
  assert (c02_check n (st_nq st) (out_gates st) ds rets = Some 0%N) by (apply c02_check_correct; now split).
  congruence.
Qed.

Definition no_temp (_ : nat) : bool := false.

Lemma c02_holds_by_check n nq c ds rets : c02_check n nq c ds rets = Some 0%N -> c02_holds n c ds rets.
Proof. intros H. now apply c02_check_correct in H. Qed.

(* the two programs that the synthesiser of commit a04f20d mis-compiled (witnesses of
   the former theorems c02_refuted_alias / c02_refuted_not_nary_or) are, with the
   code of commit 56a283c, inside the class, and their circuits are correct *)
(* y = a ; _ret = (a | y) & b : both operands of the Or sit on the same qubit *)
Definition w_alias_defs : defs := [(3, BSym 0); (4, BAnd [BSym 1; BOr [BSym 0; BSym 3]])].
Definition w_alias_orc : list oev := [OOrd [1; 2]].
Lemma former_witness_alias_now_holds :
  in_class 2 no_temp [] w_alias_defs = true /\ nopop w_alias_orc = true /\
  exists st, compile 2 [] no_temp (fun s => Nat.eqb s 4) w_alias_defs false (Some [4]) w_alias_orc = Ok st /\
             rets_mapped st [(4, 3)] /\ c02_holds 2 (out_gates st) w_alias_defs [(4, 3)].
Proof.
  split; [vm_compute; reflexivity|]. split; [reflexivity|]. eexists. split; [vm_compute; reflexivity|]. split.
  - intros s q [E|[]]. injection E as <- <-. vm_compute. tauto.
  - apply (c02_holds_by_check 2 4). vm_compute. reflexivity.
Qed.

(* _ret = d | ((a|b|c) & ~(a|b|c)) : the Not now goes to a new qubit, because the
   qubit of the operand held a computed expression before *)
Definition w_nary : bexp := BOr [BSym 0; BSym 1; BSym 2].
Definition w_nary_tbl : list (bexp * bexp) := [(w_nary, BNot (BAnd [BNot (BSym 0); BNot (BSym 1); BNot (BSym 2)]))].
Definition w_nary_defs : defs := [(5, BOr [BSym 3; BAnd [w_nary; BNot w_nary]])].
Definition w_nary_orc : list oev := [OOrd [4; 5; 6]; OOrd [8; 7]; OOrd [9; 3]].
Lemma former_witness_not_nary_or_now_holds :
  in_class 4 no_temp w_nary_tbl w_nary_defs = true /\ nopop w_nary_orc = true /\
  exists st, compile 4 w_nary_tbl no_temp (fun s => Nat.eqb s 5) w_nary_defs false (Some [5]) w_nary_orc = Ok st /\
             rets_mapped st [(5, 10)] /\ c02_holds 4 (out_gates st) w_nary_defs [(5, 10)].
Proof.
  split; [vm_compute; reflexivity|]. split; [reflexivity|]. eexists. split; [vm_compute; reflexivity|]. split.
  - intros s q [E|[]]. injection E as <- <-. vm_compute. tauto.
  - apply (c02_holds_by_check 4 11). vm_compute. reflexivity.
Qed.

(* __t = a & b ; x = __t & d ; _ret = x ^ (__t & e) : the temporary is
   uncomputed after its first use and read again *)
Definition w_temp_defs : defs :=
  [(6, BAnd [BSym 0; BSym 1]); (7, BAnd [BSym 6; BSym 3]); (8, BXor [BSym 7; BAnd [BSym 6; BSym 4]])].
Definition w_temp_orc : list oev := [OOrd [0; 1]; OOrd [3; 5]; OOrd [4; 5]].
Lemma c02_refuted_temp_reused : exists st,
  compile 5 [] (fun s => Nat.eqb s 6) (fun s => Nat.eqb s 8) w_temp_defs false (Some [8]) w_temp_orc = Ok st /\
  nopop w_temp_orc = true /\ c02_fails 5 st w_temp_defs [(8, 7)].
Proof.
  eexists. split; [vm_compute; reflexivity|]. split; [reflexivity|].
  eapply c02_fails_by_check.
  - intros s q [E|[]]. injection E as <- <-. vm_compute. tauto.
  - vm_compute. reflexivity.
  - discriminate.
Qed.

(* non-vacuity of the class *)
Definition w_ok_defs : defs :=
  [(5, BXor [BAnd [BSym 0; BSym 1]; BNot (BAnd [BSym 2; BSym 3])]);
   (6, BAnd [BSym 5; BOr [BSym 0; BSym 2]])].
Definition w_ok_orc : list oev := [OOrd [0; 1]; OOrd [2; 3]; OOrd [0; 2]; OOrd [4; 5]].
Lemma class_example :
  in_class 4 no_temp [] w_ok_defs = true /\
  exists st, compile 4 [] no_temp (fun s => Nat.eqb s 6) w_ok_defs false (Some [6]) w_ok_orc = Ok st /\
             In (NSym 6, 6) (st_qmap st).
Proof.
  split; [vm_compute; reflexivity|]. eexists. split; [vm_compute; reflexivity|]. vm_compute. tauto.
Qed.

(* ------------------------------------------------------------------ *)
(* the final uncompute_all never touches a kept qubit: C02 of the class also with
   uncompute = true *)
Lemma close_inner_P (P : nat -> Prop) (ok : nat -> bool) cs : (forall c, ok c = true -> P c) ->
  forall sn, (forall x, In x sn -> P x) ->
  forall x, In x (fold_left (fun s c => if ok c then sadd c s else s) cs sn) -> P x.
Proof.
  intros Hok. induction cs as [|c cs IH]; intros sn Hsn x Hx; cbn [fold_left] in Hx; [now apply Hsn|].
  eapply IH; [|exact Hx]. intros y Hy. destruct (ok c) eqn:E; [|now apply Hsn].
  apply sadd_in in Hy as [->|Hy]; [now apply Hok|now apply Hsn].
Qed.

Lemma close_pass_P (P : nat -> Prop) ok gs : (forall c, ok c = true -> P c) ->
  forall sn, (forall x, In x sn -> P x) -> forall x, In x (close_pass ok gs sn) -> P x.
Proof.
  intros Hok. unfold close_pass. induction gs as [|g gs IH]; intros sn Hsn x Hx; cbn [fold_left] in Hx; [now apply Hsn|].
  eapply IH; [|exact Hx]. intros y Hy. destruct (mem_nat (tgt g) sn); [|now apply Hsn].
  now apply (close_inner_P P ok (ctrls g) Hok sn Hsn).
Qed.

Lemma close_iter_P (P : nat -> Prop) ok gs k : (forall c, ok c = true -> P c) ->
  forall sn, (forall x, In x sn -> P x) -> forall x, In x (close_iter k ok gs sn) -> P x.
Proof.
  intros Hok. induction k as [|k IH]; intros sn Hsn x Hx; cbn [close_iter] in Hx; [now apply Hsn|].
  destruct (Nat.eqb (length (close_pass ok gs sn)) (length sn)); [now apply Hsn|].
  apply (IH (close_pass ok gs sn)); [|exact Hx]. now apply close_pass_P.
Qed.

Lemma fold_sadd_cond_P (P : nat -> Prop) (c : cgate -> bool) gs : (forall g, c g = true -> P (tgt g)) ->
  forall u, (forall x, In x u -> P x) ->
  forall x, In x (fold_left (fun u g => if c g then sadd (tgt g) u else u) gs u) -> P x.
Proof.
  intros Hc. induction gs as [|g gs IH]; intros u Hu x Hx; cbn [fold_left] in Hx; [now apply Hu|].
  eapply IH; [|exact Hx]. intros y Hy. destruct (c g) eqn:E; [|now apply Hu].
  apply sadd_in in Hy as [->|Hy]; [now apply Hc|now apply Hu].
Qed.

Lemma uncompute_all_spec keep st st' : uncompute_all keep st = Ok st' ->
  exists R, st_gates st' = st_gates st ++ R /\ st_qmap st' = st_qmap st /\ st_nq st' = st_nq st /\
            incl R (st_gates st) /\ forall g, In g R -> ~ In (tgt g) keep.
Proof.
  unfold uncompute_all. intros H.
  set (unc0 := fold_left _ (st_gates st) []) in H.
  set (unc := close_iter _ _ _ unc0) in H.
  set (R := filter (fun g => mem_nat (tgt g) unc) (rev (st_gates st))) in H.
  destruct (fold_left (fun r g => let* S' := r in append_obj g S') R (Ok st)) as [st1|c] eqn:E1; cbn [bind] in H; [|discriminate].
  apply append_objs_spec in E1. injection H as <-. exists R. rewrite E1. sts.
  split; [reflexivity|]. split; [reflexivity|]. split; [reflexivity|]. split.
  - intros g Hg. unfold R in Hg. apply filter_In in Hg as [Hg _]. now apply in_rev.
  - intros g Hg. unfold R in Hg. apply filter_In in Hg as [_ Hg]. apply mem_nat_in in Hg.
    revert Hg. apply (close_iter_P (fun q => ~ In q keep)).
    + intros c Hc. apply andb_true_iff in Hc as [_ Hc]. apply negb_true_iff in Hc. now apply mem_nat_false.
    + intros x Hx. revert Hx. apply (fold_sadd_cond_P (fun q => ~ In q keep)
        (fun g0 => negb (mem_nat (tgt g0) keep) && negb (mem_nat (tgt g0) (st_free st)))).
      * intros g0 Hg0. apply andb_true_iff in Hg0 as [Hg0 _]. apply negb_true_iff in Hg0. now apply mem_nat_false.
      * intros y [].
Qed.

Definition rets_kept (st : cst) (rs : list nat) (rets : list (nat * nat)) : Prop :=
  forall s q, In (s, q) rets -> In s rs /\ qm_get (st_qmap st) (NSym s) = Some q.

Theorem compile_c02_uncompute n isret is_temp tbl ds orc rs st rets :
  in_class n is_temp tbl ds = true -> nopop orc = true ->
  compile n tbl is_temp isret ds true (Some rs) orc = Ok st ->
  rets_kept st rs rets ->
  all_classical (out_gates st) = true /\ c02_holds n (out_gates st) ds rets.
Proof.
  intros Hc Ho H Hr. unfold compile in H.
  destruct (compile_loop n tbl is_temp isret ds (init_state n orc)) as [st0|c] eqn:E0; cbn [bind] in H; [|discriminate].
  set (st1 := set_gates (rm_id (st_gates st0)) st0) in *.
  set (keep := flat_map _ rs) in H.
  destruct (uncompute_all_spec keep st1 st H) as (R & EG & EQ & EN & Hincl & Hkeep).
  assert (Hgok : forall X : N, Forall (gate_ok (st_nq st0)) (st_gates st0)).
  { intros X. destruct (compile_raw_inv n isret is_temp tbl ds orc st0 X Hc Ho E0) as [I0 _]. exact (i_gates _ _ _ st0 I0). }
  assert (Hk1 : Forall (fun g => kind_ok (cg_kind g) (cg_qs g)) (rm_id (st_gates st0))).
  { apply Forall_forall. intros g Hg. apply (rm_id_incl (length (st_gates st0)) _ (le_n _)) in Hg.
    pose proof (Hgok 0%N) as Hf. rewrite Forall_forall in Hf. now apply Hf. }
  assert (Hk : Forall (fun g => kind_ok (cg_kind g) (cg_qs g)) (st_gates st)).
  { rewrite EG. apply Forall_app. split; [exact Hk1|]. apply Forall_forall. intros g Hg. apply Hincl in Hg.
    rewrite Forall_forall in Hk1. now apply Hk1. }
  unfold out_gates. split; [now apply all_classical_ok|].
  intros X HX. exists (grun (st_gates st) (basis n X)). split; [now apply fsim_grun|].
  intros s q Hin. destruct (Hr s q Hin) as [Hs Hq]. rewrite EQ in Hq.
  assert (Hqk : In q keep).
  { unfold keep. apply in_flat_map. exists s. split; [exact Hs|]. change (st_qmap st1) with (st_qmap st0).
    change (st_qmap st1) with (st_qmap st0) in Hq. rewrite Hq. now left. }
  rewrite EG, grun_app, grun_other by (intros g Hg Ht; apply (Hkeep g Hg); now rewrite Ht).
  change (st_gates st1) with (rm_id (st_gates st0)).
  rewrite (rm_id_sound (st_nq st0) (length (st_gates st0)) _ (le_n _) (Hgok X)).
  apply (compile_raw_values n isret is_temp tbl ds orc st0 X Hc Ho E0). apply qm_get_in. exact Hq.
Qed.

(* ------------------------------------------------------------------ *)
(* the contract of compile_expr, clause by clause *)
Lemma cexpr_contract n inp env tbl : tbl_ok tbl = true -> forall fuel, rec_spec n inp env (cexpr fuel n tbl).
Proof. exact (cexpr_spec n inp env (fun _ => false) tbl). Qed.

Lemma cexpr_cache_sound n inp env tbl fuel e dest st r st' :
  tbl_ok tbl = true -> pre n inp env e dest st -> cexpr fuel n tbl e dest st = Ok (r, st') ->
  forall e' q, In (e', q) (st_cache st') -> V n inp st' q = beval env e'.
Proof.
  intros Ht Hp H. destruct (cexpr_spec n inp env (fun _ => false) tbl Ht fuel e dest st r st' Hp H) as (I1 & _).
  exact (i_cache _ _ _ st' I1).
Qed.

Lemma cexpr_xor_accumulation n inp env tbl fuel e dest st r st' :
  tbl_ok tbl = true -> pre n inp env e dest st -> cexpr fuel n tbl e dest st = Ok (r, st') ->
  match dest with
  | Some d => r = d /\ V n inp st' d = xorb (V n inp st d) (beval env e)
  | None => V n inp st' r = beval env e
  end.
Proof.
  intros Ht Hp H. destruct (cexpr_spec n inp env (fun _ => false) tbl Ht fuel e dest st r st' Hp H) as (_ & _ & _ & _ & _ & _ & _ & _ & _ & R).
  destruct dest; [exact R|exact (proj1 R)].
Qed.

Lemma cexpr_frame n inp env tbl fuel e dest st r st' :
  tbl_ok tbl = true -> pre n inp env e dest st -> cexpr fuel n tbl e dest st = Ok (r, st') ->
  (forall q, q < st_nq st -> dest <> Some q -> V n inp st' q = V n inp st q) /\
  (forall s q, In (NSym s, q) (st_qmap st') -> V n inp st' q = env s).
Proof.
  intros Ht Hp H. destruct (cexpr_spec n inp env (fun _ => false) tbl Ht fuel e dest st r st' Hp H) as (I1 & X1 & _).
  split; [exact (x_frame _ _ _ _ _ X1)|exact (i_sym _ _ _ st' I1)].
Qed.

Lemma compile_raw_cache_sound n isret is_temp tbl ds orc st X :
  in_class n is_temp tbl ds = true -> nopop orc = true ->
  compile_raw n tbl is_temp isret ds orc = Ok st ->
  (forall e q, In (e, q) (st_cache st) -> grun (st_gates st) (basis n X) q = beval (run_defs (asg X) ds) e) /\
  st_marked st = [].
Proof.
  intros Hc Ho H. destruct (compile_raw_inv n isret is_temp tbl ds orc st X Hc Ho H) as [I0 Hm].
  split; [exact (i_cache _ _ _ st I0)|exact (proj1 Hm)].
Qed.

(* ------------------------------------------------------------------ *)
(* first half of C03 for the class: no gate ever targets an argument qubit, so
   the inputs are preserved, with and without the final uncompute *)
Theorem compile_inputs_preserved n isret is_temp tbl ds unc rs orc st :
  in_class n is_temp tbl ds = true -> nopop orc = true ->
  compile n tbl is_temp isret ds unc rs orc = Ok st ->
  Forall (fun g => n <= tgt g) (st_gates st) /\
  forall X q, q < n -> grun (st_gates st) (basis n X) q = basis n X q.
Proof.
  intros Hc Ho H.
  assert (Hgoal : Forall (fun g => n <= tgt g) (st_gates st)).
  { unfold compile in H.
    destruct (compile_loop n tbl is_temp isret ds (init_state n orc)) as [st0|c] eqn:E0; cbn [bind] in H; [|discriminate].
    destruct (compile_raw_inv n isret is_temp tbl ds orc st0 0%N Hc Ho E0) as [I0 _].
    pose proof (i_tgt _ _ _ st0 I0) as Ht. rewrite Forall_forall in Ht.
    assert (H1 : Forall (fun g => n <= tgt g) (rm_id (st_gates st0))).
    { apply Forall_forall. intros g Hg. apply Ht. now apply (rm_id_incl (length (st_gates st0)) _ (le_n _)). }
    destruct unc; [destruct rs as [rs|]|]; try (injection H as <-; exact H1).
    apply uncompute_all_spec in H as (R & EG & _ & _ & Hincl & _). rewrite EG. apply Forall_app. split; [exact H1|].
    apply Forall_forall. intros g Hg. apply Hincl in Hg. rewrite Forall_forall in H1. now apply H1. }
  split; [exact Hgoal|]. intros X q Hq. apply grun_other. intros g Hg Ht. rewrite Forall_forall in Hgoal.
  specialize (Hgoal g Hg). lia.
Qed.

(* ------------------------------------------------------------------ *)
(* C03, second half: the closure computed by uncompute_all is a fixpoint, and the
   replay it drives returns every non-kept non-argument qubit to zero *)
Section Closure.
  Variable ok : nat -> bool.
  Variable nq : nat.

  Definition addc (cs : list nat) (sn : list nat) : list nat :=
    fold_left (fun s c => if ok c then sadd c s else s) cs sn.

  Lemma sadd_length q l : length l <= length (sadd q l).
  Proof. unfold sadd. destruct (mem_nat q l); [lia|rewrite app_length; cbn; lia]. Qed.
  Lemma sadd_same q l : length (sadd q l) = length l -> sadd q l = l /\ In q l.
  Proof.
    unfold sadd. destruct (mem_nat q l) eqn:E; [intros _; split; [reflexivity|now apply mem_nat_in]|].
    rewrite app_length. cbn. lia.
  Qed.
  Lemma sadd_NoDup q l : NoDup l -> NoDup (sadd q l).
  Proof.
    unfold sadd. destruct (mem_nat q l) eqn:E; [auto|]. intros H. apply mem_nat_false in E.
    clear -H E. induction l as [|x r IH]; [constructor; [intros []|constructor]|].
    inversion H as [|? ? Hx Hr]; subst. cbn [app]. constructor.
    - rewrite in_app_iff. intros [Hi|[->|[]]]; [contradiction|apply E; now left].
    - apply IH; [|exact Hr]. intros Hq. apply E. now right.
  Qed.

  Lemma addc_props cs : forall sn,
    length sn <= length (addc cs sn) /\ (forall x, In x sn -> In x (addc cs sn)) /\
    (NoDup sn -> NoDup (addc cs sn)) /\
    ((forall x, In x sn -> x < nq) -> (forall c, In c cs -> c < nq) -> forall x, In x (addc cs sn) -> x < nq) /\
    (length (addc cs sn) = length sn -> addc cs sn = sn /\ forall c, In c cs -> ok c = true -> In c sn).
  Proof.
    unfold addc. induction cs as [|c cs IH]; intros sn; cbn [fold_left].
    - repeat split; auto. intros c [].
    - set (sn1 := if ok c then sadd c sn else sn).
      assert (H1 : length sn <= length sn1) by (unfold sn1; destruct (ok c); [apply sadd_length|lia]).
      assert (H2 : forall x, In x sn -> In x sn1) by (unfold sn1; destruct (ok c); [intros x Hx; apply sadd_in; now right|auto]).
      destruct (IH sn1) as (A1 & A2 & A3 & A4 & A5). split; [lia|]. split; [auto|]. split; [|split].
      + intros Hn. apply A3. unfold sn1. destruct (ok c); [now apply sadd_NoDup|exact Hn].
      + intros Hb Hc. apply A4; [|intros c0 H0; apply Hc; now right].
        unfold sn1. destruct (ok c); [|exact Hb]. intros x Hx. apply sadd_in in Hx as [->|Hx]; [apply Hc; now left|auto].
      + intros E. assert (E1 : length sn1 = length sn) by lia. assert (E2 : length (fold_left (fun s c0 => if ok c0 then sadd c0 s else s) cs sn1) = length sn1) by lia.
        destruct (A5 E2) as [B1 B2]. rewrite B1.
        assert (Hs : sn1 = sn /\ (ok c = true -> In c sn)).
        { unfold sn1 in *. destruct (ok c); [destruct (sadd_same c sn E1); split; auto|split; [reflexivity|discriminate]]. }
        destruct Hs as [Hs1 Hs2]. split; [exact Hs1|]. intros c0 [<-|H0] Hk; [now apply Hs2|]. rewrite <- Hs1. now apply B2.
  Qed.

  Definition closedU (gs : list cgate) (X : list nat) : Prop :=
    forall g, In g gs -> In (tgt g) X -> forall c, In c (ctrls g) -> ok c = true -> In c X.

  Lemma close_pass_props gs : forall sn,
    length sn <= length (close_pass ok gs sn) /\ (forall x, In x sn -> In x (close_pass ok gs sn)) /\
    (NoDup sn -> NoDup (close_pass ok gs sn)) /\
    ((forall x, In x sn -> x < nq) -> (forall g c, In g gs -> In c (ctrls g) -> c < nq) ->
       forall x, In x (close_pass ok gs sn) -> x < nq) /\
    (length (close_pass ok gs sn) = length sn -> close_pass ok gs sn = sn /\ closedU gs sn).
  Proof.
    unfold close_pass. induction gs as [|g gs IH]; intros sn; cbn [fold_left].
    - repeat split; auto. intros g [].
    - set (sn1 := if mem_nat (tgt g) sn then fold_left (fun s c => if ok c then sadd c s else s) (ctrls g) sn else sn).
      destruct (addc_props (ctrls g) sn) as (C1 & C2 & C3 & C4 & C5). unfold addc in *.
      assert (H1 : length sn <= length sn1) by (unfold sn1; destruct (mem_nat (tgt g) sn); [exact C1|lia]).
      assert (H2 : forall x, In x sn -> In x sn1) by (unfold sn1; destruct (mem_nat (tgt g) sn); auto).
      destruct (IH sn1) as (A1 & A2 & A3 & A4 & A5). split; [lia|]. split; [auto|]. split; [|split].
      + intros Hn. apply A3. unfold sn1. destruct (mem_nat (tgt g) sn); auto.
      + intros Hb Hc. apply A4; [|intros g0 c H0; apply Hc; now right].
        unfold sn1. destruct (mem_nat (tgt g) sn); [|exact Hb]. apply C4; [exact Hb|]. intros c Hcin. apply (Hc g c); [now left|exact Hcin].
      + intros E. assert (E1 : length sn1 = length sn) by lia.
        assert (E2 : length (fold_left (fun sn0 g0 => if mem_nat (tgt g0) sn0
                   then fold_left (fun s c => if ok c then sadd c s else s) (ctrls g0) sn0 else sn0) gs sn1) = length sn1) by lia.
        destruct (A5 E2) as [B1 B2]. rewrite B1.
        assert (Hs : sn1 = sn /\ (In (tgt g) sn -> forall c, In c (ctrls g) -> ok c = true -> In c sn)).
        { unfold sn1 in *. destruct (mem_nat (tgt g) sn) eqn:Em.
          - destruct (C5 E1) as [D1 D2]. split; [exact D1|intros _; exact D2].
          - split; [reflexivity|]. intros Hin. apply mem_nat_in in Hin. congruence. }
        destruct Hs as [Hs1 Hs2]. split; [exact Hs1|]. rewrite Hs1 in B2.
        intros g0 [<-|H0]; [exact Hs2|now apply B2].
  Qed.

  Lemma NoDup_bounded_length (l : list nat) : NoDup l -> (forall x, In x l -> x < nq) -> length l <= nq.
  Proof.
    intros Hn Hb. rewrite <- (seq_length nq 0). apply NoDup_incl_length; [exact Hn|].
    intros x Hx. apply in_seq. specialize (Hb x Hx). lia.
  Qed.

  Lemma close_iter_props gs : (forall g c, In g gs -> In c (ctrls g) -> c < nq) ->
    forall k sn, NoDup sn -> (forall x, In x sn -> x < nq) -> nq < length sn + k ->
    closedU gs (close_iter k ok gs sn) /\ forall x, In x sn -> In x (close_iter k ok gs sn).
  Proof.
    intros Hc. induction k as [|k IH]; intros sn Hn Hb Hk.
    - pose proof (NoDup_bounded_length sn Hn Hb). lia.
    - cbn [close_iter]. destruct (close_pass_props gs sn) as (A1 & A2 & A3 & A4 & A5).
      destruct (Nat.eqb_spec (length (close_pass ok gs sn)) (length sn)) as [E|E].
      + split; [exact (proj2 (A5 E))|auto].
      + destruct (IH (close_pass ok gs sn) (A3 Hn) (A4 Hb Hc)) as [B1 B2]; [lia|]. split; [exact B1|auto].
  Qed.
End Closure.

Lemma fold_sadd_cond_props (c : cgate -> bool) (nq : nat) gs : forall u,
  let r := fold_left (fun u g => if c g then sadd (tgt g) u else u) gs u in
  (forall x, In x u -> In x r) /\ (forall g, In g gs -> c g = true -> In (tgt g) r) /\
  (NoDup u -> NoDup r) /\ ((forall x, In x u -> x < nq) -> (forall g, In g gs -> tgt g < nq) -> forall x, In x r -> x < nq).
Proof.
  induction gs as [|g gs IH]; intros u; cbn [fold_left].
  - repeat split; auto. intros g [].
  - set (u1 := if c g then sadd (tgt g) u else u).
    destruct (IH u1) as (A1 & A2 & A3 & A4).
    assert (H1 : forall x, In x u -> In x u1) by (unfold u1; destruct (c g); [intros x Hx; apply sadd_in; now right|auto]).
    split; [auto|]. split; [|split].
    + intros g0 [<-|H0] Hc; [apply A1; unfold u1; rewrite Hc; apply sadd_in; now left|now apply A2].
    + intros Hn. apply A3. unfold u1. destruct (c g); [now apply sadd_NoDup|exact Hn].
    + intros Hb Ht. apply A4; [|intros g0 H0; apply Ht; now right].
      unfold u1. destruct (c g); [|exact Hb]. intros x Hx. apply sadd_in in Hx as [->|Hx]; [apply Ht; now left|auto].
Qed.

(* uncompute_all, exactly *)
Lemma uncompute_all_exact keep st st' :
  Forall (gate_ok (st_nq st)) (st_gates st) -> uncompute_all keep st = Ok st' ->
  exists unc, st_gates st' = st_gates st ++ rev (subU unc (st_gates st)) /\ st_qmap st' = st_qmap st /\ st_nq st' = st_nq st /\
    (forall q, In q unc -> ~ In q keep) /\
    (forall g, In g (st_gates st) -> ~ In (tgt g) keep -> ~ In (tgt g) (st_free st) -> In (tgt g) unc) /\
    (forall g, In g (st_gates st) -> In (tgt g) unc -> forall c, In c (ctrls g) -> In c (st_free st) -> ~ In c keep -> In c unc).
Proof.
  intros Hok H. unfold uncompute_all in H. cbv zeta in H. set (nq := st_nq st) in *.
  pose (cnd := fun g : cgate => negb (mem_nat (tgt g) keep) && negb (mem_nat (tgt g) (st_free st))).
  pose (unc0 := fold_left (fun u g => if cnd g then sadd (tgt g) u else u) (st_gates st) []).
  pose (okc := fun c : nat => mem_nat c (st_free st) && negb (mem_nat c keep)).
  pose (unc := close_iter (S nq) okc (st_gates st) unc0).
  pose (R := filter (fun g => mem_nat (tgt g) unc) (rev (st_gates st))).
  change ((let* S1 := fold_left (fun r g => let* S' := r in append_obj g S') R (Ok st) in
           Ok (set_free (fold_left (fun f q => if mem_nat q (st_anc S1) then sadd q f else f) unc (st_free S1)) S1)) = Ok st') in H.
  destruct (fold_left (fun r g => let* S' := r in append_obj g S') R (Ok st)) as [st1|c] eqn:E1; cbn [bind] in H; [|discriminate].
  apply append_objs_spec in E1. injection H as <-. exists unc. rewrite E1. sts.
  rewrite Forall_forall in Hok.
  assert (Hcl : forall g c, In g (st_gates st) -> In c (ctrls g) -> c < nq) by (intros g c Hg Hc; eapply gate_ok_ctrls_lt0; eauto).
  assert (Htl : forall g, In g (st_gates st) -> tgt g < nq) by (intros g Hg; eapply gate_ok_tgt; eauto).
  destruct (fold_sadd_cond_props cnd nq (st_gates st) []) as (A1 & A2 & A3 & A4). fold unc0 in A1, A2, A3, A4.
  assert (Hn0 : NoDup unc0) by (apply A3; constructor).
  assert (Hb0 : forall x, In x unc0 -> x < nq) by (apply A4; [intros x []|exact Htl]).
  destruct (close_iter_props okc nq (st_gates st) Hcl (S nq) unc0 Hn0 Hb0) as [B1 B2]; [lia|]. fold unc in B1, B2.
  split; [unfold R, subU; now rewrite filter_rev|]. split; [reflexivity|]. split; [reflexivity|].
  split; [|split].
  - intros q Hq. revert Hq. apply (close_iter_P (fun q => ~ In q keep)).
    + intros c Hc. apply andb_true_iff in Hc as [_ Hc]. apply negb_true_iff in Hc. now apply mem_nat_false.
    + intros x Hx. revert Hx. apply (fold_sadd_cond_P (fun q => ~ In q keep) cnd).
      * intros g0 Hg0. apply andb_true_iff in Hg0 as [Hg0 _]. apply negb_true_iff in Hg0. now apply mem_nat_false.
      * intros y [].
  - intros g Hg Hk Hf. apply B2. apply A2; [exact Hg|]. unfold cnd. apply mem_nat_false in Hk, Hf. now rewrite Hk, Hf.
  - intros g Hg Ht c Hc Hf Hk. apply (B1 g Hg Ht c Hc). unfold okc. apply mem_nat_in in Hf. apply mem_nat_false in Hk. now rewrite Hf, Hk.
Qed.

(* C03 FOR EVERY PROGRAM OF THE CLASS (when no ancilla is recycled): with
   uncompute = True the circuit preserves the inputs and returns every qubit that
   is neither an input nor an output to zero *)
Definition out_qubits (st : cst) (rs : list nat) : list nat :=
  flat_map (fun r => match qm_get (st_qmap st) (NSym r) with Some q => [q] | None => [] end) rs.

Theorem compile_c03 n isret is_temp tbl ds orc rs st :
  in_class n is_temp tbl ds = true -> nopop orc = true ->
  compile n tbl is_temp isret ds true (Some rs) orc = Ok st ->
  all_classical (out_gates st) = true /\ c03_holds n (st_nq st) (out_gates st) (out_qubits st rs).
Proof.
  intros Hc Ho H. pose proof (compile_inputs_preserved n isret is_temp tbl ds true (Some rs) orc st Hc Ho H) as [_ Hinp].
  unfold compile in H.
  destruct (compile_loop n tbl is_temp isret ds (init_state n orc)) as [st0|c] eqn:E0; cbn [bind] in H; [|discriminate].
  set (st1 := set_gates (rm_id (st_gates st0)) st0) in *.
  set (keep := flat_map _ rs) in H.
  assert (HB : forall X : N, BInv n (asg X) (run_defs (asg X) ds) st0).
  { intros X. exact (compile_raw_inv n isret is_temp tbl ds orc st0 X Hc Ho E0). }
  destruct (HB 0%N) as (I00 & _ & _).
  pose proof (i_gates _ _ _ st0 I00) as Hgok. 
  assert (Hsub : sublist (rm_id (st_gates st0)) (st_gates st0)) by (apply (rm_id_sublist (length (st_gates st0))); lia).
  assert (Hg1 : Forall (gate_ok (st_nq st1)) (st_gates st1)).
  { apply Forall_forall. intros g Hg. rewrite Forall_forall in Hgok. apply Hgok. now apply (sublist_In _ _ g Hsub). }
  destruct (uncompute_all_exact keep st1 st Hg1 H) as (unc & EG & EQ & EN & U1 & U2 & U3).
  change (st_gates st1) with (rm_id (st_gates st0)) in *. change (st_free st1) with (st_free st0) in *.
  change (st_qmap st1) with (st_qmap st0) in *. change (st_nq st1) with (st_nq st0) in *.
  assert (Hk1 : Forall (fun g => kind_ok (cg_kind g) (cg_qs g)) (rm_id (st_gates st0))).
  { eapply Forall_impl; [|exact Hg1]. intros g Hg. apply Hg. }
  assert (Hk : Forall (fun g => kind_ok (cg_kind g) (cg_qs g)) (st_gates st)).
  { rewrite EG. apply Forall_app. split; [exact Hk1|]. apply Forall_forall. intros g Hg. rewrite <- in_rev in Hg.
    unfold subU in Hg. apply filter_In in Hg as [Hg _]. rewrite Forall_forall in Hk1. now apply Hk1. }
  assert (Hkeep : out_qubits st rs = keep) by (unfold out_qubits, keep; now rewrite EQ).
  assert (Hkf : forall q, In q keep -> ~ In q (st_free st0)).
  { intros q Hq Hf. unfold keep in Hq. apply in_flat_map in Hq as (r & _ & Hq).
    destruct (qm_get (st_qmap st0) (NSym r)) as [q0|] eqn:Eq; [|destruct Hq]. destruct Hq as [<-|[]].
    apply qm_get_in in Eq. apply (i_named _ _ _ st0 I00 (NSym r) q0 Eq Logic.I). now apply (i_free_anc _ _ _ st0 I00). }
  assert (Hgo : forall g, In g (rm_id (st_gates st0)) -> ~ In (tgt g) (ctrls g)).
  { intros g Hg. rewrite Forall_forall in Hg1. eapply gate_ok_tgt_ctrls. now apply Hg1. }
  assert (Hsc : sc unc (rm_id (st_gates st0))).
  { apply (wp_sc (st_free st0)); [apply (wp_sublist _ _ _ Hsub); exact (i_wp _ _ _ st0 I00)|].
    intros g Hg Ht c Hcin Hcf. apply (U3 g Hg Ht c Hcin Hcf). intros Hck. now apply (Hkf c Hck). }
  unfold out_gates. split; [now apply all_classical_ok|].
  intros X HX. exists (grun (st_gates st) (basis n X)). split; [now apply fsim_grun|]. split.
  - intros q Hq. rewrite (Hinp X q Hq). unfold basis. apply Nat.ltb_lt in Hq. now rewrite Hq.
  - intros q [Hq1 Hq2] Hout. rewrite Hkeep in Hout.
    rewrite EG, (replay_restores unc _ Hsc Hgo).
    assert (Hb : basis n X q = false) by (unfold basis; destruct (Nat.ltb_spec q n); [lia|reflexivity]).
    destruct (mem_nat q unc) eqn:Eu; [exact Hb|]. apply mem_nat_false in Eu.
    destruct (HB X) as (I0 & _ & _).
    destruct (mem_nat q (st_free st0)) eqn:Ef.
    + apply mem_nat_in in Ef. rewrite (rm_id_sound (st_nq st0) (length (st_gates st0)) _ (le_n _) Hgok).
      exact (i_zfree _ _ _ st0 I0 q Ef).
    + apply mem_nat_false in Ef. rewrite grun_other; [exact Hb|]. intros g Hg Ht. apply Eu. rewrite <- Ht.
      apply U2; [exact Hg|now rewrite Ht|now rewrite Ht].
Qed.

(* the inline uncompute: between two statements every ancilla that has not been
   promoted to a named qubit is back to zero *)
Lemma compile_raw_ancillas_zero n isret is_temp tbl ds orc st X :
  in_class n is_temp tbl ds = true -> nopop orc = true ->
  compile_raw n tbl is_temp isret ds orc = Ok st ->
  forall q, In q (st_anc st) -> grun (st_gates st) (basis n X) q = false.
Proof.
  intros Hc Ho H q Hq. destruct (compile_raw_inv n isret is_temp tbl ds orc st X Hc Ho H) as (I0 & _ & Hb).
  exact (i_zfree _ _ _ st I0 q (Hb q Hq)).
Qed.
