(* Chk_Compiler.v — what the harness evaluates for the synthesiser model: the
   model of M_Compiler.v is run on the expression list the implementation
   compiled, with the set-order choices the implementation made, and its gate
   list, num_qubits and qubit_map are compared EXACTLY with the implementation's. *)
From Coq Require Import List Bool NArith Arith.
From QV Require Import Bexp BexpTT Circ Compiled M_Compiler P_Compiler.
Import ListNotations.

Definition gk_eqb (a b : gk) : bool :=
  match a, b with
  | K1 BX, K1 BX => true
  | KCX, KCX => true
  | KMCX i, KMCX j => Nat.eqb i j
  | _, _ => false
  end.

Record ccase := mkcase {
  cc_id : N;
  cc_n : nat;                          (* argument bits: symbols 0..n-1 *)
  cc_tbl : list (bexp * bexp);         (* n-ary Or rewrites computed by sympy *)
  cc_temps : list nat;                 (* symbols whose name starts with "__" *)
  cc_retnames : list nat;              (* symbols whose name starts with "_ret" *)
  cc_defs : defs;
  cc_unc : bool;
  cc_rets : option (list nat);         (* returns.bitvec (names known to the circuit), None = no returns *)
  cc_orc : list oev;                   (* choices observed in the implementation *)
  cc_raised : bool;                    (* the implementation raised *)
  cc_gates : list (gk * list nat);
  cc_nq : nat;
  cc_qmap : list (qname * nat) }.

Definition run_model (c : ccase) : res cst :=
  compile (cc_n c) (cc_tbl c) (fun s => mem_nat s (cc_temps c)) (fun s => mem_nat s (cc_retnames c))
          (cc_defs c) (cc_unc c) (cc_rets c) (cc_orc c).

Fixpoint first_diff {A B} (eqb : A -> B -> bool) (l : list A) (m : list B) (i : N) : option N :=
  match l, m with
  | [], [] => None
  | x :: l', y :: m' => if eqb x y then first_diff eqb l' m' (N.succ i) else Some i
  | _, _ => Some i
  end.

(* [] when model and implementation agree; otherwise
   [id; field; detail]: field 1 = raise/ok status (detail: model error code, 0 = model ok),
   2 = gate list (detail: first differing position), 3 = num_qubits, 4 = qubit_map
   (position), 5 = unused oracle choices, 9 = outside the model's scope (code 2) *)
Definition run_case (c : ccase) : list N :=
  match run_model c with
  | Err 2 => [cc_id c; 9; 2]%N
  | Err k =>
      if cc_raised c && (Nat.eqb k 1 || Nat.eqb k 5) then [] else [cc_id c; 1%N; N.of_nat k]
  | Ok st =>
      if cc_raised c then [cc_id c; 1; 0]%N else
      match first_diff (fun g e => gk_eqb (cg_kind g) (fst e) && list_nat_eqb (cg_qs g) (snd e))
                       (st_gates st) (cc_gates c) 0%N with
      | Some i => [cc_id c; 2%N; i]
      | None =>
        if negb (Nat.eqb (st_nq st) (cc_nq c)) then [cc_id c; 3%N; N.of_nat (st_nq st)] else
        match first_diff (fun a b => qname_eqb (fst a) (fst b) && Nat.eqb (snd a) (snd b))
                         (st_qmap st) (cc_qmap c) 0%N with
        | Some i => [cc_id c; 4%N; i]
        | None => match st_orc st with [] => [] | _ => [cc_id c; 5; 0]%N end
        end
      end
  end.

Definition failing_cases (cs : list ccase) : list N := concat (map run_case cs).

(* membership in the class covered by Prop_C02_model.C02m_class_holds (and its
   run-time guard: no ancilla recycled), evaluated on each observed program *)
Definition class_flag (c : ccase) : bool :=
  in_class (cc_n c) (fun s => mem_nat s (cc_temps c)) (cc_tbl c) (cc_defs c)
  && nopop (cc_orc c) && negb (cc_raised c).
Definition class_members (cs : list ccase) : list N := map cc_id (filter class_flag cs).
