(* BexpTT.v — truth tables of all 2^n assignments packed in one binary number:
   bit x of a table is the value under the assignment whose variable i is bit i of x.
   Deciding equality of two expressions on EVERY assignment is one N comparison,
   and the decision is proved sound and complete. *)
From Coq Require Import List Bool NArith Arith Lia.
From QV Require Import Bexp.
Import ListNotations.
Local Open Scope N_scope.

Definition pow2n (n : nat) : N := 2 ^ N.of_nat n.
Definition tt_mask (n : nat) : N := N.ones (pow2n n).

Lemma tt_mask_spec n x : N.testbit (tt_mask n) x = (x <? pow2n n).
Proof.
  unfold tt_mask. destruct (N.ltb_spec x (pow2n n)) as [H|H].
  - now apply N.ones_spec_low.
  - now apply N.ones_spec_high.
Qed.

Lemma testbit_small x k : x < 2 ^ k -> N.testbit x k = false.
Proof.
  intros H. destruct (N.eq_dec x 0) as [->|Hx]; [apply N.bits_0|].
  apply N.bits_above_log2. apply N.log2_lt_pow2; lia.
Qed.

Lemma testbit_top x k : 2 ^ k <= x -> x < 2 ^ N.succ k -> N.testbit x k = true.
Proof.
  intros Hl Hu. assert (Hx : x <> 0) by (pose proof (N.pow_nonzero 2 k); lia).
  assert (N.log2 x = k) as <-; [|now apply N.bit_log2].
  apply N.log2_unique; lia.
Qed.

Lemma testbit_sub_pow2 x k i : i < k -> 2 ^ k <= x -> x < 2 ^ N.succ k ->
  N.testbit (x - 2 ^ k) i = N.testbit x i.
Proof.
  intros Hi Hl Hu. rewrite <- (N.mod_pow2_bits_low x k i Hi). f_equal.
  rewrite N.pow_succ_r' in Hu.
  apply (N.mod_unique x (2 ^ k) 1); lia.
Qed.

(* table of input variable i among n variables *)
Fixpoint var_tt (n i : nat) : N :=
  match n with
  | O => 0
  | S n' =>
      if Nat.eqb i n' then N.shiftl (tt_mask n') (pow2n n')
      else let t := var_tt n' i in N.lor t (N.shiftl t (pow2n n'))
  end.

Lemma pow2n_S n : pow2n (S n) = 2 * pow2n n.
Proof. unfold pow2n. now rewrite Nat2N.inj_succ, N.pow_succ_r'. Qed.

Lemma shiftl_testbit a s x : N.testbit (N.shiftl a s) x = if x <? s then false else N.testbit a (x - s).
Proof.
  destruct (N.ltb_spec x s) as [H|H].
  - now apply N.shiftl_spec_low.
  - now apply N.shiftl_spec_high'.
Qed.

Lemma var_tt_spec n : forall i x, (i < n)%nat ->
  N.testbit (var_tt n i) x = (x <? pow2n n) && N.testbit x (N.of_nat i).
Proof.
  induction n as [|n IH]; intros i x Hi; [lia|].
  cbn [var_tt]. rewrite pow2n_S. set (s := pow2n n) in *.
  assert (Hs : s = 2 ^ N.of_nat n) by reflexivity.
  assert (Hs0 : 0 < s) by (rewrite Hs; apply N.neq_0_lt_0, N.pow_nonzero; lia).
  destruct (Nat.eqb_spec i n) as [->|Hne].
  - rewrite shiftl_testbit, tt_mask_spec. fold s.
    destruct (N.ltb_spec x s) as [Hx|Hx]; destruct (N.ltb_spec x (2 * s)) as [Hx2|Hx2]; try lia.
    + rewrite testbit_small by (rewrite <- Hs; exact Hx). reflexivity.
    + rewrite testbit_top; [|rewrite <- Hs; exact Hx|rewrite N.pow_succ_r', <- Hs; exact Hx2].
      destruct (N.ltb_spec (x - s) s); [reflexivity|lia].
    + destruct (N.ltb_spec (x - s) s); [lia|reflexivity].
  - assert (Hi' : (i < n)%nat) by lia.
    rewrite N.lor_spec, shiftl_testbit, !IH by exact Hi'. fold s.
    destruct (N.ltb_spec x s) as [Hx|Hx]; destruct (N.ltb_spec x (2 * s)) as [Hx2|Hx2]; try lia.
    + cbn [andb]. apply orb_false_r.
    + destruct (N.ltb_spec (x - s) s); [|lia]. cbn [andb orb].
      rewrite Hs. apply testbit_sub_pow2; [lia|rewrite <- Hs; exact Hx|].
      rewrite N.pow_succ_r', <- Hs. exact Hx2.
    + destruct (N.ltb_spec (x - s) s); [lia|]. reflexivity.
Qed.

Definition input_tables (n : nat) : list N := map (var_tt n) (seq 0 n).

(* the assignment numbered x *)
Definition asg (x : N) : nat -> bool := fun i => N.testbit x (N.of_nat i).

Lemma input_tables_spec n i x : (i < n)%nat -> x < pow2n n ->
  N.testbit (nth i (input_tables n) 0) x = asg x i.
Proof.
  intros Hi Hx. unfold input_tables.
  rewrite (nth_indep _ 0 (var_tt n 0)) by (rewrite map_length, seq_length; exact Hi).
  rewrite map_nth, seq_nth by exact Hi. cbn [Nat.add].
  rewrite var_tt_spec by exact Hi. apply N.ltb_lt in Hx. now rewrite Hx.
Qed.

(* ---- list update ---- *)
Fixpoint upd {A} (d : A) (l : list A) (i : nat) (v : A) : list A :=
  match i, l with
  | O, [] => [v]
  | O, _ :: r => v :: r
  | S i', [] => d :: upd d [] i' v
  | S i', x :: r => x :: upd d r i' v
  end.

Lemma nth_upd {A} (d : A) l i v j : nth j (upd d l i v) d = if Nat.eqb j i then v else nth j l d.
Proof.
  revert l j; induction i as [|i IH]; intros l j.
  - destruct l, j; cbn; try reflexivity. now destruct j.
  - destruct l as [|x r], j as [|j]; cbn [upd nth Nat.eqb]; try reflexivity.
    + rewrite IH. destruct (Nat.eqb j i); [reflexivity|now destruct j].
    + apply IH.
Qed.

Lemma map_upd {A B} (h : A -> B) d l i v : map h (upd d l i v) = upd (h d) (map h l) i (h v).
Proof.
  revert l; induction i as [|i IH]; intros l; destruct l as [|x r]; cbn [upd map]; try reflexivity.
  - now rewrite (IH []).
  - now rewrite IH.
Qed.

(* ---- sequential definitions: (symbol, expression) evaluated in order ---- *)
Definition defs := list (nat * bexp).

Definition run_defs (env : nat -> bool) (ds : defs) : nat -> bool :=
  fold_left (fun env se => fun j => if Nat.eqb j (fst se) then beval env (snd se) else env j) ds env.

Definition tenv (tbl : list N) : nat -> N := fun i => nth i tbl 0.

Definition run_defs_tt (m : N) (tbl : list N) (ds : defs) : list N :=
  fold_left (fun tbl se => upd 0 tbl (fst se) (tt_eval m (tenv tbl) (snd se))) ds tbl.

Lemma beval_ext env1 env2 e : (forall i, env1 i = env2 i) -> beval env1 e = beval env2 e.
Proof. intros H. unfold beval. apply (geval_ext bool_alg). intros i _. apply H. Qed.

Lemma run_defs_ext ds : forall env1 env2, (forall i, env1 i = env2 i) ->
  forall j, run_defs env1 ds j = run_defs env2 ds j.
Proof.
  induction ds as [|[s e] ds IH]; intros env1 env2 H j; [apply H|].
  unfold run_defs; cbn [fold_left fst snd]. apply IH. intros i.
  destruct (Nat.eqb i s); [now apply beval_ext|apply H].
Qed.

Lemma run_defs_tt_cons m tbl s e ds :
  run_defs_tt m tbl ((s, e) :: ds) = run_defs_tt m (upd 0 tbl s (tt_eval m (tenv tbl) e)) ds.
Proof. reflexivity. Qed.
Lemma run_defs_cons env s e ds :
  run_defs env ((s, e) :: ds) = run_defs (fun j => if Nat.eqb j s then beval env e else env j) ds.
Proof. reflexivity. Qed.

Lemma run_defs_tt_spec m x ds : N.testbit m x = true -> forall tbl j,
  N.testbit (tenv (run_defs_tt m tbl ds) j) x = run_defs (fun i => N.testbit (tenv tbl i) x) ds j.
Proof.
  intros Hm. induction ds as [|[s e] ds IH]; intros tbl j; [reflexivity|].
  rewrite run_defs_tt_cons, run_defs_cons, IH. apply run_defs_ext. intros i. unfold tenv at 1.
  rewrite nth_upd. destruct (Nat.eqb i s); [|reflexivity].
  now apply tt_eval_spec.
Qed.

(* ---- deciding equality on every assignment ---- *)
Definition tt_diff (m a b : N) : N := N.land m (N.lxor a b).

Lemma tt_diff_spec m a b :
  tt_diff m a b = 0 <-> (forall x, N.testbit m x = true -> N.testbit a x = N.testbit b x).
Proof.
  unfold tt_diff. split.
  - intros H x Hm. assert (Hb : N.testbit (N.land m (N.lxor a b)) x = false) by (rewrite H; apply N.bits_0).
    rewrite N.land_spec, N.lxor_spec, Hm in Hb. cbn in Hb.
    destruct (N.testbit a x), (N.testbit b x); cbn in Hb; congruence.
  - intros H. apply N.bits_inj_0. intros x. rewrite N.land_spec, N.lxor_spec.
    destruct (N.testbit m x) eqn:Hm; [|reflexivity]. rewrite (H x Hm). cbn. apply xorb_nilpotent.
Qed.

(* a concrete disagreeing assignment when the tables differ *)
Lemma tt_diff_witness m a b : tt_diff m a b <> 0 ->
  let x := N.log2 (tt_diff m a b) in N.testbit m x = true /\ N.testbit a x <> N.testbit b x.
Proof.
  intros H x. pose proof (N.bit_log2 _ H) as Hb. fold x in Hb. unfold tt_diff in Hb.
  rewrite N.land_spec, N.lxor_spec in Hb. apply andb_true_iff in Hb as [Hm Hx].
  split; [exact Hm|]. destruct (N.testbit a x), (N.testbit b x); cbn in Hx; congruence.
Qed.

(* all-assignment equivalence of two expressions over n input variables *)
Definition bexp_equiv_tt (n : nat) (e1 e2 : bexp) : bool :=
  let m := tt_mask n in let env := tenv (input_tables n) in
  tt_diff m (tt_eval m env e1) (tt_eval m env e2) =? 0.

Definition syms_below (n : nat) (e : bexp) : bool := forallb (fun i => Nat.ltb i n) (bsyms e).

Theorem bexp_equiv_tt_correct n e1 e2 :
  syms_below n e1 = true -> syms_below n e2 = true ->
  (bexp_equiv_tt n e1 e2 = true <-> forall x, x < pow2n n -> beval (asg x) e1 = beval (asg x) e2).
Proof.
  intros H1 H2. unfold bexp_equiv_tt. rewrite N.eqb_eq, tt_diff_spec.
  assert (Hev : forall e x, syms_below n e = true -> x < pow2n n ->
     N.testbit (tt_eval (tt_mask n) (tenv (input_tables n)) e) x = beval (asg x) e).
  { intros e x He Hx. rewrite tt_eval_spec by (rewrite tt_mask_spec; now apply N.ltb_lt).
    unfold beval. apply (geval_ext bool_alg). intros i Hi. unfold syms_below in He. rewrite forallb_forall in He.
    specialize (He i Hi). apply Nat.ltb_lt in He. now apply input_tables_spec. }
  split.
  - intros H x Hx. rewrite <- !Hev by assumption. apply H. rewrite tt_mask_spec. now apply N.ltb_lt.
  - intros H x Hm. rewrite tt_mask_spec in Hm. apply N.ltb_lt in Hm. rewrite !Hev by assumption. now apply H.
Qed.
