(* Bexp.v — boolean expressions with n-ary connectives (the shape of the sympy
   trees qlasskit manipulates), evaluated in any "bit algebra": booleans, or
   truth tables packed in a binary number (all assignments at once). *)
From Coq Require Import List Bool NArith Arith Lia.
Import ListNotations.

Inductive bexp :=
| BConst (b : bool)
| BSym (i : nat)
| BNot (e : bexp)
| BAnd (l : list bexp)
| BOr (l : list bexp)
| BXor (l : list bexp)
| BIte (c t e : bexp)
| BImp (a b : bexp).

Section bexp_ind2.
  Variable P : bexp -> Prop.
  Hypotheses (Hc : forall b, P (BConst b)) (Hs : forall i, P (BSym i))
    (Hn : forall e, P e -> P (BNot e))
    (Ha : forall l, Forall P l -> P (BAnd l)) (Ho : forall l, Forall P l -> P (BOr l))
    (Hx : forall l, Forall P l -> P (BXor l))
    (Hi : forall c t e, P c -> P t -> P e -> P (BIte c t e))
    (Hm : forall a b, P a -> P b -> P (BImp a b)).
  Fixpoint bexp_ind2 (e : bexp) : P e :=
    let go := fix go (l : list bexp) : Forall P l :=
      match l with [] => Forall_nil _ | x :: r => Forall_cons x (bexp_ind2 x) (go r) end in
    match e with
    | BConst b => Hc b | BSym i => Hs i | BNot e => Hn e (bexp_ind2 e)
    | BAnd l => Ha l (go l) | BOr l => Ho l (go l) | BXor l => Hx l (go l)
    | BIte c t e => Hi c t e (bexp_ind2 c) (bexp_ind2 t) (bexp_ind2 e)
    | BImp a b => Hm a b (bexp_ind2 a) (bexp_ind2 b)
    end.
End bexp_ind2.

(* ---- bit algebras ---- *)
Record balg := mkalg {
  carrier :> Type;
  b_false : carrier; b_true : carrier;
  b_and : carrier -> carrier -> carrier;
  b_or : carrier -> carrier -> carrier;
  b_xor : carrier -> carrier -> carrier;
  b_not : carrier -> carrier }.

Definition bool_alg : balg := mkalg bool false true andb orb xorb negb.

(* truth tables over the assignments selected by the mask [m] *)
Definition tt_alg (m : N) : balg := mkalg N 0%N m N.land N.lor N.lxor (fun a => N.ldiff m a).

Section Geval.
  Variable A : balg.
  Variable env : nat -> A.
  Fixpoint geval (e : bexp) : A :=
    match e with
    | BConst b => if b then b_true A else b_false A
    | BSym i => env i
    | BNot e => b_not A (geval e)
    | BAnd l => fold_right (fun x acc => b_and A (geval x) acc) (b_true A) l
    | BOr l => fold_right (fun x acc => b_or A (geval x) acc) (b_false A) l
    | BXor l => fold_right (fun x acc => b_xor A (geval x) acc) (b_false A) l
    | BIte c t e => b_or A (b_and A (geval c) (geval t)) (b_and A (b_not A (geval c)) (geval e))
    | BImp a b => b_or A (b_not A (geval a)) (geval b)
    end.
End Geval.

Definition beval (env : nat -> bool) (e : bexp) : bool := geval bool_alg env e.
Definition tt_eval (m : N) (env : nat -> N) (e : bexp) : N := geval (tt_alg m) env e.

(* a homomorphism of bit algebras commutes with evaluation *)
Section Hom.
  Variables (A B : balg) (h : A -> B).
  Hypotheses (h_false : h (b_false A) = b_false B) (h_true : h (b_true A) = b_true B)
    (h_and : forall x y, h (b_and A x y) = b_and B (h x) (h y))
    (h_or : forall x y, h (b_or A x y) = b_or B (h x) (h y))
    (h_xor : forall x y, h (b_xor A x y) = b_xor B (h x) (h y))
    (h_not : forall x, h (b_not A x) = b_not B (h x)).

  Lemma geval_hom env e : h (geval A env e) = geval B (fun i => h (env i)) e.
  Proof.
    induction e as [b|i|e IH|l IH|l IH|l IH|c t e IHc IHt IHe|a b IHa IHb] using bexp_ind2;
      cbn [geval].
    - destruct b; assumption.
    - reflexivity.
    - now rewrite h_not, IH.
    - induction IH as [|x r Hx _ IHr]; cbn [fold_right]; [assumption|]. now rewrite h_and, Hx, IHr.
    - induction IH as [|x r Hx _ IHr]; cbn [fold_right]; [assumption|]. now rewrite h_or, Hx, IHr.
    - induction IH as [|x r Hx _ IHr]; cbn [fold_right]; [assumption|]. now rewrite h_xor, Hx, IHr.
    - now rewrite h_or, !h_and, h_not, IHc, IHt, IHe.
    - now rewrite h_or, h_not, IHa, IHb.
  Qed.
End Hom.

(* reading one assignment out of a packed truth table *)
Lemma tt_eval_spec m env e x :
  N.testbit m x = true ->
  N.testbit (tt_eval m env e) x = beval (fun i => N.testbit (env i) x) e.
Proof.
  intros Hm. unfold tt_eval, beval.
  apply (geval_hom (tt_alg m) bool_alg (fun t => N.testbit t x)); cbn.
  - apply (N.bits_0 x).
  - exact Hm.
  - intros; apply N.land_spec.
  - intros; apply N.lor_spec.
  - intros; apply N.lxor_spec.
  - intros y. rewrite N.ldiff_spec, Hm. reflexivity.
Qed.

(* boolean evaluation, unfolded *)
Lemma beval_and env l : beval env (BAnd l) = forallb (beval env) l.
Proof. unfold beval; cbn [geval]. induction l as [|x r IH]; cbn [fold_right forallb]; [reflexivity|now rewrite IH]. Qed.
Lemma beval_or env l : beval env (BOr l) = existsb (beval env) l.
Proof. unfold beval; cbn [geval]. induction l as [|x r IH]; cbn [fold_right existsb]; [reflexivity|now rewrite IH]. Qed.
Lemma beval_xor env l : beval env (BXor l) = fold_right xorb false (map (beval env) l).
Proof. unfold beval; cbn [geval]. induction l as [|x r IH]; cbn [fold_right map]; [reflexivity|now rewrite IH]. Qed.
Lemma beval_not env e : beval env (BNot e) = negb (beval env e).
Proof. reflexivity. Qed.
Lemma beval_ite env c t e : beval env (BIte c t e) = if beval env c then beval env t else beval env e.
Proof. unfold beval; cbn [geval]; cbn. destruct (geval bool_alg env c), (geval bool_alg env t), (geval bool_alg env e); reflexivity. Qed.
Lemma beval_imp env a b : beval env (BImp a b) = implb (beval env a) (beval env b).
Proof. unfold beval; cbn [geval]; cbn. destruct (geval bool_alg env a), (geval bool_alg env b); reflexivity. Qed.

(* evaluation depends only on the symbols that occur *)
Fixpoint bsyms (e : bexp) : list nat :=
  match e with
  | BConst _ => []
  | BSym i => [i]
  | BNot e => bsyms e
  | BAnd l | BOr l | BXor l => flat_map bsyms l
  | BIte c t e => bsyms c ++ bsyms t ++ bsyms e
  | BImp a b => bsyms a ++ bsyms b
  end.

Lemma geval_ext (A : balg) env1 env2 e :
  (forall i, In i (bsyms e) -> env1 i = env2 i) -> geval A env1 e = geval A env2 e.
Proof.
  induction e as [b|i|e IH|l IH|l IH|l IH|c t e IHc IHt IHe|a b IHa IHb] using bexp_ind2;
    cbn [geval bsyms]; intros H.
  - reflexivity.
  - apply H. now left.
  - now rewrite IH.
  - revert H; induction IH as [|x r Hx _ IHr]; intros H; cbn [fold_right]; [reflexivity|].
    cbn [flat_map] in H. rewrite Hx, IHr; [reflexivity| |]; intros i Hi; apply H, in_or_app; auto.
  - revert H; induction IH as [|x r Hx _ IHr]; intros H; cbn [fold_right]; [reflexivity|].
    cbn [flat_map] in H. rewrite Hx, IHr; [reflexivity| |]; intros i Hi; apply H, in_or_app; auto.
  - revert H; induction IH as [|x r Hx _ IHr]; intros H; cbn [fold_right]; [reflexivity|].
    cbn [flat_map] in H. rewrite Hx, IHr; [reflexivity| |]; intros i Hi; apply H, in_or_app; auto.
  - rewrite IHc, IHt, IHe; [reflexivity| | |]; intros i Hi; apply H; rewrite !in_app_iff; auto.
  - rewrite IHa, IHb; [reflexivity| |]; intros i Hi; apply H; rewrite !in_app_iff; auto.
Qed.
