(* Prop_C01.v — placeholder index of the C01 theorems (types layer in
   Prop_C01_types.v once built); see DESIGN.md 5/C01. *)
From Coq Require Import List Bool NArith Arith.
From QV Require Import Bits Bexp BexpTT.
Import ListNotations.
Local Open Scope N_scope.

(* deciding that two expressions agree on every assignment is sound and complete *)
Theorem C01_expression_equivalence_decided : forall n e1 e2,
  syms_below n e1 = true -> syms_below n e2 = true ->
  (bexp_equiv_tt n e1 e2 = true <-> forall x, x < pow2n n -> beval (asg x) e1 = beval (asg x) e2).
Proof. exact bexp_equiv_tt_correct. Qed.
Print Assumptions C01_expression_equivalence_decided.
