(* Chk_Types.v — functions the correspondence harness (harness/c01_types.py)
   evaluates with vm_compute on what it observed from the REAL methods of
   qlasskit/types.  For one case the harness sends: the method (opc), the two
   operands exactly as it passed them to the implementation (bexp lists over the
   input symbols 0..n-1, constants as BConst), and the implementation's result:
   the returned type and the returned sympy expressions serialised as a DAG
   (sequential definitions of fresh symbols > n, then one expression per bit).

   chk_model  : the model's result (M_Types) and the implementation's agree:
                same type, same number of bits, and every bit has the same value
                on EVERY assignment of the n input symbols (packed truth tables,
                BexpTT.tt_eval / run_defs_tt / tt_diff), or — for operands with
                too many bits — on the assignments whose columns the harness sends.
   chk_spec   : the implementation's bits equal the arithmetic meaning proved
                for the model in P_Types (x + y mod 2^w, x < y, ...), computed
                here numerically for every assignment.  Used where the model's
                expression tree is too large to walk (symbolic multiplication).
   chk_shape  : type and number of bits only.
   Each returns the list of failing case ids. *)
From Coq Require Import List Bool NArith Arith.
From QV Require Import Bits Bexp BexpTT M_Codec M_Types.
Import ListNotations.
Local Open Scope N_scope.

Definition ty_eqb (a b : ty) : bool :=
  match a, b with
  | TBool, TBool => true
  | TQint x, TQint y => Nat.eqb x y
  | TQfixed i f, TQfixed j g => Nat.eqb i j && Nat.eqb f g
  | TQchar, TQchar => true
  | _, _ => false
  end.

(* compact operands: symbols off .. off+w-1, and the w low bits of a constant *)
Definition sy (t : ty) (off w : nat) : texp := (t, map BSym (seq off w)).
Definition cv (t : ty) (w : nat) (v : N) : texp := (t, map BConst (nbits w v)).

(* what was called *)
Inductive opc :=
| OpBin (cls : ty) (op : binop)      (* getattr(cls, name)(tl, tr) *)
| OpUn (op : unop)                   (* bitwise_not / shift_left k / shift_right k on tl *)
| OpConst (w : nat) (v : N)          (* Qint<w>.const(v) *)
| OpFill (cls : ty)                  (* cls.fill(tl) *)
| OpCrop (cls : ty)                  (* cls.crop(tl) *)
| OpBoolEq | OpBoolNeq.              (* Qbool.eq / neq on the first expression of tl, tr *)

Definition run_model (o : opc) (tl tr : texp) : option texp :=
  match o with
  | OpBin cls op => type_binop cls op tl tr
  | OpUn op => type_unop op tl
  | OpConst w v => Some (qint_const_e w v)
  | OpFill cls => Some (fill cls tl)
  | OpCrop cls => Some (crop cls tl)
  | OpBoolEq =>
      match snd tl, snd tr with
      | [a], [b] => let r := qbool_eq (fst tl, a) (fst tr, b) in Some (fst r, [snd r])
      | _, _ => None
      end
  | OpBoolNeq =>
      match snd tl, snd tr with
      | [a], [b] => let r := qbool_neq (fst tl, a) (fst tr, b) in Some (fst r, [snd r])
      | _, _ => None
      end
  end.

(* the assignments a case is compared on *)
Inductive asgs :=
| AllOf (n : nat)                    (* all 2^n assignments of the inputs 0..n-1 *)
| Cols (k : N) (tbl : list N).       (* k assignments; column i = values of input i *)

Definition asg_mask (a : asgs) : N := match a with AllOf n => tt_mask n | Cols k _ => N.ones k end.
Definition asg_tbl (a : asgs) : list N := match a with AllOf n => input_tables n | Cols _ t => t end.
Definition asg_count (a : asgs) : nat := match a with AllOf n => Nat.pow 2 n | Cols k _ => N.to_nat k end.

(* what the implementation returned: None = it raised *)
Definition obs : Type := option (ty * defs * list bexp).

Definition tables_equal (m : N) (a b : list N) : bool :=
  Nat.eqb (length a) (length b)
  && forallb (fun p => tt_diff m (fst p) (snd p) =? 0) (combine a b).

Definition impl_tables (m : N) (tbl : list N) (ds : defs) (outs : list bexp) : list N :=
  let tbl' := run_defs_tt m tbl ds in map (tt_eval m (tenv tbl')) outs.

Definition chk_model1 (a : asgs) (o : opc) (tl tr : texp) (ob : obs) : bool :=
  let m := asg_mask a in
  let tbl := asg_tbl a in
  match run_model o tl tr, ob with
  | None, None => true
  | Some (t, bits), Some (t', ds, outs) =>
      ty_eqb t t'
      && tables_equal m (map (tt_eval m (tenv tbl)) bits) (impl_tables m tbl ds outs)
  | _, _ => false
  end.

Definition chk_shape1 (o : opc) (tl tr : texp) (ob : option (ty * nat)) : bool :=
  match run_model o tl tr, ob with
  | None, None => true
  | Some (t, bits), Some (t', n) => ty_eqb t t' && Nat.eqb (length bits) n
  | _, _ => false
  end.

(* ---- the arithmetic meaning, evaluated numerically on every assignment ---- *)
(* how a bit list is read as a number *)
(* RFix i s: a Qfixed list with i integer bits, read at a scale s bits finer
   (value * 2^(f + s)): s zeros below the qint representation *)
Inductive reading := RInt | RFix (i s : nat).
Definition read_list {A} (z : A) (r : reading) (l : list A) : list A :=
  match r with RInt => l | RFix i s => repeat z s ++ qrepr i l end.

Inductive sop :=
| SAdd (w : nat) | SSub (w : nat) | SMul (w : nat) | SModAnd (wr : nat)
| SAnd | SOr | SXor
| SEq | SNeq | SGt | SLt | SLte | SGte
| SShl (k w : nat) | SShr (k : nat) | SNot (w : nat) | SId | SCrop (w : nat).

Definition spec_fun (s : sop) (x y : N) : N :=
  match s with
  | SAdd w => (x + y) mod 2 ^ N.of_nat w
  | SSub w => (x + 2 ^ N.of_nat w - y) mod 2 ^ N.of_nat w
  | SMul w => (x * y) mod 2 ^ N.of_nat w
  | SModAnd wr => N.land x ((y + 2 ^ N.of_nat wr - 1) mod 2 ^ N.of_nat wr)
  | SAnd => N.land x y | SOr => N.lor x y | SXor => N.lxor x y
  | SEq => N.b2n (x =? y) | SNeq => N.b2n (negb (x =? y))
  | SGt => N.b2n (y <? x) | SLt => N.b2n (x <? y)
  | SLte => N.b2n (x <=? y) | SGte => N.b2n (y <=? x)
  | SShl k w => (x * 2 ^ N.of_nat k) mod 2 ^ N.of_nat w
  | SShr k => x / 2 ^ N.of_nat k
  | SNot w => 2 ^ N.of_nat w - 1 - x
  | SId => x
  | SCrop w => x mod 2 ^ N.of_nat w
  end.

(* little-endian bool list -> N, linear *)
Fixpoint n_of_bits (l : list bool) : N :=
  match l with
  | [] => 0
  | b :: r => match n_of_bits r with
              | 0 => if b then 1 else 0
              | Npos p => Npos (if b then xI p else xO p)
              end
  end.

(* per-assignment values of a list of tables (bit j of the value = table j) *)
Definition values_of (k : nat) (tabs : list N) : list N :=
  fold_right (fun t acc => map (fun bv => N.b2n (fst bv) + 2 * snd bv) (combine (nbits k t) acc))
             (repeat 0 k) tabs.

Definition chk_spec1 (a : asgs) (s : sop) (rl rr ro : reading) (wout : nat)
                     (tl tr : texp) (ob : obs) : bool :=
  let m := asg_mask a in
  let tbl := asg_tbl a in
  let k := asg_count a in
  match ob with
  | None => false
  | Some (_, ds, outs) =>
      let xs := values_of k (map (tt_eval m (tenv tbl)) (read_list bfalse rl (snd tl))) in
      let ys := match snd tr with
                | [] => repeat 0 k
                | _ => values_of k (map (tt_eval m (tenv tbl)) (read_list bfalse rr (snd tr)))
                end in
      let vs := map (fun xy => spec_fun s (fst xy) (snd xy)) (combine xs ys) in
      let expect := map (fun j => n_of_bits (map (fun v => N.testbit v (N.of_nat j)) vs)) (seq 0 wout) in
      tables_equal m expect (read_list 0 ro (impl_tables m tbl ds outs))
  end.

(* ---- case lists ---- *)
Definition failing {A} (ok : A -> bool) (l : list (N * A)) : list N :=
  map fst (filter (fun x => negb (ok (snd x))) l).

Definition chk_model (a : asgs) (cases : list (N * (opc * texp * texp * obs))) : list N :=
  failing (fun c => match c with (o, tl, tr, ob) => chk_model1 a o tl tr ob end) cases.

Definition chk_shape (cases : list (N * (opc * texp * texp * option (ty * nat)))) : list N :=
  failing (fun c => match c with (o, tl, tr, ob) => chk_shape1 o tl tr ob end) cases.

Definition chk_spec (a : asgs)
  (cases : list (N * (sop * reading * reading * reading * nat * texp * texp * obs))) : list N :=
  failing (fun c => match c with (s, rl, rr, ro, wout, tl, tr, ob) => chk_spec1 a s rl rr ro wout tl tr ob end) cases.
