(* P_Names.v — the ancilla name chosen by add_ancilla is never the name of a program symbol. *)
From Coq Require Import List Arith Bool Lia.
From QV Require Import M_Names.
Import ListNotations.

Lemma memb_In k l : memb k l = true <-> In k l.
Proof.
  unfold memb. rewrite existsb_exists. split.
  - intros [x [Hx He]]. apply Nat.eqb_eq in He. subst. exact Hx.
  - intros H. exists k. split; [exact H | apply Nat.eqb_refl].
Qed.

(* number of taken indices in the window [k, k + n) *)
Lemma fresh_go_sound fuel k taken r :
  fresh_go fuel k taken = Some r ->
  memb r taken = false /\ k <= r /\ forall j, k <= j < r -> memb j taken = true.
Proof.
  revert k. induction fuel as [|f IH]; intros k H; cbn [fresh_go] in H.
  - destruct (memb k taken) eqn:E; [discriminate|]. inversion H; subst.
    split; [exact E|]. split; [lia|]. intros j Hj. lia.
  - destruct (memb k taken) eqn:E.
    + apply IH in H. destruct H as [H1 [H2 H3]]. split; [exact H1|]. split; [lia|].
      intros j Hj. destruct (Nat.eq_dec j k) as [->|Hne]; [exact E|]. apply H3. lia.
    + inversion H; subst. split; [exact E|]. split; [lia|]. intros j Hj. lia.
Qed.

(* removing one occurrence-class of an index shortens the list *)
Lemma remove_length_lt k l : In k l -> length (remove Nat.eq_dec k l) < length l.
Proof.
  induction l as [|x xs IH]; intros H; [destruct H|].
  cbn [remove]. destruct (Nat.eq_dec k x) as [->|Hne].
  - cbn [length]. pose proof (remove_length_le Nat.eq_dec xs x). lia.
  - cbn [length]. destruct H as [->|H]; [congruence|]. apply IH in H. lia.
Qed.

Lemma memb_remove j k l : j <> k -> memb j (remove Nat.eq_dec k l) = memb j l.
Proof.
  intros Hne. destruct (memb j l) eqn:E.
  - apply memb_In. apply memb_In in E. apply in_in_remove; assumption.
  - destruct (memb j (remove Nat.eq_dec k l)) eqn:E2; [|reflexivity].
    apply memb_In in E2. apply in_remove in E2. destruct E2 as [E2 _].
    apply memb_In in E2. congruence.
Qed.

(* the search depends only on the indices >= k *)
Lemma fresh_go_remove_below fuel k j taken : j < k ->
  fresh_go fuel k (remove Nat.eq_dec j taken) = fresh_go fuel k taken.
Proof.
  revert k. induction fuel as [|f IH]; intros k Hlt; cbn [fresh_go];
    rewrite memb_remove by lia; [reflexivity|].
  destruct (memb k taken); [|reflexivity]. apply IH. lia.
Qed.

Lemma fresh_go_total fuel k taken : length taken <= fuel -> exists r, fresh_go fuel k taken = Some r.
Proof.
  revert k taken. induction fuel as [|f IH]; intros k taken Hlen; cbn [fresh_go].
  - destruct taken; [|cbn in Hlen; lia]. cbn. eexists; reflexivity.
  - destruct (memb k taken) eqn:E; [|eexists; reflexivity].
    rewrite <- (fresh_go_remove_below f (S k) k taken) by lia.
    apply IH. apply memb_In in E. apply remove_length_lt in E. lia.
Qed.

Theorem fresh_anc_total k0 taken : exists r, fresh_anc k0 taken = Some r.
Proof. apply fresh_go_total. lia. Qed.

Theorem fresh_anc_spec k0 taken r : fresh_anc k0 taken = Some r ->
  ~ In r taken /\ k0 <= r /\ forall j, k0 <= j < r -> In j taken.
Proof.
  intros H. apply fresh_go_sound in H. destruct H as [H1 [H2 H3]].
  split; [intro Hin; apply memb_In in Hin; congruence|]. split; [exact H2|].
  intros j Hj. apply memb_In. apply H3. exact Hj.
Qed.

(* without a clash the name is the old one: anc_<number of ancillas> *)
Theorem fresh_anc_no_clash k0 taken : ~ In k0 taken -> fresh_anc k0 taken = Some k0.
Proof.
  intros H. unfold fresh_anc. destruct (length taken); cbn [fresh_go];
    (destruct (memb k0 taken) eqn:E; [apply memb_In in E; contradiction|reflexivity]).
Qed.
