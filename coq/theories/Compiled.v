(* Compiled.v — verified decision procedures for a compiled function:
   C02 (outputs hold the return expressions), C03 (inputs preserved, scratch
   zero), C06 (xor-oracle).  Each evaluates the real gate list and the real
   expression list on ALL basis inputs at once (packed truth tables) and is
   proved sound and complete against the per-input reference semantics. *)
From Coq Require Import List Bool NArith Arith Lia.
From QV Require Import Bexp BexpTT Circ.
Import ListNotations.
Local Open Scope N_scope.

Definition all_classical (c : circuit) : bool :=
  forallb (fun g => match cact_of g with CNone => false | _ => true end) c.

Lemma sim_some (A : balg) c : forall s, (exists ft, sim A s c = Some ft) <-> all_classical c = true.
Proof.
  induction c as [|g c IH]; intros s; cbn [sim all_classical forallb].
  - split; [reflexivity|]. intros _. now exists s.
  - destruct (cact_of g); cbn [andb]; [apply IH|apply IH|].
    split; [intros [ft H]; discriminate|discriminate].
Qed.

Lemma fsim_some c : forall f, all_classical c = true -> exists f', fsim f c = Some f'.
Proof.
  induction c as [|g c IH]; intros f; cbn [fsim all_classical forallb]; [intros _; now exists f|].
  destruct (cact_of g); cbn [andb]; [apply IH|apply IH|discriminate].
Qed.

(* the computational basis state holding x on the first n qubits, zero elsewhere *)
Definition basis (n : nat) (x : N) : nat -> bool :=
  fun q => if Nat.ltb q n then N.testbit x (N.of_nat q) else false.

Definition init_tables (n nq : nat) : list N := input_tables n ++ repeat 0 (nq - n).

Lemma input_tables_length n : length (input_tables n) = n.
Proof. unfold input_tables. now rewrite map_length, seq_length. Qed.

Lemma nth_repeat0 k q : nth q (repeat 0 k) 0 = 0.
Proof. revert q; induction k as [|k IH]; intros [|q]; cbn; auto. Qed.

Lemma proj_init n nq x q : x < pow2n n -> proj x (init_tables n nq) q = basis n x q.
Proof.
  intros Hx. unfold proj, basis, init_tables.
  destruct (Nat.ltb_spec q n) as [Hq|Hq].
  - rewrite app_nth1 by (rewrite input_tables_length; exact Hq). now apply input_tables_spec.
  - rewrite app_nth2 by (rewrite input_tables_length; exact Hq). rewrite nth_repeat0. apply N.bits_0.
Qed.

Lemma asg_high n x i : x < pow2n n -> (n <= i)%nat -> asg x i = false.
Proof.
  intros Hx Hi. unfold asg. apply testbit_small. eapply N.lt_le_trans; [exact Hx|].
  unfold pow2n. apply N.pow_le_mono_r; lia.
Qed.

Lemma tenv_input n x i : x < pow2n n -> N.testbit (tenv (input_tables n) i) x = asg x i.
Proof.
  intros Hx. destruct (Nat.ltb_spec i n) as [Hi|Hi].
  - now apply input_tables_spec.
  - unfold tenv. rewrite nth_overflow by (rewrite input_tables_length; exact Hi).
    rewrite N.bits_0. symmetry. now apply (asg_high n).
Qed.

Definition expr_tables (n : nat) (ds : defs) : list N :=
  run_defs_tt (tt_mask n) (input_tables n) ds.

Lemma expr_tables_spec n ds x s : x < pow2n n ->
  N.testbit (tenv (expr_tables n ds) s) x = run_defs (asg x) ds s.
Proof.
  intros Hx. unfold expr_tables. rewrite run_defs_tt_spec by (rewrite tt_mask_spec; now apply N.ltb_lt).
  apply run_defs_ext. intros i. now apply tenv_input.
Qed.

Lemma mask_lt n x : N.testbit (tt_mask n) x = true <-> x < pow2n n.
Proof. rewrite tt_mask_spec. apply N.ltb_lt. Qed.

(* ---------------- C02 ---------------- *)
(* rets: (return symbol, qubit it is mapped to) *)
Definition c02_expected (n : nat) (ds : defs) (rets : list (nat * nat)) : list (nat * N) :=
  map (fun sq => (snd sq, tenv (expr_tables n ds) (fst sq))) rets.
Definition c02_check (n nq : nat) (c : circuit) (ds : defs) (rets : list (nat * nat)) : option N :=
  check_circuit (tt_mask n) (init_tables n nq) c (c02_expected n ds rets).

Definition c02_holds (n : nat) (c : circuit) (ds : defs) (rets : list (nat * nat)) : Prop :=
  forall x, x < pow2n n ->
    exists f, fsim (basis n x) c = Some f /\
      forall s q, In (s, q) rets -> f q = run_defs (asg x) ds s.

Lemma fsim_basis n nq x c : x < pow2n n ->
  opt_rel (fun f g => forall q, f q = g q) (fsim (proj x (init_tables n nq)) c) (fsim (basis n x) c).
Proof. intros Hx. apply fsim_ext. intros q. now apply proj_init. Qed.

Theorem c02_check_correct n nq c ds rets :
  c02_check n nq c ds rets = Some 0 <-> all_classical c = true /\ c02_holds n c ds rets.
Proof.
  unfold c02_check. rewrite check_circuit_spec, sim_some. apply and_iff_compat_l. unfold c02_holds. split.
  - intros H x Hx. destruct (H x (proj2 (mask_lt n x) Hx)) as (f & Hf & He).
    pose proof (fsim_basis n nq x c Hx) as Hb. rewrite Hf in Hb.
    destruct (fsim (basis n x) c) as [g|]; [|contradiction]. exists g. split; [reflexivity|].
    intros s q Hin. rewrite <- Hb. rewrite (He q (tenv (expr_tables n ds) s)).
    + now apply expr_tables_spec.
    + unfold c02_expected. apply in_map_iff. now exists (s, q).
  - intros H x Hm. apply mask_lt in Hm. destruct (H x Hm) as (g & Hg & He).
    pose proof (fsim_basis n nq x c Hm) as Hb. rewrite Hg in Hb.
    destruct (fsim (proj x (init_tables n nq)) c) as [f|]; [|contradiction]. exists f. split; [reflexivity|].
    intros q e Hin. unfold c02_expected in Hin. apply in_map_iff in Hin as ([s q'] & Heq & Hin).
    cbn [fst snd] in Heq. injection Heq as -> <-. rewrite Hb, (He s q Hin).
    symmetry. now apply expr_tables_spec.
Qed.

(* ---------------- C03 ---------------- *)
Definition mem_nat (q : nat) (l : list nat) : bool := existsb (Nat.eqb q) l.
Lemma mem_nat_in q l : mem_nat q l = true <-> In q l.
Proof.
  unfold mem_nat. rewrite existsb_exists. split.
  - intros (y & Hy & He). apply Nat.eqb_eq in He. now subst.
  - intros H. exists q. split; [exact H|apply Nat.eqb_refl].
Qed.

Definition c03_expected (n nq : nat) (outs : list nat) : list (nat * N) :=
  map (fun q => (q, var_tt n q)) (seq 0 n) ++
  map (fun q => (q, 0)) (filter (fun q => negb (mem_nat q outs)) (seq n (nq - n))).
Definition c03_check (n nq : nat) (c : circuit) (outs : list nat) : option N :=
  check_circuit (tt_mask n) (init_tables n nq) c (c03_expected n nq outs).

Definition c03_holds (n nq : nat) (c : circuit) (outs : list nat) : Prop :=
  forall x, x < pow2n n ->
    exists f, fsim (basis n x) c = Some f /\
      (forall q, (q < n)%nat -> f q = N.testbit x (N.of_nat q)) /\
      (forall q, (n <= q < nq)%nat -> ~ In q outs -> f q = false).

Lemma var_tt_asg n q x : (q < n)%nat -> x < pow2n n -> N.testbit (var_tt n q) x = N.testbit x (N.of_nat q).
Proof. intros Hq Hx. rewrite var_tt_spec by exact Hq. apply N.ltb_lt in Hx. now rewrite Hx. Qed.

Theorem c03_check_correct n nq c outs :
  c03_check n nq c outs = Some 0 <-> all_classical c = true /\ c03_holds n nq c outs.
Proof.
  unfold c03_check. rewrite check_circuit_spec, sim_some. apply and_iff_compat_l. unfold c03_holds. split.
  - intros H x Hx. destruct (H x (proj2 (mask_lt n x) Hx)) as (f & Hf & He).
    pose proof (fsim_basis n nq x c Hx) as Hb. rewrite Hf in Hb.
    destruct (fsim (basis n x) c) as [g|]; [|contradiction]. exists g. split; [reflexivity|]. split.
    + intros q Hq. rewrite <- Hb, (He q (var_tt n q)); [now apply var_tt_asg|].
      unfold c03_expected. apply in_or_app. left. apply in_map_iff. exists q. split; [reflexivity|].
      apply in_seq. lia.
    + intros q Hq Hout. rewrite <- Hb, (He q 0); [apply N.bits_0|].
      unfold c03_expected. apply in_or_app. right. apply in_map_iff. exists q. split; [reflexivity|].
      apply filter_In. split; [apply in_seq; lia|].
      destruct (mem_nat q outs) eqn:E; [|reflexivity]. apply mem_nat_in in E. contradiction.
  - intros H x Hm. apply mask_lt in Hm. destruct (H x Hm) as (g & Hg & Hin & Hz).
    pose proof (fsim_basis n nq x c Hm) as Hb. rewrite Hg in Hb.
    destruct (fsim (proj x (init_tables n nq)) c) as [f|]; [|contradiction]. exists f. split; [reflexivity|].
    intros q e Hq. unfold c03_expected in Hq. apply in_app_or in Hq as [Hq|Hq]; apply in_map_iff in Hq as (q' & Heq & Hq).
    + injection Heq as -> <-. apply in_seq in Hq. rewrite Hb, Hin by lia. symmetry. apply var_tt_asg; [lia|exact Hm].
    + injection Heq as -> <-. apply filter_In in Hq as [Hq Hn]. apply in_seq in Hq.
      rewrite Hb, Hz; [now rewrite N.bits_0|lia|].
      intros Hc. apply mem_nat_in in Hc. now rewrite Hc in Hn.
Qed.

(* ---------------- C06 ---------------- *)
(* variable n of the tables is the initial value y of the output qubit;
   the expression list must not mention symbol n (checked) *)
Definition defs_avoid (k : nat) (ds : defs) : bool :=
  forallb (fun se => negb (Nat.eqb (fst se) k) && negb (mem_nat k (bsyms (snd se)))) ds.

Lemma run_defs_avoid k ds : defs_avoid k ds = true -> forall env1 env2,
  (forall i, i <> k -> env1 i = env2 i) -> forall s, s <> k -> run_defs env1 ds s = run_defs env2 ds s.
Proof.
  induction ds as [|[s0 e0] ds IH]; intros Ha env1 env2 H s Hs; [now apply H|].
  cbn [defs_avoid forallb fst snd] in Ha. apply andb_true_iff in Ha as [Ha1 Ha2].
  apply andb_true_iff in Ha1 as [Hs0 He0]. rewrite !run_defs_cons. apply IH; [exact Ha2| |exact Hs].
  intros i Hi. destruct (Nat.eqb i s0); [|now apply H].
  unfold beval. apply (geval_ext bool_alg). intros j Hj. apply H. intros ->.
  apply negb_true_iff in He0. assert (mem_nat k (bsyms e0) = true) by now apply mem_nat_in. congruence.
Qed.

Definition c06_init (n nq out : nat) : list N :=
  map (fun q => if Nat.ltb q n then var_tt (S n) q else if Nat.eqb q out then var_tt (S n) n else 0) (seq 0 nq).
Definition c06_expected (n nq out : nat) (ds : defs) (ret : nat) : list (nat * N) :=
  let et := expr_tables (S n) ds in
  map (fun q => (q, if Nat.ltb q n then var_tt (S n) q
                    else if Nat.eqb q out then N.lxor (var_tt (S n) n) (tenv et ret) else 0)) (seq 0 nq).
Definition c06_check (n nq : nat) (c : circuit) (ds : defs) (ret out : nat) : option N :=
  if defs_avoid n ds && negb (Nat.eqb ret n)
  then check_circuit (tt_mask (S n)) (c06_init n nq out) c (c06_expected n nq out ds ret)
  else None.

(* inputs x on qubits 0..n-1, y on the output qubit, zero elsewhere *)
Definition basis6 (n out : nat) (x : N) (y : bool) : nat -> bool :=
  fun q => if Nat.ltb q n then N.testbit x (N.of_nat q) else if Nat.eqb q out then y else false.

Definition c06_holds (n nq : nat) (c : circuit) (ds : defs) (ret out : nat) : Prop :=
  forall x, x < pow2n n -> forall y : bool,
    exists f, fsim (basis6 n out x y) c = Some f /\
      forall q, (q < nq)%nat ->
        f q = if Nat.ltb q n then N.testbit x (N.of_nat q)
              else if Nat.eqb q out then xorb y (run_defs (asg x) ds ret) else false.

(* packing (x, y) into one assignment number over n+1 variables *)
Definition pack (n : nat) (x : N) (y : bool) : N := x + N.b2n y * pow2n n.

Lemma pack_lt n x y : x < pow2n n -> pack n x y < pow2n (S n).
Proof. intros H. unfold pack. rewrite pow2n_S. destruct y; cbn [N.b2n]; lia. Qed.

Lemma pack_low n x y q : x < pow2n n -> (q < n)%nat -> N.testbit (pack n x y) (N.of_nat q) = N.testbit x (N.of_nat q).
Proof.
  intros Hx Hq. unfold pack, pow2n. rewrite <- (N.mod_pow2_bits_low (x + _) (N.of_nat n)) by lia.
  rewrite N.mod_add by (apply N.pow_nonzero; lia). rewrite N.mod_small by exact Hx. reflexivity.
Qed.

Lemma pack_top n x y : x < pow2n n -> N.testbit (pack n x y) (N.of_nat n) = y.
Proof.
  intros Hx. unfold pack, pow2n in *. destruct y; cbn [N.b2n].
  - apply testbit_top; [lia|]. rewrite N.pow_succ_r'. lia.
  - rewrite N.mul_0_l, N.add_0_r. now apply testbit_small.
Qed.

Lemma unpack n X : X < pow2n (S n) ->
  X = pack n (X mod pow2n n) (N.testbit X (N.of_nat n)) /\ X mod pow2n n < pow2n n.
Proof.
  intros HX. assert (Hp : pow2n n <> 0) by (apply N.pow_nonzero; lia).
  split; [|now apply N.mod_lt]. unfold pack. rewrite pow2n_S in HX.
  rewrite (N.div_mod X (pow2n n) Hp) at 1. rewrite N.add_comm. f_equal. rewrite N.mul_comm. f_equal.
  unfold pow2n in *. rewrite N.testbit_spec' .
  assert (X / 2 ^ N.of_nat n < 2) by (apply N.div_lt_upper_bound; lia).
  rewrite N.mod_small by lia. reflexivity.
Qed.

Lemma asg_pack n x y i : x < pow2n n -> i <> n -> asg (pack n x y) i = asg x i.
Proof.
  intros Hx Hi. unfold asg. destruct (Nat.ltb_spec i n) as [Hlt|Hge].
  - now apply pack_low.
  - assert (Hgt : (S n <= i)%nat) by lia.
    rewrite (asg_high (S n) (pack n x y) i (pack_lt n x y Hx) Hgt : N.testbit _ _ = false).
    symmetry. apply (asg_high n x i Hx). lia.
Qed.

Lemma proj_c06_init n nq out x y q : x < pow2n n -> (n <= out)%nat -> (q < nq)%nat ->
  proj (pack n x y) (c06_init n nq out) q = basis6 n out x y q.
Proof.
  intros Hx Ho Hq. unfold proj, c06_init, basis6.
  set (F := fun q : nat => if Nat.ltb q n then var_tt (S n) q else if Nat.eqb q out then var_tt (S n) n else 0).
  rewrite (nth_indep _ 0 (F 0%nat)) by (rewrite map_length, seq_length; exact Hq).
  rewrite map_nth, seq_nth by exact Hq. cbn [Nat.add]. unfold F.
  pose proof (pack_lt n x y Hx) as HX.
  destruct (Nat.ltb_spec q n) as [Hlt|Hge].
  - rewrite var_tt_asg by (try lia; exact HX). now apply pack_low.
  - destruct (Nat.eqb q out).
    + rewrite var_tt_asg by (try lia; exact HX). now apply pack_top.
    + apply N.bits_0.
Qed.

Lemma proj_c06_init_high n nq out X q : (nq <= q)%nat -> proj X (c06_init n nq out) q = false.
Proof.
  intros Hq. unfold proj, c06_init. rewrite nth_overflow by (rewrite map_length, seq_length; exact Hq).
  apply N.bits_0.
Qed.

Local Opaque var_tt.
Theorem c06_check_correct n nq c ds ret out :
  (n <= out < nq)%nat ->
  (c06_check n nq c ds ret out = Some 0 <->
   defs_avoid n ds = true /\ ret <> n /\ all_classical c = true /\ c06_holds n nq c ds ret out).
Proof.
  intros Ho. unfold c06_check.
  destruct (defs_avoid n ds) eqn:Hav; cbn [andb];
    [|split; [discriminate|intros [H _]; discriminate]].
  destruct (Nat.eqb_spec ret n) as [->|Hret]; cbn [negb];
    [split; [discriminate|intros (_ & H & _); now contradiction H]|].
  rewrite check_circuit_spec, sim_some.
  split.
  - intros [Hcl H]. repeat split; [exact Hret|exact Hcl|].
    intros x Hx y. pose proof (pack_lt n x y Hx) as HX.
    destruct (H (pack n x y) (proj2 (mask_lt (S n) _) HX)) as (f & Hf & He).
    assert (Hext : forall q, proj (pack n x y) (c06_init n nq out) q = basis6 n out x y q).
    { intros q. destruct (Nat.ltb_spec q nq) as [Hq|Hq]; [now apply proj_c06_init|].
      rewrite proj_c06_init_high by exact Hq. unfold basis6.
      destruct (Nat.ltb_spec q n); [lia|]. destruct (Nat.eqb_spec q out); [lia|reflexivity]. }
    pose proof (fsim_ext c _ _ Hext) as Hb. rewrite Hf in Hb.
    destruct (fsim (basis6 n out x y) c) as [g|]; [|contradiction]. exists g. split; [reflexivity|].
    intros q Hq. rewrite <- Hb.
    rewrite (He q (if Nat.ltb q n then var_tt (S n) q
                   else if Nat.eqb q out then N.lxor (var_tt (S n) n) (tenv (expr_tables (S n) ds) ret) else 0)).
    + destruct (Nat.ltb_spec q n) as [Hlt|Hge].
      * rewrite var_tt_asg by (try lia; exact HX). now apply pack_low.
      * destruct (Nat.eqb q out); [|apply N.bits_0].
        rewrite N.lxor_spec, var_tt_asg by (try lia; exact HX). rewrite pack_top by exact Hx.
        rewrite expr_tables_spec by exact HX. f_equal.
        apply (run_defs_avoid n ds Hav); [|exact Hret]. intros i Hi. now apply asg_pack.
    + unfold c06_expected. apply in_map_iff. exists q. split; [reflexivity|apply in_seq; lia].
  - intros (_ & _ & Hcl & H). split; [exact Hcl|].
    intros X Hm. apply mask_lt in Hm. destruct (unpack n X Hm) as [HXe Hxl].
    set (x := X mod pow2n n) in *. set (y := N.testbit X (N.of_nat n)) in *.
    destruct (H x Hxl y) as (g & Hg & He).
    assert (Hext : forall q, proj X (c06_init n nq out) q = basis6 n out x y q).
    { intros q. rewrite HXe. destruct (Nat.ltb_spec q nq) as [Hq|Hq]; [now apply proj_c06_init|].
      rewrite proj_c06_init_high by exact Hq. unfold basis6.
      destruct (Nat.ltb_spec q n); [lia|]. destruct (Nat.eqb_spec q out); [lia|reflexivity]. }
    pose proof (fsim_ext c _ _ Hext) as Hb. rewrite Hg in Hb.
    destruct (fsim (proj X (c06_init n nq out)) c) as [f|]; [|contradiction]. exists f. split; [reflexivity|].
    intros q e Hin. unfold c06_expected in Hin. apply in_map_iff in Hin as (q' & Heq & Hin).
    injection Heq as -> <-. apply in_seq in Hin. rewrite Hb, He by lia.
    pose proof (pack_lt n x y Hxl) as HX.
    destruct (Nat.ltb_spec q n) as [Hlt|Hge].
    + rewrite HXe. rewrite var_tt_asg by (try lia; exact HX). symmetry. now apply pack_low.
    + destruct (Nat.eqb q out); [|now rewrite N.bits_0].
      rewrite HXe. rewrite N.lxor_spec, var_tt_asg by (try lia; exact HX). rewrite pack_top by exact Hxl.
      rewrite expr_tables_spec by exact HX. f_equal. symmetry.
      apply (run_defs_avoid n ds Hav); [|exact Hret]. intros i Hi. now apply asg_pack.
Qed.
