From Coq Require Import List Bool Arith Lia Permutation.
From QV Require Import M_Bind.
Import ListNotations.

Section BindProofs.
  Variables (name value result : Type).
  Variable name_eqb : name -> name -> bool.
  Hypothesis name_eqb_spec : forall a b, name_eqb a b = true <-> a = b.

  Notation env := (env name value).
  Notation upd_env := (upd_env name value name_eqb).
  Notation run_assigns := (run_assigns name value name_eqb).

  Lemma eqb_refl a : name_eqb a a = true.
  Proof. now apply name_eqb_spec. Qed.
  Lemma eqb_neq a b : a <> b -> name_eqb a b = false.
  Proof. intros H. destruct (name_eqb a b) eqn:E; [|reflexivity]. apply name_eqb_spec in E. contradiction. Qed.

  (* the environment after the assignments: the LAST assignment to a name wins,
     names not assigned keep their value *)
  Lemma run_assigns_not_in kw : forall e x, ~ In x (map fst kw) -> run_assigns kw e x = e x.
  Proof.
    induction kw as [|[k v] kw IH]; intros e x H; [reflexivity|].
    cbn [M_Bind.run_assigns fold_left fst snd]. change (run_assigns kw (upd_env e k v) x = e x).
    rewrite IH by (intros Hc; apply H; now right). unfold M_Bind.upd_env.
    rewrite eqb_neq; [reflexivity|]. intros ->. apply H. now left.
  Qed.

  Lemma run_assigns_in kw : forall e k v, NoDup (map fst kw) -> In (k, v) kw -> run_assigns kw e k = Some v.
  Proof.
    induction kw as [|[k0 v0] kw IH]; intros e k v Hnd Hin; [destruct Hin|].
    cbn [map fst] in Hnd. inversion Hnd as [|? ? Hnin Hnd']; subst.
    cbn [M_Bind.run_assigns fold_left fst snd]. change (run_assigns kw (upd_env e k0 v0) k = Some v).
    destruct Hin as [Heq|Hin].
    - injection Heq as -> ->. rewrite run_assigns_not_in by exact Hnin.
      unfold M_Bind.upd_env. now rewrite eqb_refl.
    - now apply IH.
  Qed.

  Definition mem (x : name) (l : list name) : bool := existsb (name_eqb x) l.
  Lemma mem_spec x l : mem x l = true <-> In x l.
  Proof.
    unfold mem. rewrite existsb_exists. split.
    - intros (y & Hy & E). apply name_eqb_spec in E. now subst.
    - intros H. exists x. split; [exact H|apply eqb_refl].
  Qed.
  Lemma mem_false x l : mem x l = false -> ~ In x l.
  Proof. intros E H. apply mem_spec in H. congruence. Qed.

  Lemma map_fst_combine (a : list name) (b : list value) : length a = length b -> map fst (combine a b) = a.
  Proof.
    revert b; induction a as [|x a IH]; intros [|y b] H; cbn in *; try reflexivity; try discriminate.
    f_equal. apply IH. now injection H.
  Qed.

  (* keyword order does not matter when the parameter names are distinct *)
  Theorem bind_order_irrelevant kw kw' e x :
    NoDup (map fst kw) -> Permutation kw kw' -> run_assigns kw e x = run_assigns kw' e x.
  Proof.
    intros Hnd Hp.
    assert (Hnd' : NoDup (map fst kw')) by (eapply Permutation_NoDup; [apply Permutation_map; exact Hp|exact Hnd]).
    destruct (mem x (map fst kw)) eqn:E.
    - apply mem_spec in E. apply in_map_iff in E as ([k v] & Hk & Hin). cbn [fst] in Hk. subst k.
      rewrite (run_assigns_in kw e x v Hnd Hin).
      symmetry. apply run_assigns_in; [exact Hnd'|]. eapply Permutation_in; eauto.
    - apply mem_false in E. rewrite run_assigns_not_in by exact E. symmetry. apply run_assigns_not_in.
      intros Hc. apply E. eapply Permutation_in; [apply Permutation_map, Permutation_sym, Hp|exact Hc].
  Qed.

  (* binding is specialisation: the bound function called on the remaining
     arguments sees exactly the environment the unbound function sees when called
     with the parameters set (parameters and remaining formals are disjoint and
     distinct), whatever the positions of the parameters in the signature *)
  Theorem bind_is_specialisation (body : env -> result) kw formals actuals all_formals all_actuals :
    NoDup (map fst kw) -> NoDup all_formals -> length all_formals = length all_actuals ->
    length formals = length actuals -> NoDup formals ->
    (forall k, In k (map fst kw) -> ~ In k formals) ->
    (* the full call passes the same value for every name *)
    (forall k v, In (k, v) kw -> In (k, v) (combine all_formals all_actuals)) ->
    (forall k v, In (k, v) (combine formals actuals) -> In (k, v) (combine all_formals all_actuals)) ->
    (forall k, In k all_formals -> In k (map fst kw) \/ In k formals) ->
    (forall e1 e2 : env, (forall x, e1 x = e2 x) -> body e1 = body e2) ->
    bound_call name value result name_eqb body kw formals actuals =
    body (call_env name value name_eqb all_formals all_actuals).
  Proof.
    intros Hkw Hall Hlen_all Hlen Hnf Hdisj Hkw_in Hf_in Hcover Hext.
    unfold bound_call. apply Hext. intros x. unfold call_env.
    assert (Hnd_all : NoDup (map fst (combine all_formals all_actuals))).
    { rewrite map_fst_combine; [exact Hall|]. exact Hlen_all. }
    assert (Hnd_f : NoDup (map fst (combine formals actuals))).
    { rewrite map_fst_combine; [exact Hnf|]. exact Hlen. }
    destruct (mem x (map fst kw)) eqn:E; [apply mem_spec in E; rename E into Hin|apply mem_false in E; rename E into Hnin].
    - apply in_map_iff in Hin as ([k v] & Hk & Hin). cbn [fst] in Hk. subst k.
      rewrite (run_assigns_in kw _ x v Hkw Hin). symmetry.
      apply run_assigns_in; [exact Hnd_all|now apply Hkw_in].
    - rewrite run_assigns_not_in by exact Hnin.
      destruct (mem x formals) eqn:E; [apply mem_spec in E; rename E into Hinf|apply mem_false in E; rename E into Hninf].
      + assert (Hx : In x (map fst (combine formals actuals))) by (rewrite map_fst_combine; [exact Hinf|exact Hlen]).
        apply in_map_iff in Hx as ([k v] & Hk & Hin). cbn [fst] in Hk. subst k.
        rewrite (run_assigns_in _ _ x v Hnd_f Hin). symmetry.
        apply run_assigns_in; [exact Hnd_all|now apply Hf_in].
      + rewrite run_assigns_not_in by (rewrite map_fst_combine; [exact Hninf|exact Hlen]).
        symmetry. apply run_assigns_not_in. rewrite map_fst_combine by exact Hlen_all.
        intros Hc. destruct (Hcover x Hc); contradiction.
  Qed.
End BindProofs.
