(* M_Bqm.v — executable model of qlasskit/bqm.py: SympyToBQM.visit, to_bqm's
   per-expression case split and accumulation, decode_samples.
   The polynomial type is the expression tree handed to pyqubo; the meaning of
   pyqubo's gates and constraints is the one of harness/pyqubo_stub.py (a
   modelled component: pyqubo is not installed).  merge_expressions is an oracle:
   the model takes its result.  No proofs here. *)
From Coq Require Import List Bool NArith ZArith Arith.
From QV Require Import Bits Bexp BexpTT M_Codec.
Import ListNotations.
Local Open Scope Z_scope.

(* ---- polynomial trees over 0/1 variables ---- *)
Inductive poly :=
| PConst (c : Z)
| PVar (i : nat)
| PAdd (a b : poly)
| PMul (a b : poly)
| PSub (a b : poly).

Fixpoint peval (env : nat -> Z) (p : poly) : Z :=
  match p with
  | PConst c => c
  | PVar i => env i
  | PAdd a b => peval env a + peval env b
  | PMul a b => peval env a * peval env b
  | PSub a b => peval env a - peval env b
  end.

Fixpoint pvars (p : poly) : list nat :=
  match p with
  | PConst _ => []
  | PVar i => [i]
  | PAdd a b | PMul a b | PSub a b => pvars a ++ pvars b
  end.

Definition b2z (b : bool) : Z := if b then 1 else 0.
(* a 0/1 assignment read as numbers *)
Definition zenv (env : nat -> bool) : nat -> Z := fun i => b2z (env i).

(* ---- pyqubo's published meaning (pyqubo_stub.py) ---- *)
Definition pq_not (a : poly) : poly := PSub (PConst 1) a.
Definition pq_and (a b : poly) : poly := PMul a b.
Definition pq_or (a b : poly) : poly := PSub (PAdd a b) (PMul a b).
Definition pq_xor (a b : poly) : poly := PSub (PAdd a b) (PMul (PConst 2) (PMul a b)).
(* AndConst(a, b, c) = ab - 2(a+b)c + 3c *)
Definition pq_andconst (a b c : poly) : poly :=
  PAdd (PSub (PMul a b) (PMul (PConst 2) (PMul (PAdd a b) c))) (PMul (PConst 3) c).

(* ---- SympyToBQM.visit ----
   Symbol -> the Binary of that name; True/False -> Python bool (1/0 in arithmetic);
   Not -> pyqubo.Not( *args);
   And / Xor: args = [visit(a) ...]; more than two: op(args[0], visit(And( *e.args[1:])));
              otherwise op( *args)  (TypeError unless exactly two);
   Or: pyqubo.Or( *args)          (TypeError unless exactly two);
   anything else (ITE, Implies): Exception.   None = raises.                       *)
Fixpoint fold_pair (op : poly -> poly -> poly) (l : list (option poly)) : option poly :=
  match l with
  | [Some a; Some b] => Some (op a b)
  | Some a :: ((_ :: _ :: _) as r) =>
      match fold_pair op r with Some p => Some (op a p) | None => None end
  | _ => None
  end.

Fixpoint visit (e : bexp) : option poly :=
  match e with
  | BSym i => Some (PVar i)
  | BConst b => Some (PConst (b2z b))
  | BNot x => option_map pq_not (visit x)
  | BAnd l => fold_pair pq_and (map visit l)
  | BXor l => fold_pair pq_xor (map visit l)
  | BOr l => match map visit l with [Some a; Some b] => Some (pq_or a b) | _ => None end
  | BIte _ _ _ | BImp _ _ => None
  end.

(* ---- to_bqm, one term per (symbol, expression) of merge_expressions' result ----
   merge_expressions returns only symbols named _ret*: the NotConst/OrConst/
   XorConst/AndConst branches for other symbols are unreachable and not modelled
   (the harness checks that every merged symbol is a _ret symbol).                *)
Fixpoint mapM_opt {A B} (f : A -> option B) (l : list A) : option (list B) :=
  match l with
  | [] => Some []
  | x :: r => match f x, mapM_opt f r with Some y, Some ys => Some (y :: ys) | _, _ => None end
  end.

(* code as found: `isinstance(exp, Symbol)` is tested BEFORE the _ret test:
     new_e = AndConst(a_vars[exp.name], a_vars[exp.name], a_vars[sym.name], sym.name) *)
Definition term_today (se : nat * bexp) : option poly :=
  match snd se with
  | BSym i => Some (pq_andconst (PVar i) (PVar i) (PVar (fst se)))
  | e => visit e
  end.

(* fixed (proposed_fixes/C18_1_ret_symbol.diff): the _ret test first:
     new_e = SympyToBQM(a_vars).visit(exp)                                         *)
Definition term_fixed (se : nat * bexp) : option poly := visit (snd se).

(* a term that is a Python bool (visit of True/False), not a pyqubo object *)
Definition is_pyconst (p : poly) : bool := match p with PConst _ => true | _ => false end.

(* e = None; for ...: e = new_e if e is None else e + new_e;  e.compile():
   raises when there is no expression ("Problem is empty") or when every term is a
   Python bool (the sum is a Python int: no .compile)                              *)
Definition sum_terms (ts : list poly) : option poly :=
  match ts with
  | [] => None
  | t :: r => if forallb is_pyconst ts then None else Some (fold_left PAdd r t)
  end.

Definition to_bqm_with (term : nat * bexp -> option poly) (merged : defs) : option poly :=
  match mapM_opt term merged with
  | Some ts => sum_terms ts
  | None => None
  end.

Definition to_bqm_today := to_bqm_with term_today.
Definition to_bqm_fixed := to_bqm_with term_fixed.

(* ---- what the property speaks of ---- *)
(* number of true return bits of the function at an input assignment *)
Definition count_true (env : nat -> bool) (merged : defs) : Z :=
  fold_right (fun se acc => b2z (beval env (snd se)) + acc) 0 merged.

(* expressions visit accepts: And/Xor of two or more, Or of exactly two, no ITE/Implies *)
Fixpoint visitable (e : bexp) : bool :=
  match e with
  | BSym _ | BConst _ => true
  | BNot x => visitable x
  | BAnd l | BXor l => (2 <=? List.length l)%nat && forallb visitable l
  | BOr l => Nat.eqb (List.length l) 2 && forallb visitable l
  | BIte _ _ _ | BImp _ _ => false
  end.

(* ---- decode_samples, one argument:
     bitstr = [el.sample[bv] for bv in arg.bitvec]
     interpret_as_qtype(bitstr[::-1], arg.ttype, len(arg))                          *)
Definition decode_arg (t : ty) (bits : list bool) : option val :=
  interpret_as_qtype (rev bits) t (Some (List.length bits)).

(* mutant used in documentation/tests only: the string not reversed *)
Definition decode_arg_noreverse (t : ty) (bits : list bool) : option val :=
  interpret_as_qtype bits t (Some (List.length bits)).
