(* Chk_Bridge.v — executable checkers tying the two Python serialisers of C01 together
   (harness/c01_bridge.py evaluates them inside coqc, per program):

     chk_conv   the normalised function as serialised for M_A2A (strings, untyped), pushed through
                [M_Bridge.conv_body] / [conv_sig], EQUALS the term harness/c01_texp.py serialises
                for M_Texp from the same normalised tree and the types the implementation's own
                translate_argument resolves (or: conv declines, the program is outside the bridge);
     chk_e2e    per sample of typed argument values: the instance of P_Bridge.bridge_fun (the
                NORMALISED body, no guard) and of P_Bridge.e2e part (i) (the SOURCE body, inside
                a2a_guard), and how often the typed evaluation is exact.

   Codes are  10 * id + k. *)
From Coq Require Import List Bool NArith ZArith Arith String.
From QV Require Import Bits Bexp BexpTT M_Codec Generated M_Types M_Texp.
From QV Require M_A2A.
From QV Require Import M_Bridge.
Import ListNotations.

(* ------------------------------------------------------------------ *)
(* structural equality on the image of conv (false on anything else)   *)
(* ------------------------------------------------------------------ *)
Definition cst_eqb (a b : cst) : bool :=
  match a, b with
  | CBool x, CBool y => Bool.eqb x y
  | CInt x, CInt y => Z.eqb x y
  | _, _ => false
  end.
Definition bop_eqb (a b : bop) : bool :=
  match a, b with BoAnd, BoAnd | BoOr, BoOr => true | _, _ => false end.
Definition cop_code (o : cop) : nat :=
  match o with CoEq => 0 | CoNe => 1 | CoLt => 2 | CoLe => 3 | CoGt => 4 | CoGe => 5 | CoOther => 6 end.
Definition aop_code (o : aop) : nat :=
  match o with
  | AoAdd => 0 | AoSub => 1 | AoMul => 2 | AoMod => 3 | AoXor => 4 | AoAnd => 5 | AoOr => 6
  | AoShl => 7 | AoShr => 8 | AoOther => 9
  end.

Fixpoint pexp_eqb (a b : pexp) {struct a} : bool :=
  let fix go (l m : list pexp) : bool :=
    match l, m with
    | [], [] => true
    | x :: l', y :: m' => pexp_eqb x y && go l' m'
    | _, _ => false
    end in
  match a, b with
  | EName x, EName y => Nat.eqb x y
  | ESub x p, ESub y q => Nat.eqb x y && sname_eqb p q
  | EBoolOp o l, EBoolOp o' m => bop_eqb o o' && go l m
  | EUn UoNot x, EUn UoNot y => pexp_eqb x y
  | EIf c t f, EIf c' t' f' => pexp_eqb c c' && pexp_eqb t t' && pexp_eqb f f'
  | EConst c, EConst d => cst_eqb c d
  | ETuple l, ETuple m => go l m
  | ECmp o x y, ECmp o' x' y' => Nat.eqb (cop_code o) (cop_code o') && pexp_eqb x x' && pexp_eqb y y'
  | EInt x, EInt y => pexp_eqb x y
  | EBin o x y, EBin o' x' y' => Nat.eqb (aop_code o) (aop_code o') && pexp_eqb x x' && pexp_eqb y y'
  | _, _ => false
  end.

Definition pstmt_eqb (a b : pstmt) : bool :=
  match a, b with
  | SAssign x e, SAssign y f => Nat.eqb x y && pexp_eqb e f
  | SReturn e, SReturn f => pexp_eqb e f
  | SExpr e, SExpr f => pexp_eqb e f
  | _, _ => false
  end.
Definition body_eqb : list pstmt -> list pstmt -> bool := A.list_eqb pstmt_eqb.
Definition args_eqb : list (ident * ty) -> list (ident * ty) -> bool :=
  A.list_eqb (fun a b => Nat.eqb (fst a) (fst b) && ty_eq (snd a) (snd b)).

(* ------------------------------------------------------------------ *)
(* cases                                                               *)
(* ------------------------------------------------------------------ *)
Record bcase := mkb {
  b_ns : list string;             (* the names, in the order harness/c01_texp.py interned them *)
  b_fun : A.fundef;               (* the SOURCE function (annotations after ReplaceTypeAnn) *)
  b_norm : list A.stmt;           (* what the real ast2ast returned, serialised for M_A2A *)
  b_args : list (ident * ty);     (* the same normalised function, serialised for M_Texp *)
  b_rt : ty;
  b_body : list pstmt }.

(* 0 conv agrees (body and signature)      1 conv gives ANOTHER body: mismatch
   2 conv declines the body (outside)      3 body agrees, conv declines the signature (outside)
   4 body agrees, ANOTHER signature: mismatch *)
Definition conv_code (c : bcase) : N :=
  match conv_body (b_ns c) (b_norm c) with
  | None => 2
  | Some t =>
      if negb (body_eqb t (b_body c)) then 1 else
      match conv_sig (b_ns c) (b_fun c) with
      | None => 3
      | Some (args, rt) => if args_eqb args (b_args c) && ty_eq rt (b_rt c) then 0 else 4
      end
  end%N.
Definition chk_conv (cs : list (N * bcase)) : list N :=
  map (fun p => (fst p * 10 + conv_code (snd p))%N) cs.

(* ------------------------------------------------------------------ *)
(* samples                                                             *)
(* ------------------------------------------------------------------ *)
Definition chk_ext (f : string) (vs : list A.val) : option A.val := None.
Definition oval_eqb (a b : option A.val) : bool :=
  match a, b with
  | Some x, Some y => A.val_eqb x y
  | None, None => true
  | _, _ => false
  end.
(* the hypotheses of e2e part (i) that concern the normaliser *)
Definition a2a_side (c : bcase) (vs : list value) : bool :=
  A.a2a_guard (b_fun c) &&
  match A.a2a (b_fun c) with A.Ok b => A.list_eqb A.stmt_eqb b (b_norm c) | _ => false end &&
  A.conforms_b (b_fun c) (arg_rho (map fst (A.f_args (b_fun c))) vs).

(* per sample (cases with conv_code 0 only):
   0 exact, source and normal form both return erase tv
   1 exact, inside the guards, the SOURCE does not return erase tv   (would contradict e2e)
   2 not exact (a wrap), yet the source returns erase tv
   3 not exact, the source returns something else (or nothing)       (expected: the wrap)
   4 the typed evaluator has no value
   5 exact, OUTSIDE a2a_guard / ret_last, the source differs
   6 exact, ret_last, the NORMAL FORM does not return erase tv       (would contradict bridge_fun) *)
Definition sample_code (c : bcase) (side : bool) (vs : list value) : N :=
  let rho := arg_rho (map fst (A.f_args (b_fun c))) vs in
  match eval_fun (b_args c) (b_rt c) (b_body c) vs with
  | None => 4
  | Some tv =>
      let want := Some (erase tv) in
      let same_src := oval_eqb (A.run chk_ext (A.f_body (b_fun c)) rho) want in
      let same_norm := oval_eqb (A.run chk_ext (b_norm c) rho) want in
      if exact_fun (b_args c) (b_rt c) (b_body c) vs then
        if ret_last (b_body c) && negb same_norm then 6
        else if same_src then 0
        else if side && ret_last (b_body c) then 1 else 5
      else if same_src then 2 else 3
  end%N.

Fixpoint lookupN {X} (l : list (N * X)) (k : N) : option X :=
  match l with
  | [] => None
  | (j, x) :: r => if N.eqb j k then Some x else lookupN r k
  end.

Definition chk_e2e (cs : list (N * bcase)) (ss : list (N * list (list value))) : list N :=
  flat_map (fun p =>
    let c := snd p in
    if N.eqb (conv_code c) 0 then
      match lookupN ss (fst p) with
      | Some l =>
          map (fun vs => (fst p * 10 + sample_code c (a2a_side c vs) vs)%N) l
      | None => []
      end
    else []) cs.

(* programs (conv_code 0) whose normaliser-side hypotheses fail: 1 a2a_guard, 2 a2a f <> the
   implementation's output, 4 the body does not end with its only return (bit set) *)
Definition chk_side (cs : list (N * bcase)) : list N :=
  flat_map (fun p =>
    let c := snd p in
    if N.eqb (conv_code c) 0 then
      let k := ((if A.a2a_guard (b_fun c) then 0 else 1) +
                (match A.a2a (b_fun c) with
                 | A.Ok b => if A.list_eqb A.stmt_eqb b (b_norm c) then 0 else 2
                 | _ => 2 end) +
                (if ret_last (b_body c) then 0 else 4))%N in
      if N.eqb k 0 then [] else [(fst p * 10 + k)%N]
    else []) cs.
