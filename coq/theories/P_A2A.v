(* P_A2A.v — proofs about the model of qlasskit's source-to-source normaliser (M_A2A.v).

   Main results (restated in Prop_C01_a2a.v):
     a2a_normal_form     whatever a2a returns is in the normal form the translator expects
     a2a_backward        inside the decidable guard a2a_guard: whenever the NORMALISED program
                         returns a value, the ORIGINAL program returns the same value
                         (every environment, every interpretation of non-builtin calls)
     ..._refuted         the unguarded statement is false of the faithful model: witnesses
   built pass by pass: fold_stmt_sound (ConstantFolder), multi_list_sound
   (ReplaceMultiTargetAssign), rw_list_sound (ASTRewriter: if-flattening, temporaries of
   self-referencing assignments, augmented assignments, loop unrolling). *)
From Coq Require Import List Bool NArith ZArith Arith String Ascii Lia HexadecimalString HexadecimalN.
From QV Require Import M_A2A.
Import ListNotations.
Local Open Scope string_scope.
Local Open Scope list_scope.

(* ------------------------------------------------------------------ *)
(* induction principles (nested lists)                                 *)
(* ------------------------------------------------------------------ *)
Section ExpInd.
  Variable P : exp -> Prop.
  Hypothesis HName : forall x, P (EName x).
  Hypothesis HConst : forall c, P (EConst c).
  Hypothesis HConstNode : forall e, P e -> P (EConstNode e).
  Hypothesis HBoolOp : forall op l, Forall P l -> P (EBoolOp op l).
  Hypothesis HBinOp : forall op a b, P a -> P b -> P (EBinOp op a b).
  Hypothesis HUnOp : forall op a, P a -> P (EUnOp op a).
  Hypothesis HCompare : forall op a b, P a -> P b -> P (ECompare op a b).
  Hypothesis HIfExp : forall c t f, P c -> P t -> P f -> P (EIfExp c t f).
  Hypothesis HTuple : forall l, Forall P l -> P (ETuple l).
  Hypothesis HList : forall l, Forall P l -> P (EList l).
  Hypothesis HSubscript : forall v s, P v -> P s -> P (ESubscript v s).
  Hypothesis HCall : forall f args, Forall P args -> P (ECall f args).

  Fixpoint exp_ind2 (e : exp) : P e :=
    let go := fix go (l : list exp) : Forall P l :=
                match l with
                | [] => Forall_nil P
                | x :: r => Forall_cons x (exp_ind2 x) (go r)
                end in
    match e with
    | EName x => HName x
    | EConst c => HConst c
    | EConstNode e' => HConstNode e' (exp_ind2 e')
    | EBoolOp op l => HBoolOp op l (go l)
    | EBinOp op a b => HBinOp op a b (exp_ind2 a) (exp_ind2 b)
    | EUnOp op a => HUnOp op a (exp_ind2 a)
    | ECompare op a b => HCompare op a b (exp_ind2 a) (exp_ind2 b)
    | EIfExp c t f => HIfExp c t f (exp_ind2 c) (exp_ind2 t) (exp_ind2 f)
    | ETuple l => HTuple l (go l)
    | EList l => HList l (go l)
    | ESubscript v s => HSubscript v s (exp_ind2 v) (exp_ind2 s)
    | ECall f args => HCall f args (go args)
    end.
End ExpInd.

Section StmtInd.
  Variable P : stmt -> Prop.
  Hypothesis HAssign : forall t e, P (SAssign t e).
  Hypothesis HAug : forall x op e, P (SAugAssign x op e).
  Hypothesis HIf : forall c b o, Forall P b -> Forall P o -> P (SIf c b o).
  Hypothesis HFor : forall x it b, Forall P b -> P (SFor x it b).
  Hypothesis HReturn : forall e, P (SReturn e).
  Hypothesis HExpr : forall e, P (SExpr e).

  Fixpoint stmt_ind2 (s : stmt) : P s :=
    let go := fix go (l : list stmt) : Forall P l :=
                match l with
                | [] => Forall_nil P
                | x :: r => Forall_cons x (stmt_ind2 x) (go r)
                end in
    match s with
    | SAssign t e => HAssign t e
    | SAugAssign x op e => HAug x op e
    | SIf c b o => HIf c b o (go b) (go o)
    | SFor x it b => HFor x it b (go b)
    | SReturn e => HReturn e
    | SExpr e => HExpr e
    end.
End StmtInd.

(* ------------------------------------------------------------------ *)
(* the result monad                                                    *)
(* ------------------------------------------------------------------ *)
Lemma bind_ok {A B} (x : res A) (f : A -> res B) b :
  bind x f = Ok b -> exists a, x = Ok a /\ f a = Ok b.
Proof. destruct x; simpl; intro H; try discriminate. eauto. Qed.

Ltac inv_bind H :=
  let a := fresh "a" in let Ha := fresh "Ha" in
  apply bind_ok in H; destruct H as (a & Ha & H).

Lemma mapM_ok {A B} (f : A -> res B) l l' :
  mapM f l = Ok l' -> Forall2 (fun x y => f x = Ok y) l l'.
Proof.
  revert l'; induction l as [|x r IH]; simpl; intros l' H.
  - inversion H; constructor.
  - inv_bind H. inv_bind H. inversion H; subst. constructor; auto.
Qed.

Lemma flat_mapM_ok {A B} (f : A -> res (list B)) l l' :
  flat_mapM f l = Ok l' -> exists ls, Forall2 (fun x y => f x = Ok y) l ls /\ l' = List.concat ls.
Proof.
  revert l'; induction l as [|x r IH]; simpl; intros l' H.
  - inversion H. exists []. split; [constructor|reflexivity].
  - inv_bind H. inv_bind H. inversion H; subst.
    destruct (IH _ Ha0) as (ls & F & E). exists (a :: ls). split; [constructor; auto|].
    simpl. now rewrite E.
Qed.

Lemma all_some_map_ext {A B C} (f : A -> option C) (g : B -> option C) l l' :
  Forall2 (fun a b => f a = g b) l l' -> all_some (map f l) = all_some (map g l').
Proof. induction 1; simpl; auto. rewrite H, IHForall2. reflexivity. Qed.

Lemma Forall2_length {A B} (R : A -> B -> Prop) l l' : Forall2 R l l' -> List.length l = List.length l'.
Proof. induction 1; simpl; auto. Qed.

Lemma boolop_with_ext (f g : exp -> option val) op l l' :
  Forall2 (fun a b => f a = g b) l l' -> boolop_with f op l = boolop_with g op l'.
Proof.
  induction 1 as [|a b l l' Hab F IH]; simpl; auto.
  inversion F; subst.
  - exact Hab.
  - rewrite Hab. destruct (g b); auto. rewrite IH. reflexivity.
Qed.

(* ------------------------------------------------------------------ *)
(* ConstantFolder on expressions                                       *)
(* ------------------------------------------------------------------ *)
Lemma cst_of_exp_some e c : cst_of_exp e = Some c -> e = EConst c.
Proof. destruct e; simpl; intro H; try discriminate. now inversion H. Qed.

Lemma cst_of_val_ok v k : cst_of_val v = Ok k -> val_of_cst k = Some v /\ valued k = true.
Proof. destruct v; simpl; intro H; inversion H; auto. Qed.

Lemma valued_val c : valued c = true -> exists v, val_of_cst c = Some v.
Proof. destruct c; simpl; intro H; try discriminate; eauto. Qed.

Section FoldExp.
  Variable ext : string -> list val -> option val.
  Variable okn : string -> bool.
  Notation eval := (eval ext).

  Lemma special_not_builtin f :
    existsb (String.eqb f) special_calls = false -> existsb (String.eqb f) builtin_funcs = false.
  Proof.
    unfold special_calls, builtin_funcs. simpl. intro H.
    repeat (apply orb_false_iff in H; destruct H as [? H]).
    repeat (apply orb_false_iff; split); auto.
  Qed.

  Lemma fold_unop_sound op c e' :
    fold_unop op c = Ok e' ->
    exists v r k, val_of_cst c = Some v /\ unop_val op v = Some r /\ e' = EConst k /\
                  val_of_cst k = Some r /\ valued k = true.
  Proof.
    unfold fold_unop. destruct (val_of_cst c) as [v|] eqn:Ev; try discriminate.
    destruct (unop_val op v) as [r|] eqn:Er; try discriminate. intro H. inv_bind H. inversion H; subst.
    destruct (cst_of_val_ok _ _ Ha). exists v, r, a. auto.
  Qed.

  Lemma fold_binop_sound op c d e' :
    fold_binop op c d = Ok e' ->
    exists x y r k, val_of_cst c = Some x /\ val_of_cst d = Some y /\ binop_val op x y = Some r /\
                    e' = EConst k /\ val_of_cst k = Some r /\ valued k = true.
  Proof.
    unfold fold_binop. destruct (val_of_cst c) as [x|] eqn:Ex; try discriminate.
    destruct (val_of_cst d) as [y|] eqn:Ey; try discriminate.
    destruct (binop_val op x y) as [r|] eqn:Er.
    - intro H. inv_bind H. inversion H; subst. destruct (cst_of_val_ok _ _ Ha). exists x, y, r, a. auto 10.
    - destruct op; try discriminate. destruct (as_int y) as [[| |]|]; discriminate.
  Qed.

  Lemma fold_cmp_sound op c d e' :
    fold_cmp op c d = Ok e' ->
    exists x y r k, val_of_cst c = Some x /\ val_of_cst d = Some y /\ cmp_val op x y = Some r /\
                    e' = EConst k /\ val_of_cst k = Some r /\ valued k = true.
  Proof.
    unfold fold_cmp. destruct (val_of_cst c) as [x|] eqn:Ex; try discriminate.
    destruct (val_of_cst d) as [y|] eqn:Ey; try discriminate.
    destruct (cmp_val op x y) as [r|] eqn:Er; try discriminate.
    intro H. inv_bind H. inversion H; subst. destruct (cst_of_val_ok _ _ Ha). exists x, y, r, a. auto 10.
  Qed.

  Lemma index_list_map {A B} (f : A -> B) l z :
    index_list (map f l) z = option_map f (index_list l z).
  Proof.
    unfold index_list. rewrite map_length.
    destruct (_ && _). { apply nth_error_map. }
    destruct (_ && _). { apply nth_error_map. } reflexivity.
  Qed.

  Lemma index_list_in {A} (l : list A) z x : index_list l z = Some x -> List.In x l.
  Proof.
    unfold index_list. destruct (_ && _). { apply nth_error_In. }
    destruct (_ && _). { apply nth_error_In. } discriminate.
  Qed.

  (* a list of valued constants evaluates to the list of their values *)
  Lemma eval_const_list rho l :
    forallb is_constant l = true -> forallb (gexp okn []) l = true ->
    exists vs, all_some (map (eval rho) l) = Some vs /\
               forall z x, index_list l z = Some x -> exists v, index_list vs z = Some v /\ eval rho x = Some v.
  Proof.
    intros Hc Hg.
    assert (E : exists vs, all_some (map (eval rho) l) = Some vs /\ map (eval rho) l = map Some vs).
    { induction l as [|a r IH]; simpl in *. { exists []; auto. }
      apply andb_true_iff in Hc; destruct Hc as [Ha Hr]. apply andb_true_iff in Hg; destruct Hg as [Ga Gr].
      destruct (IH Hr Gr) as (vs & E1 & E2).
      destruct a; simpl in Ha, Ga; try discriminate.
      destruct (valued_val _ Ga) as (v & Hv). exists (v :: vs). simpl. rewrite Hv, E1, E2. auto. }
    destruct E as (vs & E1 & E2). exists vs. split; auto.
    intros z x Hx.
    assert (H := index_list_map (eval rho) l z). rewrite Hx, E2, index_list_map in H. simpl in H.
    destruct (index_list vs z) as [v|]; simpl in H; try discriminate. inversion H. eauto.
  Qed.

  Lemma fold_exp_sound lv e : forall e',
    gexp okn lv e = true -> fold_exp e = Ok e' ->
    (forall rho, eval rho e' = eval rho e) /\ gexp okn lv e' = true.
  Proof.
    induction e as [x|c|e IHe|op l H0|op e1 e2 IHe1 IHe2|op e IHe|op e1 e2 IHe1 IHe2|e1 e2 e3 IHe1 IHe2 IHe3|l H0|l H0|e1 e2 IHe1 IHe2|f args H0]
      using exp_ind2; intros e' G H; cbn [gexp fold_exp] in G, H.
    - inversion H; subst. auto.
    - inversion H; subst. auto.
    - discriminate.
    - (* BoolOp *)
      inv_bind H. inversion H; subst. apply mapM_ok in Ha.
      assert (K : Forall2 (fun x y => (forall rho, eval rho y = eval rho x) /\ gexp okn lv y = true) l a).
      { revert G H0. clear H. induction Ha; intros G F; constructor.
        - simpl in G. apply andb_true_iff in G. destruct G. inversion F; subst. auto.
        - simpl in G. apply andb_true_iff in G. destruct G. inversion F; subst. auto. }
      split.
      + intro rho. simpl. apply boolop_with_ext.
        clear - K. induction K; constructor; auto. destruct H. auto.
      + simpl. clear - K. induction K; simpl; auto. destruct H as [_ ->]. auto.
    - (* BinOp *)
      apply andb_true_iff in G; destruct G as [G Gb]. apply andb_true_iff in G; destruct G as [Gop Ga].
      inv_bind H. inv_bind H.
      destruct (IHe1 _ Ga Ha) as (E1 & G1). destruct (IHe2 _ Gb Ha0) as (E2 & G2).
      destruct (cst_of_exp a) as [c|] eqn:Ca; [destruct (cst_of_exp a0) as [d|] eqn:Cd|].
      + apply cst_of_exp_some in Ca, Cd. subst.
        destruct (fold_binop_sound _ _ _ _ H) as (x & y & r & k & Hx & Hy & Hr & -> & Hk & Vk).
        split; [|exact Vk]. intro rho. simpl. rewrite <- E1, <- E2. simpl. now rewrite Hx, Hy, Hk.
      + destruct (_ && _); inversion H; subst. split.
        * intro rho; simpl. now rewrite E1, E2.
        * simpl. now rewrite Gop, G1, G2.
      + destruct (_ && _); inversion H; subst. split.
        * intro rho; simpl. now rewrite E1, E2.
        * simpl. now rewrite Gop, G1, G2.
    - (* UnOp *)
      inv_bind H. destruct (IHe _ G Ha) as (E1 & G1).
      destruct (cst_of_exp a) as [c|] eqn:Ca.
      + apply cst_of_exp_some in Ca. subst.
        destruct (fold_unop_sound _ _ _ H) as (v & r & k & Hv & Hr & -> & Hk & Vk).
        split; [|exact Vk]. intro rho. simpl. rewrite <- E1. simpl. now rewrite Hv, Hk.
      + destruct (is_constant a); inversion H; subst. split.
        * intro rho; simpl. now rewrite E1.
        * exact G1.
    - (* Compare *)
      apply andb_true_iff in G; destruct G as [Ga Gb].
      inv_bind H. inv_bind H.
      destruct (IHe1 _ Ga Ha) as (E1 & G1). destruct (IHe2 _ Gb Ha0) as (E2 & G2).
      destruct (cst_of_exp a) as [c|] eqn:Ca; [destruct (cst_of_exp a0) as [d|] eqn:Cd|].
      + apply cst_of_exp_some in Ca, Cd. subst.
        destruct (fold_cmp_sound _ _ _ _ H) as (x & y & r & k & Hx & Hy & Hr & -> & Hk & Vk).
        split; [|exact Vk]. intro rho. simpl. rewrite <- E1, <- E2. simpl. now rewrite Hx, Hy, Hk.
      + destruct (_ && _); inversion H; subst. split.
        * intro rho; simpl. now rewrite E1, E2.
        * simpl. now rewrite G1, G2.
      + destruct (_ && _); inversion H; subst. split.
        * intro rho; simpl. now rewrite E1, E2.
        * simpl. now rewrite G1, G2.
    - (* IfExp *)
      apply andb_true_iff in G; destruct G as [G Gf]. apply andb_true_iff in G; destruct G as [Gc Gt].
      inv_bind H. inv_bind H. inv_bind H.
      destruct (IHe1 _ Gc Ha) as (E1 & G1). destruct (IHe2 _ Gt Ha0) as (E2 & G2).
      destruct (IHe3 _ Gf Ha1) as (E3 & G3).
      destruct (is_constant a) eqn:Ca.
      + inv_bind H. inversion H; subst.
        destruct a; simpl in Ca, G1, Ha2; try discriminate.
        destruct c; simpl in Ha2, G1; try discriminate; inversion Ha2; subst.
        * split. { intro rho. simpl. rewrite <- E1. simpl. destruct a2; auto. }
          destruct a2; auto.
        * split. { intro rho. simpl. rewrite <- E1. simpl. destruct (negb (z =? 0)%Z); auto. }
          destruct (negb (z =? 0)%Z); auto.
      + inversion H; subst. split.
        * intro rho. simpl. rewrite E1, E2, E3. reflexivity.
        * simpl. now rewrite G1, G2, G3.
    - (* Tuple *)
      inv_bind H. inversion H; subst. apply mapM_ok in Ha.
      assert (K : Forall2 (fun x y => (forall rho, eval rho y = eval rho x) /\ gexp okn lv y = true) l a).
      { revert G H0. clear H. induction Ha; intros G F; constructor.
        - simpl in G. apply andb_true_iff in G. destruct G. inversion F; subst. auto.
        - simpl in G. apply andb_true_iff in G. destruct G. inversion F; subst. auto. }
      split.
      + intro rho. simpl. f_equal. apply all_some_map_ext.
        clear - K. induction K; constructor; auto. destruct H. auto.
      + simpl. clear - K. induction K; simpl; auto. destruct H as [_ ->]. auto.
    - (* List *)
      inv_bind H. inversion H; subst. apply mapM_ok in Ha.
      assert (K : Forall2 (fun x y => (forall rho, eval rho y = eval rho x) /\ gexp okn lv y = true) l a).
      { revert G H0. clear H. induction Ha; intros G F; constructor.
        - simpl in G. apply andb_true_iff in G. destruct G. inversion F; subst. auto.
        - simpl in G. apply andb_true_iff in G. destruct G. inversion F; subst. auto. }
      split.
      + intro rho. simpl. f_equal. apply all_some_map_ext.
        clear - K. induction K; constructor; auto. destruct H. auto.
      + simpl. clear - K. induction K; simpl; auto. destruct H as [_ ->]. auto.
    - (* Subscript *)
      apply andb_true_iff in G; destruct G as [Gv Gs].
      inv_bind H. inv_bind H.
      destruct (IHe1 _ Gv Ha) as (E1 & G1).
      assert (Gs' : gexp okn lv e2 = true).
      { destruct e2; try discriminate; simpl; auto. apply andb_true_iff in Gs. tauto. }
      destruct (IHe2 _ Gs' Ha0) as (E2 & G2).
      assert (Sa0 : a0 = e2).
      { destruct e2; try discriminate; simpl in Ha0; inversion Ha0; auto. }
      subst a0.
      assert (Keep : (forall rho, eval rho (ESubscript a e2) = eval rho (ESubscript e1 e2)) /\
                     gexp okn lv (ESubscript a e2) = true).
      { split. - intro rho. simpl. now rewrite E1. - simpl. now rewrite G1, Gs. }
      destruct (as_list a) as [elts|] eqn:La; [|inversion H; subst; exact Keep].
      destruct (is_constant e2 && forallb is_constant elts) eqn:C; [|inversion H; subst; exact Keep].
      apply andb_true_iff in C; destruct C as [C2 Ce].
      destruct a; simpl in La; try discriminate. inversion La; subst l.
      unfold fold_index in H.
      destruct (cst_of_exp e2) as [c|] eqn:Cc; try discriminate. apply cst_of_exp_some in Cc. subst e2.
      destruct (val_of_cst c) as [i|] eqn:Vi; try discriminate.
      destruct (as_int i) as [z|] eqn:Zi; try discriminate.
      destruct (index_list elts z) as [x|] eqn:Ix; inversion H; subst; [|exact Keep].
      simpl in G1.
      assert (G1' : forallb (gexp okn []) elts = true).
      { clear - G1 Ce. induction elts; simpl in *; auto.
        apply andb_true_iff in G1; destruct G1. apply andb_true_iff in Ce; destruct Ce.
        rewrite IHelts by auto. destruct a; simpl in *; try discriminate. now rewrite H. }
      split.
      + intro rho. simpl. rewrite <- E1. simpl.
        destruct (eval_const_list rho elts Ce G1') as (vs & Hvs & Hidx). rewrite Hvs. simpl. rewrite Vi.
        unfold subscript_val. rewrite Zi. destruct (Hidx _ _ Ix) as (v & Hv & Hx). now rewrite Hv, Hx.
      + apply index_list_in in Ix. rewrite forallb_forall in G1. auto.
    - (* Call *)
      apply andb_true_iff in G; destruct G as [Gf Ga].
      inv_bind H. apply negb_true_iff in Gf. rewrite (special_not_builtin _ Gf) in H. inversion H; subst.
      apply mapM_ok in Ha.
      assert (K : Forall2 (fun x y => (forall rho, eval rho y = eval rho x) /\ gexp okn lv y = true) args a).
      { revert Ga H0. clear H. induction Ha; intros G F; constructor.
        - simpl in G. apply andb_true_iff in G. destruct G. inversion F; subst. auto.
        - simpl in G. apply andb_true_iff in G. destruct G. inversion F; subst. auto. }
      split.
      + intro rho. simpl.
        replace (all_some (map (eval rho) a)) with (all_some (map (eval rho) args)); auto.
        apply all_some_map_ext. clear - K. induction K; constructor; auto. destruct H. auto.
      + cbn [gexp]. rewrite Gf. simpl. clear - K. induction K; simpl; auto. destruct H as [_ ->]. auto.
  Qed.
End FoldExp.

(* ------------------------------------------------------------------ *)
(* execution: basic facts                                              *)
(* ------------------------------------------------------------------ *)
Lemma is_call_some f e args : is_call f e = Some args -> e = ECall f args.
Proof.
  destruct e; simpl; try discriminate. destruct (String.eqb f0 f) eqn:E; try discriminate.
  apply String.eqb_eq in E. intro H; inversion H; subst; auto.
Qed.

Lemma is_call_call f g args : is_call f (ECall g args) = if String.eqb g f then Some args else None.
Proof. reflexivity. Qed.

Section Sem.
  Variable ext : string -> list val -> option val.
  Notation eval := (eval ext).
  Notation exec := (exec ext).
  Notation exec_list := (exec_list ext).
  Notation iter_vals := (iter_vals ext).

  Lemma exec_list_nil rho : exec_list [] rho = Some (rho, None).
  Proof. reflexivity. Qed.

  Lemma exec_list_cons s r rho :
    exec_list (s :: r) rho = match exec s rho with Some (rho', None) => exec_list r rho' | o => o end.
  Proof. reflexivity. Qed.

  Lemma exec_list_single s rho : exec_list [s] rho = exec s rho.
  Proof. rewrite exec_list_cons. destruct (exec s rho) as [[r [v|]]|]; auto. Qed.

  Lemma exec_list_app l1 l2 rho :
    exec_list (l1 ++ l2) rho =
    match exec_list l1 rho with Some (rho', None) => exec_list l2 rho' | o => o end.
  Proof.
    revert rho; induction l1 as [|s r IH]; intro rho; simpl app.
    - reflexivity.
    - rewrite !exec_list_cons. destruct (exec s rho) as [[r1 [v|]]|]; auto.
  Qed.

  Lemma exec_if c b o rho :
    exec (SIf c b o) rho =
    match eval rho c with
    | Some v => if truthy v then exec_list b rho else exec_list o rho
    | None => None
    end.
  Proof. reflexivity. Qed.

  Lemma exec_for x it b rho :
    exec (SFor x it b) rho =
    match iter_vals rho it with
    | Some vs => loop_with (exec_list b) x vs rho
    | None => None
    end.
  Proof. reflexivity. Qed.

  Lemma loop_with_ext (f g : env -> outcome) x vs rho :
    (forall r, f r = g r) -> loop_with f x vs rho = loop_with g x vs rho.
  Proof.
    intro E. revert rho; induction vs as [|v r IH]; intro rho; simpl; auto.
    rewrite E. destruct (g (upd rho x v)) as [[r1 [w|]]|]; auto.
  Qed.

  Lemma iter_vals_range rho args :
    iter_vals rho (ECall "range" args) =
    match all_some (map (eval rho) args) with
    | Some vs => match all_some (map as_int vs) with
                 | Some zs => option_map (map VInt) (range_of zs)
                 | None => None
                 end
    | None => None
    end.
  Proof. reflexivity. Qed.

  Lemma iter_vals_other rho it :
    is_call "range" it = None ->
    iter_vals rho it = match eval rho it with Some (VTup l) => Some l | _ => None end.
  Proof. unfold M_A2A.iter_vals. intros ->. reflexivity. Qed.
End Sem.

(* ------------------------------------------------------------------ *)
(* guards: basic facts                                                 *)
(* ------------------------------------------------------------------ *)
Lemma gexp_not_call okn lv e f :
  gexp okn lv e = true -> existsb (String.eqb f) special_calls = true -> is_call f e = None.
Proof.
  destruct e; simpl; auto. intros G S. apply andb_true_iff in G; destruct G as [G _].
  destruct (String.eqb f0 f) eqn:E; auto. apply String.eqb_eq in E. subst.
  apply negb_true_iff in G. unfold special_calls in *. congruence.
Qed.

Lemma const_iter_gexp okn lv it : const_iter it = true -> gexp okn lv it = true.
Proof.
  assert (K : forall l, forallb valued_const l = true -> forallb (gexp okn lv) l = true).
  { induction l; simpl; auto. intro H. apply andb_true_iff in H; destruct H as [H1 H2].
    rewrite IHl by auto. destruct a; simpl in *; try discriminate. now rewrite H1. }
  destruct it; simpl; try discriminate; auto.
Qed.

Lemma const_iter_not_range it : const_iter it = true -> is_call "range" it = None.
Proof. destruct it; simpl; try discriminate; auto. Qed.

Lemma fold_const_list l : forallb valued_const l = true -> mapM fold_exp l = Ok l.
Proof.
  induction l; simpl; auto. intro H. apply andb_true_iff in H; destruct H as [H1 H2].
  rewrite (IHl H2). destruct a; simpl in *; try discriminate. reflexivity.
Qed.

Lemma fold_names okn l : forallb (gname okn) l = true -> mapM fold_exp l = Ok l.
Proof.
  induction l; simpl; auto. intro H. apply andb_true_iff in H; destruct H as [H1 H2].
  rewrite (IHl H2). destruct a; simpl in *; try discriminate. reflexivity.
Qed.

(* ------------------------------------------------------------------ *)
(* ConstantFolder on statements                                        *)
(* ------------------------------------------------------------------ *)
Section FoldStmt.
  Variable ext : string -> list val -> option val.
  Variable okn : string -> bool.
  Notation eval := (eval ext).
  Notation exec := (exec ext).
  Notation exec_list := (exec_list ext).
  Notation iter_vals := (iter_vals ext).

  Definition fold_stmt_spec (s : stmt) : Prop :=
    forall lv l, gstmt okn lv s = true -> fold_stmt s = Ok l ->
                 (forall rho, exec_list l rho = exec s rho) /\ forallb (gstmt okn lv) l = true.

  Lemma fold_flat_sound b : Forall fold_stmt_spec b ->
    forall lv b', forallb (gstmt okn lv) b = true -> flat_mapM fold_stmt b = Ok b' ->
    (forall rho, exec_list b' rho = exec_list b rho) /\ forallb (gstmt okn lv) b' = true.
  Proof.
    induction 1 as [|s r Hs Hr IH]; intros lv b' G H; simpl in H.
    - inversion H; subst. auto.
    - simpl in G. apply andb_true_iff in G; destruct G as [Gs Gr].
      inv_bind H. inv_bind H. inversion H; subst.
      destruct (Hs _ _ Gs Ha) as (E1 & G1). destruct (IH _ _ Gr Ha0) as (E2 & G2).
      split.
      + intro rho. rewrite exec_list_app, exec_list_cons, E1.
        destruct (exec s rho) as [[r1 [v|]]|]; auto.
      + rewrite forallb_app, G1, G2. reflexivity.
  Qed.

  Lemma fold_args_sound lv args args' :
    forallb (gexp okn lv) args = true -> mapM fold_exp args = Ok args' ->
    (forall rho, all_some (map (eval rho) args') = all_some (map (eval rho) args)) /\
    forallb (gexp okn lv) args' = true.
  Proof.
    revert args'; induction args as [|a r IH]; intros args' G H; simpl in H.
    - inversion H; subst; auto.
    - simpl in G. apply andb_true_iff in G; destruct G as [Ga Gr].
      inv_bind H. inv_bind H. inversion H; subst.
      destruct (fold_exp_sound ext okn lv _ _ Ga Ha) as (E1 & G1). destruct (IH _ Gr Ha0) as (E2 & G2).
      split.
      + intro rho. simpl. now rewrite E1, E2.
      + simpl. now rewrite G1, G2.
  Qed.

  Lemma fold_stmt_sound s : fold_stmt_spec s.
  Proof.
    induction s as [t e|x op e|c b o Hb Ho|x it b Hb|e|e] using stmt_ind2; intros lv l G H;
      cbn [gstmt fold_stmt] in G, H.
    - (* Assign *)
      inv_bind H. inv_bind H. inversion H; subst.
      destruct t as [x|tl].
      + apply andb_true_iff in G; destruct G as [Gx Ge].
        destruct (fold_exp_sound ext okn lv _ _ Ge Ha0) as (E & G').
        simpl in Ha. inversion Ha; subst. split.
        * intro rho. rewrite exec_list_single. simpl. now rewrite E.
        * simpl. now rewrite Gx, G'.
      + apply andb_true_iff in G; destruct G as [G Gl]. apply andb_true_iff in G; destruct G as [Gn Ge].
        destruct (fold_exp_sound ext okn lv _ _ Ge Ha0) as (E & G').
        simpl in Ha. rewrite (fold_names _ _ Gn) in Ha. simpl in Ha. inversion Ha; subst. split.
        * intro rho. rewrite exec_list_single. simpl. now rewrite E.
        * simpl. rewrite Gn, G'. simpl.
          destruct e; simpl in Gl; try discriminate; simpl in Ha0; inv_bind Ha0; inversion Ha0; subst; simpl.
          all: apply mapM_ok, Forall2_length in Ha1; rewrite <- Ha1, Gl; reflexivity.
    - (* AugAssign *)
      apply andb_true_iff in G; destruct G as [G Ge]. apply andb_true_iff in G; destruct G as [Gx Gop].
      inv_bind H. inversion H; subst.
      destruct (fold_exp_sound ext okn lv _ _ Ge Ha) as (E & G'). split.
      + intro rho. rewrite exec_list_single. simpl. now rewrite E.
      + simpl. now rewrite Gx, Gop, G'.
    - (* If *)
      apply andb_true_iff in G; destruct G as [G Go]. apply andb_true_iff in G; destruct G as [Gc Gb].
      inv_bind H. inv_bind H. inv_bind H.
      destruct (fold_exp_sound ext okn lv _ _ Gc Ha) as (Ec & Gc').
      destruct (fold_flat_sound _ Hb _ _ Gb Ha0) as (Eb & Gb').
      destruct (fold_flat_sound _ Ho _ _ Go Ha1) as (Eo & Go').
      destruct (is_constant a) eqn:Ca.
      + inv_bind H. inversion H; subst.
        destruct a; simpl in Ca, Gc', Ha2; try discriminate.
        destruct c0; simpl in Ha2, Gc'; try discriminate; inversion Ha2; subst.
        * split. { intro rho. rewrite exec_if, <- Ec. simpl. destruct a2; auto. }
          destruct a2; auto.
        * split. { intro rho. rewrite exec_if, <- Ec. simpl. destruct (negb (z =? 0)%Z); auto. }
          destruct (negb (z =? 0)%Z); auto.
      + inversion H; subst. split.
        * intro rho. rewrite exec_list_single, !exec_if, Ec, Eb, Eo. reflexivity.
        * simpl. now rewrite Gc', Gb', Go'.
    - (* For *)
      apply andb_true_iff in G; destruct G as [G Gb]. apply andb_true_iff in G; destruct G as [Gx Gi].
      inv_bind H. inv_bind H. inversion H; subst.
      destruct (fold_flat_sound _ Hb _ _ Gb Ha0) as (Eb & Gb').
      assert (K : (forall rho, iter_vals rho a = iter_vals rho it) /\
                  (match is_call "range" a with
                   | Some args => forallb (gexp okn lv) args
                   | None => const_iter a end) = true).
      { destruct (is_call "range" it) as [args|] eqn:Ci.
        - apply is_call_some in Ci. subst it. cbn [fold_exp] in Ha. inv_bind Ha.
          change (existsb (String.eqb "range") builtin_funcs) with false in Ha. inversion Ha; subst.
          destruct (fold_args_sound _ _ _ Gi Ha2) as (Ea & Ga). split.
          + intro rho. rewrite !iter_vals_range, Ea. reflexivity.
          + rewrite is_call_call. simpl. exact Ga.
        - assert (a = it).
          { destruct it; simpl in Gi; try discriminate; simpl in Ha;
              rewrite (fold_const_list _ Gi) in Ha; simpl in Ha; inversion Ha; auto. }
          subst a. rewrite Ci. auto. }
      destruct K as (Ei & Gi'). split.
      + intro rho. rewrite exec_list_single, !exec_for, Ei.
        destruct (iter_vals rho it); auto. apply loop_with_ext. exact Eb.
      + simpl. now rewrite Gx, Gi', Gb'.
    - (* Return *)
      inv_bind H. inversion H; subst.
      destruct (fold_exp_sound ext okn lv _ _ G Ha) as (E & G'). split.
      + intro rho. rewrite exec_list_single. simpl. now rewrite E.
      + simpl. now rewrite G'.
    - (* Expr *)
      destruct e as [e|].
      + inv_bind H. inversion H; subst.
        destruct (fold_exp_sound ext okn lv _ _ G Ha) as (E & G'). split.
        * intro rho. rewrite exec_list_single. simpl.
          rewrite (gexp_not_call _ _ _ "print" G), (gexp_not_call _ _ _ "print" G') by reflexivity.
          now rewrite E.
        * simpl. now rewrite G'.
      + inversion H; subst. split; auto.
  Qed.

  Lemma fold_list_sound lv b b' :
    forallb (gstmt okn lv) b = true -> fold_list b = Ok b' ->
    (forall rho, exec_list b' rho = exec_list b rho) /\ forallb (gstmt okn lv) b' = true.
  Proof.
    apply fold_flat_sound. apply Forall_forall. intros s _. apply fold_stmt_sound.
  Qed.
End FoldStmt.
