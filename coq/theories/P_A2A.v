(* P_A2A.v — proofs about the model of qlasskit's source-to-source normaliser (M_A2A.v).

   Main results (restated in Prop_C01_a2a.v):
     a2a_normal_form     whatever a2a returns is in the normal form the translator expects
     a2a_backward        inside the decidable guard a2a_guard: whenever the NORMALISED program
                         returns a value, the ORIGINAL program returns the same value
                         (every environment, every interpretation of non-builtin calls)
     ..._refuted         the unguarded statement is false of the faithful model: witnesses
   built pass by pass: fold_stmt_sound (ConstantFolder), multi_list_sound
   (ReplaceMultiTargetAssign), rw_list_sound (ASTRewriter: if-flattening, temporaries of
   self-referencing assignments, augmented assignments, loop unrolling). *)
From Coq Require Import List Bool NArith ZArith Arith String Ascii Lia HexadecimalString HexadecimalN.
From QV Require Import M_A2A.
Import ListNotations.
Local Open Scope string_scope.
Local Open Scope list_scope.

(* ------------------------------------------------------------------ *)
(* induction principles (nested lists)                                 *)
(* ------------------------------------------------------------------ *)
Section ExpInd.
  Variable P : exp -> Prop.
  Hypothesis HName : forall x, P (EName x).
  Hypothesis HConst : forall c, P (EConst c).
  Hypothesis HConstNode : forall e, P e -> P (EConstNode e).
  Hypothesis HBoolOp : forall op l, Forall P l -> P (EBoolOp op l).
  Hypothesis HBinOp : forall op a b, P a -> P b -> P (EBinOp op a b).
  Hypothesis HUnOp : forall op a, P a -> P (EUnOp op a).
  Hypothesis HCompare : forall op a b, P a -> P b -> P (ECompare op a b).
  Hypothesis HIfExp : forall c t f, P c -> P t -> P f -> P (EIfExp c t f).
  Hypothesis HTuple : forall l, Forall P l -> P (ETuple l).
  Hypothesis HList : forall l, Forall P l -> P (EList l).
  Hypothesis HSubscript : forall v s, P v -> P s -> P (ESubscript v s).
  Hypothesis HCall : forall f args, Forall P args -> P (ECall f args).

  Fixpoint exp_ind2 (e : exp) : P e :=
    let go := fix go (l : list exp) : Forall P l :=
                match l with
                | [] => Forall_nil P
                | x :: r => Forall_cons x (exp_ind2 x) (go r)
                end in
    match e with
    | EName x => HName x
    | EConst c => HConst c
    | EConstNode e' => HConstNode e' (exp_ind2 e')
    | EBoolOp op l => HBoolOp op l (go l)
    | EBinOp op a b => HBinOp op a b (exp_ind2 a) (exp_ind2 b)
    | EUnOp op a => HUnOp op a (exp_ind2 a)
    | ECompare op a b => HCompare op a b (exp_ind2 a) (exp_ind2 b)
    | EIfExp c t f => HIfExp c t f (exp_ind2 c) (exp_ind2 t) (exp_ind2 f)
    | ETuple l => HTuple l (go l)
    | EList l => HList l (go l)
    | ESubscript v s => HSubscript v s (exp_ind2 v) (exp_ind2 s)
    | ECall f args => HCall f args (go args)
    end.
End ExpInd.

Section StmtInd.
  Variable P : stmt -> Prop.
  Hypothesis HAssign : forall t e, P (SAssign t e).
  Hypothesis HAug : forall x op e, P (SAugAssign x op e).
  Hypothesis HIf : forall c b o, Forall P b -> Forall P o -> P (SIf c b o).
  Hypothesis HFor : forall x it b o, Forall P b -> Forall P o -> P (SFor x it b o).
  Hypothesis HReturn : forall e, P (SReturn e).
  Hypothesis HExpr : forall e, P (SExpr e).

  Fixpoint stmt_ind2 (s : stmt) : P s :=
    let go := fix go (l : list stmt) : Forall P l :=
                match l with
                | [] => Forall_nil P
                | x :: r => Forall_cons x (stmt_ind2 x) (go r)
                end in
    match s with
    | SAssign t e => HAssign t e
    | SAugAssign x op e => HAug x op e
    | SIf c b o => HIf c b o (go b) (go o)
    | SFor x it b o => HFor x it b o (go b) (go o)
    | SReturn e => HReturn e
    | SExpr e => HExpr e
    end.
End StmtInd.

(* ------------------------------------------------------------------ *)
(* the result monad                                                    *)
(* ------------------------------------------------------------------ *)
Lemma bind_ok {A B} (x : res A) (f : A -> res B) b :
  bind x f = Ok b -> exists a, x = Ok a /\ f a = Ok b.
Proof. destruct x; simpl; intro H; try discriminate. eauto. Qed.

Ltac inv_bind H :=
  let a := fresh "a" in let Ha := fresh "Ha" in
  apply bind_ok in H; destruct H as (a & Ha & H).

Lemma mapM_ok {A B} (f : A -> res B) l l' :
  mapM f l = Ok l' -> Forall2 (fun x y => f x = Ok y) l l'.
Proof.
  revert l'; induction l as [|x r IH]; simpl; intros l' H.
  - inversion H; constructor.
  - inv_bind H. inv_bind H. inversion H; subst. constructor; auto.
Qed.

Lemma flat_mapM_ok {A B} (f : A -> res (list B)) l l' :
  flat_mapM f l = Ok l' -> exists ls, Forall2 (fun x y => f x = Ok y) l ls /\ l' = List.concat ls.
Proof.
  revert l'; induction l as [|x r IH]; simpl; intros l' H.
  - inversion H. exists []. split; [constructor|reflexivity].
  - inv_bind H. inv_bind H. inversion H; subst.
    destruct (IH _ Ha0) as (ls & F & E). exists (a :: ls). split; [constructor; auto|].
    simpl. now rewrite E.
Qed.

Lemma all_some_map_ext {A B C} (f : A -> option C) (g : B -> option C) l l' :
  Forall2 (fun a b => f a = g b) l l' -> all_some (map f l) = all_some (map g l').
Proof. induction 1; simpl; auto. rewrite H, IHForall2. reflexivity. Qed.

Lemma Forall2_length {A B} (R : A -> B -> Prop) l l' : Forall2 R l l' -> List.length l = List.length l'.
Proof. induction 1; simpl; auto. Qed.

Lemma boolop_with_ext (f g : exp -> option val) op l l' :
  Forall2 (fun a b => f a = g b) l l' -> boolop_with f op l = boolop_with g op l'.
Proof.
  induction 1 as [|a b l l' Hab F IH]; simpl; auto.
  inversion F; subst.
  - exact Hab.
  - rewrite Hab. destruct (g b); auto. rewrite IH. reflexivity.
Qed.

(* ================================================================== *)
(* From here to the composition of the passes: [plen] gives the typed tuple arguments
   (annotation Tuple[...]) with their length; they are user names and are never re-bound
   (the guard), so they keep the value [rho0] gives them. *)
Section Typed.
  Variable plen : string -> option nat.
  Notation prot := (M_A2A.prot plen).
  Hypothesis prot_user : forall a, prot a = true -> user_name a = true.
  Variable rho0 : env.
  Hypothesis conf0 : forall a n, plen a = Some n -> exists vs, rho0 a = Some (VTup vs) /\ List.length vs = n.
  Variable pbool : string -> bool.
  Hypothesis confb0 : forall a, pbool a = true -> exists vs, rho0 a = Some (VTup vs) /\ forallb is_vbool vs = true.
  Variable pint : string -> bool.
  Hypothesis confi0 : forall a, pint a = true -> exists vs, rho0 a = Some (VTup vs) /\ forallb is_vint vs = true.
  (* the protected names still have their initial value *)
  Definition Inv (r : env) : Prop := forall a, prot a = true -> r a = rho0 a.

(* ------------------------------------------------------------------ *)
(* ConstantFolder on expressions                                       *)
(* ------------------------------------------------------------------ *)
Lemma cst_of_exp_some e c : cst_of_exp e = Some c -> e = EConst c.
Proof. destruct e; simpl; intro H; try discriminate. now inversion H. Qed.

Lemma cst_of_val_ok v k : cst_of_val v = Ok k -> val_of_cst k = Some v /\ valued k = true.
Proof. destruct v; simpl; intro H; inversion H; auto. Qed.

Lemma valued_val c : valued c = true -> exists v, val_of_cst c = Some v.
Proof. destruct c; simpl; intro H; try discriminate; eauto. Qed.

Lemma typed_call_inv okn f args :
  typed_call okn plen pbool pint f args = true ->
  exists a n, args = [EName a] /\ okn a = true /\ plen a = Some n /\
              (f = "len" \/ (f = "sum" /\ (2 <= n)%nat) \/
               ((f = "all" \/ f = "any") /\ (1 <= n)%nat /\ pbool a = true) \/
               ((f = "min" \/ f = "max") /\ (1 <= n)%nat /\ (pbool a = true \/ pint a = true))).
Proof.
  unfold typed_call. destruct args as [|[] []]; try discriminate. intro H.
  apply andb_true_iff in H. destruct H as [Ox H]. destruct (plen x) as [n|] eqn:Px; try discriminate.
  exists x, n. split; [reflexivity|]. split; [exact Ox|]. split; [exact Px|].
  apply orb_true_iff in H. destruct H as [H|H];
    [apply orb_true_iff in H; destruct H as [H|H]; [apply orb_true_iff in H; destruct H as [H|H]|]|].
  - left. now apply String.eqb_eq.
  - right. left. apply andb_true_iff in H. destruct H as [H1 H2]. split; [now apply String.eqb_eq|now apply Nat.leb_le].
  - right. right. left. apply andb_true_iff in H. destruct H as [H H3]. apply andb_true_iff in H. destruct H as [H1 H2].
    split; [|split; [now apply Nat.leb_le|exact H3]].
    apply orb_true_iff in H1. destruct H1 as [H1|H1]; [left|right]; now apply String.eqb_eq.
  - right. right. right. apply andb_true_iff in H. destruct H as [H H3]. apply andb_true_iff in H. destruct H as [H1 H2].
    split; [|split; [now apply Nat.leb_le|now apply orb_true_iff]].
    apply orb_true_iff in H1. destruct H1 as [H1|H1]; [left|right]; now apply String.eqb_eq.
Qed.

Section FoldExp.
  Variable ext : string -> list val -> option val.
  Variable okn : string -> bool.
  Notation eval := (eval ext).

  Lemma special_not_builtin f :
    existsb (String.eqb f) special_calls = false -> existsb (String.eqb f) builtin_funcs = false.
  Proof.
    unfold special_calls, builtin_funcs. simpl. intro H.
    repeat (apply orb_false_iff in H; destruct H as [? H]).
    repeat (apply orb_false_iff; split); auto.
  Qed.

  Lemma fold_unop_sound op c e' :
    fold_unop op c = Ok e' ->
    exists v r k, val_of_cst c = Some v /\ unop_val op v = Some r /\ e' = EConst k /\
                  val_of_cst k = Some r /\ valued k = true.
  Proof.
    unfold fold_unop. destruct (val_of_cst c) as [v|] eqn:Ev; try discriminate.
    destruct (unop_val op v) as [r|] eqn:Er; try discriminate. intro H. inv_bind H. inversion H; subst.
    destruct (cst_of_val_ok _ _ Ha). exists v, r, a. auto.
  Qed.

  Lemma fold_binop_sound op c d e' :
    fold_binop op c d = Ok e' ->
    exists x y r k, val_of_cst c = Some x /\ val_of_cst d = Some y /\ binop_val op x y = Some r /\
                    e' = EConst k /\ val_of_cst k = Some r /\ valued k = true.
  Proof.
    unfold fold_binop. destruct (val_of_cst c) as [x|] eqn:Ex; try discriminate.
    destruct (val_of_cst d) as [y|] eqn:Ey; try discriminate.
    destruct (binop_val op x y) as [r|] eqn:Er.
    - intro H. inv_bind H. inversion H; subst. destruct (cst_of_val_ok _ _ Ha). exists x, y, r, a. auto 10.
    - destruct op; try discriminate. destruct (as_int y) as [[| |]|]; discriminate.
  Qed.

  Lemma fold_cmp_sound op c d e' :
    fold_cmp op c d = Ok e' ->
    exists x y r k, val_of_cst c = Some x /\ val_of_cst d = Some y /\ cmp_val op x y = Some r /\
                    e' = EConst k /\ val_of_cst k = Some r /\ valued k = true.
  Proof.
    unfold fold_cmp. destruct (val_of_cst c) as [x|] eqn:Ex; try discriminate.
    destruct (val_of_cst d) as [y|] eqn:Ey; try discriminate.
    destruct (cmp_val op x y) as [r|] eqn:Er; try discriminate.
    intro H. inv_bind H. inversion H; subst. destruct (cst_of_val_ok _ _ Ha). exists x, y, r, a. auto 10.
  Qed.

  Lemma index_list_map {A B} (f : A -> B) l z :
    index_list (map f l) z = option_map f (index_list l z).
  Proof.
    unfold index_list. rewrite map_length.
    destruct (_ && _). { apply nth_error_map. }
    destruct (_ && _). { apply nth_error_map. } reflexivity.
  Qed.

  Lemma index_list_in {A} (l : list A) z x : index_list l z = Some x -> List.In x l.
  Proof.
    unfold index_list. destruct (_ && _). { apply nth_error_In. }
    destruct (_ && _). { apply nth_error_In. } discriminate.
  Qed.

  (* a list of valued constants evaluates to the list of their values *)
  Lemma eval_const_list rho l :
    forallb is_constant l = true -> forallb (gexp okn plen pbool pint []) l = true ->
    exists vs, all_some (map (eval rho) l) = Some vs /\
               forall z x, index_list l z = Some x -> exists v, index_list vs z = Some v /\ eval rho x = Some v.
  Proof.
    intros Hc Hg.
    assert (E : exists vs, all_some (map (eval rho) l) = Some vs /\ map (eval rho) l = map Some vs).
    { induction l as [|a r IH]; simpl in *. { exists []; auto. }
      apply andb_true_iff in Hc; destruct Hc as [Ha Hr]. apply andb_true_iff in Hg; destruct Hg as [Ga Gr].
      destruct (IH Hr Gr) as (vs & E1 & E2).
      destruct a; simpl in Ha, Ga; try discriminate.
      destruct (valued_val _ Ga) as (v & Hv). exists (v :: vs). simpl. rewrite Hv, E1, E2. auto. }
    destruct E as (vs & E1 & E2). exists vs. split; auto.
    intros z x Hx.
    assert (H := index_list_map (eval rho) l z). rewrite Hx, E2, index_list_map in H. simpl in H.
    destruct (index_list vs z) as [v|]; simpl in H; try discriminate. inversion H. eauto.
  Qed.

  Lemma fold_exp_sound lv e : forall e',
    gexp okn plen pbool pint lv e = true -> fold_exp e = Ok e' ->
    (forall rho, eval rho e' = eval rho e) /\ gexp okn plen pbool pint lv e' = true.
  Proof.
    induction e as [x|c|e IHe|op l H0|op e1 e2 IHe1 IHe2|op e IHe|op e1 e2 IHe1 IHe2|e1 e2 e3 IHe1 IHe2 IHe3|l H0|l H0|e1 e2 IHe1 IHe2|f args H0]
      using exp_ind2; intros e' G H; cbn [gexp fold_exp] in G, H.
    - inversion H; subst. auto.
    - inversion H; subst. auto.
    - discriminate.
    - (* BoolOp *)
      inv_bind H. inversion H; subst. apply mapM_ok in Ha.
      assert (K : Forall2 (fun x y => (forall rho, eval rho y = eval rho x) /\ gexp okn plen pbool pint lv y = true) l a).
      { revert G H0. clear H. induction Ha; intros G F; constructor.
        - simpl in G. apply andb_true_iff in G. destruct G. inversion F; subst. auto.
        - simpl in G. apply andb_true_iff in G. destruct G. inversion F; subst. auto. }
      split.
      + intro rho. simpl. apply boolop_with_ext.
        clear - K. induction K; constructor; auto. destruct H. auto.
      + simpl. clear - K. induction K; simpl; auto. destruct H as [_ ->]. auto.
    - (* BinOp *)
      apply andb_true_iff in G; destruct G as [G Gb]. apply andb_true_iff in G; destruct G as [Gop Ga].
      inv_bind H. inv_bind H.
      destruct (IHe1 _ Ga Ha) as (E1 & G1). destruct (IHe2 _ Gb Ha0) as (E2 & G2).
      destruct (cst_of_exp a) as [c|] eqn:Ca; [destruct (cst_of_exp a0) as [d|] eqn:Cd|].
      + apply cst_of_exp_some in Ca, Cd. subst.
        destruct (fold_binop_sound _ _ _ _ H) as (x & y & r & k & Hx & Hy & Hr & -> & Hk & Vk).
        split; [|exact Vk]. intro rho. simpl. rewrite <- E1, <- E2. simpl. now rewrite Hx, Hy, Hk.
      + destruct (_ && _); inversion H; subst. split.
        * intro rho; simpl. now rewrite E1, E2.
        * simpl. now rewrite Gop, G1, G2.
      + destruct (_ && _); inversion H; subst. split.
        * intro rho; simpl. now rewrite E1, E2.
        * simpl. now rewrite Gop, G1, G2.
    - (* UnOp *)
      inv_bind H. destruct (IHe _ G Ha) as (E1 & G1).
      destruct (cst_of_exp a) as [c|] eqn:Ca.
      + apply cst_of_exp_some in Ca. subst.
        destruct (fold_unop_sound _ _ _ H) as (v & r & k & Hv & Hr & -> & Hk & Vk).
        split; [|exact Vk]. intro rho. simpl. rewrite <- E1. simpl. now rewrite Hv, Hk.
      + destruct (is_constant a); inversion H; subst. split.
        * intro rho; simpl. now rewrite E1.
        * exact G1.
    - (* Compare *)
      apply andb_true_iff in G; destruct G as [Ga Gb].
      inv_bind H. inv_bind H.
      destruct (IHe1 _ Ga Ha) as (E1 & G1). destruct (IHe2 _ Gb Ha0) as (E2 & G2).
      destruct (cst_of_exp a) as [c|] eqn:Ca; [destruct (cst_of_exp a0) as [d|] eqn:Cd|].
      + apply cst_of_exp_some in Ca, Cd. subst.
        destruct (fold_cmp_sound _ _ _ _ H) as (x & y & r & k & Hx & Hy & Hr & -> & Hk & Vk).
        split; [|exact Vk]. intro rho. simpl. rewrite <- E1, <- E2. simpl. now rewrite Hx, Hy, Hk.
      + destruct (_ && _); inversion H; subst. split.
        * intro rho; simpl. now rewrite E1, E2.
        * simpl. now rewrite G1, G2.
      + destruct (_ && _); inversion H; subst. split.
        * intro rho; simpl. now rewrite E1, E2.
        * simpl. now rewrite G1, G2.
    - (* IfExp *)
      apply andb_true_iff in G; destruct G as [G Gf]. apply andb_true_iff in G; destruct G as [Gc Gt].
      inv_bind H. inv_bind H. inv_bind H.
      destruct (IHe1 _ Gc Ha) as (E1 & G1). destruct (IHe2 _ Gt Ha0) as (E2 & G2).
      destruct (IHe3 _ Gf Ha1) as (E3 & G3).
      destruct (is_constant a) eqn:Ca.
      + inv_bind H. inversion H; subst.
        destruct a; simpl in Ca, G1, Ha2; try discriminate.
        destruct c; simpl in Ha2, G1; try discriminate; inversion Ha2; subst.
        * split. { intro rho. simpl. rewrite <- E1. simpl. destruct a2; auto. }
          destruct a2; auto.
        * split. { intro rho. simpl. rewrite <- E1. simpl. destruct (negb (z =? 0)%Z); auto. }
          destruct (negb (z =? 0)%Z); auto.
      + inversion H; subst. split.
        * intro rho. simpl. rewrite E1, E2, E3. reflexivity.
        * simpl. now rewrite G1, G2, G3.
    - (* Tuple *)
      inv_bind H. inversion H; subst. apply mapM_ok in Ha.
      assert (K : Forall2 (fun x y => (forall rho, eval rho y = eval rho x) /\ gexp okn plen pbool pint lv y = true) l a).
      { revert G H0. clear H. induction Ha; intros G F; constructor.
        - simpl in G. apply andb_true_iff in G. destruct G. inversion F; subst. auto.
        - simpl in G. apply andb_true_iff in G. destruct G. inversion F; subst. auto. }
      split.
      + intro rho. simpl. f_equal. apply all_some_map_ext.
        clear - K. induction K; constructor; auto. destruct H. auto.
      + simpl. clear - K. induction K; simpl; auto. destruct H as [_ ->]. auto.
    - (* List *)
      inv_bind H. inversion H; subst. apply mapM_ok in Ha.
      assert (K : Forall2 (fun x y => (forall rho, eval rho y = eval rho x) /\ gexp okn plen pbool pint lv y = true) l a).
      { revert G H0. clear H. induction Ha; intros G F; constructor.
        - simpl in G. apply andb_true_iff in G. destruct G. inversion F; subst. auto.
        - simpl in G. apply andb_true_iff in G. destruct G. inversion F; subst. auto. }
      split.
      + intro rho. simpl. f_equal. apply all_some_map_ext.
        clear - K. induction K; constructor; auto. destruct H. auto.
      + simpl. clear - K. induction K; simpl; auto. destruct H as [_ ->]. auto.
    - (* Subscript *)
      apply andb_true_iff in G; destruct G as [Gv Gs].
      inv_bind H. inv_bind H.
      destruct (IHe1 _ Gv Ha) as (E1 & G1).
      assert (Gs' : gexp okn plen pbool pint lv e2 = true).
      { destruct e2; try discriminate; simpl; auto. apply andb_true_iff in Gs. tauto. }
      destruct (IHe2 _ Gs' Ha0) as (E2 & G2).
      assert (Sa0 : a0 = e2).
      { destruct e2; try discriminate; simpl in Ha0; inversion Ha0; auto. }
      subst a0.
      assert (Keep : (forall rho, eval rho (ESubscript a e2) = eval rho (ESubscript e1 e2)) /\
                     gexp okn plen pbool pint lv (ESubscript a e2) = true).
      { split. - intro rho. simpl. now rewrite E1. - simpl. now rewrite G1, Gs. }
      destruct (as_list a) as [elts|] eqn:La; [|inversion H; subst; exact Keep].
      destruct (is_constant e2 && forallb is_constant elts) eqn:C; [|inversion H; subst; exact Keep].
      apply andb_true_iff in C; destruct C as [C2 Ce].
      destruct a; simpl in La; try discriminate. inversion La; subst l.
      unfold fold_index in H.
      destruct (cst_of_exp e2) as [c|] eqn:Cc; try discriminate. apply cst_of_exp_some in Cc. subst e2.
      destruct (val_of_cst c) as [i|] eqn:Vi; try discriminate.
      destruct (as_int i) as [z|] eqn:Zi; try discriminate.
      destruct (index_list elts z) as [x|] eqn:Ix; inversion H; subst; [|exact Keep].
      simpl in G1.
      assert (G1' : forallb (gexp okn plen pbool pint []) elts = true).
      { clear - G1 Ce. induction elts; simpl in *; auto.
        apply andb_true_iff in G1; destruct G1. apply andb_true_iff in Ce; destruct Ce.
        rewrite IHelts by auto. destruct a; simpl in *; try discriminate. now rewrite H. }
      split.
      + intro rho. simpl. rewrite <- E1. simpl.
        destruct (eval_const_list rho elts Ce G1') as (vs & Hvs & Hidx). rewrite Hvs. simpl. rewrite Vi.
        unfold subscript_val. rewrite Zi. destruct (Hidx _ _ Ix) as (v & Hv & Hx). now rewrite Hv, Hx.
      + apply index_list_in in Ix. rewrite forallb_forall in G1. auto.
    - (* Call *)
      apply orb_true_iff in G. destruct G as [G|Gt].
      2:{ (* len / sum of a typed argument: nothing is folded *)
          destruct (typed_call_inv _ _ _ Gt) as (y & n & -> & Oy & Py & Hf).
          assert (E : e' = ECall f [EName y]).
          { destruct Hf as [->|[[-> _]|[[[->| ->] _]|[[->| ->] _]]]]; vm_compute in H; inversion H; reflexivity. }
          subst e'. split; auto. cbn [gexp]. rewrite Gt. apply orb_true_r. }
      apply andb_true_iff in G; destruct G as [Gf Ga].
      inv_bind H. apply negb_true_iff in Gf. rewrite (special_not_builtin _ Gf) in H. inversion H; subst.
      apply mapM_ok in Ha.
      assert (K : Forall2 (fun x y => (forall rho, eval rho y = eval rho x) /\ gexp okn plen pbool pint lv y = true) args a).
      { revert Ga H0. clear H. induction Ha; intros G F; constructor.
        - simpl in G. apply andb_true_iff in G. destruct G. inversion F; subst. auto.
        - simpl in G. apply andb_true_iff in G. destruct G. inversion F; subst. auto. }
      split.
      + intro rho. simpl.
        replace (all_some (map (eval rho) a)) with (all_some (map (eval rho) args)); auto.
        apply all_some_map_ext. clear - K. induction K; constructor; auto. destruct H. auto.
      + cbn [gexp]. rewrite Gf. apply orb_true_iff. left. simpl. clear - K. induction K; simpl; auto. destruct H as [_ ->]. auto.
  Qed.
End FoldExp.

(* ------------------------------------------------------------------ *)
(* execution: basic facts                                              *)
(* ------------------------------------------------------------------ *)
(* sequential composition of two pieces of code *)
Definition seq (f g : env -> outcome) : env -> outcome :=
  fun rho => match f rho with Some (r, None) => g r | o => o end.

Lemma is_call_some f e args : is_call f e = Some args -> e = ECall f args.
Proof.
  destruct e; simpl; try discriminate. destruct (String.eqb f0 f) eqn:E; try discriminate.
  apply String.eqb_eq in E. intro H; inversion H; subst; auto.
Qed.

Lemma is_call_call f g args : is_call f (ECall g args) = if String.eqb g f then Some args else None.
Proof. reflexivity. Qed.

Section Sem.
  Variable ext : string -> list val -> option val.
  Notation eval := (eval ext).
  Notation exec := (exec ext).
  Notation exec_list := (exec_list ext).
  Notation iter_vals := (iter_vals ext).

  Lemma exec_list_nil rho : exec_list [] rho = Some (rho, None).
  Proof. reflexivity. Qed.

  Lemma exec_list_cons s r rho :
    exec_list (s :: r) rho = match exec s rho with Some (rho', None) => exec_list r rho' | o => o end.
  Proof. reflexivity. Qed.

  Lemma exec_list_single s rho : exec_list [s] rho = exec s rho.
  Proof. rewrite exec_list_cons. destruct (exec s rho) as [[r [v|]]|]; auto. Qed.

  Lemma exec_list_app l1 l2 rho :
    exec_list (l1 ++ l2) rho =
    match exec_list l1 rho with Some (rho', None) => exec_list l2 rho' | o => o end.
  Proof.
    revert rho; induction l1 as [|s r IH]; intro rho; simpl app.
    - reflexivity.
    - rewrite !exec_list_cons. destruct (exec s rho) as [[r1 [v|]]|]; auto.
  Qed.

  Lemma exec_if c b o rho :
    exec (SIf c b o) rho =
    match eval rho c with
    | Some v => if truthy v then exec_list b rho else exec_list o rho
    | None => None
    end.
  Proof. reflexivity. Qed.

  Lemma exec_for x it b o rho :
    exec (SFor x it b o) rho =
    match iter_vals rho it with
    | Some vs => seq (loop_with (exec_list b) x vs) (exec_list o) rho
    | None => None
    end.
  Proof. reflexivity. Qed.

  Lemma loop_with_ext (f g : env -> outcome) x vs rho :
    (forall r, f r = g r) -> loop_with f x vs rho = loop_with g x vs rho.
  Proof.
    intro E. revert rho; induction vs as [|v r IH]; intro rho; simpl; auto.
    rewrite E. destruct (g (upd rho x v)) as [[r1 [w|]]|]; auto.
  Qed.

  Lemma iter_vals_range rho args :
    iter_vals rho (ECall "range" args) =
    match all_some (map (eval rho) args) with
    | Some vs => match all_some (map as_int vs) with
                 | Some zs => option_map (map VInt) (range_of zs)
                 | None => None
                 end
    | None => None
    end.
  Proof. reflexivity. Qed.

  Lemma iter_vals_other rho it :
    is_call "range" it = None ->
    iter_vals rho it = match eval rho it with Some (VTup l) => Some l | _ => None end.
  Proof. unfold M_A2A.iter_vals. intros ->. reflexivity. Qed.
End Sem.

(* ------------------------------------------------------------------ *)
(* guards: basic facts                                                 *)
(* ------------------------------------------------------------------ *)
Lemma gexp_not_call okn lv e (f : string) :
  gexp okn plen pbool pint lv e = true -> f = "print" -> is_call f e = None.
Proof.
  destruct e; simpl; auto. intros G ->.
  destruct (String.eqb f0 "print") eqn:E; auto. apply String.eqb_eq in E. subst.
  apply orb_true_iff in G. destruct G as [G|G].
  - apply andb_true_iff in G; destruct G as [G _]. discriminate.
  - destruct (typed_call_inv _ _ _ G) as (y & n & _ & _ & _ & [Hf|[[Hf _]|[[[Hf|Hf] _]|[[Hf|Hf] _]]]]); discriminate.
Qed.

Lemma const_iter_gexp okn lv it : const_iter it = true -> gexp okn plen pbool pint lv it = true.
Proof.
  assert (K : forall l, forallb valued_const l = true -> forallb (gexp okn plen pbool pint lv) l = true).
  { induction l; simpl; auto. intro H. apply andb_true_iff in H; destruct H as [H1 H2].
    rewrite IHl by auto. destruct a; simpl in *; try discriminate. now rewrite H1. }
  destruct it; simpl; try discriminate; auto.
Qed.

Lemma const_iter_not_range it : const_iter it = true -> is_call "range" it = None.
Proof. destruct it; simpl; try discriminate; auto. Qed.

Lemma fold_const_list l : forallb valued_const l = true -> mapM fold_exp l = Ok l.
Proof.
  induction l; simpl; auto. intro H. apply andb_true_iff in H; destruct H as [H1 H2].
  rewrite (IHl H2). destruct a; simpl in *; try discriminate. reflexivity.
Qed.

Lemma fold_names okn l : forallb (gname okn plen) l = true -> mapM fold_exp l = Ok l.
Proof.
  induction l; simpl; auto. intro H. apply andb_true_iff in H; destruct H as [H1 H2].
  rewrite (IHl H2). destruct a; simpl in *; try discriminate. reflexivity.
Qed.

(* ------------------------------------------------------------------ *)
(* ConstantFolder on statements                                        *)
(* ------------------------------------------------------------------ *)
Section FoldStmt.
  Variable ext : string -> list val -> option val.
  Variable okn : string -> bool.
  Notation eval := (eval ext).
  Notation exec := (exec ext).
  Notation exec_list := (exec_list ext).
  Notation iter_vals := (iter_vals ext).

  Definition fold_stmt_spec (s : stmt) : Prop :=
    forall lv l, gstmt okn plen pbool pint lv s = true -> fold_stmt s = Ok l ->
                 (forall rho, exec_list l rho = exec s rho) /\ forallb (gstmt okn plen pbool pint lv) l = true.

  Lemma fold_flat_sound b : Forall fold_stmt_spec b ->
    forall lv b', forallb (gstmt okn plen pbool pint lv) b = true -> flat_mapM fold_stmt b = Ok b' ->
    (forall rho, exec_list b' rho = exec_list b rho) /\ forallb (gstmt okn plen pbool pint lv) b' = true.
  Proof.
    induction 1 as [|s r Hs Hr IH]; intros lv b' G H; simpl in H.
    - inversion H; subst. auto.
    - simpl in G. apply andb_true_iff in G; destruct G as [Gs Gr].
      inv_bind H. inv_bind H. inversion H; subst.
      destruct (Hs _ _ Gs Ha) as (E1 & G1). destruct (IH _ _ Gr Ha0) as (E2 & G2).
      split.
      + intro rho. rewrite exec_list_app, exec_list_cons, E1.
        destruct (exec s rho) as [[r1 [v|]]|]; auto.
      + rewrite forallb_app, G1, G2. reflexivity.
  Qed.

  Lemma fold_args_sound lv args args' :
    forallb (gexp okn plen pbool pint lv) args = true -> mapM fold_exp args = Ok args' ->
    (forall rho, all_some (map (eval rho) args') = all_some (map (eval rho) args)) /\
    forallb (gexp okn plen pbool pint lv) args' = true.
  Proof.
    revert args'; induction args as [|a r IH]; intros args' G H; simpl in H.
    - inversion H; subst; auto.
    - simpl in G. apply andb_true_iff in G; destruct G as [Ga Gr].
      inv_bind H. inv_bind H. inversion H; subst.
      destruct (fold_exp_sound ext okn lv _ _ Ga Ha) as (E1 & G1). destruct (IH _ Gr Ha0) as (E2 & G2).
      split.
      + intro rho. simpl. now rewrite E1, E2.
      + simpl. now rewrite G1, G2.
  Qed.

  Lemma fold_stmt_sound s : fold_stmt_spec s.
  Proof.
    induction s as [t e|x op e|c b o Hb Ho|x it b fo Hb Hfo|e|e] using stmt_ind2; intros lv l G H;
      cbn [gstmt fold_stmt] in G, H.
    - (* Assign *)
      inv_bind H. inv_bind H. inversion H; subst.
      destruct t as [x|tl].
      + apply andb_true_iff in G; destruct G as [Gx Ge].
        destruct (fold_exp_sound ext okn lv _ _ Ge Ha0) as (E & G').
        simpl in Ha. inversion Ha; subst. split.
        * intro rho. rewrite exec_list_single. simpl. now rewrite E.
        * simpl. now rewrite Gx, G'.
      + apply andb_true_iff in G; destruct G as [G Gl]. apply andb_true_iff in G; destruct G as [Gn Ge].
        destruct (fold_exp_sound ext okn lv _ _ Ge Ha0) as (E & G').
        simpl in Ha. rewrite (fold_names _ _ Gn) in Ha. simpl in Ha. inversion Ha; subst. split.
        * intro rho. rewrite exec_list_single. simpl. now rewrite E.
        * simpl. rewrite Gn, G'. simpl.
          destruct e; simpl in Gl; try discriminate; simpl in Ha0.
          { inversion Ha0; subst. simpl. rewrite Gl. reflexivity. }
          all: inv_bind Ha0; inversion Ha0; subst; simpl.
          all: apply mapM_ok, Forall2_length in Ha1; rewrite <- Ha1, Gl; reflexivity.
    - (* AugAssign *)
      apply andb_true_iff in G; destruct G as [G Ge]. apply andb_true_iff in G; destruct G as [Gx Gop].
      inv_bind H. inversion H; subst.
      destruct (fold_exp_sound ext okn lv _ _ Ge Ha) as (E & G'). split.
      + intro rho. rewrite exec_list_single. simpl. now rewrite E.
      + simpl. now rewrite Gx, Gop, G'.
    - (* If *)
      apply andb_true_iff in G; destruct G as [G Go]. apply andb_true_iff in G; destruct G as [Gc Gb].
      inv_bind H. inv_bind H. inv_bind H.
      destruct (fold_exp_sound ext okn lv _ _ Gc Ha) as (Ec & Gc').
      destruct (fold_flat_sound _ Hb _ _ Gb Ha0) as (Eb & Gb').
      destruct (fold_flat_sound _ Ho _ _ Go Ha1) as (Eo & Go').
      destruct (is_constant a) eqn:Ca.
      + inv_bind H. inversion H; subst.
        destruct a; simpl in Ca, Gc', Ha2; try discriminate.
        destruct c0; simpl in Ha2, Gc'; try discriminate; inversion Ha2; subst.
        * split. { intro rho. rewrite exec_if, <- Ec. simpl. destruct a2; auto. }
          destruct a2; auto.
        * split. { intro rho. rewrite exec_if, <- Ec. simpl. destruct (negb (z =? 0)%Z); auto. }
          destruct (negb (z =? 0)%Z); auto.
      + inversion H; subst. split.
        * intro rho. rewrite exec_list_single, !exec_if, Ec, Eb, Eo. reflexivity.
        * simpl. now rewrite Gc', Gb', Go'.
    - (* For *)
      apply andb_true_iff in G; destruct G as [G Go]. apply andb_true_iff in G; destruct G as [G Gb].
      apply andb_true_iff in G; destruct G as [G Gn]. apply andb_true_iff in G; destruct G as [Gx Gi].
      inv_bind H. inv_bind H. inv_bind H. inversion H; subst.
      destruct (fold_flat_sound _ Hb _ _ Gb Ha0) as (Eb & Gb').
      destruct (fold_flat_sound _ Hfo _ _ Go Ha1) as (Eo & Go').
      assert (K : (forall rho, iter_vals rho a = iter_vals rho it) /\
                  giter okn plen pbool pint lv a = true /\ name_iter plen a = name_iter plen it).
      { unfold giter in *. destruct (is_call "range" it) as [args|] eqn:Ci.
        - apply is_call_some in Ci. subst it. cbn [fold_exp] in Ha. inv_bind Ha.
          change (existsb (String.eqb "range") builtin_funcs) with false in Ha. inversion Ha; subst.
          destruct (fold_args_sound _ _ _ Gi Ha2) as (Ea & Ga). split; [|split].
          + intro rho. rewrite !iter_vals_range, Ea. reflexivity.
          + rewrite is_call_call. simpl. exact Ga.
          + reflexivity.
        - assert (a = it).
          { apply orb_true_iff in Gi. destruct Gi as [Gi|Gi].
            - destruct it; simpl in Gi; try discriminate; simpl in Ha;
                rewrite (fold_const_list _ Gi) in Ha; simpl in Ha; inversion Ha; auto.
            - destruct it; simpl in Gi; try discriminate. simpl in Ha. inversion Ha; auto. }
          subst a. rewrite Ci. auto. }
      destruct K as (Ei & Gi' & En). split.
      + intro rho. rewrite exec_list_single, !exec_for, Ei.
        destruct (iter_vals rho it) as [vs|]; auto. unfold seq. rewrite (loop_with_ext _ _ x vs rho Eb).
        destruct (loop_with (exec_list b) x vs rho) as [[r1 [v1|]]|]; auto.
      + cbn [forallb gstmt]. unfold body_lv in *. rewrite En. now rewrite Gx, Gi', Gn, Gb', Go'.
    - (* Return *)
      inv_bind H. inversion H; subst.
      destruct (fold_exp_sound ext okn lv _ _ G Ha) as (E & G'). split.
      + intro rho. rewrite exec_list_single. simpl. now rewrite E.
      + simpl. now rewrite G'.
    - (* Expr *)
      destruct e as [e|].
      + inv_bind H. inversion H; subst.
        destruct (fold_exp_sound ext okn lv _ _ G Ha) as (E & G'). split.
        * intro rho. rewrite exec_list_single. simpl.
          rewrite (gexp_not_call _ _ _ "print" G), (gexp_not_call _ _ _ "print" G') by reflexivity.
          now rewrite E.
        * simpl. now rewrite G'.
      + inversion H; subst. split; auto.
  Qed.

  Lemma fold_list_sound lv b b' :
    forallb (gstmt okn plen pbool pint lv) b = true -> fold_list b = Ok b' ->
    (forall rho, exec_list b' rho = exec_list b rho) /\ forallb (gstmt okn plen pbool pint lv) b' = true.
  Proof.
    apply fold_flat_sound. apply Forall_forall. intros s _. apply fold_stmt_sound.
  Qed.
End FoldStmt.

(* ------------------------------------------------------------------ *)
(* backward simulation: the framework shared by the two rewriting passes *)
(* ------------------------------------------------------------------ *)
(* the two environments agree on the names P selects (the rewritten program has
   more names: its temporaries) *)
Definition Ragree (P : string -> bool) (rho rho' : env) : Prop :=
  forall x, P x = true -> rho x = rho' x.
Definition Rout (P : string -> bool) (o o' : env * option val) : Prop :=
  Ragree P (fst o) (fst o') /\ snd o = snd o'.
(* whenever the rewritten code [g] has an outcome, the original [f] has a related one *)
Definition bsim (P : string -> bool) (f g : env -> outcome) : Prop :=
  forall rho rho' o', Inv rho' -> Ragree P rho rho' -> g rho' = Some o' ->
                      exists o, f rho = Some o /\ Rout P o o' /\ Inv (fst o').

Lemma Inv_upd rho x v : prot x = false -> Inv rho -> Inv (upd rho x v).
Proof.
  intros Px J a Pa. unfold upd. destruct (String.eqb x a) eqn:E; auto.
  apply String.eqb_eq in E. congruence.
Qed.

Lemma Ragree_upd P rho rho' x v : Ragree P rho rho' -> Ragree P (upd rho x v) (upd rho' x v).
Proof. intros H y Py. unfold upd. destruct (String.eqb x y); auto. Qed.

Lemma Ragree_upd_r P rho rho' x v : P x = false -> Ragree P rho rho' -> Ragree P rho (upd rho' x v).
Proof.
  intros Px H y Py. unfold upd. destruct (String.eqb x y) eqn:E; auto.
  apply String.eqb_eq in E. congruence.
Qed.

Lemma Ragree_mono (P Q : string -> bool) rho rho' :
  (forall x, Q x = true -> P x = true) -> Ragree P rho rho' -> Ragree Q rho rho'.
Proof. intros M H x Qx. auto. Qed.

Lemma bsim_seq P f1 f2 g1 g2 : bsim P f1 g1 -> bsim P f2 g2 -> bsim P (seq f1 f2) (seq g1 g2).
Proof.
  intros B1 B2 rho rho' o' J R H. unfold seq in *.
  destruct (g1 rho') as [[r1' [v|]]|] eqn:E1; try discriminate.
  - inversion H; subst. destruct (B1 _ _ _ J R E1) as ([r1 w] & F1 & (R1 & Ev) & J1). simpl in *. subst w.
    rewrite F1. exists (r1, Some v). split; auto. split; auto. split; auto.
  - destruct (B1 _ _ _ J R E1) as ([r1 w] & F1 & (R1 & Ev) & J1). simpl in *. subst w. rewrite F1.
    apply (B2 _ _ _ J1 R1 H).
Qed.

Lemma bsim_loop P body body' x vs :
  prot x = false -> bsim P body body' -> bsim P (loop_with body x vs) (loop_with body' x vs).
Proof.
  intros Px B. induction vs as [|v r IH]; intros rho rho' o' J R H; simpl in *.
  - inversion H; subst. exists (rho, None). split; auto. split; auto. split; auto.
  - assert (S : bsim P (seq (fun e => body (upd e x v)) (loop_with body x r))
                       (seq (fun e => body' (upd e x v)) (loop_with body' x r))).
    { apply bsim_seq; auto. intros e e' o2 Je Re He.
      apply (B _ _ _ (Inv_upd _ x v Px Je) (Ragree_upd _ _ _ x v Re) He). }
    apply (S _ _ _ J R H).
Qed.

Lemma bsim_nil P : bsim P (fun rho => Some (rho, None)) (fun rho => Some (rho, None)).
Proof. intros rho rho' o' J R H. inversion H; subst. exists (rho, None). split; auto. split; auto. split; auto. Qed.

(* ------------------------------------------------------------------ *)
(* expressions depend only on the names the guard allows               *)
(* ------------------------------------------------------------------ *)
Section Agree.
  Variable ext : string -> list val -> option val.
  Notation eval := (eval ext).
  Notation iter_vals := (iter_vals ext).

  Lemma eval_agree okn lv e rho rho' :
    gexp okn plen pbool pint lv e = true -> Ragree okn rho rho' -> eval rho e = eval rho' e.
  Proof.
    intros G R. revert G.
    induction e as [x|c|e IHe|op l H0|op e1 e2 IHe1 IHe2|op e IHe|op e1 e2 IHe1 IHe2|e1 e2 e3 IHe1 IHe2 IHe3|l H0|l H0|e1 e2 IHe1 IHe2|f args H0]
      using exp_ind2; intro G; cbn [gexp] in G; cbn [M_A2A.eval].
    - auto.
    - auto.
    - discriminate.
    - apply boolop_with_ext. induction H0; constructor; simpl in G; apply andb_true_iff in G; destruct G; auto.
    - apply andb_true_iff in G; destruct G as [G Gb]. apply andb_true_iff in G; destruct G as [_ Ga].
      now rewrite IHe1, IHe2.
    - now rewrite IHe.
    - apply andb_true_iff in G; destruct G as [Ga Gb]. now rewrite IHe1, IHe2.
    - apply andb_true_iff in G; destruct G as [G Gf]. apply andb_true_iff in G; destruct G as [Gc Gt].
      now rewrite IHe1, IHe2, IHe3.
    - f_equal. apply all_some_map_ext.
      induction H0; constructor; simpl in G; apply andb_true_iff in G; destruct G; auto.
    - f_equal. apply all_some_map_ext.
      induction H0; constructor; simpl in G; apply andb_true_iff in G; destruct G; auto.
    - apply andb_true_iff in G; destruct G as [Gv Gs]. rewrite IHe1 by auto.
      assert (Es : eval rho e2 = eval rho' e2).
      { destruct e2; try discriminate; auto. apply andb_true_iff in Gs. destruct Gs. simpl. auto. }
      now rewrite Es.
    - apply orb_true_iff in G. destruct G as [G|Gt].
      2:{ destruct (typed_call_inv _ _ _ Gt) as (y & n & -> & Oy & _ & _). simpl. now rewrite (R y Oy). }
      apply andb_true_iff in G; destruct G as [_ Ga].
      replace (all_some (map (eval rho') args)) with (all_some (map (eval rho) args)); auto.
      apply all_some_map_ext.
      induction H0; constructor; simpl in Ga; apply andb_true_iff in Ga; destruct Ga; auto.
  Qed.

  Lemma args_agree okn lv args rho rho' :
    forallb (gexp okn plen pbool pint lv) args = true -> Ragree okn rho rho' ->
    all_some (map (eval rho) args) = all_some (map (eval rho') args).
  Proof.
    intros G R. apply all_some_map_ext. induction args; constructor; simpl in G;
      apply andb_true_iff in G; destruct G; eauto using eval_agree.
  Qed.

  (* the iterator of a guarded loop *)
  Lemma iter_agree okn lv it rho rho' :
    giter okn plen pbool pint lv it = true ->
    Ragree okn rho rho' -> iter_vals rho it = iter_vals rho' it.
  Proof.
    unfold giter. intros G R. destruct (is_call "range" it) as [args|] eqn:Ci.
    - apply is_call_some in Ci. subst. rewrite !iter_vals_range. now rewrite (args_agree _ _ _ _ _ G R).
    - rewrite !iter_vals_other by auto. apply orb_true_iff in G. destruct G as [G|G].
      + now rewrite (eval_agree okn lv _ _ _ (const_iter_gexp _ _ _ G) R).
      + destruct it; simpl in G; try discriminate. destruct (prot x); try discriminate.
        simpl. now rewrite (R x G).
  Qed.
End Agree.

(* the guard is monotone in the set of allowed names *)
Lemma gexp_mono (P Q : string -> bool) lv e :
  (forall x, P x = true -> Q x = true) -> gexp P plen pbool pint lv e = true -> gexp Q plen pbool pint lv e = true.
Proof.
  intro M.
  induction e as [x|c|e IHe|op l H0|op e1 e2 IHe1 IHe2|op e IHe|op e1 e2 IHe1 IHe2|e1 e2 e3 IHe1 IHe2 IHe3|l H0|l H0|e1 e2 IHe1 IHe2|f args H0]
    using exp_ind2; cbn [gexp]; intro G; auto.
  - induction H0; simpl in *; auto. apply andb_true_iff in G; destruct G. rewrite H, IHForall; auto.
  - apply andb_true_iff in G; destruct G as [G Gb]. apply andb_true_iff in G; destruct G as [Go Ga].
    now rewrite Go, IHe1, IHe2.
  - apply andb_true_iff in G; destruct G as [Ga Gb]. now rewrite IHe1, IHe2.
  - apply andb_true_iff in G; destruct G as [G Gf]. apply andb_true_iff in G; destruct G as [Gc Gt].
    now rewrite IHe1, IHe2, IHe3.
  - induction H0; simpl in *; auto. apply andb_true_iff in G; destruct G. rewrite H, IHForall; auto.
  - induction H0; simpl in *; auto. apply andb_true_iff in G; destruct G. rewrite H, IHForall; auto.
  - apply andb_true_iff in G; destruct G as [Gv Gs]. rewrite IHe1 by auto. simpl.
    destruct e2; auto. apply andb_true_iff in Gs; destruct Gs as [Gx Gl]. now rewrite (M _ Gx), Gl.
  - apply orb_true_iff in G. apply orb_true_iff. destruct G as [G|Gt].
    + left. apply andb_true_iff in G; destruct G as [Gf Ga]. rewrite Gf. simpl.
      induction H0; simpl in *; auto. apply andb_true_iff in Ga; destruct Ga. rewrite H, IHForall; auto.
    + right. destruct (typed_call_inv _ _ _ Gt) as (y & n & -> & Oy & Py & _).
      unfold typed_call in *. rewrite Py in *. rewrite Oy in Gt. rewrite (M _ Oy). exact Gt.
Qed.

Lemma gargs_mono (P Q : string -> bool) lv l :
  (forall x, P x = true -> Q x = true) -> forallb (gexp P plen pbool pint lv) l = true -> forallb (gexp Q plen pbool pint lv) l = true.
Proof.
  intro M. induction l; simpl; auto. intro G. apply andb_true_iff in G; destruct G.
  rewrite (gexp_mono P Q lv a M), IHl; auto.
Qed.

Lemma okt_mono (P Q : string -> bool) x :
  (forall x, P x = true -> Q x = true) -> okt P plen x = true -> okt Q plen x = true.
Proof.
  unfold okt. intros M H. apply andb_true_iff in H. destruct H as [H1 H2]. now rewrite (M _ H1), H2.
Qed.

Lemma giter_mono (P Q : string -> bool) lv it :
  (forall x, P x = true -> Q x = true) -> giter P plen pbool pint lv it = true -> giter Q plen pbool pint lv it = true.
Proof.
  unfold giter. intros M H. destruct (is_call "range" it).
  - apply (gargs_mono P Q); auto.
  - apply orb_true_iff in H. apply orb_true_iff. destruct H as [H|H]; auto. right.
    destruct (name_iter plen it); auto.
Qed.

Lemma gstmt_mono (P Q : string -> bool) s :
  (forall x, P x = true -> Q x = true) -> forall lv, gstmt P plen pbool pint lv s = true -> gstmt Q plen pbool pint lv s = true.
Proof.
  intro M.
  induction s as [t e|x op e|c b o Hb Ho|x it b fo Hb Hfo|e|e] using stmt_ind2; intros lv G; cbn [gstmt] in *.
  - destruct t as [x|tl].
    + apply andb_true_iff in G; destruct G as [Gx Ge]. now rewrite (okt_mono P Q x M Gx), (gexp_mono P Q lv e M Ge).
    + apply andb_true_iff in G; destruct G as [G Gl]. apply andb_true_iff in G; destruct G as [Gn Ge].
      rewrite (gexp_mono P Q lv e M Ge), Gl.
      assert (forallb (gname Q plen) tl = true) as ->; auto.
      clear - M Gn. induction tl; simpl in *; auto. apply andb_true_iff in Gn; destruct Gn.
      rewrite IHtl by auto. destruct a; simpl in *; try discriminate. now rewrite (okt_mono P Q _ M H).
  - apply andb_true_iff in G; destruct G as [G Ge]. apply andb_true_iff in G; destruct G as [Gx Gop].
    now rewrite (okt_mono P Q x M Gx), Gop, (gexp_mono P Q lv e M Ge).
  - apply andb_true_iff in G; destruct G as [G Go]. apply andb_true_iff in G; destruct G as [Gc Gb].
    rewrite (gexp_mono P Q lv c M Gc). simpl.
    assert (forallb (gstmt Q plen pbool pint lv) b = true) as ->.
    { clear - Hb Gb. induction Hb; simpl in *; auto. apply andb_true_iff in Gb; destruct Gb. rewrite H, IHHb; auto. }
    clear - Ho Go. induction Ho; simpl in *; auto. apply andb_true_iff in Go; destruct Go. rewrite H, IHHo; auto.
  - apply andb_true_iff in G; destruct G as [G Go]. apply andb_true_iff in G; destruct G as [G Gb].
    apply andb_true_iff in G; destruct G as [G Gn]. apply andb_true_iff in G; destruct G as [Gx Gi].
    rewrite (okt_mono P Q x M Gx), (giter_mono P Q lv it M Gi), Gn. simpl.
    assert (forallb (gstmt Q plen pbool pint (body_lv plen x lv it)) b = true) as ->.
    { clear - Hb Gb. induction Hb; simpl in *; auto. apply andb_true_iff in Gb; destruct Gb. rewrite H, IHHb; auto. }
    clear - Hfo Go. induction Hfo; simpl in *; auto.
    apply andb_true_iff in Go; destruct Go. rewrite H, IHHfo; auto.
  - apply (gexp_mono P Q); auto.
  - destruct e; auto. apply (gexp_mono P Q); auto.
Qed.

Lemma glist_mono (P Q : string -> bool) lv l :
  (forall x, P x = true -> Q x = true) -> forallb (gstmt P plen pbool pint lv) l = true -> forallb (gstmt Q plen pbool pint lv) l = true.
Proof.
  intro M. induction l; simpl; auto. intro G. apply andb_true_iff in G; destruct G.
  rewrite (gstmt_mono P Q a M lv), IHl; auto.
Qed.

(* names: a user name is visible *)
Lemma prefix_cons c p a s : prefix (String c p) (String a s) = if ascii_dec c a then prefix p s else false.
Proof. reflexivity. Qed.

Lemma user_visible x : user_name x = true -> visible x = true.
Proof.
  unfold user_name, visible, reserved, is_iftarg, iftarg_prefix, is_forit, forit_prefix.
  intro H. apply andb_true_iff in H. destruct H as [D R]. rewrite D. simpl.
  apply negb_true_iff in R. apply orb_false_iff in R. destruct R as [R F].
  apply orb_false_iff in R. destruct R as [_ I]. now rewrite I, F.
Qed.

(* ------------------------------------------------------------------ *)
(* statements read only the names the guard allows                     *)
(* ------------------------------------------------------------------ *)
Section SimStmt.
  Variable ext : string -> list val -> option val.
  Notation eval := (eval ext).
  Notation exec := (exec ext).
  Notation exec_list := (exec_list ext).
  Notation iter_vals := (iter_vals ext).

  Lemma bsim_ext P f f' g g' :
    (forall rho, f rho = f' rho) -> (forall rho, g rho = g' rho) -> bsim P f g -> bsim P f' g'.
  Proof. intros Ef Eg B rho rho' o' J R H. rewrite <- Eg in H. rewrite <- Ef. eauto. Qed.

  Lemma okt_inv P x : okt P plen x = true -> P x = true /\ prot x = false.
  Proof. unfold okt. intro H. apply andb_true_iff in H. destruct H as [A B]. apply negb_true_iff in B. auto. Qed.

  Lemma bsim_assign P lv x e e' :
    prot x = false -> gexp P plen pbool pint lv e = true -> (forall rho, Inv rho -> eval rho e' = eval rho e) ->
    bsim P (exec (SAssign (TName x) e)) (exec (SAssign (TName x) e')).
  Proof.
    intros Px G E rho rho' o' J R H. simpl in *. rewrite (E _ J) in H.
    rewrite (eval_agree ext P lv e rho rho' G R).
    destruct (eval rho' e) as [v|]; try discriminate. inversion H; subst.
    exists (upd rho x v, None). split; auto. split; [split|]; simpl; auto using Ragree_upd, Inv_upd.
  Qed.

  Lemma bsim_aug P lv x op e e' :
    P x = true -> prot x = false -> gexp P plen pbool pint lv e = true -> (forall rho, Inv rho -> eval rho e' = eval rho e) ->
    bsim P (exec (SAugAssign x op e)) (exec (SAugAssign x op e')).
  Proof.
    intros Px Qx G E rho rho' o' J R H. simpl in *. rewrite (E _ J) in H.
    rewrite (eval_agree ext P lv e rho rho' G R), (R x Px).
    destruct (rho' x) as [a|]; try discriminate. destruct (eval rho' e) as [v|]; try discriminate.
    destruct (binop_val op a v) as [w|]; try discriminate. simpl in *. inversion H; subst.
    exists (upd rho x w, None). split; auto. split; [split|]; simpl; auto using Ragree_upd, Inv_upd.
  Qed.

  Lemma bsim_return P lv e e' :
    gexp P plen pbool pint lv e = true -> (forall rho, Inv rho -> eval rho e' = eval rho e) ->
    bsim P (exec (SReturn e)) (exec (SReturn e')).
  Proof.
    intros G E rho rho' o' J R H. simpl in *. rewrite (E _ J) in H.
    rewrite (eval_agree ext P lv e rho rho' G R).
    destruct (eval rho' e) as [v|]; try discriminate. inversion H; subst.
    exists (rho, Some v). split; auto. split; [split|]; simpl; auto.
  Qed.

  Lemma bsim_expr P lv e e' :
    gexp P plen pbool pint lv e = true -> gexp P plen pbool pint lv e' = true -> (forall rho, Inv rho -> eval rho e' = eval rho e) ->
    bsim P (exec (SExpr (Some e))) (exec (SExpr (Some e'))).
  Proof.
    intros G G' E rho rho' o' J R H. simpl in *.
    rewrite (gexp_not_call _ _ _ "print" G') in H by reflexivity.
    rewrite (gexp_not_call _ _ _ "print" G) by reflexivity. rewrite (E _ J) in H.
    rewrite (eval_agree ext P lv e rho rho' G R).
    destruct (eval rho' e) as [v|]; try discriminate. inversion H; subst.
    exists (rho, None). split; auto. split; [split|]; simpl; auto.
  Qed.

  Lemma bsim_if P lv c c' fb fo gb go :
    gexp P plen pbool pint lv c = true -> (forall rho, Inv rho -> eval rho c' = eval rho c) ->
    bsim P fb gb -> bsim P fo go ->
    bsim P (fun rho => match eval rho c with
                       | Some v => if truthy v then fb rho else fo rho
                       | None => None end)
           (fun rho => match eval rho c' with
                       | Some v => if truthy v then gb rho else go rho
                       | None => None end).
  Proof.
    intros G E Bb Bo rho rho' o' J R H. rewrite (E _ J) in H.
    rewrite (eval_agree ext P lv c rho rho' G R).
    destruct (eval rho' c) as [v|]; try discriminate. destruct (truthy v); eauto.
  Qed.

  Lemma bsim_for P lv x it fb gb fo go :
    prot x = false -> giter P plen pbool pint lv it = true ->
    bsim P fb gb -> bsim P fo go ->
    bsim P (fun rho => match iter_vals rho it with Some vs => seq (loop_with fb x vs) fo rho | None => None end)
           (fun rho => match iter_vals rho it with Some vs => seq (loop_with gb x vs) go rho | None => None end).
  Proof.
    intros Px G B Bo rho rho' o' J R H.
    rewrite (iter_agree ext P lv it rho rho' G R).
    destruct (iter_vals rho' it) as [vs|]; try discriminate.
    apply (bsim_seq P _ _ _ _ (bsim_loop P fb gb x vs Px B) Bo _ _ _ J R H).
  Qed.

  Lemma bsim_list_cons P s r l1 l2 :
    bsim P (exec s) (exec_list l1) -> bsim P (exec_list r) (exec_list l2) ->
    bsim P (exec_list (s :: r)) (exec_list (l1 ++ l2)).
  Proof.
    intros B1 B2. eapply bsim_ext; [| |apply (bsim_seq P _ _ _ _ B1 B2)].
    - intro rho. unfold seq. now rewrite exec_list_cons.
    - intro rho. unfold seq. now rewrite exec_list_app.
  Qed.
End SimStmt.

(* ------------------------------------------------------------------ *)
(* ReplaceMultiTargetAssign                                            *)
(* ------------------------------------------------------------------ *)
Section Multi.
  Variable ext : string -> list val -> option val.
  Notation eval := (eval ext).
  Notation exec := (exec ext).
  Notation exec_list := (exec_list ext).
  Notation iter_vals := (iter_vals ext).

  Lemma names_of_ok tl names : mapM name_of tl = Ok names -> tl = map EName names.
  Proof.
    revert names; induction tl as [|a r IH]; simpl; intros names H.
    - inversion H; auto.
    - inv_bind H. inv_bind H. inversion H; subst. destruct a; simpl in Ha; try discriminate.
      inversion Ha; subst. simpl. f_equal. auto.
  Qed.

  Lemma index_list_mid {A} (done rest : list A) v :
    index_list (done ++ v :: rest) (Z.of_nat (List.length done)) = Some v.
  Proof.
    unfold index_list. rewrite app_length. simpl.
    assert ((0 <=? Z.of_nat (List.length done))%Z = true) as -> by (apply Z.leb_le; lia).
    assert ((Z.of_nat (List.length done) <? Z.of_nat (List.length done + S (List.length rest)))%Z = true) as ->
      by (apply Z.ltb_lt; lia).
    simpl. rewrite Nat2Z.id. rewrite nth_error_app2 by lia. now rewrite Nat.sub_diag.
  Qed.

  Lemma temptup_not_user : user_name temptup = false.
  Proof. reflexivity. Qed.

  Lemma not_user_not_prot x : user_name x = false -> prot x = false.
  Proof. intro U. destruct (prot x) eqn:E; auto. apply prot_user in E. congruence. Qed.

  Lemma temptup_not_prot : prot temptup = false.
  Proof. apply not_user_not_prot. reflexivity. Qed.

  (* x0 = src[k]; x1 = src[k+1]; ... against the tuple assignment *)
  Lemma singles_sound src names : forall done rest rho rho' o',
    forallb (okt user_name plen) names = true ->
    forallb (fun x => negb (String.eqb x src)) names = true ->
    List.length names = List.length rest ->
    rho' src = Some (VTup (done ++ rest)) -> Inv rho' -> Ragree user_name rho rho' ->
    exec_list (singles (EName src) names (Z.of_nat (List.length done))) rho' = Some o' ->
    exists r, assign_names (map EName names) rest rho = Some r /\ Rout user_name (r, None) o' /\ Inv (fst o').
  Proof.
    induction names as [|x names IH]; intros done rest rho rho' o' U NS L T J R H.
    - destruct rest; try discriminate. simpl in *. inversion H; subst. exists rho. split; auto. split; auto. split; auto.
    - destruct rest as [|v rest]; try discriminate. simpl in U. apply andb_true_iff in U; destruct U as [Ux Un].
      simpl in NS. apply andb_true_iff in NS; destruct NS as [Nx Nn]. apply negb_true_iff in Nx.
      destruct (okt_inv _ _ Ux) as (Ux1 & Ux2).
      cbn [singles] in H. rewrite exec_list_cons in H. cbn [M_A2A.exec M_A2A.eval val_of_cst] in H.
      rewrite T in H. unfold subscript_val in H. cbn [as_int] in H. rewrite index_list_mid in H.
      simpl. apply (IH (done ++ [v]) rest (upd rho x v) (upd rho' x v) o'); auto.
      + unfold upd. rewrite Nx. now rewrite <- app_assoc.
      + apply Inv_upd; auto.
      + apply Ragree_upd; auto.
      + rewrite app_length. simpl. replace (Z.of_nat (List.length done + 1)) with (Z.of_nat (List.length done) + 1)%Z by lia.
        exact H.
  Qed.

  Lemma okt_user_visible x : okt user_name plen x = true -> okt visible plen x = true.
  Proof. apply okt_mono. apply user_visible. Qed.

  Lemma singles_guard lv src names k :
    visible src = true ->
    forallb (okt user_name plen) names = true ->
    forallb (gstmt visible plen pbool pint lv) (singles (EName src) names k) = true.
  Proof.
    intro Vs. revert k; induction names as [|x r IH]; intros k U; simpl; auto.
    simpl in U. apply andb_true_iff in U; destruct U as [Ux Ur].
    rewrite (okt_user_visible _ Ux), Vs, IH by auto. reflexivity.
  Qed.

  Lemma gnames_user tl names :
    tl = map EName names -> forallb (gname user_name plen) tl = true -> forallb (okt user_name plen) names = true.
  Proof. intros ->. induction names; simpl; auto. intro H. apply andb_true_iff in H; destruct H. rewrite H, IHnames; auto. Qed.

  Lemma okt_neq_src src names :
    (user_name src = false \/ prot src = true) -> forallb (okt user_name plen) names = true ->
    forallb (fun x => negb (String.eqb x src)) names = true.
  Proof.
    intros S. induction names; simpl; auto. intro H. apply andb_true_iff in H; destruct H as [H1 H2].
    rewrite IHnames by auto. destruct (okt_inv _ _ H1) as (U & Q).
    destruct (String.eqb a src) eqn:E; auto. apply String.eqb_eq in E. subst. destruct S; congruence.
  Qed.

  Definition multi_spec (s : stmt) : Prop :=
    forall lv l, gstmt user_name plen pbool pint lv s = true -> multi_stmt s = Ok l ->
                 forallb (gstmt visible plen pbool pint lv) l = true /\ bsim user_name (exec s) (exec_list l).

  Lemma multi_flat_sound b : Forall multi_spec b ->
    forall lv b', forallb (gstmt user_name plen pbool pint lv) b = true -> flat_mapM multi_stmt b = Ok b' ->
    forallb (gstmt visible plen pbool pint lv) b' = true /\ bsim user_name (exec_list b) (exec_list b').
  Proof.
    induction 1 as [|s r Hs Hr IH]; intros lv b' G H; simpl in H.
    - inversion H; subst. split; auto. apply bsim_nil.
    - simpl in G. apply andb_true_iff in G; destruct G as [Gs Gr].
      inv_bind H. inv_bind H. inversion H; subst.
      destruct (Hs _ _ Gs Ha) as (G1 & B1). destruct (IH _ _ Gr Ha0) as (G2 & B2).
      split.
      + rewrite forallb_app, G1, G2. reflexivity.
      + apply bsim_list_cons; auto.
  Qed.

  Lemma bsim_single P f s : bsim P f (exec s) -> bsim P f (exec_list [s]).
  Proof. apply bsim_ext; auto. intro rho. now rewrite exec_list_single. Qed.

  Lemma exists_names_false a names :
    prot a = true -> forallb (okt user_name plen) names = true -> existsb (String.eqb a) names = false.
  Proof.
    intro Pa. induction names; simpl; auto. intro H. apply andb_true_iff in H; destruct H as [H1 H2].
    rewrite IHnames by auto. destruct (okt_inv _ _ H1) as (U & Q).
    destruct (String.eqb a a0) eqn:E; auto. apply String.eqb_eq in E. subst. congruence.
  Qed.

  Lemma multi_stmt_sound s : multi_spec s.
  Proof.
    induction s as [t e|x op e|c b o Hb Ho|x it b fo Hb Hfo|e|e] using stmt_ind2; intros lv l G H;
      cbn [gstmt multi_stmt] in G, H.
    - destruct t as [x|tl].
      + inversion H; subst. split.
        * cbn [forallb]. rewrite andb_true_r. apply (gstmt_mono user_name visible (SAssign (TName x) e) user_visible lv). exact G.
        * apply andb_true_iff in G; destruct G as [Gx Ge]. destruct (okt_inv _ _ Gx) as (Gx1 & Gx2).
          apply bsim_single. apply (bsim_assign ext user_name lv); auto.
      + apply andb_true_iff in G; destruct G as [G Gl]. apply andb_true_iff in G; destruct G as [Gn Ge].
        inv_bind H. pose proof (names_of_ok _ _ Ha) as Etl.
        pose proof (gnames_user _ _ Etl Gn) as Un.
        destruct (tuple_lit_len e) as [nl|] eqn:Tl.
        * (* a literal tuple / list on the right: through _temptup *)
          assert (Ee : exists es, (e = ETuple es \/ e = EList es) /\ List.length es = List.length tl).
          { destruct e; simpl in Tl; try discriminate; inversion Tl; subst; exists l0; split; auto; now apply Nat.eqb_eq. }
          destruct Ee as (es & Ee & Les).
          assert (H' : l = SAssign (TName temptup) e :: singles (EName temptup) a 0%Z).
          { destruct Ee; subst e; inversion H; auto. }
          clear H. subst l. split.
          -- cbn [forallb gstmt]. unfold okt at 1. rewrite temptup_not_prot.
             rewrite (gexp_mono user_name visible lv e user_visible Ge), (singles_guard lv temptup a 0%Z eq_refl Un). reflexivity.
          -- intros rho rho' o' J R H. rewrite exec_list_cons in H. simpl in H.
             assert (Ev : eval rho' e = option_map VTup (all_some (map (eval rho') es))).
             { destruct Ee; subst e; reflexivity. }
             assert (Ev0 : eval rho e = eval rho' e) by (apply (eval_agree ext user_name lv); auto).
             rewrite Ev in H. destruct (all_some (map (eval rho') es)) as [vals|] eqn:Evs; try discriminate.
             simpl in H.
             assert (Lv : List.length vals = List.length es).
             { clear - Evs. revert vals Evs. induction es; simpl; intros vals H.
               - inversion H; auto.
               - destruct (eval rho' a); try discriminate. destruct (all_some (map (eval rho') es)); try discriminate.
                 simpl in H. inversion H; subst. simpl. f_equal. auto. }
             assert (L1 : List.length a = List.length vals).
             { rewrite Lv, Les, Etl, map_length. reflexivity. }
             assert (T1 : upd rho' temptup (VTup vals) temptup = Some (VTup ([] ++ vals))).
             { unfold upd. now rewrite String.eqb_refl. }
             assert (R1 : Ragree user_name rho (upd rho' temptup (VTup vals))).
             { apply Ragree_upd_r; auto. }
             assert (J1 : Inv (upd rho' temptup (VTup vals))) by (apply Inv_upd; auto using temptup_not_prot).
             assert (N1 : forallb (fun x => negb (String.eqb x temptup)) a = true).
             { apply okt_neq_src; auto. }
             destruct (singles_sound temptup a [] vals rho _ o' Un N1 L1 T1 J1 R1 H) as (r & Hr & Ro & Jo).
             cbn [M_A2A.exec]. rewrite Ev0, Ev. cbn [option_map]. rewrite Etl, Hr. cbn [option_map]. eauto.
        * (* a typed tuple argument on the right: the single assignments read it directly *)
          destruct e; try discriminate. destruct (plen x) as [n|] eqn:Px; try discriminate.
          apply Nat.eqb_eq in Gl.
          assert (Pa : prot x = true) by (unfold M_A2A.prot; now rewrite Px).
          rewrite (exists_names_false _ _ Pa Un) in H. inversion H; subst l. clear H. split.
          -- apply singles_guard; auto. apply user_visible. simpl in Ge. exact Ge.
          -- intros rho rho' o' J R H.
             destruct (conf0 _ _ Px) as (vals & Hv & Lv).
             assert (T1 : rho' x = Some (VTup ([] ++ vals))) by (rewrite (J x Pa); exact Hv).
             assert (L1 : List.length a = List.length vals).
             { rewrite Lv, Gl, Etl, map_length. reflexivity. }
             assert (N1 : forallb (fun y => negb (String.eqb y x)) a = true).
             { apply okt_neq_src; auto. }
             destruct (singles_sound x a [] vals rho rho' o' Un N1 L1 T1 J R H) as (r & Hr & Ro & Jo).
             cbn [M_A2A.exec M_A2A.eval]. simpl in Ge. rewrite (R x Ge), T1. cbn [app option_map].
             rewrite Etl, Hr. cbn [option_map]. eauto.
    - inversion H; subst. split.
      + cbn [forallb]. rewrite andb_true_r. apply (gstmt_mono user_name visible (SAugAssign x op e) user_visible lv). exact G.
      + apply andb_true_iff in G; destruct G as [G Ge]. apply andb_true_iff in G; destruct G as [Gx Gop].
        destruct (okt_inv _ _ Gx) as (Gx1 & Gx2).
        apply bsim_single. apply (bsim_aug ext user_name lv); auto.
    - apply andb_true_iff in G; destruct G as [G Go]. apply andb_true_iff in G; destruct G as [Gc Gb].
      inv_bind H. inv_bind H. inversion H; subst.
      destruct (multi_flat_sound _ Hb _ _ Gb Ha) as (Gb' & Bb).
      destruct (multi_flat_sound _ Ho _ _ Go Ha0) as (Go' & Bo).
      split.
      + simpl. now rewrite (gexp_mono user_name visible lv c user_visible Gc), Gb', Go'.
      + apply bsim_single.
        eapply bsim_ext; [| |apply (bsim_if ext user_name lv c c _ _ _ _ Gc (fun _ _ => eq_refl) Bb Bo)];
          intro rho; now rewrite exec_if.
    - apply andb_true_iff in G; destruct G as [G Go]. apply andb_true_iff in G; destruct G as [G Gb].
      apply andb_true_iff in G; destruct G as [G Gn]. apply andb_true_iff in G; destruct G as [Gx Gi].
      inv_bind H. inv_bind H. inversion H; subst.
      destruct (multi_flat_sound _ Hb _ _ Gb Ha) as (Gb' & Bb).
      destruct (multi_flat_sound _ Hfo _ _ Go Ha0) as (Go' & Bo).
      destruct (okt_inv _ _ Gx) as (Gx1 & Gx2).
      split.
      + cbn [forallb gstmt]. rewrite (okt_user_visible _ Gx), (giter_mono user_name visible lv it user_visible Gi), Gn, Gb', Go'.
        reflexivity.
      + apply bsim_single.
        eapply bsim_ext; [| |apply (bsim_for ext user_name lv x it _ _ _ _ Gx2 Gi Bb Bo)];
          intro rho; now rewrite exec_for.
    - inversion H; subst. split.
      + simpl. rewrite andb_true_r. apply (gexp_mono user_name visible lv e user_visible G).
      + apply bsim_single. apply (bsim_return ext user_name lv); auto.
    - inversion H; subst. split.
      + simpl. rewrite andb_true_r. destruct e; auto. apply (gexp_mono user_name visible lv e user_visible G).
      + apply bsim_single. destruct e as [e|].
        * apply (bsim_expr ext user_name lv); auto.
        * intros rho rho' o' J R H'. simpl in *. inversion H'; subst. exists (rho, None). split; auto. split; [split|]; auto.
  Qed.

  Lemma multi_list_sound lv b b' :
    forallb (gstmt user_name plen pbool pint lv) b = true -> multi_list b = Ok b' ->
    forallb (gstmt visible plen pbool pint lv) b' = true /\ bsim user_name (exec_list b) (exec_list b').
  Proof.
    apply multi_flat_sound. apply Forall_forall. intros s _. apply multi_stmt_sound.
  Qed.
End Multi.


(* ------------------------------------------------------------------ *)
(* ASTRewriter: generated names                                        *)
(* ------------------------------------------------------------------ *)
Definition tmp (x : string) : string := String.append "__" x.
Definition anyn : string -> bool := fun _ => true.

Lemma prefix_append p s : prefix p (String.append p s) = true.
Proof.
  induction p as [|c p IH]; simpl.
  - destruct s; reflexivity.
  - destruct (ascii_dec c c); congruence.
Qed.

Lemma append_inj_l p s s' : String.append p s = String.append p s' -> s = s'.
Proof. induction p; simpl; intro H; auto. inversion H; auto. Qed.

Lemma tmp_dunder x : dunder (tmp x) = true.
Proof. apply prefix_append. Qed.

Lemma tmp_invisible x : visible (tmp x) = false.
Proof. unfold visible. now rewrite tmp_dunder. Qed.

Lemma iftarg_is u : is_iftarg (iftarg_name u) = true.
Proof. apply prefix_append. Qed.

Lemma iftarg_invisible u : visible (iftarg_name u) = false.
Proof. unfold visible. rewrite iftarg_is. destruct (dunder _); reflexivity. Qed.

Lemma forit_is u : is_forit (forit_name u) = true.
Proof. apply prefix_append. Qed.

Lemma forit_invisible u : visible (forit_name u) = false.
Proof. unfold visible. rewrite forit_is. destruct (dunder _); destruct (is_iftarg _); reflexivity. Qed.

Lemma hex_inj u u' : hex_of_N u = hex_of_N u' -> u = u'.
Proof.
  unfold hex_of_N. intro H.
  apply (f_equal NilEmpty.uint_of_string) in H. rewrite !NilEmpty.usu in H. inversion H as [H1].
  apply (f_equal N.of_hex_uint) in H1. now rewrite !Unsigned.of_to in H1.
Qed.

Lemma iftarg_inj u u' : iftarg_name u = iftarg_name u' -> u = u'.
Proof. unfold iftarg_name. intro H. apply append_inj_l in H. now apply hex_inj. Qed.

Lemma visible_inv x : visible x = true -> dunder x = false /\ is_iftarg x = false.
Proof.
  unfold visible. intro H. apply andb_true_iff in H. destruct H as [H _].
  apply andb_true_iff in H. destruct H as [A B].
  apply negb_true_iff in A, B. auto.
Qed.

(* ------------------------------------------------------------------ *)
(* ASTRewriter on guarded expressions: only List -> Tuple               *)
(* ------------------------------------------------------------------ *)
Lemma special_false f :
  existsb (String.eqb f) special_calls = false ->
  String.eqb f "len" = false /\ String.eqb f "sum" = false /\ String.eqb f "all" = false /\
  String.eqb f "any" = false /\ String.eqb f "min" = false /\ String.eqb f "max" = false /\
  String.eqb f "abs" = false /\ String.eqb f "print" = false /\ String.eqb f "range" = false /\
  String.eqb f "ord" = false /\ String.eqb f "chr" = false.
Proof.
  unfold special_calls. cbn [existsb]. intro H.
  repeat (apply orb_false_iff in H; destruct H as [? H]). repeat split; assumption.
Qed.

(* the types the rewriter's environment records for the typed tuple arguments are their
   annotations, whatever else has been bound since *)
Definition st_ok (st : rstate) : Prop :=
  forall a n, plen a = Some n ->
              exists l, assoc (tys st) a = Some (TyNode (ESubscript (EName "Tuple") (ETuple l))) /\
                        List.length l = n.

Lemma st_ok_tys st st' : tys st' = tys st -> st_ok st -> st_ok st'.
Proof. intros E S a n Pa. rewrite E. auto. Qed.

Lemma st_ok_cons st st' x t : prot x = false -> tys st' = (x, t) :: tys st -> st_ok st -> st_ok st'.
Proof.
  intros Px E S a n Pa. rewrite E. simpl. destruct (String.eqb x a) eqn:Exa; auto.
  apply String.eqb_eq in Exa. subst. unfold M_A2A.prot in Px. rewrite Pa in Px. discriminate.
Qed.

Lemma st_ok_set_type st x t : prot x = false -> st_ok st -> st_ok (set_type st x t).
Proof. intros Px. apply (st_ok_cons st _ x t Px). reflexivity. Qed.

Lemma st_ok_set_constant st x v : prot x = false -> st_ok st -> st_ok (set_constant st x v).
Proof.
  intros Px S. unfold set_constant.
  destruct (match v with EConst k => (CvRaw k, TyRaw) | EConstNode e => (CvNode e, TyNode e) | e => (CvNode e, TyNode e) end) as [c t].
  destruct (has_key (tys st) x).
  - apply (st_ok_tys st); auto.
  - apply (st_ok_cons st _ x t Px); auto.
Qed.


Section RwExp.
  Variable ext : string -> list val -> option val.
  Notation eval := (eval ext).

  (* sum(a) of at least two elements is the right-nested sum of the elements *)
  Lemma fold_left_add l : forall acc, fold_left Z.add l acc = (acc + fold_right Z.add 0 l)%Z.
  Proof. induction l; intro acc; simpl; [lia|]. rewrite IHl. lia. Qed.

  Lemma sum_chain_eval rho : forall es vs c,
    Forall2 (fun e v => eval rho e = Some v) es vs -> (2 <= List.length es)%nat -> sum_chain es = Ok c ->
    eval rho c = option_map (fun zs => VInt (fold_right Z.add 0%Z zs)) (all_some (map as_int vs)).
  Proof.
    induction es as [|x r IH]; intros vs c F L H; [simpl in L; lia|].
    destruct r as [|y r']; [simpl in L; lia|].
    inversion F as [|? vx ? vs1 Hx F1]; subst. inversion F1 as [|? vy ? vs2 Hy F2]; subst.
    destruct r' as [|z r''].
    - inversion F2; subst. simpl in H. inversion H; subst. simpl. rewrite Hx, Hy.
      unfold binop_val. destruct vx, vy; simpl; try reflexivity; repeat f_equal; lia.
    - assert (H' : bind (sum_chain (y :: z :: r'')) (fun c' => Ok (EBinOp Add x c')) = Ok c) by exact H.
      inv_bind H'. inversion H'; subst.
      assert (L' : (2 <= List.length (y :: z :: r''))%nat) by (simpl; lia).
      pose proof (IH _ _ F1 L' Ha) as E. simpl. rewrite Hx, E.
      cbn [map all_some]. destruct (all_some (map as_int (vy :: vs2))) as [zs|] eqn:Az.
      + cbn [map all_some] in Az. rewrite Az. simpl. destruct (as_int vx) as [zx|] eqn:Ax; simpl.
        * unfold binop_val. rewrite Ax. simpl. destruct vx; reflexivity.
        * unfold binop_val. rewrite Ax. destruct vx; simpl in *; try discriminate; reflexivity.
      + cbn [map all_some] in Az. rewrite Az. simpl. destruct (as_int vx); reflexivity.
  Qed.

  Lemma sum_chain_gexp okn lv : forall es c,
    forallb (gexp okn plen pbool pint lv) es = true -> sum_chain es = Ok c -> gexp okn plen pbool pint lv c = true.
  Proof.
    induction es as [|x r IH]; intros c G H; [discriminate|].
    simpl in G. apply andb_true_iff in G; destruct G as [Gx Gr].
    destruct r as [|y r']; [simpl in H; inversion H; subst; auto|].
    assert (H' : bind (sum_chain (y :: r')) (fun c' => Ok (EBinOp Add x c')) = Ok c) by exact H.
    inv_bind H'. inversion H'; subst. simpl. now rewrite Gx, (IH _ Gr Ha).
  Qed.

  Lemma access_vals a rho : forall done rest,
    rho a = Some (VTup (done ++ rest)) ->
    Forall2 (fun r v => eval rho r = Some v) (map (access1 a) (List.seq (List.length done) (List.length rest))) rest.
  Proof.
    intros done rest. revert done. induction rest as [|v rest IH]; intros done H; simpl; constructor.
    - simpl. rewrite H. unfold subscript_val. simpl. apply index_list_mid.
    - replace (S (List.length done)) with (List.length (done ++ [v])) by (rewrite app_length; simpl; lia).
      apply IH. now rewrite <- app_assoc.
  Qed.

  (* all(a) / any(a) of booleans is the and / or of the elements *)
  Lemma boolop_bools rho op : forall es vs,
    Forall2 (fun e v => eval rho e = Some v) es vs -> forallb is_vbool vs = true -> es <> [] ->
    boolop_with (eval rho) op es =
    Some (VBool (match op with And => forallb truthy vs | Or => existsb truthy vs end)).
  Proof.
    induction 1 as [|x v r vs' Hx F IH]; intros B Ne; [congruence|].
    simpl in B. apply andb_true_iff in B. destruct B as [Bv Bs]. destruct v as [b| |]; try discriminate.
    destruct r as [|y r'].
    - inversion F; subst. simpl. rewrite Hx. destruct op; simpl; [now rewrite andb_true_r|now rewrite orb_false_r].
    - assert (E : boolop_with (eval rho) op (x :: y :: r') =
                  match eval rho x with
                  | Some v => if (match op with And => negb (truthy v) | Or => truthy v end) then Some v
                              else boolop_with (eval rho) op (y :: r')
                  | None => None end) by reflexivity.
      rewrite E, Hx, IH by (auto; discriminate). destruct op, b; reflexivity.
  Qed.

  (* min(a) / max(a): the if-chain and the builtin both pick an extremum *)
  Definition is_ext (is_max : bool) (zs : list Z) (m : Z) : Prop :=
    List.In m zs /\ forall z, List.In z zs -> if is_max then (z <= m)%Z else (m <= z)%Z.
  Definition better (is_max : bool) (zx zz : Z) : bool := if is_max then Z.ltb zz zx else Z.leb zx zz.

  Lemma is_ext_unique (is_max : bool) zs m m' : is_ext is_max zs m -> is_ext is_max zs m' -> m = m'.
  Proof.
    intros [I1 H1] [I2 H2]. specialize (H1 _ I2). specialize (H2 _ I1). destruct is_max; lia.
  Qed.

  Lemma extreme_ext (is_max : bool) : forall l zl cur zc seen v,
    as_int cur = Some zc -> all_some (map as_int l) = Some zl -> is_ext is_max seen zc ->
    extreme is_max cur zc l = Some v ->
    exists m, as_int v = Some m /\ is_ext is_max (seen ++ zl) m /\ (v = cur \/ List.In v l).
  Proof.
    induction l as [|x l IH]; intros zl cur zc seen v Hc Hl He H; simpl in *.
    - inversion Hl; subst. inversion H; subst. exists zc. rewrite app_nil_r. auto.
    - destruct (as_int x) as [zx|] eqn:Hx; try discriminate.
      destruct (all_some (map as_int l)) as [zl'|] eqn:Hl'; try discriminate. simpl in Hl. inversion Hl; subst zl.
      assert (A : seen ++ zx :: zl' = (seen ++ [zx]) ++ zl') by (now rewrite <- app_assoc).
      destruct He as [I Hb].
      destruct (if is_max then (zc <? zx)%Z else (zx <? zc)%Z) eqn:C.
      + destruct (IH zl' x zx (seen ++ [zx]) v Hx eq_refl) as (m & Hm & Em & Iv); auto.
        { split; [apply in_or_app; right; left; auto|].
          intros z Iz. apply in_app_or in Iz. destruct Iz as [Iz|[<-|[]]].
          - specialize (Hb _ Iz). destruct is_max; [apply Z.ltb_lt in C|apply Z.ltb_lt in C]; lia.
          - destruct is_max; lia. }
        exists m. rewrite A. split; auto. split; auto. destruct Iv as [->|Iv]; auto.
      + destruct (IH zl' cur zc (seen ++ [zx]) v Hc eq_refl) as (m & Hm & Em & Iv); auto.
        { split; [apply in_or_app; left; auto|].
          intros z Iz. apply in_app_or in Iz. destruct Iz as [Iz|[<-|[]]]; [exact (Hb _ Iz)|].
          destruct is_max; [apply Z.ltb_ge in C|apply Z.ltb_ge in C]; lia. }
        exists m. rewrite A. split; auto. split; auto. destruct Iv as [->|Iv]; auto.
  Qed.

  Lemma forallb_false_ex {A} (f : A -> bool) l : forallb f l = false -> exists z, List.In z l /\ f z = false.
  Proof.
    induction l; simpl; try discriminate. intro H. apply andb_false_iff in H. destruct H as [H|H]; eauto.
    destruct (IHl H) as (z & I & F). eauto.
  Qed.

  Lemma minmax_chain_ext rho (is_max : bool) : forall es vs zs c,
    Forall2 (fun e v => eval rho e = Some v) es vs -> all_some (map as_int vs) = Some zs -> es <> [] ->
    minmax_chain (if is_max then M_A2A.Gt else M_A2A.LtE) es = Ok c ->
    exists v m, eval rho c = Some v /\ List.In v vs /\ as_int v = Some m /\ is_ext is_max zs m.
  Proof.
    intros es vs zs c F0. revert zs c. induction F0 as [|x vx r vs' Hx F IH]; intros zs c Hz Ne H; [congruence|].
    simpl in Hz. destruct (as_int vx) as [zx|] eqn:Ax; try discriminate.
    destruct (all_some (map as_int vs')) as [zr|] eqn:Ar; try discriminate. simpl in Hz. inversion Hz; subst zs.
    destruct r as [|y r'].
    - inversion F; subst. simpl in Ar. inversion Ar; subst. simpl in H. inversion H; subst.
      exists vx, zx. split; auto. split; [left; auto|]. split; auto. split; [left; auto|].
      intros z [<-|[]]. destruct is_max; lia.
    - assert (H' : bind (minmax_chain (if is_max then M_A2A.Gt else M_A2A.LtE) (y :: r'))
                        (fun yc => Ok (EIfExp (EBoolOp And (map (fun z => ECompare (if is_max then M_A2A.Gt else M_A2A.LtE) x z) (y :: r'))) x yc)) = Ok c)
        by exact H.
      inv_bind H'. inversion H'; subst c. clear H H'.
      destruct (IH zr a eq_refl) as (v & m & Ev & Iv & Am & Em); [discriminate|auto|].
      (* the test: x beats every other element *)
      assert (T : eval rho (EBoolOp And (map (fun z => ECompare (if is_max then M_A2A.Gt else M_A2A.LtE) x z) (y :: r'))) =
                  Some (VBool (forallb (better is_max zx) zr))).
      { assert (Fc : Forall2 (fun e w => eval rho e = Some w)
                             (map (fun z => ECompare (if is_max then M_A2A.Gt else M_A2A.LtE) x z) (y :: r'))
                             (map (fun zz => VBool (better is_max zx zz)) zr)).
        { clear - F Ar Hx Ax. revert zr Ar. induction F as [|e w l l' He Fl IHl]; intros zr Ar; simpl in *.
          - inversion Ar; constructor.
          - destruct (as_int w) as [zw|] eqn:Aw; try discriminate.
            destruct (all_some (map as_int l')) as [zl|] eqn:Al; try discriminate. simpl in Ar. inversion Ar; subst.
            simpl. constructor; auto. simpl. rewrite Hx, He. unfold cmp_val. destruct is_max; now rewrite Ax, Aw. }
        cbn [M_A2A.eval]. rewrite (boolop_bools rho And _ _ Fc); [| |discriminate].
        - f_equal. f_equal. clear. induction zr; simpl; auto. now rewrite IHzr.
        - clear. induction zr; simpl; auto. }
      change (ECompare (if is_max then M_A2A.Gt else LtE) x y
              :: map (fun z : exp => ECompare (if is_max then M_A2A.Gt else LtE) x z) r')
        with (map (fun z : exp => ECompare (if is_max then M_A2A.Gt else LtE) x z) (y :: r')).
      assert (Eif : forall t b e, eval rho (EIfExp t b e) =
                match eval rho t with Some v => if truthy v then eval rho b else eval rho e | None => None end)
        by reflexivity.
      rewrite Eif, T. cbn [truthy].
      destruct (forallb (better is_max zx) zr) eqn:B.
      + exists vx, zx. rewrite Hx. split; auto. split; [left; auto|]. split; auto. split; [left; auto|].
        intros z [<-|Iz]; [destruct is_max; lia|].
        rewrite forallb_forall in B. specialize (B _ Iz). unfold better in B.
        destruct is_max; [apply Z.ltb_lt in B|apply Z.leb_le in B]; lia.
      + exists v, m. split; auto. split; [right; auto|]. split; auto.
        destruct Em as [Im Hm]. split; [right; auto|].
        intros z [<-|Iz]; [|exact (Hm _ Iz)].
        destruct (forallb_false_ex _ _ B) as (z0 & I0 & B0). specialize (Hm _ I0). unfold better in B0.
        destruct is_max; [apply Z.ltb_ge in B0|apply Z.leb_gt in B0]; lia.
  Qed.

  Lemma extreme_some (is_max : bool) : forall l zl cur zc,
    all_some (map as_int l) = Some zl -> exists v, extreme is_max cur zc l = Some v.
  Proof.
    induction l as [|x l IH]; intros zl cur zc H; simpl in *; eauto.
    destruct (as_int x) as [zx|]; try discriminate.
    destruct (all_some (map as_int l)) as [zl'|] eqn:E; try discriminate.
    destruct (if is_max then (zc <? zx)%Z else (zx <? zc)%Z); eauto.
  Qed.

  Lemma kinds_as_int vs : (forallb is_vbool vs = true \/ forallb is_vint vs = true) ->
    exists zs, all_some (map as_int vs) = Some zs.
  Proof.
    intro K. induction vs as [|v vs IH]; simpl; eauto.
    assert (K' : forallb is_vbool vs = true \/ forallb is_vint vs = true).
    { destruct K as [K|K]; simpl in K; apply andb_true_iff in K; destruct K; auto. }
    destruct (IH K') as (zs & E). rewrite E.
    destruct K as [K|K]; simpl in K; apply andb_true_iff in K; destruct K as [Kv _];
      destruct v; try discriminate; simpl; eauto.
  Qed.

  Lemma minmax_chain_gexp okn lv op : forall es c,
    forallb (gexp okn plen pbool pint lv) es = true -> minmax_chain op es = Ok c ->
    gexp okn plen pbool pint lv c = true.
  Proof.
    induction es as [|x r IH]; intros c G H; [discriminate|].
    simpl in G. apply andb_true_iff in G; destruct G as [Gx Gr].
    destruct r as [|y r']; [simpl in H; inversion H; subst; auto|].
    assert (H' : bind (minmax_chain op (y :: r'))
                      (fun yc => Ok (EIfExp (EBoolOp And (map (fun z => ECompare op x z) (y :: r'))) x yc)) = Ok c)
      by exact H.
    inv_bind H'. inversion H'; subst. cbn [gexp]. rewrite Gx, (IH _ Gr Ha). rewrite !andb_true_r.
    change (ECompare op x y :: map (fun z : exp => ECompare op x z) r') with (map (fun z : exp => ECompare op x z) (y :: r')).
    clear - Gx Gr. revert Gr. generalize (y :: r'). intro l. induction l as [|z l IHl]; intro Gr; simpl in *; auto.
    apply andb_true_iff in Gr. destruct Gr as [Gz Gl]. now rewrite Gx, Gz, IHl.
  Qed.

  Lemma same_kind_eq vs v v' m :
    (forallb is_vbool vs = true \/ forallb is_vint vs = true) -> List.In v vs -> List.In v' vs ->
    as_int v = Some m -> as_int v' = Some m -> v = v'.
  Proof.
    intros K I I' A A'. destruct K as [K|K]; rewrite forallb_forall in K;
      pose proof (K _ I) as K1; pose proof (K _ I') as K2;
      destruct v, v'; simpl in *; try discriminate.
    - destruct b, b0; simpl in *; congruence.
    - congruence.
  Qed.

  Lemma rw_exp_sound st e : st_ok st -> forall e',
    gexp visible plen pbool pint [] e = true -> rw_exp st e = Ok e' ->
    (forall rho, Inv rho -> eval rho e' = eval rho e) /\ gexp visible plen pbool pint [] e' = true.
  Proof.
    intro S.
    induction e as [x|c|e IHe|op l H0|op e1 e2 IHe1 IHe2|op e IHe|op e1 e2 IHe1 IHe2|e1 e2 e3 IHe1 IHe2 IHe3|l H0|l H0|e1 e2 IHe1 IHe2|f args H0]
      using exp_ind2; intros e' G H; cbn [gexp rw_exp] in G, H.
    - destruct (visible_inv _ G) as [D _]. rewrite D in H. inversion H; subst. auto.
    - inversion H; subst. auto.
    - discriminate.
    - inv_bind H. inversion H; subst. apply mapM_ok in Ha.
      assert (K : Forall2 (fun x y => (forall rho, Inv rho -> eval rho y = eval rho x) /\ gexp visible plen pbool pint [] y = true) l a).
      { revert G H0. clear H. induction Ha; intros G F; constructor.
        - simpl in G. apply andb_true_iff in G. destruct G. inversion F; subst. auto.
        - simpl in G. apply andb_true_iff in G. destruct G. inversion F; subst. auto. }
      split.
      + intros rho J. simpl. apply boolop_with_ext. clear - K J. induction K; constructor; auto. destruct H. auto.
      + simpl. clear - K. induction K; simpl; auto. destruct H as [_ ->]. auto.
    - apply andb_true_iff in G; destruct G as [G Gb]. apply andb_true_iff in G; destruct G as [Gop Ga].
      assert (H' : bind (rw_exp st e1) (fun a' => bind (rw_exp st e2) (fun b' => Ok (EBinOp op a' b'))) = Ok e').
      { destruct op; try discriminate; exact H. }
      clear H. inv_bind H'. inv_bind H'. inversion H'; subst.
      destruct (IHe1 _ Ga Ha) as (E1 & G1). destruct (IHe2 _ Gb Ha0) as (E2 & G2). split.
      + intros rho J; simpl. now rewrite (E1 _ J), (E2 _ J).
      + simpl. now rewrite Gop, G1, G2.
    - inv_bind H. inversion H; subst. destruct (IHe _ G Ha) as (E1 & G1). split; auto.
      intros rho J; simpl. now rewrite (E1 _ J).
    - apply andb_true_iff in G; destruct G as [Ga Gb].
      inv_bind H. inv_bind H. inversion H; subst.
      destruct (IHe1 _ Ga Ha) as (E1 & G1). destruct (IHe2 _ Gb Ha0) as (E2 & G2). split.
      + intros rho J; simpl. now rewrite (E1 _ J), (E2 _ J).
      + simpl. now rewrite G1, G2.
    - apply andb_true_iff in G; destruct G as [G Gf]. apply andb_true_iff in G; destruct G as [Gc Gt].
      inv_bind H. inv_bind H. inv_bind H. inversion H; subst.
      destruct (IHe1 _ Gc Ha) as (E1 & G1). destruct (IHe2 _ Gt Ha0) as (E2 & G2).
      destruct (IHe3 _ Gf Ha1) as (E3 & G3). split.
      + intros rho J; simpl. now rewrite (E1 _ J), (E2 _ J), (E3 _ J).
      + simpl. now rewrite G1, G2, G3.
    - inv_bind H. inversion H; subst. apply mapM_ok in Ha.
      assert (K : Forall2 (fun x y => (forall rho, Inv rho -> eval rho y = eval rho x) /\ gexp visible plen pbool pint [] y = true) l a).
      { revert G H0. clear H. induction Ha; intros G F; constructor.
        - simpl in G. apply andb_true_iff in G. destruct G. inversion F; subst. auto.
        - simpl in G. apply andb_true_iff in G. destruct G. inversion F; subst. auto. }
      split.
      + intros rho J. simpl. f_equal. apply all_some_map_ext. clear - K J. induction K; constructor; auto. destruct H. auto.
      + simpl. clear - K. induction K; simpl; auto. destruct H as [_ ->]. auto.
    - inv_bind H. inversion H; subst. apply mapM_ok in Ha.
      assert (K : Forall2 (fun x y => (forall rho, Inv rho -> eval rho y = eval rho x) /\ gexp visible plen pbool pint [] y = true) l a).
      { revert G H0. clear H. induction Ha; intros G F; constructor.
        - simpl in G. apply andb_true_iff in G. destruct G. inversion F; subst. auto.
        - simpl in G. apply andb_true_iff in G. destruct G. inversion F; subst. auto. }
      split.
      + intros rho J. simpl. f_equal. apply all_some_map_ext. clear - K J. induction K; constructor; auto. destruct H. auto.
      + simpl. clear - K. induction K; simpl; auto. destruct H as [_ ->]. auto.
    - apply andb_true_iff in G; destruct G as [Gv Gs].
      destruct e2; try discriminate.
      + simpl in Gs. rewrite andb_false_r in Gs. discriminate.
      + cbn [rw_subscript] in H. inversion H; subst. split; auto. cbn [gexp]. now rewrite Gv, Gs.
    - apply orb_true_iff in G. destruct G as [G|Gt].
      2:{ (* len(a) / sum(a) of a typed tuple argument *)
          destruct (typed_call_inv _ _ _ Gt) as (y & n & -> & Vy & Py & Hf).
          destruct (S _ _ Py) as (tl & Hty & Ltl). destruct (conf0 _ _ Py) as (vals & Hv & Lv).
          assert (Pry : prot y = true) by (unfold M_A2A.prot; now rewrite Py).
          destruct (visible_inv _ Vy) as (Dy & _).
          assert (Fv : forall rho, Inv rho ->
                       Forall2 (fun r v => eval rho r = Some v) (map (access1 y) (List.seq 0 (List.length tl))) vals).
          { intros rho J. replace (List.length tl) with (List.length vals) by congruence.
            apply (access_vals y rho [] vals). simpl. rewrite (J y Pry). exact Hv. }
          destruct Hf as [->|[[-> Ln]|[[Hf [Ln Pb]]|[Hf [Ln Pk]]]]].
          - cbn [rw_exp mapM bind] in H. rewrite Dy in H. cbn [bind mapM] in H.
            change (String.eqb "len" "print" || String.eqb "len" "range") with false in H.
            change (String.eqb "len" "len") with true in H. cbv iota in H.
            unfold unroll_arg in H. rewrite Hty in H. simpl in H. inversion H; subst e'. split; auto.
            intros rho J. rewrite map_length, seq_length. cbn [M_A2A.eval map all_some]. rewrite (J y Pry), Hv.
            simpl. change (builtin_val "len" [VTup vals]) with (Some (VInt (Z.of_nat (List.length vals)))). congruence.
          - cbn [rw_exp mapM bind] in H. rewrite Dy in H. cbn [bind mapM] in H.
            change (String.eqb "sum" "print" || String.eqb "sum" "range") with false in H.
            change (String.eqb "sum" "len") with false in H. change (String.eqb "sum" "sum") with true in H.
            cbv iota in H. unfold unroll_arg in H. rewrite Hty in H. simpl in H. split.
            + intros rho J.
              assert (L2 : (2 <= List.length (map (access1 y) (List.seq 0 (List.length tl))))%nat).
              { rewrite map_length, seq_length. lia. }
              rewrite (sum_chain_eval rho _ _ _ (Fv rho J) L2 H). simpl. rewrite (J y Pry), Hv. simpl.
              change (builtin_val "sum" [VTup vals]) with
                (option_map (fun zs => VInt (fold_left Z.add zs 0%Z)) (all_some (map as_int vals))).
              destruct (all_some (map as_int vals)) as [zs|] eqn:Az; simpl; auto.
              rewrite fold_left_add. repeat f_equal.
            + apply (sum_chain_gexp visible [] _ _) in H; auto.
              clear - Vy. induction (List.seq 0 (List.length tl)); simpl; auto. now rewrite Vy, IHl.
          - (* all / any *)
            destruct (confb0 _ Pb) as (vals' & Hv' & Bv). rewrite Hv in Hv'. inversion Hv'; subst vals'.
            assert (Ne : map (access1 y) (List.seq 0 (List.length tl)) <> []).
            { destruct tl; simpl in *; [lia|discriminate]. }
            assert (Gl : forallb (gexp visible plen pbool pint []) (map (access1 y) (List.seq 0 (List.length tl))) = true).
            { clear - Vy. induction (List.seq 0 (List.length tl)); simpl; auto. now rewrite Vy, IHl. }
            destruct Hf as [->| ->].
            + cbn [rw_exp mapM bind] in H. rewrite Dy in H. cbn [bind mapM] in H.
              unfold unroll_arg in H. rewrite Hty in H. vm_compute String.eqb in H. cbn in H.
              inversion H; subst e'. split; [|exact Gl].
              intros rho J. cbn [M_A2A.eval]. rewrite (boolop_bools rho And _ _ (Fv rho J) Bv Ne).
              cbn [map all_some M_A2A.eval]. rewrite (J y Pry), Hv. reflexivity.
            + cbn [rw_exp mapM bind] in H. rewrite Dy in H. cbn [bind mapM] in H.
              unfold unroll_arg in H. rewrite Hty in H. vm_compute String.eqb in H. cbn in H.
              inversion H; subst e'. split; [|exact Gl].
              intros rho J. cbn [M_A2A.eval]. rewrite (boolop_bools rho Or _ _ (Fv rho J) Bv Ne).
              cbn [map all_some M_A2A.eval]. rewrite (J y Pry), Hv. reflexivity.
          - (* min / max *)
            assert (K : forallb is_vbool vals = true \/ forallb is_vint vals = true).
            { destruct Pk as [Pb|Pi].
              - left. destruct (confb0 _ Pb) as (vals' & Hv' & Bv). rewrite Hv in Hv'. now inversion Hv'; subst.
              - right. destruct (confi0 _ Pi) as (vals' & Hv' & Bv). rewrite Hv in Hv'. now inversion Hv'; subst. }
            destruct (kinds_as_int _ K) as (zs & Az).
            assert (Ne : map (access1 y) (List.seq 0 (List.length tl)) <> []).
            { destruct tl; simpl in *; [lia|discriminate]. }
            assert (Gl : forallb (gexp visible plen pbool pint []) (map (access1 y) (List.seq 0 (List.length tl))) = true).
            { clear - Vy. induction (List.seq 0 (List.length tl)); simpl; auto. now rewrite Vy, IHl. }
            assert (MM : forall (is_max : bool),
                      f = (if is_max then "max" else "min") ->
                      minmax_chain (if is_max then M_A2A.Gt else LtE) (map (access1 y) (List.seq 0 (List.length tl))) = Ok e' ->
                      (forall rho, Inv rho -> eval rho e' = eval rho (ECall f [EName y])) /\
                      gexp visible plen pbool pint [] e' = true).
            { intros is_max Ef Hc. split; [|apply (minmax_chain_gexp visible [] _ _ _ Gl Hc)].
              intros rho J.
              destruct (minmax_chain_ext rho is_max _ _ zs e' (Fv rho J) Az Ne Hc) as (v & m & Ev & Iv & Am & Em).
              rewrite Ev. cbn [M_A2A.eval map all_some]. rewrite (J y Pry), Hv. cbn [option_map].
              destruct vals as [|v0 rest]; [simpl in Lv; lia|].
              simpl in Az. destruct (as_int v0) as [z0|] eqn:A0; try discriminate.
              destruct (all_some (map as_int rest)) as [zr|] eqn:Ar; try discriminate. simpl in Az. inversion Az; subst zs.
              destruct (extreme_some is_max rest zr v0 z0 Ar) as (v' & Ex).
              destruct (extreme_ext is_max rest zr v0 z0 [z0] v' A0 Ar) as (m' & Am' & Em' & Iv'); auto.
              { split; [left; auto|]. intros z [<-|[]]. destruct is_max; lia. }
              assert (Em2 : m = m') by (apply (is_ext_unique is_max (z0 :: zr)); auto).
              subst m'.
              assert (Evv : v = v').
              { apply (same_kind_eq (v0 :: rest) v v' m K); auto. destruct Iv' as [->|Iv']; [left|right]; auto. }
              subst v'. subst f. destruct is_max.
              { change (Some v = extreme_of true (v0 :: rest)). unfold extreme_of. rewrite A0. exact (eq_sym Ex). }
              { change (Some v = extreme_of false (v0 :: rest)). unfold extreme_of. rewrite A0. exact (eq_sym Ex). } }
            destruct Hf as [->| ->].
            + cbn [rw_exp mapM bind] in H. rewrite Dy in H. cbn [bind mapM] in H.
              unfold unroll_arg in H. rewrite Hty in H. vm_compute String.eqb in H. cbn in H.
              apply (MM false eq_refl H).
            + cbn [rw_exp mapM bind] in H. rewrite Dy in H. cbn [bind mapM] in H.
              unfold unroll_arg in H. rewrite Hty in H. vm_compute String.eqb in H. cbn in H.
              apply (MM true eq_refl H). }
      apply andb_true_iff in G; destruct G as [Gf Ga]. apply negb_true_iff in Gf.
      destruct (special_false _ Gf) as (F1 & F2 & F3 & F4 & F5 & F6 & F7 & F8 & F9 & F10 & F11).
      assert (Hs : is_seqfun f = false).
      { unfold is_seqfun. cbn [existsb]. rewrite F1, F2, F3, F4, F5, F6. reflexivity. }
      assert (H' : bind (mapM (rw_exp st) args) (fun args' => Ok (ECall f args')) = Ok e').
      { rewrite F1, F2, F3, F4, F5, F6, F8, F9, F10, F11 in H. cbn [orb] in H.
        destruct args as [|x0 [|y0 r0]]; [exact H| |destruct x0; exact H].
        destruct x0; try exact H. rewrite Hs, andb_false_r in H. exact H. }
      clear H. rename H' into H. inv_bind H. inversion H; subst.
      apply mapM_ok in Ha.
      assert (K : Forall2 (fun x y => (forall rho, Inv rho -> eval rho y = eval rho x) /\ gexp visible plen pbool pint [] y = true) args a).
      { revert Ga H0. clear H. induction Ha; intros G F; constructor.
        - simpl in G. apply andb_true_iff in G. destruct G. inversion F; subst. auto.
        - simpl in G. apply andb_true_iff in G. destruct G. inversion F; subst. auto. }
      split.
      + intros rho J. simpl.
        replace (all_some (map (eval rho) a)) with (all_some (map (eval rho) args)); auto.
        apply all_some_map_ext. clear - K J. induction K; constructor; auto. destruct H as [H _]. symmetry. auto.
      + cbn [gexp]. rewrite Gf. apply orb_true_iff. left. simpl. clear - K. induction K; simpl; auto. destruct H as [_ ->]. auto.
  Qed.

  Lemma rw_args_sound st args args' :
    st_ok st -> forallb (gexp visible plen pbool pint []) args = true -> mapM (rw_exp st) args = Ok args' ->
    (forall rho, Inv rho -> all_some (map (eval rho) args') = all_some (map (eval rho) args)) /\
    forallb (gexp visible plen pbool pint []) args' = true.
  Proof.
    intro S. revert args'; induction args as [|a r IH]; intros args' G H; simpl in H.
    - inversion H; subst; auto.
    - simpl in G. apply andb_true_iff in G; destruct G as [Ga Gr].
      inv_bind H. inv_bind H. inversion H; subst.
      destruct (rw_exp_sound st _ S _ Ga Ha) as (E1 & G1). destruct (IH _ Gr Ha0) as (E2 & G2).
      split.
      + intros rho J. simpl. now rewrite (E1 _ J), (E2 _ J).
      + simpl. now rewrite G1, G2.
  Qed.
End RwExp.

(* ------------------------------------------------------------------ *)
(* NameValReplacer with a constant                                     *)
(* ------------------------------------------------------------------ *)
Fixpoint notup (s : stmt) : bool :=
  match s with
  | SAssign (TTuple _) _ => false
  | SIf _ b o => forallb notup b && forallb notup o
  | SFor _ _ b o => forallb notup b && forallb notup o
  | _ => true
  end.

Lemma multi_notup s : forall l, multi_stmt s = Ok l -> forallb notup l = true.
Proof.
  assert (S : forall v names k, forallb notup (singles v names k) = true).
  { intros v names; induction names; intro k; simpl; auto. }
  assert (F : forall b, Forall (fun s => forall l, multi_stmt s = Ok l -> forallb notup l = true) b ->
                        forall b', flat_mapM multi_stmt b = Ok b' -> forallb notup b' = true).
  { induction 1; intros b' H1; simpl in H1.
    - inversion H1; auto.
    - inv_bind H1. inv_bind H1. inversion H1; subst. rewrite forallb_app, (H _ Ha), (IHForall _ Ha0). auto. }
  induction s as [t e|x op e|c b o Hb Ho|x it b fo Hb Hfo|e|e] using stmt_ind2; intros l H; cbn [multi_stmt] in H.
  - destruct t.
    + inversion H; auto.
    + inv_bind H. destruct e; try (destruct (existsb _ a)); inversion H; subst; simpl; auto using S.
  - inversion H; auto.
  - inv_bind H. inv_bind H. inversion H; subst. simpl. now rewrite (F _ Hb _ Ha), (F _ Ho _ Ha0).
  - inv_bind H. inv_bind H. inversion H; subst. simpl. now rewrite (F _ Hb _ Ha), (F _ Hfo _ Ha0).
  - inversion H; auto.
  - inversion H; auto.
Qed.

Lemma multi_list_notup b b' : multi_list b = Ok b' -> forallb notup b' = true.
Proof.
  unfold multi_list. revert b'. induction b; intros b' H; simpl in H.
  - inversion H; auto.
  - inv_bind H. inv_bind H. inversion H; subst. rewrite forallb_app, (multi_notup _ _ Ha), (IHb _ Ha0). auto.
Qed.

(* every bound name is unprotected *)
Fixpoint tgt_ok (s : stmt) : bool :=
  match s with
  | SAssign (TName y) _ => negb (prot y)
  | SAssign (TTuple _) _ => true
  | SAugAssign y _ _ => negb (prot y)
  | SIf _ b o => forallb tgt_ok b && forallb tgt_ok o
  | SFor y _ b o => negb (prot y) && forallb tgt_ok b && forallb tgt_ok o
  | _ => true
  end.

Section Subst.
  Variable ext : string -> list val -> option val.
  Notation eval := (eval ext).
  Notation exec := (exec ext).
  Notation exec_list := (exec_list ext).
  Notation iter_vals := (iter_vals ext).
  Variable x : string.
  (* the expression [re] the loop variable [x] is replaced by; [w] its value *)
  Variable re : exp.
  Variable w : val.
  Hypothesis re_stable : forall rho y v, String.eqb y x = false -> prot y = false ->
                                         eval (upd rho y v) re = eval rho re.
  Hypothesis re_not_call : forall g, is_call g re = None.
  Definition St (rho : env) : Prop := rho x = Some w /\ eval rho re = Some w.

  Lemma St_upd rho y v : St rho -> String.eqb y x = false -> prot y = false -> St (upd rho y v).
  Proof.
    intros [S1 S2] E Py. split.
    - unfold upd. now rewrite E.
    - now rewrite re_stable.
  Qed.

  Lemma subst_exp_sound e : forall e' rho,
    subst_exp x re e = Ok e' -> St rho -> eval rho e' = eval rho e.
  Proof.
    induction e as [y|k|e IHe|op l H0|op e1 e2 IHe1 IHe2|op e IHe|op e1 e2 IHe1 IHe2|e1 e2 e3 IHe1 IHe2 IHe3|l H0|l H0|e1 e2 IHe1 IHe2|f args H0]
      using exp_ind2; intros e' rho H X; cbn [subst_exp] in H.
    - inversion H; subst. destruct (String.eqb y x) eqn:E; auto.
      apply String.eqb_eq in E. subst. simpl. destruct X as [X1 X2]. now rewrite X1, X2.
    - inversion H; auto.
    - inv_bind H. inversion H; subst. simpl. eauto.
    - inv_bind H. inversion H; subst. apply mapM_ok in Ha. simpl. apply boolop_with_ext.
      revert H0. clear H. induction Ha; intro F; constructor; inversion F; subst; eauto.
    - inv_bind H. inv_bind H. inversion H; subst. simpl. now rewrite (IHe1 _ _ Ha X), (IHe2 _ _ Ha0 X).
    - inv_bind H. inversion H; subst. simpl. now rewrite (IHe _ _ Ha X).
    - inv_bind H. inv_bind H. inversion H; subst. simpl. now rewrite (IHe1 _ _ Ha X), (IHe2 _ _ Ha0 X).
    - inv_bind H. inv_bind H. inv_bind H. inversion H; subst. simpl.
      now rewrite (IHe1 _ _ Ha X), (IHe2 _ _ Ha0 X), (IHe3 _ _ Ha1 X).
    - inv_bind H. inversion H; subst. apply mapM_ok in Ha. simpl. f_equal. apply all_some_map_ext.
      revert H0. clear H. induction Ha; intro F; constructor; inversion F; subst; eauto.
    - inv_bind H. inversion H; subst. apply mapM_ok in Ha. simpl. f_equal. apply all_some_map_ext.
      revert H0. clear H. induction Ha; intro F; constructor; inversion F; subst; eauto.
    - inv_bind H. inv_bind H. inversion H; subst. simpl. now rewrite (IHe1 _ _ Ha X), (IHe2 _ _ Ha0 X).
    - destruct (String.eqb f x); try discriminate. inv_bind H. inversion H; subst. apply mapM_ok in Ha. simpl.
      replace (all_some (map (eval rho) a)) with (all_some (map (eval rho) args)); auto.
      apply all_some_map_ext. revert H0. clear H. induction Ha; intro F; constructor; inversion F; subst; auto.
      symmetry; eauto.
  Qed.

  Lemma subst_args_sound args args' rho :
    mapM (subst_exp x re) args = Ok args' -> St rho ->
    all_some (map (eval rho) args') = all_some (map (eval rho) args).
  Proof.
    intros H X. apply mapM_ok in H. apply all_some_map_ext.
    induction H; constructor; eauto using subst_exp_sound.
  Qed.

  (* whether the expression is a call of [g] is not changed *)
  Lemma subst_is_call g e e' :
    subst_exp x re e = Ok e' ->
    match is_call g e with
    | Some args => exists args', is_call g e' = Some args' /\ mapM (subst_exp x re) args = Ok args'
    | None => is_call g e' = None
    end.
  Proof.
    destruct e; cbn [subst_exp]; intro H;
      try (inv_bind H); try (inv_bind H); try (inv_bind H); try (inversion H; subst; reflexivity).
    - inversion H. destruct (String.eqb x0 x); simpl; auto.
    - destruct (String.eqb f x); try discriminate. inv_bind H. inversion H; subst.
      rewrite !is_call_call. destruct (String.eqb f g); eauto.
  Qed.

  Lemma subst_iter_sound it it' rho :
    subst_exp x re it = Ok it' -> St rho -> iter_vals rho it' = iter_vals rho it.
  Proof.
    intros H X. pose proof (subst_is_call "range" _ _ H) as K.
    destruct (is_call "range" it) as [args|] eqn:Ci.
    - destruct K as (args' & Ci' & Ha). apply is_call_some in Ci, Ci'. subst.
      rewrite !iter_vals_range. now rewrite (subst_args_sound _ _ _ Ha X).
    - rewrite !iter_vals_other by auto. now rewrite (subst_exp_sound _ _ _ H X).
  Qed.

  Definition subst_spec (s : stmt) : Prop :=
    forall inner s', notup s = true -> tgt_ok s = true -> subst_stmt inner x re s = Ok s' ->
    forall rho, St rho ->
                exec s' rho = exec s rho /\ (forall rho1 r, exec s rho = Some (rho1, r) -> St rho1).

  Lemma subst_list_sound b : Forall subst_spec b ->
    forall inner b', forallb notup b = true -> forallb tgt_ok b = true -> mapM (subst_stmt inner x re) b = Ok b' ->
    forall rho, St rho ->
                exec_list b' rho = exec_list b rho /\
                (forall rho1 r, exec_list b rho = Some (rho1, r) -> St rho1).
  Proof.
    induction 1 as [|s r Hs Hr IH]; intros inner b' N T H rho X; simpl in H.
    - inversion H; subst. split; auto. intros rho1 r1 E. inversion E; subst; auto.
    - simpl in N. apply andb_true_iff in N; destruct N as [Ns Nr].
      simpl in T. apply andb_true_iff in T; destruct T as [Ts Tr].
      inv_bind H. inv_bind H. inversion H; subst.
      destruct (Hs _ _ Ns Ts Ha rho X) as (E1 & P1).
      rewrite !exec_list_cons, E1.
      destruct (exec s rho) as [[r1 [v|]]|] eqn:Es.
      + split; auto; intros rho1 r2 E; inversion E; subst; eauto.
      + destruct (IH _ _ Nr Tr Ha0 r1 (P1 _ _ eq_refl)) as (E2 & P2). split; auto.
      + split; auto; discriminate.
  Qed.

  Lemma upd_other rho y v : String.eqb y x = false -> upd rho y v x = rho x.
  Proof. unfold upd. intros ->. reflexivity. Qed.

  Lemma subst_stmt_sound s : subst_spec s.
  Proof.
    induction s as [t e|y op e|k b o Hb Ho|y it b fo Hb Hfo|e|e] using stmt_ind2; intros inner s' N T H rho X;
      cbn [subst_stmt] in H; cbn [tgt_ok] in T.
    - destruct t as [y|tl]; [|discriminate].
      destruct (String.eqb y x) eqn:Eyx; [destruct inner; discriminate|].
      inv_bind H. inversion H; subst. simpl. rewrite (subst_exp_sound _ _ _ Ha X). split; auto.
      intros rho1 r E. destruct (eval rho e); try discriminate. inversion E; subst.
      apply St_upd; auto. now apply negb_true_iff.
    - destruct (String.eqb y x) eqn:Eyx; [destruct inner; discriminate|].
      inv_bind H. inversion H; subst. simpl. rewrite (subst_exp_sound _ _ _ Ha X). split; auto.
      intros rho1 r E. destruct (rho y); try discriminate. destruct (eval rho e); try discriminate.
      destruct (binop_val op v v0); try discriminate. simpl in E. inversion E; subst.
      apply St_upd; auto. now apply negb_true_iff.
    - simpl in N. apply andb_true_iff in N; destruct N as [Nb No].
      apply andb_true_iff in T; destruct T as [Tb To].
      inv_bind H. inv_bind H. inv_bind H. inversion H; subst.
      rewrite !exec_if, (subst_exp_sound _ _ _ Ha X).
      destruct (subst_list_sound _ Hb _ _ Nb Tb Ha0 rho X) as (Eb & Pb).
      destruct (subst_list_sound _ Ho _ _ No To Ha1 rho X) as (Eo & Po).
      destruct (eval rho k) as [v|]; [|split; [auto|discriminate]].
      destruct (truthy v); split; auto.
    - simpl in N. apply andb_true_iff in N; destruct N as [N No].
      apply andb_true_iff in T; destruct T as [T To]. apply andb_true_iff in T; destruct T as [Ty Tb].
      apply negb_true_iff in Ty.
      destruct (String.eqb y x) eqn:Eyx; [destruct inner; discriminate|].
      inv_bind H. inv_bind H. inv_bind H. inversion H; subst.
      rewrite !exec_for, (subst_iter_sound _ _ _ Ha X).
      destruct (iter_vals rho it) as [vs|]; [|split; [auto|discriminate]].
      assert (L : loop_with (exec_list a0) y vs rho = loop_with (exec_list b) y vs rho /\
                  (forall rho1 r, loop_with (exec_list b) y vs rho = Some (rho1, r) -> St rho1)).
      { clear Ha. revert rho X. induction vs as [|v vs IHv]; intros rho X; simpl.
        + split; auto. intros rho1 r E; inversion E; subst; auto.
        + assert (X' : St (upd rho y v)) by (apply St_upd; auto).
          destruct (subst_list_sound _ Hb _ _ N Tb Ha0 _ X') as (Eb & Pb). rewrite Eb.
          destruct (exec_list b (upd rho y v)) as [[r1 [u|]]|] eqn:Es.
          * split; auto; intros rho1 r2 E; inversion E; subst; eauto.
          * apply IHv. eauto.
          * split; auto; discriminate. }
      destruct L as (L1 & L2). unfold seq. rewrite L1.
      destruct (loop_with (exec_list b) y vs rho) as [[r1 [u|]]|] eqn:El.
      + split; auto; intros rho1 r2 E; inversion E; subst; eauto.
      + apply (subst_list_sound _ Hfo _ _ No To Ha1 r1). eauto.
      + split; auto; discriminate.
    - inv_bind H. inversion H; subst. simpl. rewrite (subst_exp_sound _ _ _ Ha X). split; auto.
      intros rho1 r E. destruct (eval rho e); try discriminate. inversion E; subst. auto.
    - destruct e as [e|].
      + inv_bind H. inversion H; subst. cbn [M_A2A.exec].
        pose proof (subst_is_call "print" _ _ Ha) as K.
        destruct (is_call "print" e) as [args|] eqn:Ci.
        * destruct K as (args' & -> & Ha'). rewrite (subst_args_sound _ _ _ Ha' X). split; auto.
          intros rho1 r E. destruct (all_some (map (eval rho) args)); try discriminate. inversion E; subst; auto.
        * rewrite K, (subst_exp_sound _ _ _ Ha X). split; auto.
          intros rho1 r E. destruct (eval rho e); try discriminate. inversion E; subst; auto.
      + inversion H; subst. split; auto. intros rho1 r E. simpl in E. inversion E; subst; auto.
  Qed.

  Lemma subst_body_sound inner b b' rho :
    forallb notup b = true -> forallb tgt_ok b = true -> mapM (subst_stmt inner x re) b = Ok b' -> St rho ->
    exec_list b' rho = exec_list b rho.
  Proof.
    intros N T H X. apply (subst_list_sound b) with (inner := inner); auto.
    apply Forall_forall. intros s _. apply subst_stmt_sound.
  Qed.
End Subst.

Lemma forallb_Forall2 {A B} (P : A -> bool) (Q : B -> bool) (R : A -> B -> Prop) l l' :
  Forall2 R l l' -> Forall (fun a => forall b, P a = true -> R a b -> Q b = true) l ->
  forallb P l = true -> forallb Q l' = true.
Proof.
  induction 1 as [|a b l l' Rab F IH]; intros Fa G; simpl in *; auto.
  apply andb_true_iff in G; destruct G as [Ga Gl]. inversion Fa; subst.
  rewrite (H1 _ Ga Rab), IH; auto.
Qed.

(* the guard after the substitution: one loop variable less *)
Section SubstGuard.
  Variable okn : string -> bool.
  Variable x : string.
  Variable c : cst.
  Hypothesis Vc : valued c = true.
  Hypothesis Px : M_A2A.prot plen x = false.

  Lemma subst_exp_guard l1 l2 e : forall e',
    gexp okn plen pbool pint (l1 ++ x :: l2) e = true -> subst_exp x (EConst c) e = Ok e' -> gexp okn plen pbool pint (l1 ++ l2) e' = true.
  Proof.
    induction e as [y|k|e IHe|op l H0|op e1 e2 IHe1 IHe2|op e IHe|op e1 e2 IHe1 IHe2|e1 e2 e3 IHe1 IHe2 IHe3|l H0|l H0|e1 e2 IHe1 IHe2|f args H0]
      using exp_ind2; intros e' G H; cbn [gexp subst_exp] in G, H.
    - inversion H; subst. destruct (String.eqb y x); auto.
    - inversion H; subst; auto.
    - discriminate.
    - inv_bind H. inversion H; subst. apply mapM_ok in Ha. cbn [gexp].
      apply (forallb_Forall2 _ _ _ _ _ Ha H0 G).
    - apply andb_true_iff in G; destruct G as [G Gb]. apply andb_true_iff in G; destruct G as [Gop Ga].
      inv_bind H. inv_bind H. inversion H; subst. cbn [gexp]. now rewrite Gop, (IHe1 _ Ga Ha), (IHe2 _ Gb Ha0).
    - inv_bind H. inversion H; subst. cbn [gexp]. eauto.
    - apply andb_true_iff in G; destruct G as [Ga Gb].
      inv_bind H. inv_bind H. inversion H; subst. cbn [gexp]. now rewrite (IHe1 _ Ga Ha), (IHe2 _ Gb Ha0).
    - apply andb_true_iff in G; destruct G as [G Gf]. apply andb_true_iff in G; destruct G as [Gc Gt].
      inv_bind H. inv_bind H. inv_bind H. inversion H; subst. cbn [gexp].
      now rewrite (IHe1 _ Gc Ha), (IHe2 _ Gt Ha0), (IHe3 _ Gf Ha1).
    - inv_bind H. inversion H; subst. apply mapM_ok in Ha. cbn [gexp].
      apply (forallb_Forall2 _ _ _ _ _ Ha H0 G).
    - inv_bind H. inversion H; subst. apply mapM_ok in Ha. cbn [gexp].
      apply (forallb_Forall2 _ _ _ _ _ Ha H0 G).
    - apply andb_true_iff in G; destruct G as [Gv Gs].
      inv_bind H. inv_bind H. inversion H; subst. cbn [gexp]. rewrite (IHe1 _ Gv Ha). simpl.
      destruct e2; try discriminate; cbn [subst_exp] in Ha0; inversion Ha0; subst.
      + apply andb_true_iff in Gs; destruct Gs as [Gx Gl].
        destruct (String.eqb x0 x) eqn:E; auto.
        rewrite Gx. simpl. rewrite existsb_app in *. simpl in Gl. rewrite E in Gl. exact Gl.
      + exact Gs.
    - apply orb_true_iff in G. destruct G as [G|Gt].
      2:{ destruct (typed_call_inv _ _ _ Gt) as (y & n & -> & Oy & Py & _).
          destruct (String.eqb f x); try discriminate. cbn [mapM subst_exp bind] in H.
          destruct (String.eqb y x) eqn:E.
          - apply String.eqb_eq in E. subst y. unfold M_A2A.prot in Px. rewrite Py in Px. discriminate.
          - inversion H; subst. cbn [gexp]. rewrite Gt. apply orb_true_r. }
      apply andb_true_iff in G; destruct G as [Gf Ga].
      destruct (String.eqb f x); try discriminate. inv_bind H. inversion H; subst. cbn [gexp]. rewrite Gf. apply orb_true_iff; left. simpl.
      apply mapM_ok in Ha. apply (forallb_Forall2 _ _ _ _ _ Ha H0 Ga).
  Qed.

  Lemma subst_args_guard l1 l2 args args' :
    forallb (gexp okn plen pbool pint (l1 ++ x :: l2)) args = true -> mapM (subst_exp x (EConst c)) args = Ok args' ->
    forallb (gexp okn plen pbool pint (l1 ++ l2)) args' = true.
  Proof.
    intros G H. apply mapM_ok in H. revert G. induction H; intro G; simpl in *; auto.
    apply andb_true_iff in G; destruct G. rewrite (subst_exp_guard _ _ _ _ H1 H), IHForall2; auto.
  Qed.

  Lemma subst_const_list l : forallb valued_const l = true -> mapM (subst_exp x (EConst c)) l = Ok l.
  Proof.
    induction l; simpl; auto. intro H. apply andb_true_iff in H; destruct H as [H1 H2].
    rewrite (IHl H2). destruct a; simpl in *; try discriminate. reflexivity.
  Qed.

  Definition subst_guard_spec (s : stmt) : Prop :=
    forall inner l1 l2 s', notup s = true -> gstmt okn plen pbool pint (l1 ++ x :: l2) s = true ->
                           subst_stmt inner x (EConst c) s = Ok s' ->
                           gstmt okn plen pbool pint (l1 ++ l2) s' = true /\ notup s' = true.

  Lemma subst_list_guard b : Forall subst_guard_spec b ->
    forall inner l1 l2 b', forallb notup b = true -> forallb (gstmt okn plen pbool pint (l1 ++ x :: l2)) b = true ->
                           mapM (subst_stmt inner x (EConst c)) b = Ok b' ->
                           forallb (gstmt okn plen pbool pint (l1 ++ l2)) b' = true /\ forallb notup b' = true.
  Proof.
    induction 1 as [|s r Hs Hr IH]; intros inner l1 l2 b' N G H; simpl in H.
    - inversion H; auto.
    - simpl in N, G. apply andb_true_iff in N; destruct N as [Ns Nr]. apply andb_true_iff in G; destruct G as [Gs Gr].
      inv_bind H. inv_bind H. inversion H; subst.
      destruct (Hs _ _ _ _ Ns Gs Ha) as (G1 & N1). destruct (IH _ _ _ _ Nr Gr Ha0) as (G2 & N2).
      simpl. now rewrite G1, N1, G2, N2.
  Qed.

  Lemma subst_stmt_guard s : subst_guard_spec s.
  Proof.
    induction s as [t e|y op e|k b o Hb Ho|y it b fo Hb Hfo|e|e] using stmt_ind2; intros inner l1 l2 s' N G H;
      cbn [subst_stmt gstmt] in G, H.
    - destruct t as [y|tl]; [|discriminate].
      destruct (String.eqb y x); [destruct inner; discriminate|].
      apply andb_true_iff in G; destruct G as [Gy Ge].
      inv_bind H. inversion H; subst. cbn [gstmt notup]. now rewrite Gy, (subst_exp_guard _ _ _ _ Ge Ha).
    - destruct (String.eqb y x); [destruct inner; discriminate|].
      apply andb_true_iff in G; destruct G as [G Ge]. apply andb_true_iff in G; destruct G as [Gy Gop].
      inv_bind H. inversion H; subst. cbn [gstmt notup]. now rewrite Gy, Gop, (subst_exp_guard _ _ _ _ Ge Ha).
    - simpl in N. apply andb_true_iff in N; destruct N as [Nb No].
      apply andb_true_iff in G; destruct G as [G Go]. apply andb_true_iff in G; destruct G as [Gc Gb].
      inv_bind H. inv_bind H. inv_bind H. inversion H; subst.
      destruct (subst_list_guard _ Hb _ _ _ _ Nb Gb Ha0) as (G1 & N1).
      destruct (subst_list_guard _ Ho _ _ _ _ No Go Ha1) as (G2 & N2).
      cbn [gstmt notup]. now rewrite (subst_exp_guard _ _ _ _ Gc Ha), G1, G2, N1, N2.
    - simpl in N. apply andb_true_iff in N; destruct N as [N No].
      destruct (String.eqb y x) eqn:Eyx; [destruct inner; discriminate|].
      apply andb_true_iff in G; destruct G as [G Go]. apply andb_true_iff in G; destruct G as [G Gb].
      apply andb_true_iff in G; destruct G as [G Gn]. apply andb_true_iff in G; destruct G as [Gy Gi].
      inv_bind H. inv_bind H. inv_bind H. inversion H; subst.
      destruct (subst_list_guard _ Hfo inner l1 l2 _ No Go Ha1) as (G2 & N2).
      assert (K : giter okn plen pbool pint (l1 ++ l2) a = true /\ name_iter plen a = name_iter plen it).
      { unfold giter in *. pose proof (subst_is_call x (EConst c) (fun _ => eq_refl) "range" _ _ Ha) as K.
        destruct (is_call "range" it) as [args|] eqn:Ci.
        - destruct K as (args' & Ci' & Ha'). rewrite Ci'. split; [apply (subst_args_guard _ _ _ _ Gi Ha')|].
          apply is_call_some in Ci, Ci'. subst. reflexivity.
        - rewrite K. assert (a = it).
          { apply orb_true_iff in Gi. destruct Gi as [Gi|Gi].
            - destruct it; simpl in Gi; try discriminate; cbn [subst_exp] in Ha;
                rewrite (subst_const_list _ Gi) in Ha; simpl in Ha; inversion Ha; subst; auto.
            - destruct it; simpl in Gi; try discriminate. destruct (M_A2A.prot plen x0) eqn:Pz; try discriminate.
              cbn [subst_exp] in Ha. destruct (String.eqb x0 x) eqn:E.
              + apply String.eqb_eq in E. subst. congruence.
              + inversion Ha; auto. }
          subst a. split; auto. }
      destruct K as (Gi' & En).
      cbn [gstmt notup]. rewrite Gy, Gi', N2, G2, En. unfold body_lv in *. rewrite En.
      destruct (name_iter plen it) eqn:Ni.
      + destruct (subst_list_guard _ Hb true l1 l2 _ N Gb Ha0) as (G1 & N1). rewrite G1, N1.
        rewrite existsb_app in *. simpl in Gn. rewrite Eyx in Gn. simpl in Gn. rewrite Gn. auto.
      + destruct (subst_list_guard _ Hb true (y :: l1) l2 _ N Gb Ha0) as (G1 & N1). simpl in G1. rewrite G1, N1. auto.
    - inv_bind H. inversion H; subst. cbn [gstmt notup]. split; auto. apply (subst_exp_guard _ _ _ _ G Ha).
    - destruct e as [e|].
      + inv_bind H. inversion H; subst. cbn [gstmt notup]. split; auto. apply (subst_exp_guard _ _ _ _ G Ha).
      + inversion H; subst. auto.
  Qed.

  Lemma subst_body_guard inner lv b b' :
    forallb notup b = true -> forallb (gstmt okn plen pbool pint (x :: lv)) b = true ->
    mapM (subst_stmt inner x (EConst c)) b = Ok b' ->
    forallb (gstmt okn plen pbool pint lv) b' = true /\ forallb notup b' = true.
  Proof.
    intros N G H. apply (subst_list_guard b) with (inner := inner) (l1 := []) (l2 := lv); auto.
    apply Forall_forall. intros s _. apply subst_stmt_guard.
  Qed.
End SubstGuard.

(* the guard after the substitution of the variable of a loop over a typed argument: the element
   expression a[k] may stand wherever the variable stood (it never indexes a subscript) *)
Section SubstGuardT.
  Variable okn : string -> bool.
  Variable x : string.
  Variable re : exp.
  Hypothesis Gre : forall lv, gexp okn plen pbool pint lv re = true.
  Hypothesis re_not_call : forall g, is_call g re = None.
  Hypothesis Px : M_A2A.prot plen x = false.

  Lemma subst_exp_guardT lv e : forall e',
    existsb (String.eqb x) lv = false ->
    gexp okn plen pbool pint lv e = true -> subst_exp x re e = Ok e' -> gexp okn plen pbool pint lv e' = true.
  Proof.
    intros e' Nx. revert e'.
    induction e as [y|k|e IHe|op l H0|op e1 e2 IHe1 IHe2|op e IHe|op e1 e2 IHe1 IHe2|e1 e2 e3 IHe1 IHe2 IHe3|l H0|l H0|e1 e2 IHe1 IHe2|f args H0]
      using exp_ind2; intros e' G H; cbn [gexp subst_exp] in G, H.
    - inversion H; subst. destruct (String.eqb y x); auto.
    - inversion H; subst; auto.
    - discriminate.
    - inv_bind H. inversion H; subst. apply mapM_ok in Ha. cbn [gexp].
      apply (forallb_Forall2 _ _ _ _ _ Ha H0 G).
    - apply andb_true_iff in G; destruct G as [G Gb]. apply andb_true_iff in G; destruct G as [Gop Ga].
      inv_bind H. inv_bind H. inversion H; subst. cbn [gexp]. now rewrite Gop, (IHe1 _ Ga Ha), (IHe2 _ Gb Ha0).
    - inv_bind H. inversion H; subst. cbn [gexp]. eauto.
    - apply andb_true_iff in G; destruct G as [Ga Gb].
      inv_bind H. inv_bind H. inversion H; subst. cbn [gexp]. now rewrite (IHe1 _ Ga Ha), (IHe2 _ Gb Ha0).
    - apply andb_true_iff in G; destruct G as [G Gf]. apply andb_true_iff in G; destruct G as [Gc Gt].
      inv_bind H. inv_bind H. inv_bind H. inversion H; subst. cbn [gexp].
      now rewrite (IHe1 _ Gc Ha), (IHe2 _ Gt Ha0), (IHe3 _ Gf Ha1).
    - inv_bind H. inversion H; subst. apply mapM_ok in Ha. cbn [gexp].
      apply (forallb_Forall2 _ _ _ _ _ Ha H0 G).
    - inv_bind H. inversion H; subst. apply mapM_ok in Ha. cbn [gexp].
      apply (forallb_Forall2 _ _ _ _ _ Ha H0 G).
    - apply andb_true_iff in G; destruct G as [Gv Gs].
      inv_bind H. inv_bind H. inversion H; subst. cbn [gexp]. rewrite (IHe1 _ Gv Ha). simpl.
      destruct e2; try discriminate; cbn [subst_exp] in Ha0; inversion Ha0; subst.
      + apply andb_true_iff in Gs; destruct Gs as [Gx Gl].
        destruct (String.eqb x0 x) eqn:E.
        * apply String.eqb_eq in E. subst x0. clear - Nx Gl. exfalso.
          congruence.
        * now rewrite Gx, Gl.
      + exact Gs.
    - apply orb_true_iff in G. destruct G as [G|Gt].
      2:{ destruct (typed_call_inv _ _ _ Gt) as (y & n & -> & Oy & Py & _).
          destruct (String.eqb f x); try discriminate. cbn [mapM subst_exp bind] in H.
          destruct (String.eqb y x) eqn:E.
          - apply String.eqb_eq in E. subst y. unfold M_A2A.prot in Px. rewrite Py in Px. discriminate.
          - inversion H; subst. cbn [gexp]. rewrite Gt. apply orb_true_r. }
      apply andb_true_iff in G; destruct G as [Gf Ga].
      destruct (String.eqb f x); try discriminate. inv_bind H. inversion H; subst. cbn [gexp]. rewrite Gf. apply orb_true_iff; left. simpl.
      apply mapM_ok in Ha. apply (forallb_Forall2 _ _ _ _ _ Ha H0 Ga).
  Qed.

  Lemma subst_args_guardT lv args args' :
    existsb (String.eqb x) lv = false ->
    forallb (gexp okn plen pbool pint lv) args = true -> mapM (subst_exp x re) args = Ok args' ->
    forallb (gexp okn plen pbool pint lv) args' = true.
  Proof.
    intros Nx G H. apply mapM_ok in H. revert G. induction H; intro G; simpl in *; auto.
    apply andb_true_iff in G; destruct G. rewrite (subst_exp_guardT _ _ _ Nx H1 H), IHForall2; auto.
  Qed.

  Lemma subst_const_listT l : forallb valued_const l = true -> mapM (subst_exp x re) l = Ok l.
  Proof.
    induction l; simpl; auto. intro H. apply andb_true_iff in H; destruct H as [H1 H2].
    rewrite (IHl H2). destruct a; simpl in *; try discriminate. reflexivity.
  Qed.

  Definition subst_guardT_spec (s : stmt) : Prop :=
    forall inner lv s', notup s = true -> existsb (String.eqb x) lv = false ->
                        gstmt okn plen pbool pint lv s = true -> subst_stmt inner x re s = Ok s' ->
                        gstmt okn plen pbool pint lv s' = true /\ notup s' = true.

  Lemma subst_list_guardT b : Forall subst_guardT_spec b ->
    forall inner lv b', forallb notup b = true -> existsb (String.eqb x) lv = false ->
                        forallb (gstmt okn plen pbool pint lv) b = true -> mapM (subst_stmt inner x re) b = Ok b' ->
                        forallb (gstmt okn plen pbool pint lv) b' = true /\ forallb notup b' = true.
  Proof.
    induction 1 as [|s r Hs Hr IH]; intros inner lv b' N Nx G H; simpl in H.
    - inversion H; auto.
    - simpl in N, G. apply andb_true_iff in N; destruct N as [Ns Nr]. apply andb_true_iff in G; destruct G as [Gs Gr].
      inv_bind H. inv_bind H. inversion H; subst.
      destruct (Hs _ _ _ Ns Nx Gs Ha) as (G1 & N1). destruct (IH _ _ _ Nr Nx Gr Ha0) as (G2 & N2).
      simpl. now rewrite G1, N1, G2, N2.
  Qed.

  Lemma subst_stmt_guardT s : subst_guardT_spec s.
  Proof.
    induction s as [t e|y op e|k b o Hb Ho|y it b fo Hb Hfo|e|e] using stmt_ind2; intros inner lv s' N Nx G H;
      cbn [subst_stmt gstmt] in G, H.
    - destruct t as [y|tl]; [|discriminate].
      destruct (String.eqb y x); [destruct inner; discriminate|].
      apply andb_true_iff in G; destruct G as [Gy Ge].
      inv_bind H. inversion H; subst. cbn [gstmt notup]. now rewrite Gy, (subst_exp_guardT _ _ _ Nx Ge Ha).
    - destruct (String.eqb y x); [destruct inner; discriminate|].
      apply andb_true_iff in G; destruct G as [G Ge]. apply andb_true_iff in G; destruct G as [Gy Gop].
      inv_bind H. inversion H; subst. cbn [gstmt notup]. now rewrite Gy, Gop, (subst_exp_guardT _ _ _ Nx Ge Ha).
    - simpl in N. apply andb_true_iff in N; destruct N as [Nb No].
      apply andb_true_iff in G; destruct G as [G Go]. apply andb_true_iff in G; destruct G as [Gc Gb].
      inv_bind H. inv_bind H. inv_bind H. inversion H; subst.
      destruct (subst_list_guardT _ Hb _ _ _ Nb Nx Gb Ha0) as (G1 & N1).
      destruct (subst_list_guardT _ Ho _ _ _ No Nx Go Ha1) as (G2 & N2).
      cbn [gstmt notup]. now rewrite (subst_exp_guardT _ _ _ Nx Gc Ha), G1, G2, N1, N2.
    - simpl in N. apply andb_true_iff in N; destruct N as [N No].
      destruct (String.eqb y x) eqn:Eyx; [destruct inner; discriminate|].
      apply andb_true_iff in G; destruct G as [G Go]. apply andb_true_iff in G; destruct G as [G Gb].
      apply andb_true_iff in G; destruct G as [G Gn]. apply andb_true_iff in G; destruct G as [Gy Gi].
      inv_bind H. inv_bind H. inv_bind H. inversion H; subst.
      destruct (subst_list_guardT _ Hfo inner lv _ No Nx Go Ha1) as (G2 & N2).
      assert (K : giter okn plen pbool pint lv a = true /\ name_iter plen a = name_iter plen it).
      { unfold giter in *. pose proof (subst_is_call x re re_not_call "range" _ _ Ha) as K.
        destruct (is_call "range" it) as [args|] eqn:Ci.
        - destruct K as (args' & Ci' & Ha'). rewrite Ci'. split; [apply (subst_args_guardT _ _ _ Nx Gi Ha')|].
          apply is_call_some in Ci, Ci'. subst. reflexivity.
        - rewrite K. assert (a = it).
          { apply orb_true_iff in Gi. destruct Gi as [Gi|Gi].
            - destruct it; simpl in Gi; try discriminate; cbn [subst_exp] in Ha;
                rewrite (subst_const_listT _ Gi) in Ha; simpl in Ha; inversion Ha; subst; auto.
            - destruct it; simpl in Gi; try discriminate. destruct (M_A2A.prot plen x0) eqn:Pz; try discriminate.
              cbn [subst_exp] in Ha. destruct (String.eqb x0 x) eqn:E.
              + apply String.eqb_eq in E. subst. congruence.
              + inversion Ha; auto. }
          subst a. split; auto. }
      destruct K as (Gi' & En).
      cbn [gstmt notup]. rewrite Gy, Gi', N2, G2, En, Gn. unfold body_lv in *. rewrite En.
      destruct (name_iter plen it) eqn:Ni.
      + destruct (subst_list_guardT _ Hb true lv _ N Nx Gb Ha0) as (G1 & N1). rewrite G1, N1. auto.
      + assert (Nx' : existsb (String.eqb x) (y :: lv) = false).
        { simpl. rewrite String.eqb_sym, Eyx. exact Nx. }
        destruct (subst_list_guardT _ Hb true (y :: lv) _ N Nx' Gb Ha0) as (G1 & N1). rewrite G1, N1. auto.
    - inv_bind H. inversion H; subst. cbn [gstmt notup]. split; auto. apply (subst_exp_guardT _ _ _ Nx G Ha).
    - destruct e as [e|].
      + inv_bind H. inversion H; subst. cbn [gstmt notup]. split; auto. apply (subst_exp_guardT _ _ _ Nx G Ha).
      + inversion H; subst. auto.
  Qed.

  Lemma subst_body_guardT inner b b' :
    forallb notup b = true -> forallb (gstmt okn plen pbool pint []) b = true ->
    mapM (subst_stmt inner x re) b = Ok b' ->
    forallb (gstmt okn plen pbool pint []) b' = true /\ forallb notup b' = true.
  Proof.
    intros N G H. apply (subst_list_guardT b) with (inner := inner) (lv := []); auto.
    apply Forall_forall. intros s _. apply subst_stmt_guardT.
  Qed.
End SubstGuardT.

(* ------------------------------------------------------------------ *)
(* ASTRewriter on statements                                           *)
(* ------------------------------------------------------------------ *)
Section Rw.
  Variable ext : string -> list val -> option val.
  Notation eval := (eval ext).
  Notation exec := (exec ext).
  Notation exec_list := (exec_list ext).
  Notation iter_vals := (iter_vals ext).

  (* what the rewriter emits: assignments to names, Return, Expr; a target `_iftargK` has
     lo < K <= hi (the counter before / after) *)
  Definition stmt_shape (lo hi : N) (s : stmt) : Prop :=
    match s with
    | SAssign (TName y) _ =>
        prot y = false /\ (is_iftarg y = true -> exists k, (lo < k <= hi)%N /\ y = iftarg_name k)
    | SReturn _ | SExpr _ => True
    | _ => False
    end.
  Definition shape lo hi (l : list stmt) : Prop := Forall (stmt_shape lo hi) l.

  Lemma tmp_not_prot x : prot (tmp x) = false.
  Proof. apply not_user_not_prot. unfold user_name. now rewrite tmp_dunder. Qed.
  Lemma iftarg_not_prot u : prot (iftarg_name u) = false.
  Proof.
    apply not_user_not_prot. unfold user_name, reserved. fold (is_iftarg (iftarg_name u)).
    rewrite iftarg_is. rewrite orb_true_r. simpl. rewrite ?andb_false_r. reflexivity.
  Qed.

  Lemma shape_mono lo hi lo' hi' l : (lo' <= lo)%N -> (hi <= hi')%N -> shape lo hi l -> shape lo' hi' l.
  Proof.
    intros L1 L2 S. induction S as [|s l Hs Hl IH]; constructor; auto.
    destruct s as [[y|]| | | | |]; simpl in *; auto.
    destruct Hs as [Hp Hs]. split; auto.
    intro I. destruct (Hs I) as (k & K & E). exists k. split; auto. lia.
  Qed.

  Lemma shape_app lo hi l1 l2 : shape lo hi l1 -> shape lo hi l2 -> shape lo hi (l1 ++ l2).
  Proof. apply Forall_app_intro || (intros; apply Forall_app; auto). Qed.

  Definition target_of (s : stmt) : option string :=
    match s with SAssign (TName y) _ => Some y | _ => None end.

  Lemma shape_fresh lo hi l u :
    shape lo hi l -> (hi < u)%N -> Forall (fun b => target_of b <> Some (iftarg_name u)) l.
  Proof.
    intros S L. induction S as [|s l Hs Hl IH]; constructor; auto.
    destruct s as [[y|]| | | | |]; simpl in *; try discriminate.
    intro E. inversion E; subst y. destruct Hs as [_ Hs]. destruct (Hs (iftarg_is u)) as (k & K & Ek).
    apply iftarg_inj in Ek. lia.
  Qed.

  Lemma seq_assoc (a b c : env -> outcome) rho : seq (seq a b) c rho = seq a (seq b c) rho.
  Proof. unfold seq. destruct (a rho) as [[r [v|]]|]; auto. Qed.

  (* ---------- self-referencing assignments and augmented assignments ---------- *)
  Lemma bsim_tmp x e v :
    visible x = true -> prot x = false -> gexp visible plen pbool pint [] e = true ->
    (forall rho, Inv rho -> eval rho v = eval rho e) ->
    bsim visible (exec (SAssign (TName x) e))
                 (exec_list [SAssign (TName (tmp x)) v; SAssign (TName x) (EName (tmp x))]).
  Proof.
    intros Vx Px G E rho rho' o' J R H.
    rewrite exec_list_cons in H. cbn [M_A2A.exec] in H. rewrite (E _ J) in H.
    cbn [M_A2A.exec]. rewrite (eval_agree ext visible [] e rho rho' G R).
    destruct (eval rho' e) as [w|]; try discriminate.
    rewrite exec_list_single in H. cbn [M_A2A.exec M_A2A.eval] in H.
    unfold upd at 1 in H. rewrite String.eqb_refl in H. inversion H; subst.
    exists (upd rho x w, None). split; auto. split; [split|]; simpl; auto.
    - apply Ragree_upd. apply Ragree_upd_r; auto. apply tmp_invisible.
    - apply Inv_upd; auto. apply Inv_upd; auto. apply tmp_not_prot.
  Qed.

  Lemma aug_as_assign x op e rho :
    exec (SAugAssign x op e) rho = exec (SAssign (TName x) (EBinOp op (EName x) e)) rho.
  Proof.
    simpl. destruct (rho x) as [a|]; auto; destruct (eval rho e) as [b|]; auto;
      destruct (binop_val op a b); auto.
  Qed.

  Lemma assign_env_ok st x e st1 e1 :
    st_ok st -> gexp visible plen pbool pint [] e = true -> assign_env st x e = Ok (st1, e1) ->
    uq st1 = uq st /\ (forall rho, Inv rho -> eval rho e1 = eval rho e) /\ gexp visible plen pbool pint [] e1 = true.
  Proof.
    intros S G H.
    assert (T : forall l, (e = ETuple l \/ e = EList l) ->
                uq st1 = uq st /\ (forall rho, Inv rho -> eval rho e1 = eval rho e) /\ gexp visible plen pbool pint [] e1 = true).
    { intros l El. assert (H' : bind (rw_exp st e) (fun r1 =>
                 if Bool.eqb (name_in x e) (name_in x r1) then Ok (set_constant st x r1, r1) else Unmod) = Ok (st1, e1)).
      { destruct El; subst e; exact H. }
      inv_bind H'. destruct (Bool.eqb _ _); try discriminate. inversion H'; subst.
      destruct (rw_exp_sound ext st _ S _ G Ha) as (E1 & G1). split; auto.
      unfold set_constant. destruct e1; destruct (has_key (tys st) x); reflexivity. }
    destruct e; try (eapply T; eauto; fail); simpl in H.
    - destruct (in_env st x0).
      + destruct (assoc (tys st) x0); inversion H; subst. split; [reflexivity|split; auto].
      + inversion H; subst. split; [reflexivity|split; auto].
    - inversion H; subst. split; [|split; auto]. destruct (has_key (tys st) x); reflexivity.
    - discriminate G.
    - inversion H; subst. split; [reflexivity|split; auto].
    - inversion H; subst. split; [reflexivity|split; auto].
    - inversion H; subst. split; [reflexivity|split; auto].
    - inversion H; subst. split; [reflexivity|split; auto].
    - inversion H; subst. split; [reflexivity|split; auto].
    - inversion H; subst. split; [reflexivity|split; auto].
    - inversion H; subst. split; [reflexivity|split; auto].
  Qed.

  Lemma one_shape lo hi x e : visible x = true -> prot x = false -> stmt_shape lo hi (SAssign (TName x) e).
  Proof. intros V Px. split; auto. intro I. destruct (visible_inv _ V). congruence. Qed.

  Lemma tmp_shape lo hi x e : stmt_shape lo hi (SAssign (TName (tmp x)) e).
  Proof.
    split; [apply tmp_not_prot|].
    intro I. pose proof (tmp_dunder x) as D. unfold is_iftarg, dunder, iftarg_prefix, tmp in *.
    simpl in *. destruct x as [|a s]; simpl in *; discriminate.
  Qed.

  Lemma assign_env_st st x e st1 e1 :
    prot x = false -> assign_env st x e = Ok (st1, e1) -> st_ok st -> st_ok st1.
  Proof.
    intros Px H S.
    assert (T : forall l, (e = ETuple l \/ e = EList l) -> st_ok st1).
    { intros l El. assert (H' : bind (rw_exp st e) (fun r1 =>
                 if Bool.eqb (name_in x e) (name_in x r1) then Ok (set_constant st x r1, r1) else Unmod) = Ok (st1, e1)).
      { destruct El; subst e; exact H. }
      inv_bind H'. destruct (Bool.eqb _ _); try discriminate. inversion H'; subst.
      apply st_ok_set_constant; auto. }
    destruct e; try (eapply T; eauto; fail); simpl in H;
      try (inversion H; subst; apply st_ok_set_type; auto; fail).
    - destruct (in_env st x0).
      + destruct (assoc (tys st) x0); inversion H; subst. apply st_ok_set_type; auto.
      + inversion H; subst. apply st_ok_set_type; auto.
    - inversion H; subst. apply (st_ok_set_constant st x (EConst c)); auto.
    - inversion H; subst. apply (st_ok_set_constant st x (EConstNode e)); auto.
  Qed.

  Lemma tmp_guard x a :
    prot x = false -> gexp anyn plen pbool pint [] a = true ->
    forallb (gstmt anyn plen pbool pint []) [SAssign (TName (tmp x)) a; SAssign (TName x) (EName (tmp x))] = true.
  Proof.
    intros Px Ga. cbn [forallb gstmt gexp]. rewrite Ga. unfold okt, anyn. rewrite tmp_not_prot, Px. reflexivity.
  Qed.

  Lemma rw_assign_sound st x e l st' :
    st_ok st -> visible x = true -> prot x = false -> gexp visible plen pbool pint [] e = true ->
    rw_assign st x e = Ok (l, st') ->
    uq st' = uq st /\ shape (uq st) (uq st') l /\ forallb (gstmt anyn plen pbool pint []) l = true /\
    bsim visible (exec (SAssign (TName x) e)) (exec_list l) /\ st_ok st'.
  Proof.
    intros S Vx Px G H. unfold rw_assign in H. inv_bind H. destruct a as [st1 e1]. inv_bind H.
    pose proof (assign_env_st _ _ _ _ _ Px Ha S) as Sst.
    destruct (assign_env_ok _ _ _ _ _ S G Ha) as (U & E1 & G1).
    destruct (rw_exp_sound ext st1 _ Sst _ G1 Ha0) as (E2 & G2).
    assert (Ev : forall rho, Inv rho -> eval rho a = eval rho e) by (intros rho J; now rewrite (E2 _ J), (E1 _ J)).
    assert (Ga : gexp anyn plen pbool pint [] a = true) by (apply (gexp_mono visible anyn); auto).
    destruct (is_seq_lit e && negb (exp_eqb a e1)); try discriminate.
    destruct (name_in x e1 && in_env st x && negb (is_constant e)); inversion H; subst.
    - split; auto. split; [|split; [|split]]; auto.
      + constructor; [apply tmp_shape|constructor; [apply one_shape; auto|constructor]].
      + exact (tmp_guard x a Px Ga).
      + apply bsim_tmp; auto.
    - split; auto. split; [|split; [|split]]; auto.
      + constructor; [apply one_shape; auto|constructor].
      + cbn [forallb gstmt]. rewrite Ga. unfold okt, anyn. rewrite Px. reflexivity.
      + apply bsim_single. apply (bsim_assign ext visible []); auto.
  Qed.

  (* ---------- if-flattening ---------- *)
  (* how visit_If wraps a statement of the (already rewritten) body / orelse *)
  Definition WB (t : string) (b wb : stmt) : Prop :=
    exists y e o, b = SAssign (TName y) e /\ wb = SAssign (TName y) (EIfExp (EName t) e (EName o)) /\
                  (visible y = true -> o = y).
  Definition WE (t : string) (b wb : stmt) : Prop :=
    exists y e, b = SAssign (TName y) e /\
                ((wb = b /\ visible y = false) \/
                 exists o, wb = SAssign (TName y) (EIfExp (EName t) (EName o) e) /\ (visible y = true -> o = y)).

  Lemma wrap_body_WB st t l bl : mapM (wrap_body st t) l = Ok bl -> Forall2 (WB t) l bl.
  Proof.
    intro H. apply mapM_ok in H. induction H as [|b wb l bl H Hl IH]; constructor; auto.
    destruct b as [[y|]| | | | |]; simpl in H; try discriminate. inversion H; subst.
    exists y, e, (if dunder y && negb (in_env st y) then drop2 y else y). split; auto. split; auto.
    intro V. destruct (visible_inv _ V) as [D _]. now rewrite D.
  Qed.

  Lemma wrap_else_WE st t l ol : mapM (wrap_else st t) l = Ok ol -> Forall2 (WE t) l ol.
  Proof.
    intro H. apply mapM_ok in H. induction H as [|b wb l ol H Hl IH]; constructor; auto.
    destruct b as [[y|]| | | | |]; simpl in H; try discriminate. exists y, e. split; auto.
    destruct (dunder y && negb (in_env st y)) eqn:D.
    - inversion H; subst. right. exists (drop2 y). split; auto. intro V.
      destruct (visible_inv _ V) as [D' _]. rewrite D' in D. discriminate.
    - destruct (is_iftarg y) eqn:I; inversion H; subst.
      + left. split; auto. unfold visible. rewrite I. destruct (dunder y); reflexivity.
      + right. exists y. auto.
  Qed.

  Lemma WB_shape t lo hi l bl : Forall2 (WB t) l bl -> shape lo hi l -> shape lo hi bl.
  Proof.
    induction 1 as [|b wb l bl Hb Hl IH]; intro S; inversion S as [|? ? S1 S2]; subst; constructor.
    - destruct Hb as (y0 & e & o & -> & -> & _). exact S1.
    - apply IH. exact S2.
  Qed.

  Lemma WE_shape t lo hi l ol : Forall2 (WE t) l ol -> shape lo hi l -> shape lo hi ol.
  Proof.
    induction 1 as [|b wb l bl Hb Hl IH]; intro S; inversion S as [|? ? S1 S2]; subst; constructor.
    - destruct Hb as (y0 & e & -> & [[-> _]|(o & -> & _)]); exact S1.
    - apply IH. exact S2.
  Qed.

  Lemma WB_guard t l bl : Forall2 (WB t) l bl -> forallb (gstmt anyn plen pbool pint []) l = true -> forallb (gstmt anyn plen pbool pint []) bl = true.
  Proof.
    induction 1; intro G; simpl in *; auto. apply andb_true_iff in G; destruct G as [G1 G2].
    rewrite IHForall2 by auto. destruct H as (y0 & e & o & -> & -> & _). simpl in *.
    apply andb_true_iff in G1; destruct G1 as [G1a G1b]. now rewrite G1a, G1b.
  Qed.

  Lemma WE_guard t l ol : Forall2 (WE t) l ol -> forallb (gstmt anyn plen pbool pint []) l = true -> forallb (gstmt anyn plen pbool pint []) ol = true.
  Proof.
    induction 1; intro G; simpl in *; auto. apply andb_true_iff in G; destruct G as [G1 G2].
    rewrite IHForall2 by auto. destruct H as (y0 & e & -> & [[-> _]|(o & -> & _)]); simpl in *.
    - now rewrite G1.
    - apply andb_true_iff in G1; destruct G1 as [G1a G1b]. now rewrite G1a, G1b.
  Qed.

  Lemma upd_keep rho y v t : y <> t -> upd rho y v t = rho t.
  Proof. intro N. unfold upd. destruct (String.eqb y t) eqn:E; auto. apply String.eqb_eq in E. congruence. Qed.

  (* the test is true: the wrapped body is the body *)
  Lemma WB_true t vc l bl : Forall2 (WB t) l bl -> truthy vc = true ->
    Forall (fun b => target_of b <> Some t) l ->
    forall rho, rho t = Some vc -> exec_list bl rho = exec_list l rho.
  Proof.
    induction 1 as [|b wb l bl Hb Hl IH]; intros T F rho X; auto.
    inversion F as [|? ? F1 F2]; subst. destruct Hb as (y & e & o & -> & -> & _).
    rewrite !exec_list_cons. cbn [M_A2A.exec M_A2A.eval]. rewrite X, T.
    destruct (eval rho e) as [w|]; auto. apply IH; auto.
    rewrite upd_keep; auto. simpl in F1. congruence.
  Qed.

  (* the test is false: the wrapped orelse is the orelse *)
  Lemma WE_false t vc l ol : Forall2 (WE t) l ol -> truthy vc = false ->
    Forall (fun b => target_of b <> Some t) l ->
    forall rho, rho t = Some vc -> exec_list ol rho = exec_list l rho.
  Proof.
    induction 1 as [|b wb l ol Hb Hl IH]; intros T F rho X; auto.
    inversion F as [|? ? F1 F2]; subst. destruct Hb as (y & e & -> & [[-> _]|(o & -> & _)]).
    - rewrite !exec_list_cons. cbn [M_A2A.exec].
      destruct (eval rho e) as [w|]; auto. apply IH; auto.
      rewrite upd_keep; auto. simpl in F1. congruence.
    - rewrite !exec_list_cons. cbn [M_A2A.exec M_A2A.eval]. rewrite X, T.
      destruct (eval rho e) as [w|]; auto. apply IH; auto.
      rewrite upd_keep; auto. simpl in F1. congruence.
  Qed.

  (* the test is false: the wrapped body changes no visible name *)
  Lemma WB_false t vc l bl : Forall2 (WB t) l bl -> truthy vc = false ->
    Forall (fun b => target_of b <> Some t) l ->
    forall rho o', rho t = Some vc -> exec_list bl rho = Some o' ->
    snd o' = None /\ (forall z, visible z = true -> fst o' z = rho z) /\ fst o' t = Some vc.
  Proof.
    induction 1 as [|b wb l bl Hb Hl IH]; intros T F rho o' X H.
    - inversion H; subst. simpl. auto.
    - inversion F as [|? ? F1 F2]; subst. destruct Hb as (y & e & o & -> & -> & Vo).
      rewrite exec_list_cons in H. cbn [M_A2A.exec M_A2A.eval] in H. rewrite X, T in H.
      destruct (rho o) as [u|] eqn:Ro; try discriminate.
      assert (Nt : y <> t) by (simpl in F1; congruence).
      destruct (IH T F2 (upd rho y u) o') as (S1 & S2 & S3); auto.
      { rewrite upd_keep; auto. }
      split; auto. split; auto.
      intros z Vz. rewrite (S2 z Vz). unfold upd. destruct (String.eqb y z) eqn:E; auto.
      apply String.eqb_eq in E. subst z. rewrite (Vo Vz) in Ro. auto.
  Qed.

  (* the test is true: the wrapped orelse changes no visible name *)
  Lemma WE_true t vc l ol : Forall2 (WE t) l ol -> truthy vc = true ->
    Forall (fun b => target_of b <> Some t) l ->
    forall rho o', rho t = Some vc -> exec_list ol rho = Some o' ->
    snd o' = None /\ (forall z, visible z = true -> fst o' z = rho z).
  Proof.
    induction 1 as [|b wb l ol Hb Hl IH]; intros T F rho o' X H.
    - inversion H; subst. simpl. auto.
    - inversion F as [|? ? F1 F2]; subst. destruct Hb as (y & e & -> & [[-> Vy]|(o & -> & Vo)]).
      + rewrite exec_list_cons in H. cbn [M_A2A.exec] in H.
        destruct (eval rho e) as [u|]; try discriminate.
        assert (Nt : y <> t) by (simpl in F1; congruence).
        destruct (IH T F2 (upd rho y u) o') as (S1 & S2); auto.
        { rewrite upd_keep; auto. }
        split; auto. intros z Vz. rewrite (S2 z Vz). unfold upd. destruct (String.eqb y z) eqn:E; auto.
        apply String.eqb_eq in E. subst z. congruence.
      + rewrite exec_list_cons in H. cbn [M_A2A.exec M_A2A.eval] in H. rewrite X, T in H.
        destruct (rho o) as [u|] eqn:Ro; try discriminate.
        assert (Nt : y <> t) by (simpl in F1; congruence).
        destruct (IH T F2 (upd rho y u) o') as (S1 & S2); auto.
        { rewrite upd_keep; auto. }
        split; auto. intros z Vz. rewrite (S2 z Vz). unfold upd. destruct (String.eqb y z) eqn:E; auto.
        apply String.eqb_eq in E. subst z. rewrite (Vo Vz) in Ro. auto.
  Qed.

  (* an assignment list does not touch a name that is none of its targets *)
  Lemma exec_keeps t l : Forall (fun b => target_of b <> Some t) l ->
    Forall (fun b => exists lo hi, stmt_shape lo hi b) l ->
    forall rho rho1 r, exec_list l rho = Some (rho1, r) -> rho1 t = rho t.
  Proof.
    induction 1 as [|b l Hb Hl IH]; intros S rho rho1 r H.
    - inversion H; subst; auto.
    - inversion S; subst. rewrite exec_list_cons in H.
      destruct (exec b rho) as [[r2 [v|]]|] eqn:Eb; try discriminate.
      + inversion H; subst. destruct b as [[y|]| | | | |]; simpl in Eb; destruct H2 as (lo & hi & Sh); simpl in Sh; try contradiction.
        * destruct (eval rho e); discriminate.
        * destruct (eval rho e); inversion Eb; subst; auto.
        * destruct e as [e|]; [|discriminate]. destruct (is_call "print" e).
          -- destruct (all_some _); discriminate.
          -- destruct (eval rho e); discriminate.
      + rewrite (IH H3 _ _ _ H).
        destruct b as [[y|]| | | | |]; simpl in Eb; destruct H2 as (lo & hi & Sh); simpl in Sh; try contradiction.
        * destruct (eval rho e); inversion Eb; subst. apply upd_keep. simpl in Hb. congruence.
        * destruct (eval rho e); discriminate.
        * destruct e as [e|]; [|inversion Eb; auto]. destruct (is_call "print" e).
          -- destruct (all_some _); inversion Eb; auto.
          -- destruct (eval rho e); inversion Eb; auto.
  Qed.

  Lemma shape_any lo hi l : shape lo hi l -> Forall (fun b => exists lo hi, stmt_shape lo hi b) l.
  Proof. induction 1; constructor; eauto. Qed.

  (* the rewriter's output never binds a protected name *)
  Lemma exec_shape_inv l : Forall (fun b => exists lo hi, stmt_shape lo hi b) l ->
    forall rho rho1 r, exec_list l rho = Some (rho1, r) -> Inv rho -> Inv rho1.
  Proof.
    induction 1 as [|b l Hb Hl IH]; intros rho rho1 r H J.
    - inversion H; subst; auto.
    - rewrite exec_list_cons in H. destruct Hb as (lo & hi & Sh).
      destruct b as [[y|]| | | | |]; simpl in Sh; try contradiction; cbn [M_A2A.exec] in H.
      + destruct Sh as [Py _]. destruct (eval rho e); try discriminate. apply (IH _ _ _ H). apply Inv_upd; auto.
      + destruct (eval rho e); try discriminate. inversion H; subst; auto.
      + destruct e as [e|]; [|apply (IH _ _ _ H J)].
        destruct (is_call "print" e).
        * destruct (all_some _); try discriminate. apply (IH _ _ _ H J).
        * destruct (eval rho e); try discriminate. apply (IH _ _ _ H J).
  Qed.
End Rw.

Section RwMain.
  Variable ext : string -> list val -> option val.
  Notation eval := (eval ext).
  Notation exec := (exec ext).
  Notation exec_list := (exec_list ext).
  Notation iter_vals := (iter_vals ext).

  Definition rw_post (st : rstate) (l : list stmt) (st' : rstate) (f : env -> outcome) : Prop :=
    (uq st <= uq st')%N /\ shape (uq st) (uq st') l /\ forallb (gstmt anyn plen pbool pint []) l = true /\
    bsim visible f (exec_list l) /\ st_ok st'.

  Definition rw_spec (n : nat) : Prop :=
    forall s st l st', gstmt visible plen pbool pint [] s = true -> notup s = true -> st_ok st ->
                       rw_stmt n st s = Ok (l, st') -> rw_post st l st' (exec s).
  Definition rw_list_spec (n : nat) : Prop :=
    forall b st l st', forallb (gstmt visible plen pbool pint []) b = true -> forallb notup b = true -> st_ok st ->
                       rw_list_with (rw_stmt n) st b = Ok (l, st') -> rw_post st l st' (exec_list b).

  Lemma rw_list_of_spec n : rw_spec n -> rw_list_spec n.
  Proof.
    intros IH b. induction b as [|s r IHb]; intros st l st' G N S H; simpl in H.
    - inversion H; subst. split; [apply N.le_refl|]. split; [constructor|]. split; [reflexivity|].
      split; auto. exact (bsim_nil visible).
    - simpl in G, N. apply andb_true_iff in G; destruct G as [Gs Gr]. apply andb_true_iff in N; destruct N as [Ns Nr].
      inv_bind H. destruct a as [l1 st1]. inv_bind H. destruct a as [l2 st2]. inversion H; subst.
      destruct (IH _ _ _ _ Gs Ns S Ha) as (U1 & S1 & G1 & B1 & T1).
      destruct (IHb _ _ _ Gr Nr T1 Ha0) as (U2 & S2 & G2 & B2 & T2).
      split; [lia|]. split; [|split; [|split]]; auto.
      + apply shape_app; [apply (shape_mono (uq st) (uq st1)) | apply (shape_mono (uq st1) (uq st'))]; auto; lia.
      + now rewrite forallb_app, G1, G2.
      + apply bsim_list_cons; auto.
  Qed.

  (* ---------- what the guard says about bound names ---------- *)
  Lemma gstmt_tgt_ok okn s : forall lv, gstmt okn plen pbool pint lv s = true -> tgt_ok s = true.
  Proof.
    induction s as [t e|x op e|c b o Hb Ho|x it b fo Hb Hfo|e|e] using stmt_ind2; intros lv G;
      cbn [gstmt tgt_ok] in *; auto.
    - destruct t as [x|tl]; auto. apply andb_true_iff in G; destruct G as [Gx _].
      destruct (okt_inv _ _ Gx) as (_ & Px). now rewrite Px.
    - apply andb_true_iff in G; destruct G as [G _]. apply andb_true_iff in G; destruct G as [Gx _].
      destruct (okt_inv _ _ Gx) as (_ & Px). now rewrite Px.
    - apply andb_true_iff in G; destruct G as [G Go]. apply andb_true_iff in G; destruct G as [_ Gb].
      assert (forallb tgt_ok b = true) as ->.
      { clear - Hb Gb. induction Hb; simpl in *; auto. apply andb_true_iff in Gb; destruct Gb. rewrite (H lv), IHHb; auto. }
      clear - Ho Go. induction Ho; simpl in *; auto. apply andb_true_iff in Go; destruct Go. rewrite (H lv), IHHo; auto.
    - apply andb_true_iff in G; destruct G as [G Go]. apply andb_true_iff in G; destruct G as [G Gb].
      apply andb_true_iff in G; destruct G as [G _]. apply andb_true_iff in G; destruct G as [Gx _].
      destruct (okt_inv _ _ Gx) as (_ & Px). rewrite Px. simpl.
      assert (forallb tgt_ok b = true) as ->.
      { clear - Hb Gb. induction Hb; simpl in *; auto. apply andb_true_iff in Gb; destruct Gb.
        rewrite (H _ H0), IHHb; auto. }
      clear - Hfo Go. induction Hfo; simpl in *; auto. apply andb_true_iff in Go; destruct Go. rewrite (H lv), IHHfo; auto.
  Qed.

  Lemma glist_tgt_ok okn lv l : forallb (gstmt okn plen pbool pint lv) l = true -> forallb tgt_ok l = true.
  Proof.
    induction l; simpl; auto. intro G. apply andb_true_iff in G; destruct G.
    rewrite (gstmt_tgt_ok okn a lv), IHl; auto.
  Qed.

  Lemma tgt_assigns a s : prot a = true -> tgt_ok s = true -> assigns_name a s = false.
  Proof.
    intro Pa.
    assert (NE : forall y, prot y = false -> String.eqb y a = false).
    { intros y Py. destruct (String.eqb y a) eqn:E; auto. apply String.eqb_eq in E. subst. congruence. }
    induction s as [t e|x op e|c b o Hb Ho|x it b fo Hb Hfo|e|e] using stmt_ind2; intro T;
      cbn [tgt_ok assigns_name] in *; auto.
    - destruct t as [x|tl]; auto. apply NE. now apply negb_true_iff.
    - apply NE. now apply negb_true_iff.
    - apply andb_true_iff in T; destruct T as [Tb To].
      assert (existsb (assigns_name a) b = false) as ->.
      { clear - Hb Tb. induction Hb; simpl in *; auto. apply andb_true_iff in Tb; destruct Tb. rewrite H, IHHb; auto. }
      clear - Ho To. induction Ho; simpl in *; auto. apply andb_true_iff in To; destruct To. rewrite H, IHHo; auto.
    - apply andb_true_iff in T; destruct T as [T To]. apply andb_true_iff in T; destruct T as [_ Tb].
      assert (existsb (assigns_name a) b = false) as ->.
      { clear - Hb Tb. induction Hb; simpl in *; auto. apply andb_true_iff in Tb; destruct Tb. rewrite H, IHHb; auto. }
      clear - Hfo To. induction Hfo; simpl in *; auto. apply andb_true_iff in To; destruct To. rewrite H, IHHfo; auto.
  Qed.

  (* ---------- the elements a guarded loop is unrolled over ---------- *)
  Lemma const_list_inv st l :
    forallb valued_const l = true ->
    exists cs, l = map EConst cs /\ forallb valued cs = true /\ mapM (rw_exp st) l = Ok l.
  Proof.
    induction l as [|a r IH]; intro H; simpl in H.
    - exists []. auto.
    - apply andb_true_iff in H; destruct H as [Ha Hr]. destruct (IH Hr) as (cs & -> & V & M).
      destruct a; simpl in Ha; try discriminate. exists (c :: cs). split; auto. split.
      + simpl. now rewrite Ha, V.
      + simpl. simpl in M. rewrite M. reflexivity.
  Qed.

  Lemma const_vals cs : forallb valued cs = true ->
    exists vs, Forall2 (fun c v => val_of_cst c = Some v) cs vs /\
               forall rho, all_some (map (eval rho) (map EConst cs)) = Some vs.
  Proof.
    induction cs as [|c r IH]; intro H; simpl in H.
    - exists []. split; auto.
    - apply andb_true_iff in H; destruct H as [Hc Hr]. destruct (IH Hr) as (vs & F & E).
      destruct (valued_val _ Hc) as (v & Hv). exists (v :: vs). split; auto.
      intro rho. simpl. rewrite Hv. simpl in E. rewrite E. reflexivity.
  Qed.

  Lemma range_args_vals args zs :
    all_some (map (fun a => match a with
                            | EConst c => match val_of_cst c with Some v => as_int v | None => None end
                            | _ => None end) args) = Some zs ->
    exists vs, (forall rho, all_some (map (eval rho) args) = Some vs) /\ all_some (map as_int vs) = Some zs.
  Proof.
    revert zs; induction args as [|a r IH]; intros zs H; simpl in H.
    - inversion H. exists []. auto.
    - destruct a; try discriminate. destruct (val_of_cst c) as [v|] eqn:Hv; try discriminate.
      destruct (as_int v) as [z|] eqn:Hz; try discriminate.
      destruct (all_some (map _ r)) as [zs'|] eqn:Hr; try discriminate. simpl in H. inversion H; subst.
      destruct (IH _ eq_refl) as (vs & E & A). exists (v :: vs). split.
      + intro rho. simpl. rewrite Hv, E. reflexivity.
      + simpl. rewrite Hz, A. reflexivity.
  Qed.

  (* an element expression: it is substituted for the loop variable as it is, reads no name the
     program may bind, and is no call *)
  Definition elem_ok (r : exp) : Prop :=
    loop_val r = r /\ (forall lv, gexp visible plen pbool pint lv r = true) /\ (forall g, is_call g r = None) /\
    (forall rho y v, prot y = false -> eval (upd rho y v) r = eval rho r).

  Lemma elem_ok_const c : valued c = true -> elem_ok (EConst c).
  Proof. intro V. split; [reflexivity|]. split; [intro; exact V|]. split; [reflexivity|]. reflexivity. Qed.

  Lemma elem_ok_access a k : prot a = true -> visible a = true -> elem_ok (access1 a k).
  Proof.
    intros Pa Va. split; [reflexivity|]. split; [intro lv; simpl; now rewrite Va|]. split; [reflexivity|].
    intros rho y v Py. simpl. unfold upd. destruct (String.eqb y a) eqn:E; auto.
    apply String.eqb_eq in E. subst. congruence.
  Qed.

  Lemma Inv_agree rho rho' : Inv rho' -> Ragree visible rho rho' -> Inv rho.
  Proof. intros J R a Pa. rewrite (R a (user_visible _ (prot_user _ Pa))). auto. Qed.

  Lemma for_iter_sound st it x b pre elems st0 :
    st_ok st -> prot x = false -> giter visible plen pbool pint [] it = true -> forallb tgt_ok b = true ->
    for_iter st it b = Ok (pre, elems, st0) ->
    pre = [] /\ st0 = st /\
    exists vs, Forall elem_ok elems /\
      Forall2 (fun r v => forall rho, Inv rho -> eval rho r = Some v) elems vs /\
      (forall rho rho', Inv rho' -> Ragree visible rho rho' -> iter_vals rho it = Some vs) /\
      (forall r b', List.In r elems -> forallb notup b = true ->
                    forallb (gstmt visible plen pbool pint (body_lv plen x [] it)) b = true ->
                    mapM (subst_stmt false x r) b = Ok b' ->
                    forallb (gstmt visible plen pbool pint []) b' = true /\ forallb notup b' = true).
  Proof.
    intros S Px G T H. unfold for_iter in H. unfold giter in G.
    assert (CONST : forall cs vs, forallb valued cs = true ->
              Forall2 (fun c v => val_of_cst c = Some v) cs vs ->
              name_iter plen it = None ->
              Forall elem_ok (map EConst cs) /\
              Forall2 (fun r v => forall rho, Inv rho -> eval rho r = Some v) (map EConst cs) vs /\
              (forall r b', List.In r (map EConst cs) -> forallb notup b = true ->
                    forallb (gstmt visible plen pbool pint (body_lv plen x [] it)) b = true ->
                    mapM (subst_stmt false x r) b = Ok b' ->
                    forallb (gstmt visible plen pbool pint []) b' = true /\ forallb notup b' = true)).
    { intros cs vs Vc F Ni. split; [|split].
      - clear - Vc. induction cs; simpl in *; constructor.
        + apply andb_true_iff in Vc. destruct Vc. now apply elem_ok_const.
        + apply andb_true_iff in Vc. destruct Vc. auto.
      - clear - F. induction F; simpl; constructor; auto.
      - intros r b' Hin Nb Gb Hs. apply in_map_iff in Hin. destruct Hin as (c & <- & Hc).
        assert (Vc1 : valued c = true) by (rewrite forallb_forall in Vc; auto).
        unfold body_lv in Gb. rewrite Ni in Gb.
        apply (subst_body_guard visible x c Vc1 Px false [] b b' Nb Gb Hs). }
    destruct (is_call "range" it) as [args|] eqn:Ci.
    - apply is_call_some in Ci. subst it. inv_bind H. inv_bind H. inversion H; subst. clear H.
      split; auto. split; auto.
      unfold range_consts in Ha0. inv_bind Ha0.
      destruct (rw_args_sound ext _ _ _ S G Ha) as (E1 & G1).
      destruct (fold_args_sound ext visible [] _ _ G1 Ha1) as (E2 & G2).
      destruct (forallb is_constant a0); try discriminate.
      destruct (all_some (map _ a0)) as [zs|] eqn:Hz; try discriminate.
      destruct (range_of zs) as [l|] eqn:Hr; try discriminate.
      destruct (2000 <? List.length l)%nat; inversion Ha0; subst.
      destruct (range_args_vals _ _ Hz) as (vs & Ev & Az).
      exists (map VInt l).
      assert (Em : map (fun z : Z => EConst (CInt z)) l = map EConst (map CInt l)) by (now rewrite map_map).
      rewrite Em.
      destruct (CONST (map CInt l) (map VInt l)) as (C1 & C2 & C3); auto.
      { clear. induction l; simpl; auto. }
      { clear. induction l; simpl; constructor; auto. }
      split; auto. split; auto. split; auto.
      intros rho rho' J R. rewrite iter_vals_range, <- (E1 _ (Inv_agree _ _ J R)), <- E2, Ev, Az, Hr. reflexivity.
    - inv_bind H. apply orb_true_iff in G. destruct G as [G|G].
      + (* a literal tuple / list of constants *)
        assert (K : exists l, (it = ETuple l \/ it = EList l) /\ forallb valued_const l = true).
        { destruct it; simpl in G; try discriminate; eauto. }
        destruct K as (l & Eit & Vl). destruct (const_list_inv st l Vl) as (cs & El & Vc & M).
        assert (Ea : a = ETuple l).
        { destruct Eit; subst it; cbn [rw_exp] in Ha; rewrite M in Ha; simpl in Ha; now inversion Ha. }
        subst a. simpl in H. inversion H; subst. split; auto. split; auto.
        destruct (const_vals cs Vc) as (vs & F & Ev). exists vs.
        assert (Ni : name_iter plen it = None) by (destruct Eit; subst it; reflexivity).
        destruct (CONST cs vs Vc F Ni) as (C1 & C2 & C3).
        split; auto. split; auto. split; auto.
        intros rho rho' _ _. rewrite iter_vals_other by auto.
        assert (Ee : eval rho it = option_map VTup (all_some (map (eval rho) (map EConst cs)))).
        { destruct Eit; subst it; reflexivity. }
        rewrite Ee, Ev. reflexivity.
      + (* a typed tuple argument *)
        destruct it; simpl in G; try discriminate. rename x0 into y.
        destruct (prot y) eqn:Py; try discriminate.
        destruct (visible_inv _ G) as (Dy & _). cbn [rw_exp] in Ha. rewrite Dy in Ha. inversion Ha; subst a. clear Ha.
        assert (As : existsb (assigns_name y) b = false).
        { clear - Py T. induction b; simpl in *; auto. apply andb_true_iff in T; destruct T.
          rewrite (tgt_assigns y a Py), IHb; auto. }
        rewrite As in H. inv_bind H. inversion H; subst. clear H. split; auto. split; auto.
        destruct (plen y) as [n|] eqn:Ply; [|unfold M_A2A.prot in Py; rewrite Ply in Py; discriminate].
        destruct (S _ _ Ply) as (tl & Hty & Ltl). destruct (conf0 _ _ Ply) as (vals & Hv & Lv).
        unfold unroll_arg in Ha. rewrite Hty in Ha. simpl in Ha. inversion Ha; subst elems. clear Ha.
        exists vals. split; [|split; [|split]].
        * clear - Py G. induction (List.seq 0 (List.length tl)); simpl; constructor; auto using elem_ok_access.
        * rewrite Ltl, <- Lv.
          assert (F : forall rho, Inv rho ->
                      Forall2 (fun r v => eval rho r = Some v) (map (access1 y) (List.seq 0 (List.length vals))) vals).
          { intros rho J. apply (access_vals ext y rho [] vals). simpl. rewrite (J y Py). exact Hv. }
          clear - F. revert F. generalize (map (access1 y) (List.seq 0 (List.length vals))). intros l F.
          assert (F0 := F rho0 (fun _ _ => eq_refl)). clear - F F0.
          revert F. induction F0; intro F; constructor.
          -- intros rho J. specialize (F rho J). inversion F; auto.
          -- apply IHF0. intros rho J. specialize (F rho J). inversion F; auto.
        * intros rho rho' J R. rewrite iter_vals_other by reflexivity. simpl.
          rewrite (R y G), (J y Py), Hv. reflexivity.
        * intros r b' Hin Nb Gb Hs. apply in_map_iff in Hin. destruct Hin as (k & <- & _).
          unfold body_lv in Gb. simpl in Gb. rewrite Py in Gb.
          destruct (elem_ok_access y k Py G) as (_ & Gr & Nc & _).
          apply (subst_body_guardT visible x (access1 y k) Gr Nc Px false b b' Nb Gb Hs).
  Qed.

  Lemma bsim_ext_l P f f' g g' :
    (forall rho rho', Inv rho' -> Ragree P rho rho' -> f rho = f' rho) -> (forall rho, g rho = g' rho) ->
    bsim P f g -> bsim P f' g'.
  Proof. intros Ef Eg B rho rho' o' J R H. rewrite <- Eg in H. rewrite <- (Ef rho rho' J R). eauto. Qed.

  (* ---------- unrolling ---------- *)
  Lemma rolls_sound n (IH : rw_spec n) x b :
    visible x = true -> prot x = false -> forallb notup b = true -> forallb tgt_ok b = true ->
    forall rs vs st l st',
      Forall elem_ok rs ->
      Forall2 (fun r v => forall rho, Inv rho -> eval rho r = Some v) rs vs ->
      (forall r b', List.In r rs -> mapM (subst_stmt false x r) b = Ok b' ->
                    forallb (gstmt visible plen pbool pint []) b' = true /\ forallb notup b' = true) ->
      st_ok st ->
      rolls_with (rw_stmt n) x b rs st = Ok (l, st') ->
      rw_post st l st' (loop_with (exec_list b) x vs).
  Proof.
    intros Vx Px Nb Tb. induction rs as [|r rs IHr]; intros vs st l st' Er F Hsub S H.
    - inversion F; subst. simpl in H. inversion H; subst.
      split; [apply N.le_refl|]. split; [constructor|]. split; [reflexivity|]. split; auto. exact (bsim_nil visible).
    - inversion F as [|? w ? vs' Hw F']; subst. inversion Er as [|? ? Er1 Er2]; subst.
      destruct Er1 as (Lr & Gr & Nc & Stab).
      cbn [rolls_with] in H. rewrite Lr in H.
      inv_bind H. destruct a as [l0 st2]. inv_bind H. inv_bind H. destruct a0 as [l1 st3].
      inv_bind H. destruct a0 as [l2 st4]. inversion H; subst.
      assert (G0 : gstmt visible plen pbool pint [] (SAssign (TName x) r) = true).
      { cbn [gstmt]. unfold okt. now rewrite Vx, Px, (Gr []). }
      assert (S1 : st_ok (set_constant st x r)) by (apply st_ok_set_constant; auto).
      destruct (IH _ _ _ _ G0 eq_refl S1 Ha) as (U0 & S0 & A0 & B0 & T0).
      destruct (Hsub r a (or_introl eq_refl) Ha0) as (Gb' & Nb').
      destruct (rw_list_of_spec n IH _ _ _ _ Gb' Nb' T0 Ha1) as (U1 & S1' & A1 & B1 & T1).
      assert (Hsub' : forall r0 b', List.In r0 rs -> mapM (subst_stmt false x r0) b = Ok b' ->
                                    forallb (gstmt visible plen pbool pint []) b' = true /\ forallb notup b' = true).
      { intros r0 b' Hin. apply Hsub. now right. }
      destruct (IHr _ _ _ _ Er2 F' Hsub' T1 Ha2) as (U2 & S2 & A2 & B2 & T2).
      assert (Us : uq (set_constant st x r) = uq st).
      { unfold set_constant. destruct r; destruct (has_key (tys st) x); reflexivity. }
      rewrite Us in *.
      split; [lia|]. split; [|split; [|split]]; auto.
      + apply shape_app; [|apply shape_app].
        * apply (shape_mono (uq st) (uq st2)); auto; lia.
        * apply (shape_mono (uq st2) (uq st3)); auto; lia.
        * apply (shape_mono (uq st3) (uq st')); auto; lia.
      + now rewrite !forallb_app, A0, A1, A2.
      + eapply bsim_ext_l;
          [| |apply (bsim_seq visible _ _ _ _ (bsim_seq visible _ _ _ _ B0 B1) B2)].
        * intros rho rho' J R. unfold seq. cbn [M_A2A.exec loop_with].
          assert (Evr : eval rho r = Some w).
          { rewrite (eval_agree ext visible [] r rho rho' (Gr []) R). auto. }
          rewrite Evr.
          rewrite (subst_body_sound ext x r w (fun rho y v _ Py => Stab rho y v Py) Nc false b a (upd rho x w) Nb Tb Ha0).
          -- reflexivity.
          -- split.
             ++ unfold upd. now rewrite String.eqb_refl.
             ++ rewrite Stab; auto.
        * intro rho. rewrite seq_assoc. unfold seq. rewrite !exec_list_app.
          destruct (exec_list l0 rho) as [[r1 [v1|]]|]; auto. now rewrite exec_list_app.
  Qed.

  (* ---------- the statement pass ---------- *)
  Lemma rw_stmt_sound n : rw_spec n.
  Proof.
    induction n as [|n IHn]; intros s st l st' G N S H; [discriminate|].
    pose proof (rw_list_of_spec n IHn) as IHl.
    destruct s as [[x|tl] e|x op e|c b o|x it b fo|e|[e|]]; cbn [rw_stmt] in H; cbn [gstmt] in G.
    - (* x = e *)
      apply andb_true_iff in G; destruct G as [Gx Ge]. destruct (okt_inv _ _ Gx) as (Vx & Px).
      destruct (rw_assign_sound ext _ _ _ _ _ S Vx Px Ge H) as (U & Sh & A & B & T).
      split; [lia|]. split; auto.
    - discriminate.
    - (* x op= e *)
      apply andb_true_iff in G; destruct G as [G Ge]. apply andb_true_iff in G; destruct G as [Gx Gop].
      destruct (okt_inv _ _ Gx) as (Vx & Px).
      inv_bind H. inversion H; subst.
      assert (G1 : gexp visible plen pbool pint [] (EBinOp op (EName x) e) = true) by (simpl; now rewrite Gop, Vx, Ge).
      destruct (rw_exp_sound ext st' _ S _ G1 Ha) as (E & G2).
      split; [apply N.le_refl|]. split; [|split; [|split]]; auto.
      + constructor; [apply tmp_shape|constructor; [apply one_shape; auto|constructor]].
      + exact (tmp_guard x a Px (gexp_mono visible anyn [] a (fun _ _ => eq_refl) G2)).
      + eapply bsim_ext; [| |apply (bsim_tmp ext x (EBinOp op (EName x) e) a Vx Px G1 E)]; auto.
        intro rho. symmetry. apply aug_as_assign.
    - (* if *)
      apply andb_true_iff in G; destruct G as [G Go]. apply andb_true_iff in G; destruct G as [Gc Gb].
      simpl in N. apply andb_true_iff in N; destruct N as [Nb No].
      inv_bind H. destruct a as [b' st1]. inv_bind H. destruct a as [o' st2].
      cbv zeta in H. inv_bind H. inv_bind H. inv_bind H. inversion H; subst. clear H.
      destruct (IHl _ _ _ _ Gb Nb S Ha) as (U1 & S1 & A1 & B1 & T1).
      destruct (IHl _ _ _ _ Go No T1 Ha0) as (U2 & S2 & A2 & B2 & T2).
      assert (Sok3 : st_ok (mkst (tys st2) (cns st2) (uq st2 + 1)%N)) by (apply (st_ok_tys st2); auto).
      destruct (rw_exp_sound ext _ _ Sok3 _ Gc Ha1) as (Ec & Gc').
      pose proof (wrap_body_WB _ _ _ _ Ha2) as Wb. pose proof (wrap_else_WE _ _ _ _ Ha3) as We.
      set (u := (uq st2 + 1)%N) in *. set (t := iftarg_name u) in *.
      assert (Fb : Forall (fun s => target_of s <> Some t) b') by (apply (shape_fresh _ _ _ _ S1); lia).
      assert (Fo : Forall (fun s => target_of s <> Some t) o') by (apply (shape_fresh _ _ _ _ S2); lia).
      assert (Sbl : shape (uq st) u a0).
      { apply (WB_shape t _ _ _ _ Wb). apply (shape_mono (uq st) (uq st1)); auto; unfold u; lia. }
      assert (Sol : shape (uq st) u a1).
      { apply (WE_shape t _ _ _ _ We). apply (shape_mono (uq st1) (uq st2)); auto; unfold u; lia. }
      unfold rw_post. cbn [uq]. split; [unfold u; lia|]. split; [|split; [|split]].
      + constructor.
        * split; [apply iftarg_not_prot|]. intros _. exists u. split; auto. unfold u; lia.
        * apply shape_app; auto.
      + cbn [forallb]. rewrite forallb_app, (WB_guard t _ _ Wb A1), (WE_guard t _ _ We A2).
        unfold t. cbn [gstmt]. rewrite (gexp_mono visible anyn [] a (fun _ _ => eq_refl) Gc').
        unfold okt, anyn. rewrite (iftarg_not_prot u). reflexivity.
      + intros rho rho' out' J R H.
        rewrite exec_list_cons in H. cbn [M_A2A.exec] in H. rewrite (Ec _ J) in H.
        rewrite exec_if. rewrite (eval_agree ext visible [] c rho rho' Gc R).
        destruct (eval rho' c) as [vc|]; try discriminate.
        set (rho1 := upd rho' t vc) in *.
        assert (X1 : rho1 t = Some vc) by (unfold rho1, upd; now rewrite String.eqb_refl).
        assert (R1 : Ragree visible rho rho1).
        { apply Ragree_upd_r; auto. apply iftarg_invisible. }
        assert (J1 : Inv rho1) by (apply Inv_upd; auto; apply iftarg_not_prot).
        rewrite exec_list_app in H.
        destruct (truthy vc) eqn:T.
        * rewrite (WB_true ext t vc _ _ Wb T Fb rho1 X1) in H.
          destruct (exec_list b' rho1) as [[r2 [v|]]|] eqn:Eb; try discriminate.
          -- inversion H; subst. apply (B1 _ _ _ J1 R1 Eb).
          -- destruct (B1 _ _ _ J1 R1 Eb) as ([r0 w0] & F0 & (R0 & Ew) & J2). simpl in R0, Ew, J2. subst w0.
             assert (X2 : r2 t = Some vc).
             { rewrite (exec_keeps ext t b' Fb (shape_any _ _ _ S1) _ _ _ Eb). exact X1. }
             destruct (WE_true ext t vc _ _ We T Fo r2 out' X2 H) as (S3 & S4).
             exists (r0, None). split; auto. split; [split|]; simpl; auto.
             ++ intros z Vz. rewrite (S4 z Vz). auto.
             ++ destruct out' as [r3 w3]. apply (exec_shape_inv ext a1 (shape_any _ _ _ Sol) _ _ _ H J2).
        * destruct (exec_list a0 rho1) as [[r2 [v|]]|] eqn:Eb; try discriminate.
          -- destruct (WB_false ext t vc _ _ Wb T Fb rho1 _ X1 Eb) as (S3 & _). discriminate.
          -- destruct (WB_false ext t vc _ _ Wb T Fb rho1 _ X1 Eb) as (_ & S4 & X2). simpl in S4, X2.
             rewrite (WE_false ext t vc _ _ We T Fo r2 X2) in H.
             apply (B2 rho r2 out'); auto.
             ++ apply (exec_shape_inv ext a0 (shape_any _ _ _ Sbl) _ _ _ Eb J1).
             ++ intros z Vz. rewrite (S4 z Vz). auto.
      + apply (st_ok_tys st2); auto.
    - (* for *)
      apply andb_true_iff in G; destruct G as [G Go]. apply andb_true_iff in G; destruct G as [G Gb].
      apply andb_true_iff in G; destruct G as [G Gn]. apply andb_true_iff in G; destruct G as [Gx Gi].
      destruct (okt_inv _ _ Gx) as (Vx & Px).
      simpl in N. apply andb_true_iff in N; destruct N as [Nb No].
      inv_bind H. destruct a as [[pre elems] st0]. inv_bind H. destruct a as [l1 st1].
      inv_bind H. destruct a as [o' st2]. inversion H; subst. clear H.
      pose proof (glist_tgt_ok _ _ _ Gb) as Tb.
      destruct (for_iter_sound _ _ x _ _ _ _ S Px Gi Tb Ha) as (-> & -> & vs & Er & F & Ev & Hsub).
      assert (Hsub' : forall r b', List.In r elems -> mapM (subst_stmt false x r) b = Ok b' ->
                                   forallb (gstmt visible plen pbool pint []) b' = true /\ forallb notup b' = true).
      { intros r b' Hin Hs. apply (Hsub r b' Hin Nb Gb Hs). }
      destruct (rolls_sound n IHn x b Vx Px Nb Tb elems vs _ _ _ Er F Hsub' S Ha0) as (U1 & S1 & A1 & B1 & T1).
      destruct (IHl _ _ _ _ Go No T1 Ha1) as (U2 & S2 & A2 & B2 & T2).
      split; [lia|]. split; [|split; [|split]]; auto.
      + simpl app. apply shape_app; [apply (shape_mono (uq st) (uq st1)) | apply (shape_mono (uq st1) (uq st'))]; auto; lia.
      + simpl app. now rewrite forallb_app, A1, A2.
      + eapply bsim_ext_l; [| |apply (bsim_seq visible _ _ _ _ B1 B2)].
        * intros rho rho' J R. rewrite exec_for, (Ev rho rho' J R). reflexivity.
        * intro rho. simpl app. unfold seq. now rewrite exec_list_app.
    - (* return *)
      inv_bind H. inversion H; subst. destruct (rw_exp_sound ext st' _ S _ G Ha) as (E & G').
      split; [apply N.le_refl|]. split; [|split; [|split]]; auto.
      + constructor; [exact I|constructor].
      + simpl. now rewrite (gexp_mono visible anyn [] a (fun _ _ => eq_refl) G').
      + apply bsim_single. apply (bsim_return ext visible []); auto.
    - (* expression statement *)
      rewrite (gexp_not_call _ _ _ "print" G) in H by reflexivity.
      inv_bind H. inversion H; subst. destruct (rw_exp_sound ext st' _ S _ G Ha) as (E & G').
      split; [apply N.le_refl|]. split; [|split; [|split]]; auto.
      + constructor; [exact I|constructor].
      + simpl. now rewrite (gexp_mono visible anyn [] a (fun _ _ => eq_refl) G').
      + apply bsim_single. apply (bsim_expr ext visible []); auto.
    - inversion H; subst.
      split; [apply N.le_refl|]. split; [|split; [|split]]; auto.
      + constructor; [exact I|constructor].
      + apply bsim_single. intros rho rho' o' J R H'. simpl in *. inversion H'; subst.
        exists (rho, None). split; auto. split; [split|]; auto.
  Qed.

  Lemma rw_list_sound b st l st' :
    forallb (gstmt visible plen pbool pint []) b = true -> forallb notup b = true -> st_ok st ->
    rw_list rw_fuel st b = Ok (l, st') -> rw_post st l st' (exec_list b).
  Proof. apply (rw_list_of_spec rw_fuel (rw_stmt_sound rw_fuel)). Qed.
End RwMain.

End Typed.

(* ------------------------------------------------------------------ *)
(* normal form of whatever the rewriter returns (no guard)             *)
(* ------------------------------------------------------------------ *)
Lemma rw_assign_normal st x e l st' : rw_assign st x e = Ok (l, st') -> forallb normal_stmt l = true.
Proof.
  unfold rw_assign. intro H. inv_bind H. destruct a as [st1 e1]. inv_bind H.
  destruct (_ && _); try discriminate. destruct (_ && _); inversion H; subst; reflexivity.
Qed.

Lemma wrap_body_normal st t l bl : mapM (wrap_body st t) l = Ok bl -> forallb normal_stmt bl = true.
Proof.
  revert bl; induction l as [|b l IH]; intros bl H; simpl in H.
  - inversion H; auto.
  - inv_bind H. inv_bind H. inversion H; subst. simpl. rewrite (IH _ Ha0).
    destruct b as [[y|]| | | | |]; simpl in Ha; try discriminate. inversion Ha; subst. reflexivity.
Qed.

Lemma wrap_else_normal st t l ol : mapM (wrap_else st t) l = Ok ol -> forallb normal_stmt ol = true.
Proof.
  revert ol; induction l as [|b l IH]; intros ol H; simpl in H.
  - inversion H; auto.
  - inv_bind H. inv_bind H. inversion H; subst. simpl. rewrite (IH _ Ha0).
    destruct b as [[y|]| | | | |]; simpl in Ha; try discriminate.
    destruct (_ && _); [|destruct (is_iftarg y)]; inversion Ha; subst; reflexivity.
Qed.

Lemma rw_list_normal_of (rw : rstate -> stmt -> res (list stmt * rstate)) :
  (forall s st l st', rw st s = Ok (l, st') -> forallb normal_stmt l = true) ->
  forall b st l st', rw_list_with rw st b = Ok (l, st') -> forallb normal_stmt l = true.
Proof.
  intros IH b. induction b as [|s r IHb]; intros st l st' H; simpl in H.
  - inversion H; auto.
  - inv_bind H. destruct a as [l1 st1]. inv_bind H. destruct a as [l2 st2]. inversion H; subst.
    rewrite forallb_app, (IH _ _ _ _ Ha), (IHb _ _ _ Ha0). reflexivity.
Qed.

Lemma rolls_normal_of (rw : rstate -> stmt -> res (list stmt * rstate)) x b :
  (forall s st l st', rw st s = Ok (l, st') -> forallb normal_stmt l = true) ->
  forall elems st l st', rolls_with rw x b elems st = Ok (l, st') -> forallb normal_stmt l = true.
Proof.
  intros IH elems. induction elems as [|i r IHr]; intros st l st' H; simpl in H.
  - inversion H; auto.
  - inv_bind H. destruct a as [l0 st2]. inv_bind H. inv_bind H. destruct a0 as [l1 st3].
    inv_bind H. destruct a0 as [l2 st4]. inversion H; subst.
    rewrite !forallb_app, (IH _ _ _ _ Ha), (rw_list_normal_of rw IH _ _ _ _ Ha1), (IHr _ _ _ Ha2). reflexivity.
Qed.

Lemma for_iter_normal st it b pre elems st0 :
  for_iter st it b = Ok (pre, elems, st0) -> forallb normal_stmt pre = true.
Proof.
  unfold for_iter. intro H. destruct (is_call "range" it).
  - inv_bind H. inv_bind H. inversion H; subst. reflexivity.
  - inv_bind H.
    assert (D : (exists l, unroll_arg st a = Ok l /\ pre = []) \/
                (exists y l0 st1, a = EName y /\ rw_assign (mkst (tys st) (cns st) (uq st + 1)%N)
                                                        (forit_name (uq st + 1)%N) (EName y) = Ok (l0, st1) /\ pre = l0)).
    { destruct a; try (inv_bind H; inversion H; subst; left; eauto; fail).
      destruct (existsb (assigns_name x) b).
      - cbv zeta in H. inv_bind H. destruct a as [l0 st1]. inv_bind H. inversion H; subst. right. eauto 8.
      - inv_bind H. inversion H; subst. left; eauto. }
    destruct D as [(l & _ & ->)|(y & l0 & st1 & _ & R & ->)]; auto.
    apply (rw_assign_normal _ _ _ _ _ R).
Qed.

Lemma rw_stmt_normal n : forall s st l st', rw_stmt n st s = Ok (l, st') -> forallb normal_stmt l = true.
Proof.
  induction n as [|n IHn]; intros s st l st' H; [discriminate|].
  destruct s as [[x|tl] e|x op e|c b o|x it b fo|e|[e|]]; cbn [rw_stmt] in H.
  - apply (rw_assign_normal _ _ _ _ _ H).
  - discriminate.
  - inv_bind H. inversion H; subst. reflexivity.
  - inv_bind H. destruct a as [b' st1]. inv_bind H. destruct a as [o' st2].
    cbv zeta in H. inv_bind H. inv_bind H. inv_bind H. inversion H; subst.
    simpl. now rewrite forallb_app, (wrap_body_normal _ _ _ _ Ha2), (wrap_else_normal _ _ _ _ Ha3).
  - inv_bind H. destruct a as [[pre elems] st0]. inv_bind H. destruct a as [l1 st1].
    inv_bind H. destruct a as [o' st2]. inversion H; subst.
    rewrite !forallb_app, (for_iter_normal _ _ _ _ _ _ Ha), (rolls_normal_of _ _ _ IHn _ _ _ _ Ha0),
      (rw_list_normal_of _ IHn _ _ _ _ Ha1). reflexivity.
  - inv_bind H. inversion H; subst. reflexivity.
  - destruct (is_call "print" e).
    + inv_bind H. inversion H; subst. reflexivity.
    + inv_bind H. inversion H; subst. reflexivity.
  - inversion H; subst. reflexivity.
Qed.

Lemma fold_normal l : forall l', forallb normal_stmt l = true -> fold_list l = Ok l' -> forallb normal_stmt l' = true.
Proof.
  unfold fold_list. induction l as [|s r IH]; intros l' N H; simpl in H.
  - inversion H; auto.
  - simpl in N. apply andb_true_iff in N; destruct N as [Ns Nr].
    inv_bind H. inv_bind H. inversion H; subst. rewrite forallb_app, (IH _ Nr Ha0), andb_true_r.
    destruct s as [[y|]| | | | |[e|]]; simpl in Ns; try discriminate; cbn [fold_stmt fold_target] in Ha.
    + inv_bind Ha. inv_bind Ha. inversion Ha; subst. inversion Ha1; subst. reflexivity.
    + inv_bind Ha. inversion Ha; subst. reflexivity.
    + inv_bind Ha. inversion Ha; subst. reflexivity.
    + inversion Ha; subst. reflexivity.
Qed.

Theorem a2a_normal_form : forall f b', a2a f = Ok b' -> normal_form b' = true.
Proof.
  intros f b' H. unfold a2a in H. destruct (fun_reserved f); [discriminate|]. inv_bind H. inv_bind H. inv_bind H.
  unfold rw_fun in Ha1. inv_bind Ha1. inv_bind Ha1. destruct a3 as [b3 st3]. inv_bind Ha1. inversion Ha1; subst.
  apply (fold_normal _ _ (rw_list_normal_of _ (rw_stmt_normal rw_fuel) _ _ _ _ Ha3) H).
Qed.

(* ------------------------------------------------------------------ *)
(* the four passes composed                                            *)
(* ------------------------------------------------------------------ *)
Lemma Ragree_refl P rho : Ragree P rho rho.
Proof. intros x _. reflexivity. Qed.

Lemma plen_of_inv f a n :
  plen_of f a = Some n ->
  user_name a = true /\
  exists l, assoc (tys (init_state (f_args f))) a = Some (TyNode (ESubscript (EName "Tuple") (ETuple l))) /\
            List.length l = n.
Proof.
  unfold plen_of. destruct (assoc (tys (init_state (f_args f))) a) as [[e|]|]; try discriminate.
  destruct e; try discriminate. destruct e1; try discriminate. destruct e2; try discriminate.
  destruct (String.eqb x "Tuple") eqn:E; [|discriminate]. destruct (user_name a); [|discriminate].
  simpl. intro H. inversion H; subst. apply String.eqb_eq in E. subst. eauto.
Qed.

Lemma prot_of_user f a : prot (plen_of f) a = true -> user_name a = true.
Proof.
  unfold prot. destruct (plen_of f a) as [n|] eqn:E; try discriminate. intros _.
  apply (plen_of_inv _ _ _ E).
Qed.

Theorem a2a_backward : forall ext f b',
  a2a_guard f = true -> a2a f = Ok b' ->
  forall rho, conforms f rho ->
  forall v, run ext b' rho = Some v -> run ext (f_body f) rho = Some v.
Proof.
  intros ext f b' G H rho C v R. unfold a2a_guard in G. unfold a2a in H.
  destruct (fun_reserved f); [discriminate|]. inv_bind H. inv_bind H. inv_bind H.
  unfold rw_fun in Ha1. inv_bind Ha1. inv_bind Ha1. destruct a3 as [b3 st3]. inv_bind Ha1. inversion Ha1; subst.
  destruct C as (C & Cb & Ci).
  set (plen := plen_of f) in *. set (pbool := pbool_of f) in *. set (pint := pint_of f) in *.
  destruct (fold_list_sound plen pbool pint ext user_name [] _ _ G Ha) as (E1 & G1).
  destruct (multi_list_sound plen (prot_of_user f) rho C pbool pint ext [] _ _ G1 Ha0) as (G2 & B2).
  pose proof (multi_list_notup _ _ Ha0) as N2.
  assert (S0 : st_ok plen (init_state (f_args f))).
  { intros z n Pa. apply (plen_of_inv _ _ _ Pa). }
  destruct (rw_list_sound plen (prot_of_user f) rho C pbool Cb pint Ci ext _ _ _ _ G2 N2 S0 Ha3) as (_ & _ & G3 & B3 & _).
  destruct (fold_list_sound plen pbool pint ext anyn [] _ _ G3 H) as (E4 & _).
  assert (J0 : Inv plen rho rho) by (intros z _; reflexivity).
  unfold run in *. rewrite E4 in R.
  destruct (exec_list ext a1 rho) as [[r3 [v3|]]|] eqn:X3; try discriminate. inversion R; subst v3.
  destruct (B3 _ _ _ J0 (Ragree_refl visible rho) X3) as ([r2 w2] & X2 & (_ & Ew) & _). simpl in Ew. subst w2.
  destruct (B2 _ _ _ J0 (Ragree_refl user_name rho) X2) as ([r1 w1] & X1 & (_ & Ew) & _). simpl in Ew. subst w1.
  rewrite <- E1, X1. reflexivity.
Qed.

(* ------------------------------------------------------------------ *)
(* the five programs that refuted preservation before the repairs       *)
(* cc7fed2 .. d025bfb of /repo: each is now preserved                   *)
(* ------------------------------------------------------------------ *)
Definition no_ext : string -> list val -> option val := fun _ _ => None.
Definition ann_bool : option exp := Some (EName "bool").
Definition ann_tuple (l : list exp) : option exp := Some (ESubscript (EName "Tuple") (ETuple l)).
Definition ann_qint2 : exp := ESubscript (EName "Qint") (EConst (CInt 2)).
Definition ci (z : Z) : exp := EConst (CInt z).

(* def f(t: Tuple[Tuple[bool, bool], bool]) -> bool:  t, a = t;  return a *)
Definition wit_multi : fundef :=
  mkfun [("t", ann_tuple [ESubscript (EName "Tuple") (ETuple [EName "bool"; EName "bool"]); EName "bool"])] ann_bool
        [SAssign (TTuple [EName "t"; EName "a"]) (EName "t"); SReturn (EName "a")].
Definition wit_multi_env : env := env_of [("t", VTup [VTup [VBool true; VBool false]; VBool true])].

(* def f(a: bool, b: bool, u: Tuple[Qint[2], bool]) -> bool:  t = (a, b);  a = not a;  return t[u[0]] *)
Definition wit_alias : fundef :=
  mkfun [("a", ann_bool); ("b", ann_bool); ("u", ann_tuple [ann_qint2; EName "bool"])] ann_bool
        [SAssign (TName "t") (ETuple [EName "a"; EName "b"]);
         SAssign (TName "a") (EUnOp Not (EName "a"));
         SReturn (ESubscript (EName "t") (ESubscript (EName "u") (ci 0)))].
Definition wit_alias_env : env := env_of [("a", VBool true); ("b", VBool false); ("u", VTup [VInt 0; VBool true])].

(* def f(a, b, c: bool, u: ...) -> bool:  t = (a, b);  if c: t = (b, a);  return t[u[0]] *)
Definition wit_flow : fundef :=
  mkfun [("a", ann_bool); ("b", ann_bool); ("c", ann_bool); ("u", ann_tuple [ann_qint2; EName "bool"])] ann_bool
        [SAssign (TName "t") (ETuple [EName "a"; EName "b"]);
         SIf (EName "c") [SAssign (TName "t") (ETuple [EName "b"; EName "a"])] [];
         SReturn (ESubscript (EName "t") (ESubscript (EName "u") (ci 0)))].
Definition wit_flow_env : env :=
  env_of [("a", VBool true); ("b", VBool false); ("c", VBool false); ("u", VTup [VInt 0; VBool true])].

(* def f(m: Qmatrix[bool, 2, 3]) -> bool:  r = False;  for x in m[0]: r = r ^ x;  return r *)
Definition ann_row3 : exp := ESubscript (EName "Tuple") (ETuple [EName "bool"; EName "bool"; EName "bool"]).
Definition wit_matrix : fundef :=
  mkfun [("m", ann_tuple [ann_row3; ann_row3])] ann_bool
        [SAssign (TName "r") (EConst (CBool false));
         SFor "x" (ESubscript (EName "m") (ci 0)) [SAssign (TName "r") (EBinOp BitXor (EName "r") (EName "x"))] [];
         SReturn (EName "r")].
Definition wit_matrix_env : env :=
  env_of [("m", VTup [VTup [VBool false; VBool false; VBool true]; VTup [VBool false; VBool false; VBool false]])].

(* def f(a: Tuple[bool, bool]) -> bool:  s = False;  for x in a: a = (s, x); s = s ^ x;  return s *)
Definition wit_loop : fundef :=
  mkfun [("a", ann_tuple [EName "bool"; EName "bool"])] ann_bool
        [SAssign (TName "s") (EConst (CBool false));
         SFor "x" (EName "a") [SAssign (TName "a") (ETuple [EName "s"; EName "x"]);
                               SAssign (TName "s") (EBinOp BitXor (EName "s") (EName "x"))] [];
         SReturn (EName "s")].
Definition wit_loop_env : env := env_of [("a", VTup [VBool true; VBool true])].

(* the normaliser succeeds and both programs return [v] *)
Definition agree (f : fundef) (rho : env) (v : val) : Prop :=
  exists b', a2a f = Ok b' /\ run no_ext b' rho = Some v /\ run no_ext (f_body f) rho = Some v.
Definition differ (f : fundef) (rho : env) : Prop :=
  exists b' v v', a2a f = Ok b' /\ run no_ext b' rho = Some v /\ run no_ext (f_body f) rho = Some v' /\
                  val_eqb v v' = false.

Lemma wit_multi_agree : agree wit_multi wit_multi_env (VBool true).
Proof. unfold agree. eexists. repeat split; vm_compute; reflexivity. Qed.
Lemma wit_alias_agree : agree wit_alias wit_alias_env (VBool true).
Proof. unfold agree. eexists. repeat split; vm_compute; reflexivity. Qed.
Lemma wit_flow_agree : agree wit_flow wit_flow_env (VBool true).
Proof. unfold agree. eexists. repeat split; vm_compute; reflexivity. Qed.
Lemma wit_matrix_agree : agree wit_matrix wit_matrix_env (VBool true).
Proof. unfold agree. eexists. repeat split; vm_compute; reflexivity. Qed.
Lemma wit_loop_agree : agree wit_loop wit_loop_env (VBool false).
Proof. unfold agree. eexists. repeat split; vm_compute; reflexivity. Qed.

(* ------------------------------------------------------------------ *)
(* the witnesses of the second round: repaired in /repo (cbb039f, 31c53a1, e979369) *)
(* ------------------------------------------------------------------ *)
(* def f(c: bool, u: Tuple[Qint[2], bool]) -> bool:
       t = (True, False);  if c: t = (False, True);  return t[u[0]]
   a named tuple is now always read through the name *)
Definition wit_constflow : fundef :=
  mkfun [("c", ann_bool); ("u", ann_tuple [ann_qint2; EName "bool"])] ann_bool
        [SAssign (TName "t") (ETuple [EConst (CBool true); EConst (CBool false)]);
         SIf (EName "c") [SAssign (TName "t") (ETuple [EConst (CBool false); EConst (CBool true)])] [];
         SReturn (ESubscript (EName "t") (ESubscript (EName "u") (ci 0)))].
Definition wit_constflow_env : env := env_of [("c", VBool false); ("u", VTup [VInt 0; VBool true])].

(* def f(a: bool, b: bool) -> bool:  _temptup = (a, b);  a, b = b, a;  return _temptup[0] *)
Definition wit_temptup : fundef :=
  mkfun [("a", ann_bool); ("b", ann_bool)] ann_bool
        [SAssign (TName "_temptup") (ETuple [EName "a"; EName "b"]);
         SAssign (TTuple [EName "a"; EName "b"]) (ETuple [EName "b"; EName "a"]);
         SReturn (ESubscript (EName "_temptup") (ci 0))].

(* def f(a, b, c: bool) -> bool:  _iftarg2 = c;  if a: b = not b;  return _iftarg2 *)
Definition wit_iftarg : fundef :=
  mkfun [("a", ann_bool); ("b", ann_bool); ("c", ann_bool)] ann_bool
        [SAssign (TName "_iftarg2") (EName "c");
         SIf (EName "a") [SAssign (TName "b") (EUnOp Not (EName "b"))] [];
         SReturn (EName "_iftarg2")].

Lemma wit_constflow_agree : agree wit_constflow wit_constflow_env (VBool true).
Proof. unfold agree. eexists. repeat split; vm_compute; reflexivity. Qed.
(* the reserved names are rejected *)
Lemma wit_temptup_rejected : a2a wit_temptup = Raise.
Proof. vm_compute. reflexivity. Qed.
Lemma wit_iftarg_rejected : a2a wit_iftarg = Raise.
Proof. vm_compute. reflexivity. Qed.

(* whatever the normaliser accepts has no reserved name *)
Lemma a2a_ok_not_reserved f b' : a2a f = Ok b' -> fun_reserved f = false.
Proof. unfold a2a. destruct (fun_reserved f); [discriminate|reflexivity]. Qed.

(* ------------------------------------------------------------------ *)
(* the unguarded statement is false of the model over UNTYPED values   *)
(* ------------------------------------------------------------------ *)
(* def f(a: Qlist[Qint[2], 2]) -> bool:  return all(a)      with a = (2, 3)
   all(a) becomes a[0] and a[1]: 3, where Python's all gives True.  The translator REJECTS this
   program (the operands of `and` must be bool): it witnesses that the builtin expansions need
   typed operands, not a defect of an accepted program *)
Definition wit_all : fundef :=
  mkfun [("a", ann_tuple [ann_qint2; ann_qint2])] ann_bool [SReturn (ECall "all" [EName "a"])].
Definition wit_all_env : env := env_of [("a", VTup [VInt 2; VInt 3])].
Lemma wit_all_differ : differ wit_all wit_all_env.
Proof. unfold differ. eexists. exists (VInt 3), (VBool true). repeat split; vm_compute; reflexivity. Qed.

Theorem a2a_preserves_refuted :
  exists f rho b' v v', a2a f = Ok b' /\ run no_ext b' rho = Some v /\
                        run no_ext (f_body f) rho = Some v' /\ v <> v'.
Proof.
  exists wit_all, wit_all_env. eexists. exists (VInt 3), (VBool true).
  repeat split; try (vm_compute; reflexivity). discriminate.
Qed.

(* inside the guard the converse direction fails: a name assigned in one branch only.
   def f(c: bool) -> bool:  if c: x = True;  return c      (c = False) *)
Definition wit_undef : fundef :=
  mkfun [("c", ann_bool)] ann_bool
        [SIf (EName "c") [SAssign (TName "x") (EConst (CBool true))] []; SReturn (EName "c")].
Theorem a2a_forward_refuted :
  exists f rho b' v, a2a_guard f = true /\ a2a f = Ok b' /\
                     run no_ext (f_body f) rho = Some v /\ run no_ext b' rho = None.
Proof.
  exists wit_undef, (env_of [("c", VBool false)]). eexists. exists (VBool false).
  repeat split; vm_compute; reflexivity.
Qed.

(* ------------------------------------------------------------------ *)
(* conformance is decidable on the arguments                           *)
(* ------------------------------------------------------------------ *)
Lemma assoc_in {A} (l : list (string * A)) x v : assoc l x = Some v -> List.In x (map fst l).
Proof.
  induction l as [|[y a] r IH]; simpl; try discriminate.
  destruct (String.eqb y x) eqn:E; auto. apply String.eqb_eq in E. auto.
Qed.

Lemma pbool_plen f a : pbool_of f a = true -> exists n, plen_of f a = Some n.
Proof.
  unfold pbool_of, plen_of. destruct (assoc (tys (init_state (f_args f))) a) as [[e|]|]; try discriminate.
  destruct e; try discriminate. destruct e1; try discriminate. destruct e2; try discriminate.
  intro H. apply andb_true_iff in H. destruct H as [H _]. rewrite H. eauto.
Qed.

Lemma pint_plen f a : pint_of f a = true -> exists n, plen_of f a = Some n.
Proof.
  unfold pint_of, plen_of. destruct (assoc (tys (init_state (f_args f))) a) as [[e|]|]; try discriminate.
  destruct e; try discriminate. destruct e1; try discriminate. destruct e2; try discriminate.
  intro H. apply andb_true_iff in H. destruct H as [H _]. rewrite H. eauto.
Qed.

Theorem conforms_check f rho : conforms_b f rho = true -> conforms f rho.
Proof.
  unfold conforms_b, conforms. intro H.
  assert (K : forall a n, plen_of f a = Some n ->
              exists vs, rho a = Some (VTup vs) /\ List.length vs = n /\
                         (pbool_of f a = true -> forallb is_vbool vs = true) /\
                         (pint_of f a = true -> forallb is_vint vs = true)).
  { intros a n Pa. destruct (plen_of_inv _ _ _ Pa) as (_ & l & Hl & _).
    apply assoc_in in Hl. unfold init_state in Hl. simpl in Hl.
    rewrite map_rev, map_map in Hl. simpl in Hl. apply in_rev in Hl.
    rewrite forallb_forall in H. specialize (H a Hl). rewrite Pa in H.
    destruct (rho a) as [[| |vs]|]; try discriminate. apply andb_true_iff in H. destruct H as [H H3].
    apply andb_true_iff in H. destruct H as [H1 H2].
    apply Nat.eqb_eq in H1. exists vs. split; auto. split; auto. split.
    - intro Pb. rewrite Pb in H2. exact H2.
    - intro Pi. rewrite Pi in H3. exact H3. }
  split; [|split].
  - intros a n Pa. destruct (K a n Pa) as (vs & E & L & _). eauto.
  - intros a Pb. destruct (pbool_plen _ _ Pb) as (n & Pa). destruct (K a n Pa) as (vs & E & _ & B & _). eauto.
  - intros a Pi. destruct (pint_plen _ _ Pi) as (n & Pa). destruct (K a n Pa) as (vs & E & _ & _ & B). eauto.
Qed.
