(* Prop_C15.v — "Grover search amplifies exactly the solutions of the predicate".

   What is proved for EVERY n, every oracle gate list and every iteration count,
   under the reference amplitude semantics run_ref of Amp.v (integer amplitudes
   psi with a counter k: amplitude psi i / sqrt(2)^k):

   (1) grover_depends_only_on_f: the Grover circuit M_Algo builds (compared EXACTLY
       with the implementation's gate list on every case) around two oracle gate
       lists that the verified checker c06_check accepts as clean xor-oracles for
       the same predicate has the same amplitude on every (search register, `_ret`,
       phase qubit) basis state and amplitude 0 wherever a scratch qubit is
       non-zero — whatever the scratch qubits, the position of `_ret`, the gates.
       The amplitudes are those of an abstract state gabs n f iters that mentions
       only n, the predicate and the iteration count.
   (2) the oracle key lemma, and the diffuser AS CODED is 2^(n+1) - 2 * (sum over
       search register and phase qubit), i.e. the inversion about the mean.
   (3) grover_classes: the abstract state is a function of the class (f x, `_ret`,
       phase) only and its 8 class amplitudes follow an integer recurrence in N = 2^n
       and M = #solutions; the recurrence is evaluated (vm_compute inside the proof)
       for every 2 <= n <= 6, 1 <= M <= N/4 with the default iteration count
       ceil(pi/4 sqrt(N/M)): C15_grover_amplifies — for EVERY predicate in that
       range and EVERY accepted oracle circuit, every solution is strictly more
       likely than every non-solution and the solutions together have probability
       > 1/2.  No enumeration of predicates is involved.
   Decided per case by the harness (not by a for-all theorem): the gate list of the
   implementation equals grover_circuit (exact comparison), the oracle is accepted by
   c06_check, n_matching equals the number of solutions, the iteration count equals
   grover_iters, decode_output returns the register content in the argument type; and,
   independently of the theorems, the exact distribution computed by the verified
   evaluator run_amp on the real gate list (C15_amp_evaluator_correct) is compared
   across syntactic forms and tested against (ii)/(iii). *)
From Coq Require Import List Bool NArith ZArith Arith.
From QV Require Import Bexp BexpTT Circ Compiled Amp WH M_Algo P_Algo.
Import ListNotations.
Local Open Scope N_scope.

(* ---------------- the evaluator that decides the concrete circuits ---------------- *)
Theorem C15_amp_evaluator_correct : forall nq c,
  match run_amp nq c, run_ref nq c (delta0, 0%nat) with
  | Some (l, k), Some (psi, k') => k = k' /\ forall i, amp_of l i = psi i
  | None, None => True
  | _, _ => False
  end.
Proof. exact amp_run_spec. Qed.
Print Assumptions C15_amp_evaluator_correct.

Theorem C15_marginal_is_reference : forall nq c l k psi mask y,
  run_amp nq c = Some (l, k) -> run_ref nq c (delta0, 0%nat) = Some (psi, k) ->
  strictly_sorted l = true -> keys_below nq l = true ->
  amp_of (marginal mask l) y =
  sumN nq (fun i => if N.eqb y (N.land i mask) then (psi i * psi i)%Z else 0%Z).
Proof. exact marginal_is_reference. Qed.
Print Assumptions C15_marginal_is_reference.

(* ---------------- key lemma: the oracle inside the Grover register ---------------- *)
(* in the (nq+1)-qubit register the accepted oracle circuit maps the amplitude of
   (x, y, scratch 0, phase p) to (x, y xor f x, 0, p) and keeps dirty states dirty *)
Theorem C15_oracle_acts_as_xor_map : forall n nq c ds ret out,
  (n <= out < nq)%nat -> xonly nq c = true -> c06_check n nq c ds ret out = Some 0 ->
  forall psi k,
  exists psi', run_ref (S nq) c (psi, k) = Some (psi', k) /\
    (forall i, cleanq n nq out i = true -> psi' i = psi (omap n ds ret out i)) /\
    (forall i, cleanq n nq out i = false -> exists j, cleanq n nq out j = false /\ psi' i = psi j).
Proof. exact oracle_action_hi_checked. Qed.
Print Assumptions C15_oracle_acts_as_xor_map.

(* ---------------- the circuit factors through the abstract oracle map ---------------- *)
Theorem C15_grover_amplitudes : forall n nq c ds ret out iters,
  (n <= out < nq)%nat -> xonly nq c = true -> c06_check n nq c ds ret out = Some 0 ->
  exists psi, run_ref (S nq) (grover_circuit n nq out c iters) (delta0, 0%nat)
              = Some (psi, (n + 1 + S (iters - 1) * (2 * n + 2))%nat) /\
    (forall x r p, x < pow2n n ->
       psi (enc out nq x r p) = gabs n (fun x => run_defs (asg x) ds ret) iters (enc (S n) n x r p)) /\
    (forall i, clean3 n nq out i = false -> psi i = 0%Z).
Proof. exact grover_amplitudes_checked. Qed.
Print Assumptions C15_grover_amplitudes.

(* (1) *)
Theorem C15_grover_depends_only_on_f : forall n iters nq1 c1 ds1 ret1 out1 nq2 c2 ds2 ret2 out2,
  (n <= out1 < nq1)%nat -> xonly nq1 c1 = true -> c06_check n nq1 c1 ds1 ret1 out1 = Some 0 ->
  (n <= out2 < nq2)%nat -> xonly nq2 c2 = true -> c06_check n nq2 c2 ds2 ret2 out2 = Some 0 ->
  (forall x, x < pow2n n -> run_defs (asg x) ds1 ret1 = run_defs (asg x) ds2 ret2) ->
  exists psi1 psi2 k,
    run_ref (S nq1) (grover_circuit n nq1 out1 c1 iters) (delta0, 0%nat) = Some (psi1, k) /\
    run_ref (S nq2) (grover_circuit n nq2 out2 c2 iters) (delta0, 0%nat) = Some (psi2, k) /\
    (forall x r p, x < pow2n n -> psi1 (enc out1 nq1 x r p) = psi2 (enc out2 nq2 x r p)) /\
    (forall i, clean3 n nq1 out1 i = false -> psi1 i = 0%Z) /\
    (forall i, clean3 n nq2 out2 i = false -> psi2 i = 0%Z).
Proof. exact grover_depends_only_on_f_checked. Qed.
Print Assumptions C15_grover_depends_only_on_f.

(* the abstract state depends on the predicate only through its values on x < 2^n *)
Theorem C15_abstract_state_depends_on_values : forall n f g iters a,
  (forall x, x < pow2n n -> f x = g x) -> gabs n f iters a = gabs n g iters a.
Proof. exact gabs_ext. Qed.
Print Assumptions C15_abstract_state_depends_on_values.

(* ---------------- (2) the diffuser is a reflection ---------------- *)
(* Walsh-Hadamard algebra, every n: H^n ; sign flip of the all-zero component ; H^n *)
Theorem C15_diffuser_is_reflection : forall n psi i,
  WH n (Z0 n (WH n psi)) i = (pow2z n * psi i - 2 * sumN n (fun x => psi (setlow n i x)))%Z.
Proof. exact diffuser_is_reflection. Qed.
Print Assumptions C15_diffuser_is_reflection.

(* the diffuser's gate list, as coded, is that transformer ... *)
Theorem C15_diffuser_gates : forall NQ n p, (n <= p < NQ)%nat -> forall psi k,
  run_ref NQ (grover_diffuser n p) (psi, k) = Some (diff_l n (N.of_nat p) psi, (k + (2 * n + 2))%nat).
Proof. exact run_ref_diffuser. Qed.
Print Assumptions C15_diffuser_gates.

(* ... and on the canonical layout (phase qubit next to the search register) it is
   2^(n+1) * identity - 2 * (sum over search register and phase qubit) *)
Theorem C15_grover_diffuser_is_reflection : forall n psi i,
  diff_l n (N.of_nat n) psi i =
  (pow2z (S n) * psi i - 2 * sumN (S n) (fun x => psi (setlow (S n) i x)))%Z.
Proof. exact grover_diffuser_is_reflection. Qed.
Print Assumptions C15_grover_diffuser_is_reflection.

(* ---------------- (3) classes, recurrence, and the table for 2..6 qubits ---------------- *)
Theorem C15_grover_classes : forall n f iters a,
  gabs n f iters a = class_state n f (c_iter (S (iters - 1)) n (fcount n f) c_init) a.
Proof. exact grover_classes_stmt. Qed.
Print Assumptions C15_grover_classes.

(* pr4 psi out nq x / 2^k is the probability of reading x on the search register;
   m = number of solutions, iters = the default iteration count *)
Theorem C15_grover_amplifies : forall n nq c ds ret out m iters,
  (n <= out < nq)%nat -> xonly nq c = true -> c06_check n nq c ds ret out = Some 0 ->
  (2 <= n <= 6)%nat -> (1 <= m)%nat -> (4 * m <= 2 ^ n)%nat ->
  sumN n (fun x => if run_defs (asg x) ds ret then 1%Z else 0%Z) = Z.of_nat m ->
  grover_iters (2 ^ N.of_nat n) (N.of_nat m) = Some iters ->
  exists psi, run_ref (S nq) (grover_circuit n nq out c iters) (delta0, 0%nat) = Some (psi, grover_k n iters) /\
    (forall i, clean3 n nq out i = false -> psi i = 0%Z) /\
    (forall x x', x < pow2n n -> x' < pow2n n ->
       run_defs (asg x) ds ret = true -> run_defs (asg x') ds ret = false ->
       (pr4 psi out nq x' < pr4 psi out nq x)%Z) /\
    (forall x, x < pow2n n -> run_defs (asg x) ds ret = true ->
       (pow2z (grover_k n iters) < 2 * Z.of_nat m * pr4 psi out nq x)%Z).
Proof. exact grover_amplifies_checked. Qed.
Print Assumptions C15_grover_amplifies.

(* ---------------- iteration count ---------------- *)
(* grover_iters decides ceil(pi/4 sqrt(N/M)) in integers; e.g. the values the
   implementation uses on the sizes explored *)
Example C15_ex_iters :
  map (fun nm => grover_iters (fst nm) (snd nm)) [(4, 1); (8, 1); (8, 2); (16, 1); (16, 4); (32, 1); (32, 8); (64, 1); (64, 16)]
  = map Some [2; 3; 2; 4; 2; 5; 2; 7; 2]%nat.
Proof. vm_compute. reflexivity. Qed.

(* the table covers 31 (n, M) pairs, and its test is not vacuous: with one iteration
   less than the default (floor instead of ceil) N = 32, M = 1 stays below 1/2 *)
Example C15_ex_table : length table_range = 31%nat /\ table_ok 5 1 = true.
Proof. split; vm_compute; reflexivity. Qed.
Example C15_ex_table_strict :
  let c := c_iter 4 5 1 c_init in (2 * 1 * c_prob c true <? pow2z (grover_k 5 4))%Z = true.
Proof. vm_compute. reflexivity. Qed.

(* ---------------- the hypotheses are satisfiable; the evaluator computes ---------------- *)
(* two different oracle circuits for f(x) = (x == 3) on 2 bits: CCX directly, or through a scratch qubit *)
Example C15_ex_two_oracles :
  let c1 := [mkg KCCX [0; 1; 2]%nat None] in
  let c2 := [mkg KCCX [0; 1; 2]%nat None; mkg KCX [2; 3]%nat None; mkg KCCX [0; 1; 2]%nat None] in
  let ds := [(3%nat, BAnd [BSym 0; BSym 1])] in
  xonly 3 c1 = true /\ c06_check 2 3 c1 ds 3 2 = Some 0 /\
  xonly 4 c2 = true /\ c06_check 2 4 c2 ds 3 3 = Some 0.
Proof. repeat split; vm_compute; reflexivity. Qed.
(* ... and the exact marginal distributions of the search register coincide:
   N = 4, M = 1, 2 iterations, k = 15: 512 / 2^15 = 1/64 for each non-solution, 31232 / 2^15 = 0.953125 for x = 3;
   the class recurrence gives the same numbers *)
Example C15_ex_distributions :
  let c1 := [mkg KCCX [0; 1; 2]%nat None] in
  let c2 := [mkg KCCX [0; 1; 2]%nat None; mkg KCX [2; 3]%nat None; mkg KCCX [0; 1; 2]%nat None] in
  match run_amp 4 (grover_circuit 2 3 2 c1 2), run_amp 5 (grover_circuit 2 4 3 c2 2) with
  | Some (l1, k1), Some (l2, k2) =>
      k1 = k2 /\ marginal 3 l1 = marginal 3 l2 /\
      (marginal 3 l1, k1) = ([(0, 512%Z); (1, 512%Z); (2, 512%Z); (3, 31232%Z)], 15%nat) /\
      (let c := c_iter 2 2 1 c_init in (c_prob c false, c_prob c true, grover_k 2 2)) = (512%Z, 31232%Z, 15%nat)
  | _, _ => False
  end.
Proof. vm_compute. repeat split; reflexivity. Qed.
