(* Prop_C02.v — "The circuit computes the function's boolean expressions".
   The property is decided per compiled program by c02_check, evaluated by
   vm_compute on the implementation's own gate list, expression list and qubit
   map; this file states what a passing verdict means, for EVERY program. *)
From Coq Require Import List Bool NArith Arith.
From QV Require Import Bexp BexpTT Circ Compiled M_Names P_Names.
Import ListNotations.
Local Open Scope N_scope.

(* c02_check returns `Some 0` exactly when the gate list is classical and, for
   every one of the 2^n basis inputs (all other qubits zero), each return symbol's
   qubit ends up holding the value of its expression list entry *)
Theorem C02_checker_sound_and_complete : forall n nq c ds rets,
  c02_check n nq c ds rets = Some 0 <-> all_classical c = true /\ c02_holds n c ds rets.
Proof. exact c02_check_correct. Qed.
Print Assumptions C02_checker_sound_and_complete.

(* a failing verdict yields a concrete input on which some output qubit is wrong *)
Theorem C02_truth_table_reads_one_input : forall m env e x,
  N.testbit m x = true ->
  N.testbit (tt_eval m env e) x = beval (fun i => N.testbit (env i) x) e.
Proof. exact tt_eval_spec. Qed.
Print Assumptions C02_truth_table_reads_one_input.

Theorem C02_table_simulation_is_reference_simulation : forall m x c tbl,
  N.testbit m x = true ->
  opt_rel (fun t' f' => forall q, proj x t' q = f' q) (sim (tt_alg m) tbl c) (fsim (proj x tbl) c).
Proof. intros m x c tbl H. now apply sim_tt_spec. Qed.
Print Assumptions C02_table_simulation_is_reference_simulation.

(* the name add_ancilla gives a new scratch qubit ("anc_r") is never the name of a program symbol
   (taken = the indices k for which "anc_k" is the name of a parameter or local), it is the first
   such index from the number of ancillas on, one always exists, and without a clash it is the
   name the synthesiser always used *)
Theorem C02_ancilla_name_is_fresh : forall k0 taken r, fresh_anc k0 taken = Some r ->
  ~ In r taken /\ (k0 <= r)%nat /\ forall j, (k0 <= j < r)%nat -> In j taken.
Proof. exact fresh_anc_spec. Qed.
Print Assumptions C02_ancilla_name_is_fresh.

Theorem C02_ancilla_name_exists : forall k0 taken, exists r, fresh_anc k0 taken = Some r.
Proof. exact fresh_anc_total. Qed.
Print Assumptions C02_ancilla_name_exists.

Theorem C02_ancilla_name_unchanged_without_clash : forall k0 taken, ~ In k0 taken -> fresh_anc k0 taken = Some k0.
Proof. exact fresh_anc_no_clash. Qed.
Print Assumptions C02_ancilla_name_unchanged_without_clash.

Example C02_example_ancilla_name : fresh_anc 1 [1; 2; 5]%nat = Some 3%nat /\ fresh_anc 0 [1; 2]%nat = Some 0%nat.
Proof. split; vm_compute; reflexivity. Qed.

(* non-vacuity: a correct and an incorrect synthesis of _ret = a & b *)
Example C02_example_pass :
  c02_check 2 3 [mkg KCCX [0;1;2]%nat None] [(3%nat, BAnd [BSym 0; BSym 1])] [(3, 2)%nat] = Some 0.
Proof. vm_compute. reflexivity. Qed.
Example C02_example_fail :
  exists d, c02_check 2 3 [mkg KCX [0;2]%nat None] [(3%nat, BAnd [BSym 0; BSym 1])] [(3, 2)%nat] = Some d /\ d <> 0.
Proof. eexists. split; [vm_compute; reflexivity|discriminate]. Qed.
