(* M_Bridge.v — the BRIDGE between the two descriptions of qlasskit's front end:

     M_A2A.v   the source-to-source normaliser, with an UNTYPED reference evaluator over
               Python values (bool / unbounded int / tuple), names are strings;
     M_Texp.v  the expression / statement translator, with a TYPED reference evaluator over
               qlasskit values (bool, Qint[w] modulo 2^w, Qfixed, Qchar, tuples), names are
               numbers.

   This file: (1) [conv_*], a purely syntactic translation of the normal form M_A2A produces
   into the language of M_Texp ([None] outside the common fragment); (2) [erase], from typed
   values to Python values; (3) [exact_*], a decidable predicate computed ALONG the typed
   evaluation: "no result was reduced modulo 2^w, no coercion changed a value".  In that
   regime the two evaluators agree (P_Bridge.v).

   NAMES.  [conv] is relative to a list [ns] of strings (the names of the function: arguments,
   assigned names, temporaries).  The name x is mapped to  idn ns x = 1 + (index of the first
   occurrence of x in ns); a name that is not in ns is not converted (None).  So idn ns is
   injective on the names that are converted (P_Bridge.idn_inj) and never yields 0 = ret_id,
   the reserved name `_ret`.

   FRAGMENT of [conv] (bool / Qint / tuples):
     names; bool and int constants; not; and / or; ONE comparison == != < <= > >=;
     + - * % & | ^; << >> by a non-negative int constant; if-expressions; tuples;
     subscripts x[i0][i1]... of a NAME by non-negative int constants; int(e);
     statements  x = e,  return e,  e  (and the empty expression statement).
   NOT converted (with the reason):
     ~a            the two evaluators DIFFER: Python ~3 == -4, qlasskit Qint[2] ~3 == 0
                   (two's complement of the width); no value is `exact`
     -a, +a        the translator rejects them
     / // ** @     the translator rejects them
     calls         (casts Qint4(x), float(), user functions) the untyped evaluator gives
                   non-builtin calls an ARBITRARY interpretation [ext]; no typed meaning is
                   tied to it here.  int(a) IS converted (a builtin on both sides; exact on
                   integers only: int() of a Qfixed truncates)
     float / str constants, Constant holding a node, List, For / If / AugAssign / tuple
     targets (ast2ast removes them: C01a_normal_form).

   No proofs here. *)
From Coq Require Import List Bool NArith ZArith Arith String.
From QV Require Import Bits Bexp BexpTT M_Codec Generated M_Types M_Texp.
From QV Require M_A2A.
Import ListNotations.
Module A := M_A2A.

(* ------------------------------------------------------------------ *)
(* names                                                               *)
(* ------------------------------------------------------------------ *)
Fixpoint pos (x : string) (ns : list string) : nat :=
  match ns with
  | [] => 0
  | y :: r => if String.eqb x y then 0 else S (pos x r)
  end.
Definition idn (ns : list string) (x : string) : ident := S (pos x ns).
Definition known (ns : list string) (x : string) : bool := existsb (String.eqb x) ns.

(* ------------------------------------------------------------------ *)
(* conv: expressions                                                   *)
(* ------------------------------------------------------------------ *)
Definition conv_cst (c : A.cst) : option cst :=
  match c with
  | A.CBool b => Some (CBool b)
  | A.CInt z => Some (CInt z)
  | _ => None
  end.
Definition conv_bop (op : A.boolop) : bop := match op with A.And => BoAnd | A.Or => BoOr end.
Definition conv_cop (op : A.cmpop) : option cop :=
  match op with
  | A.Eq => Some CoEq | A.NotEq => Some CoNe | A.Lt => Some CoLt | A.LtE => Some CoLe
  | A.Gt => Some CoGt | A.GtE => Some CoGe | _ => None
  end.
Definition conv_aop (op : A.binop) : option aop :=
  match op with
  | A.Add => Some AoAdd | A.Sub => Some AoSub | A.Mult => Some AoMul | A.Mod => Some AoMod
  | A.BitXor => Some AoXor | A.BitAnd => Some AoAnd | A.BitOr => Some AoOr
  | A.LShift => Some AoShl | A.RShift => Some AoShr
  | _ => None
  end.
(* a shift needs a non-negative int constant on the right *)
Definition shift_ok (op : A.binop) (b : A.exp) : bool :=
  match op with
  | A.LShift | A.RShift =>
      match b with A.EConst (A.CInt k) => (0 <=? k)%Z | _ => false end
  | _ => true
  end.

(* x[i0][i1]...: the name and the path (outermost subscript = last index) *)
Fixpoint conv_sub (ns : list string) (e : A.exp) (acc : list nat) : option (ident * list nat) :=
  match e with
  | A.EName x => if known ns x then Some (idn ns x, acc) else None
  | A.ESubscript v s =>
      match s with
      | A.EConst (A.CInt z) => if (z <? 0)%Z then None else conv_sub ns v (Z.to_nat z :: acc)
      | _ => None
      end
  | _ => None
  end.

Fixpoint conv_exp (ns : list string) (e : A.exp) {struct e} : option pexp :=
  let fix go (l : list A.exp) : option (list pexp) :=
    match l with
    | [] => Some []
    | x :: r => match conv_exp ns x, go r with Some a, Some b => Some (a :: b) | _, _ => None end
    end in
  match e with
  | A.EName x => if known ns x then Some (EName (idn ns x)) else None
  | A.EConst c => option_map EConst (conv_cst c)
  | A.EBoolOp op l => option_map (EBoolOp (conv_bop op)) (go l)
  | A.EUnOp op a =>
      match op with
      | A.Not => option_map (EUn UoNot) (conv_exp ns a)
      | _ => None
      end
  | A.ECompare op a b =>
      match conv_cop op, conv_exp ns a, conv_exp ns b with
      | Some o, Some a', Some b' => Some (ECmp o a' b')
      | _, _, _ => None
      end
  | A.EBinOp op a b =>
      if shift_ok op b then
        match conv_aop op, conv_exp ns a, conv_exp ns b with
        | Some o, Some a', Some b' => Some (EBin o a' b')
        | _, _, _ => None
        end
      else None
  | A.EIfExp c t f =>
      match conv_exp ns c, conv_exp ns t, conv_exp ns f with
      | Some c', Some t', Some f' => Some (EIf c' t' f')
      | _, _, _ => None
      end
  | A.ETuple l => option_map ETuple (go l)
  | A.ESubscript v s =>
      match conv_sub ns (A.ESubscript v s) [] with
      | Some (x, p) => Some (ESub x p)
      | None => None
      end
  | A.ECall g args =>
      (* int(a): a builtin of the untyped evaluator, the identity on integers *)
      if String.eqb g "int" then
        match args with
        | [a] => option_map EInt (conv_exp ns a)
        | _ => None
        end
      else None
  | _ => None
  end.

Definition conv_list (ns : list string) := fix go (l : list A.exp) : option (list pexp) :=
  match l with
  | [] => Some []
  | x :: r => match conv_exp ns x, go r with Some a, Some b => Some (a :: b) | _, _ => None end
  end.

(* ------------------------------------------------------------------ *)
(* conv: statements, bodies, signatures                                *)
(* ------------------------------------------------------------------ *)
Definition conv_stmt (ns : list string) (s : A.stmt) : option pstmt :=
  match s with
  | A.SAssign (A.TName x) e =>
      if known ns x then option_map (SAssign (idn ns x)) (conv_exp ns e) else None
  | A.SReturn e => option_map SReturn (conv_exp ns e)
  | A.SExpr (Some e) => option_map SExpr (conv_exp ns e)
  | A.SExpr None => Some (SExpr (EConst (CBool true)))
  | _ => None
  end.

Fixpoint conv_body (ns : list string) (b : list A.stmt) : option (list pstmt) :=
  match b with
  | [] => Some []
  | s :: r => match conv_stmt ns s, conv_body ns r with Some a, Some c => Some (a :: c) | _, _ => None end
  end.

(* the body has exactly one Return, and it is its last statement.  (The untyped evaluator
   STOPS at the first Return; the typed one, like translate_ast, goes through every statement
   and rejects a second Return: the two agree only on this shape.) *)
Fixpoint ret_last (b : list pstmt) : bool :=
  match b with
  | [] => false
  | s :: r =>
      match s, r with
      | SReturn _, [] => true
      | SReturn _, _ => false
      | SRaise, _ => false
      | _, _ => ret_last r
      end
  end.

(* annotations (after ReplaceTypeAnn): bool, Qint[w], Tuple[t1, ...] *)
Fixpoint conv_ty (e : A.exp) {struct e} : option ty :=
  match e with
  | A.EName t => if String.eqb t "bool" then Some TBool else None
  | A.ESubscript hd s =>
      match hd with
      | A.EName t =>
          if String.eqb t "Qint" then
            match s with
            | A.EConst (A.CInt z) => if (z <? 0)%Z then None else Some (TQint (Z.to_nat z))
            | _ => None
            end
          else if String.eqb t "Tuple" then
            match s with
            | A.ETuple l =>
                option_map TTuple
                  ((fix go (l : list A.exp) : option (list ty) :=
                      match l with
                      | [] => Some []
                      | x :: r => match conv_ty x, go r with Some a, Some b => Some (a :: b) | _, _ => None end
                      end) l)
            | _ => None
            end
          else None
      | _ => None
      end
  | _ => None
  end.

Fixpoint conv_args (ns : list string) (l : list (string * option A.exp)) : option (list (ident * ty)) :=
  match l with
  | [] => Some []
  | (x, Some t) :: r =>
      if known ns x then
        match conv_ty t, conv_args ns r with
        | Some t', Some r' => Some ((idn ns x, t') :: r')
        | _, _ => None
        end
      else None
  | _ => None
  end.

Definition conv_sig (ns : list string) (f : A.fundef) : option (list (ident * ty) * ty) :=
  match conv_args ns (A.f_args f), A.f_ret f with
  | Some args, Some t => option_map (fun rt => (args, rt)) (conv_ty t)
  | _, _ => None
  end.

(* ------------------------------------------------------------------ *)
(* erase: typed values -> Python values                                *)
(* ------------------------------------------------------------------ *)
(* Qfixed / Qchar have no counterpart among the values of M_A2A: [plain] excludes them *)
Fixpoint erase (v : value) : A.val :=
  match v with
  | VB b => A.VBool b
  | VI _ n => A.VInt (Z.of_N n)
  | VT l => A.VTup (map erase l)
  | _ => A.VTup []
  end.
Fixpoint plain (v : value) : bool :=
  match v with
  | VB _ | VI _ _ => true
  | VT l => forallb plain l
  | _ => false
  end.

(* the Python environment that holds the erased typed arguments *)
Definition arg_rho (names : list string) (vs : list value) : A.env :=
  A.env_of (combine names (map erase vs)).

(* ------------------------------------------------------------------ *)
(* exact: the typed evaluation never wrapped                           *)
(* ------------------------------------------------------------------ *)
(* the exact result of x op y fits the width the typed evaluator gives it *)
Definition fits (op : aop) (sh : option nat) (wl wr : nat) (x y : N) : bool :=
  let w := Nat.max wl wr in
  match op with
  | AoAdd => (x + y <? pw w)%N
  | AoSub => (y <=? x)%N && (x - y <? pw w)%N
  | AoMul => (x * y <? pw (mul_sizing (w + w)))%N
  | AoShl => match sh with Some k => (x * pw k <? pw wl)%N | None => false end
  | AoMod | AoXor | AoAnd | AoOr | AoShr => true
  | AoOther => false
  end.

(* the path goes through tuples only (a[i] on a Qint is a BIT in qlasskit, an error in Python) *)
Fixpoint sub_tup (v : value) (p : list nat) : bool :=
  match p with
  | [] => true
  | i :: r =>
      match v with
      | VT l => match nth_error l i with Some v' => sub_tup v' r | None => false end
      | _ => false
      end
  end.

(* comparisons: bool with bool, integer with integer, tuples of those (Qfixed / Qchar have no
   Python counterpart here) *)
Definition cmp_kind (a b : value) : bool :=
  match a, b with
  | VB _, VB _ => true
  | VI _ _, VI _ _ => true
  | VT _, VT _ => plain a && plain b
  | _, _ => false
  end.

Fixpoint exact_exp (V : venv) (e : pexp) {struct e} : bool :=
  match e with
  | EName _ => true
  | ESub x p => match lookup V x with Some v => sub_tup v p | None => false end
  | EBoolOp _ l => forallb (exact_exp V) l
  | EUn op a => match op with UoNot => exact_exp V a | _ => false end
  | EIf c t f =>
      (* only the branch that is taken has to be exact *)
      exact_exp V c &&
      match eval_exp V c with
      | Some (VB true) => exact_exp V t
      | Some (VB false) => exact_exp V f
      | _ => false
      end
  | EConst c => match c with CBool _ | CInt _ => true | _ => false end
  | ETuple l => forallb (exact_exp V) l
  | ECmp op a b =>
      exact_exp V a && exact_exp V b &&
      match eval_exp V a, eval_exp V b with
      | Some va, Some vb => cmp_kind va vb
      | _, _ => false
      end
  | EBin op a b =>
      exact_exp V a && exact_exp V b &&
      match eval_exp V a, eval_exp V b with
      | Some (VB _), Some (VB _) => true
      | Some (VI wl x), Some (VI wr y) =>
          fits op (match b with EConst c => shift_amount c | _ => None end) wl wr x y
      | _, _ => false
      end
  | EInt a => exact_exp V a && match eval_exp V a with Some (VI _ _) => true | _ => false end
  | _ => false
  end.

(* the return coercion keeps the value: a wider integer fits the declared width *)
Definition ret_exact (rt : ty) (v : value) : bool :=
  match v, rt with
  | VI _ n, TQint r => (n <? pw r)%N
  | _, _ => true
  end.

Definition exact_stmt (V : venv) (rt : ty) (s : pstmt) : bool :=
  match s with
  | SAssign _ e | SExpr e => exact_exp V e
  | SReturn e =>
      exact_exp V e &&
      match eval_exp V e with Some v => ret_exact rt v && plain v | None => false end
  | SRaise => false
  end.

Fixpoint exact_body (V : venv) (rt : ty) (body : list pstmt) : bool :=
  match body with
  | [] => true
  | s :: r =>
      exact_stmt V rt s &&
      match eval_stmt V rt s with Some V' => exact_body V' rt r | None => false end
  end.

Definition exact_fun (args : list (ident * ty)) (rt : ty) (body : list pstmt) (vs : list value) : bool :=
  exact_body (combine (map fst args) vs) rt body.
