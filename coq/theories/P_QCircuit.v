(* P_QCircuit.v — theorems about the circuit composition operators of
   M_QCircuit.v, proved over an ABSTRACT semantics (Section Unitary): a type U
   with an equivalence, an associative composition with identity, a denotation
   of every gate and an action of qubit permutations.  The laws used (self-inverse
   gates, CP(-t) inverse of CP(t), disjoint swaps commute, denotation commutes
   with qubit renaming, barriers denote the identity) are Section hypotheses,
   discharged at End Section; each theorem depends only on the ones it uses.
   The section is then instantiated (laws PROVED) by an exact semantics of the
   permutation+phase gates (X Y Z S T P CX CZ CP CCX MCX MCtrl Swap) whose
   classical part is the fsim of Circ.v. *)
From Coq Require Import List Bool NArith ZArith Arith Lia Setoid Morphisms QArith.
From QV Require Import Circ M_QCircuit.
Import ListNotations.
Local Open Scope nat_scope.

(* ------------------------------------------------------------------ *)
(* plain facts about the model                                          *)
(* ------------------------------------------------------------------ *)
Record perm := mkperm {
  pf : nat -> nat; pinv : nat -> nat;
  pinv_pf : forall x, pinv (pf x) = x;
  pf_pinv : forall x, pf (pinv x) = x }.

Definition gmap (f : nat -> nat) (g : qgate) : qgate :=
  mkq (qobj g) (qkind g) (map f (qqs g)) (qpar g).
Definition gate_ok (g : qgate) : Prop := NoDup (qqs g) /\ length (qqs g) = arity (qkind g).
Definition in_range (n : nat) (l : list qgate) : Prop :=
  Forall (fun g => Forall (fun q => q < n) (qqs g)) l.
Definition gsig (g : qgate) : pgate := (qkind g, qqs g, qpar g).
Definition phase_neg (p : phase) : phase :=
  match p with PhNone => PhNone | PhRat z n => PhRat (- z) n | PhPi2 s k => PhPi2 (negb s) k end.
Definition ginv (g : pgate) : pgate := match g with (k, qs, p) => (k, qs, phase_neg p) end.
Definition ids_consistent (l : list qgate) : Prop :=
  forall a b, In a l -> In b l -> qobj a = qobj b -> qkind a = qkind b.
Definition extends (p : perm) (qs : list nat) : Prop :=
  forall i, i < length qs -> pf p i = nth i qs 0.

Lemma nodupb_NoDup l : nodupb l = true -> NoDup l.
Proof.
  induction l as [|x r IH]; cbn [nodupb]; intros H; [constructor|].
  apply andb_prop in H as [H1 H2]. constructor; [|now apply IH].
  intros Hin. apply negb_true_iff in H1.
  assert (existsb (Nat.eqb x) r = true); [|congruence].
  apply existsb_exists. exists x. split; [exact Hin|apply Nat.eqb_refl].
Qed.

Lemma NoDup_nodupb l : NoDup l -> nodupb l = true.
Proof.
  induction 1 as [|x r Hx _ IH]; cbn [nodupb]; [reflexivity|].
  rewrite IH, andb_true_r. apply negb_true_iff.
  destruct (existsb (Nat.eqb x) r) eqn:E; [|reflexivity].
  apply existsb_exists in E as (y & Hy & Hxy). apply Nat.eqb_eq in Hxy. now subst.
Qed.

Lemma list_nat_eqb_eq a : forall b, list_nat_eqb a b = true -> a = b.
Proof.
  induction a as [|x a IH]; intros [|y b]; cbn [list_nat_eqb]; try discriminate; [reflexivity|].
  intros H. apply andb_prop in H as [H1 H2]. apply Nat.eqb_eq in H1. f_equal; [exact H1|now apply IH].
Qed.

Lemma phase_eqb_eq p q : phase_eqb p q = true -> p = q.
Proof.
  destruct p, q; cbn [phase_eqb]; try discriminate; try reflexivity; intros H;
    apply andb_prop in H as [H1 H2].
  - apply Z.eqb_eq in H1. apply N.eqb_eq in H2. now subst.
  - apply Bool.eqb_prop in H1. apply Nat.eqb_eq in H2. now subst.
Qed.

Lemma qgate_eqb_spec a b : qgate_eqb a b = true ->
  qobj a = qobj b /\ qqs a = qqs b /\ qpar a = qpar b.
Proof.
  unfold qgate_eqb. intros H. apply andb_prop in H as [H H3]. apply andb_prop in H as [H1 H2].
  apply Nat.eqb_eq in H1. apply list_nat_eqb_eq in H2. apply phase_eqb_eq in H3. auto.
Qed.

Lemma qc_append_ok strict c g c' : qc_append strict c g = Ok c' ->
  c' = mkc (cn c) (cgates c ++ [g]) /\ gate_ok g /\
  Forall (fun q => range_bad strict (cn c) q = false) (qqs g).
Proof.
  unfold qc_append.
  destruct (existsb (range_bad strict (cn c)) (qqs g)) eqn:E1; [discriminate|].
  destruct (nodupb (qqs g)) eqn:E2; cbn [negb]; [|discriminate].
  destruct (length (qqs g) =? arity (qkind g)) eqn:E3; cbn [negb]; [|discriminate].
  intros H. injection H as <-. split; [reflexivity|]. split.
  - split; [now apply nodupb_NoDup|now apply Nat.eqb_eq].
  - apply Forall_forall. intros q Hq.
    destruct (range_bad strict (cn c) q) eqn:E; [|reflexivity].
    assert (existsb (range_bad strict (cn c)) (qqs g) = true); [|congruence].
    apply existsb_exists. now exists q.
Qed.

Lemma qc_append_succeeds strict c g : gate_ok g -> Forall (fun q => q < cn c) (qqs g) ->
  qc_append strict c g = Ok (mkc (cn c) (cgates c ++ [g])).
Proof.
  intros [Hnd Har] Hr. unfold qc_append.
  assert (E1 : existsb (range_bad strict (cn c)) (qqs g) = false).
  { destruct (existsb _ _) eqn:E; [|reflexivity].
    apply existsb_exists in E as (q & Hq & Hb). rewrite Forall_forall in Hr. specialize (Hr q Hq).
    unfold range_bad in Hb. destruct strict; [apply Nat.leb_le in Hb|apply Nat.ltb_lt in Hb]; lia. }
  rewrite E1, (NoDup_nodupb _ Hnd). cbn [negb].
  apply Nat.eqb_eq in Har. now rewrite Har.
Qed.

Lemma qc_extend_ok strict : forall gl c c', qc_extend strict c gl = Ok c' ->
  c' = mkc (cn c) (cgates c ++ gl) /\ Forall gate_ok gl.
Proof.
  induction gl as [|g r IH]; intros c c'; cbn [qc_extend].
  - intros H. injection H as <-. rewrite app_nil_r. destruct c; auto.
  - destruct (qc_append strict c g) as [c1|e] eqn:E; cbn [bind]; [|discriminate].
    intros H. apply qc_append_ok in E as (-> & Hok & _).
    apply IH in H as [-> Hr]. cbn [cn cgates]. rewrite <- app_assoc. split; [reflexivity|].
    now constructor.
Qed.

Lemma qc_extend_succeeds strict : forall gl c, Forall gate_ok gl -> in_range (cn c) gl ->
  qc_extend strict c gl = Ok (mkc (cn c) (cgates c ++ gl)).
Proof.
  induction gl as [|g r IH]; intros c Hok Hr; cbn [qc_extend].
  - rewrite app_nil_r. now destruct c.
  - inversion Hok; inversion Hr; subst.
    rewrite qc_append_succeeds by assumption. cbn [bind].
    rewrite IH by assumption. cbn [cn cgates]. now rewrite <- app_assoc.
Qed.

(* remapping *)
Lemma map_opt_nth_error qs (f : nat -> nat) : (forall i, i < length qs -> f i = nth i qs 0) ->
  forall w w', map_opt (nth_error qs) w = Some w' -> w' = map f w /\ Forall (fun q => q < length qs) w.
Proof.
  intros Hf. induction w as [|x w IH]; intros w'; cbn [map_opt].
  - intros H. injection H as <-. auto.
  - destruct (nth_error qs x) as [y|] eqn:E; [|discriminate].
    destruct (map_opt (nth_error qs) w) as [r|]; [|discriminate].
    intros H. injection H as <-. destruct (IH r eq_refl) as [-> Hr].
    assert (Hx : x < length qs) by (apply nth_error_Some; congruence).
    split; [|now constructor]. cbn [map]. f_equal.
    rewrite Hf by exact Hx. symmetry. now apply nth_error_nth.
Qed.

Lemma map_opt_remap qs (f : nat -> nat) : (forall i, i < length qs -> f i = nth i qs 0) ->
  forall l l', map_opt (remap qs) l = Some l' -> l' = map (gmap f) l /\ in_range (length qs) l.
Proof.
  intros Hf. induction l as [|g l IH]; intros l'; cbn [map_opt].
  - intros H. injection H as <-. split; [reflexivity|constructor].
  - unfold remap at 1. destruct (map_opt (nth_error qs) (qqs g)) as [w|] eqn:E; [|discriminate].
    destruct (map_opt (remap qs) l) as [r|]; [|discriminate].
    intros H. injection H as <-. destruct (IH r eq_refl) as [-> Hr].
    destruct (map_opt_nth_error qs f Hf _ _ E) as [-> Hw].
    split; [reflexivity|now constructor].
Qed.

Lemma map_opt_remap_succeeds qs : forall l, in_range (length qs) l ->
  exists l', map_opt (remap qs) l = Some l'.
Proof.
  induction l as [|g l IH]; intros H; [now exists []|].
  inversion H as [|? ? Hg Hl]; subst. destruct (IH Hl) as [r Hr].
  assert (Hw : exists w, map_opt (nth_error qs) (qqs g) = Some w).
  { clear - Hg. induction (qqs g) as [|x w IHw]; [now exists []|].
    inversion Hg; subst. destruct IHw as [w' Hw']; [assumption|].
    destruct (nth_error qs x) as [y|] eqn:E.
    - exists (y :: w'). cbn [map_opt]. now rewrite E, Hw'.
    - apply nth_error_None in E. lia. }
  destruct Hw as [w Hw]. eexists. cbn [map_opt]. unfold remap at 1. rewrite Hw, Hr. reflexivity.
Qed.

Lemma gmap_id_ext f g : (forall q, In q (qqs g) -> f q = q) -> gmap f g = g.
Proof.
  intros H. destruct g as [o k qs p]. unfold gmap. cbn [qobj qkind qqs qpar] in *. f_equal.
  induction qs as [|x r IH]; [reflexivity|]. cbn [map]. f_equal.
  - apply H. now left.
  - apply IH. intros q Hq. apply H. now right.
Qed.

Lemma qc_iadd_ok c o c' : qc_iadd c o = Ok c' ->
  c' = mkc (cn c) (cgates c ++ cgates o) /\ in_range (cn o) (cgates o).
Proof.
  unfold qc_iadd, qc_append_circuit.
  destruct (cn c <? cn o); [discriminate|]. rewrite seq_length, Nat.eqb_refl. cbn [negb].
  destruct (map_opt (remap (seq 0 (cn o))) (cgates o)) as [og|] eqn:E; [|discriminate].
  intros H. injection H as <-.
  assert (Hf : forall i, i < length (seq 0 (cn o)) -> (fun x : nat => x) i = nth i (seq 0 (cn o)) 0).
  { intros i Hi. rewrite seq_length in Hi. now rewrite seq_nth. }
  destruct (map_opt_remap _ _ Hf _ _ E) as [-> Hr]. rewrite seq_length in Hr.
  split; [|exact Hr]. f_equal. f_equal.
  rewrite <- (map_id (cgates o)) at 2. apply map_ext. intros g. apply gmap_id_ext. reflexivity.
Qed.

Lemma qc_iadd_succeeds c o : cn o <= cn c -> in_range (cn o) (cgates o) ->
  qc_iadd c o = Ok (mkc (cn c) (cgates c ++ cgates o)).
Proof.
  intros Hn Hr. unfold qc_iadd.
  destruct (qc_append_circuit c o (seq 0 (cn o))) as [c'|e] eqn:E.
  - apply qc_iadd_ok in E as [-> _]. reflexivity.
  - exfalso. unfold qc_append_circuit in E.
    destruct (Nat.ltb_spec (cn c) (cn o)); [lia|]. rewrite seq_length, Nat.eqb_refl in E. cbn [negb] in E.
    rewrite <- (seq_length (cn o) 0) in Hr. destruct (map_opt_remap_succeeds _ _ Hr) as [l' Hl'].
    now rewrite Hl' in E.
Qed.

(* qft / iqft gate lists *)
Lemma cp_row_inv q : forall rest d, map ginv (cp_row false q d rest) = cp_row true q d rest.
Proof. induction rest as [|r rest IH]; intros d; cbn [cp_row map ginv phase_neg negb]; [reflexivity|now rewrite IH]. Qed.

Lemma iqft_core_inv wl : iqft_core wl = map ginv (rev (qft_core wl)).
Proof.
  induction wl as [|q rest IH]; [reflexivity|].
  cbn [qft_core iqft_core]. rewrite rev_app_distr. cbn [rev]. rewrite !map_app, <- IH.
  rewrite map_rev, cp_row_inv. reflexivity.
Qed.

Lemma iqft_gates_shape wl :
  iqft_gates wl = qft_swaps wl ++ map ginv (rev (qft_core wl)) /\
  qft_gates wl = qft_core wl ++ qft_swaps wl.
Proof. split; [unfold iqft_gates; now rewrite iqft_core_inv|reflexivity]. Qed.

Lemma cp_row_in neg q : forall rest d g, In g (cp_row neg q d rest) ->
  exists r k, In r rest /\ g = (KCP, [r; q], PhPi2 neg k).
Proof.
  induction rest as [|r rest IH]; intros d g; cbn [cp_row]; [intros []|].
  intros [<-|H]; [exists r, (d + 2); split; [now left|reflexivity]|].
  destruct (IH _ _ H) as (r' & k & Hr & ->). exists r', k. split; [now right|reflexivity].
Qed.

Lemma qft_core_in wl : NoDup wl -> forall g, In g (qft_core wl) ->
  (exists q, g = (K1 BH, [q], PhNone)) \/
  (exists r q k, r <> q /\ g = (KCP, [r; q], PhPi2 false k)).
Proof.
  induction 1 as [|q rest Hq Hnd IH]; intros g; cbn [qft_core]; [intros []|].
  intros [<-|H]; [left; now exists q|]. apply in_app_or in H as [H|H]; [|now apply IH].
  right. destruct (cp_row_in _ _ _ _ _ H) as (r & k & Hr & ->). exists r, q, k. split; [|reflexivity].
  intros ->. contradiction.
Qed.

Lemma number_sig : forall l fresh, map gsig (number fresh l) = l.
Proof.
  induction l as [|[[k qs] p] l IH]; intros fresh; cbn [number map]; [reflexivity|].
  rewrite IH. reflexivity.
Qed.

Lemma shift_id_eqb off a b : qgate_eqb (shift_id off a) (shift_id off b) = qgate_eqb a b.
Proof.
  unfold qgate_eqb, shift_id. cbn [qobj qqs qpar]. f_equal. f_equal.
  destruct (Nat.eqb_spec (qobj a) (qobj b)) as [->|H]; [apply Nat.eqb_refl|apply Nat.eqb_neq; lia].
Qed.

(* ------------------------------------------------------------------ *)
(* the abstract semantics                                               *)
(* ------------------------------------------------------------------ *)
Section Unitary.
  Variable U : Type.
  Variable ueq : U -> U -> Prop.
  Variable comp : U -> U -> U.          (* comp a b : a first, then b *)
  Variable uid : U.
  Variable den : gk -> list nat -> phase -> U.
  Variable ren : perm -> U -> U.        (* the same operation on renamed qubits *)
  Infix "=~" := ueq (at level 70).

  Hypothesis ueq_equiv : Equivalence ueq.
  Hypothesis comp_proper : Proper (ueq ==> ueq ==> ueq) comp.
  Hypothesis comp_assoc : forall a b c, comp (comp a b) c =~ comp a (comp b c).
  Hypothesis comp_id_l : forall a, comp uid a =~ a.
  Hypothesis comp_id_r : forall a, comp a uid =~ a.
  Local Existing Instance ueq_equiv.
  Local Existing Instance comp_proper.

  (* renaming *)
  Hypothesis ren_proper : forall p, Proper (ueq ==> ueq) (ren p).
  Hypothesis ren_id : forall p, ren p uid =~ uid.
  Hypothesis ren_comp : forall p a b, ren p (comp a b) =~ comp (ren p a) (ren p b).
  Hypothesis den_ren : forall p k qs ph, den k (map (pf p) qs) ph =~ ren p (den k qs ph).
  (* gate laws *)
  Hypothesis den_barrier : forall qs ph, den KBarrier qs ph =~ uid.
  Hypothesis den_selfinv : forall k qs ph, self_inv_kind k = true ->
    NoDup qs -> length qs = arity k -> comp (den k qs ph) (den k qs ph) =~ uid.
  Hypothesis den_cp_inv : forall a b ph, a <> b ->
    comp (den KCP [a; b] ph) (den KCP [a; b] (phase_neg ph)) =~ uid.
  Hypothesis den_swap_comm : forall a b c d, a <> c -> a <> d -> b <> c -> b <> d ->
    comp (den (K1 BSwap) [a; b] PhNone) (den (K1 BSwap) [c; d] PhNone)
    =~ comp (den (K1 BSwap) [c; d] PhNone) (den (K1 BSwap) [a; b] PhNone).

  Definition useq (l : list U) : U := fold_right comp uid l.
  Definition gden (g : qgate) : U := den (qkind g) (qqs g) (qpar g).
  Definition cden (l : list qgate) : U := useq (map gden l).
  Definition pden (g : pgate) : U := den (fst (fst g)) (snd (fst g)) (snd g).
  Definition pcden (l : list pgate) : U := useq (map pden l).
  Fixpoint upow (n : nat) (u : U) : U := match n with 0 => uid | S n' => comp u (upow n' u) end.

  Lemma useq_app a b : useq (a ++ b) =~ comp (useq a) (useq b).
  Proof.
    induction a as [|x a IH]; cbn [app useq fold_right].
    - symmetry. apply comp_id_l.
    - fold (useq (a ++ b)). fold (useq a). rewrite IH. symmetry. apply comp_assoc.
  Qed.

  Lemma cden_app a b : cden (a ++ b) =~ comp (cden a) (cden b).
  Proof. unfold cden. rewrite map_app. apply useq_app. Qed.

  Lemma cden_cons g l : cden (g :: l) = comp (gden g) (cden l).
  Proof. reflexivity. Qed.

  Lemma cden_single g : cden [g] =~ gden g.
  Proof. cbn. apply comp_id_r. Qed.

  Lemma cden_sig a b : map gsig a = map gsig b -> cden a = cden b.
  Proof.
    revert b. induction a as [|x a IH]; intros [|y b]; cbn [map]; try discriminate; [reflexivity|].
    intros H. injection H as H1 H2 H3 H4. rewrite !cden_cons, (IH _ H4). unfold gden. now rewrite H1, H2, H3.
  Qed.

  (* ---------------- append ---------------- *)
  Theorem append_den strict c g c' : qc_append strict c g = Ok c' ->
    cn c' = cn c /\ cgates c' = cgates c ++ [g] /\
    cden (cgates c') =~ comp (cden (cgates c)) (gden g).
  Proof.
    intros H. apply qc_append_ok in H as (-> & _ & _). cbn [cn cgates].
    split; [reflexivity|]. split; [reflexivity|]. rewrite cden_app. now rewrite cden_single.
  Qed.

  (* ---------------- append_circuit ---------------- *)
  Lemma cden_gmap p l : cden (map (gmap (pf p)) l) =~ ren p (cden l).
  Proof.
    induction l as [|g l IH]; cbn [map].
    - symmetry. apply ren_id.
    - rewrite !cden_cons, ren_comp, IH. unfold gden, gmap. cbn [qkind qqs qpar].
      now rewrite den_ren.
  Qed.

  Theorem append_circuit_den c o qs c' p : qc_append_circuit c o qs = Ok c' ->
    extends p qs ->
    cn c' = cn c /\ cgates c' = cgates c ++ map (gmap (pf p)) (cgates o) /\
    length qs = cn o /\ in_range (cn o) (cgates o) /\
    cden (cgates c') =~ comp (cden (cgates c)) (ren p (cden (cgates o))).
  Proof.
    unfold qc_append_circuit. intros H Hp.
    destruct (cn c <? cn o); [discriminate|].
    destruct (Nat.eqb_spec (length qs) (cn o)) as [Hl|]; cbn [negb] in H; [|discriminate].
    destruct (map_opt (remap qs) (cgates o)) as [og|] eqn:E; [|discriminate].
    injection H as <-. destruct (map_opt_remap qs (pf p) Hp _ _ E) as [-> Hr]. cbn [cn cgates].
    rewrite Hl in Hr. repeat split; try assumption.
    rewrite cden_app. now rewrite cden_gmap.
  Qed.

  (* ---------------- __iadd__ / __add__ ---------------- *)
  Theorem iadd_den c o c' : qc_iadd c o = Ok c' ->
    cn c' = cn c /\ cgates c' = cgates c ++ cgates o /\
    cden (cgates c') =~ comp (cden (cgates c)) (cden (cgates o)).
  Proof.
    intros H. apply qc_iadd_ok in H as [-> _]. cbn [cn cgates].
    split; [reflexivity|]. split; [reflexivity|]. apply cden_app.
  Qed.

  Lemma copy_sig off c : map gsig (cgates (qc_copy off c)) = map gsig (cgates c).
  Proof. cbn [qc_copy cgates]. rewrite map_map. reflexivity. Qed.

  Theorem copy_den off c : cn (qc_copy off c) = cn c /\
    map gsig (cgates (qc_copy off c)) = map gsig (cgates c) /\
    cden (cgates (qc_copy off c)) = cden (cgates c).
  Proof. split; [reflexivity|]. split; [apply copy_sig|]. apply cden_sig, copy_sig. Qed.

  Theorem add_den off c1 c2 c : qc_add off c1 c2 = Ok c ->
    cn c = cn c1 /\ map gsig (cgates c) = map gsig (cgates c1) ++ map gsig (cgates c2) /\
    cden (cgates c) =~ comp (cden (cgates c1)) (cden (cgates c2)).
  Proof.
    unfold qc_add. intros H. apply iadd_den in H as (Hn & Hg & Hd).
    split; [exact Hn|]. split.
    - rewrite Hg, map_app, copy_sig. reflexivity.
    - rewrite Hd. now rewrite (proj2 (proj2 (copy_den off c1))).
  Qed.

  (* ---------------- repeat ---------------- *)
  Lemma repeat_loop_den : forall k i w o acc r, repeat_loop k i w o acc = Ok r ->
    cn r = cn acc /\ cden (cgates r) =~ comp (cden (cgates acc)) (upow k (cden (cgates o))).
  Proof.
    induction k as [|k IH]; intros i w o acc r; cbn [repeat_loop upow].
    - intros H. injection H as <-. split; [reflexivity|]. symmetry. apply comp_id_r.
    - destruct (qc_iadd acc (qc_copy (w * i) o)) as [a|e] eqn:E; cbn [bind]; [|discriminate].
      intros H. apply IH in H as [Hn Hd]. apply iadd_den in E as (En & _ & Ed).
      split; [congruence|]. rewrite Hd, Ed.
      rewrite (proj2 (proj2 (copy_den (w * i) o))). apply comp_assoc.
  Qed.

  Theorem repeat_den zero_empty n c r : qc_repeat zero_empty n c = Ok r ->
    1 <= n \/ zero_empty = true ->
    cn r = cn c /\ cden (cgates r) =~ upow n (cden (cgates c)).
  Proof.
    unfold qc_repeat. intros H Hg.
    destruct (zero_empty && (n =? 0)) eqn:Ez.
    - injection H as <-. apply andb_prop in Ez as [_ Ez]. apply Nat.eqb_eq in Ez. subst n.
      split; reflexivity.
    - assert (Hn : 1 <= n).
      { destruct Hg as [Hg| ->]; [exact Hg|]. cbn [andb] in Ez. apply Nat.eqb_neq in Ez. lia. }
      apply repeat_loop_den in H as [Hn' Hd]. split; [exact Hn'|].
      rewrite Hd, !(proj2 (proj2 (copy_den _ c))).
      destruct n as [|n]; [lia|]. replace (S n - 1) with n by lia. reflexivity.
  Qed.

  (* what today's code returns for n = 0: exactly what it returns for n = 1, one copy *)
  Theorem repeat_today_zero c :
    qc_repeat false 0 c = qc_repeat false 1 c /\
    qc_repeat false 0 c = Ok (qc_copy (2 * id_bound (cgates c)) c).
  Proof. split; reflexivity. Qed.

  Lemma repeat_loop_succeeds : forall k i w o acc, cn o <= cn acc -> in_range (cn o) (cgates o) ->
    exists r, repeat_loop k i w o acc = Ok r.
  Proof.
    induction k as [|k IH]; intros i w o acc Hn Hr; cbn [repeat_loop]; [now eexists|].
    rewrite qc_iadd_succeeds.
    - cbn [bind]. apply IH; assumption.
    - exact Hn.
    - cbn [qc_copy cn cgates]. unfold in_range. rewrite Forall_map. exact Hr.
  Qed.

  Theorem repeat_succeeds zero_empty n c : in_range (cn c) (cgates c) ->
    exists r, qc_repeat zero_empty n c = Ok r.
  Proof.
    intros Hr. unfold qc_repeat. destruct (zero_empty && (n =? 0)); [now eexists|].
    apply repeat_loop_succeeds; cbn [qc_copy cn cgates]; [lia|].
    unfold in_range. rewrite Forall_map. exact Hr.
  Qed.

  (* ---------------- remove_identities ---------------- *)
  Lemma pop_barrier_den guard rres r' : pop_barrier guard rres = Ok r' ->
    cden (rev r') =~ cden (rev rres).
  Proof.
    destruct rres as [|x rest]; cbn [pop_barrier].
    - destruct guard; [|discriminate]. intros H. now injection H as <-.
    - intros H. injection H as <-. destruct (is_barrier x) eqn:E; [|reflexivity].
      cbn [rev]. rewrite cden_app, cden_single. unfold gden, is_barrier in *.
      destruct (qkind x); try discriminate. rewrite den_barrier. symmetry. apply comp_id_r.
  Qed.

  Lemma ri_loop_den selfinv guard : forall n l rres r, length l <= n ->
    (forall a b, In a l -> In b l -> cancels selfinv a b = true -> comp (gden a) (gden b) =~ uid) ->
    ri_loop selfinv guard l rres = Ok r ->
    cden r =~ comp (cden (rev rres)) (cden l).
  Proof.
    induction n as [|n IH]; intros l rres r Hn Hc.
    - destruct l; [|cbn in Hn; lia]. cbn [ri_loop]. intros H. injection H as <-.
      symmetry. apply comp_id_r.
    - destruct l as [|a [|b l2]]; cbn [ri_loop].
      + intros H. injection H as <-. symmetry. apply comp_id_r.
      + intros H. injection H as <-. cbn [rev]. apply cden_app.
      + assert (Hstep : forall r0, ri_loop selfinv guard (b :: l2) (a :: rres) = Ok r0 ->
                  cden r0 =~ comp (cden (rev rres)) (cden (a :: b :: l2))).
        { intros r0 H. apply IH in H; [| cbn [length] in *; lia |].
          - rewrite H. cbn [rev]. rewrite cden_app, cden_single, comp_assoc. reflexivity.
          - intros x y Hx Hy. apply Hc; now right. }
        destruct (cancels selfinv a b) eqn:Eab.
        * destruct (pop_barrier guard rres) as [r'|e] eqn:Ep; [|discriminate].
          intros H. apply IH in H; [| cbn [length] in *; lia |].
          -- rewrite H, (pop_barrier_den _ _ _ Ep). rewrite !cden_cons.
             rewrite <- (comp_assoc (gden a)). rewrite (Hc a b); [|now left|right; now left|exact Eab].
             now rewrite comp_id_l.
          -- intros x y Hx Hy. apply Hc; right; now right.
        * destruct l2 as [|c l3]; [exact (Hstep r)|].
          destruct (cancels selfinv a c && is_barrier b) eqn:Eac; [|exact (Hstep r)].
          apply andb_prop in Eac as [Eac Eb].
          destruct (pop_barrier guard rres) as [r'|e] eqn:Ep; [|discriminate].
          intros H. apply IH in H; [| cbn [length] in *; lia |].
          -- rewrite H, (pop_barrier_den _ _ _ Ep). rewrite !cden_cons.
             assert (Hb : gden b =~ uid).
             { unfold gden, is_barrier in *. destruct (qkind b); try discriminate. apply den_barrier. }
             rewrite Hb, comp_id_l, <- (comp_assoc (gden a)).
             rewrite (Hc a c); [|now left|right; right; now left|exact Eac].
             now rewrite comp_id_l.
          -- intros x y Hx Hy. apply Hc; right; right; now right.
  Qed.

  Lemma ri_loop_cons2 selfinv guard a b l2 rres :
    ri_loop selfinv guard (a :: b :: l2) rres =
    if cancels selfinv a b then
      match pop_barrier guard rres with Err e => Err e | Ok r' => ri_loop selfinv guard l2 r' end
    else match l2 with
         | [] => ri_loop selfinv guard (b :: l2) (a :: rres)
         | c :: l3 =>
           if cancels selfinv a c && is_barrier b then
             match pop_barrier guard rres with Err e => Err e | Ok r' => ri_loop selfinv guard l3 r' end
           else ri_loop selfinv guard (b :: l2) (a :: rres)
         end.
  Proof. destruct l2; reflexivity. Qed.

  Lemma ri_loop_total selfinv : forall n l rres, length l <= n ->
    exists r, ri_loop selfinv true l rres = Ok r.
  Proof.
    induction n as [|n IH]; intros l rres Hn.
    - destruct l; [|cbn in Hn; lia]. now eexists.
    - destruct l as [|a [|b l2]]; [now eexists|now eexists|].
      rewrite ri_loop_cons2.
      assert (Hp : exists r', pop_barrier true rres = Ok r').
      { destruct rres; cbn [pop_barrier]; now eexists. }
      destruct Hp as [r' Hp].
      assert (H1 : exists r, ri_loop selfinv true (b :: l2) (a :: rres) = Ok r).
      { apply IH. cbn [length] in *. lia. }
      destruct (cancels selfinv a b).
      + rewrite Hp. apply IH. cbn [length] in *. lia.
      + destruct l2 as [|c l3]; [exact H1|].
        destruct (cancels selfinv a c && is_barrier b); [|exact H1].
        rewrite Hp. apply IH. cbn [length] in *. lia.
  Qed.

  (* the exact guard: every pair the loop may cancel is one self-inverse,
     well-formed gate applied twice *)
  Definition pairs_self_inverse (selfinv : bool) (l : list qgate) : Prop :=
    forall a b, In a l -> In b l -> cancels selfinv a b = true -> self_inv_kind (qkind a) = true.

  Lemma cancels_den selfinv l : ids_consistent l -> Forall gate_ok l -> pairs_self_inverse selfinv l ->
    forall a b, In a l -> In b l -> cancels selfinv a b = true -> comp (gden a) (gden b) =~ uid.
  Proof.
    intros Hid Hok Hp a b Ha Hb Hc. pose proof (Hp a b Ha Hb Hc) as Hs.
    unfold cancels in Hc. apply andb_prop in Hc as [Hc _]. apply qgate_eqb_spec in Hc as (Ho & Hq & Hpar).
    pose proof (Hid a b Ha Hb Ho) as Hk. unfold gden. rewrite <- Hk, <- Hq, <- Hpar.
    rewrite Forall_forall in Hok. destruct (Hok a Ha) as [Hnd Har]. now apply den_selfinv.
  Qed.

  Theorem remove_identities_den selfinv guard c c' :
    ids_consistent (cgates c) -> Forall gate_ok (cgates c) ->
    pairs_self_inverse selfinv (cgates c) ->
    remove_identities selfinv guard c = Ok c' ->
    cn c' = cn c /\ cden (cgates c') =~ cden (cgates c).
  Proof.
    intros Hid Hok Hp. unfold remove_identities.
    destruct (ri_loop selfinv guard (cgates c) []) as [r|e] eqn:E; [|discriminate].
    intros H. injection H as <-. cbn [cn cgates]. split; [reflexivity|].
    apply (ri_loop_den selfinv guard (length (cgates c))) in E; [|lia|now apply cancels_den].
    rewrite E. cbn [rev]. apply comp_id_l.
  Qed.

  (* after the patch the guard on the pairs holds by construction and no error is possible *)
  Lemma patched_pairs l : pairs_self_inverse true l.
  Proof. intros a b _ _ H. unfold cancels in H. now apply andb_prop in H as [_ H]. Qed.

  Theorem remove_identities_patched c : ids_consistent (cgates c) -> Forall gate_ok (cgates c) ->
    exists c', remove_identities true true c = Ok c' /\ cn c' = cn c /\
               cden (cgates c') =~ cden (cgates c).
  Proof.
    intros Hid Hok. destruct (ri_loop_total true (length (cgates c)) (cgates c) [] (le_n _)) as [r Hr].
    exists (mkc (cn c) r). assert (E : remove_identities true true c = Ok (mkc (cn c) r)).
    { unfold remove_identities. now rewrite Hr. }
    split; [exact E|]. now apply (remove_identities_den true true c _ Hid Hok (patched_pairs _)).
  Qed.

  (* ---------------- qft / iqft ---------------- *)
  Lemma cden_number : forall l fresh, cden (number fresh l) = pcden l.
  Proof.
    induction l as [|[[k qs] p] l IH]; intros fresh; [reflexivity|].
    cbn [number]. rewrite cden_cons, IH. reflexivity.
  Qed.

  Lemma pcden_app a b : pcden (a ++ b) =~ comp (pcden a) (pcden b).
  Proof. unfold pcden. rewrite map_app. apply useq_app. Qed.

  Lemma inv_sandwich : forall l m, (forall g, In g l -> comp (pden g) (pden (ginv g)) =~ uid) ->
    pcden m =~ uid -> pcden (l ++ m ++ map ginv (rev l)) =~ uid.
  Proof.
    induction l as [|g l IH]; intros m Hl Hm.
    - cbn [rev map app]. now rewrite app_nil_r.
    - cbn [rev app]. rewrite map_app. cbn [map].
      change (pcden (g :: l ++ m ++ map ginv (rev l) ++ [ginv g]))
        with (comp (pden g) (pcden (l ++ m ++ map ginv (rev l) ++ [ginv g]))).
      replace (l ++ m ++ map ginv (rev l) ++ [ginv g]) with ((l ++ m ++ map ginv (rev l)) ++ [ginv g])
        by (now rewrite <- !app_assoc).
      rewrite pcden_app, IH; [|intros x Hx; apply Hl; now right|exact Hm].
      rewrite comp_id_l. change (pcden [ginv g]) with (comp (pden (ginv g)) uid).
      rewrite comp_id_r. apply Hl. now left.
  Qed.

  Lemma commute_seq s : forall r, (forall g, In g r -> comp (pden s) (pden g) =~ comp (pden g) (pden s)) ->
    comp (pden s) (pcden r) =~ comp (pcden r) (pden s).
  Proof.
    induction r as [|g r IH]; intros H.
    - change (pcden []) with uid. now rewrite comp_id_l, comp_id_r.
    - change (pcden (g :: r)) with (comp (pden g) (pcden r)).
      rewrite <- comp_assoc, (H g) by now left. rewrite comp_assoc, IH, comp_assoc; [reflexivity|].
      intros x Hx. apply H. now right.
  Qed.

  Lemma double_cancel : forall l, (forall g, In g l -> comp (pden g) (pden g) =~ uid) ->
    (forall a b, In a l -> In b l -> comp (pden a) (pden b) =~ comp (pden b) (pden a)) ->
    pcden (l ++ l) =~ uid.
  Proof.
    induction l as [|s r IH]; intros Hs Hc; [reflexivity|].
    change (pcden ((s :: r) ++ s :: r)) with (comp (pden s) (pcden (r ++ s :: r))).
    rewrite pcden_app. change (pcden (s :: r)) with (comp (pden s) (pcden r)).
    rewrite <- (comp_assoc (pcden r)), <- commute_seq.
    - rewrite (comp_assoc (pden s) (pcden r)), <- comp_assoc, Hs by now left.
      rewrite comp_id_l, <- pcden_app. apply IH.
      + intros g Hg. apply Hs. now right.
      + intros a b Ha Hb. apply Hc; now right.
    - intros g Hg. apply Hc; [now left|now right].
  Qed.

  Lemma swaps_cancel wl : NoDup wl -> pcden (qft_swaps wl ++ qft_swaps wl) =~ uid.
  Proof.
    intros Hnd. set (n := length wl).
    assert (Hdiv : 2 * (n / 2) <= n) by (apply Nat.mul_div_le; lia).
    assert (Hne : forall i j, i < n -> j < n -> i <> j -> nth i wl 0 <> nth j wl 0).
    { intros i j Hi Hj Hij He. apply Hij. now apply (NoDup_nth wl 0). }
    apply double_cancel.
    - intros g Hg. unfold qft_swaps in Hg. apply in_map_iff in Hg as (i & <- & Hi).
      apply in_seq in Hi. fold n in Hi |- *. unfold pden. cbn [fst snd].
      apply den_selfinv; [reflexivity| |reflexivity].
      constructor; [|constructor; [intros []|constructor]].
      intros [H|[]]. symmetry in H. revert H. apply Hne; lia.
    - intros a b Ha Hb. unfold qft_swaps in Ha, Hb.
      apply in_map_iff in Ha as (i & <- & Hi). apply in_map_iff in Hb as (j & <- & Hj).
      apply in_seq in Hi. apply in_seq in Hj. fold n in Hi, Hj |- *. unfold pden. cbn [fst snd].
      destruct (Nat.eq_dec i j) as [->|Hij]; [reflexivity|].
      apply den_swap_comm; apply Hne; lia.
  Qed.

  Theorem qft_iqft_gates wl : NoDup wl -> pcden (qft_gates wl ++ iqft_gates wl) =~ uid.
  Proof.
    intros Hnd. unfold qft_gates, iqft_gates. rewrite iqft_core_inv.
    rewrite <- app_assoc, (app_assoc (qft_swaps wl)).
    apply inv_sandwich; [|now apply swaps_cancel].
    intros g Hg. destruct (qft_core_in wl Hnd g Hg) as [[q ->]|(r & q & k & Hrq & ->)].
    - unfold pden. cbn [ginv phase_neg fst snd]. apply den_selfinv; [reflexivity| |reflexivity].
      constructor; [intros []|constructor].
    - unfold pden. cbn [ginv fst snd]. now apply den_cp_inv.
  Qed.

  Theorem iqft_inverts_qft strict c f1 f2 wl c1 c2 : NoDup wl ->
    qc_qft strict c f1 wl = Ok c1 -> qc_iqft strict c1 f2 wl = Ok c2 ->
    cn c2 = cn c /\ cden (cgates c2) =~ cden (cgates c).
  Proof.
    unfold qc_qft, qc_iqft. intros Hnd H1 H2.
    apply qc_extend_ok in H1 as [-> _]. apply qc_extend_ok in H2 as [-> _]. cbn [cn cgates].
    split; [reflexivity|]. rewrite <- app_assoc, cden_app, cden_app, !cden_number, <- pcden_app.
    rewrite (qft_iqft_gates wl Hnd). apply comp_id_r.
  Qed.
End Unitary.

(* ------------------------------------------------------------------ *)
(* every duplicate-free qubit list extends to a permutation of the      *)
(* qubit indices (so the renaming theorem is never vacuous)             *)
(* ------------------------------------------------------------------ *)
Definition transp (a b x : nat) : nat := if x =? a then b else if x =? b then a else x.

Lemma transp_invol a b x : transp a b (transp a b x) = x.
Proof.
  unfold transp.
  destruct (Nat.eqb_spec x a) as [->|Hxa].
  - destruct (Nat.eqb_spec b a) as [->|Hba]; [reflexivity|]. now rewrite Nat.eqb_refl.
  - destruct (Nat.eqb_spec x b) as [->|Hxb].
    + now rewrite Nat.eqb_refl.
    + destruct (Nat.eqb_spec x a); [contradiction|]. destruct (Nat.eqb_spec x b); [contradiction|reflexivity].
Qed.

Definition ptransp (a b : nat) : perm :=
  mkperm (transp a b) (transp a b) (transp_invol a b) (transp_invol a b).

Definition pid : perm := mkperm (fun x => x) (fun x => x) (fun _ => eq_refl) (fun _ => eq_refl).

Lemma pcomp_l (p q : perm) x : pinv q (pinv p (pf p (pf q x))) = x.
Proof. now rewrite !pinv_pf. Qed.
Lemma pcomp_r (p q : perm) x : pf p (pf q (pinv q (pinv p x))) = x.
Proof. now rewrite !pf_pinv. Qed.
Definition pcomp (p q : perm) : perm :=
  mkperm (fun x => pf p (pf q x)) (fun x => pinv q (pinv p x)) (pcomp_l p q) (pcomp_r p q).

Fixpoint build (i : nat) (qs : list nat) (p : perm) : perm :=
  match qs with
  | [] => p
  | a :: r => build (S i) r (pcomp p (ptransp i (pinv p a)))
  end.

Lemma build_spec : forall qs done p, NoDup (done ++ qs) ->
  (forall x, x < length done -> pf p x = nth x done 0) ->
  forall x, x < length (done ++ qs) -> pf (build (length done) qs p) x = nth x (done ++ qs) 0.
Proof.
  induction qs as [|a r IH]; intros done p Hnd Hp x Hx; cbn [build].
  - rewrite app_nil_r in *. now apply Hp.
  - set (i := length done). set (j := pinv p a).
    assert (Hj : i <= j).
    { destruct (Nat.le_gt_cases i j) as [H|H]; [exact H|]. exfalso.
      apply NoDup_remove_2 in Hnd. apply Hnd. apply in_or_app. left.
      assert (Ha : nth j done 0 = a) by (rewrite <- Hp by exact H; apply pf_pinv).
      rewrite <- Ha. now apply nth_In. }
    replace (done ++ a :: r) with ((done ++ [a]) ++ r) in * by (now rewrite <- app_assoc).
    replace (S i) with (length (done ++ [a])) by (rewrite app_length; cbn; lia).
    apply IH; [exact Hnd| |exact Hx].
    intros y Hy. rewrite app_length in Hy. cbn [length] in Hy. cbn [pcomp pf ptransp]. unfold transp.
    destruct (Nat.eqb_spec y i) as [->|Hyi].
    + fold j. unfold j. rewrite pf_pinv. unfold i. now rewrite nth_middle.
    + assert (Hlt : y < i) by (fold i in Hy; lia).
      destruct (Nat.eqb_spec y j) as [->|_]; [lia|].
      rewrite app_nth1 by exact Hlt. now apply Hp.
Qed.

Theorem extend_exists qs : NoDup qs -> exists p, extends p qs.
Proof.
  intros H. exists (build 0 qs pid). intros x Hx.
  apply (build_spec qs [] pid H); [cbn; lia|exact Hx].
Qed.

Lemma extends_NoDup p qs : extends p qs -> NoDup qs.
Proof.
  intros H. apply (NoDup_nth qs 0). intros i j Hi Hj E.
  rewrite <- (H i Hi), <- (H j Hj) in E.
  rewrite <- (pinv_pf p i), <- (pinv_pf p j). now rewrite E.
Qed.

(* ------------------------------------------------------------------ *)
(* An instance with the laws PROVED: the exact semantics of the gates    *)
(* that map a basis state to a basis state times a phase.  A state is   *)
(* (bits, phase); a phase (t, r) stands for e^{i(2 pi t + r)} with t, r  *)
(* rational: t collects the multiples of 2 pi (Z = 1/2, S = 1/4, T = 1/8,*)
(* 2 pi/2^k = 1/2^k), r the float parameters in radians.  Since pi is    *)
(* irrational, two such phases are equal iff the r are equal and the t   *)
(* differ by an integer, which is [ph_eq].  H is not of this form: this  *)
(* instance reads it as the identity (which satisfies the law H;H = id). *)
(* The bit part of X/CX/CCX/MCX is the fflip of Circ.v.                  *)
(* ------------------------------------------------------------------ *)
Require Import Lqa.

Definition bits := nat -> bool.
Definition beq (s s' : bits) : Prop := forall q, s q = s' q.

Definition ph := (Q * Q)%type.
Definition ph0 : ph := (0, 0)%Q.
Definition ph_add (a b : ph) : ph := (fst a + fst b, snd a + snd b)%Q.
Definition ph_eq (a b : ph) : Prop :=
  (exists m : Z, fst a - fst b == inject_Z m)%Q /\ (snd a == snd b)%Q.

Lemma ph_eq_refl a : ph_eq a a.
Proof. split; [exists 0%Z; change (inject_Z 0) with 0%Q; lra|reflexivity]. Qed.
Lemma ph_eq_sym a b : ph_eq a b -> ph_eq b a.
Proof.
  intros [[m Hm] Hr]. split; [|now symmetry]. exists (- m)%Z. rewrite inject_Z_opp. lra.
Qed.
Lemma ph_eq_trans a b c : ph_eq a b -> ph_eq b c -> ph_eq a c.
Proof.
  intros [[m Hm] Hr] [[m' Hm'] Hr']. split; [|now rewrite Hr].
  exists (m + m')%Z. rewrite inject_Z_plus. lra.
Qed.
Lemma ph_add_proper a a' b b' : ph_eq a a' -> ph_eq b b' -> ph_eq (ph_add a b) (ph_add a' b').
Proof.
  intros [[m Hm] Hr] [[m' Hm'] Hr']. unfold ph_eq, ph_add. cbn [fst snd]. split; [|lra].
  exists (m + m')%Z. rewrite inject_Z_plus. lra.
Qed.
Lemma ph_add_assoc a b c : ph_eq (ph_add (ph_add a b) c) (ph_add a (ph_add b c)).
Proof. unfold ph_eq, ph_add. cbn [fst snd]. split; [exists 0%Z; change (inject_Z 0) with 0%Q; lra|lra]. Qed.
Lemma ph_add_0_l a : ph_eq (ph_add ph0 a) a.
Proof. unfold ph_eq, ph_add, ph0. cbn [fst snd]. split; [exists 0%Z; change (inject_Z 0) with 0%Q; lra|lra]. Qed.
Lemma ph_add_0_r a : ph_eq (ph_add a ph0) a.
Proof. unfold ph_eq, ph_add, ph0. cbn [fst snd]. split; [exists 0%Z; change (inject_Z 0) with 0%Q; lra|lra]. Qed.

Record mono := mkmono {
  mperm : bits -> bits;
  mph : bits -> ph;
  mperm_ext : forall s s', beq s s' -> beq (mperm s) (mperm s');
  mph_ext : forall s s', beq s s' -> ph_eq (mph s) (mph s') }.

Definition mueq (u v : mono) : Prop :=
  forall s, beq (mperm u s) (mperm v s) /\ ph_eq (mph u s) (mph v s).

Lemma mueq_equiv : Equivalence mueq.
Proof.
  split.
  - intros u s. split; [intros q; reflexivity|apply ph_eq_refl].
  - intros u v H s. destruct (H s) as [H1 H2]. split; [intros q; now rewrite H1|now apply ph_eq_sym].
  - intros u v w H H' s. destruct (H s) as [H1 H2], (H' s) as [H3 H4].
    split; [intros q; now rewrite H1|eapply ph_eq_trans; eassumption].
Qed.

Lemma mcomp_ext1 (u v : mono) s s' : beq s s' -> beq (mperm v (mperm u s)) (mperm v (mperm u s')).
Proof. intros H. apply mperm_ext. now apply mperm_ext. Qed.
Lemma mcomp_ext2 (u v : mono) s s' : beq s s' ->
  ph_eq (ph_add (mph u s) (mph v (mperm u s))) (ph_add (mph u s') (mph v (mperm u s'))).
Proof. intros H. apply ph_add_proper; [now apply mph_ext|]. apply mph_ext. now apply mperm_ext. Qed.
Definition mcomp (u v : mono) : mono :=
  mkmono (fun s => mperm v (mperm u s)) (fun s => ph_add (mph u s) (mph v (mperm u s)))
         (mcomp_ext1 u v) (mcomp_ext2 u v).

Definition mid : mono :=
  mkmono (fun s => s) (fun _ => ph0) (fun s s' H => H) (fun s s' _ => ph_eq_refl ph0).

Lemma mcomp_proper : Proper (mueq ==> mueq ==> mueq) mcomp.
Proof.
  intros u u' Hu v v' Hv s. destruct (Hu s) as [H1 H2]. cbn [mcomp mperm mph]. split.
  - intros q. rewrite (mperm_ext v _ _ H1 q). apply (proj1 (Hv _)).
  - apply ph_add_proper; [exact H2|].
    eapply ph_eq_trans; [apply (mph_ext v _ _ H1)|apply (proj2 (Hv _))].
Qed.

Lemma mcomp_assoc a b c : mueq (mcomp (mcomp a b) c) (mcomp a (mcomp b c)).
Proof. intros s. cbn [mcomp mperm mph]. split; [intros q; reflexivity|apply ph_add_assoc]. Qed.
Lemma mcomp_id_l a : mueq (mcomp mid a) a.
Proof. intros s. cbn [mcomp mid mperm mph]. split; [intros q; reflexivity|apply ph_add_0_l]. Qed.
Lemma mcomp_id_r a : mueq (mcomp a mid) a.
Proof. intros s. cbn [mcomp mid mperm mph]. split; [intros q; reflexivity|apply ph_add_0_r]. Qed.

(* ---- gates ---- *)
Definition flipb (s : bits) (t : nat) : bits := fun q => if q =? t then negb (s t) else s q.
Definition swapb (s : bits) (a b : nat) : bits :=
  fun q => if q =? a then s b else if q =? b then s a else s q.

Definition base_perm (b : base) (ts : list nat) (s : bits) : bits :=
  match b, ts with
  | BX, [t] => flipb s t
  | BY, [t] => flipb s t
  | BSwap, [a; c] => swapb s a c
  | _, _ => s
  end.

Definition phase_val (p : phase) : ph :=
  match p with
  | PhNone => ph0
  | PhRat z n => match n with N0 => ph0 | Npos d => (0, z # d)%Q end
  | PhPi2 neg k => ((if neg then (-1)%Z else 1%Z) # Pos.shiftl_nat 1 k, 0)%Q
  end.

Definition onbit (s : bits) (t : nat) (v : ph) : ph := if s t then v else ph0.

Definition base_ph (b : base) (ts : list nat) (par : phase) (s : bits) : ph :=
  match b, ts with
  | BZ, [t] => onbit s t (1 # 2, 0)%Q
  | BS, [t] => onbit s t (1 # 4, 0)%Q
  | BT, [t] => onbit s t (1 # 8, 0)%Q
  | BP, [t] => onbit s t (phase_val par)
  | BY, [t] => if s t then (3 # 4, 0)%Q else (1 # 4, 0)%Q
  | _, _ => ph0
  end.

(* (number of controls, controlled base gate) of each gate class *)
Definition decode (k : gk) : nat * base :=
  match k with
  | K1 b => (0, b)
  | KCX => (1, BX) | KCZ => (1, BZ) | KCP => (1, BP) | KCCX => (2, BX)
  | KMCX n => (n, BX)
  | KMCtrl b n => (n, b)
  | KBarrier | KNop => (0, BI)
  end.

Definition act_perm (cs : list nat) (b : base) (ts : list nat) (s : bits) : bits :=
  if forallb s cs then base_perm b ts s else s.
Definition act_ph (cs : list nat) (b : base) (ts : list nat) (par : phase) (s : bits) : ph :=
  if forallb s cs then base_ph b ts par s else ph0.

Lemma base_perm_ext b ts s s' : beq s s' -> beq (base_perm b ts s) (base_perm b ts s').
Proof.
  intros H q. destruct b; destruct ts as [|t [|u [|v r]]]; cbn [base_perm]; try apply H;
    unfold flipb, swapb; now rewrite !H.
Qed.
Lemma base_ph_ext b ts par s s' : beq s s' -> base_ph b ts par s = base_ph b ts par s'.
Proof.
  intros H. destruct b; destruct ts as [|t [|u [|v r]]]; cbn [base_ph]; try reflexivity;
    unfold onbit; now rewrite H.
Qed.
Lemma act_perm_ext cs b ts s s' : beq s s' -> beq (act_perm cs b ts s) (act_perm cs b ts s').
Proof.
  intros H. unfold act_perm. rewrite (forallb_ext_in s s' cs H).
  destruct (forallb s' cs); [now apply base_perm_ext|exact H].
Qed.
Lemma act_ph_ext cs b ts par s s' : beq s s' -> ph_eq (act_ph cs b ts par s) (act_ph cs b ts par s').
Proof.
  intros H. unfold act_ph. rewrite (forallb_ext_in s s' cs H), (base_ph_ext b ts par s s' H).
  apply ph_eq_refl.
Qed.

Definition mact (cs : list nat) (b : base) (ts : list nat) (par : phase) : mono :=
  mkmono (act_perm cs b ts) (act_ph cs b ts par) (act_perm_ext cs b ts) (act_ph_ext cs b ts par).

Definition mden (k : gk) (qs : list nat) (par : phase) : mono :=
  mact (firstn (fst (decode k)) qs) (snd (decode k)) (skipn (fst (decode k)) qs) par.

(* ---- renaming ---- *)
Definition pull (p : perm) (s : bits) : bits := fun i => s (pf p i).
Definition push (p : perm) (s : bits) : bits := fun q => s (pinv p q).

Lemma pull_ext p s s' : beq s s' -> beq (pull p s) (pull p s').
Proof. intros H q. apply H. Qed.
Lemma push_ext p s s' : beq s s' -> beq (push p s) (push p s').
Proof. intros H q. apply H. Qed.
Lemma pull_push p s : beq (pull p (push p s)) s.
Proof. intros q. unfold pull, push. now rewrite pinv_pf. Qed.
Lemma push_pull p s : beq (push p (pull p s)) s.
Proof. intros q. unfold pull, push. now rewrite pf_pinv. Qed.

Lemma mren_ext1 p (u : mono) s s' : beq s s' ->
  beq (push p (mperm u (pull p s))) (push p (mperm u (pull p s'))).
Proof. intros H. apply push_ext, mperm_ext, pull_ext, H. Qed.
Lemma mren_ext2 p (u : mono) s s' : beq s s' -> ph_eq (mph u (pull p s)) (mph u (pull p s')).
Proof. intros H. apply mph_ext, pull_ext, H. Qed.
Definition mren (p : perm) (u : mono) : mono :=
  mkmono (fun s => push p (mperm u (pull p s))) (fun s => mph u (pull p s))
         (mren_ext1 p u) (mren_ext2 p u).

Lemma mren_proper p : Proper (mueq ==> mueq) (mren p).
Proof.
  intros u v H s. destruct (H (pull p s)) as [H1 H2]. cbn [mren mperm mph].
  split; [now apply push_ext|exact H2].
Qed.
Lemma mren_id p : mueq (mren p mid) mid.
Proof. intros s. cbn [mren mid mperm mph]. split; [apply push_pull|apply ph_eq_refl]. Qed.
Lemma mren_comp p a b : mueq (mren p (mcomp a b)) (mcomp (mren p a) (mren p b)).
Proof.
  intros s. cbn [mren mcomp mperm mph]. split.
  - apply push_ext, mperm_ext. intros q. symmetry. apply pull_push.
  - apply ph_add_proper; [apply ph_eq_refl|]. apply mph_ext. intros q. symmetry. apply pull_push.
Qed.

Lemma forallb_map_pull p s cs : forallb s (map (pf p) cs) = forallb (pull p s) cs.
Proof. induction cs as [|c cs IH]; cbn [map forallb]; [reflexivity|now rewrite IH]. Qed.

Lemma eqb_perm p q t : (q =? pf p t) = (pinv p q =? t).
Proof.
  destruct (Nat.eqb_spec q (pf p t)) as [->|H].
  - now rewrite pinv_pf, Nat.eqb_refl.
  - symmetry. apply Nat.eqb_neq. intros <-. apply H. now rewrite pf_pinv.
Qed.

Lemma base_perm_ren p b ts s :
  beq (base_perm b (map (pf p) ts) s) (push p (base_perm b ts (pull p s))).
Proof.
  intros q. destruct b; destruct ts as [|t [|u [|v r]]]; cbn [base_perm map]; unfold push, pull;
    try (now rewrite pf_pinv); unfold flipb, swapb; rewrite !eqb_perm;
    repeat (destruct (_ =? _)); try reflexivity; now rewrite pf_pinv.
Qed.
Lemma base_ph_ren p b ts par s : base_ph b (map (pf p) ts) par s = base_ph b ts par (pull p s).
Proof. destruct b; destruct ts as [|t [|u [|v r]]]; reflexivity. Qed.

Lemma mden_ren p k qs par : mueq (mden k (map (pf p) qs) par) (mren p (mden k qs par)).
Proof.
  intros s. unfold mden. rewrite firstn_map, skipn_map. cbn [mren mact mperm mph].
  unfold act_perm, act_ph. rewrite forallb_map_pull.
  destruct (forallb (pull p s) _).
  - split; [apply base_perm_ren|rewrite base_ph_ren; apply ph_eq_refl].
  - split; [|apply ph_eq_refl]. intros q. symmetry. apply push_pull.
Qed.

(* ---- gate laws ---- *)
Lemma mden_barrier qs par : mueq (mden KBarrier qs par) mid.
Proof. intros s. split; [intros q; reflexivity|apply ph_eq_refl]. Qed.

Lemma base_perm_other b ts s q : ~ In q ts -> base_perm b ts s q = s q.
Proof.
  intros H. destruct b; destruct ts as [|t [|u [|v r]]]; cbn [base_perm]; try reflexivity;
    unfold flipb, swapb; cbn [In] in H;
    repeat (match goal with |- context [?a =? ?b] => destruct (Nat.eqb_spec a b) end);
    try reflexivity; subst; exfalso; apply H; auto.
Qed.

Lemma forallb_agree (s s' : bits) cs : (forall c, In c cs -> s' c = s c) -> forallb s' cs = forallb s cs.
Proof.
  induction cs as [|c cs IH]; intros H; cbn [forallb]; [reflexivity|].
  rewrite H by now left. rewrite IH; [reflexivity|]. intros x Hx. apply H. now right.
Qed.

Lemma NoDup_app_disjoint (a b : list nat) : NoDup (a ++ b) -> (forall x, In x a -> ~ In x b) /\ NoDup b.
Proof.
  induction a as [|x a IH]; cbn [app]; intros H; [split; [intros x []|exact H]|].
  inversion H as [|? ? Hx Hr]; subst. destruct (IH Hr) as [Hd Hb]. split; [|exact Hb].
  intros y [<-|Hy]; [|now apply Hd]. intros Hin. apply Hx, in_or_app. now right.
Qed.

Lemma base_perm_invol b ts s : NoDup ts -> beq (base_perm b ts (base_perm b ts s)) s.
Proof.
  intros Hnd q. destruct b; destruct ts as [|t [|u [|v r]]]; cbn [base_perm]; try reflexivity.
  - unfold flipb. destruct (Nat.eqb_spec q t) as [->|]; [|reflexivity].
    rewrite Nat.eqb_refl. apply negb_involutive.
  - unfold flipb. destruct (Nat.eqb_spec q t) as [->|]; [|reflexivity].
    rewrite Nat.eqb_refl. apply negb_involutive.
  - assert (Htu : t <> u) by (inversion Hnd as [|? ? Hx _]; subst; intros ->; apply Hx; now left).
    unfold swapb.
    destruct (Nat.eqb_spec q t) as [->|Hqt].
    + destruct (Nat.eqb_spec u t); [congruence|]. now rewrite Nat.eqb_refl.
    + destruct (Nat.eqb_spec q u) as [->|Hqu]; [now rewrite Nat.eqb_refl|reflexivity].
Qed.

Lemma base_ph_double b ts par s : base_selfinv b = true ->
  ph_eq (ph_add (base_ph b ts par s) (base_ph b ts par (base_perm b ts s))) ph0.
Proof.
  intros Hb. destruct b; try discriminate; destruct ts as [|t [|u [|v r]]]; cbn [base_ph base_perm];
    try apply ph_add_0_l.
  - (* Y *) unfold flipb. rewrite Nat.eqb_refl.
    destruct (s t); cbn [negb]; unfold ph_eq, ph_add, ph0; cbn [fst snd];
      (split; [exists 1%Z; change (inject_Z 1) with 1%Q; lra|lra]).
  - (* Z *) unfold onbit. destruct (s t); [|apply ph_add_0_l].
    unfold ph_eq, ph_add, ph0; cbn [fst snd]. split; [exists 1%Z; change (inject_Z 1) with 1%Q; lra|lra].
Qed.

Lemma act_selfinv cs b ts par : base_selfinv b = true ->
  (forall c, In c cs -> ~ In c ts) -> NoDup ts ->
  mueq (mcomp (mact cs b ts par) (mact cs b ts par)) mid.
Proof.
  intros Hb Hd Hnd s. cbn [mcomp mact mid mperm mph]. unfold act_perm, act_ph.
  destruct (forallb s cs) eqn:Ec.
  - assert (Ec' : forallb (base_perm b ts s) cs = true).
    { rewrite <- Ec. apply forallb_agree. intros c Hc. apply base_perm_other. now apply Hd. }
    rewrite Ec'. split; [now apply base_perm_invol|now apply base_ph_double].
  - rewrite Ec. split; [intros q; reflexivity|apply ph_add_0_l].
Qed.

Lemma selfinv_decode k : self_inv_kind k = true -> base_selfinv (snd (decode k)) = true.
Proof. destruct k as [b| | | | |n|b n| |]; cbn; try discriminate; auto. Qed.

Lemma mden_selfinv k qs par : self_inv_kind k = true -> NoDup qs -> length qs = arity k ->
  mueq (mcomp (mden k qs par) (mden k qs par)) mid.
Proof.
  intros Hk Hnd _. unfold mden. rewrite <- (firstn_skipn (fst (decode k)) qs) in Hnd.
  apply NoDup_app_disjoint in Hnd as [Hd Hn]. apply act_selfinv; [now apply selfinv_decode|exact Hd|exact Hn].
Qed.

Lemma phase_val_neg p : ph_eq (ph_add (phase_val p) (phase_val (phase_neg p))) ph0.
Proof.
  destruct p as [|z [|d]|neg k]; cbn [phase_val phase_neg]; try apply ph_add_0_l.
  - unfold ph_eq, ph_add, ph0. cbn [fst snd]. split; [exists 0%Z; change (inject_Z 0) with 0%Q; lra|].
    change (- z # d)%Q with (- (z # d))%Q. lra.
  - unfold ph_eq, ph_add, ph0. cbn [fst snd]. split; [|lra]. exists 0%Z. change (inject_Z 0) with 0%Q.
    destruct neg; cbn [negb].
    + change (-1 # Pos.shiftl_nat 1 k)%Q with (- (1 # Pos.shiftl_nat 1 k))%Q. lra.
    + change (-1 # Pos.shiftl_nat 1 k)%Q with (- (1 # Pos.shiftl_nat 1 k))%Q. lra.
Qed.

Lemma mden_cp_inv a b par : a <> b ->
  mueq (mcomp (mden KCP [a; b] par) (mden KCP [a; b] (phase_neg par))) mid.
Proof.
  intros _ s. cbn.
  assert (Hid : forall s0, act_perm [a] BP [b] s0 = s0).
  { intros s0. unfold act_perm. cbn [base_perm]. now destruct (forallb s0 [a]). }
  rewrite !Hid. split; [intros q; reflexivity|].
  unfold act_ph. destruct (forallb s [a]); [|apply ph_add_0_l].
  cbn [base_ph]. unfold onbit. destruct (s b); [apply phase_val_neg|apply ph_add_0_l].
Qed.

Lemma mden_swap_comm a b c d : a <> c -> a <> d -> b <> c -> b <> d ->
  mueq (mcomp (mden (K1 BSwap) [a; b] PhNone) (mden (K1 BSwap) [c; d] PhNone))
       (mcomp (mden (K1 BSwap) [c; d] PhNone) (mden (K1 BSwap) [a; b] PhNone)).
Proof.
  intros Hac Had Hbc Hbd s. cbn. unfold act_perm, act_ph. cbn [forallb base_perm base_ph].
  split; [|apply ph_eq_refl]. intros q. unfold swapb.
  repeat (match goal with |- context [?x =? ?y] => destruct (Nat.eqb_spec x y) end);
    subst; try reflexivity; try congruence.
Qed.

(* ------------------------------------------------------------------ *)
(* the laws, named; the theorems restated with exactly the laws they use *)
(* ------------------------------------------------------------------ *)
Section Laws.
  Variable U : Type.
  Variable ueq : U -> U -> Prop.
  Variable comp : U -> U -> U.
  Variable uid : U.
  Variable den : gk -> list nat -> phase -> U.
  Variable ren : perm -> U -> U.

  Definition monoid_laws : Prop :=
    Equivalence ueq /\ Proper (ueq ==> ueq ==> ueq) comp /\
    (forall a b c, ueq (comp (comp a b) c) (comp a (comp b c))) /\
    (forall a, ueq (comp uid a) a) /\ (forall a, ueq (comp a uid) a).
  Definition rename_laws : Prop :=
    (forall p, ueq (ren p uid) uid) /\
    (forall p a b, ueq (ren p (comp a b)) (comp (ren p a) (ren p b))) /\
    (forall p k qs ph, ueq (den k (map (pf p) qs) ph) (ren p (den k qs ph))).
  Definition barrier_law : Prop := forall qs ph, ueq (den KBarrier qs ph) uid.
  Definition selfinv_law : Prop := forall k qs ph, self_inv_kind k = true ->
    NoDup qs -> length qs = arity k -> ueq (comp (den k qs ph) (den k qs ph)) uid.
  Definition cp_inv_law : Prop := forall a b ph, a <> b ->
    ueq (comp (den KCP [a; b] ph) (den KCP [a; b] (phase_neg ph))) uid.
  Definition swap_comm_law : Prop := forall a b c d, a <> c -> a <> d -> b <> c -> b <> d ->
    ueq (comp (den (K1 BSwap) [a; b] PhNone) (den (K1 BSwap) [c; d] PhNone))
        (comp (den (K1 BSwap) [c; d] PhNone) (den (K1 BSwap) [a; b] PhNone)).

  Notation CD := (cden U comp uid den).

  Theorem L_append : monoid_laws -> forall strict c g c', qc_append strict c g = Ok c' ->
    cn c' = cn c /\ cgates c' = cgates c ++ [g] /\ gate_ok g /\
    ueq (CD (cgates c')) (comp (CD (cgates c)) (gden U den g)).
  Proof.
    intros (H1 & H2 & H3 & H4 & H5) strict c g c' H.
    destruct (append_den U ueq comp uid den H1 H2 H3 H4 H5 strict c g c' H) as (A & B & C).
    apply qc_append_ok in H as (_ & Hok & _). auto.
  Qed.

  Theorem L_append_circuit : monoid_laws -> rename_laws -> forall c o qs c' p,
    qc_append_circuit c o qs = Ok c' -> extends p qs ->
    cn c' = cn c /\ cgates c' = cgates c ++ map (gmap (pf p)) (cgates o) /\
    length qs = cn o /\ in_range (cn o) (cgates o) /\
    ueq (CD (cgates c')) (comp (CD (cgates c)) (ren p (CD (cgates o)))).
  Proof.
    intros (H1 & H2 & H3 & H4 & H5) (R1 & R2 & R3).
    exact (append_circuit_den U ueq comp uid den ren H1 H2 H3 H4 R1 R2 R3).
  Qed.

  Theorem L_add : monoid_laws -> forall off c1 c2 c, qc_add off c1 c2 = Ok c ->
    cn c = cn c1 /\ map gsig (cgates c) = map gsig (cgates c1) ++ map gsig (cgates c2) /\
    ueq (CD (cgates c)) (comp (CD (cgates c1)) (CD (cgates c2))).
  Proof. intros (H1 & H2 & H3 & H4 & H5). exact (add_den U ueq comp uid den H1 H2 H3 H4). Qed.

  Theorem L_iadd : monoid_laws -> forall c o c', qc_iadd c o = Ok c' ->
    cn c' = cn c /\ cgates c' = cgates c ++ cgates o /\
    ueq (CD (cgates c')) (comp (CD (cgates c)) (CD (cgates o))).
  Proof. intros (H1 & H2 & H3 & H4 & H5). exact (iadd_den U ueq comp uid den H1 H2 H3 H4). Qed.

  Theorem L_repeat : monoid_laws -> forall zero_empty n c r, qc_repeat zero_empty n c = Ok r ->
    1 <= n \/ zero_empty = true ->
    cn r = cn c /\ ueq (CD (cgates r)) (upow U comp uid n (CD (cgates c))).
  Proof. intros (H1 & H2 & H3 & H4 & H5). exact (repeat_den U ueq comp uid den H1 H2 H3 H4 H5). Qed.

  Theorem L_remove_identities : monoid_laws -> barrier_law -> selfinv_law ->
    forall selfinv guard c c', ids_consistent (cgates c) -> Forall gate_ok (cgates c) ->
    pairs_self_inverse selfinv (cgates c) -> remove_identities selfinv guard c = Ok c' ->
    cn c' = cn c /\ ueq (CD (cgates c')) (CD (cgates c)).
  Proof.
    intros (H1 & H2 & H3 & H4 & H5) B S.
    exact (remove_identities_den U ueq comp uid den H1 H2 H3 H4 H5 B S).
  Qed.

  Theorem L_remove_identities_patched : monoid_laws -> barrier_law -> selfinv_law ->
    forall c, ids_consistent (cgates c) -> Forall gate_ok (cgates c) ->
    exists c', remove_identities true true c = Ok c' /\ cn c' = cn c /\
               ueq (CD (cgates c')) (CD (cgates c)).
  Proof.
    intros (H1 & H2 & H3 & H4 & H5) B S.
    exact (remove_identities_patched U ueq comp uid den H1 H2 H3 H4 H5 B S).
  Qed.

  Theorem L_iqft_inverts_qft : monoid_laws -> selfinv_law -> cp_inv_law -> swap_comm_law ->
    forall strict c f1 f2 wl c1 c2, NoDup wl ->
    qc_qft strict c f1 wl = Ok c1 -> qc_iqft strict c1 f2 wl = Ok c2 ->
    cn c2 = cn c /\ ueq (CD (cgates c2)) (CD (cgates c)).
  Proof.
    intros (H1 & H2 & H3 & H4 & H5) S C W.
    exact (iqft_inverts_qft U ueq comp uid den H1 H2 H3 H4 H5 S C W).
  Qed.
End Laws.

(* qft/iqft succeed on every duplicate-free in-range list (so the theorem above is not vacuous) *)
Lemma number_ok : forall l fresh n,
  Forall (fun g : pgate => NoDup (snd (fst g)) /\ length (snd (fst g)) = arity (fst (fst g)) /\
                           Forall (fun q => q < n) (snd (fst g))) l ->
  Forall gate_ok (number fresh l) /\ in_range n (number fresh l).
Proof.
  induction l as [|[[k qs] p] l IH]; intros fresh n H; cbn [number]; [split; constructor|].
  inversion H as [|? ? (A & B & C) Hr]; subst. cbn [fst snd] in *. destruct (IH (S fresh) n Hr) as [I1 I2].
  split; constructor; try assumption. split; assumption.
Qed.

Lemma qft_gates_wf wl n : NoDup wl -> Forall (fun q => q < n) wl ->
  Forall (fun g : pgate => NoDup (snd (fst g)) /\ length (snd (fst g)) = arity (fst (fst g)) /\
                           Forall (fun q => q < n) (snd (fst g))) (qft_gates wl ++ iqft_gates wl).
Proof.
  intros Hnd Hr. rewrite Forall_forall in Hr.
  assert (Hcore : forall g, In g (qft_core wl) ->
            NoDup (snd (fst g)) /\ length (snd (fst g)) = arity (fst (fst g)) /\ Forall (fun q => q < n) (snd (fst g))).
  { intros g Hg.
    assert (Hsub : forall l, (forall g, In g (qft_core l) -> forall q, In q (snd (fst g)) -> In q l)).
    { induction l as [|q0 rest IHl]; cbn [qft_core]; [intros ? []|].
      intros g0 [<-|H0] q Hq.
      - cbn in Hq. destruct Hq as [<-|[]]. now left.
      - apply in_app_or in H0 as [H0|H0].
        + destruct (cp_row_in _ _ _ _ _ H0) as (r & k & Hr0 & ->). cbn in Hq.
          destruct Hq as [<-|[<-|[]]]; [now right|now left].
        + right. eapply IHl; eassumption. }
    destruct (qft_core_in wl Hnd g Hg) as [[q ->]|(r & q & k & Hrq & ->)]; cbn [fst snd arity base_arity].
    - split; [constructor; [intros []|constructor]|]. split; [reflexivity|].
      constructor; [|constructor]. apply Hr, (Hsub wl _ Hg). now left.
    - split; [constructor; [intros [H|[]]; congruence|constructor; [intros []|constructor]]|].
      split; [reflexivity|].
      constructor; [apply Hr, (Hsub wl _ Hg); now left|constructor; [|constructor]].
      apply Hr, (Hsub wl _ Hg). right. now left. }
  assert (Hsw : forall g, In g (qft_swaps wl) ->
            NoDup (snd (fst g)) /\ length (snd (fst g)) = arity (fst (fst g)) /\ Forall (fun q => q < n) (snd (fst g))).
  { intros g Hg. unfold qft_swaps in Hg. apply in_map_iff in Hg as (i & <- & Hi). apply in_seq in Hi.
    set (m := length wl) in *. assert (Hdiv : 2 * (m / 2) <= m) by (apply Nat.mul_div_le; lia).
    cbn [fst snd arity base_arity]. split; [|split; [reflexivity|]].
    - constructor; [|constructor; [intros []|constructor]]. intros [H|[]].
      assert (m - i - 1 = i); [|lia]. apply (NoDup_nth wl 0 ); try assumption; fold m; lia.
    - constructor; [apply Hr, nth_In; fold m; lia|constructor; [apply Hr, nth_In; fold m; lia|constructor]]. }
  apply Forall_forall. intros g Hg. unfold qft_gates, iqft_gates in Hg.
  rewrite iqft_core_inv in Hg.
  repeat (apply in_app_or in Hg as [Hg|Hg]); try (now apply Hcore); try (now apply Hsw).
  apply in_map_iff in Hg as ([[k qs] p] & <- & Hg). apply in_rev in Hg. exact (Hcore _ Hg).
Qed.

Theorem qft_iqft_succeed strict c f1 f2 wl : NoDup wl -> Forall (fun q => q < cn c) wl ->
  exists c1 c2, qc_qft strict c f1 wl = Ok c1 /\ qc_iqft strict c1 f2 wl = Ok c2.
Proof.
  intros Hnd Hr. pose proof (qft_gates_wf wl (cn c) Hnd Hr) as H. apply Forall_app in H as [Hq Hi].
  destruct (number_ok _ f1 _ Hq) as [A1 A2]. destruct (number_ok _ f2 _ Hi) as [B1 B2].
  unfold qc_qft, qc_iqft. rewrite (qc_extend_succeeds strict _ c A1 A2).
  eexists. eexists. split; [reflexivity|].
  now rewrite (qc_extend_succeeds strict _ (mkc (cn c) (cgates c ++ number f1 (qft_gates wl))) B1 B2).
Qed.

(* ------------------------------------------------------------------ *)
(* the instance satisfies every law                                     *)
(* ------------------------------------------------------------------ *)
Theorem mono_monoid : monoid_laws mono mueq mcomp mid.
Proof.
  split; [exact mueq_equiv|]. split; [exact mcomp_proper|]. split; [exact mcomp_assoc|].
  split; [exact mcomp_id_l|exact mcomp_id_r].
Qed.
Theorem mono_rename : rename_laws mono mueq mcomp mid mden mren.
Proof. split; [exact mren_id|]. split; [exact mren_comp|exact mden_ren]. Qed.
Theorem mono_barrier : barrier_law mono mueq mid mden.
Proof. exact mden_barrier. Qed.
Theorem mono_selfinv : selfinv_law mono mueq mcomp mid mden.
Proof. exact mden_selfinv. Qed.
Theorem mono_cp_inv : cp_inv_law mono mueq mcomp mid mden.
Proof. exact mden_cp_inv. Qed.
Theorem mono_swap_comm : swap_comm_law mono mueq mcomp mden.
Proof. exact mden_swap_comm. Qed.

Definition mcden : list qgate -> mono := cden mono mcomp mid mden.

(* the bit part of the instance is the classical semantics fsim of Circ.v *)
Lemma split_last (qs : list nat) n : length qs = S n ->
  firstn n qs = removelast qs /\ skipn n qs = [last qs 0].
Proof.
  intros H. assert (Hne : qs <> []) by (intros ->; discriminate).
  pose proof (app_removelast_last 0 Hne) as E.
  assert (Hl : length (removelast qs) = n).
  { rewrite E in H at 1. rewrite app_length in H. cbn in H. lia. }
  split.
  - rewrite E at 1. rewrite <- Hl. rewrite firstn_app, Nat.sub_diag, firstn_all. cbn. apply app_nil_r.
  - rewrite E at 1. rewrite <- Hl. rewrite skipn_app, Nat.sub_diag, skipn_all. reflexivity.
Qed.

Lemma gate_agrees_fsim g f :
  match cact_of (to_gate g) with
  | CFlip cs t => beq (mperm (gden mono mden g) f) (fflip f cs t)
  | CId => beq (mperm (gden mono mden g) f) f
  | CNone => True
  end.
Proof.
  destruct g as [o k qs p]. unfold cact_of, to_gate, gden. cbn [gkind gqs qkind qqs qpar].
  assert (HX : forall nc, fst (decode k) = nc -> snd (decode k) = BX ->
            (if length qs =? S nc
             then beq (mperm (mden k qs p) f) (fflip f (removelast qs) (last qs 0)) else True)).
  { intros nc H1 H2. destruct (Nat.eqb_spec (length qs) (S nc)) as [Hl|]; [|exact I].
    destruct (split_last qs nc Hl) as [Ef Es]. unfold mden. rewrite H1, H2, Ef, Es.
    cbn [mact mperm]. unfold act_perm, fflip. intros q. cbn [base_perm]. unfold flipb.
    destruct (forallb f (removelast qs)).
    - destruct (q =? last qs 0); [now rewrite xorb_true_r|reflexivity].
    - destruct (Nat.eqb_spec q (last qs 0)) as [->|]; [now rewrite xorb_false_r|reflexivity]. }
  destruct k as [b| | | | |n|b n| |]; cbn [x_controls]; try exact I;
    try (intros q; reflexivity).
  - destruct b; try exact I; try (intros q; reflexivity).
    specialize (HX 0 eq_refl eq_refl). destruct (length qs =? 1); exact HX.
  - specialize (HX 1 eq_refl eq_refl). destruct (length qs =? 2); exact HX.
  - specialize (HX 2 eq_refl eq_refl). destruct (length qs =? 3); exact HX.
  - specialize (HX n eq_refl eq_refl). destruct (length qs =? S n); exact HX.
  - destruct b; try exact I. specialize (HX n eq_refl eq_refl). destruct (length qs =? S n); exact HX.
Qed.

Theorem mono_agrees_fsim : forall l f f', fsim f (map to_gate l) = Some f' ->
  beq (mperm (mcden l) f) f'.
Proof.
  induction l as [|g l IH]; intros f f'; cbn [map fsim].
  - intros H. injection H as <-. intros q. reflexivity.
  - pose proof (gate_agrees_fsim g f) as Hg. unfold mcden. rewrite cden_cons. cbn [mcomp mperm].
    destruct (cact_of (to_gate g)) as [cs t| |]; [| |discriminate]; intros H.
    + intros q. rewrite (mperm_ext (cden mono mcomp mid mden l) _ _ Hg q). now apply IH.
    + intros q. rewrite (mperm_ext (cden mono mcomp mid mden l) _ _ Hg q). now apply IH.
Qed.

(* ------------------------------------------------------------------ *)
(* today's code refuted in the instance; the patched code on the same   *)
(* inputs                                                               *)
(* ------------------------------------------------------------------ *)
Definition bit0 : bits := fun q => q =? 0.

(* a same-object S,S pair is removed, but S;S = Z is not the identity *)
Definition ss_circ : qcirc :=
  mkc 2 [mkq 0 (K1 BH) [1] PhNone; mkq 1 (K1 BS) [0] PhNone; mkq 1 (K1 BS) [0] PhNone].

Theorem remove_identities_today_refuted :
  exists c', remove_identities false false ss_circ = Ok c' /\
             cgates c' = [mkq 0 (K1 BH) [1] PhNone] /\
             ~ mueq (mcden (cgates c')) (mcden (cgates ss_circ)).
Proof.
  eexists. split; [reflexivity|]. split; [reflexivity|]. intros H.
  destruct (H bit0) as [_ [[m Hm] _]]. cbn in Hm. unfold Qeq in Hm. cbn in Hm. lia.
Qed.

(* a leading identical pair: IndexError *)
Definition xx_circ : qcirc := mkc 1 [mkq 0 (K1 BX) [0] PhNone; mkq 0 (K1 BX) [0] PhNone].
Theorem remove_identities_today_index_error : remove_identities false false xx_circ = Err EIndex.
Proof. reflexivity. Qed.

(* patched: the S,S pair stays, the leading X,X pair is removed *)
Theorem remove_identities_patched_examples :
  remove_identities true true ss_circ = Ok ss_circ /\
  remove_identities true true xx_circ = Ok (mkc 1 []).
Proof. split; reflexivity. Qed.

(* repeat(0) of today's code is one copy, not the 0-fold composition *)
Definition x_circ : qcirc := mkc 1 [mkq 0 (K1 BX) [0] PhNone].
Theorem repeat_today_zero_refuted :
  exists r, qc_repeat false 0 x_circ = Ok r /\
            ~ mueq (mcden (cgates r)) (upow mono mcomp mid 0 (mcden (cgates x_circ))).
Proof.
  eexists. split; [reflexivity|]. intros H. destruct (H bit0) as [Hb _].
  specialize (Hb 0). vm_compute in Hb. discriminate.
Qed.

(* append of today's code accepts a qubit index equal to num_qubits *)
Theorem append_today_refuted :
  exists c', qc_append false (mkc 2 []) (mkq 0 (K1 BX) [2] PhNone) = Ok c' /\
             ~ in_range (cn c') (cgates c').
Proof.
  eexists. split; [reflexivity|]. intros H. inversion H as [|? ? Hg _]; subst.
  inversion Hg; subst. cbn in *. lia.
Qed.
Theorem append_patched_in_range c g c' : in_range (cn c) (cgates c) ->
  qc_append true c g = Ok c' -> in_range (cn c') (cgates c') /\ gate_ok g.
Proof.
  intros Hr H. apply qc_append_ok in H as (-> & Hok & Hq). split; [|exact Hok]. cbn [cn cgates].
  apply Forall_app. split; [exact Hr|]. constructor; [|constructor].
  eapply Forall_impl; [|exact Hq]. intros q Hb. cbn in Hb. apply Nat.leb_gt in Hb. exact Hb.
Qed.
