(* Prop_C03.v — "Compiled circuits are clean: inputs preserved, scratch qubits
   back to zero": meaning of a passing verdict of c03_check, for every program. *)
From Coq Require Import List Bool NArith Arith.
From QV Require Import Bexp BexpTT Circ Compiled.
Import ListNotations.
Local Open Scope N_scope.

Theorem C03_checker_sound_and_complete : forall n nq c outs,
  c03_check n nq c outs = Some 0 <-> all_classical c = true /\ c03_holds n nq c outs.
Proof. exact c03_check_correct. Qed.
Print Assumptions C03_checker_sound_and_complete.

(* c03_holds, unfolded: on every basis input the argument qubits are unchanged and
   every qubit that is neither an argument nor an output ends in state zero *)
Theorem C03_holds_means : forall n nq c outs,
  c03_holds n nq c outs <->
  (forall x, x < pow2n n ->
    exists f, fsim (basis n x) c = Some f /\
      (forall q, (q < n)%nat -> f q = N.testbit x (N.of_nat q)) /\
      (forall q, (n <= q < nq)%nat -> ~ In q outs -> f q = false)).
Proof. intros; reflexivity. Qed.
Print Assumptions C03_holds_means.

Example C03_example_pass :  (* anc = a&b; ret ^= anc; anc uncomputed *)
  c03_check 2 4 [mkg KCCX [0;1;2]%nat None; mkg KCX [2;3]%nat None; mkg KCCX [0;1;2]%nat None] [3%nat] = Some 0.
Proof. vm_compute. reflexivity. Qed.
Example C03_example_dirty :
  exists d, c03_check 2 4 [mkg KCCX [0;1;2]%nat None; mkg KCX [2;3]%nat None] [3%nat] = Some d /\ d <> 0.
Proof. eexists. split; [vm_compute; reflexivity|discriminate]. Qed.
