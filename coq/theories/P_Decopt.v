(* P_Decopt.v — theorems for C12 (circuit_boolean_optimizer):
   splice_preserves   replacing a slice by a gate list with the same action keeps
                      the action of the whole circuit (classical semantics fsim,
                      and any compositional semantics: an abstract monoid)
   optimize_preserves the model of the optimizer keeps the action of the circuit
                      when every accepted replacement acts like its slice
   opt_no_larger      the result never has more gates than the input
   circ_equiv         verified decision of "two classical gate lists act alike on
                      ALL 2^nq basis states", sound and complete *)
From Coq Require Import List Bool NArith Arith Lia.
From QV Require Import Bits Bexp BexpTT Circ Compiled M_Decompiler P_Decompiler M_Decopt.
Import ListNotations.

(* ====================================================================== *)
(* 1. lists                                                                *)
(* ====================================================================== *)
Lemma split3 {A} (c : list A) : forall s e, s <= e ->
  c = firstn s c ++ firstn (e - s) (skipn s c) ++ skipn e c.
Proof.
  induction c as [|x c IH]; intros s e H.
  - now rewrite !firstn_nil, !skipn_nil, firstn_nil.
  - destruct s as [|s].
    + cbn [firstn skipn app]. rewrite Nat.sub_0_r. symmetry. apply firstn_skipn.
    + destruct e as [|e]; [lia|]. cbn [firstn skipn app Nat.sub]. f_equal. apply IH. lia.
Qed.

Lemma circuit_split3 c s e : s <= e -> c = firstn s c ++ slice c s e ++ skipn e c.
Proof. apply split3. Qed.

Lemma splice_length c s e new : s <= e -> e <= length c ->
  length (splice c s e new) = s + length new + (length c - e).
Proof.
  intros H1 H2. unfold splice. rewrite !app_length, firstn_length, skipn_length. lia.
Qed.

Lemma firstn_splice c s e new B : B <= s -> s <= length c -> firstn B (splice c s e new) = firstn B c.
Proof.
  intros H1 H2. unfold splice. rewrite firstn_app, firstn_firstn.
  rewrite firstn_length. replace (Nat.min B s) with B by lia.
  replace (B - Nat.min s (length c)) with 0 by lia. cbn [firstn]. apply app_nil_r.
Qed.

Lemma firstn_le_eq {A} (a b : list A) B e : B <= e -> firstn e a = firstn e b -> firstn B a = firstn B b.
Proof.
  intros HB H. replace B with (Nat.min B e) by lia. rewrite <- !firstn_firstn. now rewrite H.
Qed.

Lemma slice_firstn c c' s e : firstn e c = firstn e c' -> slice c s e = slice c' s e.
Proof.
  intros H. unfold slice.
  assert (Hs : forall d : circuit, firstn (e - s) (skipn s d) = skipn s (firstn e d)).
  { intros d. destruct (Nat.le_gt_cases s e) as [Hle|Hgt].
    - rewrite skipn_firstn_comm. reflexivity.
    - replace (e - s) with 0 by lia. cbn [firstn]. symmetry. apply skipn_all2. rewrite firstn_length. lia. }
  now rewrite !Hs, H.
Qed.

(* ====================================================================== *)
(* 2. splice_preserves, classical semantics                                *)
(* ====================================================================== *)
Definition feq (a b : nat -> bool) : Prop := forall q, a q = b q.
Definition acts_alike (c1 c2 : circuit) : Prop := forall f, opt_rel feq (fsim f c1) (fsim f c2).

Lemma fsim_app a b f : fsim f (a ++ b) = match fsim f a with Some g => fsim g b | None => None end.
Proof.
  revert f. induction a as [|x a IH]; intros f; cbn [app fsim]; [reflexivity|].
  destruct (cact_of x); [apply IH|apply IH|reflexivity].
Qed.

Lemma opt_rel_feq_trans a b c : opt_rel feq a b -> opt_rel feq b c -> opt_rel feq a c.
Proof.
  destruct a, b, c; cbn; try tauto. intros H1 H2 q. now rewrite H1, H2.
Qed.

Lemma acts_alike_app_l pre c1 c2 : acts_alike c1 c2 -> acts_alike (pre ++ c1) (pre ++ c2).
Proof.
  intros H f. rewrite !fsim_app. destruct (fsim f pre) as [g|]; [apply H|exact I].
Qed.

Lemma acts_alike_app_r post c1 c2 : acts_alike c1 c2 -> acts_alike (c1 ++ post) (c2 ++ post).
Proof.
  intros H f. rewrite !fsim_app. specialize (H f).
  destruct (fsim f c1) as [g1|], (fsim f c2) as [g2|]; cbn in H; try contradiction; [|exact I].
  apply fsim_ext. exact H.
Qed.

(* replacing gates[s:e] by a list with the same classical action on every basis
   state preserves the action of the whole circuit *)
Theorem splice_preserves_classical : forall c s e new,
  s <= e -> acts_alike (slice c s e) new -> acts_alike c (splice c s e new).
Proof.
  intros c s e new Hse H. rewrite (circuit_split3 c s e Hse) at 1. unfold splice.
  apply acts_alike_app_l, acts_alike_app_r, H.
Qed.

(* ====================================================================== *)
(* 3. splice_preserves, any compositional semantics                        *)
(* ====================================================================== *)
Section Abstract.
  (* U: whatever a circuit denotes (unitaries, channels, ...), composed in
     circuit order by [comp] *)
  Variable U : Type.
  Variable one : U.
  Variable comp : U -> U -> U.
  Hypothesis comp_assoc : forall a b c, comp a (comp b c) = comp (comp a b) c.
  Hypothesis comp_one_l : forall a, comp one a = a.
  Variable den : gate -> U.

  Definition den_list (l : circuit) : U := fold_right (fun g acc => comp (den g) acc) one l.

  Lemma den_app a b : den_list (a ++ b) = comp (den_list a) (den_list b).
  Proof.
    induction a as [|x a IH]; cbn [app den_list fold_right].
    - now rewrite comp_one_l.
    - fold (den_list (a ++ b)). fold (den_list a). now rewrite IH, comp_assoc.
  Qed.

  Theorem splice_preserves_den c s e new :
    s <= e -> den_list (slice c s e) = den_list new -> den_list (splice c s e new) = den_list c.
  Proof.
    intros Hse H. rewrite (circuit_split3 c s e Hse) at 2. unfold splice.
    now rewrite !den_app, H.
  Qed.

  (* the whole optimizer: every accepted replacement denotes what its slice denotes *)
  Definition replacements_ok (acc_fn : circuit -> resynth -> bool) (c : circuit) (l : list (sec * resynth)) : Prop :=
    forall s e gs r, In ((s, e, gs), r) l -> acc_fn gs r = true -> den_list (fst r) = den_list (slice c s e).

  Lemma fold_steps_inv acc_fn c : forall (l : list sec) (news : list resynth) B,
    sorted_from B l -> (forall s e gs, In (s, e, gs) l -> e <= length c) -> B <= length c ->
    replacements_ok acc_fn c (combine l news) ->
    let acc := fold_right (opt_step acc_fn) c (combine l news) in
    firstn B acc = firstn B c /\ B <= length acc /\ den_list acc = den_list c.
  Proof.
    induction l as [|[[s e] gs] l IH]; intros news B Hs Hb HB Hok; cbn [combine fold_right]; [now repeat split|].
    destruct news as [|r news]; cbn [combine fold_right]; [now repeat split|].
    cbn [sorted_from] in Hs. destruct Hs as (H1 & H2 & H3).
    assert (He : e <= length c) by (apply (Hb s e gs); now left).
    destruct (IH news e H3 (fun s' e' gs' Hin => Hb s' e' gs' (or_intror Hin)) He
                (fun s' e' gs' r' Hin => Hok s' e' gs' r' (or_intror Hin))) as (I1 & I2 & I3).
    set (acc' := fold_right (opt_step acc_fn) c (combine l news)) in *.
    cbn [opt_step]. destruct (acc_fn gs r) eqn:Ea.
    - repeat split.
      + rewrite firstn_splice by lia. apply (firstn_le_eq acc' c B e); [lia|exact I1].
      + rewrite splice_length by lia. lia.
      + rewrite <- I3. apply splice_preserves_den; [lia|].
        rewrite (slice_firstn acc' c s e I1). symmetry. apply (Hok s e gs r); [now left|exact Ea].
    - repeat split; try assumption; try lia.
      apply (firstn_le_eq acc' c B e); [lia|exact I1].
  Qed.

  Theorem optimize_preserves_den acc_fn c news :
    replacements_ok acc_fn c (combine (sections c) news) ->
    den_list (optimize_gen acc_fn c news) = den_list c.
  Proof.
    intros Hok. unfold optimize_gen.
    apply (fold_steps_inv acc_fn c (sections c) news 0 (sections_sorted c)); [|lia|exact Hok].
    intros s e gs Hin. now apply (section_bounds c s e gs).
  Qed.
End Abstract.

(* the hypotheses of the section are satisfiable: state transformers under composition *)
Example abstract_instance (S : Type) (den : gate -> S -> S) c s e new :
  s <= e ->
  den_list (S -> S) (fun x => x) (fun a b x => b (a x)) den (slice c s e) =
  den_list (S -> S) (fun x => x) (fun a b x => b (a x)) den new ->
  den_list (S -> S) (fun x => x) (fun a b x => b (a x)) den (splice c s e new) =
  den_list (S -> S) (fun x => x) (fun a b x => b (a x)) den c.
Proof. apply splice_preserves_den; reflexivity. Qed.

(* ====================================================================== *)
(* 4. the result is no larger, for every outcome of the re-synthesis       *)
(* ====================================================================== *)
Lemma fold_steps_len acc_fn c :
  (forall (gs : circuit) (r : resynth), acc_fn gs r = true -> length (fst r) <= length gs) ->
  forall (l : list sec) (news : list resynth) B,
  sorted_from B l -> (forall s e gs, In (s, e, gs) l -> e <= length c /\ length gs <= e - s) -> B <= length c ->
  let acc := fold_right (opt_step acc_fn) c (combine l news) in
  B <= length acc /\ length acc <= length c.
Proof.
  intros Hacc. induction l as [|[[s e] gs] l IH]; intros news B Hs Hb HB; cbn [combine fold_right]; [lia|].
  destruct news as [|r news]; cbn [combine fold_right]; [lia|].
  cbn [sorted_from] in Hs. destruct Hs as (H1 & H2 & H3).
  destruct (Hb s e gs (or_introl eq_refl)) as [He Hg].
  destruct (IH news e H3 (fun s' e' gs' Hin => Hb s' e' gs' (or_intror Hin)) He) as (I1 & I2).
  set (acc' := fold_right (opt_step acc_fn) c (combine l news)) in *.
  cbn [opt_step]. destruct (acc_fn gs r) eqn:Ea; [|lia].
  rewrite splice_length by lia. pose proof (Hacc gs r Ea) as Hn. lia.
Qed.

Lemma accept_len (gs : circuit) (r : resynth) : accept gs r = true -> length (fst r) <= length gs.
Proof. unfold accept. rewrite !andb_true_iff. intros [[H _] _]. now apply Nat.leb_le. Qed.

Theorem opt_no_larger_thm : forall c news, length (optimize c news) <= length c.
Proof.
  intros c news. unfold optimize, optimize_gen.
  apply (fold_steps_len accept c accept_len (sections c) news 0 (sections_sorted c)); [|lia].
  intros s e gs Hin. destruct (section_bounds c s e gs Hin) as (_ & H1 & H2). now split.
Qed.

(* classical version of the whole-optimizer statement *)
Lemma acts_alike_refl c : acts_alike c c.
Proof. intros f. apply fsim_ext. now intros q. Qed.
Lemma acts_alike_trans a b c : acts_alike a b -> acts_alike b c -> acts_alike a c.
Proof. intros H1 H2 f. eapply opt_rel_feq_trans; [apply H1|apply H2]. Qed.

Theorem optimize_preserves_classical : forall c news,
  (forall s e gs r, In ((s, e, gs), r) (combine (sections c) news) -> accept gs r = true ->
     acts_alike (slice c s e) (fst r)) ->
  acts_alike c (optimize c news).
Proof.
  intros c news Hok. unfold optimize, optimize_gen.
  assert (G : forall (l : list sec) (nw : list resynth) B,
    sorted_from B l -> (forall s e gs, In (s, e, gs) l -> e <= length c) -> B <= length c ->
    (forall s e gs r, In ((s, e, gs), r) (combine l nw) -> accept gs r = true -> acts_alike (slice c s e) (fst r)) ->
    let acc := fold_right (opt_step accept) c (combine l nw) in
    firstn B acc = firstn B c /\ B <= length acc /\ acts_alike c acc).
  { induction l as [|[[s e] gs] l IH]; intros nw B Hs Hb HB Hk; cbn [combine fold_right];
      [repeat split; try lia; apply acts_alike_refl|].
    destruct nw as [|r nw]; cbn [combine fold_right]; [repeat split; try lia; apply acts_alike_refl|].
    cbn [sorted_from] in Hs. destruct Hs as (H1 & H2 & H3).
    assert (He : e <= length c) by (apply (Hb s e gs); now left).
    destruct (IH nw e H3 (fun s' e' gs' Hin => Hb s' e' gs' (or_intror Hin)) He
                (fun s' e' gs' r' Hin => Hk s' e' gs' r' (or_intror Hin))) as (I1 & I2 & I3).
    set (acc' := fold_right (opt_step accept) c (combine l nw)) in *.
    assert (Hf : firstn B acc' = firstn B c).
    { apply (firstn_le_eq acc' c B e); [lia|exact I1]. }
    cbn [opt_step]. destruct (accept gs r) eqn:Ea; [|repeat split; try assumption; lia].
    repeat split.
    - rewrite firstn_splice by lia. exact Hf.
    - rewrite splice_length by lia. lia.
    - eapply acts_alike_trans; [exact I3|]. apply splice_preserves_classical; [lia|].
      rewrite (slice_firstn acc' c s e I1). apply (Hk s e gs r); [now left|exact Ea]. }
  apply (G (sections c) news 0 (sections_sorted c)); [|lia|exact Hok].
  intros s e gs Hin. now apply (section_bounds c s e gs).
Qed.

(* ====================================================================== *)
(* 5. circ_equiv: two classical gate lists on ALL basis states             *)
(* ====================================================================== *)
Local Open Scope N_scope.

Definition qubits_in (nq : nat) (c : circuit) : bool :=
  forallb (fun g => forallb (fun q => Nat.ltb q nq) (gqs g)) c.

Definition tables_diff (nq : nat) (t1 t2 : list N) : option nat :=
  find (fun q => negb (tt_diff (tt_mask nq) (nth q t1 0) (nth q t2 0) =? 0)) (seq 0 nq).

(* None: not decidable here (a gate is not classical, or uses a qubit >= nq);
   Some None: equivalent; Some (Some q): qubit q ends differently on some basis state *)
Definition circ_compare (nq : nat) (c1 c2 : circuit) : option (option nat) :=
  if qubits_in nq c1 && qubits_in nq c2 then
    match sim (tt_alg (tt_mask nq)) (input_tables nq) c1, sim (tt_alg (tt_mask nq)) (input_tables nq) c2 with
    | Some t1, Some t2 => Some (tables_diff nq t1 t2)
    | _, _ => None
    end
  else None.

Definition circ_equiv (nq : nat) (c1 c2 : circuit) : bool :=
  match circ_compare nq c1 c2 with Some None => true | _ => false end.

Lemma cact_flip_in g cs t : cact_of g = CFlip cs t -> In t (gqs g) /\ incl cs (gqs g).
Proof.
  unfold cact_of. intros H.
  assert (G : forall nc, (if Nat.eqb (length (gqs g)) (S nc) then CFlip (removelast (gqs g)) (last (gqs g) 0%nat) else CNone) = CFlip cs t ->
              In t (gqs g) /\ incl cs (gqs g)).
  { intros nc E. destruct (Nat.eqb_spec (length (gqs g)) (S nc)) as [Hl|]; [|discriminate].
    injection E as <- <-. assert (Hne : gqs g <> []) by (intros E0; rewrite E0 in Hl; discriminate).
    pose proof (app_removelast_last 0%nat Hne) as Hs. split.
    - rewrite Hs at 2. apply in_or_app. right. now left.
    - intros x Hx. rewrite Hs. apply in_or_app. now left. }
  destruct (gkind g) as [b| | | | |n|b n| |]; try discriminate;
    try (destruct b; try discriminate); try (now apply (G _ H)).
Qed.

Lemma qubits_in_cons nq g c : qubits_in nq (g :: c) = true ->
  (forall q, In q (gqs g) -> (q < nq)%nat) /\ qubits_in nq c = true.
Proof.
  unfold qubits_in. cbn [forallb]. rewrite andb_true_iff. intros [H1 H2]. split; [|exact H2].
  intros q Hq. rewrite forallb_forall in H1. apply Nat.ltb_lt. now apply H1.
Qed.

(* a circuit on qubits < nq: the result on those qubits depends only on them,
   and every other qubit keeps its value *)
Lemma fsim_frame nq c : qubits_in nq c = true -> forall f f0,
  (forall q, (q < nq)%nat -> f q = f0 q) ->
  match fsim f c, fsim f0 c with
  | Some h, Some h0 => (forall q, (q < nq)%nat -> h q = h0 q) /\ (forall q, (nq <= q)%nat -> h q = f q)
  | None, None => True
  | _, _ => False
  end.
Proof.
  induction c as [|g c IH]; intros Hq f f0 Hf; cbn [fsim]; [now split|].
  destruct (qubits_in_cons nq g c Hq) as [Hg Hc].
  destruct (cact_of g) as [cs t| |] eqn:Ea; [|now apply IH|exact I].
  destruct (cact_flip_in g cs t Ea) as [Ht Hcs].
  assert (Hff : forall q, (q < nq)%nat -> fflip f cs t q = fflip f0 cs t q).
  { intros q Hlt. unfold fflip. destruct (Nat.eqb q t); [|now apply Hf].
    rewrite (Hf t) by now apply Hg. f_equal.
    clear Ea. induction cs as [|x cs IHcs]; cbn [forallb]; [reflexivity|].
    rewrite (Hf x) by (apply Hg, Hcs; now left). f_equal. apply IHcs. intros y Hy. apply Hcs. now right. }
  specialize (IH Hc (fflip f cs t) (fflip f0 cs t) Hff).
  destruct (fsim (fflip f cs t) c) as [h|], (fsim (fflip f0 cs t) c) as [h0|]; try exact IH.
  destruct IH as [I1 I2]. split; [exact I1|]. intros q Hge. rewrite I2 by exact Hge.
  unfold fflip. destruct (Nat.eqb_spec q t) as [->|]; [|reflexivity].
  specialize (Hg t Ht). lia.
Qed.

(* every state of the qubits < nq is a basis state number *)
Lemma state_number nq (f : nat -> bool) : exists x, x < pow2n nq /\ forall q, (q < nq)%nat -> basis nq x q = f q.
Proof.
  set (l := map f (seq 0 nq)). assert (Hl : length l = nq) by (unfold l; now rewrite map_length, seq_length).
  exists (bits_val l). split.
  - pose proof (bits_val_bound l) as H. now rewrite Hl in H.
  - intros q Hq. unfold basis. destruct (Nat.ltb_spec q nq); [|lia].
    rewrite <- (nbits_testbit nq (bits_val l) q Hq). rewrite <- Hl at 1. rewrite nbits_bits_val.
    unfold l. rewrite (nth_indep _ false (f 0%nat)) by (rewrite map_length, seq_length; exact Hq).
    rewrite map_nth, seq_nth by exact Hq. reflexivity.
Qed.

Lemma tables_diff_none nq t1 t2 :
  tables_diff nq t1 t2 = None <->
  forall q x, (q < nq)%nat -> x < pow2n nq -> proj x t1 q = proj x t2 q.
Proof.
  unfold tables_diff. split.
  - intros H q x Hq Hx. pose proof (find_none _ _ H q) as Hn. cbn beta in Hn.
    assert (Hin : In q (seq 0 nq)) by (apply in_seq; lia). specialize (Hn Hin).
    apply negb_false_iff, N.eqb_eq in Hn. rewrite tt_diff_spec in Hn. unfold proj. apply Hn. now apply mask_lt.
  - intros H. destruct (find _ (seq 0 nq)) as [q|] eqn:Ef; [|reflexivity].
    apply find_some in Ef as [Hin Hb]. apply in_seq in Hin. apply negb_true_iff, N.eqb_neq in Hb.
    exfalso. apply Hb. apply tt_diff_spec. intros x Hm. apply mask_lt in Hm. apply (H q x); [lia|exact Hm].
Qed.

Definition equal_on_all_states (c1 c2 : circuit) : Prop :=
  forall f : nat -> bool, exists f1 f2, fsim f c1 = Some f1 /\ fsim f c2 = Some f2 /\ forall q, f1 q = f2 q.

Theorem circ_equiv_correct nq c1 c2 :
  circ_equiv nq c1 c2 = true <->
  qubits_in nq c1 = true /\ qubits_in nq c2 = true /\
  all_classical c1 = true /\ all_classical c2 = true /\ equal_on_all_states c1 c2.
Proof.
  unfold circ_equiv, circ_compare.
  destruct (qubits_in nq c1) eqn:Q1; cbn [andb]; [|split; [discriminate|intros (H & _); discriminate]].
  destruct (qubits_in nq c2) eqn:Q2; cbn [andb]; [|split; [discriminate|intros (_ & H & _); discriminate]].
  set (m := tt_mask nq). set (it := input_tables nq).
  pose proof (sim_some (tt_alg m) c1 it) as S1. pose proof (sim_some (tt_alg m) c2 it) as S2.
  destruct (sim (tt_alg m) it c1) as [t1|] eqn:E1;
    [|split; [discriminate|intros (_ & _ & H & _); apply S1 in H as [? ?]; discriminate]].
  destruct (sim (tt_alg m) it c2) as [t2|] eqn:E2;
    [|split; [discriminate|intros (_ & _ & _ & H & _); apply S2 in H as [? ?]; discriminate]].
  assert (C1 : all_classical c1 = true) by (apply S1; now exists t1).
  assert (C2 : all_classical c2 = true) by (apply S2; now exists t2).
  (* the tables read at x are the reference run from the basis state x *)
  assert (R : forall c t, sim (tt_alg m) it c = Some t -> forall x, x < pow2n nq ->
            exists h, fsim (basis nq x) c = Some h /\ forall q, proj x t q = h q).
  { intros c t Es x Hx. pose proof (sim_tt_spec m x c (proj2 (mask_lt nq x) Hx) it) as Hs. rewrite Es in Hs.
    pose proof (fsim_ext c _ _ (fun q => proj_input_basis nq x q Hx)) as Hb. fold it in Hb.
    destruct (fsim (proj x it) c) as [h|]; [|contradiction].
    destruct (fsim (basis nq x) c) as [h'|]; [|contradiction]. exists h'. split; [reflexivity|].
    intros q. now rewrite Hs, Hb. }
  split.
  - intros H. assert (Hd : tables_diff nq t1 t2 = None) by (destruct (tables_diff nq t1 t2); [discriminate|reflexivity]).
    rewrite tables_diff_none in Hd. repeat split; try assumption.
    intros f. destruct (state_number nq f) as (x & Hx & Hfx).
    destruct (R c1 t1 E1 x Hx) as (h1 & Hh1 & Hp1). destruct (R c2 t2 E2 x Hx) as (h2 & Hh2 & Hp2).
    pose proof (fsim_frame nq c1 Q1 f (basis nq x) (fun q Hq => eq_sym (Hfx q Hq))) as F1.
    pose proof (fsim_frame nq c2 Q2 f (basis nq x) (fun q Hq => eq_sym (Hfx q Hq))) as F2.
    rewrite Hh1 in F1. rewrite Hh2 in F2.
    destruct (fsim f c1) as [g1|]; [|contradiction]. destruct (fsim f c2) as [g2|]; [|contradiction].
    exists g1, g2. repeat split. intros q. destruct F1 as [A1 B1], F2 as [A2 B2].
    destruct (Nat.lt_ge_cases q nq) as [Hq|Hq].
    + rewrite A1, A2 by exact Hq. rewrite <- Hp1, <- Hp2. now apply Hd.
    + now rewrite B1, B2.
  - intros (_ & _ & _ & _ & H).
    assert (Hd : tables_diff nq t1 t2 = None).
    { apply tables_diff_none. intros q x Hq Hx.
      destruct (R c1 t1 E1 x Hx) as (h1 & Hh1 & Hp1). destruct (R c2 t2 E2 x Hx) as (h2 & Hh2 & Hp2).
      destruct (H (basis nq x)) as (f1 & f2 & Hf1 & Hf2 & Heq).
      rewrite Hp1, Hp2. congruence. }
    now rewrite Hd.
Qed.

(* a failing verdict names a qubit and the tables differ there on a basis state *)
Lemma circ_compare_witness nq c1 c2 q :
  circ_compare nq c1 c2 = Some (Some q) -> ~ equal_on_all_states c1 c2.
Proof.
  intros H Heq.
  assert (E : circ_equiv nq c1 c2 = true).
  { apply circ_equiv_correct. unfold circ_compare in H.
    destruct (qubits_in nq c1) eqn:Q1; [|discriminate]. destruct (qubits_in nq c2) eqn:Q2; [|discriminate].
    cbn [andb] in H.
    destruct (sim (tt_alg (tt_mask nq)) (input_tables nq) c1) as [t1|] eqn:E1; [|discriminate].
    destruct (sim (tt_alg (tt_mask nq)) (input_tables nq) c2) as [t2|] eqn:E2; [|discriminate].
    repeat split; try reflexivity; try assumption.
    - apply (sim_some (tt_alg (tt_mask nq)) c1 (input_tables nq)). now exists t1.
    - apply (sim_some (tt_alg (tt_mask nq)) c2 (input_tables nq)). now exists t2. }
  unfold circ_equiv in E. rewrite H in E. discriminate.
Qed.

(* ====================================================================== *)
(* 6. the acceptance test before the repair                                 *)
(* ====================================================================== *)
Local Close Scope N_scope.
(* CX(0,1) CX(1,0) CX(0,1) exchanges the two qubits; its re-synthesis is a pure
   relabelling with no gates, which the old test accepts *)
Definition cx_triple : circuit := [mkg KCX [0; 1] None; mkg KCX [1; 0] None; mkg KCX [0; 1] None].

Lemma optimize_old_refuted_thm :
  exists c news, optimize_old c news = [] /\ circ_equiv 2 c (optimize_old c news) = false /\
                 optimize c news = c.
Proof. exists cx_triple, [([], false)]. repeat split; vm_compute; reflexivity. Qed.
