(* P_Bqm.v — lemmas about the model of qlasskit/bqm.py (M_Bqm.v). *)
From Coq Require Import List Bool NArith ZArith Arith Lia.
From QV Require Import Bits Bexp BexpTT M_Codec P_Codec M_Bqm.
Import ListNotations.
Local Open Scope Z_scope.

Lemma b2z_range b : 0 <= b2z b <= 1.
Proof. destruct b; cbn; lia. Qed.

(* ---- the gates on 0/1 values ---- *)
Lemma pq_not_ind env a x : peval (zenv env) a = b2z x -> peval (zenv env) (pq_not a) = b2z (negb x).
Proof. intros H. cbn [pq_not peval]. rewrite H. now destruct x. Qed.
Lemma pq_and_ind env a b x y : peval (zenv env) a = b2z x -> peval (zenv env) b = b2z y ->
  peval (zenv env) (pq_and a b) = b2z (andb x y).
Proof. intros Ha Hb. cbn [pq_and peval]. rewrite Ha, Hb. now destruct x, y. Qed.
Lemma pq_or_ind env a b x y : peval (zenv env) a = b2z x -> peval (zenv env) b = b2z y ->
  peval (zenv env) (pq_or a b) = b2z (orb x y).
Proof. intros Ha Hb. cbn [pq_or peval]. rewrite Ha, Hb. now destruct x, y. Qed.
Lemma pq_xor_ind env a b x y : peval (zenv env) a = b2z x -> peval (zenv env) b = b2z y ->
  peval (zenv env) (pq_xor a b) = b2z (xorb x y).
Proof. intros Ha Hb. cbn [pq_xor peval]. rewrite Ha, Hb. now destruct x, y. Qed.

Lemma pq_and_vars a b i : In i (pvars (pq_and a b)) <-> In i (pvars a) \/ In i (pvars b).
Proof. cbn [pq_and pvars]. apply in_app_iff. Qed.
Lemma pq_or_vars a b i : In i (pvars (pq_or a b)) <-> In i (pvars a) \/ In i (pvars b).
Proof. cbn [pq_or pvars]. rewrite !in_app_iff. tauto. Qed.
Lemma pq_xor_vars a b i : In i (pvars (pq_xor a b)) <-> In i (pvars a) \/ In i (pvars b).
Proof. cbn [pq_xor pvars]. rewrite !in_app_iff. cbn [In]. tauto. Qed.

(* ---- the pairwise right fold ---- *)
Lemma fold_pair_cons op a x y r :
  fold_pair op (Some a :: x :: y :: r) =
  match fold_pair op (x :: y :: r) with Some p => Some (op a p) | None => None end.
Proof. destruct x as [x|], y as [y|]; reflexivity. Qed.

(* what is proved of the translation of one expression *)
Definition tr_ok (e : bexp) (p : poly) : Prop :=
  (forall env, peval (zenv env) p = b2z (beval env e)) /\
  (forall i, In i (pvars p) <-> In i (bsyms e)).

Lemma fold_pair_ok op (bop : bool -> bool -> bool) (unit : bool) :
  (forall x, bop x unit = x) ->
  (forall a b env x y, peval (zenv env) a = b2z x -> peval (zenv env) b = b2z y ->
                       peval (zenv env) (op a b) = b2z (bop x y)) ->
  (forall a b i, In i (pvars (op a b)) <-> In i (pvars a) \/ In i (pvars b)) ->
  forall l, Forall (fun x => exists p, visit x = Some p /\ tr_ok x p) l -> (2 <= List.length l)%nat ->
  exists p, fold_pair op (map visit l) = Some p /\
    (forall env, peval (zenv env) p = b2z (fold_right (fun x acc => bop (beval env x) acc) unit l)) /\
    (forall i, In i (pvars p) <-> In i (flat_map bsyms l)).
Proof.
  intros Hunit Hop Hvars l Hall. induction Hall as [|a r [pa [Ha [Hav Has]]] Hr IH]; intros Hlen.
  - cbn in Hlen. lia.
  - destruct r as [|b r]; [cbn in Hlen; lia|]. destruct r as [|c r].
    + inversion Hr as [|? ? [pb [Hb [Hbv Hbs]]] _]; subst.
      exists (op pa pb). cbn [map]. rewrite Ha, Hb. split; [reflexivity|]. split.
      * intros env. cbn [fold_right]. rewrite Hunit. now apply Hop.
      * intros i. rewrite Hvars, Has, Hbs. cbn [flat_map]. rewrite app_nil_r, in_app_iff. tauto.
    + destruct IH as [p [Hp [Hpv Hps]]]; [cbn [List.length]; lia|].
      exists (op pa p). cbn [map] in *. rewrite Ha, fold_pair_cons, Hp. split; [reflexivity|]. split.
      * intros env. cbn [fold_right]. apply Hop; [apply Hav|]. rewrite Hpv. reflexivity.
      * intros i. rewrite Hvars, Has, Hps. cbn [flat_map]. rewrite !in_app_iff. tauto.
Qed.

Lemma fold_pair_some op : forall l p, fold_pair op l = Some p ->
  (2 <= List.length l)%nat /\ Forall (fun o => o <> None) l.
Proof.
  induction l as [|x r IH]; intros p H; [discriminate|].
  destruct x as [a|]; [|discriminate].
  destruct r as [|y r]; [discriminate|]. destruct r as [|z r].
  - destruct y as [b|]; [|discriminate]. split; [cbn; lia|]. repeat constructor; discriminate.
  - rewrite fold_pair_cons in H. destruct (fold_pair op (y :: z :: r)) as [q|] eqn:E; [|discriminate].
    destruct (IH q eq_refl) as [Hl Hf]. split; [cbn [List.length] in *; lia|].
    constructor; [discriminate|exact Hf].
Qed.

(* ---- visit_indicator ---- *)
Lemma visit_indicator_lemma : forall e, visitable e = true ->
  exists p, visit e = Some p /\
    (forall env, peval (zenv env) p = b2z (beval env e)) /\
    (forall i, In i (pvars p) <-> In i (bsyms e)).
Proof.
  induction e as [b|i|e IH|l IH|l IH|l IH|c t e IHc IHt IHe|a b IHa IHb] using bexp_ind2;
    cbn [visitable]; intros Hv; try discriminate.
  - exists (PConst (b2z b)). split; [reflexivity|]. split; [intros env; now destruct b|]. intros i; reflexivity.
  - exists (PVar i). split; [reflexivity|]. split; [reflexivity|]. intros j; reflexivity.
  - destruct (IH Hv) as [p [Hp [Hpv Hps]]]. exists (pq_not p). cbn [visit]. rewrite Hp. split; [reflexivity|]. split.
    + intros env. rewrite beval_not. now apply pq_not_ind.
    + intros i. cbn [pq_not pvars bsyms app]. apply Hps.
  - apply andb_true_iff in Hv as [Hlen Hall]. apply Nat.leb_le in Hlen.
    assert (Hf : Forall (fun x => exists p, visit x = Some p /\ tr_ok x p) l).
    { rewrite forallb_forall in Hall. rewrite Forall_forall in *. intros x Hx.
      destruct (IH x Hx (Hall x Hx)) as [p [H1 [H2 H3]]]. exists p. split; [exact H1|]. split; assumption. }
    destruct (fold_pair_ok pq_and andb true andb_true_r
                (fun a b env x y => pq_and_ind env a b x y) pq_and_vars l Hf Hlen) as [p [Hp [Hpv Hps]]].
    exists p. cbn [visit]. split; [exact Hp|]. split; [|exact Hps].
    intros env. rewrite Hpv. reflexivity.
  - apply andb_true_iff in Hv as [Hlen Hall]. apply Nat.eqb_eq in Hlen.
    destruct l as [|x [|y [|z r]]]; try discriminate. cbn [forallb] in Hall.
    apply andb_true_iff in Hall as [Hx Hy]. apply andb_true_iff in Hy as [Hy _].
    inversion IH as [|? ? IHx IH']; subst. inversion IH' as [|? ? IHy _]; subst.
    destruct (IHx Hx) as [px [Hpx [Hxv Hxs]]]. destruct (IHy Hy) as [py [Hpy [Hyv Hys]]].
    exists (pq_or px py). cbn [visit map]. rewrite Hpx, Hpy. split; [reflexivity|]. split.
    + intros env. rewrite beval_or. cbn [existsb]. rewrite orb_false_r. now apply pq_or_ind.
    + intros i. rewrite pq_or_vars, Hxs, Hys. cbn [bsyms flat_map]. rewrite app_nil_r, in_app_iff. tauto.
  - apply andb_true_iff in Hv as [Hlen Hall]. apply Nat.leb_le in Hlen.
    assert (Hf : Forall (fun x => exists p, visit x = Some p /\ tr_ok x p) l).
    { rewrite forallb_forall in Hall. rewrite Forall_forall in *. intros x Hx.
      destruct (IH x Hx (Hall x Hx)) as [p [H1 [H2 H3]]]. exists p. split; [exact H1|]. split; assumption. }
    destruct (fold_pair_ok pq_xor xorb false xorb_false_r
                (fun a b env x y => pq_xor_ind env a b x y) pq_xor_vars l Hf Hlen) as [p [Hp [Hpv Hps]]].
    exists p. cbn [visit]. split; [exact Hp|]. split; [|exact Hps].
    intros env. rewrite Hpv. reflexivity.
Qed.

(* the domain of visit: it raises exactly outside the shape `visitable` *)
Lemma map_visit_some l : Forall (fun o => o <> None) (map visit l) ->
  Forall (fun e => forall p, visit e = Some p -> visitable e = true) l -> forallb visitable l = true.
Proof.
  induction l as [|x r IH]; intros H1 H2; [reflexivity|]. cbn [map] in H1.
  inversion H1 as [|? ? Hx Hr]; subst. inversion H2 as [|? ? Hx2 Hr2]; subst.
  cbn [forallb]. destruct (visit x) as [p|] eqn:E; [|congruence].
  rewrite (Hx2 p eq_refl). now apply IH.
Qed.

Lemma visit_some_visitable : forall e p, visit e = Some p -> visitable e = true.
Proof.
  induction e as [b|i|e IH|l IH|l IH|l IH|c t e IHc IHt IHe|a b IHa IHb] using bexp_ind2;
    cbn [visit visitable]; intros p H; try reflexivity; try discriminate.
  - destruct (visit e) as [q|]; [|discriminate]. now apply (IH q).
  - destruct (fold_pair_some _ _ _ H) as [Hl Hf]. rewrite map_length in Hl.
    apply andb_true_iff. split; [now apply Nat.leb_le|now apply map_visit_some].
  - destruct l as [|x [|y [|z r]]]; cbn [map] in H; try discriminate.
    + destruct (visit x); discriminate.
    + destruct (visit x) as [px|] eqn:Ex; [|discriminate]. destruct (visit y) as [py|] eqn:Ey; [|discriminate].
      inversion IH as [|? ? IHx IH']; subst. inversion IH' as [|? ? IHy _]; subst.
      cbn [List.length Nat.eqb forallb]. now rewrite (IHx px Ex), (IHy py Ey).
    + destruct (visit x); [destruct (visit y)|]; discriminate.
  - destruct (fold_pair_some _ _ _ H) as [Hl Hf]. rewrite map_length in Hl.
    apply andb_true_iff. split; [now apply Nat.leb_le|now apply map_visit_some].
Qed.

Lemma visit_some_ok e p : visit e = Some p -> tr_ok e p.
Proof.
  intros H. destruct (visit_indicator_lemma e (visit_some_visitable e p H)) as [q [Hq [H1 H2]]].
  rewrite H in Hq. injection Hq as <-. split; assumption.
Qed.

(* ---- to_bqm ---- *)
Lemma mapM_some {A B} (f : A -> option B) : forall l ys, mapM_opt f l = Some ys -> Forall2 (fun x y => f x = Some y) l ys.
Proof.
  induction l as [|x r IH]; intros ys H; cbn [mapM_opt] in H.
  - injection H as <-. constructor.
  - destruct (f x) as [y|] eqn:Ex; [|discriminate].
    destruct (mapM_opt f r) as [ys'|] eqn:Er; [|discriminate].
    injection H as <-. constructor; [exact Ex|]. now apply IH.
Qed.

Lemma mapM_ext {A B} (f g : A -> option B) l : (forall x, In x l -> f x = g x) -> mapM_opt f l = mapM_opt g l.
Proof.
  induction l as [|x r IH]; intros H; [reflexivity|]. cbn [mapM_opt].
  rewrite (H x) by now left. rewrite IH; [reflexivity|]. intros y Hy. apply H. now right.
Qed.

Lemma peval_fold_left_add env r : forall t,
  peval env (fold_left PAdd r t) = peval env t + fold_right (fun q acc => peval env q + acc) 0 r.
Proof. induction r as [|q r IH]; intros t; cbn [fold_left fold_right]; [lia|]. rewrite IH. cbn [peval]. lia. Qed.

Lemma pvars_fold_left_add r : forall t i,
  In i (pvars (fold_left PAdd r t)) <-> In i (pvars t) \/ exists q, In q r /\ In i (pvars q).
Proof.
  induction r as [|q r IH]; intros t i; cbn [fold_left].
  - split; [now left|]. intros [H|[q [[] _]]]. exact H.
  - rewrite IH. cbn [pvars]. rewrite in_app_iff. split.
    + intros [[H|H]|[q' [H1 H2]]]; [now left|right; exists q; split; [now left|exact H]|].
      right. exists q'. split; [now right|exact H2].
    + intros [H|[q' [[<-|H1] H2]]]; [left; now left|left; now right|]. right. exists q'. now split.
Qed.

Lemma sum_terms_some ts p : sum_terms ts = Some p ->
  (forall env, peval env p = fold_right (fun q acc => peval env q + acc) 0 ts) /\
  (forall i, In i (pvars p) <-> exists q, In q ts /\ In i (pvars q)).
Proof.
  unfold sum_terms. destruct ts as [|t r]; [discriminate|].
  destruct (forallb is_pyconst (t :: r)); [discriminate|]. intros H. injection H as <-. split.
  - intros env. rewrite peval_fold_left_add. reflexivity.
  - intros i. rewrite pvars_fold_left_add. split.
    + intros [H|[q [H1 H2]]]; [exists t; split; [now left|exact H]|exists q; split; [now right|exact H2]].
    + intros [q [[<-|H1] H2]]; [now left|right; now exists q].
Qed.

(* total energy = number of true return bits; variables = symbols of the return expressions *)
Lemma energy_counts_true_bits_lemma : forall merged p, to_bqm_fixed merged = Some p ->
  (forall env, peval (zenv env) p = count_true env merged) /\
  (forall i, In i (pvars p) <-> exists se, In se merged /\ In i (bsyms (snd se))).
Proof.
  intros merged p H. unfold to_bqm_fixed, to_bqm_with in H.
  destruct (mapM_opt term_fixed merged) as [ts|] eqn:E; [|discriminate].
  apply mapM_some in E. destruct (sum_terms_some ts p H) as [Hv Hs]. clear H. split.
  - intros env. rewrite Hv. unfold count_true. clear Hv Hs.
    induction E as [|se t merged ts Hse _ IH]; [reflexivity|]. cbn [fold_right].
    destruct (visit_some_ok _ _ Hse) as [Hind _]. now rewrite Hind, IH.
  - intros i. rewrite Hs. clear Hv Hs. induction E as [|se t merged ts Hse _ IH].
    + split; intros [x [[] _]].
    + destruct (visit_some_ok _ _ Hse) as [_ Hsy]. split.
      * intros [q [[<-|Hq] Hi]]; [exists se; split; [now left|now apply Hsy]|].
        destruct (proj1 IH (ex_intro _ q (conj Hq Hi))) as [se' [H1 H2]]. exists se'. split; [now right|exact H2].
      * intros [se' [[<-|Hin] Hi]]; [exists t; split; [now left|now apply Hsy]|].
        destruct (proj2 IH (ex_intro _ se' (conj Hin Hi))) as [q [H1 H2]]. exists q. split; [now right|exact H2].
Qed.

Lemma count_true_nonneg env merged : 0 <= count_true env merged.
Proof.
  unfold count_true. induction merged as [|se r IH]; cbn [fold_right]; [lia|].
  pose proof (b2z_range (beval env (snd se))). lia.
Qed.

Lemma count_true_zero env merged :
  count_true env merged = 0 <-> forallb (fun se => negb (beval env (snd se))) merged = true.
Proof.
  unfold count_true. induction merged as [|se r IH]; cbn [fold_right forallb]; [tauto|].
  pose proof (count_true_nonneg env r) as Hr. unfold count_true in Hr.
  destruct (beval env (snd se)); cbn [b2z negb andb].
  - split; [lia|discriminate].
  - rewrite <- IH. split; lia.
Qed.

(* ground states *)
Lemma ground_states_lemma : forall merged p, to_bqm_fixed merged = Some p ->
  (* minimisers of the energy = inputs making the fewest return bits true *)
  (forall env, (forall env', peval (zenv env) p <= peval (zenv env') p) <->
               (forall env', count_true env merged <= count_true env' merged)) /\
  (* energies are non-negative and zero exactly at the zeros of the function *)
  (forall env, 0 <= peval (zenv env) p) /\
  (forall env, peval (zenv env) p = 0 <-> forallb (fun se => negb (beval env (snd se))) merged = true) /\
  (* when the function has a zero, the minimisers are exactly its zeros *)
  ((exists z, forallb (fun se => negb (beval z (snd se))) merged = true) ->
   forall env, (forall env', peval (zenv env) p <= peval (zenv env') p) <->
               forallb (fun se => negb (beval env (snd se))) merged = true).
Proof.
  intros merged p H. destruct (energy_counts_true_bits_lemma merged p H) as [He _].
  split; [|split; [|split]].
  - intros env. split; intros Hm env'; specialize (Hm env'); rewrite ?He in *; exact Hm.
  - intros env. rewrite He. apply count_true_nonneg.
  - intros env. rewrite He. apply count_true_zero.
  - intros [z Hz] env. rewrite <- count_true_zero. split.
    + intros Hm. specialize (Hm z). rewrite !He in Hm. apply count_true_zero in Hz.
      pose proof (count_true_nonneg env merged). lia.
    + intros H0 env'. rewrite !He, H0. apply count_true_nonneg.
Qed.

(* every argument bit a return bit depends on occurs in the polynomial *)
Lemma bqm_mentions_dependencies_lemma : forall merged p s e i env1 env2,
  to_bqm_fixed merged = Some p -> In (s, e) merged ->
  (forall j, j <> i -> env1 j = env2 j) -> beval env1 e <> beval env2 e -> In i (pvars p).
Proof.
  intros merged p s e i env1 env2 H Hin Hag Hne.
  destruct (energy_counts_true_bits_lemma merged p H) as [_ Hs]. apply Hs. exists (s, e). split; [exact Hin|].
  cbn [snd]. destruct (in_dec Nat.eq_dec i (bsyms e)) as [Hi|Hi]; [exact Hi|]. exfalso. apply Hne.
  unfold beval. apply (geval_ext bool_alg). intros j Hj. apply Hag. intros ->. contradiction.
Qed.

(* the code as found agrees with the fixed code when no return expression is a bare symbol *)
Definition not_bare_symbol (e : bexp) : bool := match e with BSym _ => false | _ => true end.

Lemma to_bqm_today_partial_lemma : forall merged,
  forallb (fun se => not_bare_symbol (snd se)) merged = true -> to_bqm_today merged = to_bqm_fixed merged.
Proof.
  intros merged H. unfold to_bqm_today, to_bqm_fixed, to_bqm_with.
  rewrite (mapM_ext term_today term_fixed); [reflexivity|].
  intros se Hse. rewrite forallb_forall in H. specialize (H se Hse). unfold term_today, term_fixed.
  destruct (snd se); try reflexivity. discriminate.
Qed.

(* ---- decode_samples ---- *)
Lemma decode_arg_encode_lemma : forall t v bits,
  wf_val t v = true -> val_to_bin t v = Some bits -> decode_arg t bits = Some v.
Proof.
  intros t v bits Hwf Hv. destruct (interpret_val_to_bin t v bits Hwf Hv) as [Hlen Hint].
  unfold decode_arg, interpret_as_qtype. cbn [format_outcome].
  rewrite rev_length, Hlen, Nat.ltb_irrefl, rev_involutive.
  specialize (Hint []). now rewrite app_nil_r in Hint.
Qed.
