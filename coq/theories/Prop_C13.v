(* Prop_C13.v — property C13 "Exports denote the same operation on the same
   qubits", stated against the model M_Export.v of exporter_qasm.py,
   exporter_qiskit.py, exporter_cirq.py, exporter_sympy.py and
   QCircuit.get_key_by_index.  Statements only; proofs are in P_Export.v.

   QASM is decided completely inside Coq: the printer is modelled down to the
   characters, and the parser of the emitted dialect returns the circuit's gate
   list from the printed text.  For Qiskit / Cirq / Sympy the model ends at the
   sequence of library calls (an abstract op list); what the foreign objects do
   with those calls is read back and compared by the harness, not proved.

   [patched = true] = the code after /verif/proposed_fixes/C13_*.diff,
   [false] = today's code (see M_Export.v). *)
From Coq Require Import List Bool NArith ZArith Arith String Ascii.
From QV Require Import Circ M_Export P_Export.
Import ListNotations.
Local Open Scope string_scope.

(* ---- QASM: parsing the printed text returns the gate list, one formal per
   qubit in index order ----
   names_ok: the keys of the qubit map are distinct and non-empty, the printed
   phases contain no parenthesis; text_names_ok: the circuit name, the keys and
   the printed phases contain no space or newline. *)
Theorem C13_qasm_roundtrip : forall ver3 gmode name n qm gl txt,
  names_ok qm gl -> text_names_ok name qm gl ->
  qasm_export true ver3 gmode name n qm gl = Some txt ->
  exists formals,
    parse_qasm txt = Some (mkp name formals (expected_gates gl)
                              (if gmode then None else Some (name, map actual (seq 0 n)))) /\
    List.length formals = n /\ NoDup formals /\
    (forall i k, get_key_by_index qm i = Some k -> (i < n)%nat -> nth_error formals i = Some k).
Proof. exact qasm_roundtrip_text. Qed.
Print Assumptions C13_qasm_roundtrip.

(* the same on lines of tokens, without any condition on separators *)
Theorem C13_qasm_roundtrip_lines : forall ver3 gmode name n qm gl ls,
  names_ok qm gl -> qasm_lines true ver3 gmode name n qm gl = Some ls ->
  exists formals,
    parse_lines ls = Some (mkp name formals (expected_gates gl)
                              (if gmode then None else Some (name, map actual (seq 0 n)))) /\
    List.length formals = n /\ NoDup formals /\
    (forall i k, get_key_by_index qm i = Some k -> (i < n)%nat -> nth_error formals i = Some k).
Proof. exact qasm_roundtrip_lines. Qed.
Print Assumptions C13_qasm_roundtrip_lines.

(* tokenising a rendered text returns the lines of tokens it was rendered from *)
Theorem C13_tokenize_inverts_render : forall ls, tokens_ok ls = true -> tokenize (render ls) = ls.
Proof. exact tokenize_render. Qed.
Print Assumptions C13_tokenize_inverts_render.

Theorem C13_qasm_tokens_have_no_separator : forall ver3 gmode name n qm gl ls,
  text_names_ok name qm gl -> qasm_lines true ver3 gmode name n qm gl = Some ls -> tokens_ok ls = true.
Proof. exact qasm_tokens_ok. Qed.
Print Assumptions C13_qasm_tokens_have_no_separator.

(* the formals of the patched printer *)
Theorem C13_qubit_names : forall n qm names,
  NoDup (map fst qm) -> Forall (fun kv => fst kv <> "") qm -> qubit_names n qm = Some names ->
  List.length names = n /\ NoDup names /\ Forall (fun s => s <> "") names /\
  (forall i k, get_key_by_index qm i = Some k -> (i < n)%nat -> nth_error names i = Some k).
Proof. exact qubit_names_spec. Qed.
Print Assumptions C13_qubit_names.

(* today's printer coincides with the patched one exactly when the map lists
   one name per qubit in index order ... *)
Theorem C13_qasm_today_partial : forall ver3 gmode name n qm gl,
  map snd qm = seq 0 n ->
  qasm_lines false ver3 gmode name n qm gl = qasm_lines true ver3 gmode name n qm gl.
Proof. exact qasm_today_is_patched_when_ordered. Qed.
Print Assumptions C13_qasm_today_partial.

(* ... and not on the map of `c = a and b; return (c, c)` *)
Theorem C13_qasm_today_refuted :
  exists txt p, qasm_export false true false "test" 3 alias_qm alias_gl = Some txt /\
    parse_qasm txt = Some p /\
    List.length (p_formals p) = 5 /\
    p_call p = Some ("test", ["q[0]"; "q[1]"; "q[2]"]) /\
    p_gates p = [("ccx", None, [0; 1; 4])].
Proof. exact qasm_today_refuted. Qed.
Print Assumptions C13_qasm_today_refuted.

Theorem C13_qasm_patched_on_the_same_input :
  exists txt p, qasm_export true true false "test" 3 alias_qm alias_gl = Some txt /\
    parse_qasm txt = Some p /\ p_formals p = ["a"; "b"; "_ret.1"] /\
    p_gates p = [("ccx", None, [0; 1; 2])].
Proof. exact qasm_patched_on_the_same_input. Qed.
Print Assumptions C13_qasm_patched_on_the_same_input.

Theorem C13_qasm_today_unnamed_qubit_fails :
  qasm_export false true true "t" 2 [("a", 0)] [mkx KCX [0; 1] XNone] = None /\
  exists txt, qasm_export true true true "t" 2 [("a", 0)] [mkx KCX [0; 1] XNone] = Some txt.
Proof. exact qasm_today_unnamed_qubit_fails. Qed.
Print Assumptions C13_qasm_today_unnamed_qubit_fails.

(* ---- Qiskit / Cirq / Sympy: the calls made are, in order, one per gate that is
   not a NopGate, with the gate's declared (controls, base gate), its own qubit
   list and its parameter; barriers only in Qiskit circuit mode.
   xwf: the qubit list has the length the gate class declares (what append enforces). *)
Theorem C13_qiskit_ops_same_gates : forall attrs gmode gl ops,
  forallb xwf gl = true -> export_qiskit attrs gmode gl = XOk ops -> ops = spec_ops (negb gmode) gl.
Proof. exact qiskit_ops_same_gates. Qed.
Print Assumptions C13_qiskit_ops_same_gates.

Theorem C13_cirq_ops_same_gates : forall patched attrs gl ops,
  forallb xwf gl = true -> has attrs "P" = false -> has attrs "MCtrl" = false ->
  export_cirq patched attrs gl = XOk ops -> ops = spec_ops false gl.
Proof. exact cirq_ops_same_gates. Qed.
Print Assumptions C13_cirq_ops_same_gates.

Theorem C13_sympy_ops_same_gates : forall gl ops,
  forallb xwf gl = true -> export_sympy gl = XOk ops -> ops = spec_ops false gl.
Proof. exact sympy_ops_same_gates. Qed.
Print Assumptions C13_sympy_ops_same_gates.

Theorem C13_spec_ops_keep_qubit_lists : forall bars gl,
  flat_map op_qubits (spec_ops bars gl) =
  flat_map (fun g => match canon (xkind g) with Some _ => [xqs g] | None => [] end) gl.
Proof. exact spec_ops_qubits. Qed.
Print Assumptions C13_spec_ops_keep_qubit_lists.

(* ---- non-vacuity ---- *)
Example C13_example_roundtrip :
  let qm := [("a", 0); ("b", 1); ("anc", 3); ("_ret", 2)] in
  let gl := [mkx KCCX [0; 1; 3] XNone; mkx KBarrier [] XNone; mkx KCP [2; 0] (XNum 1 4 "0.25");
             mkx (KMCX 3) [0; 1; 3; 2] XNone] in
  names_ok qm gl /\ text_names_ok "f" qm gl /\
  exists txt, qasm_export true false false "f" 4 qm gl = Some txt /\
    parse_qasm txt = Some (mkp "f" ["a"; "b"; "_ret"; "anc"]
                              [("ccx", None, [0; 1; 3]); ("cp", Some "0.25", [2; 0]); ("cccx", None, [0; 1; 3; 2])]
                              (Some ("f", ["q[0]"; "q[1]"; "q[2]"; "q[3]"]))).
Proof.
  split; [|split].
  - split; [repeat constructor; cbn; intuition discriminate|]. split; [repeat constructor; discriminate|reflexivity].
  - split; [reflexivity|]. split; [repeat constructor|reflexivity].
  - eexists. split; [reflexivity|]. vm_compute. reflexivity.
Qed.

Example C13_example_ops :
  let gl := [mkx (K1 BH) [1] XNone; mkx KBarrier [] XNone; mkx (KMCX 2) [2; 0; 1] XNone;
             mkx KCP [1; 0] (XNum 1 2 "0.50")] in
  forallb xwf gl = true /\
  export_qiskit ["h"; "cp"] false gl =
    XOk [XOp 0 BH [1] None; XBar; XOp 2 BX [2; 0; 1] None; XOp 1 BP [1; 0] (Some (1%Z, 2%N))] /\
  export_cirq true ["H"] gl =
    XOk [XOp 0 BH [1] None; XOp 2 BX [2; 0; 1] None; XOp 1 BP [1; 0] (Some (1%Z, 2%N))] /\
  export_cirq false ["H"] gl = XErr /\
  export_sympy gl = XErr.
Proof. repeat split. Qed.
