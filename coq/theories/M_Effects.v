(* M_Effects.v — effects model of the public API (property C10).
   Objects live in a heap (address = position); an operation reads some operand
   objects and runs a list of primitive actions read off the source:
     LAlloc o        allocate a new object
     LCopy r         allocate a deep copy of an operand / of a local object
     LUpdate k f     update in place the k-th object allocated by THIS operation
     LUpdateArg k f  update in place the k-th OPERAND (aliasing: what Grover and
                     oraclize did before the fixes b6f3638 / 1cbc9af)
   The content type of objects is abstract (any type). *)
From Coq Require Import List Arith.
From QV Require Import BexpTT.
Import ListNotations.

Section Effects.
  Variable obj : Type.
  Variable dflt : obj.

  Inductive ref := Arg (k : nat) | Loc (k : nat).
  Inductive laction :=
  | LAlloc (o : obj)
  | LCopy (r : ref)
  | LUpdate (k : nat) (f : obj -> obj)
  | LUpdateArg (k : nat) (f : obj -> obj).

  (* one action on (operand contents, objects allocated so far by this operation) *)
  Definition step (st : list obj * list obj) (a : laction) : list obj * list obj :=
    let (ops, loc) := st in
    match a with
    | LAlloc o => (ops, loc ++ [o])
    | LCopy (Arg k) => (ops, loc ++ [nth k ops dflt])
    | LCopy (Loc k) => (ops, loc ++ [nth k loc dflt])
    | LUpdate k f => (ops, upd dflt loc k (f (nth k loc dflt)))
    | LUpdateArg k f => (upd dflt ops k (f (nth k ops dflt)), loc)
    end.
  Definition run_op (acts : list laction) (ops : list obj) : list obj * list obj :=
    fold_left step acts (ops, []).

  Definition pure_action (a : laction) : bool :=
    match a with LUpdateArg _ _ => false | _ => true end.
  Definition pure_op (acts : list laction) : bool := forallb pure_action acts.

  (* a history step: operand addresses + the operation's actions *)
  Record hstep := mkstep { s_args : list nat; s_acts : list laction }.

  Fixpoint write_back (h : list obj) (addrs : list nat) (vals : list obj) : list obj :=
    match addrs, vals with
    | a :: ar, v :: vr => write_back (upd dflt h a v) ar vr
    | _, _ => h
    end.

  (* executing one step: read operands, run, write operands back (identity for a
     pure operation), append the new objects; the result is the new objects *)
  Definition exec_step (h : list obj) (s : hstep) : list obj * list obj :=
    let ops := map (fun a => nth a h dflt) (s_args s) in
    let (ops', loc) := run_op (s_acts s) ops in
    (write_back h (s_args s) ops' ++ loc, loc).

  Fixpoint exec_history (h : list obj) (hs : list hstep) : list obj * list (list obj) :=
    match hs with
    | [] => (h, [])
    | s :: r => let (h', res) := exec_step h s in
                let (h'', rs) := exec_history h' r in (h'', res :: rs)
    end.
End Effects.
