(* P_Types.v — theorems about the types-layer model M_Types.v, for every width,
   every operand length and every assignment of the symbols. *)
From Coq Require Import List Bool NArith ZArith Arith Lia.
From QV Require Import Bits Bexp BexpTT M_Codec P_Codec Generated M_Types.
Import ListNotations.
Local Open Scope N_scope.

(* numeric value of a list of expressions under an assignment *)
Definition bv (rho : nat -> bool) (l : list bexp) : N := bits_val (map (beval rho) l).
Definition p2 (n : nat) : N := 2 ^ N.of_nat n.

(* a typed expression whose list has exactly BIT_SIZE elements *)
Definition wf_te (v : texp) : Prop := length (snd v) = bit_size (fst v).

(* ================================================================== *)
(* arithmetic helpers                                                  *)
(* ================================================================== *)
Lemma p2_S n : p2 (S n) = 2 * p2 n.
Proof. unfold p2. now rewrite Nat2N.inj_succ, N.pow_succ_r'. Qed.
Lemma p2_0 : p2 0 = 1.
Proof. reflexivity. Qed.
Lemma p2_pos n : 0 < p2 n.
Proof. unfold p2. apply N.neq_0_lt_0, N.pow_nonzero. lia. Qed.
Lemma p2_nz n : p2 n <> 0.
Proof. pose proof (p2_pos n). lia. Qed.
Lemma p2_add a b : p2 (a + b) = p2 a * p2 b.
Proof. unfold p2. now rewrite Nat2N.inj_add, N.pow_add_r. Qed.
Lemma p2_le a b : (a <= b)%nat -> p2 a <= p2 b.
Proof. intros H. unfold p2. apply N.pow_le_mono_r; lia. Qed.
Lemma p2_lt a b : (a < b)%nat -> p2 a < p2 b.
Proof. intros H. unfold p2. apply N.pow_lt_mono_r; lia. Qed.
Lemma p2_split a b : (a <= b)%nat -> p2 b = p2 a * p2 (b - a).
Proof. intros H. rewrite <- p2_add. f_equal. lia. Qed.

Lemma b2n_lt2 b : N.b2n b < 2.
Proof. destruct b; cbn; lia. Qed.

(* k + 2 (z mod m) = (k + 2 z) mod 2m for k < 2 *)
Lemma add_double_mod k z m : k < 2 -> 0 < m -> k + 2 * (z mod m) = (k + 2 * z) mod (2 * m).
Proof.
  intros Hk Hm.
  pose proof (N.div_mod z m ltac:(lia)) as Hz.
  pose proof (N.mod_lt z m ltac:(lia)) as Hr.
  set (q := z / m) in *. set (r := z mod m) in *.
  apply (N.mod_unique _ _ q); [lia|]. rewrite Hz. lia.
Qed.

Lemma mod_add_multiple x m : 0 < m -> (x + m) mod m = x mod m.
Proof.
  intros Hm. replace (x + m) with (x + 1 * m) by lia. apply N.mod_add. lia.
Qed.

Lemma bits_val_lt l : bits_val l < p2 (length l).
Proof. apply bits_val_bound. Qed.

Lemma bv_lt rho l : bv rho l < p2 (length l).
Proof. unfold bv. pose proof (bits_val_lt (map (beval rho) l)) as H. now rewrite map_length in H. Qed.

Lemma bv_app rho a b : bv rho (a ++ b) = bv rho a + p2 (length a) * bv rho b.
Proof. unfold bv, p2. now rewrite map_app, bits_val_app, map_length. Qed.

Lemma bv_nil rho : bv rho [] = 0.
Proof. reflexivity. Qed.

Lemma bv_cons rho x l : bv rho (x :: l) = N.b2n (beval rho x) + 2 * bv rho l.
Proof. reflexivity. Qed.

Lemma map_beval_false rho k : map (beval rho) (repeat bfalse k) = repeat false k.
Proof. induction k as [|k IH]; cbn [repeat map]; [reflexivity|]. now rewrite IH. Qed.

Lemma bv_false rho k : bv rho (repeat bfalse k) = 0.
Proof. unfold bv. rewrite map_beval_false. apply bits_val_repeat_false. Qed.

Lemma bits_val_firstn w l : bits_val (firstn w l) = bits_val l mod p2 w.
Proof.
  revert l; induction w as [|w IH]; intros l.
  - cbn [firstn bits_val]. rewrite p2_0. now rewrite N.mod_1_r.
  - destruct l as [|b r]; cbn [firstn bits_val].
    + symmetry. apply N.mod_0_l. apply p2_nz.
    + rewrite IH, p2_S. apply add_double_mod; [apply b2n_lt2|apply p2_pos].
Qed.

Lemma bits_val_skipn k l : bits_val (skipn k l) = bits_val l / p2 k.
Proof.
  revert l; induction k as [|k IH]; intros l.
  - cbn [skipn]. rewrite p2_0. now rewrite N.div_1_r.
  - destruct l as [|b r]; cbn [skipn bits_val].
    + symmetry. apply N.div_0_l. apply p2_nz.
    + rewrite IH, p2_S. rewrite <- N.div_div by (try apply p2_nz; lia).
      now rewrite N.add_b2n_double_div2.
Qed.

Lemma bv_firstn rho w l : bv rho (firstn w l) = bv rho l mod p2 w.
Proof. unfold bv. rewrite <- firstn_map. apply bits_val_firstn. Qed.
Lemma bv_skipn rho k l : bv rho (skipn k l) = bv rho l / p2 k.
Proof. unfold bv. rewrite <- skipn_map. apply bits_val_skipn. Qed.

(* ================================================================== *)
(* fill / crop                                                         *)
(* ================================================================== *)
Lemma fill_bits cls v :
  snd (fill cls v) = snd v ++ repeat bfalse (bit_size cls - length (snd v)).
Proof.
  unfold fill. destruct (Nat.leb_spec (bit_size cls) (length (snd v))) as [H|H]; cbn [snd].
  - replace (bit_size cls - length (snd v))%nat with 0%nat by lia. cbn [repeat]. now rewrite app_nil_r.
  - reflexivity.
Qed.

Lemma fill_type cls v :
  fst (fill cls v) = if (bit_size cls <=? length (snd v))%nat then fst v else cls.
Proof. unfold fill. now destruct (bit_size cls <=? length (snd v))%nat. Qed.

Lemma fill_length cls v : length (snd (fill cls v)) = Nat.max (length (snd v)) (bit_size cls).
Proof. rewrite fill_bits, app_length, repeat_length. lia. Qed.

Theorem fill_bv rho cls v : bv rho (snd (fill cls v)) = bv rho (snd v).
Proof. rewrite fill_bits, bv_app, bv_false. lia. Qed.

Lemma crop_bits cls v : snd (crop cls v) = firstn (bit_size cls) (snd v).
Proof.
  unfold crop. destruct (Nat.leb_spec (length (snd v)) (bit_size cls)) as [H|H]; cbn [snd].
  - now rewrite firstn_all2.
  - reflexivity.
Qed.

Lemma crop_type cls v :
  fst (crop cls v) = if (length (snd v) <=? bit_size cls)%nat then fst v else cls.
Proof. unfold crop. now destruct (length (snd v) <=? bit_size cls)%nat. Qed.

Lemma crop_length cls v : length (snd (crop cls v)) = Nat.min (length (snd v)) (bit_size cls).
Proof. rewrite crop_bits, firstn_length. lia. Qed.

Theorem crop_bv rho cls v : bv rho (snd (crop cls v)) = bv rho (snd v) mod p2 (bit_size cls).
Proof. rewrite crop_bits. apply bv_firstn. Qed.

(* ================================================================== *)
(* shifts                                                              *)
(* ================================================================== *)
Theorem shift_left_spec rho v k r : shift_left v k = Some r ->
  fst r = fst v /\
  length (snd r) = Nat.min (k + length (snd v)) (bit_size (fst v)) /\
  bv rho (snd r) = (bv rho (snd v) * p2 k) mod p2 (bit_size (fst v)).
Proof.
  unfold shift_left. destruct (is_qtype (fst v)); [|discriminate]. intros [= <-].
  split; [|split].
  - rewrite crop_type. cbn [fst snd]. now destruct (_ <=? _)%nat.
  - rewrite crop_length. cbn [snd]. now rewrite app_length, repeat_length.
  - rewrite crop_bv. cbn [snd]. rewrite bv_app, bv_false, repeat_length. f_equal. lia.
Qed.

Theorem shift_left_total v k : is_qtype (fst v) = true -> exists r, shift_left v k = Some r.
Proof. intros H. unfold shift_left. rewrite H. eauto. Qed.

Theorem shift_right_spec rho v k r : shift_right v k = Some r ->
  fst r = fst v /\
  length (snd r) = Nat.max (length (snd v) - k) (bit_size (fst v)) /\
  bv rho (snd r) = bv rho (snd v) / p2 k.
Proof.
  unfold shift_right. destruct (is_qtype (fst v)); [|discriminate]. intros [= <-].
  split; [|split].
  - rewrite fill_type. cbn [fst snd]. now destruct (_ <=? _)%nat.
  - rewrite fill_length. cbn [snd]. now rewrite skipn_length.
  - rewrite fill_bv. cbn [snd]. apply bv_skipn.
Qed.

Theorem shift_right_total v k : is_qtype (fst v) = true -> exists r, shift_right v k = Some r.
Proof. intros H. unfold shift_right. rewrite H. eauto. Qed.

(* ================================================================== *)
(* _eq, _neq, _full_adder                                              *)
(* ================================================================== *)
Lemma beval_b_eq rho a b : beval rho (b_eq a b) = Bool.eqb (beval rho a) (beval rho b).
Proof.
  unfold b_eq. rewrite beval_not, beval_xor. cbn [map fold_right].
  destruct (beval rho a), (beval rho b); reflexivity.
Qed.

Lemma beval_b_neq rho a b : beval rho (b_neq a b) = xorb (beval rho a) (beval rho b).
Proof. unfold b_neq. rewrite beval_xor. cbn [map fold_right]. now rewrite xorb_false_r. Qed.

Lemma beval_and2 rho a b : beval rho (BAnd [a; b]) = beval rho a && beval rho b.
Proof. rewrite beval_and. cbn [forallb]. now rewrite andb_true_r. Qed.
Lemma beval_or2 rho a b : beval rho (BOr [a; b]) = beval rho a || beval rho b.
Proof. rewrite beval_or. cbn [existsb]. now rewrite orb_false_r. Qed.
Lemma beval_xor2 rho a b : beval rho (BXor [a; b]) = xorb (beval rho a) (beval rho b).
Proof. rewrite beval_xor. cbn [map fold_right]. now rewrite xorb_false_r. Qed.

(* carry + 2*... : the full adder adds three bits *)
Theorem full_adder_spec rho c a b :
  N.b2n (beval rho (snd (full_adder c a b))) + 2 * N.b2n (beval rho (fst (full_adder c a b)))
  = N.b2n (beval rho c) + N.b2n (beval rho a) + N.b2n (beval rho b).
Proof.
  unfold full_adder. cbn [fst snd]. rewrite !beval_xor2, !beval_and2, !beval_xor2.
  destruct (beval rho c), (beval rho a), (beval rho b); reflexivity.
Qed.

(* ================================================================== *)
(* eq / neq                                                            *)
(* ================================================================== *)
Definition eqb2 (xy : bool * bool) : bool := Bool.eqb (fst xy) (snd xy).

Fixpoint eq_sem (x y : list bool) : bool :=
  match x, y with
  | [], _ => bits_val y =? 0
  | _, [] => bits_val x =? 0
  | a :: x', b :: y' => Bool.eqb a b && eq_sem x' y'
  end.

Lemma eq_sem_spec x y : eq_sem x y = (bits_val x =? bits_val y).
Proof.
  revert y; induction x as [|a x IH]; intros [|b y]; cbn [eq_sem].
  - reflexivity.
  - apply N.eqb_sym.
  - reflexivity.
  - rewrite IH. cbn [bits_val].
    destruct (N.eqb_spec (bits_val x) (bits_val y)) as [E|E];
      destruct (N.eqb_spec (N.b2n a + 2 * bits_val x) (N.b2n b + 2 * bits_val y)) as [F|F];
      destruct a, b; cbn [Bool.eqb andb N.b2n] in *; try reflexivity; lia.
Qed.

Lemma eq_sem_zip x y :
  eq_sem x y = forallb eqb2 (combine x y) && (bits_val (skipn (length y) x) =? 0)
               && (bits_val (skipn (length x) y) =? 0).
Proof.
  revert y; induction x as [|a x IH]; intros [|b y]; cbn [eq_sem combine forallb length skipn].
  - reflexivity.
  - reflexivity.
  - cbn [bits_val N.eqb andb]. now rewrite andb_true_r.
  - rewrite IH. unfold eqb2 at 2. cbn [fst snd]. now rewrite !andb_assoc.
Qed.

Lemma combine_map {A B C D} (f : A -> C) (g : B -> D) l r :
  combine (map f l) (map g r) = map (fun xy => (f (fst xy), g (snd xy))) (combine l r).
Proof.
  revert r; induction l as [|a l IH]; intros [|b r]; cbn [map combine]; try reflexivity.
  now rewrite IH.
Qed.

Lemma eq_zip_spec rho l r ex :
  beval rho (eq_zip l r ex)
  = beval rho ex && forallb eqb2 (combine (map (beval rho) l) (map (beval rho) r)).
Proof.
  unfold eq_zip. revert r ex; induction l as [|a l IH]; intros [|b r] ex;
    cbn [combine map fold_left forallb]; try (now rewrite andb_true_r).
  rewrite IH. cbn [fst snd]. rewrite beval_and2, beval_b_eq. unfold eqb2 at 2. cbn [fst snd].
  now rewrite andb_assoc.
Qed.

Lemma forallb_negb_zero l : forallb negb l = (bits_val l =? 0).
Proof.
  induction l as [|b l IH]; cbn [forallb bits_val]; [reflexivity|]. rewrite IH.
  destruct (N.eqb_spec (bits_val l) 0) as [E|E];
    destruct (N.eqb_spec (N.b2n b + 2 * bits_val l) 0) as [F|F];
    destruct b; cbn [negb andb N.b2n] in *; try reflexivity; lia.
Qed.

Lemma and_not_all_spec rho tl ex :
  beval rho (and_not_all tl ex) = beval rho ex && (bv rho tl =? 0).
Proof.
  unfold bv. rewrite <- forallb_negb_zero. unfold and_not_all.
  revert ex; induction tl as [|x tl IH]; intros ex; cbn [fold_left map forallb].
  - now rewrite andb_true_r.
  - rewrite IH, beval_and2, beval_not. now rewrite andb_assoc.
Qed.

(* the Or-chains are the negations of the And-chains *)
Lemma neq_zip_neg rho l r ex ex' : beval rho ex = negb (beval rho ex') ->
  beval rho (neq_zip l r ex) = negb (beval rho (eq_zip l r ex')).
Proof.
  unfold neq_zip, eq_zip. revert r ex ex'; induction l as [|a l IH]; intros [|b r] ex ex' H;
    cbn [combine fold_left]; try exact H.
  apply IH. cbn [fst snd]. rewrite beval_or2, beval_and2, beval_b_neq, beval_b_eq, H.
  destruct (beval rho ex'), (beval rho a), (beval rho b); reflexivity.
Qed.

Lemma or_all_neg rho tl ex ex' : beval rho ex = negb (beval rho ex') ->
  beval rho (or_all tl ex) = negb (beval rho (and_not_all tl ex')).
Proof.
  unfold or_all, and_not_all. revert ex ex'; induction tl as [|x tl IH]; intros ex ex' H;
    cbn [fold_left]; [exact H|].
  apply IH. rewrite beval_or2, beval_and2, beval_not, H.
  destruct (beval rho ex'), (beval rho x); reflexivity.
Qed.

Lemma or_all_spec rho tl ex :
  beval rho (or_all tl ex) = beval rho ex || negb (bv rho tl =? 0).
Proof.
  rewrite (or_all_neg rho tl ex (BNot ex)) by (rewrite beval_not; now rewrite negb_involutive).
  rewrite and_not_all_spec, beval_not. destruct (beval rho ex), (bv rho tl =? 0); reflexivity.
Qed.

(* QintImp.eq: operands of ANY two lengths *)
Theorem qint_eq_bits_spec rho l r :
  beval rho (qint_eq_bits l r) = (bv rho l =? bv rho r).
Proof.
  unfold qint_eq_bits. rewrite !and_not_all_spec, eq_zip_spec. cbn [beval geval btrue andb].
  unfold bv. rewrite <- !skipn_map, <- eq_sem_spec, eq_sem_zip, !map_length. reflexivity.
Qed.

Theorem qint_neq_bits_spec rho l r :
  beval rho (qint_neq_bits l r) = negb (bv rho l =? bv rho r).
Proof.
  rewrite <- qint_eq_bits_spec. unfold qint_neq_bits, qint_eq_bits.
  apply or_all_neg, or_all_neg, neq_zip_neg. reflexivity.
Qed.

(* ================================================================== *)
(* gt / lt / lte / gte                                                 *)
(* ================================================================== *)
Definition gtb2 (xy : bool * bool) : bool := fst xy && negb (snd xy).

(* lexicographic "greater", most significant pair first *)
Fixpoint gt_msb (ps : list (bool * bool)) : bool :=
  match ps with [] => false | p :: r => gtb2 p || (eqb2 p && gt_msb r) end.
(* the same on a little-endian list *)
Fixpoint gt_le (ps : list (bool * bool)) : bool :=
  match ps with [] => false | p :: r => gt_le r || (forallb eqb2 r && gtb2 p) end.

Lemma gt_msb_app p q : gt_msb (p ++ q) = gt_msb p || (forallb eqb2 p && gt_msb q).
Proof.
  induction p as [|x p IH]; cbn [app gt_msb forallb]; [reflexivity|]. rewrite IH.
  destruct (gtb2 x), (eqb2 x), (gt_msb p), (forallb eqb2 p), (gt_msb q); reflexivity.
Qed.

Lemma forallb_rev {A} (f : A -> bool) l : forallb f (rev l) = forallb f l.
Proof.
  induction l as [|x l IH]; cbn [rev forallb]; [reflexivity|].
  rewrite forallb_app, IH. cbn [forallb]. rewrite andb_true_r. apply andb_comm.
Qed.

Lemma gt_msb_rev ps : gt_msb (rev ps) = gt_le ps.
Proof.
  induction ps as [|x ps IH]; cbn [rev gt_le]; [reflexivity|].
  rewrite gt_msb_app, IH, forallb_rev. cbn [gt_msb]. rewrite andb_false_r, orb_false_r. reflexivity.
Qed.

Lemma gt_le_spec x y : length x = length y ->
  gt_le (combine x y) = (bits_val y <? bits_val x)
  /\ forallb eqb2 (combine x y) = (bits_val x =? bits_val y).
Proof.
  revert y; induction x as [|a x IH]; intros [|b y] Hl; cbn [length] in Hl; try discriminate.
  - split; reflexivity.
  - injection Hl as Hl. destruct (IH y Hl) as [IHg IHe].
    cbn [combine gt_le forallb bits_val]. rewrite IHg, IHe. unfold gtb2, eqb2. cbn [fst snd].
    split.
    + destruct (N.ltb_spec (bits_val y) (bits_val x)) as [E|E];
        destruct (N.eqb_spec (bits_val x) (bits_val y)) as [F|F];
        destruct (N.ltb_spec (N.b2n b + 2 * bits_val y) (N.b2n a + 2 * bits_val x)) as [G|G];
        destruct a, b; cbn [negb andb orb N.b2n] in *; try reflexivity; lia.
    + destruct (N.eqb_spec (bits_val x) (bits_val y)) as [F|F];
        destruct (N.eqb_spec (N.b2n a + 2 * bits_val x) (N.b2n b + 2 * bits_val y)) as [G|G];
        destruct a, b; cbn [Bool.eqb andb N.b2n] in *; try reflexivity; lia.
Qed.

Lemma combine_firstn {A B} (x : list A) (y : list B) :
  combine x y = combine (firstn (Nat.min (length x) (length y)) x)
                        (firstn (Nat.min (length x) (length y)) y).
Proof.
  revert y; induction x as [|a x IH]; intros [|b y]; cbn [length Nat.min firstn combine]; try reflexivity.
  now rewrite <- IH.
Qed.

Lemma gt_le_trunc x y :
  gt_le (combine x y)
  = (bits_val (firstn (Nat.min (length x) (length y)) y)
     <? bits_val (firstn (Nat.min (length x) (length y)) x)).
Proof.
  rewrite (combine_firstn x y). apply gt_le_spec. rewrite !firstn_length. lia.
Qed.

(* the comparison of the common low part, corrected by the extra high bits of
   either operand, is the numeric comparison *)
Lemma gt_num x y :
  ((bits_val (firstn (Nat.min (length x) (length y)) y)
    <? bits_val (firstn (Nat.min (length x) (length y)) x))
   || negb (bits_val (skipn (length y) x) =? 0))
  && (bits_val (skipn (length x) y) =? 0)
  = (bits_val y <? bits_val x).
Proof.
  destruct (Nat.le_ge_cases (length y) (length x)) as [H|H].
  - rewrite (Nat.min_r _ _ H).
    rewrite (skipn_all2 y) by exact H. rewrite (firstn_all2 y) by lia.
    cbn [bits_val N.eqb]. rewrite andb_true_r.
    rewrite <- (firstn_skipn (length y) x) at 3. rewrite bits_val_app, firstn_length, (Nat.min_l _ _ H).
    pose proof (bits_val_bound (firstn (length y) x)) as B1. rewrite firstn_length, (Nat.min_l _ _ H) in B1.
    pose proof (bits_val_bound y) as B2.
    set (P := 2 ^ N.of_nat (length y)) in *.
    set (X1 := bits_val (firstn (length y) x)) in *. set (X2 := bits_val (skipn (length y) x)) in *.
    set (Y := bits_val y) in *.
    destruct (N.ltb_spec Y X1) as [E|E]; destruct (N.eqb_spec X2 0) as [F|F];
      destruct (N.ltb_spec Y (X1 + P * X2)) as [G|G]; cbn [negb orb]; try reflexivity; nia.
  - rewrite (Nat.min_l _ _ H).
    rewrite (skipn_all2 x) by exact H. rewrite (firstn_all2 x) by lia.
    cbn [bits_val N.eqb negb]. rewrite orb_false_r.
    rewrite <- (firstn_skipn (length x) y) at 3. rewrite bits_val_app, firstn_length, (Nat.min_l _ _ H).
    pose proof (bits_val_bound (firstn (length x) y)) as B1. rewrite firstn_length, (Nat.min_l _ _ H) in B1.
    pose proof (bits_val_bound x) as B2.
    set (P := 2 ^ N.of_nat (length x)) in *.
    set (Y1 := bits_val (firstn (length x) y)) in *. set (Y2 := bits_val (skipn (length x) y)) in *.
    set (X := bits_val x) in *.
    destruct (N.ltb_spec Y1 X) as [E|E]; destruct (N.eqb_spec Y2 0) as [F|F];
      destruct (N.ltb_spec (Y1 + P * Y2) X) as [G|G]; cbn [andb]; try reflexivity; nia.
Qed.

(* the loop *)
Definition pe (rho : nat -> bool) (ps : list (bexp * bexp)) : list (bool * bool) :=
  map (fun xy => (beval rho (fst xy), beval rho (snd xy))) ps.
Definition ev_ex (rho : nat -> bool) (ex : option bexp) : bool :=
  match ex with Some e => beval rho e | None => false end.
Definition gt_ok (st : option bexp * list bexp) : Prop :=
  match st with (None, []) => True | (Some _, _ :: _) => True | _ => False end.

Lemma gt_fold rho ps : forall ex prev, gt_ok (ex, prev) ->
  let st := fold_left gt_step ps (ex, prev) in
  gt_ok st
  /\ ev_ex rho (fst st) = ev_ex rho ex || (forallb (beval rho) prev && gt_msb (pe rho ps))
  /\ (ps <> [] -> fst st <> None).
Proof.
  induction ps as [|[a b] ps IH]; intros ex prev Hok; cbn [fold_left].
  - cbn [fst pe map gt_msb]. rewrite andb_false_r, orb_false_r. repeat split; [exact Hok|congruence].
  - change (pe rho ((a, b) :: ps)) with ((beval rho a, beval rho b) :: pe rho ps). cbn [gt_msb].
    set (ex1 := match prev, ex with
                | [], _ => BAnd [a; BNot b]
                | _, Some e => BOr [e; BAnd (prev ++ [a; BNot b])]
                | _, None => BAnd [a; BNot b] end).
    assert (Hstep : gt_step (ex, prev) (a, b) = (Some ex1, prev ++ [b_eq a b])) by reflexivity.
    rewrite Hstep.
    assert (Hok1 : gt_ok (Some ex1, prev ++ [b_eq a b])) by (destruct prev; exact I).
    destruct (IH (Some ex1) (prev ++ [b_eq a b]) Hok1) as (Ho & He & Hn).
    split; [exact Ho|]. split.
    + rewrite He. cbn [ev_ex]. rewrite forallb_app. cbn [forallb fst snd]. rewrite beval_b_eq, andb_true_r.
      assert (HA : beval rho ex1 = ev_ex rho ex || (forallb (beval rho) prev && gtb2 (beval rho a, beval rho b))).
      { unfold ex1, gtb2. cbn [fst snd]. destruct prev as [|x p'].
        - destruct ex; [destruct Hok|]. cbn [ev_ex forallb]. now rewrite beval_and2, beval_not.
        - destruct ex as [e|]; [|destruct Hok]. cbn [ev_ex]. rewrite beval_or2, beval_and, forallb_app.
          cbn [forallb]. now rewrite beval_not, andb_true_r. }
      rewrite HA. unfold eqb2 at 1. cbn [fst snd].
      destruct (ev_ex rho ex), (forallb (beval rho) prev), (gtb2 (beval rho a, beval rho b)),
        (Bool.eqb (beval rho a) (beval rho b)), (gt_msb (pe rho ps)); reflexivity.
    + intros _. destruct ps as [|p ps'].
      * cbn [fold_left fst]. congruence.
      * apply Hn. congruence.
Qed.

Lemma gt_loop_val rho l r ex : gt_loop l r = Some ex ->
  beval rho ex = gt_le (combine (map (beval rho) l) (map (beval rho) r)).
Proof.
  unfold gt_loop. intros H.
  destruct (gt_fold rho (rev (combine l r)) None [] I) as (_ & He & _).
  rewrite H in He. cbn [ev_ex forallb andb orb] in He. rewrite He.
  unfold pe. rewrite map_rev, gt_msb_rev, combine_map. reflexivity.
Qed.

Lemma gt_loop_some l r : l <> [] -> r <> [] -> gt_loop l r <> None.
Proof.
  intros Hl Hr. unfold gt_loop.
  destruct (gt_fold (fun _ => false) (rev (combine l r)) None [] I) as (_ & _ & Hn).
  apply Hn. destruct l as [|a l]; [congruence|]. destruct r as [|b r]; [congruence|].
  cbn [combine rev]. intros E. apply app_eq_nil in E. destruct E as [_ E]. discriminate.
Qed.

Lemma gt_loop_none l r : l = [] \/ r = [] -> gt_loop l r = None.
Proof. intros [-> | ->]; [reflexivity|]. destruct l; reflexivity. Qed.

(* QintImp.gt: operands of ANY two (non-zero) lengths *)
Theorem qint_gt_bits_spec rho l r e : qint_gt_bits l r = Some e ->
  beval rho e = (bv rho r <? bv rho l).
Proof.
  unfold qint_gt_bits. destruct (gt_loop l r) as [ex|] eqn:Hg; [|discriminate]. intros [= <-].
  rewrite and_not_all_spec, or_all_spec, (gt_loop_val rho l r ex Hg), gt_le_trunc.
  unfold bv. rewrite <- !skipn_map. rewrite <- (gt_num (map (beval rho) l) (map (beval rho) r)).
  now rewrite !map_length.
Qed.

Theorem qint_gt_bits_total l r : l <> [] -> r <> [] -> exists e, qint_gt_bits l r = Some e.
Proof.
  intros Hl Hr. unfold qint_gt_bits. pose proof (gt_loop_some l r Hl Hr) as H.
  destruct (gt_loop l r); [eauto|congruence].
Qed.

(* UnboundLocalError when one operand has no bits *)
Theorem qint_gt_bits_raises l r : l = [] \/ r = [] -> qint_gt_bits l r = None.
Proof. intros H. unfold qint_gt_bits. now rewrite (gt_loop_none l r H). Qed.

Theorem qint_lt_bits_spec rho l r e : qint_lt_bits l r = Some e ->
  beval rho e = (bv rho l <? bv rho r).
Proof.
  unfold qint_lt_bits, obind. destruct (qint_gt_bits l r) as [g|] eqn:Hg; [|discriminate]. intros [= <-].
  rewrite beval_and2, !beval_not, (qint_gt_bits_spec rho l r g Hg), qint_eq_bits_spec.
  destruct (N.ltb_spec (bv rho r) (bv rho l)); destruct (N.eqb_spec (bv rho l) (bv rho r));
    destruct (N.ltb_spec (bv rho l) (bv rho r)); cbn [negb andb]; try reflexivity; lia.
Qed.

Theorem qint_lte_bits_spec rho l r e : qint_lte_bits l r = Some e ->
  beval rho e = (bv rho l <=? bv rho r).
Proof.
  unfold qint_lte_bits, obind. destruct (qint_gt_bits l r) as [g|] eqn:Hg; [|discriminate]. intros [= <-].
  rewrite beval_not, (qint_gt_bits_spec rho l r g Hg).
  destruct (N.ltb_spec (bv rho r) (bv rho l)); destruct (N.leb_spec (bv rho l) (bv rho r));
    cbn [negb]; try reflexivity; lia.
Qed.

Theorem qint_gte_bits_spec rho l r e : qint_gte_bits l r = Some e ->
  beval rho e = (bv rho r <=? bv rho l).
Proof.
  unfold qint_gte_bits, obind. destruct (qint_lt_bits l r) as [g|] eqn:Hg; [|discriminate]. intros [= <-].
  rewrite beval_not, (qint_lt_bits_spec rho l r g Hg).
  destruct (N.ltb_spec (bv rho l) (bv rho r)); destruct (N.leb_spec (bv rho r) (bv rho l));
    cbn [negb]; try reflexivity; lia.
Qed.

Lemma qint_cmp_total l r : l <> [] -> r <> [] ->
  (exists e, qint_lt_bits l r = Some e) /\ (exists e, qint_lte_bits l r = Some e)
  /\ (exists e, qint_gte_bits l r = Some e).
Proof.
  intros Hl Hr. destruct (qint_gt_bits_total l r Hl Hr) as [g Hg].
  unfold qint_gte_bits, qint_lt_bits, qint_lte_bits. rewrite Hg. cbn [obind].
  repeat split; eexists; reflexivity.
Qed.

(* ================================================================== *)
(* results: "the method returns a value of type t, w bits, meaning f"  *)
(* ================================================================== *)
Definition has_val (x : option texp) (t : ty) (w : nat) (f : (nat -> bool) -> N) : Prop :=
  exists r, x = Some r /\ fst r = t /\ length (snd r) = w /\ forall rho, bv rho (snd r) = f rho.

Lemma has_val_wf x t w f : has_val x t w f -> bit_size t = w ->
  exists r, x = Some r /\ wf_te r.
Proof. intros (r & H & Ht & Hl & _) Hw. exists r. split; [exact H|]. unfold wf_te. congruence. Qed.

(* well-formedness is preserved by fill *)
Lemma fill_wf cls v : wf_te v -> wf_te (fill cls v).
Proof.
  unfold wf_te. intros H. rewrite fill_length, fill_type.
  destruct (Nat.leb_spec (bit_size cls) (length (snd v))); lia.
Qed.

Lemma fill_qtype cls v : is_qtype cls = true -> is_qtype (fst v) = true -> is_qtype (fst (fill cls v)) = true.
Proof. intros H1 H2. rewrite fill_type. now destruct (_ <=? _)%nat. Qed.

(* ================================================================== *)
(* add                                                                 *)
(* ================================================================== *)
Lemma ripple_cons c a b ps :
  ripple c ((a, b) :: ps) = snd (full_adder c a b) :: ripple (fst (full_adder c a b)) ps.
Proof. reflexivity. Qed.

Lemma ripple_length ps : forall c, length (ripple c ps) = length ps.
Proof.
  induction ps as [|[a b] ps IH]; intros c; [reflexivity|].
  rewrite ripple_cons. cbn [length]. now rewrite IH.
Qed.

(* the ripple of full adders, for any incoming carry expression *)
Theorem ripple_spec rho ps : forall c,
  bv rho (ripple c ps)
  = (N.b2n (beval rho c) + bv rho (map fst ps) + bv rho (map snd ps)) mod p2 (length ps).
Proof.
  induction ps as [|[a b] ps IH]; intros c.
  - cbn [ripple map length]. rewrite !bv_nil, p2_0. now rewrite N.mod_1_r.
  - rewrite ripple_cons. cbn [map fst snd length]. rewrite !bv_cons, IH, p2_S.
    pose proof (full_adder_spec rho c a b) as H.
    set (s := beval rho (snd (full_adder c a b))) in *.
    set (c' := beval rho (fst (full_adder c a b))) in *.
    rewrite add_double_mod by (try apply b2n_lt2; apply p2_pos). f_equal. lia.
Qed.

Lemma map_fst_combine {A B} (x : list A) (y : list B) : length x = length y -> map fst (combine x y) = x.
Proof.
  revert y; induction x as [|a x IH]; intros [|b y] H; cbn [length] in H; try discriminate; [reflexivity|].
  cbn [combine map fst]. f_equal. apply IH. lia.
Qed.
Lemma map_snd_combine {A B} (x : list A) (y : list B) : length x = length y -> map snd (combine x y) = y.
Proof.
  revert y; induction x as [|a x IH]; intros [|b y] H; cbn [length] in H; try discriminate; [reflexivity|].
  cbn [combine map snd]. f_equal. apply IH. lia.
Qed.

(* what the padding of add / bitwise_generic does to two well-formed operands *)
Lemma fill_pair_wf tl tr : wf_te tl -> wf_te tr ->
  let w := Nat.max (length (snd tl)) (length (snd tr)) in
  let a := fst (fill_pair tl tr) in let b := snd (fill_pair tl tr) in
  wf_te a /\ wf_te b /\ length (snd a) = w /\ length (snd b) = w
  /\ (forall rho, bv rho (snd a) = bv rho (snd tl)) /\ (forall rho, bv rho (snd b) = bv rho (snd tr))
  /\ fst a = (if (length (snd tl) <? length (snd tr))%nat then fst tr else fst tl)
  /\ fst b = (if (length (snd tr) <? length (snd tl))%nat then fst tl else fst tr).
Proof.
  intros Hl Hr. unfold fill_pair. unfold wf_te in *.
  destruct (Nat.ltb_spec (length (snd tr)) (length (snd tl))) as [H1|H1].
  - cbn [fst snd]. destruct (Nat.ltb_spec (length (snd tl)) (length (snd tr))) as [H2|H2]; [lia|].
    repeat split; try assumption.
    + rewrite fill_length, fill_type. destruct (Nat.leb_spec (bit_size (fst tl)) (length (snd tr))); lia.
    + lia.
    + rewrite fill_length. lia.
    + intros rho. apply fill_bv.
    + rewrite fill_type. destruct (Nat.leb_spec (bit_size (fst tl)) (length (snd tr))); [lia|reflexivity].
  - destruct (Nat.ltb_spec (length (snd tl)) (length (snd tr))) as [H2|H2]; cbn [fst snd].
    + repeat split; try assumption.
      * rewrite fill_length, fill_type. destruct (Nat.leb_spec (bit_size (fst tr)) (length (snd tl))); lia.
      * rewrite fill_length. lia.
      * lia.
      * intros rho. apply fill_bv.
      * rewrite fill_type. destruct (Nat.leb_spec (bit_size (fst tr)) (length (snd tl))); [lia|reflexivity].
    + repeat split; try assumption; lia.
Qed.

(* the type add returns: the wider operand's (the left one on a tie), unless cls is wider still *)
Definition wider (tl tr : texp) : ty :=
  if (length (snd tl) <? length (snd tr))%nat then fst tr else fst tl.
Definition add_type (cls : ty) (tl tr : texp) : ty :=
  if (bit_size (wider tl tr) <? bit_size cls)%nat then cls else wider tl tr.

(* QintImp.add: well-formed operands of any two types *)
Theorem qint_add_spec cls tl tr :
  is_qtype (fst tl) = true -> is_qtype (fst tr) = true -> wf_te tl -> wf_te tr ->
  let w := Nat.max (length (snd tl)) (length (snd tr)) in
  has_val (qint_add cls tl tr) (add_type cls tl tr) w
          (fun rho => (bv rho (snd tl) + bv rho (snd tr)) mod p2 w).
Proof.
  intros Ql Qr Hl Hr w. unfold qint_add, guard2. rewrite Ql, Qr. cbn [andb].
  destruct (fill_pair_wf tl tr Hl Hr) as (_ & _ & La & Lb & Va & Vb & Ta & _).
  destruct (fill_pair tl tr) as [a b]. cbn [fst snd] in *. fold w in La, Lb.
  eexists. split; [reflexivity|]. cbn [fst snd]. split; [|split].
  - unfold add_type, wider. now rewrite Ta.
  - rewrite ripple_length, combine_length. lia.
  - intros rho. rewrite ripple_spec, combine_length, La, Lb, Nat.min_id.
    rewrite map_fst_combine, map_snd_combine by lia. rewrite Va, Vb. reflexivity.
Qed.

(* ================================================================== *)
(* bitwise operations                                                  *)
(* ================================================================== *)
Lemma testbit_cons a X n :
  N.testbit (N.b2n a + 2 * X) n = if n =? 0 then a else N.testbit X (N.pred n).
Proof.
  rewrite N.add_comm. destruct (N.eqb_spec n 0) as [->|Hn].
  - apply N.testbit_0_r.
  - rewrite <- (N.succ_pred n Hn) at 1. apply N.testbit_succ_r.
Qed.

Lemma land_cons a b X Y : N.land (N.b2n a + 2 * X) (N.b2n b + 2 * Y) = N.b2n (a && b) + 2 * N.land X Y.
Proof.
  apply N.bits_inj. intros n. rewrite N.land_spec, !testbit_cons.
  destruct (n =? 0); [reflexivity|now rewrite N.land_spec].
Qed.
Lemma lor_cons a b X Y : N.lor (N.b2n a + 2 * X) (N.b2n b + 2 * Y) = N.b2n (a || b) + 2 * N.lor X Y.
Proof.
  apply N.bits_inj. intros n. rewrite N.lor_spec, !testbit_cons.
  destruct (n =? 0); [reflexivity|now rewrite N.lor_spec].
Qed.
Lemma lxor_cons a b X Y : N.lxor (N.b2n a + 2 * X) (N.b2n b + 2 * Y) = N.b2n (xorb a b) + 2 * N.lxor X Y.
Proof.
  apply N.bits_inj. intros n. rewrite N.lxor_spec, !testbit_cons.
  destruct (n =? 0); [reflexivity|now rewrite N.lxor_spec].
Qed.

Section ZipOp.
  Variables (f : bool -> bool -> bool) (F : N -> N -> N).
  Hypothesis HF : forall a b X Y, F (N.b2n a + 2 * X) (N.b2n b + 2 * Y) = N.b2n (f a b) + 2 * F X Y.
  Hypothesis H0 : F 0 0 = 0.
  Lemma bits_val_zipop x y : length x = length y ->
    bits_val (map (fun p => f (fst p) (snd p)) (combine x y)) = F (bits_val x) (bits_val y).
  Proof.
    revert y; induction x as [|a x IH]; intros [|b y] H; cbn [length] in H; try discriminate.
    - cbn [combine map bits_val]. now rewrite H0.
    - cbn [combine map bits_val fst snd]. rewrite HF, IH by lia. reflexivity.
  Qed.
End ZipOp.

Section Bitwise.
  Variables (op : bexp -> bexp -> bexp) (f : bool -> bool -> bool) (F : N -> N -> N).
  Hypothesis Hop : forall rho a b, beval rho (op a b) = f (beval rho a) (beval rho b).
  Hypothesis HF : forall a b X Y, F (N.b2n a + 2 * X) (N.b2n b + 2 * Y) = N.b2n (f a b) + 2 * F X Y.
  Hypothesis H0 : F 0 0 = 0.

  (* bitwise_generic returns the RIGHT operand's type after padding *)
  Theorem qint_bitwise_spec tl tr :
    is_qtype (fst tl) = true -> is_qtype (fst tr) = true -> wf_te tl -> wf_te tr ->
    has_val (qint_bitwise op tl tr)
            (if (length (snd tr) <? length (snd tl))%nat then fst tl else fst tr)
            (Nat.max (length (snd tl)) (length (snd tr)))
            (fun rho => F (bv rho (snd tl)) (bv rho (snd tr))).
  Proof.
    intros Ql Qr Hl Hr. unfold qint_bitwise, guard2. rewrite Ql, Qr. cbn [andb].
    destruct (fill_pair_wf tl tr Hl Hr) as (_ & _ & La & Lb & Va & Vb & _ & Tb).
    destruct (fill_pair tl tr) as [a b]. cbn [fst snd] in *.
    eexists. split; [reflexivity|]. cbn [fst snd]. split; [exact Tb|split].
    - rewrite map_length, combine_length. lia.
    - intros rho. rewrite <- Va, <- Vb. unfold bv. rewrite map_map.
      rewrite <- (bits_val_zipop f F HF H0) by (rewrite !map_length; lia).
      rewrite combine_map, map_map. f_equal. apply map_ext. intros [x y]. cbn [fst snd]. apply Hop.
  Qed.
End Bitwise.

Definition bitwise_type (tl tr : texp) : ty :=
  if (length (snd tr) <? length (snd tl))%nat then fst tl else fst tr.

Theorem qint_bitwise_and_spec tl tr :
  is_qtype (fst tl) = true -> is_qtype (fst tr) = true -> wf_te tl -> wf_te tr ->
  has_val (qint_bitwise_and tl tr) (bitwise_type tl tr) (Nat.max (length (snd tl)) (length (snd tr)))
          (fun rho => N.land (bv rho (snd tl)) (bv rho (snd tr))).
Proof.
  apply (qint_bitwise_spec _ andb N.land); [intros; apply beval_and2|apply land_cons|reflexivity].
Qed.
Theorem qint_bitwise_or_spec tl tr :
  is_qtype (fst tl) = true -> is_qtype (fst tr) = true -> wf_te tl -> wf_te tr ->
  has_val (qint_bitwise_or tl tr) (bitwise_type tl tr) (Nat.max (length (snd tl)) (length (snd tr)))
          (fun rho => N.lor (bv rho (snd tl)) (bv rho (snd tr))).
Proof.
  apply (qint_bitwise_spec _ orb N.lor); [intros; apply beval_or2|apply lor_cons|reflexivity].
Qed.
Theorem qint_bitwise_xor_spec tl tr :
  is_qtype (fst tl) = true -> is_qtype (fst tr) = true -> wf_te tl -> wf_te tr ->
  has_val (qint_bitwise_xor tl tr) (bitwise_type tl tr) (Nat.max (length (snd tl)) (length (snd tr)))
          (fun rho => N.lxor (bv rho (snd tl)) (bv rho (snd tr))).
Proof.
  apply (qint_bitwise_spec _ xorb N.lxor); [intros; apply beval_xor2|apply lxor_cons|reflexivity].
Qed.

(* bitwise_not: the complement at the operand's length *)
Lemma bv_not_add rho l : bv rho (map BNot l) + bv rho l + 1 = p2 (length l).
Proof.
  induction l as [|x l IH]; cbn [map length].
  - reflexivity.
  - rewrite !bv_cons, p2_S, beval_not. destruct (beval rho x); cbn [negb N.b2n]; lia.
Qed.

Lemma ones_succ n : N.ones (N.succ n) = 1 + 2 * N.ones n.
Proof.
  rewrite !N.ones_equiv, N.pow_succ_r'. pose proof (N.pow_nonzero 2 n ltac:(lia)). lia.
Qed.

Lemma bv_not_lnot rho l : bv rho (map BNot l) = N.lnot (bv rho l) (N.of_nat (length l)).
Proof.
  unfold N.lnot. induction l as [|x l IH]; cbn [map length].
  - reflexivity.
  - rewrite !bv_cons, Nat2N.inj_succ, ones_succ, IH, beval_not.
    change 1 with (N.b2n true). rewrite lxor_cons. now rewrite xorb_true_r.
Qed.

Theorem bitwise_not_spec rho v :
  fst (bitwise_not v) = fst v /\ length (snd (bitwise_not v)) = length (snd v)
  /\ bv rho (snd (bitwise_not v)) = p2 (length (snd v)) - 1 - bv rho (snd v)
  /\ bv rho (snd (bitwise_not v)) = N.lnot (bv rho (snd v)) (N.of_nat (length (snd v))).
Proof.
  unfold bitwise_not. cbn [fst snd]. rewrite map_length. repeat split.
  - pose proof (bv_not_add rho (snd v)). lia.
  - apply bv_not_lnot.
Qed.

(* ================================================================== *)
(* sub                                                                 *)
(* ================================================================== *)
(* ~(~a + b) at width P = 2^w is a - b modulo P *)
Lemma sub_arith a b P : a < P -> b < P -> P - 1 - ((P - 1 - a + b) mod P) = (a + P - b) mod P.
Proof.
  intros Ha Hb. destruct (N.le_gt_cases b a) as [H|H].
  - rewrite (N.mod_small (P - 1 - a + b)) by lia.
    replace (a + P - b) with ((a - b) + P) by lia. rewrite mod_add_multiple by lia.
    rewrite N.mod_small by lia. lia.
  - replace (P - 1 - a + b) with ((b - a - 1) + P) by lia. rewrite mod_add_multiple by lia.
    rewrite (N.mod_small (b - a - 1)) by lia. rewrite (N.mod_small (a + P - b)) by lia. lia.
Qed.

Definition sub_type (cls : ty) (tl tr : texp) : ty :=
  if (bit_size cls <=? Nat.max (length (snd tl)) (length (snd tr)))%nat then wider tl tr else cls.

(* QintImp.sub looked up on any class cls; w = the widest of the operands and cls *)
Theorem qint_sub_spec cls tl tr :
  is_qtype cls = true -> is_qtype (fst tl) = true -> is_qtype (fst tr) = true ->
  wf_te tl -> wf_te tr ->
  let w := Nat.max (Nat.max (length (snd tl)) (length (snd tr))) (bit_size cls) in
  has_val (qint_sub cls tl tr) (sub_type cls tl tr) w
          (fun rho => (bv rho (snd tl) + p2 w - bv rho (snd tr)) mod p2 w).
Proof.
  intros Qc Ql Qr Hl Hr w. unfold qint_sub, guard2. rewrite Ql, Qr. cbn [andb].
  set (tl1 := if (length (snd tl) <? length (snd tr))%nat then fill (fst tr) tl else tl).
  assert (W1 : wf_te tl1) by (unfold tl1; destruct (_ <? _)%nat; [now apply fill_wf|exact Hl]).
  assert (Q1 : is_qtype (fst tl1) = true) by (unfold tl1; destruct (_ <? _)%nat; [now apply fill_qtype|exact Ql]).
  assert (L1 : length (snd tl1) = Nat.max (length (snd tl)) (length (snd tr))).
  { unfold tl1. destruct (Nat.ltb_spec (length (snd tl)) (length (snd tr))) as [H|H].
    - rewrite fill_length. unfold wf_te in Hr. lia.
    - lia. }
  assert (T1 : fst tl1 = wider tl tr).
  { unfold tl1, wider. destruct (Nat.ltb_spec (length (snd tl)) (length (snd tr))) as [H|H]; [|reflexivity].
    rewrite fill_type. unfold wf_te in Hr. destruct (Nat.leb_spec (bit_size (fst tr)) (length (snd tl))); [lia|reflexivity]. }
  assert (V1 : forall rho, bv rho (snd tl1) = bv rho (snd tl)).
  { intros rho. unfold tl1. destruct (_ <? _)%nat; [apply fill_bv|reflexivity]. }
  set (A := fill cls tl1). set (B := fill cls tr).
  assert (WA : wf_te A) by now apply fill_wf.
  assert (WB : wf_te B) by now apply fill_wf.
  assert (LA : length (snd A) = w) by (unfold A; rewrite fill_length, L1; reflexivity).
  assert (LB : (length (snd B) <= w)%nat) by (unfold B; rewrite fill_length; lia).
  assert (QA : is_qtype (fst (bitwise_not A)) = true) by (cbn [bitwise_not fst]; now apply fill_qtype).
  assert (QB : is_qtype (fst B) = true) by now apply fill_qtype.
  assert (Wn : wf_te (bitwise_not A)) by (unfold wf_te, bitwise_not in *; cbn [fst snd]; now rewrite map_length).
  destruct (qint_add_spec cls (bitwise_not A) B QA QB Wn WB) as (su & Hsu & Tsu & Lsu & Vsu).
  rewrite Hsu. cbn [obind].
  assert (Ln : length (snd (bitwise_not A)) = w) by (cbn [bitwise_not snd]; now rewrite map_length).
  rewrite Ln in Lsu, Vsu. rewrite (Nat.max_l w (length (snd B)) LB) in Lsu, Vsu.
  eexists. split; [reflexivity|]. split; [|split].
  - cbn [bitwise_not fst]. rewrite Tsu. unfold add_type, wider. rewrite Ln.
    destruct (Nat.ltb_spec w (length (snd B))) as [H|_]; [lia|]. cbn [bitwise_not fst].
    unfold A. rewrite fill_type, L1, T1. unfold sub_type.
    destruct (Nat.leb_spec (bit_size cls) (Nat.max (length (snd tl)) (length (snd tr)))) as [H|H].
    + destruct (Nat.ltb_spec (bit_size (wider tl tr)) (bit_size cls)) as [H2|H2]; [|reflexivity].
      exfalso. rewrite <- T1 in H2. unfold wf_te in W1. lia.
    + now rewrite Nat.ltb_irrefl.
  - cbn [bitwise_not snd]. now rewrite map_length.
  - intros rho. destruct (bitwise_not_spec rho su) as (_ & _ & Vn & _). rewrite Vn, Lsu, Vsu.
    destruct (bitwise_not_spec rho A) as (_ & _ & VA & _). rewrite VA, LA.
    unfold A, B. rewrite !fill_bv, V1.
    pose proof (bv_lt rho (snd tl)) as Ba. pose proof (bv_lt rho (snd tr)) as Bb.
    assert (p2 (length (snd tl)) <= p2 w) by (apply p2_le; lia).
    assert (p2 (length (snd tr)) <= p2 w) by (apply p2_le; lia).
    apply sub_arith; lia.
Qed.

(* dispatched as translate_expression does (cls = the left operand's type):
   the result has the wider operand's type *)
Corollary qint_sub_dispatch tl tr :
  is_qtype (fst tl) = true -> is_qtype (fst tr) = true -> wf_te tl -> wf_te tr ->
  let w := Nat.max (length (snd tl)) (length (snd tr)) in
  has_val (qint_sub (fst tl) tl tr) (wider tl tr) w
          (fun rho => (bv rho (snd tl) + p2 w - bv rho (snd tr)) mod p2 w).
Proof.
  intros Ql Qr Hl Hr w. pose proof (qint_sub_spec (fst tl) tl tr Ql Ql Qr Hl Hr) as H.
  cbn zeta in H. unfold wf_te in Hl.
  replace (Nat.max (Nat.max (length (snd tl)) (length (snd tr))) (bit_size (fst tl))) with w in H by lia.
  unfold sub_type in H. rewrite <- Hl in H.
  destruct (Nat.leb_spec (length (snd tl)) (Nat.max (length (snd tl)) (length (snd tr)))); [exact H|lia].
Qed.

(* ================================================================== *)
(* constants                                                           *)
(* ================================================================== *)
Lemma beval_const rho b : beval rho (BConst b) = b.
Proof. now destruct b. Qed.

Lemma map_beval_const rho l : map (beval rho) (map BConst l) = l.
Proof. induction l as [|b l IH]; cbn [map]; [reflexivity|]. now rewrite beval_const, IH. Qed.

Lemma is_const_map_const l : forallb is_const_bit (map BConst l) = true.
Proof. induction l as [|b l IH]; cbn [map forallb is_const_bit]; [reflexivity|exact IH]. Qed.

(* the value of an all-constant list does not depend on the assignment *)
Lemma is_const_bv rho l : forallb is_const_bit l = true -> bv rho l = const_bits_val l.
Proof.
  unfold bv, const_bits_val. induction l as [|x l IH]; cbn [forallb map bits_val]; [reflexivity|].
  intros H. apply andb_true_iff in H as [Hx Hl]. rewrite (IH Hl).
  destruct x; try discriminate. cbn [truthy]. now rewrite beval_const.
Qed.

(* QintImp.const: relates the expression-level constant to P_Codec.qint_const_spec *)
Theorem qint_const_e_spec w v : (0 < w)%nat ->
  fst (qint_const_e w v) = TQint w /\ wf_te (qint_const_e w v) /\ is_const (qint_const_e w v) = true
  /\ forall rho, map (beval rho) (snd (qint_const_e w v)) = nbits w (v mod p2 w)
                 /\ bv rho (snd (qint_const_e w v)) = v mod p2 w.
Proof.
  intros Hw. unfold qint_const_e, wf_te, is_const. cbn [fst snd bit_size ty_size].
  rewrite map_length, (qint_const_spec w v Hw), nbits_length. repeat split.
  - apply is_const_map_const.
  - apply map_beval_const.
  - unfold bv. rewrite map_beval_const, bits_val_nbits. apply N.mod_mod. apply p2_nz.
Qed.

(* ================================================================== *)
(* mod: x & (y - 1)                                                    *)
(* ================================================================== *)
Theorem qint_mod_spec tl tr wr :
  fst tr = TQint wr -> (0 < wr)%nat -> is_qtype (fst tl) = true -> wf_te tl -> wf_te tr ->
  has_val (qint_mod tl tr)
          (if (wr <? length (snd tl))%nat then fst tl else TQint wr)
          (Nat.max (length (snd tl)) wr)
          (fun rho => N.land (bv rho (snd tl)) ((bv rho (snd tr) + p2 wr - 1) mod p2 wr)).
Proof.
  intros Tr Hw Ql Wl Wr. unfold qint_mod, guard2. rewrite Ql, Tr. cbn [is_qtype andb].
  destruct (qint_const_e_spec wr 1 Hw) as (Tc & Wc & _ & Vc).
  assert (Qr : is_qtype (fst tr) = true) by now rewrite Tr.
  assert (Qc : is_qtype (fst (qint_const_e wr 1)) = true) by now rewrite Tc.
  assert (Lr : length (snd tr) = wr) by (unfold wf_te in Wr; rewrite Tr in Wr; exact Wr).
  assert (Lc : length (snd (qint_const_e wr 1)) = wr) by (unfold wf_te in Wc; rewrite Tc in Wc; exact Wc).
  destruct (qint_sub_spec (TQint wr) tr (qint_const_e wr 1) eq_refl Qr Qc Wr Wc) as (tv & Htv & Ttv & Ltv & Vtv).
  rewrite Htv. cbn [obind].
  rewrite Lr, Lc in Ltv, Vtv. cbn [bit_size ty_size] in Ltv, Vtv. rewrite !Nat.max_id in Ltv, Vtv.
  assert (Ttv' : fst tv = TQint wr).
  { rewrite Ttv. unfold sub_type, wider. rewrite Lr, Lc. cbn [bit_size ty_size].
    rewrite Nat.max_id, Nat.leb_refl, Nat.ltb_irrefl. exact Tr. }
  assert (Qtv : is_qtype (fst tv) = true) by now rewrite Ttv'.
  assert (Wtv : wf_te tv) by (unfold wf_te; now rewrite Ttv', Ltv).
  destruct (qint_bitwise_and_spec tl tv Ql Qtv Wl Wtv) as (r & Hr & Tr' & Lr' & Vr').
  exists r. split; [exact Hr|]. split; [|split].
  - rewrite Tr'. unfold bitwise_type. now rewrite Ltv, Ttv'.
  - now rewrite Lr', Ltv.
  - intros rho. rewrite Vr', Vtv. destruct (Vc rho) as [_ V1]. rewrite V1.
    assert (H2 : 2 <= p2 wr) by (destruct wr; [lia|rewrite p2_S; pose proof (p2_pos wr); lia]).
    rewrite (N.mod_small 1) by lia. reflexivity.
Qed.

(* the documented case: the right operand is a power of two (under the assignment) *)
Corollary qint_mod_pow2 tl tr wr :
  fst tr = TQint wr -> (0 < wr)%nat -> is_qtype (fst tl) = true -> wf_te tl -> wf_te tr ->
  exists r, qint_mod tl tr = Some r /\
    forall rho k, bv rho (snd tr) = p2 k -> bv rho (snd r) = bv rho (snd tl) mod p2 k.
Proof.
  intros Tr Hw Ql Wl Wr. destruct (qint_mod_spec tl tr wr Tr Hw Ql Wl Wr) as (r & Hr & _ & _ & Vr).
  exists r. split; [exact Hr|]. intros rho k Hk. rewrite Vr, Hk.
  pose proof (bv_lt rho (snd tr)) as Hb. unfold wf_te in Wr. rewrite Tr in Wr. cbn [bit_size ty_size] in Wr.
  rewrite Wr, Hk in Hb. pose proof (p2_pos k).
  replace (p2 k + p2 wr - 1) with ((p2 k - 1) + p2 wr) by lia.
  rewrite mod_add_multiple by apply p2_pos. rewrite N.mod_small by lia.
  replace (p2 k - 1) with (N.ones (N.of_nat k)) by (rewrite N.ones_equiv; unfold p2; lia).
  apply N.land_ones.
Qed.

(* ================================================================== *)
(* the array multiplier                                                *)
(* ================================================================== *)
Lemma nth_map_beval rho l k : beval rho (nth k l bfalse) = nth k (map (beval rho) l) false.
Proof. change false with (beval rho bfalse). symmetry. apply map_nth. Qed.

Lemma upd_length {A} (d : A) l k v : (k < length l)%nat -> length (upd d l k v) = length l.
Proof.
  revert l; induction k as [|k IH]; intros [|x l] H; cbn [length] in H; try lia; cbn [upd length].
  - reflexivity.
  - rewrite IH by lia. reflexivity.
Qed.

Lemma bits_val_upd l k v : (k < length l)%nat ->
  bits_val (upd false l k v) + p2 k * N.b2n (nth k l false) = bits_val l + p2 k * N.b2n v.
Proof.
  revert l; induction k as [|k IH]; intros [|x l] H; cbn [length] in H; try lia; cbn [upd nth bits_val].
  - rewrite p2_0. lia.
  - specialize (IH l ltac:(lia)). rewrite p2_S. lia.
Qed.

Lemma bv_upd rho l k e : (k < length l)%nat ->
  bv rho (upd bfalse l k e) + p2 k * N.b2n (beval rho (nth k l bfalse))
  = bv rho l + p2 k * N.b2n (beval rho e).
Proof.
  intros H. unfold bv. rewrite map_upd, nth_map_beval.
  change (beval rho bfalse) with false. apply bits_val_upd. now rewrite map_length.
Qed.

Lemma firstn_S_nth {A} (d : A) l j : (j < length l)%nat -> firstn (S j) l = firstn j l ++ [nth j l d].
Proof.
  revert l; induction j as [|j IH]; intros [|x l] H; cbn [length] in H; try lia.
  - reflexivity.
  - cbn [firstn nth app]. f_equal. apply IH. lia.
Qed.

Lemma bits_val_firstn_S l j : (j < length l)%nat ->
  bits_val (firstn (S j) l) = bits_val (firstn j l) + p2 j * N.b2n (nth j l false).
Proof.
  intros H. rewrite (firstn_S_nth false) by exact H. rewrite bits_val_app, firstn_length.
  replace (Nat.min j (length l)) with j by lia. cbn [bits_val]. unfold p2. lia.
Qed.

Lemma mul_inner_step l r n m i c p j : (i + j < n + m - 1)%nat ->
  mul_inner l r n m i (c, p) j =
  (fst (full_adder c (BAnd [nth i l bfalse; nth j r bfalse]) (nth (i + j) p bfalse)),
   upd bfalse p (i + j) (snd (full_adder c (BAnd [nth i l bfalse; nth j r bfalse]) (nth (i + j) p bfalse)))).
Proof.
  intros H. unfold mul_inner. apply Nat.ltb_lt in H. rewrite H. reflexivity.
Qed.

(* the inner loop of row i after j steps *)
Lemma mul_inner_inv rho l r n m i prod0 :
  (i < n)%nat -> length prod0 = (n + m)%nat -> (m <= length r)%nat ->
  forall j, (j <= m)%nat ->
  let st := fold_left (mul_inner l r n m i) (seq 0 j) (bfalse, prod0) in
  length (snd st) = (n + m)%nat
  /\ (forall q, (q < i \/ i + j <= q)%nat -> nth q (snd st) bfalse = nth q prod0 bfalse)
  /\ bv rho (snd st) + p2 (i + j) * N.b2n (beval rho (fst st))
     = bv rho prod0
       + p2 i * N.b2n (beval rho (nth i l bfalse)) * bits_val (firstn j (map (beval rho) r)).
Proof.
  intros Hi Hlen Hr. induction j as [|j IH]; intros Hj.
  - cbn [seq fold_left fst snd firstn bits_val]. repeat split; [exact Hlen|].
    change (beval rho bfalse) with false. cbn [N.b2n]. lia.
  - rewrite seq_S, fold_left_app. cbn [Nat.add fold_left].
    destruct (IH ltac:(lia)) as (L & U & V). clear IH.
    destruct (fold_left (mul_inner l r n m i) (seq 0 j) (bfalse, prod0)) as [c p]. cbn [fst snd] in *.
    rewrite mul_inner_step by lia. cbn [fst snd].
    set (pp := BAnd [nth i l bfalse; nth j r bfalse]).
    set (fa := full_adder c pp (nth (i + j) p bfalse)).
    split; [|split].
    + rewrite upd_length; lia.
    + intros q Hq. rewrite nth_upd. destruct (Nat.eqb_spec q (i + j)) as [E|E]; [lia|]. apply U. lia.
    + pose proof (bv_upd rho p (i + j) (snd fa) ltac:(lia)) as HU.
      pose proof (full_adder_spec rho c pp (nth (i + j) p bfalse)) as HF. fold fa in HF.
      rewrite bits_val_firstn_S by (rewrite map_length; lia).
      assert (Hpp : N.b2n (beval rho pp) = N.b2n (beval rho (nth i l bfalse)) * N.b2n (nth j (map (beval rho) r) false)).
      { unfold pp. rewrite beval_and2, <- nth_map_beval.
        destruct (beval rho (nth i l bfalse)), (beval rho (nth j r bfalse)); reflexivity. }
      replace (i + S j)%nat with (S (i + j)) by lia. rewrite p2_S.
      rewrite (p2_add i j) in *.
      set (K := p2 i * p2 j) in *.
      set (s := N.b2n (beval rho (snd fa))) in *. set (c' := N.b2n (beval rho (fst fa))) in *.
      set (x := N.b2n (beval rho (nth (i + j) p bfalse))) in *.
      set (ai := N.b2n (beval rho (nth i l bfalse))) in *.
      set (rj := N.b2n (nth j (map (beval rho) r) false)) in *.
      set (Bj := bits_val (firstn j (map (beval rho) r))) in *.
      set (cc := N.b2n (beval rho c)) in *. set (ppv := N.b2n (beval rho pp)) in *.
      nia.
Qed.

Lemma mul_row_inv rho l r n m prod i :
  (i < n)%nat -> length prod = (n + m)%nat -> (m <= length r)%nat ->
  (forall q, (i + m <= q)%nat -> beval rho (nth q prod bfalse) = false) ->
  let prod' := mul_row l r n m prod i in
  length prod' = (n + m)%nat
  /\ (forall q, (S i + m <= q)%nat -> beval rho (nth q prod' bfalse) = false)
  /\ bv rho prod' = bv rho prod
       + p2 i * N.b2n (beval rho (nth i l bfalse)) * bits_val (firstn m (map (beval rho) r)).
Proof.
  intros Hi Hlen Hr Hz. unfold mul_row.
  destruct (mul_inner_inv rho l r n m i prod Hi Hlen Hr m (le_n m)) as (L & U & V).
  destruct (fold_left (mul_inner l r n m i) (seq 0 m) (bfalse, prod)) as [c p]. cbn [fst snd] in *.
  assert (Hlt : (i + m <? n + m)%nat = true) by (apply Nat.ltb_lt; lia). rewrite Hlt.
  split; [|split].
  - rewrite upd_length; lia.
  - intros q Hq. rewrite nth_upd. destruct (Nat.eqb_spec q (i + m)) as [E|E]; [lia|].
    rewrite U by lia. apply Hz. lia.
  - pose proof (bv_upd rho p (i + m) c ltac:(lia)) as HU.
    rewrite (U (i + m)%nat) in HU by lia. rewrite (Hz (i + m)%nat) in HU by lia.
    cbn [N.b2n] in HU. lia.
Qed.

Lemma nth_repeat_same {A} (a : A) k q : nth q (repeat a k) a = a.
Proof. revert q; induction k as [|k IH]; intros [|q]; cbn [repeat nth]; auto. Qed.

Lemma array_mul_inv rho l r n m : (n <= length l)%nat -> (m <= length r)%nat ->
  forall i, (i <= n)%nat ->
  let prod := fold_left (mul_row l r n m) (seq 0 i) (repeat bfalse (n + m)) in
  length prod = (n + m)%nat
  /\ (forall q, (i + m <= q)%nat -> beval rho (nth q prod bfalse) = false)
  /\ bv rho prod = bits_val (firstn i (map (beval rho) l)) * bits_val (firstn m (map (beval rho) r)).
Proof.
  intros Hl Hr. induction i as [|i IH]; intros Hi.
  - cbn [seq fold_left firstn bits_val]. split; [apply repeat_length|split].
    + intros q _. now rewrite nth_repeat_same.
    + rewrite bv_false. lia.
  - rewrite seq_S, fold_left_app. cbn [Nat.add fold_left].
    destruct (IH ltac:(lia)) as (L & Z & V). clear IH.
    set (prod := fold_left (mul_row l r n m) (seq 0 i) (repeat bfalse (n + m))) in *.
    destruct (mul_row_inv rho l r n m prod i ltac:(lia) L Hr Z) as (L' & Z' & V').
    split; [exact L'|split; [exact Z'|]].
    rewrite V', V. rewrite bits_val_firstn_S by (rewrite map_length; lia).
    rewrite <- nth_map_beval. lia.
Qed.

(* the array multiplier on ANY two operand lengths n and m *)
Theorem array_mul_spec rho l r :
  length (array_mul l r (length l) (length r)) = (length l + length r)%nat
  /\ bv rho (array_mul l r (length l) (length r)) = bv rho l * bv rho r.
Proof.
  destruct (array_mul_inv rho l r (length l) (length r) (le_n _) (le_n _) (length l) (le_n _)) as (L & _ & V).
  split; [exact L|]. unfold array_mul. rewrite V.
  rewrite !firstn_all2 by (rewrite map_length; lia). reflexivity.
Qed.

(* ================================================================== *)
(* mul_even_const                                                      *)
(* ================================================================== *)
Lemma p2_top_bit c : p2 (top_bit c) = 2 ^ N.log2 c.
Proof. unfold p2, top_bit. now rewrite N2Nat.id. Qed.

Lemma mec_zero_val wr x : has_val (Some (mec_zero wr)) (TQint wr) wr (fun rho => (x rho * 0) mod p2 wr).
Proof.
  unfold mec_zero. eexists. split; [reflexivity|]. split; [|split].
  - rewrite fill_type. cbn [fst snd length bit_size ty_size]. now destruct (wr <=? 0)%nat.
  - rewrite fill_length. cbn [snd length bit_size ty_size]. lia.
  - intros rho. rewrite fill_bv. cbn [snd]. rewrite bv_nil, N.mul_0_r. symmetry. apply N.mod_0_l, p2_nz.
Qed.

(* one level of the recursion: const = 2^n + r with n the top bit *)
Lemma mec_step_spec rec t_num c r wr :
  c <> 0 -> r = c - 2 ^ N.log2 c ->
  (0 < r -> has_val (rec r) (TQint wr) wr (fun rho => (bv rho t_num * r) mod p2 wr)) ->
  has_val (mec_step rec t_num c r wr) (TQint wr) wr (fun rho => (bv rho t_num * c) mod p2 wr).
Proof.
  intros Hc Hr Hrec. unfold mec_step.
  destruct (shift_left_total (TQint wr, t_num) (top_bit c) eq_refl) as [sh Hsh]. rewrite Hsh. cbn [obind].
  assert (Hsp := fun rho => shift_left_spec rho _ _ _ Hsh). cbn [fst snd bit_size ty_size] in Hsp.
  destruct (Hsp (fun _ => false)) as (Tsh & Lsh & _).
  assert (Tf : fst (fill (TQint wr) sh) = TQint wr) by (rewrite fill_type, Tsh; now destruct (_ <=? _)%nat).
  assert (Lf : length (snd (fill (TQint wr) sh)) = wr)
    by (rewrite fill_length, Lsh; cbn [bit_size ty_size]; lia).
  assert (Vf : forall rho, bv rho (snd (fill (TQint wr) sh)) = (bv rho t_num * 2 ^ N.log2 c) mod p2 wr).
  { intros rho. rewrite fill_bv. destruct (Hsp rho) as (_ & _ & V). now rewrite V, p2_top_bit. }
  pose proof (N.log2_spec c ltac:(lia)) as [Hlo Hhi].
  destruct (N.ltb_spec 0 r) as [Hpos|Hzero].
  - destruct (Hrec Hpos) as (rest & Hrest & Trest & Lrest & Vrest). rewrite Hrest. cbn [obind].
    set (a := (TQint wr, snd (fill (TQint wr) sh))).
    set (b := fill (TQint wr) rest).
    assert (Wa : wf_te a) by (unfold wf_te, a; cbn [fst snd bit_size ty_size]; exact Lf).
    assert (Lb : length (snd b) = wr) by (unfold b; rewrite fill_length, Lrest; cbn [bit_size ty_size]; lia).
    assert (Tb : fst b = TQint wr) by (unfold b; rewrite fill_type, Trest; now destruct (_ <=? _)%nat).
    assert (Wb : wf_te b) by (unfold wf_te; now rewrite Tb, Lb).
    assert (Qb : is_qtype (fst b) = true) by now rewrite Tb.
    destruct (qint_add_spec (TQint wr) a b eq_refl Qb Wa Wb) as (res & Hres & Tres & Lres & Vres).
    exists res. split; [exact Hres|]. unfold a in *. cbn [fst snd] in *. rewrite Lf, Lb, Nat.max_id in *.
    split; [|split].
    + rewrite Tres. unfold add_type, wider. cbn [fst snd]. rewrite Lf, Lb, Nat.ltb_irrefl.
      cbn [bit_size ty_size]. now rewrite Nat.ltb_irrefl.
    + exact Lres.
    + intros rho. rewrite Vres, Vf. unfold b. rewrite fill_bv, Vrest.
      rewrite <- N.add_mod by apply p2_nz. f_equal. subst r. nia.
  - exists (TQint wr, snd (fill (TQint wr) sh)). split; [reflexivity|]. cbn [fst snd].
    split; [reflexivity|split; [exact Lf|]]. intros rho. rewrite Vf. f_equal. f_equal. lia.
Qed.

Lemma remainder_size c : c <> 0 -> (N.to_nat (N.size (c - 2 ^ N.log2 c)) < N.to_nat (N.size c))%nat.
Proof.
  intros Hc. pose proof (N.log2_spec c ltac:(lia)) as [Hlo Hhi]. rewrite N.pow_succ_r' in Hhi.
  set (r := c - 2 ^ N.log2 c). assert (Hr : r < 2 ^ N.log2 c) by (unfold r; lia).
  rewrite (N.size_log2 c Hc). destruct (N.eq_dec r 0) as [E|E].
  - rewrite E. cbn. lia.
  - rewrite (N.size_log2 r E). apply N.log2_lt_pow2 in Hr; lia.
Qed.

(* mul_even_const computes x * c for EVERY c (even or not), modulo the result width *)
Theorem mul_even_const_spec fuel : forall t_num c wr, (N.to_nat (N.size c) < fuel)%nat ->
  has_val (mul_even_const fuel t_num c wr) (TQint wr) wr (fun rho => (bv rho t_num * c) mod p2 wr).
Proof.
  induction fuel as [|fuel IH]; intros t_num c wr Hf; [lia|].
  cbn [mul_even_const]. destruct (N.eqb_spec c 0) as [->|Hc].
  - apply mec_zero_val.
  - apply mec_step_spec; [exact Hc|reflexivity|]. intros _. apply IH.
    pose proof (remainder_size c Hc). lia.
Qed.

Lemma py_qint_obj_sub_small w raw b : raw < p2 w -> b <= raw -> py_qint_obj_sub w raw b = raw - b.
Proof.
  intros Hr Hb. unfold py_qint_obj_sub. fold (p2 w). rewrite (N.mod_small raw) by exact Hr.
  rewrite <- N2Z.inj_sub by exact Hb. rewrite <- N2Z.inj_mod, N2Z.id. apply N.mod_small. lia.
Qed.

(* the call made by mul: const is the QintImp object decoded from the constant operand *)
Theorem mul_even_const_obj_spec wc t_num raw wr : raw < p2 wc ->
  has_val (mul_even_const_obj wc t_num raw wr) (TQint wr) wr (fun rho => (bv rho t_num * raw) mod p2 wr).
Proof.
  intros Hraw. unfold mul_even_const_obj. destruct (N.eqb_spec raw 0) as [->|Hc].
  - apply mec_zero_val.
  - pose proof (N.log2_spec raw ltac:(lia)) as [Hlo _].
    apply mec_step_spec; [exact Hc|now apply py_qint_obj_sub_small|].
    intros _. apply mul_even_const_spec.
    rewrite py_qint_obj_sub_small by assumption.
    pose proof (remainder_size raw Hc). lia.
Qed.

(* ================================================================== *)
(* mul                                                                 *)
(* ================================================================== *)
(* a Qint-typed operand with exactly its BIT_SIZE bits *)
Definition good (v : texp) (k : nat) : Prop := fst v = TQint k /\ length (snd v) = k.
(* same constant-ness and same meaning *)
Definition same (a b : texp) : Prop :=
  is_const a = is_const b /\ (forall rho, bv rho (snd a) = bv rho (snd b))
  /\ const_bits_val (snd a) = const_bits_val (snd b).

Lemma good_wf v k : good v k -> wf_te v.
Proof. intros [T L]. unfold wf_te. now rewrite T, L. Qed.

Lemma fill_good v k x : good v k -> good (fill (TQint x) v) (Nat.max k x).
Proof.
  intros [T L]. unfold good. rewrite fill_type, fill_length, L. cbn [bit_size ty_size].
  destruct (Nat.leb_spec x k) as [H|H].
  - rewrite T. split; [f_equal|]; lia.
  - split; [f_equal|]; lia.
Qed.

Lemma forallb_const_false k : forallb is_const_bit (repeat bfalse k) = true.
Proof. induction k as [|k IH]; cbn [repeat forallb is_const_bit]; [reflexivity|exact IH]. Qed.

Lemma same_refl v : same v v.
Proof. repeat split. Qed.

Lemma same_fill cls v : same (fill cls v) v.
Proof.
  unfold same, is_const, const_bits_val. rewrite fill_bits. split; [|split].
  - rewrite forallb_app, forallb_const_false. apply andb_true_r.
  - intros rho. rewrite <- (fill_bv rho cls v), fill_bits. reflexivity.
  - rewrite map_app, bits_val_app.
    assert (H : map truthy (repeat bfalse (bit_size cls - length (snd v))) = repeat false (bit_size cls - length (snd v))).
    { induction (bit_size cls - length (snd v))%nat as [|k IH]; cbn [repeat map truthy]; [reflexivity|now rewrite IH]. }
    rewrite H, bits_val_repeat_false. lia.
Qed.

Lemma same_trans a b c : same a b -> same b c -> same a c.
Proof.
  intros (A1 & A2 & A3) (B1 & B2 & B3). split; [congruence|split; [|congruence]].
  intros rho. now rewrite A2, B2.
Qed.

(* after the preparation both operands have max(wl, wr) bits *)
Lemma mul_operands_spec tl_ tr_ wl wr : good tl_ wl -> good tr_ wr ->
  exists tl tr, mul_operands tl_ tr_ = (tl, tr, Nat.max wl wr, Nat.max wl wr)
    /\ good tl (Nat.max wl wr) /\ good tr (Nat.max wl wr) /\ same tl tl_ /\ same tr tr_.
Proof.
  intros G1 G2. pose proof G1 as [T1 L1]. pose proof G2 as [T2 L2].
  unfold mul_operands. rewrite T1, T2.
  set (tl0 := if is_const tl_ then fill (TQint wr) tl_ else tl_).
  set (tr0 := if is_const tr_ then fill (TQint wl) tr_ else tr_).
  assert (H1 : exists k1, good tl0 k1 /\ (k1 = wl \/ k1 = Nat.max wl wr) /\ same tl0 tl_).
  { unfold tl0. destruct (is_const tl_).
    - exists (Nat.max wl wr). split; [now apply fill_good|split; [now right|apply same_fill]].
    - exists wl. split; [exact G1|split; [now left|apply same_refl]]. }
  assert (H2 : exists k2, good tr0 k2 /\ (k2 = wr \/ k2 = Nat.max wl wr) /\ same tr0 tr_).
  { unfold tr0. destruct (is_const tr_).
    - exists (Nat.max wr wl). split; [now apply fill_good|split; [right; lia|apply same_fill]].
    - exists wr. split; [exact G2|split; [now left|apply same_refl]]. }
  destruct H1 as (k1 & Gk1 & D1 & S1). destruct H2 as (k2 & Gk2 & D2 & S2).
  pose proof Gk1 as [_ Lk1]. pose proof Gk2 as [_ Lk2]. rewrite Lk1, Lk2.
  destruct (Nat.eqb_spec k1 k2) as [E|E]; [|destruct (Nat.ltb_spec k2 k1) as [F|F]].
  - assert (Hk1 : k1 = Nat.max wl wr) by lia. assert (Hk2 : k2 = Nat.max wl wr) by lia.
    clear E D1 D2. rewrite Hk1 in *. rewrite Hk2 in *.
    exists tl0, tr0. split; [reflexivity|]. split; [exact Gk1|]. split; [exact Gk2|]. split; assumption.
  - exists tl0, (fill (TQint wl) tr0). assert (Hk : k1 = Nat.max wl wr) by lia. rewrite Hk in *.
    split; [reflexivity|]. split; [exact Gk1|]. split.
    + replace (Nat.max wl wr) with (Nat.max k2 wl) by lia. now apply fill_good.
    + split; [exact S1|]. eapply same_trans; [apply same_fill|exact S2].
  - exists (fill (TQint wr) tl0), tr0. assert (Hk : k2 = Nat.max wl wr) by lia. rewrite Hk in *.
    split; [reflexivity|]. split.
    + replace (Nat.max wl wr) with (Nat.max k1 wr) by lia. now apply fill_good.
    + split; [exact Gk2|]. split; [|exact S2]. eapply same_trans; [apply same_fill|exact S1].
Qed.

Lemma array_mul_spec' rho l r n m : n = length l -> m = length r ->
  length (array_mul l r n m) = (n + m)%nat /\ bv rho (array_mul l r n m) = bv rho l * bv rho r.
Proof. intros -> ->. apply array_mul_spec. Qed.

Lemma crop_fill_val (s : nat) (v : texp) (f : (nat -> bool) -> N) :
  fst v = TQint s -> (forall rho, bv rho (snd v) = f rho) ->
  has_val (Some (crop (TQint s) (fill (TQint s) v))) (TQint s) s (fun rho => f rho mod p2 s).
Proof.
  intros T V. eexists. split; [reflexivity|]. split; [|split].
  - rewrite crop_type, fill_type, T.
    repeat match goal with |- context [if ?c then _ else _] => destruct c end; reflexivity.
  - rewrite crop_length, fill_length. cbn [bit_size ty_size]. lia.
  - intros rho. rewrite crop_bv, fill_bv, V. reflexivity.
Qed.

(* QintImp.mul on two Qint operands of ANY widths wl, wr, symbolic or constant:
   the product modulo the width of the result type *)
Theorem qint_mul_spec tl_ tr_ wl wr :
  good tl_ wl -> good tr_ wr -> (0 < wl)%nat -> (0 < wr)%nat ->
  let s := mul_sizing (Nat.max wl wr + Nat.max wl wr) in
  has_val (qint_mul tl_ tr_) (TQint s) s
          (fun rho => (bv rho (snd tl_) * bv rho (snd tr_)) mod p2 s).
Proof.
  intros G1 G2 Hwl Hwr s. pose proof G1 as [T1 _]. pose proof G2 as [T2 _].
  unfold qint_mul, guard2. rewrite T1, T2. cbn [is_qtype andb].
  destruct (mul_operands_spec tl_ tr_ wl wr G1 G2) as (tl & tr & E & [Tl Ll] & [Tr Lr] & (Cl & Vl & Kl) & (Cr & Vr & Kr)).
  rewrite E. set (w := Nat.max wl wr) in *. fold s.
  rewrite Ll, Lr, Nat.leb_refl. cbn [andb].
  assert (Harr : has_val (Some (crop (TQint s) (fill (TQint s) (TQint s, array_mul (snd tl) (snd tr) w w))))
                   (TQint s) s (fun rho => (bv rho (snd tl_) * bv rho (snd tr_)) mod p2 s)).
  { apply (crop_fill_val s (TQint s, array_mul (snd tl) (snd tr) w w)
             (fun rho => bv rho (snd tl_) * bv rho (snd tr_))); [reflexivity|].
    intros rho. cbn [snd]. destruct (array_mul_spec' rho (snd tl) (snd tr) w w (eq_sym Ll) (eq_sym Lr)) as [_ V].
    now rewrite V, Vl, Vr. }
  assert (Hw : (0 < w)%nat) by (unfold w; lia).
  (* the shift-and-add shortcut on (number, constant) *)
  assert (Hshort : forall tn tc, good tn w -> good tc w -> is_const tc = true ->
            (forall rho, bv rho (snd tn) * bv rho (snd tc) = bv rho (snd tl_) * bv rho (snd tr_)) ->
            has_val (obind (mul_even_const_obj w (snd tn) (const_bits_val (snd tc)) s)
                           (fun res => Some (crop (TQint s) (fill (TQint s) res))))
                    (TQint s) s (fun rho => (bv rho (snd tl_) * bv rho (snd tr_)) mod p2 s)).
  { intros tn tc [_ Ln] [_ Lc] Cc Hprod.
    assert (Hraw : const_bits_val (snd tc) < p2 w).
    { rewrite <- (is_const_bv (fun _ => false)) by exact Cc. rewrite <- Lc. apply bv_lt. }
    destruct (mul_even_const_obj_spec w (snd tn) (const_bits_val (snd tc)) s Hraw) as (res & Hres & Tres & Lres & Vres).
    rewrite Hres. cbn [obind].
    destruct (crop_fill_val s res (fun rho => (bv rho (snd tn) * const_bits_val (snd tc)) mod p2 s) Tres Vres)
      as (r & Hr & Tr' & Lr' & Vr').
    exists r. split; [exact Hr|split; [exact Tr'|split; [exact Lr'|]]].
    intros rho. rewrite Vr', N.mod_mod by apply p2_nz. f_equal.
    rewrite <- (is_const_bv rho (snd tc)) by exact Cc. apply Hprod. }
  destruct (is_const tl) eqn:Ctl; [|destruct (is_const tr) eqn:Ctr]; cbn [orb].
  - (* the left operand is a constant: it is the multiplier, whatever the right one is *)
    rewrite Tl. destruct (snd tl) as [|c0 cb] eqn:Es; [cbn [length] in Ll; lia|]. cbv iota. rewrite <- Es in *.
    destruct (N.even (const_bits_val (snd tl))) eqn:Ev; [|exact Harr].
    apply (Hshort tr tl); [split; assumption|split; assumption|exact Ctl|].
    intros rho. rewrite Vl, Vr. apply N.mul_comm.
  - (* only the right operand is constant *)
    rewrite Tr. destruct (snd tr) as [|c0 cb] eqn:Es; [cbn [length] in Lr; lia|]. cbv iota. rewrite <- Es in *.
    destruct (N.even (const_bits_val (snd tr))) eqn:Ev; [|exact Harr].
    apply (Hshort tl tr); [split; assumption|split; assumption|exact Ctr|].
    intros rho. now rewrite Vl, Vr.
  - exact Harr.
Qed.

(* the case the unfixed code got wrong (constant * constant with an even left
   operand gave left * left): 12 * 6 = 72 *)
Example qint_mul_both_const_ex :
  exists r, qint_mul (qint_const_e 4 12) (qint_const_e 4 6) = Some r
    /\ fst r = TQint 8 /\ bv (fun _ => false) (snd r) = 72.
Proof. eexists. split; [vm_compute; reflexivity|]. split; vm_compute; reflexivity. Qed.

(* the result width never loses a product bit below 16 bits: no wrap when 2w <= 16 *)
Lemma mul_sizing_ge k : (k <= 16)%nat -> (k <= mul_sizing k)%nat.
Proof.
  intros H. unfold mul_sizing.
  repeat match goal with |- context [(?a <=? ?b)%nat] => destruct (Nat.leb_spec a b) end; lia.
Qed.

(* ================================================================== *)
(* Qfixed: arithmetic on the scaled integer  value * 2^f               *)
(* ================================================================== *)
(* the scaled integer a Qfixed(i, f) bit list denotes: value * 2^f *)
Definition fxv (rho : nat -> bool) (i : nat) (l : list bexp) : N := bv rho (qrepr i l).

Lemma to_qint_repr_eq i f l : to_qint_repr (TQfixed i f, l) = Some (qrepr i l).
Proof. reflexivity. Qed.
Lemma from_qint_repr_eq i f l : from_qint_repr (TQfixed i f, l) = Some (unrepr f l).
Proof. reflexivity. Qed.

Lemma qrepr_length {A} i (l : list A) : length (qrepr i l) = length l.
Proof.
  unfold qrepr. rewrite app_length, rev_length, skipn_length, firstn_length. lia.
Qed.
Lemma unrepr_length {A} f (l : list A) : length (unrepr f l) = length l.
Proof.
  unfold unrepr. rewrite app_length, rev_length, skipn_length, firstn_length. lia.
Qed.

Lemma qrepr_unrepr {A} i f (x : list A) : length x = (i + f)%nat -> qrepr i (unrepr f x) = x.
Proof.
  intros H. unfold qrepr, unrepr.
  assert (Hs : length (skipn f x) = i) by (rewrite skipn_length; lia).
  rewrite (skipn_app_exact _ _ i Hs), (firstn_app_exact _ _ i Hs), rev_involutive.
  apply firstn_skipn.
Qed.

Lemma unrepr_qrepr {A} i f (x : list A) : length x = (i + f)%nat -> unrepr f (qrepr i x) = x.
Proof.
  intros H. unfold qrepr, unrepr.
  assert (Hs : length (rev (skipn i x)) = f) by (rewrite rev_length, skipn_length; lia).
  rewrite (skipn_app_exact _ _ f Hs), (firstn_app_exact _ _ f Hs), rev_involutive.
  apply firstn_skipn.
Qed.

Lemma qrepr_map {A B} (g : A -> B) i l : qrepr i (map g l) = map g (qrepr i l).
Proof. unfold qrepr. now rewrite map_app, map_rev, <- skipn_map, <- firstn_map. Qed.

Lemma fxv_lt rho i l : fxv rho i l < p2 (length l).
Proof. unfold fxv. rewrite <- (qrepr_length i l). apply bv_lt. Qed.

(* ---- _align ---- *)
Definition widen_bits (it ft i f : nat) (l : list bexp) : list bexp :=
  (firstn it l ++ repeat bfalse (i - it)) ++ (skipn it l ++ repeat bfalse (f - ft)).

Lemma widen_eq it ft i f l : widen i f (TQfixed it ft, l) = (TQfixed i f, widen_bits it ft i f l).
Proof. reflexivity. Qed.

Lemma widen_bits_id i f l : widen_bits i f i f l = l.
Proof. unfold widen_bits. rewrite !Nat.sub_diag. cbn [repeat]. rewrite !app_nil_r. apply firstn_skipn. Qed.

Lemma widen_bits_length it ft i f l : length l = (it + ft)%nat -> (it <= i)%nat -> (ft <= f)%nat ->
  length (widen_bits it ft i f l) = (i + f)%nat.
Proof.
  intros Hl Hi Hf. unfold widen_bits. rewrite !app_length, !repeat_length, firstn_length, skipn_length. lia.
Qed.

(* the aligned list denotes the same number at the common scale *)
Lemma widen_bits_fxv rho it ft i f l : length l = (it + ft)%nat -> (it <= i)%nat -> (ft <= f)%nat ->
  fxv rho i (widen_bits it ft i f l) = fxv rho it l * p2 (f - ft).
Proof.
  intros Hl Hi Hf. unfold fxv, widen_bits, qrepr.
  assert (HA : length (firstn it l ++ repeat bfalse (i - it)) = i)
    by (rewrite app_length, repeat_length, firstn_length; lia).
  rewrite (skipn_app_exact _ _ i HA), (firstn_app_exact _ _ i HA).
  rewrite rev_app_distr, rev_repeat.
  rewrite <- !app_assoc. rewrite bv_app, bv_false, repeat_length.
  rewrite (app_assoc (rev (skipn it l))). rewrite (bv_app rho (rev (skipn it l) ++ firstn it l)), bv_false. lia.
Qed.

(* the common type exists: the operands have the same type, or the larger shape is shipped *)
Definition align_ok (i1 f1 i2 f2 : nat) : Prop :=
  (i1 = i2 /\ f1 = f2) \/ is_shipped_qfixed (Nat.max i1 i2) (Nat.max f1 f2) = true.

Lemma qfixed_align_eq i1 f1 i2 f2 l r : align_ok i1 f1 i2 f2 ->
  qfixed_align (TQfixed i1 f1, l) (TQfixed i2 f2, r)
  = Some ((TQfixed (Nat.max i1 i2) (Nat.max f1 f2), widen_bits i1 f1 (Nat.max i1 i2) (Nat.max f1 f2) l),
          (TQfixed (Nat.max i1 i2) (Nat.max f1 f2), widen_bits i2 f2 (Nat.max i1 i2) (Nat.max f1 f2) r)).
Proof.
  intros H. unfold qfixed_align. cbn [fst].
  destruct (Nat.eqb_spec i1 i2) as [Ei|Ei]; [destruct (Nat.eqb_spec f1 f2) as [Ef|Ef]|]; cbn [andb].
  - subst. rewrite !Nat.max_id, !widen_bits_id. reflexivity.
  - destruct H as [[_ H]|H]; [congruence|]. rewrite H. reflexivity.
  - destruct H as [[H _]|H]; [congruence|]. rewrite H. reflexivity.
Qed.

(* a method applied to operands of two Qfixed types is the method applied to the aligned operands *)
Lemma with_align_eq {A} i1 f1 i2 f2 l r (k : texp -> texp -> option A) : align_ok i1 f1 i2 f2 ->
  with_align (TQfixed i1 f1, l) (TQfixed i2 f2, r) k
  = k (TQfixed (Nat.max i1 i2) (Nat.max f1 f2), widen_bits i1 f1 (Nat.max i1 i2) (Nat.max f1 f2) l)
      (TQfixed (Nat.max i1 i2) (Nat.max f1 f2), widen_bits i2 f2 (Nat.max i1 i2) (Nat.max f1 f2) r).
Proof. intros H. unfold with_align. rewrite (qfixed_align_eq _ _ _ _ _ _ H). reflexivity. Qed.

Lemma with_align_same {A} i f l r (k : texp -> texp -> option A) :
  with_align (TQfixed i f, l) (TQfixed i f, r) k = k (TQfixed i f, l) (TQfixed i f, r).
Proof.
  rewrite with_align_eq by (left; split; reflexivity). now rewrite !Nat.max_id, !widen_bits_id.
Qed.

(* every pair of shipped Qfixed types has its common type among the shipped ones
   (checked on Generated.shipped_qfixed, i.e. on the QFIXED_TYPES of this run) *)
Theorem shipped_qfixed_closed :
  forallb (fun a => forallb (fun b => is_shipped_qfixed (Nat.max (fst a) (fst b)) (Nat.max (snd a) (snd b)))
                            shipped_qfixed) shipped_qfixed = true.
Proof. vm_compute. reflexivity. Qed.

Corollary shipped_align_ok i1 f1 i2 f2 :
  In (i1, f1) shipped_qfixed -> In (i2, f2) shipped_qfixed -> align_ok i1 f1 i2 f2.
Proof.
  intros H1 H2. right. pose proof shipped_qfixed_closed as H. rewrite forallb_forall in H.
  specialize (H _ H1). rewrite forallb_forall in H. exact (H _ H2).
Qed.

(* QfixedImp.add after the alignment: two operands of the same type *)
Lemma qfixed_add_core_spec i f l r : length l = (i + f)%nat -> length r = (i + f)%nat ->
  exists res, qfixed_add_core (TQfixed i f, l) (TQfixed i f, r) = Some (TQfixed i f, res)
    /\ length res = (i + f)%nat
    /\ forall rho, fxv rho i res = (fxv rho i l + fxv rho i r) mod p2 (i + f).
Proof.
  intros Hl Hr. unfold qfixed_add_core.
  unfold fill_pair. cbn [fst snd]. rewrite Hl, Hr, Nat.ltb_irrefl. cbn [fst snd].
  rewrite !to_qint_repr_eq. cbn [obind].
  assert (Wl : wf_te (TQfixed i f, qrepr i l)) by (unfold wf_te; cbn [fst snd bit_size ty_size]; now rewrite qrepr_length).
  assert (Wr : wf_te (TQfixed i f, qrepr i r)) by (unfold wf_te; cbn [fst snd bit_size ty_size]; now rewrite qrepr_length).
  destruct (qint_add_spec (TQint 8) (TQfixed i f, qrepr i l) (TQfixed i f, qrepr i r) eq_refl eq_refl Wl Wr) as (s & Hs & _ & Ls & Vs).
  cbn [fst snd] in *. rewrite !qrepr_length, Hl, Hr, Nat.max_id in Ls, Vs.
  rewrite Hs. cbn [obind]. rewrite from_qint_repr_eq. cbn [obind].
  eexists. split; [reflexivity|]. split.
  - now rewrite unrepr_length.
  - intros rho. unfold fxv. rewrite (qrepr_unrepr i f) by exact Ls. apply Vs.
Qed.

(* QfixedImp.add, two operands of the same Qfixed type *)
Theorem qfixed_add_spec i f l r : length l = (i + f)%nat -> length r = (i + f)%nat ->
  exists res, qfixed_add (TQfixed i f, l) (TQfixed i f, r) = Some (TQfixed i f, res)
    /\ length res = (i + f)%nat
    /\ forall rho, fxv rho i res = (fxv rho i l + fxv rho i r) mod p2 (i + f).
Proof.
  intros Hl Hr. unfold qfixed_add. cbn [fst is_qfixed andb]. rewrite with_align_same.
  now apply qfixed_add_core_spec.
Qed.

(* QfixedImp.add, operands of ANY two Qfixed types with a common type: the sum of
   the two values at the common scale 2^max(f1,f2), modulo the common width *)
Theorem qfixed_add_mixed_spec i1 f1 i2 f2 l r :
  align_ok i1 f1 i2 f2 -> length l = (i1 + f1)%nat -> length r = (i2 + f2)%nat ->
  let i := Nat.max i1 i2 in let f := Nat.max f1 f2 in
  exists res, qfixed_add (TQfixed i1 f1, l) (TQfixed i2 f2, r) = Some (TQfixed i f, res)
    /\ length res = (i + f)%nat
    /\ forall rho, fxv rho i res
         = (fxv rho i1 l * p2 (f - f1) + fxv rho i2 r * p2 (f - f2)) mod p2 (i + f).
Proof.
  intros Hok Hl Hr i f. unfold qfixed_add. cbn [fst is_qfixed andb]. rewrite (with_align_eq _ _ _ _ _ _ _ Hok).
  fold i f.
  assert (L1 := widen_bits_length i1 f1 i f l Hl ltac:(lia) ltac:(lia)).
  assert (L2 := widen_bits_length i2 f2 i f r Hr ltac:(lia) ltac:(lia)).
  destruct (qfixed_add_core_spec i f _ _ L1 L2) as (res & Hres & Lres & Vres).
  exists res. split; [exact Hres|]. split; [exact Lres|]. intros rho.
  rewrite Vres, !widen_bits_fxv by (try assumption; lia). reflexivity.
Qed.

Lemma fxv_not rho i l : fxv rho i (map BNot l) = p2 (length l) - 1 - fxv rho i l.
Proof.
  unfold fxv. rewrite qrepr_map. pose proof (bv_not_add rho (qrepr i l)) as H.
  rewrite qrepr_length in H. lia.
Qed.

(* QfixedImp.sub looked up on a class cls no wider than the operands, same operand type *)
Theorem qfixed_sub_spec cls i f l r : (bit_size cls <= i + f)%nat ->
  length l = (i + f)%nat -> length r = (i + f)%nat ->
  exists res, qfixed_sub cls (TQfixed i f, l) (TQfixed i f, r) = Some (TQfixed i f, res)
    /\ length res = (i + f)%nat
    /\ forall rho, fxv rho i res = (fxv rho i l + p2 (i + f) - fxv rho i r) mod p2 (i + f).
Proof.
  intros Hc Hl Hr. unfold qfixed_sub, guard2. cbn [fst snd is_qtype andb]. rewrite with_align_same.
  assert (F1 : fill cls (TQfixed i f, l) = (TQfixed i f, l)).
  { unfold fill. cbn [fst snd]. rewrite Hl. apply Nat.leb_le in Hc. now rewrite Hc. }
  assert (F2 : fill cls (TQfixed i f, r) = (TQfixed i f, r)).
  { unfold fill. cbn [fst snd]. rewrite Hr. apply Nat.leb_le in Hc. now rewrite Hc. }
  rewrite F1, F2. change (bitwise_not (TQfixed i f, l)) with (TQfixed i f, map BNot l).
  destruct (qfixed_add_spec i f (map BNot l) r ltac:(now rewrite map_length) Hr) as (su & Hsu & Lsu & Vsu).
  rewrite Hsu. cbn [obind]. unfold bitwise_not. cbn [fst snd].
  eexists. split; [reflexivity|]. split; [now rewrite map_length|].
  intros rho. rewrite fxv_not, Vsu, fxv_not, Lsu, Hl.
  pose proof (fxv_lt rho i l) as Ba. pose proof (fxv_lt rho i r) as Bb. rewrite Hl in Ba. rewrite Hr in Bb.
  now apply sub_arith.
Qed.

(* QfixedImp.sub as dispatched (cls = the left operand's type), ANY two Qfixed types *)
Theorem qfixed_sub_mixed_spec i1 f1 i2 f2 l r :
  align_ok i1 f1 i2 f2 -> length l = (i1 + f1)%nat -> length r = (i2 + f2)%nat ->
  let i := Nat.max i1 i2 in let f := Nat.max f1 f2 in
  exists res, qfixed_sub (TQfixed i1 f1) (TQfixed i1 f1, l) (TQfixed i2 f2, r) = Some (TQfixed i f, res)
    /\ length res = (i + f)%nat
    /\ forall rho, fxv rho i res
         = (fxv rho i1 l * p2 (f - f1) + p2 (i + f) - fxv rho i2 r * p2 (f - f2)) mod p2 (i + f).
Proof.
  intros Hok Hl Hr i f.
  assert (L1 := widen_bits_length i1 f1 i f l Hl ltac:(lia) ltac:(lia)).
  assert (L2 := widen_bits_length i2 f2 i f r Hr ltac:(lia) ltac:(lia)).
  assert (Hc : (bit_size (TQfixed i1 f1) <= i + f)%nat) by (cbn [bit_size ty_size]; lia).
  destruct (qfixed_sub_spec (TQfixed i1 f1) i f _ _ Hc L1 L2) as (res & Hres & Lres & Vres).
  exists res. split; [|split; [exact Lres|]].
  - rewrite <- Hres. unfold qfixed_sub, guard2. cbn [fst is_qtype andb].
    rewrite (with_align_eq _ _ _ _ _ _ _ Hok), with_align_same. reflexivity.
  - intros rho. rewrite Vres, !widen_bits_fxv by (try assumption; lia). reflexivity.
Qed.

(* equal-length bit lists are equal iff their values are *)
Lemma bits_val_eqb_iff x y : length x = length y -> ((bits_val x =? bits_val y) = true <-> x = y).
Proof.
  intros H. rewrite N.eqb_eq. split; [now apply bits_val_inj|now intros ->].
Qed.

Lemma eqb_qrepr i f (x y : list bool) : length x = (i + f)%nat -> length y = (i + f)%nat ->
  (bits_val x =? bits_val y) = (bits_val (qrepr i x) =? bits_val (qrepr i y)).
Proof.
  intros Hx Hy. apply eq_true_iff_eq.
  rewrite !bits_val_eqb_iff by (rewrite ?qrepr_length; congruence).
  split; [now intros ->|]. intros H.
  rewrite <- (unrepr_qrepr i f x Hx), <- (unrepr_qrepr i f y Hy). now rewrite H.
Qed.

(* QfixedImp.eq / neq (and Qchar.eq / neq): operands of EQUAL length *)
Theorem zip_eq_bits_spec rho l r : length l = length r ->
  beval rho (eq_zip l r btrue) = (bv rho l =? bv rho r)
  /\ beval rho (neq_zip l r bfalse) = negb (bv rho l =? bv rho r).
Proof.
  intros H.
  assert (E : beval rho (eq_zip l r btrue) = (bv rho l =? bv rho r)).
  { rewrite <- qint_eq_bits_spec. unfold qint_eq_bits.
    rewrite H, skipn_all. rewrite <- H, skipn_all. reflexivity. }
  split; [exact E|]. rewrite <- E. apply neq_zip_neg. reflexivity.
Qed.

Theorem qfixed_eq_spec rho i f l r : length l = (i + f)%nat -> length r = (i + f)%nat ->
  beval rho (eq_zip l r btrue) = (fxv rho i l =? fxv rho i r)
  /\ beval rho (neq_zip l r bfalse) = negb (fxv rho i l =? fxv rho i r).
Proof.
  intros Hl Hr. destruct (zip_eq_bits_spec rho l r ltac:(congruence)) as [E N]. rewrite E, N.
  unfold fxv, bv. rewrite <- !qrepr_map.
  rewrite (eqb_qrepr i f) by (rewrite map_length; assumption). split; reflexivity.
Qed.

(* a comparison method returns (bool, e) with e meaning f *)
Definition cmp_val (x : option texp) (f : (nat -> bool) -> bool) : Prop :=
  exists e, x = Some (TBool, [e]) /\ forall rho, beval rho e = f rho.

(* the loop of QfixedImp.gt on two representations of equal length is QintImp.gt's *)
Lemma qfixed_gt_core_as_qint i f l r : length l = length r ->
  qfixed_gt_core (TQfixed i f, l) (TQfixed i f, r) = qint_gt_bits (qrepr i l) (qrepr i r).
Proof.
  intros Hlen. unfold qfixed_gt_core, qint_gt_bits. rewrite !to_qint_repr_eq. cbn [obind].
  destruct (gt_loop (qrepr i l) (qrepr i r)); [|reflexivity]. cbn [obind].
  rewrite (skipn_all2 (qrepr i r)) by (rewrite !qrepr_length; lia).
  rewrite (skipn_all2 (qrepr i l)) by (rewrite !qrepr_length; lia). reflexivity.
Qed.

(* all six comparisons, two operands of the same Qfixed type *)
Theorem qfixed_cmp_spec i f l r :
  length l = (i + f)%nat -> length r = (i + f)%nat -> (0 < i + f)%nat ->
  let tl := (TQfixed i f, l) in let tr := (TQfixed i f, r) in
  cmp_val (qfixed_eq tl tr) (fun rho => fxv rho i l =? fxv rho i r)
  /\ cmp_val (qfixed_neq tl tr) (fun rho => negb (fxv rho i l =? fxv rho i r))
  /\ cmp_val (qfixed_gt tl tr) (fun rho => fxv rho i r <? fxv rho i l)
  /\ cmp_val (qfixed_lt tl tr) (fun rho => fxv rho i l <? fxv rho i r)
  /\ cmp_val (qfixed_lte tl tr) (fun rho => fxv rho i l <=? fxv rho i r)
  /\ cmp_val (qfixed_gte tl tr) (fun rho => fxv rho i r <=? fxv rho i l).
Proof.
  intros Hl Hr Hpos tl tr.
  assert (N1 : qrepr i l <> []) by (intros E; apply (f_equal (@length _)) in E; rewrite qrepr_length in E; cbn in E; lia).
  assert (N2 : qrepr i r <> []) by (intros E; apply (f_equal (@length _)) in E; rewrite qrepr_length in E; cbn in E; lia).
  destruct (qint_gt_bits_total _ _ N1 N2) as [g Hgt].
  pose proof (fun rho => qint_gt_bits_spec rho _ _ g Hgt) as Vg.
  assert (Hgb : qfixed_gt_bits tl tr = Some g).
  { unfold qfixed_gt_bits, tl, tr. cbn [fst is_qfixed andb]. rewrite with_align_same.
    rewrite qfixed_gt_core_as_qint by congruence. exact Hgt. }
  assert (Heb : qfixed_eq_bit tl tr = Some (eq_zip l r btrue)).
  { unfold qfixed_eq_bit, tl, tr. now rewrite with_align_same. }
  pose proof (fun rho => proj1 (qfixed_eq_spec rho i f l r Hl Hr)) as Ve.
  pose proof (fun rho => proj2 (qfixed_eq_spec rho i f l r Hl Hr)) as Vn.
  assert (Vlt : forall rho, beval rho (BAnd [BNot g; BNot (eq_zip l r btrue)]) = (fxv rho i l <? fxv rho i r)).
  { intros rho. rewrite beval_and2, !beval_not, Vg, Ve. unfold fxv.
    destruct (N.ltb_spec (bv rho (qrepr i r)) (bv rho (qrepr i l))); destruct (N.eqb_spec (bv rho (qrepr i l)) (bv rho (qrepr i r)));
      destruct (N.ltb_spec (bv rho (qrepr i l)) (bv rho (qrepr i r))); cbn [negb andb]; try reflexivity; lia. }
  unfold cmp_val, qfixed_eq, qfixed_neq, qfixed_gt, qfixed_lt, qfixed_lte, qfixed_gte,
    qfixed_gte_bits, qfixed_lt_bits, qfixed_lte_bits, guard2.
  rewrite Hgb, Heb. unfold tl, tr. cbn [fst is_qtype andb obind as_bool option_map].
  rewrite !with_align_same. unfold zip_eq, zip_neq. cbn [snd].
  split; [|split; [|split; [|split; [|split]]]]; eexists; (split; [reflexivity|]); intros rho.
  - apply Ve.
  - apply Vn.
  - apply Vg.
  - apply Vlt.
  - rewrite beval_not, Vg. unfold fxv.
    destruct (N.ltb_spec (bv rho (qrepr i r)) (bv rho (qrepr i l)));
      destruct (N.leb_spec (bv rho (qrepr i l)) (bv rho (qrepr i r))); cbn [negb]; try reflexivity; lia.
  - rewrite beval_not, Vlt.
    destruct (N.ltb_spec (fxv rho i l) (fxv rho i r)); destruct (N.leb_spec (fxv rho i r) (fxv rho i l));
      cbn [negb]; try reflexivity; lia.
Qed.

(* the six comparison methods on operands of two Qfixed types are the methods on the aligned operands *)
Lemma qfixed_cmp_aligned i1 f1 i2 f2 l r : align_ok i1 f1 i2 f2 ->
  let i := Nat.max i1 i2 in let f := Nat.max f1 f2 in
  let tl := (TQfixed i1 f1, l) in let tr := (TQfixed i2 f2, r) in
  let al := (TQfixed i f, widen_bits i1 f1 i f l) in let ar := (TQfixed i f, widen_bits i2 f2 i f r) in
  qfixed_eq tl tr = qfixed_eq al ar /\ qfixed_neq tl tr = qfixed_neq al ar
  /\ qfixed_gt tl tr = qfixed_gt al ar /\ qfixed_lt tl tr = qfixed_lt al ar
  /\ qfixed_lte tl tr = qfixed_lte al ar /\ qfixed_gte tl tr = qfixed_gte al ar.
Proof.
  intros Hok i f tl tr al ar.
  assert (Hg : qfixed_gt_bits tl tr = qfixed_gt_bits al ar).
  { unfold qfixed_gt_bits, tl, tr, al, ar. cbn [fst is_qfixed andb].
    now rewrite (with_align_eq _ _ _ _ _ _ _ Hok), with_align_same. }
  assert (He : qfixed_eq_bit tl tr = qfixed_eq_bit al ar).
  { unfold qfixed_eq_bit, tl, tr, al, ar. now rewrite (with_align_eq _ _ _ _ _ _ _ Hok), with_align_same. }
  unfold qfixed_eq, qfixed_neq, qfixed_gt, qfixed_lt, qfixed_lte, qfixed_gte,
    qfixed_gte_bits, qfixed_lt_bits, qfixed_lte_bits, guard2.
  rewrite Hg, He. unfold tl, tr, al, ar. cbn [fst is_qtype andb].
  rewrite !(with_align_eq _ _ _ _ _ _ _ Hok), !with_align_same. repeat split.
Qed.

(* all six comparisons, operands of ANY two Qfixed types with a common type:
   the comparison of the two values at the common scale *)
Theorem qfixed_cmp_mixed_spec i1 f1 i2 f2 l r :
  align_ok i1 f1 i2 f2 -> length l = (i1 + f1)%nat -> length r = (i2 + f2)%nat ->
  (0 < Nat.max i1 i2 + Nat.max f1 f2)%nat ->
  let f := Nat.max f1 f2 in
  let tl := (TQfixed i1 f1, l) in let tr := (TQfixed i2 f2, r) in
  let x := fun rho => fxv rho i1 l * p2 (f - f1) in
  let y := fun rho => fxv rho i2 r * p2 (f - f2) in
  cmp_val (qfixed_eq tl tr) (fun rho => x rho =? y rho)
  /\ cmp_val (qfixed_neq tl tr) (fun rho => negb (x rho =? y rho))
  /\ cmp_val (qfixed_gt tl tr) (fun rho => y rho <? x rho)
  /\ cmp_val (qfixed_lt tl tr) (fun rho => x rho <? y rho)
  /\ cmp_val (qfixed_lte tl tr) (fun rho => x rho <=? y rho)
  /\ cmp_val (qfixed_gte tl tr) (fun rho => y rho <=? x rho).
Proof.
  intros Hok Hl Hr Hpos f tl tr x y.
  set (i := Nat.max i1 i2) in *.
  assert (L1 := widen_bits_length i1 f1 i f l Hl ltac:(lia) ltac:(lia)).
  assert (L2 := widen_bits_length i2 f2 i f r Hr ltac:(lia) ltac:(lia)).
  destruct (qfixed_cmp_aligned i1 f1 i2 f2 l r Hok) as (E1 & E2 & E3 & E4 & E5 & E6).
  fold i f tl tr in E1, E2, E3, E4, E5, E6. rewrite E1, E2, E3, E4, E5, E6.
  pose proof (qfixed_cmp_spec i f _ _ L1 L2 Hpos) as H. cbn zeta in H.
  assert (X : forall rho, fxv rho i (widen_bits i1 f1 i f l) = x rho)
    by (intros rho; apply widen_bits_fxv; try assumption; lia).
  assert (Y : forall rho, fxv rho i (widen_bits i2 f2 i f r) = y rho)
    by (intros rho; apply widen_bits_fxv; try assumption; lia).
  destruct H as (H1 & H2 & H3 & H4 & H5 & H6).
  repeat split;
    match goal with
    | Hc : cmp_val ?m _ |- cmp_val ?m _ =>
        destruct Hc as (e & He & Ve); exists e; split; [exact He|]; intros rho; rewrite Ve, X, Y; reflexivity
    end.
Qed.

(* repeated addition *)
Lemma iter_add_spec i f l : length l = (i + f)%nat -> forall k v, length v = (i + f)%nat ->
  exists res, iter_add k (TQfixed i f, l) (TQfixed i f, v) = Some (TQfixed i f, res)
    /\ length res = (i + f)%nat
    /\ forall rho, fxv rho i res = (fxv rho i v + N.of_nat k * fxv rho i l) mod p2 (i + f).
Proof.
  intros Hl. induction k as [|k IH]; intros v Hv.
  - exists v. split; [reflexivity|]. split; [exact Hv|]. intros rho.
    pose proof (fxv_lt rho i v) as B. rewrite Hv in B. cbn [N.of_nat]. rewrite N.mul_0_l, N.add_0_r.
    symmetry. now apply N.mod_small.
  - cbn [iter_add]. destruct (qfixed_add_spec i f v l Hv Hl) as (v' & Hv' & Lv' & Vv').
    rewrite Hv'. cbn [obind]. destruct (IH v' Lv') as (res & Hres & Lres & Vres).
    exists res. split; [exact Hres|]. split; [exact Lres|]. intros rho.
    rewrite Vres, Vv', N.add_mod_idemp_l by apply p2_nz. f_equal. lia.
Qed.

Lemma frac_loop_zero f e : frac_loop f (mkdy 0 e) = repeat false f.
Proof.
  induction f as [|f IH]; cbn [frac_loop repeat]; [reflexivity|].
  unfold dy_dbl, dy_mod1, dy_int. cbn [dnum dexp].
  rewrite N.mod_0_l by (apply N.pow_nonzero; lia). cbn [N.mul].
  rewrite N.div_0_l by (apply N.pow_nonzero; lia). cbn [N.eqb]. f_equal. exact IH.
Qed.

Lemma qfixed_const_zero i f : qfixed_const i f (mkdy 0 0) = repeat false (i + f).
Proof.
  unfold qfixed_const, qfixed_to_bool. rewrite frac_loop_zero.
  unfold dy_int. cbn [dnum dexp]. change (2 ^ N.of_nat 0) with 1. rewrite N.div_1_r.
  rewrite N.mod_0_l by (apply N.pow_nonzero; lia).
  rewrite bin_to_bool_list_py_bin by (apply N.neq_0_lt_0, N.pow_nonzero; lia).
  rewrite nbits_zero. now rewrite repeat_app.
Qed.

(* QfixedImp.mul: a Qfixed operand times an integer constant (any Qint type), by repeated addition *)
Theorem qfixed_mul_spec i f l wc cb :
  length l = (i + f)%nat -> cb <> [] -> forallb is_const_bit cb = true ->
  exists res, qfixed_mul (TQfixed i f) (TQfixed i f, l) (TQint wc, cb) = Some (TQfixed i f, res)
    /\ length res = (i + f)%nat
    /\ forall rho, fxv rho i res = (fxv rho i l * const_bits_val cb) mod p2 (i + f).
Proof.
  intros Hl Hne Hc. unfold qfixed_mul, guard2. cbn [fst snd is_qtype is_qint andb obind].
  unfold is_const. cbn [snd]. rewrite Hc. cbn [negb].
  destruct cb as [|c0 cb']; [congruence|]. set (cb := c0 :: cb') in *.
  destruct (N.eqb_spec (const_bits_val cb) 0) as [E|E].
  - rewrite qfixed_const_zero. eexists. split; [reflexivity|]. split; [now rewrite map_length, repeat_length|].
    intros rho. rewrite E, N.mul_0_r, N.mod_0_l by apply p2_nz. unfold fxv.
    rewrite qrepr_map. unfold bv. rewrite map_beval_const.
    assert (H : forall k, bits_val (qrepr i (repeat false k)) = 0).
    { intros k.
      assert (Hz : forall (z : list bool), (forall b, In b z -> b = false) -> bits_val z = 0).
      { induction z as [|b z IH]; intros Hb; cbn [bits_val]; [reflexivity|].
        rewrite (Hb b (or_introl eq_refl)), IH; [reflexivity|]. intros b' Hb'. apply Hb. now right. }
      apply Hz. intros b Hb. unfold qrepr in Hb.
      assert (Hin : In b (repeat false k)).
      { rewrite <- (firstn_skipn i (repeat false k)). apply in_or_app.
        apply in_app_or in Hb. destruct Hb as [Hb|Hb]; [right; now apply in_rev in Hb|now left]. }
      now apply repeat_spec in Hin. }
    apply H.
  - destruct (iter_add_spec i f l Hl (N.to_nat (const_bits_val cb) - 1) l Hl) as (res & Hres & Lres & Vres).
    exists res. split; [exact Hres|]. split; [exact Lres|]. intros rho. rewrite Vres. f_equal.
    replace (N.of_nat (N.to_nat (const_bits_val cb) - 1)) with (const_bits_val cb - 1) by lia. nia.
Qed.

(* the constant on the LEFT (translate_expression dispatches `3 * a` to the Qfixed type's mul too) *)
Theorem qfixed_mul_left_spec i f l wc cb :
  length l = (i + f)%nat -> cb <> [] -> forallb is_const_bit cb = true ->
  exists res, qfixed_mul (TQfixed i f) (TQint wc, cb) (TQfixed i f, l) = Some (TQfixed i f, res)
    /\ length res = (i + f)%nat
    /\ forall rho, fxv rho i res = (fxv rho i l * const_bits_val cb) mod p2 (i + f).
Proof.
  intros Hl Hne Hc. unfold qfixed_mul, guard2. cbn [fst snd is_qtype is_qint andb obind].
  unfold is_const. cbn [snd]. rewrite Hc. cbn [negb].
  destruct cb as [|c0 cb']; [congruence|]. set (cb := c0 :: cb') in *.
  destruct (N.eqb_spec (const_bits_val cb) 0) as [E|E].
  - rewrite qfixed_const_zero. eexists. split; [reflexivity|]. split; [now rewrite map_length, repeat_length|].
    intros rho. rewrite E, N.mul_0_r, N.mod_0_l by apply p2_nz. unfold fxv.
    rewrite qrepr_map. unfold bv. rewrite map_beval_const.
    assert (H : forall k, bits_val (qrepr i (repeat false k)) = 0).
    { intros k.
      assert (Hz : forall (z : list bool), (forall b, In b z -> b = false) -> bits_val z = 0).
      { induction z as [|b z IH]; intros Hb; cbn [bits_val]; [reflexivity|].
        rewrite (Hb b (or_introl eq_refl)), IH; [reflexivity|]. intros b' Hb'. apply Hb. now right. }
      apply Hz. intros b Hb. unfold qrepr in Hb.
      assert (Hin : In b (repeat false k)).
      { rewrite <- (firstn_skipn i (repeat false k)). apply in_or_app.
        apply in_app_or in Hb. destruct Hb as [Hb|Hb]; [right; now apply in_rev in Hb|now left]. }
      now apply repeat_spec in Hin. }
    apply H.
  - destruct (iter_add_spec i f l Hl (N.to_nat (const_bits_val cb) - 1) l Hl) as (res & Hres & Lres & Vres).
    exists res. split; [exact Hres|]. split; [exact Lres|]. intros rho. rewrite Vres. f_equal.
    replace (N.of_nat (N.to_nat (const_bits_val cb) - 1)) with (const_bits_val cb - 1) by lia. nia.
Qed.

(* ================================================================== *)
(* texp-level statements of the Qint comparisons                       *)
(* ================================================================== *)
Theorem qint_eq_spec tl tr : is_qtype (fst tl) = true -> is_qtype (fst tr) = true ->
  cmp_val (qint_eq tl tr) (fun rho => bv rho (snd tl) =? bv rho (snd tr))
  /\ cmp_val (qint_neq tl tr) (fun rho => negb (bv rho (snd tl) =? bv rho (snd tr))).
Proof.
  intros Ql Qr. unfold cmp_val, qint_eq, qint_neq, guard2. rewrite Ql, Qr. cbn [andb].
  split; eexists; (split; [reflexivity|]); intros rho.
  - apply qint_eq_bits_spec.
  - apply qint_neq_bits_spec.
Qed.

(* mixed widths: any two non-empty operands *)
Theorem qint_order_spec tl tr : is_qtype (fst tl) = true -> is_qtype (fst tr) = true ->
  snd tl <> [] -> snd tr <> [] ->
  cmp_val (qint_gt tl tr) (fun rho => bv rho (snd tr) <? bv rho (snd tl))
  /\ cmp_val (qint_lt tl tr) (fun rho => bv rho (snd tl) <? bv rho (snd tr))
  /\ cmp_val (qint_lte tl tr) (fun rho => bv rho (snd tl) <=? bv rho (snd tr))
  /\ cmp_val (qint_gte tl tr) (fun rho => bv rho (snd tr) <=? bv rho (snd tl)).
Proof.
  intros Ql Qr Nl Nr. unfold cmp_val, qint_gt, qint_lt, qint_lte, qint_gte, guard2. rewrite Ql, Qr. cbn [andb].
  destruct (qint_gt_bits_total _ _ Nl Nr) as [g Hg].
  destruct (qint_cmp_total _ _ Nl Nr) as ((lt & Hlt) & (lte & Hlte) & (gte & Hgte)).
  rewrite Hg, Hlt, Hlte, Hgte. cbn [as_bool option_map].
  repeat split; eexists; (split; [reflexivity|]); intros rho.
  - now apply qint_gt_bits_spec.
  - now apply qint_lt_bits_spec.
  - now apply qint_lte_bits_spec.
  - now apply qint_gte_bits_spec.
Qed.

(* UnboundLocalError: gt, lt, lte, gte on an operand with no bits *)
Theorem qint_order_raises tl tr : snd tl = [] \/ snd tr = [] ->
  qint_gt tl tr = None /\ qint_lt tl tr = None /\ qint_lte tl tr = None /\ qint_gte tl tr = None.
Proof.
  intros H. unfold qint_gt, qint_lt, qint_lte, qint_gte, guard2, qint_gte_bits, qint_lt_bits, qint_lte_bits.
  rewrite (qint_gt_bits_raises _ _ H). cbn [obind as_bool option_map].
  destruct (is_qtype (fst tl) && is_qtype (fst tr)); repeat split.
Qed.

(* ================================================================== *)
(* Qchar, Qbool                                                        *)
(* ================================================================== *)
(* Qchar.eq / neq (delegating to QintImp): operands of ANY two lengths, e.g. Qchar == Qint4 *)
Theorem qchar_eq_spec tl tr : is_qtype (fst tl) = true -> is_qtype (fst tr) = true ->
  cmp_val (qchar_eq tl tr) (fun rho => bv rho (snd tl) =? bv rho (snd tr))
  /\ cmp_val (qchar_neq tl tr) (fun rho => negb (bv rho (snd tl) =? bv rho (snd tr))).
Proof. exact (qint_eq_spec tl tr). Qed.

Theorem qbool_spec rho tl tr :
  beval rho (snd (qbool_eq tl tr)) = Bool.eqb (beval rho (snd tl)) (beval rho (snd tr))
  /\ beval rho (snd (qbool_neq tl tr)) = xorb (beval rho (snd tl)) (beval rho (snd tr))
  /\ fst (qbool_eq tl tr) = fst tl /\ fst (qbool_neq tl tr) = fst tl.
Proof. unfold qbool_eq, qbool_neq. cbn [fst snd]. now rewrite beval_b_eq, beval_b_neq. Qed.

(* ================================================================== *)
(* where the full statements are false of the faithful model           *)
(* ================================================================== *)
Definition rho0 : nat -> bool := fun _ => false.
Definition cst (t : ty) (l : list bool) : texp := (t, map BConst l).

(* a % 3 computes a & 2 *)
Example qint_mod_non_pow2_refuted :
  exists tl tr r, good tl 4 /\ good tr 4 /\ qint_mod tl tr = Some r
    /\ bv rho0 (snd r) <> bv rho0 (snd tl) mod bv rho0 (snd tr)
    /\ bv rho0 (snd r) = N.land (bv rho0 (snd tl)) (bv rho0 (snd tr) - 1).
Proof.
  exists (qint_const_e 4 1), (qint_const_e 4 3). eexists.
  split; [split; reflexivity|]. split; [split; reflexivity|]. split; [vm_compute; reflexivity|].
  split; vm_compute; congruence.
Qed.

(* the cases the unfixed code got wrong, now right (operands of different Qfixed types
   are aligned first; Qchar compares as an unsigned integer of any width) *)
(* Qfixed1_2 0.5 + Qfixed2_2 0.0 = 0.5 (was 2.0);  Qfixed2_2 2.0 - Qfixed1_2 0.5 = 1.5 (was 0.0) *)
Example qfixed_add_sub_mixed_ex :
  let a := cst (TQfixed 1 2) [false; true; false] in          (* 0.5 *)
  let z := cst (TQfixed 2 2) [false; false; false; false] in  (* 0.0 *)
  let b := cst (TQfixed 2 2) [false; true; false; false] in   (* 2.0 *)
  option_map (fun r => (fst r, fxv rho0 2 (snd r))) (qfixed_add a z) = Some (TQfixed 2 2, 2)
  /\ option_map (fun r => (fst r, fxv rho0 2 (snd r))) (qfixed_sub (TQfixed 2 2) b a) = Some (TQfixed 2 2, 6).
Proof. split; vm_compute; reflexivity. Qed.

(* 0.5 (Qfixed1_2) == 2.0 (Qfixed2_2) is false (was true); 0.0 > 2.0 is false (was true);
   0.75 (Qfixed1_2) > 0.5 (Qfixed1_3) is true (was false) *)
Example qfixed_cmp_mixed_ex :
  let a := cst (TQfixed 1 2) [false; true; false] in
  let b := cst (TQfixed 2 2) [false; true; false; false] in
  let z := cst (TQfixed 1 2) [false; false; false] in
  let c := cst (TQfixed 1 2) [false; true; true] in
  let d := cst (TQfixed 1 3) [false; true; false; false] in
  option_map (fun r => map (beval rho0) (snd r)) (qfixed_eq a b) = Some [false]
  /\ option_map (fun r => map (beval rho0) (snd r)) (qfixed_gt z b) = Some [false]
  /\ option_map (fun r => map (beval rho0) (snd r)) (qfixed_gt c d) = Some [true]
  /\ option_map (fun r => map (beval rho0) (snd r)) (qfixed_lt z b) = Some [true].
Proof. repeat split; vm_compute; reflexivity. Qed.

(* Qchar 'a' (97) == Qint4 1 is false (was true: zip truncated to the 4 low bits) *)
Example qchar_eq_qint_ex :
  option_map (fun r => map (beval rho0) (snd r)) (qchar_eq (cst TQchar (nbits 8 97)) (qint_const_e 4 1)) = Some [false]
  /\ option_map (fun r => map (beval rho0) (snd r)) (qchar_eq (cst TQchar (nbits 8 1)) (qint_const_e 4 1)) = Some [true].
Proof. split; vm_compute; reflexivity. Qed.

(* a pair of shapes with no common shipped type is rejected (TypeErrorException) *)
Example qfixed_align_rejects :
  is_shipped_qfixed 5 2 = false /\
  qfixed_add (cst (TQfixed 5 1) (repeat false 6)) (cst (TQfixed 1 2) (repeat false 3)) = None.
Proof. split; vm_compute; reflexivity. Qed.

(* ================================================================== *)
(* combined statements used by Prop_C01_types.v                        *)
(* ================================================================== *)
Theorem fill_spec rho cls v :
  bv rho (snd (fill cls v)) = bv rho (snd v)
  /\ length (snd (fill cls v)) = Nat.max (length (snd v)) (bit_size cls).
Proof. split; [apply fill_bv|apply fill_length]. Qed.

Theorem crop_spec rho cls v :
  bv rho (snd (crop cls v)) = bv rho (snd v) mod p2 (bit_size cls)
  /\ length (snd (crop cls v)) = Nat.min (length (snd v)) (bit_size cls).
Proof. split; [apply crop_bv|apply crop_length]. Qed.

Theorem shifts_total v k : is_qtype (fst v) = true ->
  (exists r, shift_left v k = Some r) /\ (exists r, shift_right v k = Some r).
Proof. intros H. split; [now apply shift_left_total|now apply shift_right_total]. Qed.

Theorem qint_bitwise_all_spec tl tr :
  is_qtype (fst tl) = true -> is_qtype (fst tr) = true -> wf_te tl -> wf_te tr ->
  let w := Nat.max (length (snd tl)) (length (snd tr)) in
  has_val (qint_bitwise_and tl tr) (bitwise_type tl tr) w (fun rho => N.land (bv rho (snd tl)) (bv rho (snd tr)))
  /\ has_val (qint_bitwise_or tl tr) (bitwise_type tl tr) w (fun rho => N.lor (bv rho (snd tl)) (bv rho (snd tr)))
  /\ has_val (qint_bitwise_xor tl tr) (bitwise_type tl tr) w (fun rho => N.lxor (bv rho (snd tl)) (bv rho (snd tr))).
Proof.
  intros Ql Qr Wl Wr w.
  split; [now apply qint_bitwise_and_spec|split; [now apply qint_bitwise_or_spec|now apply qint_bitwise_xor_spec]].
Qed.
