(* Circ.v — qlasskit circuits (gate list over qubit indices) and the semantics
   of their classical reversible part, in any bit algebra: on booleans (one
   basis state) and on packed truth tables (all basis states at once). *)
From Coq Require Import List Bool NArith ZArith Arith Lia.
From QV Require Import Bexp BexpTT.
Import ListNotations.

Inductive base := BI | BX | BY | BZ | BH | BS | BT | BP | BSwap.
(* the gate classes of qlasskit/qcircuit/gates.py; the class matters to the
   decompiler (isinstance tests), so it is kept *)
Inductive gk :=
| K1 (b : base)            (* I X Y Z H S T P Swap *)
| KCX | KCZ | KCP | KCCX
| KMCX (n : nat)           (* MCX(n_controls) *)
| KMCtrl (b : base) (n : nat)  (* MCtrl(gate, n_controls) *)
| KBarrier | KNop.
Record gate := mkg { gkind : gk; gqs : list nat; gpar : option (Z * N) }.
Definition circuit := list gate.

(* number of controls when the gate is an X with controls *)
Definition x_controls (k : gk) : option nat :=
  match k with
  | K1 BX => Some 0 | KCX => Some 1 | KCCX => Some 2
  | KMCX n => Some n | KMCtrl BX n => Some n
  | _ => None
  end%nat.

Inductive cact := CFlip (cs : list nat) (t : nat) | CId | CNone.

Definition cact_of (g : gate) : cact :=
  match gkind g with
  | KBarrier | KNop | K1 BI => CId
  | k => match x_controls k with
         | Some nc => if Nat.eqb (length (gqs g)) (S nc)
                      then CFlip (removelast (gqs g)) (last (gqs g) 0%nat) else CNone
         | None => CNone
         end
  end.

Section Sim.
  Variable A : balg.
  Definition getq (s : list A) (q : nat) : A := nth q s (b_false A).
  Definition ctrl (s : list A) (cs : list nat) : A :=
    fold_right (fun c acc => b_and A (getq s c) acc) (b_true A) cs.
  Definition flip (s : list A) (cs : list nat) (t : nat) : list A :=
    upd (b_false A) s t (b_xor A (getq s t) (ctrl s cs)).
  Fixpoint sim (s : list A) (c : circuit) : option (list A) :=
    match c with
    | [] => Some s
    | g :: r => match cact_of g with
                | CFlip cs t => sim (flip s cs t) r
                | CId => sim s r
                | CNone => None
                end
    end.
End Sim.

(* reference semantics on one basis state, as a function qubit -> bool *)
Definition fflip (f : nat -> bool) (cs : list nat) (t : nat) : nat -> bool :=
  fun q => if Nat.eqb q t then xorb (f t) (forallb f cs) else f q.
Fixpoint fsim (f : nat -> bool) (c : circuit) : option (nat -> bool) :=
  match c with
  | [] => Some f
  | g :: r => match cact_of g with
              | CFlip cs t => fsim (fflip f cs t) r
              | CId => fsim f r
              | CNone => None
              end
  end.

Definition opt_rel {X Y} (R : X -> Y -> Prop) (a : option X) (b : option Y) : Prop :=
  match a, b with Some x, Some y => R x y | None, None => True | _, _ => False end.

Lemma forallb_ext_in {X} (f g : X -> bool) l : (forall x, f x = g x) -> forallb f l = forallb g l.
Proof. intros H. induction l as [|x r IH]; cbn; [reflexivity|now rewrite H, IH]. Qed.

Lemma fsim_ext c : forall f g, (forall q, f q = g q) ->
  opt_rel (fun f' g' => forall q, f' q = g' q) (fsim f c) (fsim g c).
Proof.
  induction c as [|x c IH]; intros f g H; cbn [fsim]; [exact H|].
  destruct (cact_of x) as [cs t| |]; [|now apply IH|exact I].
  apply IH. intros q. unfold fflip. rewrite H, (forallb_ext_in f g cs H). now rewrite H.
Qed.

(* the table simulation, read at assignment x, is the reference simulation *)
Definition proj (x : N) (tbl : list N) : nat -> bool := fun q => N.testbit (nth q tbl 0%N) x.

Lemma ctrl_tt_spec m x tbl cs : N.testbit m x = true ->
  N.testbit (ctrl (tt_alg m) tbl cs) x = forallb (proj x tbl) cs.
Proof.
  intros Hm. induction cs as [|c cs IH]; [exact Hm|].
  change (ctrl (tt_alg m) tbl (c :: cs)) with (N.land (nth c tbl 0%N) (ctrl (tt_alg m) tbl cs)).
  cbn [forallb]. rewrite N.land_spec, IH. reflexivity.
Qed.

Lemma sim_tt_spec m x c : N.testbit m x = true -> forall tbl,
  opt_rel (fun t' f' => forall q, proj x t' q = f' q) (sim (tt_alg m) tbl c) (fsim (proj x tbl) c).
Proof.
  intros Hm. induction c as [|g c IH]; intros tbl; cbn [sim fsim]; [now intros q|].
  destruct (cact_of g) as [cs t| |]; [|apply IH|exact I].
  specialize (IH (flip (tt_alg m) tbl cs t)).
  pose proof (fsim_ext c (proj x (flip (tt_alg m) tbl cs t)) (fflip (proj x tbl) cs t)) as He.
  assert (Hq : forall q, proj x (flip (tt_alg m) tbl cs t) q = fflip (proj x tbl) cs t q).
  { intros q. unfold proj, flip, fflip. cbn [b_false tt_alg]. rewrite nth_upd.
    destruct (Nat.eqb q t); [|reflexivity].
    cbn [b_xor tt_alg]. rewrite N.lxor_spec, ctrl_tt_spec by exact Hm. reflexivity. }
  specialize (He Hq).
  destruct (sim (tt_alg m) (flip (tt_alg m) tbl cs t) c) as [t'|],
           (fsim (proj x (flip (tt_alg m) tbl cs t)) c) as [f1|],
           (fsim (fflip (proj x tbl) cs t) c) as [f2|]; cbn in *; try tauto.
  intros q. now rewrite IH, He.
Qed.

(* ---- a generic verified check: final tables against expected tables ---- *)
Definition check_circuit (m : N) (init : list N) (c : circuit) (expected : list (nat * N)) : option N :=
  match sim (tt_alg m) init c with
  | None => None
  | Some ft => Some (fold_right (fun qe acc => N.lor (tt_diff m (nth (fst qe) ft 0%N) (snd qe)) acc) 0%N expected)
  end.

Lemma lor_fold_zero {X} (f : X -> N) l :
  fold_right (fun x acc => N.lor (f x) acc) 0%N l = 0%N <-> forall x, In x l -> f x = 0%N.
Proof.
  induction l as [|y r IH]; cbn [fold_right].
  - split; [intros _ x []|reflexivity].
  - rewrite N.lor_eq_0_iff, IH. split.
    + intros [H1 H2] x [<-|Hx]; auto.
    + intros H. split; [apply H; now left|intros x Hx; apply H; now right].
Qed.

Theorem check_circuit_spec m init c expected :
  check_circuit m init c expected = Some 0%N <->
  (exists ft, sim (tt_alg m) init c = Some ft) /\
  forall x, N.testbit m x = true ->
    exists f, fsim (proj x init) c = Some f /\
      forall q e, In (q, e) expected -> f q = N.testbit e x.
Proof.
  unfold check_circuit. destruct (sim (tt_alg m) init c) as [ft|] eqn:Es.
  - split.
    + intros H. injection H as H. split; [now exists ft|].
      rewrite (lor_fold_zero (fun qe => tt_diff m (nth (fst qe) ft 0%N) (snd qe))) in H.
      intros x Hm. pose proof (sim_tt_spec m x c Hm init) as Hs. rewrite Es in Hs.
      destruct (fsim (proj x init) c) as [f|]; [|contradiction]. exists f. split; [reflexivity|].
      intros q e Hin. specialize (H (q, e) Hin). cbn [fst snd] in H.
      rewrite tt_diff_spec in H. rewrite <- Hs. unfold proj. now apply H.
    + intros [_ H]. f_equal.
      apply (lor_fold_zero (fun qe => tt_diff m (nth (fst qe) ft 0%N) (snd qe))).
      intros [q e] Hin. cbn [fst snd]. apply tt_diff_spec. intros x Hm.
      destruct (H x Hm) as (f & Hf & Hexp).
      pose proof (sim_tt_spec m x c Hm init) as Hs. rewrite Es, Hf in Hs. cbn in Hs.
      rewrite <- (Hexp q e Hin), <- Hs. reflexivity.
  - split; [discriminate|]. intros [[ft H] _]. discriminate.
Qed.
