(* Prop_C04.v — "Boolean optimizer profiles preserve meaning".
   Model: M_Boolopt.v (qlasskit/boolopt/*.py and the per-expression
   simplify_logic of ast2logic/t_ast.py).  The sympy calls simplify_logic and
   cse are universally quantified functions constrained only by the contracts
   simp_sem / simp_syms / cse_contract of P_Boolopt.v.  [run_defs env ds j] is
   the value of symbol j after evaluating the definitions ds in order from the
   assignment env; [is_ret j] says that the name of j starts with "_ret". *)
From Coq Require Import List Bool NArith Arith.
From QV Require Import Bexp BexpTT Compiled M_Boolopt P_Boolopt Chk_Boolopt.
Import ListNotations.

(* ---------- every transformer, every expression (all arities), every assignment ---------- *)
Theorem C04_remove_ITE_preserves : forall env e, beval env (remove_ITE e) = beval env e.
Proof. exact remove_ITE_preserves. Qed.
Print Assumptions C04_remove_ITE_preserves.

Theorem C04_remove_Implies_preserves : forall env e, beval env (remove_Implies e) = beval env e.
Proof. exact remove_Implies_preserves. Qed.
Print Assumptions C04_remove_Implies_preserves.

Theorem C04_transform_or2xor_preserves : forall env e, beval env (transform_or2xor e) = beval env e.
Proof. exact or2xor_preserves. Qed.
Print Assumptions C04_transform_or2xor_preserves.

(* for both values of the module flag DISABLE_OR *)
Theorem C04_transform_or2and_preserves : forall env dis e, beval env (transform_or2and dis e) = beval env e.
Proof. exact or2and_preserves. Qed.
Print Assumptions C04_transform_or2and_preserves.

Theorem C04_remove_obvious_preserves : forall env e, beval env (remove_obvious e) = beval env e.
Proof. exact remove_obvious_preserves. Qed.
Print Assumptions C04_remove_obvious_preserves.

(* a SympyTransformer that overrides nothing *)
Theorem C04_default_visitors_preserve : forall env e, beval env (visit_default e) = beval env e.
Proof. exact visit_default_preserves. Qed.
Print Assumptions C04_default_visitors_preserve.

(* the second self.visit inside visit_ITE / visit_Implies (on the node just
   built) changes nothing, so the model's clause may omit it *)
Theorem C04_remove_ITE_second_visit : forall e, remove_ITE (remove_ITE e) = remove_ITE e.
Proof. exact remove_ITE_idem. Qed.
Print Assumptions C04_remove_ITE_second_visit.

Theorem C04_remove_Implies_second_visit : forall e, remove_Implies (remove_Implies e) = remove_Implies e.
Proof. exact remove_Implies_idem. Qed.
Print Assumptions C04_remove_Implies_second_visit.

(* the old rule (before the arity guards) was wrong *)
Theorem C04_or2xor_unguarded_refuted :
  transform_or2xor_unguarded w_or3 = BNot (BXor [BSym 0; BSym 1]) /\
  exists env, beval env (transform_or2xor_unguarded w_or3) <> beval env w_or3.
Proof. exact or2xor_unguarded_refuted. Qed.
Print Assumptions C04_or2xor_unguarded_refuted.

(* ---------- a transformer as a step of a profile: EVERY symbol keeps its function ---------- *)
Theorem C04_transformer_step_preserves : forall simp cse is_ret disable_or st,
  is_transformer st = true -> forall ds env j,
  run_defs env (apply_step simp cse is_ret disable_or st ds) j = run_defs env ds j.
Proof. exact transformer_step_sem. Qed.
Print Assumptions C04_transformer_step_preserves.

Theorem C04_transformer_step_symbols : forall simp cse is_ret disable_or st,
  is_transformer st = true -> forall ds,
  (forall ok, free_ok ok ds -> free_ok ok (apply_step simp cse is_ret disable_or st ds)) /\
  names (apply_step simp cse is_ret disable_or st ds) = names ds.
Proof.
  exact (fun simp cse is_ret dis st H ds =>
    conj (transformer_step_free simp cse is_ret dis st H ds) (transformer_step_names simp cse is_ret dis st H ds)).
Qed.
Print Assumptions C04_transformer_step_symbols.

(* ---------- translate_ast: per-expression simplify_logic(e, form="cnf") ---------- *)
Theorem C04_front_simplify_preserves : forall simp, simp_sem simp ->
  forall ds env j, run_defs env (front_simplify simp ds) j = run_defs env ds j.
Proof. exact front_simplify_preserves. Qed.
Print Assumptions C04_front_simplify_preserves.

(* ---------- merge_expressions ---------- *)
(* guard ret_fresh: no _ret symbol is defined after an earlier expression read it *)
Theorem C04_merge_preserves : forall simp is_ret, simp_sem simp ->
  forall ds, ret_fresh is_ret [] ds ->
  forall env j, is_ret j = true ->
  run_defs env (merge_expressions simp is_ret ds) j = run_defs env ds j.
Proof. exact merge_preserves. Qed.
Print Assumptions C04_merge_preserves.

(* every well-formed list over n inputs (reads only inputs and earlier
   definitions; a _ret symbol is not an input and is defined once) *)
Theorem C04_merge_preserves_wellformed : forall simp is_ret n ds, simp_sem simp ->
  wf_defsb n is_ret ds = true ->
  forall env j, is_ret j = true ->
  run_defs env (merge_expressions simp is_ret ds) j = run_defs env ds j.
Proof. exact merge_preserves_wf. Qed.
Print Assumptions C04_merge_preserves_wellformed.

Theorem C04_merge_symbols : forall simp is_ret, simp_syms simp -> forall ds,
  (forall ok, free_ok ok ds -> free_ok ok (merge_expressions simp is_ret ds)) /\
  (forall r, is_ret r = true -> In r (names ds) -> In r (names (merge_expressions simp is_ret ds))).
Proof.
  exact (fun simp is_ret Hs ds =>
    conj (merge_free simp is_ret Hs ds) (merge_keeps_ret simp is_ret ds)).
Qed.
Print Assumptions C04_merge_symbols.

(* ---------- apply_cse ---------- *)
(* At full strength (every well-formed list) the statement is FALSE of the
   model: the replacements are put in front of the list, so a replacement that
   mentions a symbol defined by the list reads it before its definition. *)
Theorem C04_apply_cse_refuted :
  exists is_ret cse, cse_contract is_ret cse /\
  exists ds env j, free_ok (fun i => i < 4) ds /\ is_ret j = true /\ In j (names ds) /\
    run_defs env (apply_cse cse ds) j <> run_defs env ds j.
Proof. exact apply_cse_refuted. Qed.
Print Assumptions C04_apply_cse_refuted.

(* exact guard: no expression reads a symbol the list defines, and no name of
   the list is a replacement symbol; then every symbol that is not a
   replacement symbol (in particular every _ret symbol) keeps its function *)
Theorem C04_apply_cse_partial : forall cse is_ret, cse_contract is_ret cse -> forall ds,
  (forall i, In i (all_syms ds) -> ~ In i (names ds)) ->
  (forall s, In s (names ds) -> ~ In s (names (fst (cse (exprs ds))))) ->
  forall env j, (~ In j (names (fst (cse (exprs ds)))) \/ is_ret j = true) ->
  run_defs env (apply_cse cse ds) j = run_defs env ds j.
Proof.
  exact (fun cse is_ret Hc ds G1 G2 env j Hj =>
    match Hj with
    | or_introl Hn => apply_cse_partial cse is_ret Hc ds G1 G2 env j Hn
    | or_intror Hr => apply_cse_partial_ret cse is_ret Hc ds G1 G2 env j Hr
    end).
Qed.
Print Assumptions C04_apply_cse_partial.

Theorem C04_apply_cse_symbols : forall cse is_ret, cse_contract is_ret cse -> forall ds,
  (forall ok, (forall i, In i (all_syms ds) -> ~ In i (names ds)) ->
     free_ok ok ds -> free_ok ok (apply_cse cse ds)) /\
  (forall r, In r (names ds) -> In r (names (apply_cse cse ds))).
Proof.
  exact (fun cse is_ret Hc ds =>
    conj (apply_cse_free cse is_ret Hc ds) (apply_cse_keeps cse is_ret Hc ds)).
Qed.
Print Assumptions C04_apply_cse_symbols.

(* ---------- the shipped profiles and every prefix of them ---------- *)
Theorem C04_fast_profile_preserves : forall simp cse is_ret disable_or k ds env j,
  run_defs env (apply_profile simp cse is_ret disable_or (firstn k fast_profile) ds) j = run_defs env ds j.
Proof. exact fast_profile_preserves. Qed.
Print Assumptions C04_fast_profile_preserves.

Theorem C04_fast_profile_symbols : forall simp cse is_ret disable_or k ds,
  (forall ok, free_ok ok ds ->
     free_ok ok (apply_profile simp cse is_ret disable_or (firstn k fast_profile) ds)) /\
  names (apply_profile simp cse is_ret disable_or (firstn k fast_profile) ds) = names ds.
Proof. exact fast_profile_symbols. Qed.
Print Assumptions C04_fast_profile_symbols.

(* defaultOptimizer contains apply_cse after merge_expressions: false at full strength *)
Theorem C04_default_profile_refuted :
  exists simp cse is_ret, simp_sem simp /\ simp_syms simp /\ cse_contract is_ret (cse []) /\
  exists ds env j, free_ok (fun i => i < 4) ds /\ is_ret j = true /\ In j (names ds) /\
    run_defs env (apply_profile simp cse is_ret false default_profile ds) j <> run_defs env ds j.
Proof. exact default_profile_refuted. Qed.
Print Assumptions C04_default_profile_refuted.

(* exact guard: no expression reads a _ret symbol that the list defines (every
   list the front end produces from a program whose variables are not named
   _ret...) *)
Theorem C04_default_profile_partial : forall simp cse is_ret disable_or,
  simp_sem simp -> simp_syms simp -> cse_contract is_ret (cse []) ->
  forall k ds, no_ret_read is_ret ds -> forall env j, is_ret j = true ->
  run_defs env (apply_profile simp cse is_ret disable_or (firstn k default_profile) ds) j = run_defs env ds j.
Proof. exact default_profile_partial. Qed.
Print Assumptions C04_default_profile_partial.

Theorem C04_default_profile_symbols : forall simp cse is_ret disable_or,
  simp_syms simp -> cse_contract is_ret (cse []) ->
  forall k ds, no_ret_read is_ret ds ->
  (forall ok, free_ok ok ds ->
     free_ok ok (apply_profile simp cse is_ret disable_or (firstn k default_profile) ds)) /\
  (forall r, is_ret r = true -> In r (names ds) ->
     In r (names (apply_profile simp cse is_ret disable_or (firstn k default_profile) ds))).
Proof. exact default_profile_symbols. Qed.
Print Assumptions C04_default_profile_symbols.

(* ---------- apply_cse as in /verif/proposed_fixes/C04_apply_cse_order.diff ---------- *)
(* full strength: every list, every symbol that is not a replacement symbol *)
Theorem C04_apply_cse_guarded_preserves : forall cse is_ret, csex_contract is_ret cse ->
  forall ds env j,
  (~ In j (names (fst (cse (names ds) (exprs ds)))) \/ is_ret j = true) ->
  run_defs env (apply_cse_guarded cse ds) j = run_defs env ds j.
Proof. exact apply_cse_guarded_preserves. Qed.
Print Assumptions C04_apply_cse_guarded_preserves.

Theorem C04_apply_cse_guarded_symbols : forall cse is_ret, csex_contract is_ret cse -> forall ds,
  (forall ok, free_ok ok ds -> free_ok ok (apply_cse_guarded cse ds)) /\
  (forall r, In r (names ds) -> In r (names (apply_cse_guarded cse ds))).
Proof. exact apply_cse_guarded_symbols. Qed.
Print Assumptions C04_apply_cse_guarded_symbols.

(* defaultOptimizer with that apply_cse: every list merge_expressions handles
   (in particular every well-formed list), every prefix *)
Theorem C04_default_profile_guarded_preserves : forall simp cse is_ret disable_or,
  simp_sem simp -> csex_contract is_ret cse ->
  forall k ds, ret_fresh is_ret [] ds -> forall env j, is_ret j = true ->
  run_defs env (apply_profile simp cse is_ret disable_or (firstn k default_profile_guarded) ds) j = run_defs env ds j.
Proof. exact default_profile_guarded_preserves. Qed.
Print Assumptions C04_default_profile_guarded_preserves.

Theorem C04_default_profile_guarded_symbols : forall simp cse is_ret disable_or,
  simp_syms simp -> csex_contract is_ret cse -> forall k ds,
  (forall ok, free_ok ok ds ->
     free_ok ok (apply_profile simp cse is_ret disable_or (firstn k default_profile_guarded) ds)) /\
  (forall r, is_ret r = true -> In r (names ds) ->
     In r (names (apply_profile simp cse is_ret disable_or (firstn k default_profile_guarded) ds))).
Proof. exact default_profile_guarded_symbols. Qed.
Print Assumptions C04_default_profile_guarded_symbols.

(* the guards are decidable by evaluation *)
Theorem C04_guards_computable : forall n is_ret ds,
  (no_ret_readb is_ret ds = true -> no_ret_read is_ret ds) /\
  (no_def_readb ds = true -> forall i, In i (all_syms ds) -> ~ In i (names ds)) /\
  (wf_defsb n is_ret ds = true -> ret_fresh is_ret [] ds /\ free_ok (fun i => i < n) ds).
Proof.
  exact (fun n is_ret ds =>
    conj (no_ret_readb_ok is_ret ds) (conj (no_def_readb_ok ds)
      (fun H => conj (wf_ret_fresh n is_ret ds H) (wf_free_ok n is_ret ds H)))).
Qed.
Print Assumptions C04_guards_computable.

(* ---------- what the verdicts of the correspondence run mean ---------- *)
Theorem C04_checker_sound_and_complete : forall n syms d1 d2,
  sym_diff n syms d1 d2 = [] <->
  forall x, (x < pow2n n)%N -> forall r, In r syms -> run_defs (asg x) d1 r = run_defs (asg x) d2 r.
Proof. exact sym_diff_correct. Qed.
Print Assumptions C04_checker_sound_and_complete.

Theorem C04_checker_witness : forall n d1 d2 r, sym_differs n d1 d2 r = true ->
  let x := sym_witness n d1 d2 r in
  (x < pow2n n)%N /\ run_defs (asg x) d1 r <> run_defs (asg x) d2 r.
Proof. exact sym_witness_correct. Qed.
Print Assumptions C04_checker_witness.

(* failure kind 1 reported for an observed step = that verdict on the symbols the step must keep *)
Theorem C04_observation_verdict : forall g n rets dis d_in o steps,
  steps_of_code g (o_code o) = Some steps ->
  (In 1%N (chk_obs g n rets dis d_in (Compiled.expr_tables n d_in) o) <->
   sym_diff n (kept_syms rets steps d_in) d_in (o_out o) <> []).
Proof. exact chk_obs_kind1. Qed.
Print Assumptions C04_observation_verdict.

(* ---------- examples: the rewrites fire, the hypotheses are satisfiable ---------- *)
Notation a := (BSym 0). Notation b := (BSym 1). Notation c := (BSym 2). Notation d := (BSym 3).

Example ex_remove_ITE : remove_ITE (BAnd [BIte a b c; d]) = BAnd [BOr [BAnd [a; b]; BAnd [BNot a; c]]; d].
Proof. reflexivity. Qed.
Example ex_remove_Implies : remove_Implies (BNot (BImp a (BImp b c))) = BNot (BOr [BNot a; BOr [BNot b; c]]).
Proof. reflexivity. Qed.
(* both polarities, positional *)
Example ex_or2xor_fires : transform_or2xor (BOr [BAnd [a; b]; BAnd [BNot a; BNot b]]) = BNot (BXor [a; b]).
Proof. reflexivity. Qed.
Example ex_or2xor_fires_swapped :
  transform_or2xor (BOr [BAnd [BNot a; b]; BAnd [a; BNot b]]) = BNot (BXor [BNot a; b]).
Proof. reflexivity. Qed.
(* crossed positions: the test is positional, the rule does not fire *)
Example ex_or2xor_positional :
  transform_or2xor (BOr [BAnd [a; b]; BAnd [BNot b; BNot a]]) = BOr [BAnd [a; b]; BAnd [BNot b; BNot a]].
Proof. reflexivity. Qed.
(* three literals: the guarded rule leaves the expression alone ... *)
Example ex_or2xor_guarded : transform_or2xor w_or3 = w_or3.
Proof. reflexivity. Qed.
(* ... the old rule produced ~(a^b), which differs from (a&b&c)|(~a&~b&~c) at a=b=1, c=0 *)
Example ex_or2xor_old_rule_wrong :
  let env := fun i : nat => match i with 0 | 1 => true | _ => false end in
  transform_or2xor_unguarded w_or3 = BNot (BXor [a; b]) /\
  beval env w_or3 = false /\ beval env (BNot (BXor [a; b])) = true.
Proof. repeat split. Qed.
Example ex_or2and_fires : transform_or2and false (BOr [a; b; c]) = BNot (BAnd [BNot a; BNot b; BNot c]).
Proof. reflexivity. Qed.
(* a binary Or is returned without visiting its arguments *)
Example ex_or2and_no_descent :
  transform_or2and false (BOr [BOr [a; b; c]; d]) = BOr [BOr [a; b; c]; d] /\
  transform_or2and false (BAnd [BOr [a; b; c]; d]) = BAnd [BNot (BAnd [BNot a; BNot b; BNot c]); d].
Proof. split; reflexivity. Qed.
Example ex_obvious : remove_obvious (BAnd [a; BNot a]) = BConst false /\
  remove_obvious (BOr [BNot a; a]) = BConst true /\ remove_obvious (BNot (BNot c)) = c /\
  remove_obvious (BXor [BAnd [a; BNot a]; b]) = BXor [BConst false; b] /\
  remove_obvious (BAnd [BAnd [a; BNot a]; b]) = BAnd [BAnd [a; BNot a]; b].
Proof. repeat split. Qed.

(* merge_expressions inlines the intermediate 5 = "t" and keeps the _ret symbols 6, 7 *)
Example ex_merge :
  merge_expressions simp_id (mem_ret [6; 7]) [(5, BAnd [a; b]); (6, BXor [BSym 5; c]); (7, BOr [BSym 5; d])]
  = [(6, BXor [BAnd [a; b]; c]); (7, BOr [BAnd [a; b]; d])].
Proof. reflexivity. Qed.
Example ex_contracts_satisfiable :
  simp_sem simp_id /\ simp_syms simp_id /\ cse_contract w_is_ret w_cse.
Proof.
  split; [intros env e; reflexivity|]. split; [intros e i H; exact H|exact w_cse_contract].
Qed.
(* the witness of the refutations violates the guards; an ordinary list satisfies them *)
Example ex_guards :
  no_ret_readb w_is_ret w_ds = false /\ no_def_readb w_ds = false /\
  wf_defsb 4 w_is_ret w_ds = true /\
  no_ret_readb (mem_ret [6; 7]) [(5, BAnd [a; b]); (6, BXor [BSym 5; c]); (7, BOr [BSym 5; d])] = true /\
  wf_defsb 4 (mem_ret [6; 7]) [(5, BAnd [a; b]); (6, BXor [BSym 5; c]); (7, BOr [BSym 5; d])] = true.
Proof. repeat split. Qed.
(* the patched apply_cse leaves the witness of the refutation as it is, and still
   extracts when no expression reads a defined symbol *)
Example ex_cse_guarded :
  apply_cse_guarded (fun _ => w_cse) w_ds = w_ds /\
  apply_cse_guarded (fun _ es => ([((9, BXor [a; b]))], [BAnd [BSym 9; c]; BOr [BSym 9; d]]))
                    [(6, BAnd [BXor [a; b]; c]); (7, BOr [BXor [a; b]; d])]
  = [(9, BXor [a; b]); (6, BAnd [BSym 9; c]); (7, BOr [BSym 9; d])].
Proof. split; reflexivity. Qed.
(* the checker separates the old rule from the expression it replaced *)
Example ex_checker_detects :
  sym_diff 3 [4] [(4, w_or3)] [(4, BNot (BXor [a; b]))] = [4] /\
  sym_diff 3 [4] [(4, w_or3)] [(4, transform_or2xor w_or3)] = [].
Proof. split; vm_compute; reflexivity. Qed.
