(* P_BindAst.v — proofs about M_BindAst (UnboundQlassf.bind on concrete syntax).

   bind_ast_runs            the bound body run on rho = the unbound body run on rho with the
                            injected assignments executed (no side condition)
   exec_ext / run_ext       the reference evaluator only reads the environment pointwise
   bind_ast_specialises     calling the bound function with the remaining actuals = calling the
                            unbound function with every parameter set to its bound value
   bind_ast_order           the keyword order is irrelevant
   bind_ast_rejects         a keyword set that is not exactly the parameter set raises *)
From Coq Require Import List Bool NArith ZArith Arith String Lia Permutation.
From QV Require Import M_A2A P_A2A M_BindAst.
Import ListNotations.
Local Open Scope string_scope.
Local Open Scope list_scope.

(* ------------------------------------------------------------------ *)
(* induction on bound values (nested lists)                            *)
(* ------------------------------------------------------------------ *)
Section PvInd.
  Variable P : pv -> Prop.
  Hypothesis HCst : forall c, P (PCst c).
  Hypothesis HSeq : forall l, Forall P l -> P (PSeq l).
  Fixpoint pv_ind2 (w : pv) : P w :=
    match w with
    | PCst c => HCst c
    | PSeq l => HSeq l ((fix go (l : list pv) : Forall P l :=
                           match l with [] => Forall_nil P | x :: r => Forall_cons x (pv_ind2 x) (go r) end) l)
    end.
End PvInd.

Lemma eval_to_val ext rho w : forall v, val_of_pv w = Some v -> eval ext rho (to_val w) = Some v.
Proof.
  induction w as [c|l IH] using pv_ind2; intros v H; cbn [val_of_pv to_val M_A2A.eval] in *; auto.
  assert (E : forall vs, all_some (map val_of_pv l) = Some vs ->
                         all_some (map (eval ext rho) (map to_val l)) = Some vs).
  { clear H. induction IH as [|w r Hw _ IHr]; intros vs H; simpl in *; auto.
    destruct (val_of_pv w) as [vw|] eqn:Ew; try discriminate.
    rewrite (Hw _ eq_refl).
    destruct (all_some (map val_of_pv r)) as [vr|] eqn:Er; try discriminate.
    rewrite (IHr _ eq_refl). exact H. }
  destruct (all_some (map val_of_pv l)) as [vs|] eqn:El; try discriminate.
  rewrite (E _ eq_refl). exact H.
Qed.

(* ------------------------------------------------------------------ *)
(* the injected assignments are executed first                         *)
(* ------------------------------------------------------------------ *)
Lemma exec_injected ext kw : forall body rho rho',
  run_injected kw rho = Some rho' ->
  exec_list ext (map inject kw ++ body) rho = exec_list ext body rho'.
Proof.
  induction kw as [|[k w] r IH]; intros body rho rho' H; simpl in H.
  - inversion H; subst. reflexivity.
  - destruct (val_of_pv w) as [v|] eqn:Ev; try discriminate.
    unfold exec_list in *. cbn [map app exec_list_with inject fst snd M_A2A.exec].
    rewrite (eval_to_val ext rho w v Ev). apply IH. exact H.
Qed.

Lemma bind_ast_body f kw f' : bind_ast f kw = Ok f' ->
  f_body f' = map inject kw ++ f_body f /\ f_args f' = remaining_args f /\ f_ret f' = f_ret f.
Proof.
  unfold bind_ast. destruct (negb _); try discriminate. destruct (negb _); try discriminate.
  intro H. inversion H; subst. simpl. auto.
Qed.

Theorem bind_ast_runs ext f kw f' rho rho' :
  bind_ast f kw = Ok f' -> run_injected kw rho = Some rho' ->
  run ext (f_body f') rho = run ext (f_body f) rho'.
Proof.
  intros B R. destruct (bind_ast_body _ _ _ B) as (Eb & _). unfold run. rewrite Eb.
  fold (exec_list ext (map inject kw ++ f_body f) rho).
  now rewrite (exec_injected ext kw (f_body f) rho rho' R).
Qed.

(* ------------------------------------------------------------------ *)
(* the evaluator reads the environment pointwise                       *)
(* ------------------------------------------------------------------ *)
Definition eqenv (r r' : env) : Prop := forall x, r x = r' x.

Lemma eqenv_upd r r' x v : eqenv r r' -> eqenv (upd r x v) (upd r' x v).
Proof. intros H y. unfold upd. destruct (String.eqb x y); auto. Qed.

Lemma eqenv_refl r : eqenv r r. Proof. intro; reflexivity. Qed.
Lemma eqenv_trans a b c : eqenv a b -> eqenv b c -> eqenv a c.
Proof. intros H1 H2 x. now rewrite H1. Qed.
Lemma eqenv_sym a b : eqenv a b -> eqenv b a.
Proof. intros H x. now rewrite H. Qed.

Lemma Forall_Forall2_same {A} (R : A -> A -> Prop) l : Forall (fun a => R a a) l -> Forall2 R l l.
Proof. induction 1; constructor; auto. Qed.

Lemma eval_ext ext r r' e : eqenv r r' -> eval ext r e = eval ext r' e.
Proof.
  intro Q. induction e as [x|c|e IHe|op l IH|op a b IHa IHb|op a IHa|op a b IHa IHb|c t f IHc IHt IHf|l IH|l IH|v s IHv IHs|f args IH]
    using exp_ind2; cbn [M_A2A.eval]; auto.
  - apply boolop_with_ext. now apply Forall_Forall2_same.
  - now rewrite IHa, IHb.
  - now rewrite IHa.
  - now rewrite IHa, IHb.
  - now rewrite IHc, IHt, IHf.
  - f_equal. apply all_some_map_ext. now apply Forall_Forall2_same.
  - f_equal. apply all_some_map_ext. now apply Forall_Forall2_same.
  - now rewrite IHv, IHs.
  - rewrite (all_some_map_ext (eval ext r) (eval ext r') args args); auto. now apply Forall_Forall2_same.
Qed.

Definition oeq (o o' : outcome) : Prop :=
  match o, o' with
  | Some (r, v), Some (r', v') => eqenv r r' /\ v = v'
  | None, None => True
  | _, _ => False
  end.

Lemma oeq_refl_env r r' v : eqenv r r' -> oeq (Some (r, v)) (Some (r', v)).
Proof. simpl; auto. Qed.

Definition ext_fun (f : env -> outcome) : Prop := forall r r', eqenv r r' -> oeq (f r) (f r').

Lemma exec_list_with_ext (ex : stmt -> env -> outcome) l :
  Forall (fun s => ext_fun (ex s)) l -> ext_fun (exec_list_with ex l).
Proof.
  induction 1 as [|s l Hs _ IH]; intros r r' Q; simpl.
  - auto using eqenv_refl.
  - specialize (Hs r r' Q). unfold oeq in Hs.
    destruct (ex s r) as [[r1 [v|]]|], (ex s r') as [[r1' [v'|]]|]; simpl; try tauto;
      destruct Hs as (Q1 & Ev); try discriminate; auto.
    all: try (apply IH; exact Q1).
Qed.

Lemma loop_with_ext body x vs : ext_fun body -> ext_fun (loop_with body x vs).
Proof.
  intro B. induction vs as [|v vs IH]; intros r r' Q; simpl.
  - auto.
  - specialize (B (upd r x v) (upd r' x v) (eqenv_upd _ _ x v Q)). unfold oeq in B.
    destruct (body (upd r x v)) as [[r1 [w|]]|], (body (upd r' x v)) as [[r1' [w'|]]|]; simpl; try tauto;
      destruct B as (Q1 & Ev); try discriminate; auto.
    all: try (apply IH; exact Q1).
Qed.

Lemma assign_names_ext l : forall vs r r', eqenv r r' ->
  match assign_names l vs r, assign_names l vs r' with
  | Some a, Some b => eqenv a b
  | None, None => True
  | _, _ => False
  end.
Proof.
  induction l as [|e l IH]; intros vs r r' Q; destruct vs as [|v vs]; simpl; auto.
  - destruct e; auto.
  - destruct e; auto. apply IH. now apply eqenv_upd.
Qed.

Lemma iter_vals_ext ext r r' it : eqenv r r' -> iter_vals ext r it = iter_vals ext r' it.
Proof.
  intro Q. unfold iter_vals. destruct (is_call "range" it) as [args|].
  - rewrite (all_some_map_ext (eval ext r) (eval ext r') args args); auto.
    apply Forall_Forall2_same. apply Forall_forall. intros e _. now apply eval_ext.
  - now rewrite (eval_ext ext r r' it Q).
Qed.

Lemma exec_ext ext s : ext_fun (exec ext s).
Proof.
  induction s as [t e|x op e|c b o Hb Ho|x it b fo Hb Hfo|e|e] using stmt_ind2; intros r r' Q; cbn [M_A2A.exec].
  - destruct t as [x|l]; rewrite (eval_ext ext r r' e Q).
    + destruct (eval ext r' e); simpl; auto using eqenv_upd.
    + destruct (eval ext r' e) as [[| |vs]|]; simpl; auto.
      pose proof (assign_names_ext l vs r r' Q) as A.
      destruct (assign_names l vs r), (assign_names l vs r'); simpl; tauto.
  - rewrite (eval_ext ext r r' e Q), (Q x).
    destruct (r' x); simpl; auto. destruct (eval ext r' e); simpl; auto.
    destruct (binop_val op v v0); simpl; auto using eqenv_upd.
  - rewrite (eval_ext ext r r' c Q). destruct (eval ext r' c) as [v|]; simpl; auto.
    destruct (truthy v); apply exec_list_with_ext; auto.
  - rewrite (iter_vals_ext ext r r' it Q). destruct (iter_vals ext r' it) as [vs|]; simpl; auto.
    pose proof (loop_with_ext (exec_list_with (exec ext) b) x vs (exec_list_with_ext _ _ Hb) r r' Q) as L.
    unfold oeq in L.
    destruct (loop_with (exec_list_with (exec ext) b) x vs r) as [[r1 [w|]]|],
             (loop_with (exec_list_with (exec ext) b) x vs r') as [[r1' [w'|]]|]; simpl; try tauto;
      destruct L as (Q1 & Ev); try discriminate; auto.
    all: try (apply exec_list_with_ext; auto).
  - rewrite (eval_ext ext r r' e Q). destruct (eval ext r' e); simpl; auto.
  - destruct e as [e|]; simpl; auto.
    destruct (is_call "print" e) as [args|].
    + rewrite (all_some_map_ext (eval ext r) (eval ext r') args args).
      * destruct (all_some (map (eval ext r') args)); simpl; auto.
      * apply Forall_Forall2_same. apply Forall_forall. intros a _. now apply eval_ext.
    + rewrite (eval_ext ext r r' e Q). destruct (eval ext r' e); simpl; auto.
Qed.

Theorem run_ext ext body r r' : eqenv r r' -> run ext body r = run ext body r'.
Proof.
  intro Q. unfold run, exec_list.
  pose proof (exec_list_with_ext (exec ext) body
                (proj2 (Forall_forall _ _) (fun s _ => exec_ext ext s)) r r' Q) as H.
  unfold oeq in H.
  destruct (exec_list_with (exec ext) body r) as [[r1 [v|]]|],
           (exec_list_with (exec ext) body r') as [[r1' [v'|]]|]; simpl; try tauto.
  all: try (destruct H as (_ & E); congruence).
Qed.

(* ------------------------------------------------------------------ *)
(* calling the bound function = calling the unbound one with the parameters set *)
(* ------------------------------------------------------------------ *)
Fixpoint kw_vals (kw : list (string * pv)) : option (list (string * val)) :=
  match kw with
  | [] => Some []
  | (k, w) :: r =>
      match val_of_pv w, kw_vals r with
      | Some v, Some l => Some ((k, v) :: l)
      | _, _ => None
      end
  end.

Definition is_param_arg (args : list (string * option exp)) (x : string) : bool :=
  existsb (fun a => String.eqb (fst a) x && is_param_ann (snd a)) args.

Lemma assoc_notin {A} (l : list (string * A)) x : ~ List.In x (map fst l) -> assoc l x = None.
Proof.
  induction l as [|[k a] r IH]; simpl; auto. intro N.
  destruct (String.eqb k x) eqn:E. { apply String.eqb_eq in E. tauto. } apply IH. tauto.
Qed.

Lemma assoc_some_in {A} (l : list (string * A)) x v : assoc l x = Some v -> List.In x (map fst l).
Proof.
  induction l as [|[k a] r IH]; simpl; try discriminate.
  destruct (String.eqb k x) eqn:E. { apply String.eqb_eq in E. auto. } auto.
Qed.

Lemma combine_fst_in {A} (fs : list string) (vs : list A) x : List.In x (map fst (combine fs vs)) -> List.In x fs.
Proof.
  revert vs. induction fs as [|f fs IH]; intros vs; destruct vs as [|v vs]; simpl; try tauto. intros [H|H]; eauto.
Qed.

Lemma call_env_get fs : forall vs rho x, NoDup fs ->
  call_env fs vs rho x = match assoc (combine fs vs) x with Some v => Some v | None => rho x end.
Proof.
  induction fs as [|f fs IH]; intros [|v vs] rho x N; simpl; auto.
  inversion N as [|? ? Nf N']; subst. rewrite (IH vs (upd rho f v) x N'). unfold upd.
  destruct (String.eqb f x) eqn:E.
  - apply String.eqb_eq in E. subst x.
    rewrite assoc_notin; auto. intro H. apply Nf. eapply combine_fst_in; eauto.
  - reflexivity.
Qed.

Lemma kw_vals_keys kw : forall kwv, kw_vals kw = Some kwv -> map fst kwv = map fst kw.
Proof.
  induction kw as [|[k w] r IH]; intros kwv H; simpl in H.
  - inversion H; reflexivity.
  - destruct (val_of_pv w); try discriminate. destruct (kw_vals r) as [l|]; try discriminate.
    inversion H; subst. simpl. now rewrite (IH l eq_refl).
Qed.

Lemma run_injected_get kw : forall kwv rho, kw_vals kw = Some kwv -> NoDup (map fst kw) ->
  exists rho', run_injected kw rho = Some rho' /\
               forall x, rho' x = match assoc kwv x with Some v => Some v | None => rho x end.
Proof.
  induction kw as [|[k w] r IH]; intros kwv rho H N; simpl in *.
  - inversion H; subst. exists rho. split; auto.
  - destruct (val_of_pv w) as [v|]; try discriminate. destruct (kw_vals r) as [l|] eqn:El; try discriminate.
    inversion H; subst. inversion N as [|? ? Nk N']; subst.
    destruct (IH l (upd rho k v) eq_refl N') as (rho' & R & G). exists rho'. split; auto.
    intro x. rewrite G. simpl. unfold upd. destruct (String.eqb k x) eqn:E; auto.
    apply String.eqb_eq in E. subst x. rewrite assoc_notin; auto.
    now rewrite (kw_vals_keys r l El).
Qed.

Lemma is_param_arg_notin args x : ~ List.In x (map fst args) -> is_param_arg args x = false.
Proof.
  induction args as [|[y a] r IH]; simpl; auto. intro N.
  destruct (String.eqb y x) eqn:E. { apply String.eqb_eq in E. tauto. } simpl. apply IH. tauto.
Qed.

Lemma merge_get args : forall kwv actuals all x,
  merge_actuals args kwv actuals = Some all -> NoDup (map fst args) ->
  assoc (combine (map fst args) all) x =
  if is_param_arg args x then assoc kwv x
  else assoc (combine (map fst (filter (fun a => negb (is_param_ann (snd a))) args)) actuals) x.
Proof.
  induction args as [|[y a] r IH]; intros kwv actuals all x H N; simpl in *.
  - destruct actuals; inversion H; subst. reflexivity.
  - inversion N as [|? ? Ny N']; subst.
    destruct (is_param_ann a) eqn:Pa; simpl.
    + destruct (assoc kwv y) as [v|] eqn:Ay; try discriminate.
      destruct (merge_actuals r kwv actuals) as [all'|] eqn:M; try discriminate.
      inversion H; subst. simpl. destruct (String.eqb y x) eqn:E; simpl.
      * apply String.eqb_eq in E. subst x. now rewrite Ay.
      * apply (IH kwv actuals all' x M N').
    + destruct actuals as [|v vs]; try discriminate.
      destruct (merge_actuals r kwv vs) as [all'|] eqn:M; try discriminate.
      inversion H; subst. simpl. destruct (String.eqb y x) eqn:E; simpl.
      * apply String.eqb_eq in E. subst x. now rewrite (is_param_arg_notin r y Ny).
      * apply (IH kwv vs all' x M N').
Qed.

Lemma is_param_sub_ann a : is_param_sub a = true -> is_param_ann a = true.
Proof. destruct a as [e|]; simpl; auto. destruct e; simpl; auto; try discriminate. Qed.

Lemma mem_parameters f k : mem_str k (parameters f) = true -> is_param_arg (f_args f) k = true.
Proof.
  unfold mem_str, parameters, is_param_arg. intro H. apply existsb_exists in H. destruct H as (y & Iy & Ey).
  apply String.eqb_eq in Ey. subst y. apply in_map_iff in Iy. destruct Iy as ([z a] & Ez & Iz). simpl in Ez. subst z.
  apply filter_In in Iz. destruct Iz as (Iz & Pz). simpl in Pz.
  apply existsb_exists. exists (k, a). split; auto. simpl. rewrite String.eqb_refl. simpl. now apply is_param_sub_ann.
Qed.

Lemma NoDup_map_filter {A B} (f : A -> B) (p : A -> bool) l : NoDup (map f l) -> NoDup (map f (filter p l)).
Proof.
  induction l as [|a l IH]; simpl; auto. intro N. inversion N as [|? ? Na N']; subst.
  destruct (p a); simpl; auto. constructor; auto. intro H. apply Na.
  apply in_map_iff in H. destruct H as (b & Eb & Ib). apply filter_In in Ib. apply in_map_iff. exists b. tauto.
Qed.

Theorem bind_ast_specialises ext f kw f' kwv actuals all :
  bind_ast f kw = Ok f' ->
  NoDup (map fst (f_args f)) -> NoDup (map fst kw) ->
  kw_vals kw = Some kwv ->
  merge_actuals (f_args f) kwv actuals = Some all ->
  run ext (f_body f') (call_env (map fst (f_args f')) actuals empty_env)
  = run ext (f_body f) (call_env (map fst (f_args f)) all empty_env).
Proof.
  intros B Na Nk V M.
  destruct (bind_ast_body _ _ _ B) as (_ & Ea & _).
  set (rho1 := call_env (map fst (f_args f')) actuals empty_env).
  destruct (run_injected_get kw kwv rho1 V Nk) as (rho1' & R & G).
  rewrite (bind_ast_runs ext f kw f' rho1 rho1' B R).
  apply run_ext. intro x. rewrite G. rewrite (call_env_get _ all empty_env x Na).
  rewrite (merge_get _ _ _ _ x M Na).
  destruct (is_param_arg (f_args f) x) eqn:Px.
  - destruct (assoc kwv x) as [v|] eqn:Ax; auto.
    (* merge_actuals found a value for every parameter argument *)
    exfalso. clear -M Px Ax. revert actuals all M.
    induction (f_args f) as [|[y a] r IH]; intros actuals all M; simpl in *; try discriminate.
    destruct (String.eqb y x) eqn:E; simpl in Px.
    + apply String.eqb_eq in E. subst y. destruct (is_param_ann a) eqn:Pa; simpl in Px.
      * rewrite Ax in M. discriminate.
      * destruct actuals as [|v vs]; try discriminate.
        destruct (merge_actuals r kwv vs) eqn:M'; try discriminate. eapply IH; eauto.
    + destruct (is_param_ann a).
      * destruct (assoc kwv y); try discriminate.
        destruct (merge_actuals r kwv actuals) eqn:M'; try discriminate. eapply IH; eauto.
      * destruct actuals as [|v vs]; try discriminate.
        destruct (merge_actuals r kwv vs) eqn:M'; try discriminate. eapply IH; eauto.
  - assert (Ax : assoc kwv x = None).
    { destruct (assoc kwv x) as [v|] eqn:Ax; auto. exfalso.
      apply assoc_some_in in Ax. rewrite (kw_vals_keys kw kwv V) in Ax.
      unfold bind_ast in B. destruct (negb (Nat.eqb _ _)); try discriminate.
      destruct (forallb (fun kv => mem_str (fst kv) (parameters f)) kw) eqn:Fk; simpl in B; try discriminate.
      rewrite forallb_forall in Fk. apply in_map_iff in Ax. destruct Ax as (kv & Ek & Ik). subst x.
      rewrite (mem_parameters f _ (Fk kv Ik)) in Px. discriminate. }
    rewrite Ax. unfold rho1. rewrite Ea. unfold remaining_args.
    rewrite call_env_get; [reflexivity|]. now apply NoDup_map_filter.
Qed.

(* ------------------------------------------------------------------ *)
(* keyword order                                                       *)
(* ------------------------------------------------------------------ *)
Definition oenv_eq (a b : option env) : Prop :=
  match a, b with Some x, Some y => eqenv x y | None, None => True | _, _ => False end.

Lemma run_injected_ext kw : forall r r', eqenv r r' -> oenv_eq (run_injected kw r) (run_injected kw r').
Proof.
  induction kw as [|[k w] l IH]; intros r r' Q; simpl; auto.
  destruct (val_of_pv w); simpl; auto. apply IH. now apply eqenv_upd.
Qed.

Lemma oenv_eq_trans a b c : oenv_eq a b -> oenv_eq b c -> oenv_eq a c.
Proof. destruct a, b, c; simpl; try tauto. apply eqenv_trans. Qed.

Lemma run_injected_perm kw kw' : Permutation kw kw' -> NoDup (map fst kw) ->
  forall rho, oenv_eq (run_injected kw rho) (run_injected kw' rho).
Proof.
  induction 1 as [|[k w] l l' P IH|[k1 w1] [k2 w2] l|l1 l2 l3 P1 IH1 P2 IH2]; intros N rho; simpl in *.
  - apply eqenv_refl.
  - inversion N; subst. destruct (val_of_pv w); simpl; auto.
  - inversion N as [|? ? N1 N2]; subst. simpl in N1.
    destruct (val_of_pv w1) as [v1|], (val_of_pv w2) as [v2|]; simpl; auto.
    apply run_injected_ext. intro x. unfold upd.
    destruct (String.eqb k1 x) eqn:E1, (String.eqb k2 x) eqn:E2; auto.
    apply String.eqb_eq in E1, E2. subst. tauto.
  - eapply oenv_eq_trans; [apply IH1; auto|apply IH2].
    eapply Permutation_NoDup; [|exact N]. now apply Permutation_map.
  Unshelve. all: auto.
Qed.

Lemma forallb_perm {A} (p : A -> bool) l l' : Permutation l l' -> forallb p l = forallb p l'.
Proof.
  induction 1; simpl; auto; try congruence.
  destruct (p x), (p y); reflexivity.
Qed.

Theorem bind_ast_order ext f kw kw' f1 rho :
  Permutation kw kw' -> NoDup (map fst kw) -> bind_ast f kw = Ok f1 ->
  exists f2, bind_ast f kw' = Ok f2 /\ f_args f2 = f_args f1 /\ f_ret f2 = f_ret f1 /\
             (forall r1, run_injected kw rho = Some r1 -> run ext (f_body f1) rho = run ext (f_body f2) rho).
Proof.
  intros P N B.
  assert (B' : exists f2, bind_ast f kw' = Ok f2).
  { unfold bind_ast in *. rewrite <- (Permutation_length P), <- (forallb_perm _ _ _ P).
    destruct (negb (Nat.eqb _ _)); try discriminate. destruct (negb (forallb _ _)); try discriminate. eauto. }
  destruct B' as (f2 & B2). exists f2. split; auto.
  destruct (bind_ast_body _ _ _ B) as (_ & A1 & R1). destruct (bind_ast_body _ _ _ B2) as (_ & A2 & R2).
  split; [congruence|]. split; [congruence|]. intros r1 Hr.
  pose proof (run_injected_perm kw kw' P N rho) as Q. rewrite Hr in Q.
  destruct (run_injected kw' rho) as [r2|] eqn:Hr2; simpl in Q; try tauto.
  rewrite (bind_ast_runs ext f kw f1 rho r1 B Hr), (bind_ast_runs ext f kw' f2 rho r2 B2 Hr2).
  now apply run_ext.
Qed.

(* ------------------------------------------------------------------ *)
(* rejection                                                            *)
(* ------------------------------------------------------------------ *)
Theorem bind_ast_rejects f kw :
  List.length kw <> List.length (parameters f) \/ (exists k, List.In k (map fst kw) /\ ~ List.In k (parameters f)) ->
  bind_ast f kw = Raise.
Proof.
  unfold bind_ast. intros [L|(k & Ik & Nk)].
  - destruct (Nat.eqb_spec (List.length kw) (List.length (parameters f))); simpl; tauto.
  - destruct (negb (Nat.eqb _ _)); auto.
    destruct (forallb (fun kv => mem_str (fst kv) (parameters f)) kw) eqn:Fk; auto. exfalso.
    rewrite forallb_forall in Fk. apply in_map_iff in Ik. destruct Ik as (kv & Ek & Ikv). subst k.
    specialize (Fk kv Ikv). unfold mem_str in Fk. apply existsb_exists in Fk. destruct Fk as (y & Iy & Ey).
    apply String.eqb_eq in Ey. subst. tauto.
Qed.

(* a bound function has no parameter left when its arguments have distinct names and the
   keywords name every parameter: from_function would compile it directly *)
Theorem bind_ast_closed f kw f' : bind_ast f kw = Ok f' -> parameters f' = [].
Proof.
  intro B. destruct (bind_ast_body _ _ _ B) as (_ & Ea & _). unfold parameters. rewrite Ea. unfold remaining_args.
  induction (f_args f) as [|[y a] r IH]; simpl; auto.
  destruct (is_param_ann a) eqn:Pa; simpl; auto.
  destruct (is_param_sub a) eqn:Ps; simpl; auto. apply is_param_sub_ann in Ps. congruence.
Qed.
