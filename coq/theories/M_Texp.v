(* M_Texp.v — executable model of the EXPRESSION / STATEMENT TRANSLATOR of
   qlasskit: ast2logic/t_expression.py (translate_expression, decompose_to_symbols),
   t_statement.py (translate_statement: Assign, Return, Expr; _regroup_bits),
   t_arguments.py (translate_argument: bit naming of nested Tuple types),
   env.py (Env.bind / rebind / lookup), t_ast.py (translate_ast, BEFORE the
   optimizer; its `simplify_logic((symbol, expr), form="cnf")` is applied to the
   PAIR, which sympy returns unchanged: modelled as the identity), and a typed
   REFERENCE EVALUATOR of the same language over values.

   The language [pexp] is the NORMALISED one: what qlasskit.ast2ast hands to
   translate_ast.  The bit-vector methods are those of M_Types.v (re-used, not
   duplicated).  A translated expression is (type, value) where the value is,
   as in Python, a sympy Boolean, a list of Booleans or a nested list: [vtree].

   Identifiers are numbers (the harness interns the Python names; `_ret` is 0);
   a bit symbol "a.0.1" is the list [a; 0; 1].  Bexp symbols are numbers: the
   model is parametrised by a numbering [num] of symbol names.

   [None] = "the Python code raises", and, in the places marked UNMODELLED, an
   input this model does not describe (the converter of harness/c01_texp.py
   never produces those).

   No proofs here: the model must still evaluate when a proof breaks. *)
From Coq Require Import List Bool NArith ZArith Arith.
From QV Require Import Bits Bexp BexpTT M_Codec Generated M_Types.
Import ListNotations.

Definition ident := nat.
Definition sname := list nat.          (* identifier :: path *)
Definition ret_id : ident := 0%nat.    (* "_ret" *)

(* ------------------------------------------------------------------ *)
(* the normalised language                                             *)
(* ------------------------------------------------------------------ *)
(* the Python value held by an ast.Constant *)
Inductive cst :=
| CBool (b : bool)
| CInt (z : Z)
| CFloat (neg : bool) (x : dy)      (* sign, magnitude as a dyadic rational (exact) *)
| CStr (cs : list N)                (* code points *)
| COther.                           (* None, bytes, Ellipsis, complex *)

Inductive bop := BoAnd | BoOr.
Inductive uop := UoNot | UoInvert | UoOther.                       (* UAdd / USub: not handled *)
Inductive cop := CoEq | CoNe | CoLt | CoLe | CoGt | CoGe | CoOther. (* Is / IsNot / In / NotIn *)
Inductive aop := AoAdd | AoSub | AoMul | AoMod | AoXor | AoAnd | AoOr | AoShl | AoShr
               | AoOther.                                          (* Div FloorDiv Pow MatMult *)

Inductive pexp :=
| EName (x : ident)
| ESub (x : ident) (path : list nat)        (* x[i0][i1]..., constant indices *)
| EBoolOp (op : bop) (l : list pexp)
| EUn (op : uop) (e : pexp)
| EIf (c t f : pexp)
| EConst (c : cst)
| EConstTup (l : list cst)                  (* ast.Constant holding an ast.Tuple of constants *)
| ETuple (l : list pexp)
| ECmp (op : cop) (a b : pexp)              (* exactly one operator *)
| EBin (op : aop) (a b : pexp)
| ECast (t : ty) (c : cst)                  (* T(c), T a type name the environment knows *)
| EInt (e : pexp)
| EFloat (e : pexp)
| ERaise.                                   (* a node translate_expression rejects outright:
                                               comparison chains, Lambda, Dict, Set, ... *)

Inductive pstmt :=
| SAssign (x : ident) (e : pexp)
| SReturn (e : pexp)
| SExpr (e : pexp)
| SRaise.                                   (* If, While, AnnAssign, ...: StatementNotHandledException *)

(* ------------------------------------------------------------------ *)
(* translated values                                                   *)
(* ------------------------------------------------------------------ *)
Inductive vtree := L (e : bexp) | Nd (l : list vtree).
Definition tres : Type := ty * vtree.

Fixpoint flat (v : vtree) : list bexp :=
  match v with
  | L e => [e]
  | Nd l => flat_map flat l
  end.

Definition leaf (v : vtree) : option bexp := match v with L e => Some e | Nd _ => None end.
Fixpoint all_leaves (l : list vtree) : option (list bexp) :=
  match l with
  | [] => Some []
  | x :: r => match leaf x, all_leaves r with Some a, Some b => Some (a :: b) | _, _ => None end
  end.
(* a Python list all of whose elements are Booleans *)
Definition leaves (v : vtree) : option (list bexp) :=
  match v with L _ => None | Nd l => all_leaves l end.
Definition of_list (l : list bexp) : vtree := Nd (map L l).
Definition to_texp (r : tres) : option texp := option_map (fun l => (fst r, l)) (leaves (snd r)).
Definition of_texp (r : texp) : tres := (fst r, of_list (snd r)).
Definition lift (x : option texp) : option tres := option_map of_texp x.

Fixpoint ty_eq (a b : ty) : bool :=
  match a, b with
  | TBool, TBool => true
  | TQint x, TQint y => Nat.eqb x y
  | TQfixed i f, TQfixed j g => Nat.eqb i j && Nat.eqb f g
  | TQchar, TQchar => true
  | TTuple l, TTuple m =>
      (fix go (l m : list ty) : bool :=
         match l, m with
         | [], [] => true
         | x :: l', y :: m' => ty_eq x y && go l' m'
         | _, _ => false
         end) l m
  | _, _ => false
  end.

(* ------------------------------------------------------------------ *)
(* env.py                                                              *)
(* ------------------------------------------------------------------ *)
Definition binding : Type := ty * list sname.
Definition env := list (ident * binding).

Fixpoint lookup {A} (G : list (ident * A)) (x : ident) : option A :=
  match G with
  | [] => None
  | (y, b) :: r => if Nat.eqb y x then Some b else lookup r x
  end.
Definition unbind {A} (G : list (ident * A)) (x : ident) : list (ident * A) :=
  filter (fun p => negb (Nat.eqb (fst p) x)) G.
(* Env.bind(bb, rebind = bb.name in env): the old binding is removed, the new one appended *)
Definition bind {A} (G : list (ident * A)) (x : ident) (b : A) : list (ident * A) := unbind G x ++ [(x, b)].

(* ------------------------------------------------------------------ *)
(* t_arguments.py: the bit names of an argument of type t called base  *)
(* ------------------------------------------------------------------ *)
Definition bit_names (base : sname) (n : nat) : list sname := map (fun i => base ++ [i]) (seq 0 n).

Fixpoint arg_names (base : sname) (t : ty) : list sname :=
  match t with
  | TBool => [base]
  | TTuple l =>
      (fix go (l : list ty) (k : nat) : list sname :=
         match l with
         | [] => []
         | x :: r => arg_names (base ++ [k]) x ++ go r (S k)
         end) l 0%nat
  | _ => bit_names base (ty_size t)
  end.

(* ------------------------------------------------------------------ *)
(* constants: types/__init__.py const_to_qtype, T.const                *)
(* ------------------------------------------------------------------ *)
Definition const_int (n : N) : option texp :=
  match const_to_qtype_int n with
  | Some (w, bits) => Some (TQint w, map BConst bits)
  | None => None                                  (* "Constant value is too big" *)
  end.
Definition const_char (cs : list N) : option texp :=
  match cs with
  | [c] => if (c <? 256)%N then Some (TQchar, map BConst (qchar_const c))
           else None                              (* UNMODELLED: a character outside Latin-1 *)
  | _ => None                                     (* assert len(value) == 1 *)
  end.
Definition const_float (x : dy) : option texp :=
  match const_float_search shipped_qfixed x with
  | Some (i, f, bits) => Some (TQfixed i f, map BConst bits)
  | None => None                                  (* "Unable to infer type of constant" *)
  end.
(* const_to_qtype(value); isinstance(True, int) holds: a bool is typed as an int *)
Definition const_to_qtype (c : cst) : option texp :=
  match c with
  | CBool b => const_int (N.b2n b)
  | CInt z => if (z <? 0)%Z then None              (* callers reject negative ints first *)
              else const_int (Z.to_N z)
  | CFloat neg x => if neg then None               (* no Qfixed encoding is within 0.05 of a negative *)
                    else const_float x
  | CStr cs => const_char cs
  | COther => None
  end.

Definition known_type (t : ty) : bool :=
  match t with
  | TQint w => existsb (Nat.eqb w) shipped_qint
  | TQfixed i f => is_shipped_qfixed i f
  | TQchar => true
  | _ => false
  end.

(* env.gettype(name).const(value) *)
Definition cast_const (t : ty) (c : cst) : option texp :=
  if negb (known_type t) then None else
  match t, c with
  | TQint w, CInt z => Some (qint_const_e w (Z.to_N (z mod 2 ^ Z.of_nat w)%Z))
  | TQint w, CBool b => Some (qint_const_e w (N.b2n b))
  | TQfixed i f, CInt z =>
      if (z <? 0)%Z then None                     (* UNMODELLED: negative argument of a Qfixed cast *)
      else Some (t, map BConst (qfixed_const i f (mkdy (Z.to_N z) 0)))
  | TQfixed i f, CBool b => Some (t, map BConst (qfixed_const i f (mkdy (N.b2n b) 0)))
  | TQfixed i f, CFloat neg x =>
      if neg then None                            (* UNMODELLED *)
      else Some (t, map BConst (qfixed_const i f x))
  | TQchar, CStr cs => const_char cs
  | _, _ => None                                  (* bin(float), str % int, len(int), ...: TypeError *)
  end.

(* the amount a constant right operand shifts by: [False] * v, v[1][v:] *)
Definition shift_amount (c : cst) : option nat :=
  match c with
  | CInt z => if (z <? 0)%Z then None else Some (Z.to_nat z)
  | CBool b => Some (if b then 1 else 0)%nat
  | _ => None                                     (* list * float / str: TypeError *)
  end.

(* ------------------------------------------------------------------ *)
(* helpers of translate_expression                                     *)
(* ------------------------------------------------------------------ *)
(* the type a subscript path selects *)
Fixpoint sub_type (t : ty) (p : list nat) : option ty :=
  match p with
  | [] => Some t
  | i :: r =>
      match t with
      | TBool => None                                        (* OutOfBoundException(0, i) *)
      | TTuple l => match nth_error l i with Some t' => sub_type t' r | None => None end
      | _ => if (i <? ty_size t)%nat then sub_type TBool r else None
      end
  end.

(* unfold(v_exps, op): right-nested binary connectives *)
Definition mk_bop (op : bop) (a b : bexp) : bexp :=
  match op with BoAnd => BAnd [a; b] | BoOr => BOr [a; b] end.
Fixpoint unfold_bop (op : bop) (l : list bexp) : option bexp :=
  match l with
  | [] => None                                               (* v_exps[0]: IndexError *)
  | [x] => Some x
  | x :: r => option_map (mk_bop op x) (unfold_bop op r)
  end.

Definition all_bool (l : list tres) : bool :=
  forallb (fun r => match fst r with TBool => true | _ => false end) l.

Definition trans_boolop (op : bop) (l : list tres) : option tres :=
  if all_bool l then
    obind (all_leaves (map snd l)) (fun es =>
    option_map (fun e => (TBool, L e)) (unfold_bop op es))
  else None.

Definition trans_un (op : uop) (r : tres) : option tres :=
  match op with
  | UoNot => match fst r with
             | TBool => option_map (fun e => (TBool, L (BNot e))) (leaf (snd r))
             | _ => None
             end
  | UoInvert => if is_qtype (fst r) then lift (option_map bitwise_not (to_texp r)) else None
  | UoOther => None
  end.

(* [ITE(test, t, f) for t, f in zip(true, false)]: every element must be a Boolean *)
Fixpoint zip_ite (c : bexp) (lt lf : list vtree) : option (list vtree) :=
  match lt, lf with
  | t :: lt', f :: lf' =>
      match leaf t, leaf f, zip_ite c lt' lf' with
      | Some a, Some b, Some r => Some (L (BIte c a b) :: r)
      | _, _, _ => None
      end
  | _, _ => Some []
  end.

Definition trans_if (c t f : tres) : option tres :=
  match fst c with
  | TBool =>
      obind (leaf (snd c)) (fun cb =>
      let filled :=
        if ty_eq (fst t) (fst f) then Some (t, f)
        else if is_qtype (fst t) && is_qtype (fst f) then
          obind (to_texp t) (fun tt => obind (to_texp f) (fun ft =>
            if (bit_size (fst f) <? bit_size (fst t))%nat then Some (t, of_texp (fill (fst t) ft))
            else if (bit_size (fst t) <? bit_size (fst f))%nat then Some (of_texp (fill (fst f) tt), f)
            else Some (t, f)))
        else None in
      obind filled (fun tf =>
        let '(t, f) := tf in
        match fst t with
        | TBool => obind (leaf (snd t)) (fun a => obind (leaf (snd f)) (fun b =>
                     Some (TBool, L (BIte cb a b))))
        | _ => match snd t, snd f with
               | Nd lt, Nd lf => option_map (fun r => (fst t, Nd r)) (zip_ite cb lt lf)
               | _, _ => None                                 (* zip over a bare Symbol *)
               end
        end))
  | _ => None
  end.

(* the tuple comparison loop: one equality per bit, and-ed onto c from the left *)
Fixpoint tuple_eq_bits (args : list ty) (lb rb : list bexp) (c : bexp) : option bexp :=
  match args with
  | [] => Some c
  | a :: r =>
      match a with
      | TTuple _ => None                                      (* left.BIT_SIZE: AttributeError *)
      | _ =>
          let n := ty_size a in
          if (n <=? length lb)%nat && (n <=? length rb)%nat then
            tuple_eq_bits r (skipn n lb) (skipn n rb) (eq_zip (firstn n lb) (firstn n rb) c)
          else None                                           (* IndexError *)
      end
  end.

Definition cop_binop (op : cop) : option binop :=
  match op with
  | CoEq => Some OEq | CoNe => Some ONeq | CoLt => Some OLt | CoLe => Some OLte
  | CoGt => Some OGt | CoGe => Some OGte | CoOther => None
  end.

(* tleft[0].comparable(tcomp[0]) *)
Definition comparable (tl tr : ty) : bool :=
  match tl with
  | TQint _ => is_qint tr
  | TQfixed _ _ => is_qfixed tr
  | TQchar => match tr with TQchar | TQint _ => true | _ => false end
  | _ => false
  end.

Definition trans_cmp (op : cop) (l r : tres) : option tres :=
  match fst l, fst r with
  | TBool, TBool =>
      obind (leaf (snd l)) (fun a => obind (leaf (snd r)) (fun b =>
        match op with
        | CoEq => Some (TBool, L (snd (qbool_eq (TBool, a) (TBool, b))))
        | CoNe => Some (TBool, L (snd (qbool_neq (TBool, a) (TBool, b))))
        | _ => None                                           (* Qbool has only eq / neq *)
        end))
  | TTuple (a0 :: al), TTuple (b0 :: bl) =>
      if negb (ty_eq (fst l) (fst r)) then None else
      match op with
      | CoEq | CoNe =>
          obind (leaves (snd l)) (fun lb => obind (leaves (snd r)) (fun rb =>
          obind (tuple_eq_bits (a0 :: al) lb rb btrue) (fun c =>
            Some (TBool, L (match op with CoNe => BNot c | _ => c end)))))
      | _ => None
      end
  | tl, tr =>
      if is_qtype tl && is_qtype tr && comparable tl tr then
        obind (cop_binop op) (fun o =>
        obind (to_texp l) (fun lt => obind (to_texp r) (fun rt =>
        obind (type_binop tl o lt rt) (fun res =>
          match snd res with [e] => Some (fst res, L e) | _ => None end))))
      else None
  end.

Definition is_bool (t : ty) : bool := match t with TBool => true | _ => false end.

(* the BinOp branch; [sh] = the shift amount when the RIGHT operand is an ast.Constant *)
Definition trans_bin (op : aop) (sh : option (option nat)) (l r : tres) : option tres :=
  let tl := fst l in let tr := fst r in
  let bool_case :=
    if is_bool tl && is_bool tr then
      match op with
      | AoXor | AoAnd | AoOr =>
          Some (obind (leaf (snd l)) (fun a => obind (leaf (snd r)) (fun b =>
            Some (TBool, L (match op with
                            | AoXor => BXor [a; b] | AoAnd => BAnd [a; b] | _ => BOr [a; b]
                            end)))))
      | _ => None
      end
    else None in
  match bool_case with
  | Some res => res
  | None =>
      if (is_qint tl && is_qfixed tr) || (is_qfixed tl && is_qint tr) then
        (* the only operation between a Qint and a Qfixed: Qfixed times an integer constant *)
        match op with
        | AoMul =>
            let t_fixed := if is_qfixed tl then tl else tr in
            obind (to_texp l) (fun lt => obind (to_texp r) (fun rt => lift (qfixed_mul t_fixed lt rt)))
        | _ => None
        end
      else if is_qtype tl then                                (* hasattr(tleft[0], "add") ... *)
        obind (to_texp l) (fun lt =>
        match op with
        | AoAdd => obind (to_texp r) (fun rt => lift (type_binop tl OAdd lt rt))
        | AoSub => obind (to_texp r) (fun rt => lift (type_binop tl OSub lt rt))
        | AoMul => obind (to_texp r) (fun rt => lift (type_binop tl OMul lt rt))
        | AoMod => obind (to_texp r) (fun rt => lift (type_binop tl OMod lt rt))
        | AoXor => obind (to_texp r) (fun rt => lift (type_binop tl OXor lt rt))
        | AoAnd => obind (to_texp r) (fun rt => lift (type_binop tr OAnd lt rt))   (* tright[0].bitwise_and *)
        | AoOr => obind (to_texp r) (fun rt => lift (type_binop tl OOr lt rt))
        | AoShl => match sh with Some (Some k) => lift (shift_left lt k) | _ => None end
        | AoShr => match sh with Some (Some k) => lift (shift_right lt k) | _ => None end
        | AoOther => None
        end)
      else None
  end.

(* int(x) / float(x) *)
Definition trans_int (r : tres) : option tres :=
  match fst r with
  | TQint _ => Some r
  | TQfixed i f =>
      obind (leaves (snd r)) (fun l =>
        let ip := firstn i l in
        if existsb (Nat.eqb (length ip)) shipped_qint then Some (TQint (length ip), of_list ip)
        else None)                              (* UNMODELLED: Qint.type_for_size returns None *)
  | _ => None
  end.
Definition qfixed_for_size (s : nat) : option ty :=
  match find (fun t => Nat.eqb (fst t) s) shipped_qfixed with
  | Some (i, f) => Some (TQfixed i f)
  | None => None
  end.
Definition trans_float (r : tres) : option tres :=
  match fst r with
  | TQfixed _ _ => Some r
  | TQint _ =>
      obind (leaves (snd r)) (fun l =>
      obind (qfixed_for_size (length l)) (fun tf => Some (of_texp (fill tf (tf, l)))))
  | _ => None
  end.

(* Constant *)
Definition trans_const (c : cst) : option tres :=
  match c with
  | CBool b => Some (TBool, L (BConst b))
  | CInt z => if (z <? 0)%Z then None else lift (const_to_qtype c)
  | CFloat neg _ => if neg then None else lift (const_to_qtype c)
  | _ => lift (const_to_qtype c)
  end.
Fixpoint trans_const_elts (l : list cst) : option (list texp) :=
  match l with
  | [] => Some []
  | c :: r =>
      let neg := match c with CInt z => (z <? 0)%Z | _ => false end in
      if neg then None else
      match const_to_qtype c, trans_const_elts r with
      | Some a, Some b => Some (a :: b)
      | _, _ => None
      end
  end.
Definition trans_const_tup (l : list cst) : option tres :=
  option_map (fun es => (TTuple (map fst es), Nd (map (fun e => of_list (snd e)) es)))
             (trans_const_elts l).

Section Translator.
  Variable num : sname -> nat.
  Definition sym (s : sname) : bexp := BSym (num s).

  (* Arg.to_exp(): a list of Symbols, or a bare Symbol when there is one bit *)
  Definition to_exp (bv : list sname) : option vtree :=
    match bv with
    | [] => None                                              (* bitvec[0]: IndexError *)
    | [s] => Some (L (sym s))
    | _ => Some (Nd (map (fun s => L (sym s)) bv))
    end.

  Definition trans_sub (G : env) (x : ident) (p : list nat) : option tres :=
    match p with
    | [] => None
    | _ =>
        match lookup G x with
        | None => None                                        (* UnboundException *)
        | Some (t, _) =>
            obind (sub_type t p) (fun t' =>
              match t' with
              | TBool => Some (t', L (sym (x :: p)))
              | _ =>
                  (* a sized element: its bits; a tuple-typed element: the flat list of its bits,
                     named as translate_argument names them (as a tuple-typed name evaluates) *)
                  Some (t', Nd (map (fun s => L (sym s)) (arg_names (x :: p) t')))
              end)
        end
    end.

  Fixpoint trans_exp (G : env) (e : pexp) : option tres :=
    let fix go (l : list pexp) : option (list tres) :=
      match l with
      | [] => Some []
      | x :: r => match trans_exp G x, go r with Some a, Some b => Some (a :: b) | _, _ => None end
      end in
    match e with
    | EName x =>
        match lookup G x with
        | Some (t, bv) => option_map (fun v => (t, v)) (to_exp bv)
        | None => None
        end
    | ESub x p => trans_sub G x p
    | EBoolOp op l => obind (go l) (trans_boolop op)
    | EUn op a => obind (trans_exp G a) (trans_un op)
    | EIf c t f =>
        obind (trans_exp G c) (fun rc => obind (trans_exp G t) (fun rt => obind (trans_exp G f) (fun rf =>
          trans_if rc rt rf)))
    | EConst c => trans_const c
    | EConstTup l => trans_const_tup l
    | ETuple l => option_map (fun rs => (TTuple (map fst rs), Nd (map snd rs))) (go l)
    | ECmp op a b =>
        obind (trans_exp G a) (fun ra => obind (trans_exp G b) (fun rb => trans_cmp op ra rb))
    | EBin op a b =>
        let sh := match b with EConst c => Some (shift_amount c) | _ => None end in
        obind (trans_exp G a) (fun ra => obind (trans_exp G b) (fun rb => trans_bin op sh ra rb))
    | ECast t c => lift (cast_const t c)
    | EInt a => obind (trans_exp G a) trans_int
    | EFloat a => obind (trans_exp G a) trans_float
    | ERaise => None
    end.

  (* decompose_to_symbols(vlist, base) *)
  Fixpoint decompose (base : sname) (v : vtree) : list (sname * bexp) :=
    match v with
    | L e => [(base, e)]
    | Nd l =>
        (fix go (l : list vtree) (k : nat) : list (sname * bexp) :=
           match l with
           | [] => []
           | x :: r => decompose (base ++ [k]) x ++ go r (S k)
           end) l 0%nat
    end.

  (* _regroup_bits(bits, ttype) for a ttype whose size is len(bits) *)
  Fixpoint regroup (t : ty) (bits : list bexp) : vtree :=
    match t with
    | TTuple l =>
        Nd ((fix go (l : list ty) (bits : list bexp) : list vtree :=
               match l with
               | [] => []
               | a :: r => regroup a (firstn (ty_size a) bits) :: go r (skipn (ty_size a) bits)
               end) l bits)
    | TBool => match bits with b :: _ => L b | [] => Nd [] end
    | _ => of_list bits
    end.

  Definition sdefs := list (sname * bexp).

  (* `if len(get_args(t)) > 0: v = _regroup_bits(_flatten_bits(v), t)`:
     a tuple-typed value is nested as its type says (when the number of bits is the type's) *)
  Definition regroup_value (r : tres) : tres :=
    match fst r with
    | TTuple (_ :: _) =>
        let bits := flat (snd r) in
        if Nat.eqb (ty_size (fst r)) (length bits) then (fst r, regroup (fst r) bits)
        else (fst r, of_list bits)
    | _ => r
    end.

  Definition trans_assign (G : env) (x : ident) (e : pexp) : option (sdefs * env) :=
    match trans_exp G e with
    | Some r0 =>
        let r := regroup_value r0 in
        let res := decompose [x] (snd r) in Some (res, bind G x (fst r, map fst res))
    | None => None
    end.

  (* the Return coercion to the declared type *)
  Definition ret_coerce (rt : ty) (r : tres) : option tres :=
    let t := fst r in
    if is_qtype t && is_qtype rt && (bit_size t <? bit_size rt)%nat then
      option_map (fun te => of_texp (fill rt te)) (to_texp r)
    else if is_qtype t && is_qtype rt && (bit_size rt <? bit_size t)%nat then
      option_map (fun te => of_texp (crop rt te)) (to_texp r)
    else if ty_eq t rt then Some r
    else None.

  Definition trans_return (G : env) (rt : ty) (e : pexp) : option (sdefs * env) :=
    obind (trans_exp G e) (fun r0 =>
    obind (ret_coerce rt r0) (fun r1 =>
      let r := regroup_value r1 in
      match lookup G ret_id with
      | Some _ => None                                        (* "duplicate bind" *)
      | None => let res := decompose [ret_id] (snd r) in
                Some (res, bind G ret_id (fst r, map fst res))
      end)).

  Definition trans_stmt (G : env) (rt : ty) (s : pstmt) : option (sdefs * env) :=
    match s with
    | SAssign x e => trans_assign G x e
    | SReturn e => trans_return G rt e
    | SExpr e => match trans_exp G e with Some _ => Some ([], G) | None => None end
    | SRaise => None
    end.

  Fixpoint trans_body (G : env) (rt : ty) (body : list pstmt) : option (sdefs * env) :=
    match body with
    | [] => Some ([], G)
    | s :: r =>
        obind (trans_stmt G rt s) (fun dg =>
        obind (trans_body (snd dg) rt r) (fun dg' => Some (fst dg ++ fst dg', snd dg')))
    end.

  Definition arg_env (args : list (ident * ty)) : env :=
    map (fun a => (fst a, (snd a, arg_names [fst a] (snd a)))) args.

  Definition distinct_ids (l : list ident) : bool :=
    (fix go (l : list ident) : bool :=
       match l with [] => true | x :: r => negb (existsb (Nat.eqb x) r) && go r end) l.

  (* translate_ast: (args, returns, expressions) before the optimizer *)
  Record lfun := mklfun { lf_args : list (ident * binding); lf_ret : binding; lf_defs : sdefs }.

  Definition trans_fun (args : list (ident * ty)) (rt : ty) (body : list pstmt) : option lfun :=
    if negb (distinct_ids (map fst args)) then None else
    let G0 := arg_env args in
    option_map (fun dg => mklfun G0 (rt, arg_names [ret_id] rt) (fst dg)) (trans_body G0 rt body).

  (* the definition list over numbered symbols, as BexpTT.run_defs takes it *)
  Definition numbered (ds : sdefs) : defs := map (fun d => (num (fst d), snd d)) ds.
End Translator.

(* ------------------------------------------------------------------ *)
(* decidable side conditions of the soundness theorems (P_Texp.v)      *)
(* ------------------------------------------------------------------ *)
Fixpoint sname_eqb (a b : sname) : bool :=
  match a, b with
  | [], [] => true
  | x :: a', y :: b' => Nat.eqb x y && sname_eqb a' b'
  | _, _ => false
  end.
Fixpoint snames_eqb (a b : list sname) : bool :=
  match a, b with
  | [], [] => true
  | x :: a', y :: b' => sname_eqb x y && snames_eqb a' b'
  | _, _ => false
  end.

(* a type whose sized components have at least 2 bits (every shipped sized type has): a name of
   such a type never evaluates to a bare Symbol (Arg.to_exp) unless it is a bool or a tuple.
   Tuples of any length, the empty one included, are fine (since 861badb / 4042692) *)
Fixpoint ty_good (t : ty) : bool :=
  match t with
  | TBool => true
  | TTuple l => forallb ty_good l
  | _ => (2 <=? ty_size t)%nat
  end.

(* no definition reads a symbol that an EARLIER definition of the same list assigns:
   evaluating the list in order is then evaluating it simultaneously *)
Fixpoint seq_ok (ds : defs) : bool :=
  match ds with
  | [] => true
  | (s, _) :: r => forallb (fun d => negb (existsb (Nat.eqb s) (bsyms (snd d)))) r && seq_ok r
  end.

Fixpoint nodupb (l : list nat) : bool :=
  match l with
  | [] => true
  | x :: r => negb (existsb (Nat.eqb x) r) && nodupb r
  end.

(* none of the assigned symbols is a bit of a binding OTHER than x *)
Definition fresh_for (num : sname -> nat) (G : env) (x : ident) (ds : defs) : bool :=
  forallb (fun yb => Nat.eqb (fst yb) x
                     || forallb (fun s => negb (existsb (Nat.eqb (num s)) (map fst ds))) (snd (snd yb))) G.

(* binding the translated value r to the name x.  The side condition of the soundness theorems
   is seq_ok alone (full = false).  With full = true also: the assigned symbol NUMBERS are
   distinct and clobber no other binding — consequences of an injective numbering (P_Texp),
   evaluated by the correspondence run on the numbering table it uses *)
Definition res_guard_g (full : bool) (num : sname -> nat) (G : env) (x : ident) (r : tres) : bool :=
  let ds := numbered num (decompose [x] (snd r)) in
  seq_ok ds && (if full then nodupb (map fst ds) && fresh_for num G x ds else true).

Definition stmt_guard_g (full : bool) (num : sname -> nat) (G : env) (rt : ty) (s : pstmt) : bool :=
  match s with
  | SAssign x e =>
      match trans_exp num G e with Some r => res_guard_g full num G x (regroup_value r) | None => true end
  | SReturn e =>
      match obind (trans_exp num G e) (ret_coerce rt) with
      | Some r => res_guard_g full num G ret_id (regroup_value r)
      | None => true
      end
  | SExpr e => true
  | SRaise => true
  end.

Fixpoint body_guard_g (full : bool) (num : sname -> nat) (G : env) (rt : ty) (body : list pstmt) : bool :=
  match body with
  | [] => true
  | s :: r =>
      stmt_guard_g full num G rt s &&
      match trans_stmt num G rt s with
      | Some dg => body_guard_g full num (snd dg) rt r
      | None => true
      end
  end.

(* ---- a syntactic class of statements for which the definitions of ONE statement can always be
   read simultaneously (P_Texp.class_stmt_sound): what qlasskit.ast2ast emits ---- *)
Fixpoint fv (e : pexp) : list ident :=
  match e with
  | EName x | ESub x _ => [x]
  | EBoolOp _ l | ETuple l => flat_map fv l
  | EUn _ a | EInt a | EFloat a => fv a
  | EIf c t f => fv c ++ fv t ++ fv f
  | ECmp _ a b | EBin _ a b => fv a ++ fv b
  | _ => []
  end.
(* x is not read by e *)
Definition fresh_in (x : ident) (e : pexp) : bool := negb (existsb (Nat.eqb x) (fv e)).
(* e reads x only as the "unchanged" branch of if-expressions whose tests and other branches do not
   read x: `X if c else x`, `x if c else X`, nested (what an `if` statement becomes) *)
Fixpoint selfite (x : ident) (e : pexp) : bool :=
  match e with
  | EName y => Nat.eqb y x
  | EIf c t f =>
      fresh_in x c && ((selfite x t && (selfite x f || fresh_in x f)) || (fresh_in x t && selfite x f))
  | _ => false
  end.
Definition stmt_class (s : pstmt) : bool :=
  match s with
  | SAssign x e => fresh_in x e || selfite x e
  | SReturn e => fresh_in ret_id e
  | SExpr _ => true
  | SRaise => true
  end.

(* the side condition of the statement theorems: in the class, or seq_ok evaluated on the program *)
Definition stmt_guard2 (num : sname -> nat) (G : env) (rt : ty) (s : pstmt) : bool :=
  stmt_class s || stmt_guard_g false num G rt s.
Fixpoint body_guard2 (num : sname -> nat) (G : env) (rt : ty) (body : list pstmt) : bool :=
  match body with
  | [] => true
  | s :: r =>
      stmt_guard2 num G rt s &&
      match trans_stmt num G rt s with
      | Some dg => body_guard2 num (snd dg) rt r
      | None => true
      end
  end.

Definition res_guard := res_guard_g false.
Definition stmt_guard := stmt_guard_g false.
Definition body_guard := body_guard_g false.

(* ------------------------------------------------------------------ *)
(* the typed reference evaluator                                       *)
(* ------------------------------------------------------------------ *)
(* bool | unsigned integer of a width | fixed point (i, f) as the scaled integer
   value * 2^f | character | tuple *)
Inductive value :=
| VB (b : bool)
| VI (w : nat) (n : N)
| VF (i f : nat) (n : N)
| VC (c : N)
| VT (l : list value).

Fixpoint type_of (v : value) : ty :=
  match v with
  | VB _ => TBool
  | VI w _ => TQint w
  | VF i f _ => TQfixed i f
  | VC _ => TQchar
  | VT l => TTuple (map type_of l)
  end.

Definition venv := list (ident * value).

Definition pw (w : nat) : N := (2 ^ N.of_nat w)%N.

(* the narrowest of the widths 2, 4, 6, 8, 12, 16 that holds n *)
Definition const_width (n : N) : option nat :=
  find (fun w => (n <? pw w)%N) [2; 4; 6; 8; 12; 16]%nat.

(* the scaled integer a Qfixed(i, f) encoding denotes: fraction bits (most significant
   first in the list) below the integer bits *)
Definition fix_val (i : nat) (bits : list bool) : N := bits_val (qrepr i bits).

Definition eval_const (c : cst) : option value :=
  match c with
  | CBool b => Some (VB b)
  | CInt z => if (z <? 0)%Z then None
              else option_map (fun w => VI w (Z.to_N z)) (const_width (Z.to_N z))
  | CFloat neg x =>
      (* a float literal denotes the first shipped Qfixed value within 0.05 of it *)
      if neg then None else
      match const_float_search shipped_qfixed x with
      | Some (i, f, bits) => Some (VF i f (fix_val i bits))
      | None => None
      end
  | CStr [c] => if (c <? 256)%N then Some (VC c) else None
  | _ => None
  end.

Definition eval_cast (t : ty) (c : cst) : option value :=
  if negb (known_type t) then None else
  match t, c with
  | TQint w, CInt z => Some (VI w (Z.to_N (z mod 2 ^ Z.of_nat w)%Z))
  | TQfixed i f, CInt z => if (z <? 0)%Z then None
                           else Some (VF i f (fix_val i (qfixed_const i f (mkdy (Z.to_N z) 0))))
  | TQfixed i f, CFloat neg x => if neg then None else Some (VF i f (fix_val i (qfixed_const i f x)))
  | TQchar, CStr [c] => if (c <? 256)%N then Some (VC c) else None
  | _, _ => None
  end.

Fixpoint sub_val (v : value) (p : list nat) : option value :=
  match p with
  | [] => Some v
  | i :: r =>
      match v with
      | VT l => match nth_error l i with Some v' => sub_val v' r | None => None end
      | VI w n => if (i <? w)%nat then sub_val (VB (N.testbit n (N.of_nat i))) r else None
      | _ => None
      end
  end.

Fixpoint all_vb (l : list value) : option (list bool) :=
  match l with
  | [] => Some []
  | VB b :: r => option_map (cons b) (all_vb r)
  | _ => None
  end.

Definition eval_boolop (op : bop) (l : list value) : option value :=
  match l with
  | [] => None
  | _ => option_map (fun bs => VB (match op with BoAnd => forallb id bs | BoOr => existsb id bs end))
                    (all_vb l)
  end.

Definition eval_un (op : uop) (v : value) : option value :=
  match op, v with
  | UoNot, VB b => Some (VB (negb b))
  | UoInvert, VI w n => Some (VI w (pw w - 1 - n)%N)
  | _, _ => None
  end.

Definition eval_if (c t f : value) : option value :=
  match c with
  | VB b =>
      if ty_eq (type_of t) (type_of f) then Some (if b then t else f)
      else match t, f with
           | VI wt x, VI wf y => Some (VI (Nat.max wt wf) (if b then x else y))
           | _, _ => None
           end
  | _ => None
  end.

Fixpoint value_eqb (a b : value) : bool :=
  match a, b with
  | VB x, VB y => Bool.eqb x y
  | VI w x, VI w' y => Nat.eqb w w' && (x =? y)%N
  | VF i f x, VF i' f' y => Nat.eqb i i' && Nat.eqb f f' && (x =? y)%N
  | VC x, VC y => (x =? y)%N
  | VT l, VT m =>
      (fix go (l m : list value) : bool :=
         match l, m with
         | [], [] => true
         | x :: l', y :: m' => value_eqb x y && go l' m'
         | _, _ => false
         end) l m
  | _, _ => false
  end.

Definition num_cmp (op : cop) (x y : N) : option bool :=
  match op with
  | CoEq => Some (x =? y)%N | CoNe => Some (negb (x =? y)%N)
  | CoLt => Some (x <? y)%N | CoLe => Some (x <=? y)%N
  | CoGt => Some (y <? x)%N | CoGe => Some (y <=? x)%N
  | CoOther => None
  end.

(* a tuple all of whose elements are bool or sized (what the translator can compare) *)
Definition flat_tuple_ty (t : ty) : bool :=
  match t with
  | TTuple (a :: l) => forallb (fun x => match x with TTuple _ => false | _ => true end) (a :: l)
  | _ => false
  end.

(* the common scale of two Qfixed types, when their common type is shipped *)
Definition fix_align (i1 f1 i2 f2 : nat) : option (nat * nat) :=
  if Nat.eqb i1 i2 && Nat.eqb f1 f2 then Some (i1, f1)
  else if is_shipped_qfixed (Nat.max i1 i2) (Nat.max f1 f2) then Some (Nat.max i1 i2, Nat.max f1 f2)
  else None.

Definition eval_cmp (op : cop) (a b : value) : option value :=
  match a, b with
  | VB x, VB y =>
      match op with
      | CoEq => Some (VB (Bool.eqb x y)) | CoNe => Some (VB (xorb x y)) | _ => None
      end
  | VI _ x, VI _ y => option_map VB (num_cmp op x y)
  | VC x, VC y =>
      match op with CoEq | CoNe => option_map VB (num_cmp op x y) | _ => None end
  | VF i1 f1 x, VF i2 f2 y =>
      match fix_align i1 f1 i2 f2 with
      | Some (i, f) =>
          if (0 <? i + f)%nat then option_map VB (num_cmp op (x * pw (f - f1))%N (y * pw (f - f2))%N)
          else None
      | None => None
      end
  | VT l, VT m =>
      if ty_eq (type_of a) (type_of b) && flat_tuple_ty (type_of a) then
        match op with
        | CoEq => Some (VB (value_eqb a b)) | CoNe => Some (VB (negb (value_eqb a b))) | _ => None
        end
      else None
  | _, _ => None
  end.

(* y = 2^k *)
Definition is_pow2 (y : N) : bool := (0 <? y)%N && (y =? 2 ^ N.log2 y)%N.

Definition eval_bin (op : aop) (sh : option (option nat)) (a b : value) : option value :=
  match a, b with
  | VB x, VB y =>
      match op with
      | AoXor => Some (VB (xorb x y)) | AoAnd => Some (VB (x && y)) | AoOr => Some (VB (x || y))
      | _ => None
      end
  | VI wl x, VI wr y =>
      let w := Nat.max wl wr in
      match op with
      | AoAdd => Some (VI w ((x + y) mod pw w)%N)
      | AoSub => Some (VI w ((x + pw w - y) mod pw w)%N)
      | AoMul => if (0 <? wl)%nat && (0 <? wr)%nat then
                   let s := mul_sizing (w + w) in Some (VI s ((x * y) mod pw s)%N)
                 else None
      | AoMod => if (0 <? wr)%nat && is_pow2 y then Some (VI w (x mod y)%N) else None
      | AoXor => Some (VI w (N.lxor x y))
      | AoAnd => Some (VI w (N.land x y))
      | AoOr => Some (VI w (N.lor x y))
      | AoShl => match sh with Some (Some k) => Some (VI wl ((x * pw k) mod pw wl)%N) | _ => None end
      | AoShr => match sh with Some (Some k) => Some (VI wl (x / pw k)%N) | _ => None end
      | AoOther => None
      end
  | VF i1 f1 x, VF i2 f2 y =>
      match fix_align i1 f1 i2 f2 with
      | Some (i, f) =>
          let xs := (x * pw (f - f1))%N in let ys := (y * pw (f - f2))%N in
          match op with
          | AoAdd => Some (VF i f ((xs + ys) mod pw (i + f))%N)
          | AoSub => Some (VF i f ((xs + pw (i + f) - ys) mod pw (i + f))%N)
          | _ => None
          end
      | None => None
      end
  | VF i f x, VI _ k =>
      match op with AoMul => Some (VF i f ((x * k) mod pw (i + f))%N) | _ => None end
  | VI _ k, VF i f x =>
      match op with AoMul => Some (VF i f ((x * k) mod pw (i + f))%N) | _ => None end
  | _, _ => None
  end.

Definition eval_int (v : value) : option value :=
  match v with
  | VI _ _ => Some v
  | VF i f n => Some (VI i (n / pw f)%N)
  | _ => None
  end.
Definition eval_float (v : value) : option value :=
  match v with
  | VF _ _ _ => Some v
  | VI w n => match qfixed_for_size w with
              | Some (TQfixed i f) => Some (VF i f (n * pw f)%N)
              | _ => None
              end
  | _ => None
  end.

Fixpoint eval_const_elts (l : list cst) : option (list value) :=
  match l with
  | [] => Some []
  | CBool _ :: _ => None            (* the code types a bool element as Qint2: no claim *)
  | c :: r => match eval_const c, eval_const_elts r with
              | Some a, Some b => Some (a :: b)
              | _, _ => None
              end
  end.

Fixpoint eval_exp (V : venv) (e : pexp) : option value :=
  let fix go (l : list pexp) : option (list value) :=
    match l with
    | [] => Some []
    | x :: r => match eval_exp V x, go r with Some a, Some b => Some (a :: b) | _, _ => None end
    end in
  match e with
  | EName x => lookup V x
  | ESub x p => match p with [] => None | _ => obind (lookup V x) (fun v => sub_val v p) end
  | EBoolOp op l => obind (go l) (eval_boolop op)
  | EUn op a => obind (eval_exp V a) (eval_un op)
  | EIf c t f =>
      obind (eval_exp V c) (fun vc => obind (eval_exp V t) (fun vt => obind (eval_exp V f) (fun vf =>
        eval_if vc vt vf)))
  | EConst c => eval_const c
  | EConstTup l => option_map VT (eval_const_elts l)
  | ETuple l => option_map VT (go l)
  | ECmp op a b => obind (eval_exp V a) (fun va => obind (eval_exp V b) (fun vb => eval_cmp op va vb))
  | EBin op a b =>
      let sh := match b with EConst c => Some (shift_amount c) | _ => None end in
      obind (eval_exp V a) (fun va => obind (eval_exp V b) (fun vb => eval_bin op sh va vb))
  | ECast t c => eval_cast t c
  | EInt a => obind (eval_exp V a) eval_int
  | EFloat a => obind (eval_exp V a) eval_float
  | ERaise => None
  end.

(* the return coercion: a narrower integer is zero-extended to the declared width, a
   wider one keeps its low bits; everything else must have exactly the declared type *)
Definition coerce_ret (rt : ty) (v : value) : option value :=
  match v, rt with
  | VI w n, TQint r =>
      if (w <? r)%nat then Some (VI r n)
      else if (r <? w)%nat then Some (VI r (n mod pw r)%N)
      else Some v
  | _, _ => if ty_eq (type_of v) rt then Some v else None
  end.

Definition eval_stmt (V : venv) (rt : ty) (s : pstmt) : option venv :=
  match s with
  | SAssign x e => option_map (fun v => bind V x v) (eval_exp V e)
  | SReturn e =>
      obind (eval_exp V e) (fun v => obind (coerce_ret rt v) (fun v' =>
        match lookup V ret_id with Some _ => None | None => Some (bind V ret_id v') end))
  | SExpr e => option_map (fun _ => V) (eval_exp V e)
  | SRaise => None
  end.

Fixpoint eval_body (V : venv) (rt : ty) (body : list pstmt) : option venv :=
  match body with
  | [] => Some V
  | s :: r => obind (eval_stmt V rt s) (fun V' => eval_body V' rt r)
  end.

(* the value a function returns on argument values vs (in the order of args) *)
Definition eval_fun (args : list (ident * ty)) (rt : ty) (body : list pstmt) (vs : list value) : option value :=
  if negb (Nat.eqb (length args) (length vs)) then None else
  if negb (forallb (fun av => ty_eq (type_of (snd av)) (snd (fst av))) (combine args vs)) then None else
  obind (eval_body (combine (map fst args) vs) rt body) (fun V => lookup V ret_id).

(* ------------------------------------------------------------------ *)
(* bits <-> values                                                     *)
(* ------------------------------------------------------------------ *)
(* the value a bit list denotes at type t *)
Fixpoint decode (t : ty) (bs : list bool) : option value :=
  match t with
  | TBool => match bs with [b] => Some (VB b) | _ => None end
  | TQint w => if Nat.eqb (length bs) w then Some (VI w (bits_val bs)) else None
  | TQfixed i f => if Nat.eqb (length bs) (i + f) then Some (VF i f (fix_val i bs)) else None
  | TQchar => if Nat.eqb (length bs) 8 then Some (VC (bits_val bs)) else None
  | TTuple l =>
      option_map VT
        ((fix go (l : list ty) (bs : list bool) : option (list value) :=
            match l with
            | [] => match bs with [] => Some [] | _ => None end
            | x :: r =>
                match decode x (firstn (ty_size x) bs), go r (skipn (ty_size x) bs) with
                | Some a, Some b => Some (a :: b)
                | _, _ => None
                end
            end) l bs)
  end.

(* the bits of a value (little-endian integers, Qfixed layout integer bits then fraction bits) *)
Fixpoint encode (v : value) : list bool :=
  match v with
  | VB b => [b]
  | VI w n => nbits w n
  | VF i f n => unrepr f (nbits (i + f) n)
  | VC c => nbits 8 c
  | VT l => flat_map encode l
  end.

(* the meaning of a translated expression under an assignment of the symbols *)
Definition den (rho : nat -> bool) (r : tres) : option value :=
  decode (fst r) (map (beval rho) (flat (snd r))).
